(** * ASModel.ProgressW — solo completion bound for the writers (C09).

    A measure [mu] on (stack, shared memory, remaining budget of spurious compare-exchange
    failures) that strictly decreases with every step of a thread that runs alone.  The
    measure is compositional: the cost of the active frame plus the costs of the waiting
    frames below it, where every waiting frame is charged for the worst continuation that
    is compatible with what the frames above it are predicted to return. *)
From Coq Require Import Lia ZArith Arith.
From ASModel Require Import Base State Orderings_gen Step Run Progress.

Local Notation n2 := N.to_nat.
Local Open Scope nat_scope.
Local Infix "=?" := N.eqb (at level 70) : nat_scope.

(** ** What the frames above a waiting frame will hand down *)
Inductive pred :=
| PNone                 (* nothing known *)
| PVal (v : N)          (* returns a guard on [v] *)
| PFresh (v : N)        (* returns a guard on [v]; no container is written before that *)
| PKeep.                (* no container is written before the return *)

Definition pred_le (a b : pred) : Prop :=
  b = PNone \/ a = b \/ (exists v, a = PFresh v /\ b = PVal v).

Definition conf (r : retval) (p : pred) : Prop :=
  match p with
  | PVal v | PFresh v => exists d, r = RGuard v d
  | _ => True
  end.

Definition reads_store (p : pred) : bool :=
  match p with PFresh _ | PKeep => true | _ => false end.

(** ** Constants *)
Definition NODE : nat := 63.
Definition RD : nat := 40.
Definition RD2 : nat := 42.
Definition FINR : nat := 6.
Definition GETC (H k : nat) : nat := 5 * H + k + 3.
Definition LOADX (H k : nat) : nat := GETC H k + 28.
Definition PAYC (H : nat) : nat := NODE * H + 7.
Definition CR (H k : nat) : nat := LOADX H k + 4.
Definition KS (H k : nat) : nat := GETC H k + PAYC H + 2.
Definition AC (j H k : nat) : nat := j * CR H k + KS H k + 1.
Definition ATTg (H k : nat) : nat := LOADX H k + AC k H k + FINR + 1.
Definition ATTb (H k : nat) : nat := LOADX H k + ATTg H k + 4.

(** Extra help rounds a writer may need on node [w] when it believes the control word is
    [ctl]: none if the word still has that value or does not ask for help (or is the
    thread's own word, which its nested load is about to reset), one otherwise. *)
Definition is_genb (v : N) : bool := N.land v TAG_MASK =? GEN_TAG.
Definition phi2 (sh : shared) (cz : option N) (w ctl : N) : nat :=
  if (match cz with Some n => n =? w | None => false end)
     || (mem sh (LCtrl w) =? ctl) || negb (is_genb (mem sh (LCtrl w)))
  then 0 else 1.

Definition bw (w : N) : nat := NODE * n2 w + 23.

(** ** The active frame *)
Definition um (sh : shared) (c cur : N) : nat := if mem sh (LStore c) =? cur then 0 else 1.
Definition att (sh : shared) (c q : N) (H k : nat) : nat :=
  if mem sh (LStore c) =? q then ATTg H k else ATTb H k.
Definition att_np (sh : shared) (c q : N) (k : nat) : nat := k + 2 + um sh c q.

(** Nodes the frame may still push onto the list (through Node::get) before it returns. *)
Definition np_top (sh : shared) (k : nat) (p : pc) : nat :=
  match p with
  | GHead | GCool1 _ | GCool2 _ | GCool3 _ | GBack _ | GClaim _ | GPush0 | GPush _ => 1
  | S1 _ _ | Q1 _ _ _ => 1
  | K1 c cur _ _ _ => k + um sh c cur + 1
  | RAlloc c _ q _ | RInc c _ q _ => att_np sh c q k
  | _ => 0
  end.

Definition rem0 (p : pc) : nat := match rem p with Some m => m | None => 0 end.

Definition tcost (sh : shared) (k H : nat) (p : pc) : nat :=
  match p with
  | GHead => GETC H k
  | GCool1 w => 5 * n2 w + k + 7 | GCool2 w => 5 * n2 w + k + 6 | GCool3 w => 5 * n2 w + k + 5
  | GBack w => 5 * n2 w + k + 4 | GClaim w => 5 * n2 w + k + 3
  | GPush0 => k + 2
  | GPush h => k + 1 + (if h =? mem sh LHead then 0 else 1)
  | C1 _ => 3 | C2 _ => 2 | C3 _ => 1
  | PDec _ _ => 1 | GD1 _ _ => 2 | GI1 _ _ => 3 | GI2 _ _ => 2
  | P1 _ _ => PAYC H | P2 _ _ => NODE * H + 6
  | P3 _ _ w => bw w + RD + 4 | PE0d _ _ w => bw w + RD + 3 | PE0e _ _ w => bw w + RD + 2
  | PE1 _ _ w => bw w + RD + 1
  | PE2 _ _ w ctl => bw w + RD + phi2 sh None w ctl * RD2
  | PE3 _ _ w ctl => bw w + (RD - 1) + phi2 sh None w ctl * RD2
  | PE4 _ _ w ctl _ => bw w + 5 + phi2 sh None w ctl * RD2
  | PE5 _ _ w ctl _ _ => bw w + 4 + phi2 sh None w ctl * RD2
  | PE6 _ _ w ctl _ _ _ => bw w + 3 + phi2 sh None w ctl * RD2
  | PE7 _ _ w ctl _ _ _ => bw w + 2 + phi2 sh None w ctl * RD2
  | PE8 _ _ w _ => bw w + 1
  | PE9 _ _ w newctl _ =>
      bw w + 1 + (if is_genb newctl then RD + phi2 sh None w newctl * RD2 else 0)
  | PS _ _ w j => NODE * n2 w + 5 + 2 * (9 - n2 j)
  | PSi _ _ w j => NODE * n2 w + 4 + 2 * (9 - n2 j)
  | P5 _ _ w => NODE * n2 w + 5
  | P6 _ _ => 4
  | S1 _ _ => GETC H k + PAYC H + 1
  | K1 c cur _ _ _ => AC (k + um sh c cur) H k
  | RAlloc c _ q _ | RInc c _ q _ => att sh c q H k
  | Q1 _ _ _ => LOADX H k + 5
  | NewAlloc | CloneInc _ => 1
  | _ => rem0 p
  end.

Definition curv (sh : shared) (c : N) : N := mem sh (LStore c).

Definition tpred (sh : shared) (l : tlocal) (p : pc) : pred :=
  let n := own_node l in
  match p with
  | LA1 c | LA1d c _ | LAscan c _ _ | LA3 c _ _ | LA4 c _ _ | LA5 c _ _ | LA6 c _
  | LH0d c | LH1 c _ | LH2 c _ => PFresh (curv sh c)
  | LH3 c gt => if mem sh (LCtrl n) =? gt then PFresh (curv sh c) else PNone
  | LH3d _ gt v | LH4 _ gt v | LH5 _ gt v => if mem sh (LCtrl n) =? gt then PFresh v else PNone
  | LH6a v | LH6b v | LH6c v => PFresh v
  | LH7 _ e => PFresh (mem sh (LEnv e))
  | LH8 _ _ r | LH9 _ r | LH10 _ r => PFresh r
  | K1 c cur _ v _ =>
      if curv sh c =? cur then (if v =? cur then PVal cur else PNone) else PFresh (curv sh c)
  | S1 _ _ | RAlloc _ _ _ _ | RInc _ _ _ _ | Q1 _ _ _ => PNone
  | P1 _ _ | P2 _ _ | P3 _ _ _ | PE0d _ _ _ | PE0e _ _ _ | PE1 _ _ _ | PE2 _ _ _ _ | PE3 _ _ _ _
  | PE4 _ _ _ _ _ | PE5 _ _ _ _ _ _ | PE6 _ _ _ _ _ _ _ | PE7 _ _ _ _ _ _ _ | PE8 _ _ _ _
  | PE9 _ _ _ _ _ | PS _ _ _ _ | PSi _ _ _ _ | P5 _ _ _ | P6 _ _ => PNone
  | PDec _ (RGuard v _) => PFresh v
  | _ => PKeep
  end.

(** The node whose control word is certainly not a help request any more when the
    frames above return: the thread's own node while its load is in the fallback. *)
Definition tcz (l : tlocal) (p : pc) : option N :=
  match p with
  | LA5 _ _ _ | LA6 _ _ | LH0d _ | LH1 _ _ | LH2 _ _ | LH3 _ _ | LH3d _ _ _ | LH4 _ _ _
  | LH5 _ _ _ => Some (own_node l)
  | _ => None
  end.

(** ** Waiting frames *)
Definition casj (sh : shared) (k : nat) (pr : pred) (c cur : N) : option nat :=
  match pr with
  | PFresh v => if v =? cur then Some (k + um sh c cur) else None
  | PVal v => if v =? cur then Some (k + 1) else None
  | _ => Some (k + 1)
  end.

Definition retryo (sh : shared) (k : nat) (pr : pred) (c cur : N) : option nat :=
  if reads_store pr then (if curv sh c =? cur then Some k else None) else Some (k + 1).

(* (more nodes, cost given the head bound) of the continuation of rcu after its
   compare_and_swap returned *)
Definition rcuq (sh : shared) (pr : pred) (c : N) : option (N * bool) :=
  match pr with
  | PFresh q => Some (q, curv sh c =? q)
  | PVal q => Some (q, false)
  | _ => None
  end.

Definition wnp (sh : shared) (k : nat) (pr : pred) (w : pc) : nat :=
  match w with
  | WCasLoad c cur _ => match casj sh k pr c cur with Some j => j + 1 | None => 0 end
  | WCasRetry c cur _ => match retryo sh k pr c cur with Some j => j + 2 | None => 1 end
  | WRcuLoad c _ => match pr with PFresh v => att_np sh c v k | _ => k + 3 end
  | WRcuCas c _ p _ =>
      match rcuq sh pr c with
      | Some (q, g) => if p =? q then 0 else if g then k + 2 else k + 3
      | None => k + 3
      end
  | WRcuNext c _ q _ => if reads_store pr then att_np sh c q k else k + 3
  | _ => 0
  end.

Definition wcost (sh : shared) (k H : nat) (pr : pred) (cz : option N) (w : pc) : nat :=
  match w with
  | WGetLoad _ => 28
  | WGetPay _ _ => PAYC H
  | WLoadFull => 3
  | WHelpRepl _ _ w ctl => bw w + 5 + phi2 sh cz w ctl * RD2
  | WDropOld | WDropStore _ | WCacheReload _ _ _ | WCasPaid _ _ => 1
  | WCasLoad c cur _ => match casj sh k pr c cur with Some j => AC j H k | None => 1 end
  | WCasRetry c cur _ =>
      match retryo sh k pr c cur with Some j => LOADX H k + AC j H k | None => LOADX H k + 1 end
  | WRcuLoad c _ => match pr with PFresh v => att sh c v H k | _ => ATTb H k end
  | WRcuCas c _ p _ =>
      match rcuq sh pr c with
      | Some (q, g) => if p =? q then FINR else if g then 2 + ATTg H k else 2 + ATTb H k
      | None => 2 + ATTb H k
      end
  | WRcuNext c _ q _ => if reads_store pr then att sh c q H k else ATTb H k
  | WRcuInto _ _ => 2
  | _ => 0
  end.

Definition wpred (sh : shared) (pr : pred) (w : pc) : pred :=
  match w with
  | WGetLoad c => if reads_store pr then PFresh (curv sh c) else PNone
  | WExit (RGuard v _) => if reads_store pr then PFresh v else PVal v
  | WCasPaid p _ => PVal p
  | WCasLoad c cur _ =>
      match pr with
      | PFresh v => if v =? cur then (if curv sh c =? cur then PVal cur else PNone) else PFresh v
      | PVal v => if v =? cur then PNone else PVal v
      | _ => PNone
      end
  | WCasRetry c cur _ =>
      if reads_store pr then (if curv sh c =? cur then PVal cur else PFresh (curv sh c)) else PNone
  | _ => PNone
  end.

Fixpoint go (sh : shared) (k H : nat) (pr : pred) (cz : option N) (stk : list pc) : nat :=
  match stk with
  | [] => 0
  | w :: rest =>
      if is_bottom w then 0
      else let H' := (H + wnp sh k pr w)%nat in
           (wcost sh k H' pr cz w + go sh k H' (wpred sh pr w) cz rest)%nat
  end.

Definition headn (sh : shared) : nat := n2 (mem sh LHead).

Definition mu (sh : shared) (l : tlocal) (k : nat) (stk : list pc) : nat :=
  match stk with
  | [] => 0
  | p :: rest =>
      let H := (headn sh + np_top sh k p)%nat in
      (tcost sh k H p + go sh k H (tpred sh l p) (tcz l p) rest)%nat
  end.

(** ** Arithmetic of the constants *)
Lemma GETC_mono H' H k' k : H' <= H -> k' <= k -> GETC H' k' <= GETC H k.
Proof. unfold GETC. lia. Qed.
Lemma LOADX_mono H' H k' k : H' <= H -> k' <= k -> LOADX H' k' <= LOADX H k.
Proof. intros. unfold LOADX. pose proof (GETC_mono H' H k' k). lia. Qed.
Lemma PAYC_mono H' H : H' <= H -> PAYC H' <= PAYC H.
Proof. unfold PAYC, NODE. lia. Qed.
Lemma CR_mono H' H k' k : H' <= H -> k' <= k -> CR H' k' <= CR H k.
Proof. intros. unfold CR. pose proof (LOADX_mono H' H k' k). lia. Qed.
Lemma KS_mono H' H k' k : H' <= H -> k' <= k -> KS H' k' <= KS H k.
Proof. intros. unfold KS. pose proof (GETC_mono H' H k' k). pose proof (PAYC_mono H' H). lia. Qed.
Lemma AC_mono j' j H' H k' k : j' <= j -> H' <= H -> k' <= k -> AC j' H' k' <= AC j H k.
Proof.
  intros. unfold AC. pose proof (CR_mono H' H k' k). pose proof (KS_mono H' H k' k).
  assert (j' * CR H' k' <= j * CR H k) by (apply Nat.mul_le_mono; auto). lia.
Qed.
Lemma AC_S j H k : AC (S j) H k = CR H k + AC j H k.
Proof. unfold AC. lia. Qed.
Lemma AC_lb j H k : KS H k + 1 <= AC j H k.
Proof. unfold AC. lia. Qed.
Lemma ATTg_mono H' H k' k : H' <= H -> k' <= k -> ATTg H' k' <= ATTg H k.
Proof.
  intros. unfold ATTg. pose proof (LOADX_mono H' H k' k). pose proof (AC_mono k' k H' H k' k). lia.
Qed.
Lemma ATTb_mono H' H k' k : H' <= H -> k' <= k -> ATTb H' k' <= ATTb H k.
Proof.
  intros. unfold ATTb. pose proof (LOADX_mono H' H k' k). pose proof (ATTg_mono H' H k' k). lia.
Qed.
Lemma ATTg_le_b H k : ATTg H k <= ATTb H k.
Proof. unfold ATTb. lia. Qed.

Lemma um_le1 sh c cur : um sh c cur <= 1.
Proof. unfold um. destruct (_ =? _); lia. Qed.

Lemma pred_le_refl a : pred_le a a.
Proof. right; left; reflexivity. Qed.
Lemma pred_le_none a : pred_le a PNone.
Proof. left; reflexivity. Qed.
Lemma pred_le_reads a b : pred_le a b -> reads_store b = true -> a = b.
Proof.
  intros [->|[->|(v & -> & ->)]]; cbn; try discriminate; auto.
Qed.

(** ** Monotonicity of the waiting part *)
Definition ole (a b : option nat) : Prop :=
  match a, b with
  | None, _ => True
  | Some x, Some y => x <= y
  | Some _, None => False
  end.

Ltac pl := first [ left; reflexivity | right; left; reflexivity
                 | right; right; eexists; split; reflexivity ].

Section Mono.
  Variables (sh' sh : shared) (k' k : nat) (pr' pr : pred) (cz' cz : option N).
  Hypothesis Hk : k' <= k.
  Hypothesis Hle : pred_le pr' pr.
  Hypothesis Hst : reads_store pr = true -> forall c, curv sh' c = curv sh c.
  Hypothesis Hphi : forall w ctl, phi2 sh' cz' w ctl <= phi2 sh cz w ctl.

  Lemma um_st c cur : reads_store pr = true -> um sh' c cur = um sh c cur.
  Proof. intros H. unfold um. fold (curv sh' c) (curv sh c). rewrite (Hst H). reflexivity. Qed.

  Lemma casj_mono c cur : ole (casj sh' k' pr' c cur) (casj sh k pr c cur).
  Proof.
    pose proof (um_le1 sh' c cur). pose proof (um_st c cur) as Hu.
    destruct Hle as [->|[->|(v & -> & ->)]].
    - destruct pr'; cbn; try lia; destruct (_ =? _); cbn; lia.
    - destruct pr; cbn; try lia; destruct (_ =? _); cbn; try lia; auto.
      rewrite Hu by reflexivity. lia.
    - cbn. destruct (_ =? _); cbn; try lia; auto.
  Qed.

  Lemma retryo_mono c cur : ole (retryo sh' k' pr' c cur) (retryo sh k pr c cur).
  Proof.
    unfold retryo.
    destruct Hle as [->|[->|(v & -> & ->)]]; cbn [reads_store].
    - destruct (reads_store pr'); [destruct (_ =? _)|]; cbn; lia.
    - destruct (reads_store pr) eqn:E; [rewrite (Hst eq_refl); destruct (_ =? _)|]; cbn; auto; lia.
    - destruct (_ =? _); cbn; lia.
  Qed.

  Lemma att_st c q H' H : reads_store pr = true -> H' <= H ->
    att sh' c q H' k' <= att sh c q H k /\ att_np sh' c q k' <= att_np sh c q k.
  Proof.
    intros Hr HH. unfold att, att_np, um. fold (curv sh' c) (curv sh c). rewrite (Hst Hr).
    pose proof (ATTg_mono H' H k' k HH Hk). pose proof (ATTb_mono H' H k' k HH Hk).
    destruct (_ =? _); lia.
  Qed.
  Lemma att_le_b c q H' H : H' <= H ->
    att sh' c q H' k' <= ATTb H k /\ att_np sh' c q k' <= k + 3.
  Proof.
    intros HH. unfold att, att_np. pose proof (um_le1 sh' c q).
    pose proof (ATTg_mono H' H k' k HH Hk). pose proof (ATTb_mono H' H k' k HH Hk).
    pose proof (ATTg_le_b H k). destruct (_ =? _); lia.
  Qed.

  Lemma wnp_mono w : wnp sh' k' pr' w <= wnp sh k pr w.
  Proof.
    destruct w; cbn [wnp]; try lia;
      try (pose proof (att_st c) as As; pose proof (att_le_b c) as Ab).
    - pose proof (casj_mono c cur) as Hc. destruct (casj sh' k' pr' c cur), (casj sh k pr c cur); cbn in Hc; try lia; contradiction.
    - pose proof (retryo_mono c cur) as Hc. destruct (retryo sh' k' pr' c cur), (retryo sh k pr c cur); cbn in Hc; try lia; contradiction.
    - destruct Hle as [->|[->|(v & -> & ->)]].
      + destruct pr'; try lia. apply (Ab v 0 0); lia.
      + destruct pr; try lia. apply (As v 0 0); auto.
      + apply (Ab v 0 0); lia.
    - destruct Hle as [->|[->|(v & -> & ->)]]; cbn [rcuq].
      + destruct (rcuq sh' pr' c) as [[q g]|]; try lia. destruct (_ =? _); try lia. destruct g; lia.
      + destruct pr; cbn [rcuq]; try lia.
        * destruct (_ =? _); try lia.
        * rewrite (Hst eq_refl). destruct (_ =? _); try lia. destruct (_ =? _); lia.
      + destruct (_ =? _); try lia. destruct (_ =? _); lia.
    - destruct Hle as [->|[->|(v & -> & ->)]]; cbn [reads_store].
      + destruct (reads_store pr'); try lia. apply (Ab q 0 0); lia.
      + destruct (reads_store pr) eqn:E; try lia. apply (As q 0 0); auto.
      + apply (Ab q 0 0); lia.
  Qed.

  Lemma wcost_mono w H1' H1 : H1' <= H1 ->
    wcost sh' k' H1' pr' cz' w <= wcost sh k H1 pr cz w.
  Proof.
    intros HH.
    pose proof (ATTg_mono H1' H1 k' k HH Hk) as Mg. pose proof (ATTb_mono H1' H1 k' k HH Hk) as Mb.
    pose proof (ATTg_le_b H1 k) as Mgb.
    assert (6 <= ATTg H1 k) as Mlb by (unfold ATTg, FINR; lia).
    destruct w; cbn [wcost]; try lia;
      try (pose proof (att_st c) as As; pose proof (att_le_b c) as Ab).
    - apply PAYC_mono; auto.
    - pose proof (Hphi w ctl). unfold RD2. lia.
    - pose proof (casj_mono c cur) as Hc. pose proof (AC_lb 0 H1 k).
      destruct (casj sh' k' pr' c cur) as [j'|], (casj sh k pr c cur) as [j|]; cbn in Hc; try lia; try contradiction.
      + apply AC_mono; auto.
      + pose proof (AC_lb j H1 k). lia.
    - pose proof (retryo_mono c cur) as Hc. pose proof (LOADX_mono H1' H1 k' k HH Hk).
      destruct (retryo sh' k' pr' c cur) as [j'|], (retryo sh k pr c cur) as [j|]; cbn in Hc; try lia; try contradiction.
      + pose proof (AC_mono j' j H1' H1 k' k). lia.
      + pose proof (AC_lb j H1 k). lia.
    - destruct Hle as [->|[->|(v & -> & ->)]].
      + destruct pr'; try lia. apply (Ab v H1' H1); lia.
      + destruct pr; try lia. apply (As v H1' H1); auto.
      + apply (Ab v H1' H1); lia.
    - unfold FINR in *. destruct Hle as [->|[->|(v & -> & ->)]]; cbn [rcuq].
      + destruct (rcuq sh' pr' c) as [[q g]|]; try lia. destruct (_ =? _); try lia. destruct g; lia.
      + destruct pr; cbn [rcuq]; try lia.
        * destruct (_ =? _); try lia.
        * rewrite (Hst eq_refl). destruct (_ =? _); try lia. destruct (_ =? _); lia.
      + destruct (_ =? _); try lia. destruct (_ =? _); lia.
    - destruct Hle as [->|[->|(v & -> & ->)]]; cbn [reads_store].
      + destruct (reads_store pr'); try lia. apply (Ab q H1' H1); lia.
      + destruct (reads_store pr) eqn:E; try lia. apply (As q H1' H1); auto.
      + apply (Ab q H1' H1); lia.
  Qed.

  Lemma wpred_mono w : pred_le (wpred sh' pr' w) (wpred sh pr w).
  Proof.
    destruct w; cbn [wpred]; try apply pred_le_refl.
    - (* WGetLoad *)
      destruct Hle as [->|[->|(v & -> & ->)]]; cbn [reads_store]; try apply pred_le_none.
      destruct (reads_store pr) eqn:E; [rewrite (Hst eq_refl)|]; apply pred_le_refl.
    - (* WExit *)
      destruct r; try apply pred_le_refl.
      destruct Hle as [->|[->|(v & -> & ->)]]; cbn [reads_store].
      + destruct (reads_store pr'); pl.
      + pl.
      + pl.
    - (* WCasLoad *)
      destruct Hle as [->|[->|(v & -> & ->)]]; try apply pred_le_none.
      + destruct pr; try apply pred_le_refl. rewrite (Hst eq_refl). apply pred_le_refl.
      + destruct (_ =? _); pl.
    - (* WCasRetry *)
      destruct Hle as [->|[->|(v & -> & ->)]]; cbn [reads_store]; try apply pred_le_none.
      destruct (reads_store pr) eqn:E; [rewrite (Hst eq_refl)|]; apply pred_le_refl.
  Qed.

  Lemma wpred_reads w : reads_store (wpred sh pr w) = true -> reads_store pr = true.
  Proof.
    destruct w; cbn [wpred]; try discriminate.
    - destruct (reads_store pr); auto.
    - destruct r; try discriminate. destruct (reads_store pr); auto.
    - destruct pr; try discriminate; cbn [reads_store]; auto. destruct (_ =? _); discriminate.
    - destruct (reads_store pr); auto.
  Qed.
End Mono.

Lemma go_mono stk : forall sh' sh k' k H' H pr' pr cz' cz,
  k' <= k -> H' <= H -> pred_le pr' pr ->
  (reads_store pr = true -> forall c, curv sh' c = curv sh c) ->
  (forall w ctl, phi2 sh' cz' w ctl <= phi2 sh cz w ctl) ->
  go sh' k' H' pr' cz' stk <= go sh k H pr cz stk.
Proof.
  induction stk as [|w rest IH]; intros sh' sh k' k H' H pr' pr cz' cz Hk HH Hle Hst Hphi; cbn [go]; [lia|].
  destruct (is_bottom w); [lia|].
  pose proof (wnp_mono sh' sh k' k pr' pr Hk Hle Hst w) as Hn.
  pose proof (wcost_mono sh' sh k' k pr' pr cz' cz Hk Hle Hst Hphi w
                (H' + wnp sh' k' pr' w) (H + wnp sh k pr w) ltac:(lia)) as Hc.
  specialize (IH sh' sh k' k (H' + wnp sh' k' pr' w) (H + wnp sh k pr w)
                 (wpred sh' pr' w) (wpred sh pr w) cz' cz Hk ltac:(lia)
                 (wpred_mono sh' sh pr' pr Hle Hst w)).
  assert (reads_store (wpred sh pr w) = true -> forall c, curv sh' c = curv sh c) as Hst2.
  { intros Hr. apply Hst. eapply wpred_reads; eauto. }
  specialize (IH Hst2 Hphi). lia.
Qed.

(** ** Entering calls *)
Lemma phi2_none sh cz w ctl : phi2 sh cz w ctl <= phi2 sh None w ctl.
Proof. unfold phi2. destruct cz as [n|]; [destruct (n =? w)|]; cbn; destruct (_ || _); lia. Qed.

Lemma go_weaken sh k H' H pr' pr cz stk :
  H' <= H -> pred_le pr' pr -> go sh k H' pr' cz stk <= go sh k H pr None stk.
Proof.
  intros. apply go_mono; auto. intros. apply phi2_none.
Qed.

Lemma mu_top_le sh l k p rest C H1 pr1 :
  headn sh + np_top sh k p <= H1 ->
  tcost sh k (headn sh + np_top sh k p) p <= C ->
  pred_le (tpred sh l p) pr1 ->
  mu sh l k (p :: rest) <= C + go sh k H1 pr1 None rest.
Proof.
  intros HH HC Hp. cbn [mu].
  pose proof (go_weaken sh k _ _ _ _ (tcz l p) rest HH Hp). lia.
Qed.

Lemma fallback_entry_pred cf sh l c l' p' :
  fallback_entry cf l c = (l', NGoto p') ->
  tpred sh l' p' = PFresh (curv sh c) /\ np_top sh 0 p' = 0 /\ (forall k, np_top sh k p' = 0) /\
  (forall k H, tcost sh k H p' <= 14).
Proof.
  unfold fallback_entry. destruct (tl_node l); [|discriminate].
  destruct (cf_debug cf); intros [= <- <-]; cbn; repeat split; auto; intros; cbn; lia.
Qed.

Lemma mu_enter_load cf sh l k c l' fs tail :
  enter_load cf l c = inl (l', fs) ->
  mu sh l' k (fs ++ tail) <=
  LOADX (headn sh + 1) k + go sh k (headn sh + 1) (PFresh (curv sh c)) None tail.
Proof.
  unfold enter_load. destruct (tl_node l) eqn:Hn.
  - unfold load_body. destruct (cf_use_fast cf).
    + intros [= <- <-]. cbn [app].
      eapply Nat.le_trans; [apply (mu_top_le _ _ _ _ _ 28 (headn sh + 1) (PFresh (curv sh c)))|].
      * cbn. lia.
      * cbn. lia.
      * apply pred_le_refl.
      * unfold LOADX. lia.
    + destruct (fallback_entry cf _ c) as [l2 nx] eqn:Hf. destruct nx; try discriminate.
      intros [= <- <-]. cbn [app].
      destruct (fallback_entry_pred cf sh _ c _ _ Hf) as (Hp & _ & Hnp & Hc).
      eapply Nat.le_trans; [apply (mu_top_le _ _ _ _ _ 28 (headn sh + 1) (PFresh (curv sh c)))|].
      * rewrite Hnp. lia.
      * pose proof (Hc k (headn sh + np_top sh k p)). lia.
      * rewrite Hp. apply pred_le_refl.
      * unfold LOADX. lia.
  - intros [= <- <-]. cbn. rewrite !Nat.add_0_r. unfold LOADX. lia.
Qed.

Lemma mu_enter_pay sh l k c old l' fs tail :
  enter_pay l c old = (l', fs) ->
  mu sh l' k (fs ++ tail) <=
  GETC (headn sh + 1) k + PAYC (headn sh + 1) + go sh k (headn sh + 1) PNone None tail.
Proof.
  unfold enter_pay. destruct (tl_node l) eqn:Hn; intros [= <- <-].
  - cbn [app]. pose proof (PAYC_mono (headn sh) (headn sh + 1) ltac:(lia)).
    eapply Nat.le_trans; [apply (mu_top_le _ _ _ _ _ (PAYC (headn sh + 1)) (headn sh + 1) PNone)|].
    + unfold pay_body. destruct (_ =? _); cbn; lia.
    + unfold pay_body. destruct (_ =? _); cbn; rewrite Nat.add_0_r; unfold PAYC in *; lia.
    + apply pred_le_none.
    + lia.
  - cbn. rewrite !Nat.add_0_r. lia.
Qed.

Lemma mu_gdrop sh l k p d f fs tail :
  guard_drop_frames p d = f :: fs ->
  fs = [] /\ mu sh l k (f :: tail) <= 2 + go sh k (headn sh) PKeep None tail.
Proof.
  unfold guard_drop_frames. destruct d as [sl|]; [|destruct (p =? 0); [discriminate|]];
    intros [= <- <-]; (split; [reflexivity|]);
    (eapply Nat.le_trans; [apply (mu_top_le _ _ _ _ _ 2 (headn sh) PKeep); cbn; try lia; apply pred_le_refl|lia]).
Qed.

Lemma mu_ginto sh l k p d f fs tail :
  guard_into_frames p d = f :: fs ->
  fs = [] /\ mu sh l k (f :: tail) <= 3 + go sh k (headn sh) PKeep None tail.
Proof.
  unfold guard_into_frames. destruct d as [sl|]; [destruct (p =? 0)|discriminate];
    intros [= <- <-]; (split; [reflexivity|]);
    (eapply Nat.le_trans; [apply (mu_top_le _ _ _ _ _ 3 (headn sh) PKeep); cbn; try lia; apply pred_le_refl|lia]).
Qed.

Lemma go_PKeep_le sh k H' H stk : H' <= H -> go sh k H' PKeep None stk <= go sh k H PNone None stk.
Proof. intros. apply go_weaken; auto. apply pred_le_none. Qed.

(** ** One attempt of rcu *)
Definition att_bound (sh : shared) (k : nat) (c p : N) (rest : list pc) : nat :=
  att sh c p (headn sh + att_np sh c p k) k + go sh k (headn sh + att_np sh c p k) PNone None rest.

Lemma mu_att_push cf sh l k c m p d x l' fs rest :
  enter_load cf l c = inl (l', fs) ->
  mu sh l' k ((fs ++ [WCasLoad c p x]) ++ WRcuCas c m p d :: rest) + 1 <= att_bound sh k c p rest.
Proof.
  intros He. rewrite <- app_assoc. cbn [app].
  eapply Nat.le_trans; [apply Nat.add_le_mono_r; eapply mu_enter_load; exact He|].
  unfold att_bound, att, att_np, um. fold (curv sh c).
  cbn [go is_bottom wnp wcost wpred casj rcuq]. unfold um. fold (curv sh c).
  destruct (curv sh c =? p) eqn:E.
  - cbn [wnp wcost wpred rcuq]. rewrite ?N.eqb_refl, !Nat.add_0_r.
    replace (headn sh + 1 + (k + 1)) with (headn sh + (k + 2)) by lia.
    pose proof (LOADX_mono (headn sh + 1) (headn sh + (k + 2)) k k ltac:(lia) ltac:(lia)).
    unfold ATTg. lia.
  - cbn [wnp wcost wpred rcuq]. rewrite ?N.eqb_refl, ?(N.eqb_sym p), ?E, !Nat.add_0_r.
    replace (headn sh + 1 + (k + 2)) with (headn sh + (k + 2 + 1)) by lia.
    pose proof (LOADX_mono (headn sh + 1) (headn sh + (k + 2 + 1)) k k ltac:(lia) ltac:(lia)).
    unfold ATTb. lia.
Qed.

Lemma att_lb sh c p H k : 6 <= att sh c p H k.
Proof. unfold att, ATTb, ATTg, FINR. destruct (_ =? _); lia. Qed.

Lemma mu_rcu_attempt cf sh l k c m p d l' nx rest :
  rcu_attempt cf l c m p d = (l', nx) ->
  match nx with
  | NGoto p' => mu sh l' k (p' :: rest) <= att_bound sh k c p rest
  | NPush fs wt => mu sh l' k (fs ++ wt :: rest) <= att_bound sh k c p rest
  | _ => True
  end.
Proof.
  assert (Halloc : forall m0, mu sh l k (RAlloc c m0 p d :: rest) <= att_bound sh k c p rest).
  { intros m0. unfold att_bound. cbn [mu np_top tcost tpred tcz]. lia. }
  assert (Hpush : forall x, match enter_load cf l c with
            | inl (l'0, frames) => (l'0, NPush (frames ++ [WCasLoad c p x]) (WRcuCas c m p d))
            | inr ps => (l, NPanic ps) end = (l', nx) ->
            match nx with
            | NGoto p' => mu sh l' k (p' :: rest) <= att_bound sh k c p rest
            | NPush fs wt => mu sh l' k (fs ++ wt :: rest) <= att_bound sh k c p rest
            | _ => True end).
  { intros x. destruct (enter_load cf l c) as [[l0 fs]|ps] eqn:He; intros [= <- <-]; [|exact I].
    pose proof (mu_att_push cf sh l k c m p d x l0 fs rest He). lia. }
  assert (Hpanic : forall g, guard_drop_frames p d = g -> match g with [] => (l, NRet RPanic) | _ :: _ => (l, NPush g WRcuPanic) end = (l', nx) ->
            match nx with
            | NGoto p' => mu sh l' k (p' :: rest) <= att_bound sh k c p rest
            | NPush fs wt => mu sh l' k (fs ++ wt :: rest) <= att_bound sh k c p rest
            | _ => True end).
  { intros g Hg. destruct g as [|f fs]; intros [= <- <-]; [exact I|].
    destruct (mu_gdrop sh l k p d f fs (WRcuPanic :: rest) Hg) as [-> Hm]. cbn [app].
    cbn [go is_bottom wnp wcost wpred] in Hm. rewrite !Nat.add_0_r in Hm.
    unfold att_bound. pose proof (att_lb sh c p (headn sh + att_np sh c p k) k).
    pose proof (go_PKeep_le sh k (headn sh) (headn sh + att_np sh c p k) rest ltac:(lia)).
    assert (go sh k (headn sh) PNone None rest <= go sh k (headn sh + att_np sh c p k) PNone None rest)
      by (apply go_weaken; [lia|apply pred_le_refl]). lia. }
  unfold rcu_attempt. destruct m.
  - intros [= <- <-]. apply Halloc.
  - apply Hpush.
  - destruct (p =? 0); [apply Hpush|]. intros [= <- <-].
    unfold att_bound. cbn [mu np_top tcost tpred tcz]. lia.
  - destruct (k0 =? 0)%N.
    + generalize (Hpanic _ eq_refl). destruct (guard_drop_frames p d); auto.
    + intros [= <- <-]. apply Halloc.
Qed.

(** ** Resuming a waiting frame costs no more than what it was charged *)
Definition wbound (sh : shared) (k H : nat) (pr : pred) (w : pc) (rest : list pc) : nat :=
  wcost sh k (H + wnp sh k pr w) pr None w +
  go sh k (H + wnp sh k pr w) (wpred sh pr w) None rest.

Definition res_ok (sh : shared) (k H : nat) (pr : pred) (w : pc) (l' : tlocal) (nx : next) : Prop :=
  match nx with
  | NGoto p' => forall rest, mu sh l' k (p' :: rest) <= wbound sh k H pr w rest
  | NPush fs wt => forall rest, mu sh l' k (fs ++ wt :: rest) <= wbound sh k H pr w rest
  | NRet v' => conf v' (wpred sh pr w)
  | _ => True
  end.

Lemma res_dec sh k H pr w l a r :
  headn sh <= H -> 1 <= wcost sh k (H + wnp sh k pr w) pr None w ->
  conf r (wpred sh pr w) ->
  pred_le (tpred sh l (PDec a r)) (wpred sh pr w) ->
  res_ok sh k H pr w l (dec_then a r).
Proof.
  intros HH Hc Hcf Hp. unfold dec_then. destruct (a =? 0); cbn [res_ok]; [exact Hcf|].
  intros rest. unfold wbound.
  eapply Nat.le_trans; [apply (mu_top_le _ _ _ _ _ 1 (H + wnp sh k pr w) (wpred sh pr w)); cbn [np_top tcost]; try lia; exact Hp|lia].
Qed.

Lemma res_simple sh k H pr w l p C :
  headn sh <= H -> np_top sh k p = 0 -> (forall H0, tcost sh k H0 p <= C) ->
  C <= wcost sh k (H + wnp sh k pr w) pr None w ->
  pred_le (tpred sh l p) (wpred sh pr w) ->
  res_ok sh k H pr w l (NGoto p).
Proof.
  intros HH Hn Hc HC Hp rest. unfold wbound.
  eapply Nat.le_trans; [apply (mu_top_le _ _ _ _ _ C (H + wnp sh k pr w) (wpred sh pr w)); auto; rewrite Hn; lia|lia].
Qed.

Lemma res_casload sh k H pr c cur new p d l :
  headn sh <= H -> conf (RGuard p d) pr ->
  res_ok sh k H pr (WCasLoad c cur new) l
    (if p =? cur then NGoto (K1 c cur new p d) else dec_then new (RGuard p d)).
Proof.
  intros HH Hcf. pose proof (um_le1 sh c cur) as Hu.
  destruct (p =? cur) eqn:E.
  - apply N.eqb_eq in E. subst p. intros rest. unfold wbound.
    assert (exists j, casj sh k pr c cur = Some j /\ k + um sh c cur <= j) as (j & Hj & Hle).
    { destruct pr; cbn [casj conf] in *; try (eexists; split; [reflexivity|lia]);
        destruct Hcf as (d0 & [= <-]); rewrite N.eqb_refl; eexists; split; try reflexivity; lia. }
    cbn [wnp wcost]. rewrite Hj.
    apply mu_top_le.
    + cbn [np_top]. lia.
    + cbn [np_top tcost]. apply AC_mono; lia.
    + cbn [tpred wpred]. rewrite N.eqb_refl.
      destruct pr; cbn [conf] in Hcf; try apply pred_le_none;
        destruct Hcf as (d0 & [= <-]); rewrite N.eqb_refl; try apply pred_le_none.
      destruct (curv sh c =? cur); [apply pred_le_refl|apply pred_le_none].
  - apply res_dec; auto.
    + cbn [wnp wcost]. destruct (casj sh k pr c cur) as [j|]; [|lia].
      pose proof (AC_lb j (H + (j + 1)) k). lia.
    + cbn [wpred]. destruct pr; cbn [conf] in *; auto;
        destruct Hcf as (d0 & [= <-]); rewrite E; cbn; eauto.
    + cbn [tpred wpred]. destruct pr; cbn [conf] in *; try apply pred_le_none;
        destruct Hcf as (d0 & [= <-]); rewrite E; pl.
Qed.

Lemma res_casretry cf sh k H pr c cur new l l' fs :
  headn sh <= H -> enter_load cf l c = inl (l', fs) ->
  res_ok sh k H pr (WCasRetry c cur new) l' (NPush fs (WCasLoad c cur new)).
Proof.
  intros HH He rest. unfold wbound.
  eapply Nat.le_trans; [eapply mu_enter_load; exact He|].
  cbn [go is_bottom wnp wcost wpred casj]. unfold um, retryo. fold (curv sh c).
  destruct (curv sh c =? cur) eqn:E; cbn [wnp wcost wpred]; rewrite ?E.
  - set (j := if reads_store pr then k else k + 1). assert (k <= j) by (unfold j; destruct (reads_store pr); lia).
    replace (match (if reads_store pr then Some k else Some (k + 1)) with Some j0 => j0 + 2 | None => 1 end) with (j + 2)
      by (unfold j; destruct (reads_store pr); reflexivity).
    replace (match (if reads_store pr then Some k else Some (k + 1)) with
             | Some j0 => LOADX (H + (j + 2)) k + AC j0 (H + (j + 2)) k | None => LOADX (H + (j + 2)) k + 1 end)
      with (LOADX (H + (j + 2)) k + AC j (H + (j + 2)) k) by (unfold j; destruct (reads_store pr); reflexivity).
    pose proof (LOADX_mono (headn sh + 1) (H + (j + 2)) k k ltac:(lia) ltac:(lia)).
    pose proof (AC_mono (k + 0) j (headn sh + 1 + (k + 0 + 1)) (H + (j + 2)) k k ltac:(lia) ltac:(lia) ltac:(lia)).
    pose proof (go_weaken sh k (headn sh + 1 + (k + 0 + 1)) (H + (j + 2)) (PVal cur)
                  (if reads_store pr then PVal cur else PNone) None rest ltac:(lia)
                  ltac:(destruct (reads_store pr); [apply pred_le_refl|apply pred_le_none])). lia.
  - destruct (reads_store pr) eqn:Er.
    + pose proof (LOADX_mono (headn sh + 1) (H + 1) k k ltac:(lia) ltac:(lia)).
      pose proof (go_weaken sh k (headn sh + 1 + 0) (H + 1) (PFresh (curv sh c)) (PFresh (curv sh c)) None rest
                    ltac:(lia) (pred_le_refl _)). lia.
    + pose proof (LOADX_mono (headn sh + 1) (H + (k + 1 + 2)) k k ltac:(lia) ltac:(lia)).
      pose proof (AC_lb (k + 1) (H + (k + 1 + 2)) k).
      pose proof (go_weaken sh k (headn sh + 1 + 0) (H + (k + 1 + 2)) (PFresh (curv sh c)) PNone None rest
                    ltac:(lia) (pred_le_none _)). lia.
Qed.

Lemma att_mono sh c q H' H k : H' <= H -> att sh c q H' k <= att sh c q H k.
Proof.
  intros. unfold att. pose proof (ATTg_mono H' H k k). pose proof (ATTb_mono H' H k k).
  destruct (_ =? _); lia.
Qed.

Lemma att_bound_le sh k c q rest H1 C :
  headn sh + att_np sh c q k <= H1 -> att sh c q H1 k <= C ->
  att_bound sh k c q rest <= C + go sh k H1 PNone None rest.
Proof.
  intros HH HC. unfold att_bound.
  pose proof (att_mono sh c q _ _ k HH).
  pose proof (go_weaken sh k _ _ PNone PNone None rest HH (pred_le_refl _)). lia.
Qed.

Lemma res_of_attempt cf sh k H pr w l c m q dq l' nx :
  (forall rest, att_bound sh k c q rest <= wbound sh k H pr w rest) ->
  wpred sh pr w = PNone ->
  rcu_attempt cf l c m q dq = (l', nx) ->
  res_ok sh k H pr w l' nx.
Proof.
  intros Hb Hp Ha. pose proof (mu_rcu_attempt cf sh l k c m q dq l' nx) as Hm.
  destruct nx; cbn [res_ok]; try exact I.
  - intros rest. exact (Nat.le_trans _ _ _ (Hm rest Ha) (Hb rest)).
  - intros rest. exact (Nat.le_trans _ _ _ (Hm rest Ha) (Hb rest)).
  - rewrite Hp. exact I.
Qed.

Lemma res_rcuload cf sh k H pr c m p d l l' nx :
  headn sh <= H -> conf (RGuard p d) pr ->
  rcu_attempt cf l c m p d = (l', nx) ->
  res_ok sh k H pr (WRcuLoad c m) l' nx.
Proof.
  intros HH Hcf. apply res_of_attempt; [|reflexivity].
  intros rest. unfold wbound. cbn [wnp wcost wpred].
  destruct pr; cbn [conf] in Hcf; try destruct Hcf as (d0 & [= <-]);
    apply att_bound_le; try lia;
    try (apply (att_le_b sh k k (Nat.le_refl _) c p); lia);
    try (pose proof (att_le_b sh k k (Nat.le_refl _) c p 0 0 ltac:(lia)); lia).
Qed.

Lemma res_rcunext cf sh k H pr c m q dq l l' nx :
  headn sh <= H ->
  rcu_attempt cf l c m q dq = (l', nx) ->
  res_ok sh k H pr (WRcuNext c m q dq) l' nx.
Proof.
  intros HH. apply res_of_attempt; [|reflexivity].
  intros rest. unfold wbound. cbn [wnp wcost wpred].
  pose proof (att_le_b sh k k (Nat.le_refl _) c q 0 0 ltac:(lia)) as [_ Hn].
  destruct (reads_store pr); apply att_bound_le; try lia.
  apply (att_le_b sh k k (Nat.le_refl _) c q). lia.
Qed.

(* the continuation of rcu after compare_and_swap returned a guard on [q] *)
Lemma res_rcucas cf sh k H pr c m p d q dq l l' nx :
  headn sh <= H -> conf (RGuard q dq) pr ->
  resume cf l (WRcuCas c m p d) (RGuard q dq) = (l', nx) ->
  res_ok sh k H pr (WRcuCas c m p d) l' nx.
Proof.
  intros HH Hcf.
  assert (Hq : match rcuq sh pr c with Some (q0, _) => q0 = q | None => True end).
  { destruct pr; cbn [rcuq conf] in *; auto; destruct Hcf as (d0 & [= <-]); reflexivity. }
  cbn [resume]. destruct (p =? q) eqn:E.
  - (* done *)
    assert (HC : 6 <= wcost sh k (H + wnp sh k pr (WRcuCas c m p d)) pr None (WRcuCas c m p d)).
    { cbn [wnp wcost]. destruct (rcuq sh pr c) as [[q0 g]|].
      - subst q0. rewrite E. unfold FINR. lia.
      - unfold ATTb. lia. }
    destruct (guard_into_frames q dq) as [|f fs] eqn:Hi.
    + destruct (guard_drop_frames p d) as [|f fs] eqn:Hg; intros [= <- <-]; [exact I|].
      intros rest. destruct (mu_gdrop sh l k p d f fs (WRcuRet q :: rest) Hg) as [-> Hm].
      cbn [app]. cbn [go is_bottom wnp wcost wpred] in Hm. rewrite !Nat.add_0_r in Hm.
      unfold wbound. cbn [wpred].
      pose proof (go_weaken sh k (headn sh) (H + wnp sh k pr (WRcuCas c m p d)) PNone PNone None rest ltac:(lia) (pred_le_refl _)). lia.
    + intros [= <- <-]. intros rest.
      destruct (mu_ginto sh l k q dq f fs (WRcuInto p d :: rest) Hi) as [-> Hm].
      cbn [app]. cbn [go is_bottom wnp wcost wpred] in Hm. rewrite !Nat.add_0_r in Hm.
      unfold wbound. cbn [wpred].
      pose proof (go_weaken sh k (headn sh) (H + wnp sh k pr (WRcuCas c m p d)) PNone PNone None rest ltac:(lia) (pred_le_refl _)). lia.
  - (* next round *)
    pose proof (att_le_b sh k k (Nat.le_refl _) c q) as Hab.
    assert (Hb : forall rest, 2 + att_bound sh k c q rest <= wbound sh k H pr (WRcuCas c m p d) rest).
    { intros rest. unfold wbound. cbn [wnp wcost wpred].
      destruct (rcuq sh pr c) as [[q0 g]|] eqn:Hr.
      - subst q0. rewrite E. destruct g.
        + assert (curv sh c =? q = true) as Hc.
          { destruct pr; cbn [rcuq] in Hr; try discriminate; injection Hr as <- Hr; auto. }
          unfold att_bound, att, att_np, um. fold (curv sh c). rewrite Hc.
          pose proof (ATTg_mono (headn sh + (k + 2 + 0)) (H + (k + 2)) k k ltac:(lia) ltac:(lia)).
          pose proof (go_weaken sh k (headn sh + (k + 2 + 0)) (H + (k + 2)) PNone PNone None rest ltac:(lia) (pred_le_refl _)). lia.
        + rewrite <- Nat.add_assoc. apply Nat.add_le_mono_l. apply att_bound_le; [|apply Hab; lia].
          pose proof (Hab 0 0 ltac:(lia)). lia.
      - rewrite <- Nat.add_assoc. apply Nat.add_le_mono_l. apply att_bound_le; [|apply Hab; lia].
        pose proof (Hab 0 0 ltac:(lia)). lia. }
    destruct (guard_drop_frames p d) as [|f fs] eqn:Hg.
    + apply res_of_attempt; [|reflexivity]. intros rest. specialize (Hb rest). lia.
    + intros [= <- <-]. intros rest. specialize (Hb rest).
      destruct (mu_gdrop sh l k p d f fs (WRcuNext c (rcu_next_mode m) q dq :: rest) Hg) as [-> Hm].
      cbn [app]. cbn [go is_bottom wnp wcost wpred reads_store] in Hm.
      unfold att_bound in Hb. lia.
Qed.

Lemma resume_ok cf sh l k H pr w v l' nx :
  headn sh <= H -> conf v pr -> is_bottom w = false ->
  resume cf l w v = (l', nx) ->
  res_ok sh k H pr w l' nx.
Proof.
  intros HH Hcf Hb.
  destruct w; try discriminate Hb; cbn [resume];
    try (intros [= <- <-]; exact I).
  - (* WGetLoad *)
    destruct v; try (intros [= <- <-]; exact I).
    unfold load_body. destruct (cf_use_fast cf).
    + intros [= <- <-]. apply (res_simple _ _ _ _ _ _ _ 28); auto; cbn; try lia.
      destruct (reads_store pr); pl.
    + intros Hf. destruct nx; try exact I;
        try (pose proof (fallback_entry_rem _ _ _ _ _ Hf) as Hr; cbn in Hr; contradiction).
      destruct (fallback_entry_pred cf sh _ c _ _ Hf) as (Hp & _ & Hnp & Hc).
      apply (res_simple _ _ _ _ _ _ _ 28); auto.
      * intros. pose proof (Hc k H0). lia.
      * rewrite Hp. cbn [wpred]. destruct (reads_store pr); pl.
  - (* WGetPay *)
    destruct v; try (intros [= <- <-]; exact I).
    intros [= <- <-]. intros rest. unfold wbound. cbn [wnp wcost wpred].
    apply mu_top_le.
    + unfold pay_body. destruct (_ =? _); cbn; lia.
    + unfold pay_body. pose proof (PAYC_mono (headn sh + 0) (H + 0) ltac:(lia)).
      destruct (_ =? _); cbn; unfold PAYC in *; lia.
    + apply pred_le_none.
  - (* WGetSetGen *)
    destruct v; intros [= <- <-]; exact I.
  - (* WExit *)
    intros [= <- <-]. cbn [res_ok wpred]. destruct r; try exact I.
    destruct (reads_store pr); cbn; eauto.
  - (* WLoadFull *)
    destruct v; try (intros [= <- <-]; exact I).
    destruct (guard_into_frames p d) as [|f fs] eqn:Hi; intros [= <- <-]; [exact I|].
    intros rest. destruct (mu_ginto sh l k p d f fs rest Hi) as [_ Hm].
    unfold wbound. cbn [wnp wcost wpred].
    pose proof (go_PKeep_le sh k (headn sh) (H + 0) rest ltac:(lia)). lia.
  - (* WHelpRepl *)
    destruct v; try (intros [= <- <-]; exact I).
    intros [= <- <-]. intros rest. unfold wbound. cbn [wnp wcost wpred].
    apply mu_top_le; cbn [np_top tcost tpred]; try lia. apply pred_le_none.
  - (* WDropOld *)
    destruct v; try (intros [= <- <-]; exact I).
    intros [= <- <-]. apply res_dec; auto; try exact I. apply pred_le_none.
  - (* WCasLoad *)
    destruct v; try (intros [= <- <-]; exact I).
    destruct (p =? cur) eqn:E; intros [= <- <-];
      pose proof (res_casload sh k H pr c cur new p d l HH Hcf) as R; rewrite E in R; exact R.
  - (* WCasPaid *)
    intros [= <- <-]. apply res_dec; auto; cbn; eauto. pl.
  - (* WCasRetry *)
    destruct (enter_load cf l c) as [[l0 fs]|ps] eqn:He; intros [= <- <-]; [|exact I].
    eapply res_casretry; eauto.
  - (* WRcuLoad *)
    destruct v; try (intros [= <- <-]; exact I).
    eapply res_rcuload; eauto.
  - (* WRcuCas *)
    destruct v; try (intros [= <- <-]; exact I).
    intros Hr. eapply res_rcucas; eauto.
  - (* WRcuInto *)
    destruct v; try (intros [= <- <-]; exact I).
    destruct (guard_drop_frames p d) as [|f fs] eqn:Hg; intros [= <- <-]; [exact I|].
    intros rest. destruct (mu_gdrop sh l k p d f fs (WRcuRet p0 :: rest) Hg) as [-> Hm].
    cbn [app]. cbn [go is_bottom wnp wcost wpred] in Hm. rewrite !Nat.add_0_r in Hm.
    unfold wbound. cbn [wnp wcost wpred].
    pose proof (go_weaken sh k (headn sh) (H + 0) PNone PNone None rest ltac:(lia) (pred_le_refl _)). lia.
  - (* WRcuNext *)
    eapply res_rcunext; eauto.
  - (* WDropStore *)
    intros [= <- <-]. apply res_dec; auto; try exact I. apply pred_le_none.
  - (* WCacheReload *)
    destruct v; try (intros [= <- <-]; exact I).
    destruct (a =? 0); intros [= <- <-]; [exact I|].
    apply (res_simple _ _ _ _ _ _ _ 1); auto; cbn; try lia. apply pred_le_none.
Qed.

(** ** Handing a value down the stack *)
Lemma unwind_nb cf l w rest v :
  is_bottom w = false ->
  unwind cf l (w :: rest) v =
  match resume cf l w v with
  | (l', NGoto p) => UStack l' (p :: rest)
  | (l', NPush frames wait) => UStack l' (frames ++ wait :: rest)
  | (l', NRet v') => unwind cf l' rest v'
  | (l', NPanic s) => UPanic l' s
  | (l', NFault f) => UFault l' f
  end.
Proof. destruct w; try discriminate; reflexivity. Qed.

Lemma unwind_le cf sh k : forall rest l H pr v,
  headn sh <= H -> conf v pr ->
  match unwind cf l rest v with
  | UStack l' stk => mu sh l' k stk <= go sh k H pr None rest
  | _ => True
  end.
Proof.
  induction rest as [|w rest IH]; intros l H pr v HH Hcf; [exact I|].
  destruct (is_bottom w) eqn:Hb.
  - destruct w; try discriminate; exact I.
  - rewrite (unwind_nb _ _ _ _ _ Hb). cbn [go]. rewrite Hb.
    destruct (resume cf l w v) as [l' nx] eqn:Hr.
    pose proof (resume_ok cf sh l k H pr w v l' nx HH Hcf Hb Hr) as R.
    destruct nx; cbn [res_ok] in R; try exact I.
    + apply R.
    + apply R.
    + specialize (IH l' (H + wnp sh k pr w) (wpred sh pr w) v0 ltac:(lia) R).
      destruct (unwind cf l' rest v0); try exact I. lia.
Qed.

(** ** One step of the active frame *)
Definition step_ok (sh : shared) (l : tlocal) (k : nat) (p : pc)
           (sh' : shared) (l' : tlocal) (k' : nat) (nx : next) : Prop :=
  match nx with
  | NGoto p' => forall rest, mu sh' l' k' (p' :: rest) < mu sh l k (p :: rest)
  | NPush fs w => forall rest, mu sh' l' k' (fs ++ w :: rest) < mu sh l k (p :: rest)
  | NRet v =>
      conf v (tpred sh l p) /\ headn sh' <= headn sh + np_top sh k p /\
      forall rest, go sh' k' (headn sh + np_top sh k p) (tpred sh l p) None rest
                   < mu sh l k (p :: rest)
  | _ => True
  end.

Record keeps (sh sh' : shared) : Prop := {
  k_head : mem sh' LHead = mem sh LHead;
  k_store : forall c, curv sh' c = curv sh c;
  k_ctl : forall w, mem sh' (LCtrl w) = mem sh (LCtrl w);
}.

Lemma keeps_refl sh : keeps sh sh.
Proof. split; reflexivity. Qed.

Lemma keeps_m_set sh loc v :
  loc <> LHead -> (forall c, loc <> LStore c) -> (forall w, loc <> LCtrl w) ->
  keeps sh (m_set sh loc v).
Proof.
  intros H1 H2 H3. split; intros; unfold curv; cbn; unfold upd;
    destruct (decide (_ = loc)) as [E|E]; try reflexivity; exfalso; symmetry in E;
    first [exact (H1 E)|exact (H2 _ E)|exact (H3 _ E)].
Qed.

Lemma keeps_rc_inc sh a sh' evs : rc_inc sh a = Some (sh', evs) -> keeps sh sh'.
Proof.
  unfold rc_inc. destruct (heap sh a); [|discriminate]. intros [= <- <-].
  apply keeps_m_set; congruence.
Qed.
Lemma keeps_rc_dec sh a sh' evs : rc_dec sh a = Some (sh', evs) -> keeps sh sh'.
Proof.
  unfold rc_dec. destruct (heap sh a); [|discriminate]. destruct (_ =? 1); intros [= <- <-].
  - split; intros; unfold curv; cbn; unfold upd; destruct (decide _); congruence.
  - apply keeps_m_set; congruence.
Qed.
Lemma keeps_rc_alloc sh a sh' evs : rc_alloc sh a = Some (sh', evs) -> keeps sh sh'.
Proof.
  unfold rc_alloc. destruct (heap sh a); [discriminate|]. destruct (valid_addr a); [|discriminate].
  intros [= <- <-]. split; intros; unfold curv; cbn; unfold upd; destruct (decide _); congruence.
Qed.

Lemma keeps_phi2 sh sh' cz w ctl : keeps sh sh' -> phi2 sh' cz w ctl = phi2 sh cz w ctl.
Proof. intros K. unfold phi2. rewrite (k_ctl _ _ K). reflexivity. Qed.
Lemma keeps_headn sh sh' : keeps sh sh' -> headn sh' = headn sh.
Proof. intros K. unfold headn. rewrite (k_head _ _ K). reflexivity. Qed.

Lemma lt_ok sh l k p sh' k' (M : list pc -> nat) C H1 pr1 cz1 :
  (forall rest, M rest <= C + go sh' k' H1 pr1 cz1 rest) ->
  k' <= k -> H1 <= headn sh + np_top sh k p ->
  C < tcost sh k (headn sh + np_top sh k p) p ->
  pred_le pr1 (tpred sh l p) ->
  (reads_store (tpred sh l p) = true -> forall c, curv sh' c = curv sh c) ->
  (forall w ctl, phi2 sh' cz1 w ctl <= phi2 sh (tcz l p) w ctl) ->
  forall rest, M rest < mu sh l k (p :: rest).
Proof.
  intros HM Hk HH HC Hp Hst Hphi rest. specialize (HM rest). cbn [mu].
  pose proof (go_mono rest sh' sh k' k H1 (headn sh + np_top sh k p) pr1 (tpred sh l p)
                cz1 (tcz l p) Hk HH Hp Hst Hphi). lia.
Qed.

Lemma goto_ok sh l k p sh' l' k' p' :
  k' <= k ->
  headn sh' + np_top sh' k' p' <= headn sh + np_top sh k p ->
  tcost sh' k' (headn sh' + np_top sh' k' p') p' < tcost sh k (headn sh + np_top sh k p) p ->
  pred_le (tpred sh' l' p') (tpred sh l p) ->
  (reads_store (tpred sh l p) = true -> forall c, curv sh' c = curv sh c) ->
  (forall w ctl, phi2 sh' (tcz l' p') w ctl <= phi2 sh (tcz l p) w ctl) ->
  step_ok sh l k p sh' l' k' (NGoto p').
Proof.
  intros Hk HH HC Hp Hst Hphi. cbn [step_ok].
  apply (lt_ok sh l k p sh' k' (fun rest => mu sh' l' k' (p' :: rest))
               (tcost sh' k' (headn sh' + np_top sh' k' p') p')
               (headn sh' + np_top sh' k' p') (tpred sh' l' p') (tcz l' p')); auto.
Qed.

Lemma ret_ok sh l k p sh' l' k' v :
  k' <= k -> conf v (tpred sh l p) ->
  headn sh' <= headn sh + np_top sh k p ->
  1 <= tcost sh k (headn sh + np_top sh k p) p ->
  (reads_store (tpred sh l p) = true -> forall c, curv sh' c = curv sh c) ->
  (forall w ctl, phi2 sh' None w ctl <= phi2 sh (tcz l p) w ctl) ->
  step_ok sh l k p sh' l' k' (NRet v).
Proof.
  intros Hk Hcf HH HC Hst Hphi. cbn [step_ok]. split; [exact Hcf|]. split; [exact HH|].
  apply (lt_ok sh l k p sh' k' (fun rest => go sh' k' (headn sh + np_top sh k p) (tpred sh l p) None rest)
               0 (headn sh + np_top sh k p) (tpred sh l p) None); auto; try lia.
  apply pred_le_refl.
Qed.

Definition spur (p : pc) (x : N) : nat :=
  match p with
  | K1 _ _ _ _ _ | GPush _ => if x =? 1 then 1 else 0
  | _ => 0
  end.

Lemma goto_keeps sh l k p sh' l' k' p' :
  keeps sh sh' -> k' <= k ->
  np_top sh' k' p' <= np_top sh k p ->
  tcost sh' k' (headn sh + np_top sh' k' p') p' < tcost sh k (headn sh + np_top sh k p) p ->
  pred_le (tpred sh' l' p') (tpred sh l p) ->
  (forall w ctl, phi2 sh (tcz l' p') w ctl <= phi2 sh (tcz l p) w ctl) ->
  step_ok sh l k p sh' l' k' (NGoto p').
Proof.
  intros K Hk Hn HC Hp Hphi. apply goto_ok; auto.
  - rewrite (keeps_headn _ _ K). lia.
  - rewrite (keeps_headn _ _ K). exact HC.
  - intros _. apply (k_store _ _ K).
  - intros. rewrite (keeps_phi2 _ _ _ _ _ K). apply Hphi.
Qed.

Lemma ret_keeps sh l k p sh' l' k' v :
  keeps sh sh' -> k' <= k -> conf v (tpred sh l p) ->
  1 <= tcost sh k (headn sh + np_top sh k p) p ->
  tcz l p = None ->
  step_ok sh l k p sh' l' k' (NRet v).
Proof.
  intros K Hk Hcf HC Hz. apply ret_ok; auto.
  - rewrite (keeps_headn _ _ K). lia.
  - intros _. apply (k_store _ _ K).
  - intros. rewrite (keeps_phi2 _ _ _ _ _ K), Hz. lia.
Qed.

Ltac kp :=
  first [ apply keeps_refl
        | apply keeps_m_set; [discriminate | intros; discriminate | intros; discriminate]
        | eapply keeps_rc_inc; eassumption
        | eapply keeps_rc_dec; eassumption
        | eapply keeps_rc_alloc; eassumption ].

Ltac ar :=
  cbn [np_top tcost tpred tcz]; unfold rem0; cbn [rem];
  try change ((0 <=? 7)%N) with true; cbn beta iota;
  unfold bw, LOADX, GETC, PAYC, NODE, RD, RD2, headn in *; try lia.

Ltac gk := apply goto_keeps; [kp | lia | ar | ar | cbn [tpred]; try pl | intros; cbn [tcz]; first [lia | apply phi2_none | apply Nat.le_refl | idtac]].
Ltac rk := apply ret_keeps; [kp | lia | try exact I | ar | reflexivity].

Lemma node_init_mem s n loc :
  (forall i, loc <> LSlot n i) -> loc <> LCtrl n -> loc <> LAddr n -> loc <> LOffer n ->
  loc <> LEnv n -> loc <> LInUse n -> loc <> LWriters n ->
  mem (node_init s n) loc = mem s loc.
Proof.
  intros. cbn. unfold upd.
  repeat match goal with
         | |- context [decide (loc = ?a)] =>
             destruct (decide (loc = a)) as [E|_]; [exfalso; subst loc; eauto; congruence|]
         end. reflexivity.
Qed.

Lemma node_init_ctl s n : mem (node_init s n) (LCtrl n) = IDLE.
Proof.
  cbn. unfold upd.
  repeat match goal with
         | |- context [decide (LCtrl n = ?a)] =>
             destruct (decide (LCtrl n = a)) as [E|E']; [try discriminate E; try reflexivity|try (exfalso; apply E'; reflexivity); try clear E']
         end.
Qed.

Definition is_getcool (p : pc) : bool :=
  match p with
  | GHead | GCool1 _ | GCool2 _ | GCool3 _ | GBack _ | GClaim _ | GPush0 | GPush _
  | C1 _ | C2 _ | C3 _ => true
  | _ => false
  end.

Lemma exec_getcool cf sh l p x k sh' l' evs nx :
  is_getcool p = true -> spur p x <= k ->
  exec cf sh l p x = (sh', l', evs, nx) ->
  step_ok sh l k p sh' l' (k - spur p x) nx.
Proof.
  intros Hg Hs. destruct p; try discriminate Hg; clear Hg; unfold exec;
    cbn [a_load a_cas a_store a_swap a_fadd a_fsub andb negb spur] in *; rewrite ?Nat.sub_0_r.
  - (* GHead *)
    intros [= <- <- <- <-]. destruct (mem sh LHead =? 0) eqn:E; [gk|]. apply N.eqb_neq in E. gk.
  - (* GCool1 *) intros [= <- <- <- <-]. destruct (_ =? NODE_COOLDOWN); gk.
  - (* GCool2 *) destruct (mem sh (LInUse n) =? NODE_COOLDOWN); cbn [andb]; intros [= <- <- <- <-]; gk.
  - (* GCool3 *) destruct (mem sh (LWriters n) =? 0); intros [= <- <- <- <-]; [rk|gk].
  - (* GBack *) intros [= <- <- <- <-]. gk.
  - (* GClaim *)
    destruct (mem sh (LInUse n) =? NODE_UNUSED); cbn [andb]; intros [= <- <- <- <-]; [rk|].
    destruct (n =? 0) eqn:E; [gk|]. apply N.eqb_neq in E. gk.
  - (* GPush0 *) intros [= <- <- <- <-]. gk. rewrite N.eqb_refl. lia.
  - (* GPush *)
    destruct (mem sh LHead =? head) eqn:Eh; destruct (x =? 1) eqn:Ex; cbn [andb negb];
      intros [= <- <- <- <-]; rewrite ?Nat.sub_0_r.
    + gk. rewrite N.eqb_refl, N.eqb_sym, Eh. lia.
    + apply N.eqb_eq in Eh. apply ret_ok; try lia; try exact I.
      * unfold headn. rewrite node_init_mem by discriminate. cbn. rewrite upd_same.
        cbn [np_top]. unfold node_val. rewrite Eh. lia.
      * ar.
      * intros _ c. unfold curv. rewrite node_init_mem by discriminate. cbn.
        rewrite upd_other by discriminate. reflexivity.
      * intros w ctl. cbn [tcz]. unfold phi2. destruct (decide (w = head)) as [->|Hne].
        -- rewrite node_init_ctl. change (is_genb IDLE) with false. cbn [negb]. rewrite Bool.orb_true_r. lia.
        -- rewrite node_init_mem by congruence. cbn. rewrite upd_other by discriminate. lia.
    + gk. rewrite N.eqb_refl, N.eqb_sym, Eh. lia.
    + gk. rewrite N.eqb_refl, N.eqb_sym, Eh. lia.
  - (* C1 *) intros [= <- <- <- <-]. gk.
  - (* C2 *) intros [= <- <- <- <-]. destruct (_ =? NODE_USED); [gk|exact I].
  - (* C3 *) intros [= <- <- <- <-]. rk.
Qed.

(** *** Loads *)
Lemma with_exit_gen sh l k p sh' k' r l2 nx :
  with_exit l r = (l2, nx) ->
  keeps sh sh' -> k' <= k ->
  np_top sh k p = 0 -> 3 < tcost sh k (headn sh) p ->
  conf r (tpred sh l p) -> pred_le (wpred sh' PKeep (WExit r)) (tpred sh l p) ->
  tcz l p = None ->
  step_ok sh l k p sh' l2 k' nx.
Proof.
  intros Hw K Hk Hn HC Hcf Hp Hz.
  apply with_exit_shape in Hw as [->|[n ->]].
  - apply ret_keeps; auto; rewrite ?Hn, ?Nat.add_0_r; lia.
  - cbn [step_ok app].
    apply (lt_ok sh l k p sh' k' _ 3 (headn sh') (wpred sh' PKeep (WExit r)) None).
    + intros rest. cbn [mu np_top tcost tpred tcz go is_bottom wnp wcost].
      rewrite !Nat.add_0_r. lia.
    + exact Hk.
    + rewrite (keeps_headn _ _ K). lia.
    + rewrite Hn, Nat.add_0_r. exact HC.
    + exact Hp.
    + intros _. apply (k_store _ _ K).
    + intros. rewrite (keeps_phi2 _ _ _ _ _ K), Hz. lia.
Qed.

Lemma with_exit_ok sh l k p sh' k' v d l2 nx :
  with_exit l (RGuard v d) = (l2, nx) ->
  keeps sh sh' -> k' <= k ->
  np_top sh k p = 0 -> 3 < tcost sh k (headn sh) p ->
  tpred sh l p = PFresh v -> tcz l p = None ->
  step_ok sh l k p sh' l2 k' nx.
Proof.
  intros Hw K Hk Hn HC Hp Hz. eapply with_exit_gen; eauto.
  - rewrite Hp. cbn. eauto.
  - rewrite Hp. cbn. apply pred_le_refl.
Qed.

Lemma fallback_entry_tcz cf l c l' p' :
  fallback_entry cf l c = (l', NGoto p') -> tcz l' p' = Some (own_node l).
Proof.
  unfold fallback_entry. destruct (tl_node l) eqn:E; [|discriminate].
  destruct (cf_debug cf); intros [= <- <-]; cbn; unfold own_node; cbn; rewrite ?E; reflexivity.
Qed.

Lemma fallback_ok cf sh l k p sh' k' c l2 nx :
  fallback_entry cf l c = (l2, nx) ->
  keeps sh sh' -> k' <= k ->
  np_top sh k p = 0 -> 14 < tcost sh k (headn sh) p ->
  tpred sh l p = PFresh (curv sh c) ->
  (tcz l p = None \/ tcz l p = Some (own_node l)) ->
  step_ok sh l k p sh' l2 k' nx.
Proof.
  intros Hf K Hk Hn HC Hp Hz.
  destruct nx; try exact I; try (pose proof (fallback_entry_rem _ _ _ _ _ Hf) as Hr; cbn in Hr; contradiction).
  destruct (fallback_entry_pred cf sh' _ c _ _ Hf) as (Hp' & _ & Hnp & Hc).
  pose proof (fallback_entry_tcz _ _ _ _ _ Hf) as Hz'.
  apply goto_keeps; auto.
  - rewrite Hnp. lia.
  - rewrite Hn, Nat.add_0_r. pose proof (Hc k' (headn sh + np_top sh' k' p0)). lia.
  - rewrite Hp', Hp, (k_store _ _ K). apply pred_le_refl.
  - intros. rewrite Hz'. destruct Hz as [->| ->]; [apply phi2_none|lia].
Qed.

Definition is_load (p : pc) : bool :=
  match p with
  | LA1 _ | LA1d _ _ | LAscan _ _ _ | LA3 _ _ _ | LA4 _ _ _ | LA5 _ _ _ | LA6 _ _
  | LH0d _ | LH1 _ _ | LH2 _ _ | LH3 _ _ | LH3d _ _ _ | LH4 _ _ _ | LH5 _ _ _
  | LH6a _ | LH6b _ | LH6c _ | LH7 _ _ | LH8 _ _ _ | LH9 _ _ | LH10 _ _ => true
  | _ => false
  end.

Definition top_hyp (l : tlocal) (p : pc) : Prop :=
  match p with
  | PE2 _ _ _ _ => tl_node l <> None
  | LAscan _ _ i => (i <= 7)%N
  | PS _ _ _ j | PSi _ _ _ j => (j <= 8)%N
  | _ => True
  end.

Lemma exec_load_A cf sh l p x k sh' l' evs nx :
  match p with
  | LA1 _ | LA1d _ _ | LAscan _ _ _ | LA3 _ _ _ | LA4 _ _ _ | LA5 _ _ _ | LA6 _ _ => True
  | _ => False
  end ->
  top_hyp l p ->
  exec cf sh l p x = (sh', l', evs, nx) ->
  step_ok sh l k p sh' l' k nx.
Proof.
  intros Hg Ht. destruct p; try contradiction; clear Hg; unfold exec;
    cbn [a_load a_cas a_store a_swap a_fadd a_fsub andb negb] in *.
  - (* LA1 *)
    destruct (tl_node l); [destruct (cf_debug cf)|]; intros [= <- <- <- <-]; try exact I; gk.
  - (* LA1d *)
    destruct (_ =? NODE_USED); intros [= <- <- <- <-]; try exact I; gk.
  - (* LAscan *)
    cbn [top_hyp] in Ht. assert (Hi : (i <=? 7)%N = true) by (apply N.leb_le; exact Ht).
    destruct (_ =? NONE).
    + intros [= <- <- <- <-]. gk; rewrite Hi; lia.
    + destruct (i =? 7) eqn:E7.
      * destruct (fallback_entry cf l c) as [l2 nx2] eqn:Hf. intros [= <- <- <- <-].
        apply N.eqb_eq in E7. subst i.
        eapply fallback_ok; eauto; try kp; try reflexivity; cbn; try lia; auto.
      * intros [= <- <- <- <-]. apply N.eqb_neq in E7.
        assert (Hi' : (i + 1 <=? 7)%N = true) by (apply N.leb_le; lia).
        gk; rewrite Hi, Hi'; lia.
  - (* LA3 *)
    destruct (_ && _); intros [= <- <- <- <-]; try exact I. gk.
  - (* LA4 *)
    destruct (mem sh (LStore c) =? p) eqn:E.
    + destruct (with_exit l _) as [l2 nx2] eqn:Hw. intros [= <- <- <- <-].
      apply N.eqb_eq in E. eapply with_exit_ok; eauto; try kp; try reflexivity; ar.
      unfold curv. rewrite E. reflexivity.
    + intros [= <- <- <- <-]. gk.
  - (* LA5 *)
    destruct (mem sh (LSlot (own_node l) j) =? p) eqn:E; cbn [orb].
    + destruct (fallback_entry cf l c) as [l2 nx2] eqn:Hf. intros [= <- <- <- <-].
      eapply fallback_ok; eauto; try kp; try reflexivity; cbn; try lia; auto.
    + destruct (p =? 0).
      * destruct (fallback_entry cf l c) as [l2 nx2] eqn:Hf. intros [= <- <- <- <-].
        eapply fallback_ok; eauto; try kp; try reflexivity; cbn; try lia; auto.
      * intros [= <- <- <- <-]. gk.
  - (* LA6 *)
    destruct (rc_dec sh p) as [[s2 evs2]|] eqn:Hd.
    + destruct (fallback_entry cf l c) as [l2 nx2] eqn:Hf. intros [= <- <- <- <-].
      eapply fallback_ok; eauto; try kp; try reflexivity; cbn; try lia; auto.
    + intros [= <- <- <- <-]. exact I.
Qed.

Lemma phi2_set_ctl_cz sh n v w ctl :
  phi2 (m_set sh (LCtrl n) v) (Some n) w ctl <= phi2 sh (Some n) w ctl.
Proof.
  unfold phi2. destruct (n =? w) eqn:E; cbn [orb]; [lia|].
  cbn. rewrite upd_other; [lia|]. intros [= ->]. rewrite N.eqb_refl in E. discriminate.
Qed.

Lemma phi2_set_idle sh n w ctl :
  phi2 (m_set sh (LCtrl n) IDLE) None w ctl <= phi2 sh (Some n) w ctl.
Proof.
  unfold phi2. destruct (n =? w) eqn:E; cbn [orb].
  - apply N.eqb_eq in E. subst w. cbn. rewrite upd_same. change (is_genb IDLE) with false.
    cbn [negb]. rewrite Bool.orb_true_r. lia.
  - cbn. rewrite upd_other; [lia|]. intros [= ->]. rewrite N.eqb_refl in E. discriminate.
Qed.

Lemma mem_set_same sh loc v : mem (m_set sh loc v) loc = v.
Proof. cbn. apply upd_same. Qed.
Lemma curv_set_ctl sh n v c : curv (m_set sh (LCtrl n) v) c = curv sh c.
Proof. unfold curv. cbn. apply upd_other. discriminate. Qed.
Lemma headn_set_ctl sh n v : headn (m_set sh (LCtrl n) v) = headn sh.
Proof. unfold headn. cbn. rewrite upd_other by discriminate. reflexivity. Qed.

Lemma exec_load_H1 cf sh l p x k sh' l' evs nx :
  match p with
  | LH0d _ | LH1 _ _ | LH2 _ _ | LH3 _ _ | LH3d _ _ _ | LH4 _ _ _ => True
  | _ => False
  end ->
  exec cf sh l p x = (sh', l', evs, nx) ->
  step_ok sh l k p sh' l' k nx.
Proof.
  intros Hg. destruct p; try contradiction; clear Hg; unfold exec;
    cbn [a_load a_cas a_store a_swap a_fadd a_fsub andb negb] in *.
  - (* LH0d *)
    destruct (_ =? NODE_USED); [|intros [= <- <- <- <-]; exact I].
    unfold gen_step. destruct (_ && _); intros [= <- <- <- <-]; [exact I|]. gk.
  - (* LH1 *) intros [= <- <- <- <-]. gk.
  - (* LH2 *)
    destruct (_ && _); intros [= <- <- <- <-]; [exact I|].
    assert (Ho : own_node (if gt =? GEN_TAG then tl_set_discard l true else l) = own_node l)
      by (destruct (gt =? GEN_TAG); reflexivity).
    apply goto_ok; try lia.
    + rewrite headn_set_ctl. ar.
    + rewrite headn_set_ctl. ar.
    + cbn [tpred]. rewrite Ho, mem_set_same, N.eqb_refl, curv_set_ctl. apply pred_le_refl.
    + intros _ c0. apply curv_set_ctl.
    + intros w ctl. cbn [tcz]. rewrite Ho. apply phi2_set_ctl_cz.
  - (* LH3 *)
    destruct (tl_node l); [destruct (cf_debug cf)|]; intros [= <- <- <- <-]; try exact I; gk.
  - (* LH3d *)
    destruct (_ =? NODE_USED); intros [= <- <- <- <-]; try exact I; gk.
  - (* LH4 *)
    destruct (_ && _); intros [= <- <- <- <-]; try exact I. gk.
Qed.

Lemma exec_load_H2 cf sh l p x k sh' l' evs nx :
  match p with
  | LH5 _ _ _ | LH6a _ | LH6b _ | LH6c _ | LH7 _ _ | LH8 _ _ _ | LH9 _ _ | LH10 _ _ => True
  | _ => False
  end ->
  exec cf sh l p x = (sh', l', evs, nx) ->
  step_ok sh l k p sh' l' k nx.
Proof.
  intros Hg. destruct p; try contradiction; clear Hg; unfold exec;
    cbn [a_load a_cas a_store a_swap a_fadd a_fsub andb negb] in *.
  - (* LH5 *)
    assert (G : forall p', np_top (m_set sh (LCtrl (own_node l)) IDLE) k p' = 0 ->
              tcost (m_set sh (LCtrl (own_node l)) IDLE) k (headn sh) p' < 8 ->
              pred_le (tpred (m_set sh (LCtrl (own_node l)) IDLE) l p') (tpred sh l (LH5 c gt cand)) ->
              tcz l p' = None ->
              step_ok sh l k (LH5 c gt cand) (m_set sh (LCtrl (own_node l)) IDLE) l k (NGoto p')).
    { intros p' Hn HC Hp Hz. apply goto_ok; try lia.
      - rewrite headn_set_ctl, Hn. ar.
      - rewrite headn_set_ctl, Hn, Nat.add_0_r. ar.
      - exact Hp.
      - intros _ c0. apply curv_set_ctl.
      - intros w ctl. rewrite Hz. cbn [tcz]. apply phi2_set_idle. }
    destruct (mem sh (LCtrl (own_node l)) =? gt) eqn:E.
    + destruct (cand =? 0); intros [= <- <- <- <-]; apply G; try reflexivity; ar;
        cbn [tpred]; rewrite E; apply pred_le_refl.
    + destruct (_ && _); intros [= <- <- <- <-]; [exact I|]. apply G; try reflexivity; ar.
      cbn [tpred]. rewrite E. apply pred_le_none.
  - (* LH6a *)
    destruct (rc_inc sh cand) as [[s2 evs2]|] eqn:Hd; intros [= <- <- <- <-]; [gk|exact I].
  - (* LH6b *)
    destruct (mem sh (LSlot (own_node l) HSLOT) =? cand) eqn:E; cbn [orb].
    + destruct (with_exit l _) as [l2 nx2] eqn:Hw. intros [= <- <- <- <-].
      eapply with_exit_ok; eauto; try kp; try reflexivity; ar.
    + destruct (cand =? 0).
      * destruct (with_exit l _) as [l2 nx2] eqn:Hw. intros [= <- <- <- <-].
        eapply with_exit_ok; eauto; try kp; try reflexivity; ar.
      * intros [= <- <- <- <-]. gk.
  - (* LH6c *)
    destruct (rc_dec sh cand) as [[s2 evs2]|] eqn:Hd.
    + destruct (with_exit l _) as [l2 nx2] eqn:Hw. intros [= <- <- <- <-].
      eapply with_exit_ok; eauto; try kp; try reflexivity; ar.
    + intros [= <- <- <- <-]. exact I.
  - (* LH7 *) intros [= <- <- <- <-]. gk.
  - (* LH8 *) intros [= <- <- <- <-]. gk.
  - (* LH9 *)
    destruct (mem sh (LSlot (own_node l) HSLOT) =? cand) eqn:E; cbn [orb].
    + destruct (with_exit l _) as [l2 nx2] eqn:Hw. intros [= <- <- <- <-].
      eapply with_exit_ok; eauto; try kp; try reflexivity; ar.
    + destruct (cand =? 0).
      * destruct (with_exit l _) as [l2 nx2] eqn:Hw. intros [= <- <- <- <-].
        eapply with_exit_ok; eauto; try kp; try reflexivity; ar.
      * intros [= <- <- <- <-]. gk.
  - (* LH10 *)
    destruct (rc_dec sh cand) as [[s2 evs2]|] eqn:Hd.
    + destruct (with_exit l _) as [l2 nx2] eqn:Hw. intros [= <- <- <- <-].
      eapply with_exit_ok; eauto; try kp; try reflexivity; ar.
    + intros [= <- <- <- <-]. exact I.
Qed.

(** *** Small frames *)
Lemma exec_small cf sh l p x k sh' l' evs nx :
  match p with
  | PDec _ _ | GD1 _ _ | GI1 _ _ | GI2 _ _ | NewAlloc | CloneInc _ => True
  | _ => False
  end ->
  exec cf sh l p x = (sh', l', evs, nx) ->
  step_ok sh l k p sh' l' k nx.
Proof.
  intros Hg. destruct p; try contradiction; clear Hg; unfold exec;
    cbn [a_load a_cas a_store a_swap a_fadd a_fsub andb negb] in *.
  - (* PDec *)
    destruct (rc_dec sh a) as [[s2 evs2]|] eqn:Hd; intros [= <- <- <- <-]; [|exact I].
    rk. cbn [tpred]. destruct r; cbn; eauto.
  - (* GD1 *)
    destruct (mem sh (slot_loc sl) =? p); intros [= <- <- <- <-]; [rk|].
    unfold dec_then. destruct (p =? 0); [rk|gk].
  - (* GI1 *)
    destruct (rc_inc sh p) as [[s2 evs2]|] eqn:Hd; intros [= <- <- <- <-]; [gk|exact I].
  - (* GI2 *)
    destruct (mem sh (slot_loc sl) =? p); intros [= <- <- <- <-]; [rk|].
    unfold dec_then. destruct (p =? 0); [rk|gk].
  - (* NewAlloc *)
    destruct (rc_alloc sh x) as [[s2 evs2]|] eqn:Hd; intros [= <- <- <- <-]; [rk|exact I].
  - (* CloneInc *)
    destruct (rc_inc sh a) as [[s2 evs2]|] eqn:Hd; intros [= <- <- <- <-]; [rk|exact I].
Qed.

(** *** pay_all *)
Lemma dispatch_ok cf sh l k p sh' k' c old w ctl :
  keeps sh sh' -> k' <= k ->
  np_top sh k p = 0 -> tpred sh l p = PNone -> tcz l p = None ->
  bw w < tcost sh k (headn sh) p ->
  (is_genb ctl = true -> bw w + RD + phi2 sh None w ctl * RD2 < tcost sh k (headn sh) p) ->
  step_ok sh l k p sh' l k' (help_dispatch cf l c old w ctl).
Proof.
  intros K Hk Hn Hp Hz H1 H2.
  assert (HPS : step_ok sh l k p sh' l k' (NGoto (PS c old w 0))).
  { apply goto_keeps; auto; rewrite ?Hn, ?Hp, ?Hz; try apply pred_le_refl.
    - cbn. lia.
    - rewrite Nat.add_0_r. cbn [np_top tcost]. rewrite Nat.add_0_r. unfold bw, NODE in *. change (n2 0%N) with 0. lia.
    - intros. apply Nat.le_refl. }
  unfold help_dispatch. destruct (_ =? IDLE); [destruct (ctl =? IDLE); [exact HPS|exact I]|].
  destruct (_ =? REPLACEMENT_TAG); [exact HPS|].
  destruct (N.land ctl TAG_MASK =? GEN_TAG) eqn:Eg; [|exact I].
  destruct (_ && _); [exact I|].
  apply goto_keeps; auto; rewrite ?Hn, ?Hp, ?Hz; try apply pred_le_refl.
  - cbn. lia.
  - rewrite Nat.add_0_r. cbn [np_top tcost]. rewrite Nat.add_0_r, (keeps_phi2 _ _ _ _ _ K). apply H2. exact Eg.
  - intros. apply Nat.le_refl.
Qed.

Lemma after_slot_ok sh l k p sh' k' c old w j :
  keeps sh sh' -> k' <= k -> (j <= 8)%N ->
  np_top sh k p = 0 -> tpred sh l p = PNone -> tcz l p = None ->
  NODE * n2 w + 3 + 2 * (9 - n2 j) < tcost sh k (headn sh) p ->
  step_ok sh l k p sh' l k' (after_slot c old w j).
Proof.
  intros K Hk Hj Hn Hp Hz H1. unfold after_slot. destruct (j =? HSLOT) eqn:E.
  - apply N.eqb_eq in E. subst j. apply goto_keeps; auto; rewrite ?Hn, ?Hp, ?Hz; try apply pred_le_refl.
    + cbn. lia.
    + rewrite Nat.add_0_r. cbn [np_top tcost]. unfold HSLOT, NODE in *. change (n2 8%N) with 8 in H1. rewrite ?Nat.add_0_r. lia.
    + intros. apply Nat.le_refl.
  - apply N.eqb_neq in E. unfold HSLOT in E.
    apply goto_keeps; auto; rewrite ?Hn, ?Hp, ?Hz; try apply pred_le_refl.
    + cbn. lia.
    + rewrite Nat.add_0_r. cbn [np_top tcost]. unfold NODE in *. rewrite ?Nat.add_0_r. lia.
    + intros. apply Nat.le_refl.
Qed.

Lemma phi2_match sh w : phi2 sh None w (mem sh (LCtrl w)) = 0.
Proof. unfold phi2. rewrite N.eqb_refl. reflexivity. Qed.

Lemma exec_pay_1 cf sh l p x k sh' l' evs nx :
  match p with
  | P1 _ _ | P2 _ _ | P3 _ _ _ | PE0d _ _ _ | PE0e _ _ _ | PE1 _ _ _ | P5 _ _ _ | P6 _ _ => True
  | _ => False
  end ->
  exec cf sh l p x = (sh', l', evs, nx) ->
  step_ok sh l k p sh' l' k nx.
Proof.
  intros Hg. destruct p; try contradiction; clear Hg; unfold exec;
    cbn [a_load a_cas a_store a_swap a_fadd a_fsub andb negb] in *.
  - (* P1 *)
    destruct (rc_inc sh old) as [[s2 evs2]|] eqn:Hd; intros [= <- <- <- <-]; [gk|exact I].
  - (* P2 *)
    destruct (mem sh LHead =? 0) eqn:E.
    + destruct (old =? 0).
      * destruct (with_exit l RUnit) as [l2 nx2] eqn:Hw. intros [= <- <- <- <-].
        eapply with_exit_gen; eauto; try kp; try reflexivity; try exact I; ar. apply pred_le_refl.
      * intros [= <- <- <- <-]. gk.
    + intros [= <- <- <- <-]. apply N.eqb_neq in E. gk.
  - (* P3 *)
    destruct (tl_node l); [destruct (cf_debug cf)|]; intros [= <- <- <- <-]; try exact I; gk.
  - (* PE0d *)
    destruct (_ =? NODE_USED); intros [= <- <- <- <-]; try exact I; gk.
  - (* PE0e *)
    destruct (_ =? IDLE); intros [= <- <- <- <-]; try exact I; gk.
  - (* PE1 *)
    intros [= <- <- <- <-]. apply dispatch_ok; try kp; try reflexivity; ar.
    intros _. rewrite phi2_match. lia.
  - (* P5 *)
    destruct (w =? 0) eqn:E.
    + destruct (old =? 0).
      * destruct (with_exit l RUnit) as [l2 nx2] eqn:Hw. intros [= <- <- <- <-].
        eapply with_exit_gen; eauto; try kp; try reflexivity; try exact I; ar. apply pred_le_refl.
      * intros [= <- <- <- <-]. gk.
    + intros [= <- <- <- <-]. apply N.eqb_neq in E. gk.
  - (* P6 *)
    destruct (rc_dec sh old) as [[s2 evs2]|] eqn:Hd.
    + destruct (with_exit l RUnit) as [l2 nx2] eqn:Hw. intros [= <- <- <- <-].
      eapply with_exit_gen; eauto; try kp; try reflexivity; try exact I; ar. apply pred_le_refl.
    + intros [= <- <- <- <-]. exact I.
Qed.

Lemma mu_enter_load_some cf sh l k c l' fs tail :
  tl_node l <> None ->
  enter_load cf l c = inl (l', fs) ->
  mu sh l' k (fs ++ tail) <= 28 + go sh k (headn sh) (PFresh (curv sh c)) None tail.
Proof.
  unfold enter_load. destruct (tl_node l) eqn:Hn; [intros _|congruence].
  unfold load_body. destruct (cf_use_fast cf).
  - intros [= <- <-]. cbn [app]. apply mu_top_le; cbn; try lia. apply pred_le_refl.
  - destruct (fallback_entry cf _ c) as [l2 nx] eqn:Hf. destruct nx; try discriminate.
    intros [= <- <-]. cbn [app].
    destruct (fallback_entry_pred cf sh _ c _ _ Hf) as (Hp & _ & Hnp & Hc).
    apply mu_top_le.
    + rewrite Hnp. lia.
    + pose proof (Hc k (headn sh + np_top sh k p)). lia.
    + rewrite Hp. apply pred_le_refl.
Qed.

Lemma genb_repl mine : is_genb (N.lor mine REPLACEMENT_TAG) = false.
Proof.
  unfold is_genb. apply N.eqb_neq. intros H.
  apply (f_equal (fun v => N.testbit v 0)) in H.
  rewrite N.land_spec, N.lor_spec in H. cbn in H. rewrite Bool.orb_true_r in H. discriminate.
Qed.

Lemma phi2_one sh w ctl :
  (mem sh (LCtrl w) =? ctl) = false -> is_genb (mem sh (LCtrl w)) = true -> phi2 sh None w ctl = 1.
Proof. intros H1 H2. unfold phi2. rewrite H1, H2. reflexivity. Qed.

Lemma exec_pay_2 cf sh l p x k sh' l' evs nx :
  match p with
  | PE2 _ _ _ _ | PE3 _ _ _ _ | PE4 _ _ _ _ _ | PE5 _ _ _ _ _ _ | PE6 _ _ _ _ _ _ _ => True
  | _ => False
  end ->
  top_hyp l p ->
  exec cf sh l p x = (sh', l', evs, nx) ->
  step_ok sh l k p sh' l' k nx.
Proof.
  intros Hg Ht. destruct p; try contradiction; clear Hg; unfold exec;
    cbn [a_load a_cas a_store a_swap a_fadd a_fsub andb negb] in *.
  - (* PE2 *)
    cbn [top_hyp] in Ht. destruct (_ =? store_val c).
    + destruct (enter_load cf l c) as [[l0 fs]|ps] eqn:He; intros [= <- <- <- <-]; [|exact I].
      cbn [step_ok]. intros rest. rewrite <- app_assoc. cbn [app]. revert rest.
      apply (lt_ok sh l k _ sh k _ (28 + 3 + (bw w + 5 + phi2 sh None w ctl * RD2)) (headn sh) PNone None);
        try lia; try (intros; apply Nat.le_refl).
      * intros rest.
        eapply Nat.le_trans; [eapply mu_enter_load_some; eauto|].
        cbn [go is_bottom wnp wcost wpred]. rewrite !Nat.add_0_r. lia.
      * ar.
      * apply pred_le_refl.
    + intros [= <- <- <- <-]. gk.
  - (* PE3 *)
    destruct (mem sh (LCtrl w) =? ctl) eqn:E; intros [= <- <- <- <-]; [gk|].
    apply dispatch_ok; try kp; try reflexivity; ar.
    intros Hgen. rewrite phi2_match, (phi2_one sh w ctl E Hgen). lia.
  - (* PE4 *) intros [= <- <- <- <-]. gk.
  - (* PE5 *) intros [= <- <- <- <-]. gk.
  - (* PE6 *)
    destruct (_ =? 0); intros [= <- <- <- <-]; [|exact I]. gk.
    rewrite (keeps_phi2 sh (m_set sh (LEnv (env_of mine)) r) None w ctl) by kp. lia.
Qed.

Lemma phi2_set_nongen sh n v cz w ctl :
  is_genb v = false -> phi2 (m_set sh (LCtrl n) v) cz w ctl <= phi2 sh cz w ctl.
Proof.
  intros Hv. unfold phi2. destruct (decide (w = n)) as [->|Hne].
  - rewrite mem_set_same, Hv. cbn [negb]. rewrite Bool.orb_true_r. lia.
  - cbn. rewrite upd_other by congruence. lia.
Qed.

Lemma exec_pay_3 cf sh l p x k sh' l' evs nx :
  match p with
  | PE7 _ _ _ _ _ _ _ | PE8 _ _ _ _ | PE9 _ _ _ _ _ | PS _ _ _ _ | PSi _ _ _ _ => True
  | _ => False
  end ->
  top_hyp l p ->
  exec cf sh l p x = (sh', l', evs, nx) ->
  step_ok sh l k p sh' l' k nx.
Proof.
  intros Hg Ht. destruct p; try contradiction; clear Hg; unfold exec;
    cbn [a_load a_cas a_store a_swap a_fadd a_fsub andb negb] in *.
  - (* PE7 *)
    destruct (mem sh (LCtrl w) =? ctl) eqn:E; intros [= <- <- <- <-].
    + apply goto_ok; try lia.
      * rewrite headn_set_ctl. ar.
      * rewrite headn_set_ctl. ar.
      * apply pred_le_refl.
      * cbn. discriminate.
      * intros w0 ctl0. cbn [tcz]. apply phi2_set_nongen. apply genb_repl.
    + destruct (r =? 0).
      * apply dispatch_ok; try kp; try reflexivity; ar.
        intros Hgen. rewrite phi2_match, (phi2_one sh w ctl E Hgen). lia.
      * gk. rewrite phi2_match. destruct (is_genb (mem sh (LCtrl w))) eqn:Hgen; [|lia].
        rewrite (phi2_one sh w ctl E Hgen). lia.
  - (* PE8 *) intros [= <- <- <- <-]. gk.
  - (* PE9 *)
    destruct (rc_dec sh r) as [[s2 evs2]|] eqn:Hd; intros [= <- <- <- <-]; [|exact I].
    apply dispatch_ok; try kp; try reflexivity; ar. intros ->. lia.
  - (* PS *)
    cbn [top_hyp] in Ht.
    destruct (mem sh (LSlot w j) =? old) eqn:E; cbn [andb]; [destruct (old =? 0); cbn [negb]|];
      intros [= <- <- <- <-]; try gk; apply after_slot_ok; auto; try reflexivity; try kp; ar.
  - (* PSi *)
    cbn [top_hyp] in Ht.
    destruct (rc_inc sh old) as [[s2 evs2]|] eqn:Hd; intros [= <- <- <- <-]; [|exact I].
    apply after_slot_ok; auto; try reflexivity; try kp; ar.
Qed.

(** *** swap, cache reload *)
Lemma phi2_set_store sh c v cz w ctl : phi2 (m_set sh (LStore c) v) cz w ctl = phi2 sh cz w ctl.
Proof. unfold phi2. cbn. rewrite upd_other by discriminate. reflexivity. Qed.
Lemma headn_set_store sh c v : headn (m_set sh (LStore c) v) = headn sh.
Proof. unfold headn. cbn. rewrite upd_other by discriminate. reflexivity. Qed.

Lemma exec_S1 cf sh l c new x k sh' l' evs nx :
  exec cf sh l (S1 c new) x = (sh', l', evs, nx) ->
  step_ok sh l k (S1 c new) sh' l' k nx.
Proof.
  unfold exec. cbn [a_swap]. destruct (enter_pay l c (mem sh (LStore c))) as [l0 fs] eqn:He.
  intros [= <- <- <- <-]. cbn [step_ok].
  eapply lt_ok with (sh' := m_set sh (LStore c) new) (k' := k) (C := GETC (headn sh + 1) k + PAYC (headn sh + 1)) (H1 := headn sh + 1) (pr1 := PNone) (cz1 := None);
    try lia.
  - intros rest. eapply Nat.le_trans; [eapply mu_enter_pay; exact He|].
    rewrite headn_set_store. cbn [go is_bottom wnp wcost wpred]. rewrite !Nat.add_0_r. lia.
  - cbn [np_top]. lia.
  - cbn [np_top tcost]. lia.
  - apply pred_le_refl.
  - cbn. discriminate.
  - intros. cbn [tcz]. rewrite phi2_set_store. lia.
Qed.

Lemma exec_Q1 cf sh l c a k0 x k sh' l' evs nx :
  exec cf sh l (Q1 c a k0) x = (sh', l', evs, nx) ->
  step_ok sh l k (Q1 c a k0) sh' l' k nx.
Proof.
  unfold exec. cbn [a_load]. destruct (_ =? a).
  - intros [= <- <- <- <-]. apply ret_keeps; try kp; try lia; try exact I; try reflexivity. ar.
  - destruct (enter_load cf l c) as [[l0 fs]|ps] eqn:He; intros [= <- <- <- <-]; [|exact I].
    cbn [step_ok]. intros rest. rewrite <- app_assoc. cbn [app]. revert rest.
    eapply lt_ok with (sh' := sh) (k' := k) (C := LOADX (headn sh + 1) k + 4) (H1 := headn sh + 1) (pr1 := PNone) (cz1 := None); try lia.
    + intros rest. eapply Nat.le_trans; [eapply mu_enter_load; exact He|].
      cbn [go is_bottom wnp wcost wpred]. rewrite !Nat.add_0_r. lia.
    + cbn [np_top]. lia.
    + cbn [np_top tcost]. lia.
    + apply pred_le_refl.
    + intros. cbn [tcz]. lia.
Qed.

(** *** compare_and_swap: the exchange *)
Lemma AC_step j' j H' H k' k :
  j' + 1 <= j -> H' <= H -> k' <= k -> LOADX H' k' + 4 + AC j' H' k' <= AC j H k.
Proof.
  intros Hj HH Hk. pose proof (AC_mono (S j') j H H k k ltac:(lia) ltac:(lia) ltac:(lia)).
  rewrite AC_S in H0. unfold CR in H0.
  pose proof (LOADX_mono H' H k' k HH Hk). pose proof (AC_mono j' j' H' H k' k ltac:(lia) HH Hk). lia.
Qed.

Lemma K1_fail cf sh l k k' c cur new v d l' nx :
  k' <= k -> (um sh c cur = 1 \/ k' + 1 <= k) ->
  (match guard_drop_frames v d with
   | [] => match enter_load cf l c with
           | inl (l0, frames) => (l0, NPush frames (WCasLoad c cur new))
           | inr ps => (l, NPanic ps)
           end
   | _ :: _ => (l, NPush (guard_drop_frames v d) (WCasRetry c cur new))
   end) = (l', nx) ->
  step_ok sh l k (K1 c cur new v d) sh l' k' nx.
Proof.
  intros Hk Hb Hx.
  set (J := k + um sh c cur). set (Hm := headn sh + (J + 1)).
  assert (HT : tcost sh k (headn sh + np_top sh k (K1 c cur new v d)) (K1 c cur new v d) = AC J Hm k) by reflexivity.
  assert (HN : headn sh + np_top sh k (K1 c cur new v d) = Hm) by reflexivity.
  destruct (curv sh c =? cur) eqn:Ec.
  - (* matched: the failure was spurious *)
    assert (Hu : um sh c cur = 0) by (unfold um; fold (curv sh c); rewrite Ec; reflexivity).
    assert (Hk1 : k' + 1 <= k) by (destruct Hb; lia).
    assert (Hp : pred_le (PVal cur) (tpred sh l (K1 c cur new v d))).
    { cbn [tpred]. rewrite Ec. destruct (v =? cur); [apply pred_le_refl|apply pred_le_none]. }
    pose proof (AC_step k' J (headn sh + k' + 2) Hm k' k ltac:(unfold J; lia) ltac:(unfold Hm, J; lia) Hk) as HA.
    pose proof (LOADX_mono (headn sh + 1) (headn sh + k' + 2) k' k' ltac:(lia) ltac:(lia)) as HL.
    destruct (guard_drop_frames v d) as [|f fs] eqn:Hg.
    + destruct (enter_load cf l c) as [[l0 frames]|ps] eqn:He; injection Hx as <- <-; [|exact I].
      cbn [step_ok].
      eapply lt_ok with (sh' := sh) (k' := k') (C := LOADX (headn sh + 1) k' + AC k' (headn sh + k' + 2) k')
                        (H1 := headn sh + k' + 2) (pr1 := PVal cur) (cz1 := None); auto; try lia.
      * intros rest. eapply Nat.le_trans; [eapply mu_enter_load; exact He|].
        cbn [go is_bottom wnp wcost wpred casj]. rewrite Ec, Hu. cbn [wnp wcost wpred]. rewrite ?Ec.
        replace (headn sh + 1 + (k' + 0 + 1)) with (headn sh + k' + 2) by lia.
        rewrite Nat.add_0_r. lia.
    + injection Hx as <- <-. cbn [step_ok].
      destruct (mu_gdrop sh l k' v d f fs (WCasRetry c cur new :: nil) Hg) as [-> _].
      eapply lt_ok with (sh' := sh) (k' := k') (C := 2 + LOADX (headn sh + k' + 2) k' + AC k' (headn sh + k' + 2) k')
                        (H1 := headn sh + k' + 2) (pr1 := PVal cur) (cz1 := None); auto; try lia.
      * intros rest. destruct (mu_gdrop sh l k' v d f [] (WCasRetry c cur new :: rest) Hg) as [_ Hm2].
        cbn [app]. eapply Nat.le_trans; [exact Hm2|].
        cbn [go is_bottom wnp wcost wpred reads_store]. unfold retryo. cbn [reads_store]. rewrite Ec.
        replace (headn sh + (k' + 2)) with (headn sh + k' + 2) by lia. lia.
  - (* not matched: a real failure; the next load sees a different value *)
    assert (Hu : um sh c cur = 1) by (unfold um; fold (curv sh c); rewrite Ec; reflexivity).
    assert (Hp : pred_le (PFresh (curv sh c)) (tpred sh l (K1 c cur new v d))).
    { cbn [tpred]. rewrite Ec. apply pred_le_refl. }
    pose proof (AC_step 0 J (headn sh + 1) Hm k' k ltac:(unfold J; lia) ltac:(unfold Hm, J; lia) Hk) as HA.
    pose proof (AC_lb 0 (headn sh + 1) k') as HB.
    destruct (guard_drop_frames v d) as [|f fs] eqn:Hg.
    + destruct (enter_load cf l c) as [[l0 frames]|ps] eqn:He; injection Hx as <- <-; [|exact I].
      cbn [step_ok].
      eapply lt_ok with (sh' := sh) (k' := k') (C := LOADX (headn sh + 1) k' + 1)
                        (H1 := headn sh + 1) (pr1 := PFresh (curv sh c)) (cz1 := None); auto; try lia.
      intros rest. eapply Nat.le_trans; [eapply mu_enter_load; exact He|].
      cbn [go is_bottom wnp wcost wpred casj]. rewrite Ec. cbn [wnp wcost wpred]. rewrite ?Ec.
      rewrite !Nat.add_0_r. lia.
    + injection Hx as <- <-. cbn [step_ok].
      destruct (mu_gdrop sh l k' v d f fs (WCasRetry c cur new :: nil) Hg) as [-> _].
      eapply lt_ok with (sh' := sh) (k' := k') (C := 2 + LOADX (headn sh + 1) k' + 1)
                        (H1 := headn sh + 1) (pr1 := PFresh (curv sh c)) (cz1 := None); auto; try lia.
      intros rest. destruct (mu_gdrop sh l k' v d f [] (WCasRetry c cur new :: rest) Hg) as [_ Hm2].
      cbn [app]. eapply Nat.le_trans; [exact Hm2|].
      cbn [go is_bottom wnp wcost wpred reads_store]. unfold retryo. cbn [reads_store]. rewrite Ec. lia.
Qed.

Lemma exec_K1 cf sh l c cur new v d x k sh' l' evs nx :
  spur (K1 c cur new v d) x <= k ->
  exec cf sh l (K1 c cur new v d) x = (sh', l', evs, nx) ->
  step_ok sh l k (K1 c cur new v d) sh' l' (k - spur (K1 c cur new v d) x) nx.
Proof.
  intros Hs. unfold exec. cbn [a_cas andb negb spur] in *.
  assert (Hfail : forall k', k' <= k -> (um sh c cur = 1 \/ k' + 1 <= k) ->
            match guard_drop_frames v d with
            | [] => match enter_load cf l c with
                    | inl (l'0, frames) => (sh, l'0, [EvAcc (LStore c) OCasWeak (fst o_cas_exchange) (snd o_cas_exchange)
                                                      (mem sh (LStore c)) (mem sh (LStore c)) false], NPush frames (WCasLoad c cur new))
                    | inr ps => (sh, l, [EvAcc (LStore c) OCasWeak (fst o_cas_exchange) (snd o_cas_exchange)
                                                      (mem sh (LStore c)) (mem sh (LStore c)) false], NPanic ps)
                    end
            | _ :: _ => (sh, l, [EvAcc (LStore c) OCasWeak (fst o_cas_exchange) (snd o_cas_exchange)
                                                      (mem sh (LStore c)) (mem sh (LStore c)) false],
                         NPush (guard_drop_frames v d) (WCasRetry c cur new))
            end = (sh', l', evs, nx) ->
            step_ok sh l k (K1 c cur new v d) sh' l' k' nx).
  { intros k' Hk Hb Hx.
    assert (sh' = sh) as ->.
    { revert Hx. destruct (guard_drop_frames v d); [destruct (enter_load cf l c) as [[? ?]|?]|];
        intros Hx; inversion Hx; reflexivity. }
    eapply (K1_fail cf); eauto.
    revert Hx. destruct (guard_drop_frames v d); [destruct (enter_load cf l c) as [[? ?]|?]|];
      intros Hx; inversion Hx; reflexivity. }
  destruct (mem sh (LStore c) =? cur) eqn:Ec; destruct (x =? 1) eqn:Ex; cbn [andb negb].
  - intros Hx. apply Hfail; [lia|right; lia|]. rewrite <- Hx.
    destruct (guard_drop_frames v d); reflexivity.
  - (* success *)
    rewrite Nat.sub_0_r. destruct (enter_pay l c v) as [l0 fs] eqn:He. intros [= <- <- <- <-].
    cbn [step_ok].
    assert (Hu : um sh c cur = 0) by (unfold um; rewrite Ec; reflexivity).
    pose proof (AC_lb (k + um sh c cur) (headn sh + (k + um sh c cur + 1)) k) as HA.
    pose proof (GETC_mono (headn sh + 1) (headn sh + (k + um sh c cur + 1)) k k ltac:(lia) ltac:(lia)).
    pose proof (PAYC_mono (headn sh + 1) (headn sh + (k + um sh c cur + 1)) ltac:(lia)).
    eapply lt_ok with (sh' := m_set sh (LStore c) new) (k' := k)
                      (C := GETC (headn sh + 1) k + PAYC (headn sh + 1) + 1)
                      (H1 := headn sh + 1) (pr1 := PVal v) (cz1 := None); try lia.
    + intros rest. eapply Nat.le_trans; [eapply mu_enter_pay; exact He|].
      rewrite headn_set_store. cbn [go is_bottom wnp wcost wpred]. rewrite !Nat.add_0_r. lia.
    + cbn [np_top]. lia.
    + cbn [np_top tcost]. unfold KS in HA. lia.
    + cbn [tpred]. fold (curv sh c) in Ec. rewrite Ec. destruct (v =? cur) eqn:Ev; [|apply pred_le_none].
      apply N.eqb_eq in Ev. subst v. apply pred_le_refl.
    + cbn [tpred]. fold (curv sh c) in Ec. rewrite Ec. destruct (v =? cur); cbn; discriminate.
    + intros. cbn [tcz]. rewrite phi2_set_store. lia.
  - intros Hx. apply Hfail; [lia|left; unfold um; rewrite Ec; reflexivity|]. rewrite <- Hx.
    destruct (guard_drop_frames v d); reflexivity.
  - rewrite Nat.sub_0_r. intros Hx. apply Hfail; [lia|left; unfold um; rewrite Ec; reflexivity|]. rewrite <- Hx.
    destruct (guard_drop_frames v d); reflexivity.
Qed.

(** *** rcu: the closure's allocation / clone *)
Lemma keeps_att sh sh' c q H k : keeps sh sh' ->
  att sh' c q H k = att sh c q H k /\ att_np sh' c q k = att_np sh c q k.
Proof.
  intros K. unfold att, att_np, um. fold (curv sh c) (curv sh' c). rewrite (k_store _ _ K). auto.
Qed.

Lemma rcu_push_ok cf sh l k c m q d x sh' l0 fs p :
  keeps sh sh' ->
  np_top sh k p = att_np sh c q k -> tcost sh k (headn sh + att_np sh c q k) p = att sh c q (headn sh + att_np sh c q k) k ->
  tpred sh l p = PNone -> tcz l p = None ->
  enter_load cf l c = inl (l0, fs) ->
  step_ok sh l k p sh' l0 k (NPush (fs ++ [WCasLoad c q x]) (WRcuCas c m q d)).
Proof.
  intros K Hn HT Hp Hz He. cbn [step_ok].
  destruct (keeps_att sh sh' c q (headn sh + att_np sh c q k) k K) as [Ha Hnp].
  pose proof (att_lb sh c q (headn sh + att_np sh c q k) k).
  eapply lt_ok with (sh' := sh') (k' := k) (C := att sh c q (headn sh + att_np sh c q k) k - 1)
                    (H1 := headn sh + att_np sh c q k) (pr1 := PNone) (cz1 := None); try lia.
  - intros rest. pose proof (mu_att_push cf sh' l k c m q d x l0 fs rest He) as Hm.
    unfold att_bound in Hm. rewrite Hnp, (keeps_headn _ _ K), Ha in Hm. lia.
  - rewrite Hn, HT. lia.
  - rewrite Hp. apply pred_le_refl.
  - rewrite Hp. cbn. discriminate.
  - intros. rewrite Hz, (keeps_phi2 _ _ _ _ _ K). lia.
Qed.

Lemma exec_RAlloc cf sh l c m q d x k sh' l' evs nx :
  exec cf sh l (RAlloc c m q d) x = (sh', l', evs, nx) ->
  step_ok sh l k (RAlloc c m q d) sh' l' k nx.
Proof.
  unfold exec. destruct (rc_alloc sh x) as [[s2 evs2]|] eqn:Hd; [|intros [= <- <- <- <-]; exact I].
  destruct (enter_load cf l c) as [[l0 fs]|ps] eqn:He; intros [= <- <- <- <-]; [|exact I].
  eapply rcu_push_ok; eauto; try reflexivity. kp.
Qed.

Lemma exec_RInc cf sh l c m q d x k sh' l' evs nx :
  exec cf sh l (RInc c m q d) x = (sh', l', evs, nx) ->
  step_ok sh l k (RInc c m q d) sh' l' k nx.
Proof.
  unfold exec. destruct (rc_inc sh q) as [[s2 evs2]|] eqn:Hd; [|intros [= <- <- <- <-]; exact I].
  destruct (enter_load cf l c) as [[l0 fs]|ps] eqn:He; intros [= <- <- <- <-]; [|exact I].
  eapply rcu_push_ok; eauto; try reflexivity. kp.
Qed.

(** ** Every step of the active frame decreases the measure *)
Theorem exec_dec cf sh l p x k sh' l' evs nx :
  top_hyp l p -> spur p x <= k ->
  exec cf sh l p x = (sh', l', evs, nx) ->
  step_ok sh l k p sh' l' (k - spur p x) nx.
Proof.
  intros Ht Hs He.
  destruct p;
    try (eapply exec_getcool; [reflexivity|exact Hs|exact He]);
    try (cbn [spur]; rewrite Nat.sub_0_r);
    try (eapply exec_load_A; [exact I|exact Ht|exact He]);
    try (eapply exec_load_H1; [exact I|exact He]);
    try (eapply exec_load_H2; [exact I|exact He]);
    try (eapply exec_small; [exact I|exact He]);
    try (eapply exec_pay_1; [exact I|exact He]);
    try (eapply exec_pay_2; [exact I|exact Ht|exact He]);
    try (eapply exec_pay_3; [exact I|exact Ht|exact He]);
    try (eapply exec_S1; exact He);
    try (eapply exec_Q1; exact He);
    try (eapply exec_RAlloc; exact He);
    try (eapply exec_RInc; exact He);
    try (eapply exec_K1; [exact Hs|exact He]);
    try (unfold exec in He; injection He as <- <- <- <-; exact I).
Qed.

(** ** The thread *)
Lemma step_dec cf s t x k p rest :
  t_status (thr s t) = Running -> t_stack (thr s t) = p :: rest ->
  top_hyp (t_loc (thr s t)) p -> spur p x <= k ->
  let s' := fst (step cf s t x) in
  t_status (thr s' t) <> Running \/ t_stack (thr s' t) = [] \/
  mu (sh s') (t_loc (thr s' t)) (k - spur p x) (t_stack (thr s' t))
  < mu (sh s) (t_loc (thr s t)) k (p :: rest).
Proof.
  intros Hrun Hstk Ht Hs. unfold step. rewrite Hrun, Hstk.
  destruct (exec cf (sh s) (t_loc (thr s t)) p x) as [[[s_sh l] evs] nx] eqn:He.
  pose proof (exec_dec cf _ _ _ _ k _ _ _ _ Ht Hs He) as Hok.
  destruct nx as [p'|fs w|v|ps|f]; cbn [step_ok] in Hok; cbn [finish fst].
  - right; right. (thr_simpl; cbn [t_stack t_loc t_status]). apply Hok.
  - right; right. (thr_simpl; cbn [t_stack t_loc t_status]). apply Hok.
  - destruct Hok as (Hcf & HH & Hgo).
    pose proof (unwind_le cf s_sh (k - spur p x) rest l _ _ v HH Hcf) as Hu.
    destruct (unwind cf l rest v) as [l2 stk|l2 dst v'|l2|l2 ps|l2 f]; cbn [fst]; (thr_simpl; cbn [t_stack t_loc t_status]).
    + right; right. specialize (Hgo rest). lia.
    + right; left. reflexivity.
    + left. discriminate.
    + left. discriminate.
    + left. discriminate.
  - left. (thr_simpl; cbn [t_stack t_loc t_status]). discriminate.
  - left. (thr_simpl; cbn [t_stack t_loc t_status]). discriminate.
Qed.

From ASModel Require Import Hist Inv InvTl InvProto InvStep.

Lemma WF2_top_hyp s t p rest :
  WF2 s -> t_status (thr s t) = Running -> t_stack (thr s t) = p :: rest ->
  top_hyp (t_loc (thr s t)) p.
Proof.
  intros W Hrun Hstk. pose proof (w_thr s W t Hrun) as [Htl Hf]. rewrite Hstk in Htl, Hf.
  apply Forall_inv in Hf. destruct Htl as (_ & _ & _ & Hn & _).
  destruct p; try exact I; cbn [top_hyp].
  - cbn in Hf. exact Hf.
  - apply Hn. cbn [depth_of is_bottom_frame in_with]. lia.
  - cbn in Hf. apply Hf.
  - cbn in Hf. apply Hf.
Qed.

(** Thread [t] is in the middle of a command. *)
Definition busy (s : state) (t : N) : bool :=
  match t_status (thr s t), t_stack (thr s t) with
  | Running, _ :: _ => true
  | _, _ => false
  end.

Definition spur_of (s : state) (t x : N) : nat :=
  match t_stack (thr s t) with p :: _ => spur p x | [] => 0 end.

(** Own steps of [t] until its command is complete (or the thread stopped), when only [t]
    runs, with the scheduler's choices [xs]; and the spurious failures among them. *)
Fixpoint solo_steps (cf : config) (t : N) (xs : list N) (s : state) : nat :=
  match xs with
  | [] => 0
  | x :: r => if busy s t then S (solo_steps cf t r (fst (step cf s t x))) else 0
  end.

Fixpoint spurs (cf : config) (t : N) (xs : list N) (s : state) : nat :=
  match xs with
  | [] => 0
  | x :: r => if busy s t then spur_of s t x + spurs cf t r (fst (step cf s t x)) else 0
  end.

Definition mu_of (s : state) (t : N) (k : nat) : nat :=
  mu (sh s) (t_loc (thr s t)) k (t_stack (thr s t)).

Lemma tcost_pos sh l k H p :
  is_waiting p = false -> top_hyp l p -> 1 <= tcost sh k H p.
Proof.
  intros Hw Ht. destruct p; try discriminate Hw; cbn [tcost]; unfold rem0; cbn [rem];
    unfold bw, GETC, PAYC, LOADX, NODE, RD in *; try lia.
  - cbn [top_hyp] in Ht. apply N.leb_le in Ht. rewrite Ht. lia.
  - pose proof (AC_lb (k + um sh c cur) H k). lia.
  - pose proof (att_lb sh c p H k). lia.
  - pose proof (att_lb sh c p H k). lia.
Qed.

Lemma WF2_not_waiting s t p rest :
  WF2 s -> t_status (thr s t) = Running -> t_stack (thr s t) = p :: rest -> is_waiting p = false.
Proof.
  intros W Hrun Hstk. pose proof (w_thr s W t Hrun) as [Htl _]. rewrite Hstk in Htl. apply Htl.
Qed.

Lemma busy_inv s t : busy s t = true ->
  t_status (thr s t) = Running /\ exists p rest, t_stack (thr s t) = p :: rest.
Proof.
  unfold busy. destruct (t_status (thr s t)); try discriminate.
  destruct (t_stack (thr s t)); try discriminate. eauto.
Qed.

Theorem solo_bound cf t : forall xs s k,
  WF2 s -> spurs cf t xs s <= k -> solo_steps cf t xs s <= mu_of s t k.
Proof.
  induction xs as [|x r IH]; intros s k W Hsp; cbn [solo_steps spurs] in *; [lia|].
  destruct (busy s t) eqn:Hb; [|lia].
  destruct (busy_inv _ _ Hb) as (Hrun & p & rest & Hstk).
  pose proof (WF2_top_hyp s t p rest W Hrun Hstk) as Ht.
  pose proof (WF2_not_waiting s t p rest W Hrun Hstk) as Hnw.
  assert (Hs : spur p x <= k) by (unfold spur_of in Hsp; rewrite Hstk in Hsp; lia).
  pose proof (step_dec cf s t x k p rest Hrun Hstk Ht Hs) as Hd. cbn zeta in Hd.
  destruct (step_WF2 cf s t x W) as [W' _].
  assert (Hpos : 1 <= mu_of s t k).
  { unfold mu_of. rewrite Hstk. cbn [mu].
    pose proof (tcost_pos (sh s) (t_loc (thr s t)) k (headn (sh s) + np_top (sh s) k p) p Hnw Ht). lia. }
  set (s' := fst (step cf s t x)) in *.
  assert (Hsp' : spurs cf t r s' <= k - spur p x).
  { unfold spur_of in Hsp. rewrite Hstk in Hsp. lia. }
  specialize (IH s' (k - spur p x) W' Hsp').
  destruct Hd as [Hstop|[Hnil|Hlt]].
  - assert (busy s' t = false) as Hb'.
    { unfold busy. destruct (t_status (thr s' t)); try reflexivity. congruence. }
    destruct r; cbn [solo_steps]; rewrite ?Hb'; lia.
  - assert (busy s' t = false) as Hb'.
    { unfold busy. rewrite Hnil. destruct (t_status (thr s' t)); reflexivity. }
    destruct r; cbn [solo_steps]; rewrite ?Hb'; lia.
  - unfold mu_of in *. rewrite Hstk. lia.
Qed.

(** ** Closed bounds for the writer commands *)
Definition B_swap (H k : nat) : nat := GETC (H + 1) k + PAYC (H + 1) + 2.
Definition B_cas (H k : nat) : nat := LOADX (H + 1) k + AC (k + 1) (H + k + 3) k.
Definition B_rcu (H k : nat) : nat := LOADX (H + 1) k + ATTg (H + k + 3) k.

Definition B_cmd (c : cmd) (H k : nat) : nat :=
  match c with
  | CStore _ _ | CSwap _ _ _ | CIntoInner _ _ | CDropStore _ => B_swap H k
  | CCas _ _ _ _ => B_cas H k
  | CRcu _ _ _ => B_rcu H k
  | _ => 0
  end.

Definition is_writer (c : cmd) : bool :=
  match c with
  | CStore _ _ | CSwap _ _ _ | CIntoInner _ _ | CDropStore _ | CCas _ _ _ _ | CRcu _ _ _ => true
  | _ => false
  end.

Lemma sh_consume s v : sh (consume s v) = sh s.
Proof. destruct v; reflexivity. Qed.

Lemma cmd_mu cf s l c k s' l' stk r :
  is_writer c = true ->
  cmd_start cf s l c = inl (s', l', stk, r) ->
  mu (sh s') l' k stk <= B_cmd c (headn (sh s)) k.
Proof.
  intros Hw. destruct c; try discriminate Hw; clear Hw; cbn [cmd_start B_cmd].
  - (* CStore *)
    destruct (src_val s v); intros [= <- <- <- <-]; [|cbn; lia].
    rewrite sh_consume. cbn [mu np_top tcost tpred tcz go is_bottom wnp wcost wpred].
    unfold B_swap. lia.
  - (* CSwap *)
    destruct (src_val s v); intros [= <- <- <- <-]; [|cbn; lia].
    rewrite sh_consume. cbn [mu np_top tcost tpred tcz go is_bottom wnp wcost wpred].
    unfold B_swap. lia.
  - (* CCas *)
    destruct (src_val s cur) as [a|]; [destruct (src_val s new) as [b|]|];
      try (intros [= <- <- <- <-]; cbn; lia).
    destruct (enter_load cf l c) as [[l0 fs]|ps] eqn:He; intros [= <- <- <- <-].
    rewrite sh_consume.
    eapply Nat.le_trans; [eapply mu_enter_load; exact He|].
    cbn [go is_bottom wnp wcost wpred casj]. unfold B_cas.
    pose proof (um_le1 (sh s) c a).
    destruct (_ =? a); cbn [wnp wcost].
    + pose proof (AC_mono (k + um (sh s) c a) (k + 1)
                    (headn (sh s) + 1 + (k + um (sh s) c a + 1)) (headn (sh s) + k + 3) k k
                    ltac:(lia) ltac:(lia) ltac:(lia)). lia.
    + pose proof (AC_lb (k + 1) (headn (sh s) + k + 3) k). lia.
  - (* CRcu *)
    destruct (enter_load cf l c) as [[l0 fs]|ps] eqn:He; intros [= <- <- <- <-].
    eapply Nat.le_trans; [eapply mu_enter_load; exact He|].
    cbn [go is_bottom wnp wcost wpred]. unfold B_rcu, att, att_np, um, curv. rewrite N.eqb_refl.
    pose proof (ATTg_mono (headn (sh s) + 1 + (k + 2 + 0)) (headn (sh s) + k + 3) k k ltac:(lia) ltac:(lia)). lia.
  - (* CIntoInner *)
    destruct (enter_pay l c (mem (sh s) (LStore c))) as [l0 fs] eqn:He. intros [= <- <- <- <-].
    eapply Nat.le_trans; [eapply mu_enter_pay; exact He|].
    cbn [sh]. rewrite headn_set_store. cbn [go is_bottom wnp wcost wpred]. unfold B_swap. lia.
  - (* CDropStore *)
    destruct (enter_pay l c (mem (sh s) (LStore c))) as [l0 fs] eqn:He. intros [= <- <- <- <-].
    eapply Nat.le_trans; [eapply mu_enter_pay; exact He|].
    cbn [sh]. rewrite headn_set_store. cbn [go is_bottom wnp wcost wpred]. unfold B_swap. lia.
Qed.

(** The command step (no atomic access) followed by the solo run of the command. *)
Theorem writer_solo_bound cf t s x0 xs k c :
  WF2 s -> t_status (thr s t) = Running -> t_stack (thr s t) = [] ->
  nth_error (t_prog (thr s t)) (N.to_nat (t_cmdi (thr s t))) = Some c ->
  cmd_enabled s c = true -> is_writer c = true ->
  spurs cf t xs (fst (step cf s t x0)) <= k ->
  solo_steps cf t xs (fst (step cf s t x0)) <= B_cmd c (headn (sh s)) k.
Proof.
  intros W Hrun Hstk Hc Hen Hw Hsp.
  destruct (step_WF2 cf s t x0 W) as [W1 _].
  eapply Nat.le_trans; [apply (solo_bound cf t xs _ k W1 Hsp)|].
  unfold mu_of, step. rewrite Hrun, Hstk, Hc, Hen.
  destruct (cmd_start cf s (t_loc (thr s t)) c) as [[[[s' l'] stk] r]|ps] eqn:Hcs.
  - pose proof (cmd_mu cf s _ c k s' l' stk r Hw Hcs) as Hm.
    destruct stk as [|p stk]; cbn [fst]; unfold set_thread; thr_simpl; cbn [t_stack t_loc].
    + cbn [mu]. lia.
    + exact Hm.
  - cbn [fst]. unfold set_thread. thr_simpl. cbn [t_stack t_loc mu]. lia.
Qed.

(** The bounds, spelled out: linear in the number of debt nodes [H] for a fixed budget [k]
    of spurious failures. *)
Lemma B_swap_eq H k : B_swap H k = 68 * H + k + 80.
Proof. unfold B_swap, GETC, PAYC, NODE. lia. Qed.
Lemma B_cas_eq H k : B_cas H k = (k + 1) * (5 * H + 6 * k + 50) + 73 * H + 70 * k + 253.
Proof. unfold B_cas, AC, CR, KS, LOADX, GETC, PAYC, NODE. ring. Qed.
Lemma B_rcu_eq H k : B_rcu H k = k * (5 * H + 6 * k + 50) + 78 * H + 76 * k + 306.
Proof. unfold B_rcu, ATTg, AC, CR, KS, LOADX, GETC, PAYC, NODE, FINR. ring. Qed.

(** ** In terms of schedules: only [t] is scheduled, all other threads are frozen. *)
Definition solo_sched (t : N) (xs : list N) : list (N * N) := map (fun x => (t, x)) xs.

Lemma solo_steps_le cf t : forall xs s, solo_steps cf t xs s <= length xs.
Proof.
  induction xs as [|x r IH]; intros s; cbn; [lia|]. destruct (busy s t); [|lia].
  specialize (IH (fst (step cf s t x))). lia.
Qed.

Lemma solo_steps_stop cf t : forall xs s,
  solo_steps cf t xs s < length xs ->
  busy (run_state cf s (solo_sched t (firstn (solo_steps cf t xs s) xs))) t = false.
Proof.
  induction xs as [|x r IH]; intros s Hlt; cbn in Hlt; [lia|].
  cbn [solo_steps] in *. destruct (busy s t) eqn:Hb.
  - cbn [firstn solo_sched map run_state fold_left fst snd].
    apply IH. lia.
  - cbn. exact Hb.
Qed.

(** C09: from any reachable state (any state satisfying the invariant), a thread that runs
    alone and suffers at most [k] spurious compare-exchange failures is out of its current
    operation (stack empty, or stopped) after at most [mu_of s t k] own steps. *)
Theorem solo_completes cf t s k xs :
  WF2 s -> spurs cf t xs s <= k -> mu_of s t k < length xs ->
  exists n, n <= mu_of s t k /\
            busy (run_state cf s (solo_sched t (firstn n xs))) t = false.
Proof.
  intros W Hsp Hlen. exists (solo_steps cf t xs s).
  pose proof (solo_bound cf t xs s k W Hsp). split; [assumption|].
  apply solo_steps_stop. lia.
Qed.

(** ** A closed bound for every reachable state

    [FR H k] bounds the cost of any single frame when the list has at most [H] nodes; a
    stack of [d] frames can push at most [d * (k + 3)] further nodes. *)
Definition FR (H k : nat) : nat := ATTb H k + NODE * H + 50.

Lemma FR_mono H' H k : H' <= H -> FR H' k <= FR H k.
Proof. intros. unfold FR, NODE. pose proof (ATTb_mono H' H k k). lia. Qed.

Lemma AC_le_ATTb j H k : j <= k + 1 -> LOADX H k + AC j H k <= ATTb H k.
Proof.
  intros Hj. pose proof (AC_mono j (S k) H H k k ltac:(lia) ltac:(lia) ltac:(lia)) as Hm.
  rewrite AC_S in Hm. unfold ATTb, ATTg, CR, FINR in *. lia.
Qed.

Lemma phi2_le1 sh cz w ctl : phi2 sh cz w ctl <= 1.
Proof. unfold phi2. destruct (_ || _); lia. Qed.

Lemma rem0_le p : rem0 p <= 28.
Proof.
  unfold rem0. destruct p; cbn [rem]; try lia. destruct (_ <=? _)%N; lia.
Qed.

Lemma ATTb_lb H k : 78 * H + 3 * k + 86 <= ATTb H k.
Proof.
  pose proof (AC_lb k H k). unfold ATTb, ATTg, KS, LOADX, GETC, PAYC, NODE, FINR in *. lia.
Qed.

Lemma att_le_ATTb sh c q H k : att sh c q H k <= ATTb H k.
Proof. unfold att. pose proof (ATTg_le_b H k). destruct (_ =? _); lia. Qed.

Lemma tcost_FR sh k H p :
  headn sh <= H -> pc_nodes_ok (mem sh LHead) p -> tcost sh k H p <= FR H k.
Proof.
  intros HH Hok. pose proof (ATTb_lb H k) as Hlb. pose proof (rem0_le p) as Hr.
  unfold FR. unfold headn in HH.
  destruct p; cbn [tcost]; cbn [pc_nodes_ok] in Hok; try (unfold NODE; lia);
    try (unfold bw, GETC, PAYC, LOADX, NODE, RD, RD2 in *; lia);
    try (pose proof (phi2_le1 sh None w ctl); unfold bw, NODE, RD, RD2 in *; lia).
  - destruct (_ =? _); lia.
  - pose proof (phi2_le1 sh None w newctl). destruct (is_genb newctl); unfold bw, NODE, RD, RD2 in *; lia.
  - pose proof (um_le1 sh c cur). pose proof (AC_le_ATTb (k + um sh c cur) H k ltac:(lia)). lia.
  - pose proof (att_le_ATTb sh c p H k). lia.
  - pose proof (att_le_ATTb sh c p H k). lia.
  - unfold LOADX, GETC, NODE. lia.
Qed.

Lemma np_top_le sh k p : np_top sh k p <= k + 3.
Proof.
  destruct p; cbn [np_top]; try lia; unfold att_np;
    match goal with |- context [um ?s ?c ?q] => pose proof (um_le1 s c q) end; lia.
Qed.

Lemma wnp_le sh k pr w : wnp sh k pr w <= k + 3.
Proof.
  destruct w; cbn [wnp]; try lia.
  - unfold casj. destruct pr; try lia; destruct (_ =? _); try lia. pose proof (um_le1 sh c cur). lia.
  - unfold retryo. destruct (reads_store pr); [destruct (_ =? _)|]; lia.
  - destruct pr; try lia. unfold att_np. pose proof (um_le1 sh c v). lia.
  - destruct (rcuq sh pr c) as [[q g]|]; try lia. destruct (_ =? _); try lia. destruct g; lia.
  - destruct (reads_store pr); try lia. unfold att_np. pose proof (um_le1 sh c q). lia.
Qed.

Lemma wcost_FR sh k H pr cz w :
  headn sh <= H -> pc_nodes_ok (mem sh LHead) w -> wcost sh k H pr cz w <= FR H k.
Proof.
  intros HH Hok. pose proof (ATTb_lb H k) as Hlb. pose proof (ATTg_le_b H k) as Hgb.
  unfold FR. unfold headn in HH.
  destruct w; cbn [wcost]; cbn [pc_nodes_ok] in Hok; try (unfold NODE; lia).
  - unfold PAYC, NODE. lia.
  - pose proof (phi2_le1 sh cz w ctl). unfold bw, NODE, RD2. lia.
  - unfold casj. pose proof (um_le1 sh c cur).
    destruct pr; try (pose proof (AC_le_ATTb (k + 1) H k ltac:(lia)); lia);
      destruct (_ =? _); try lia.
    + pose proof (AC_le_ATTb (k + 1) H k ltac:(lia)). lia.
    + pose proof (AC_le_ATTb (k + um sh c cur) H k ltac:(lia)). lia.
  - unfold retryo. destruct (reads_store pr); [destruct (_ =? _)|].
    + pose proof (AC_le_ATTb k H k ltac:(lia)). lia.
    + unfold LOADX, GETC in *. lia.
    + pose proof (AC_le_ATTb (k + 1) H k ltac:(lia)). lia.
  - destruct pr; try lia. pose proof (att_le_ATTb sh c v H k). lia.
  - unfold FINR. destruct (rcuq sh pr c) as [[q g]|]; try lia. destruct (_ =? _); try lia. destruct g; lia.
  - destruct (reads_store pr); try lia. pose proof (att_le_ATTb sh c q H k). lia.
Qed.

Lemma go_FR sh k : forall stk H pr cz,
  headn sh <= H -> Forall (pc_nodes_ok (mem sh LHead)) stk ->
  go sh k H pr cz stk <= length stk * FR (H + length stk * (k + 3)) k.
Proof.
  induction stk as [|w rest IH]; intros H pr cz HH Hf; cbn [go length]; [lia|].
  destruct (is_bottom w); [lia|].
  pose proof (Forall_inv Hf) as Hw. pose proof (Forall_inv_tail Hf) as Hr.
  pose proof (wnp_le sh k pr w) as Hn.
  set (n := length rest) in *. set (H' := H + wnp sh k pr w).
  pose proof (wcost_FR sh k H' pr cz w ltac:(unfold H'; lia) Hw) as Hc.
  specialize (IH H' (wpred sh pr w) cz ltac:(unfold H'; lia) Hr).
  assert (HT : H' + n * (k + 3) <= H + S n * (k + 3)) by (unfold H'; cbn [Nat.mul]; lia).
  pose proof (FR_mono H' (H + S n * (k + 3)) k ltac:(unfold H'; cbn [Nat.mul]; lia)) as M1.
  pose proof (FR_mono _ _ k HT) as M2.
  assert (n * FR (H' + n * (k + 3)) k <= n * FR (H + S n * (k + 3)) k) by (apply Nat.mul_le_mono_l; exact M2).
  cbn [Nat.mul] in *. fold n. lia.
Qed.

(** The measure of any well-formed thread state, bounded by a closed expression in the
    number of nodes [H], the budget [k] and the stack depth [d]. *)
Definition B_any (H k d : nat) : nat := d * FR (H + d * (k + 3)) k.

Lemma mu_B_any sh l k stk :
  Forall (pc_nodes_ok (mem sh LHead)) stk ->
  mu sh l k stk <= B_any (headn sh) k (length stk).
Proof.
  intros Hf. unfold B_any. destruct stk as [|p rest]; cbn [mu length]; [lia|].
  pose proof (Forall_inv Hf) as Hp. pose proof (Forall_inv_tail Hf) as Hr.
  pose proof (np_top_le sh k p) as Hn.
  set (n := length rest). set (H' := headn sh + np_top sh k p).
  pose proof (tcost_FR sh k H' p ltac:(unfold H'; lia) Hp) as Hc.
  pose proof (go_FR sh k rest H' (tpred sh l p) (tcz l p) ltac:(unfold H'; lia) Hr) as Hg. fold n in Hg.
  pose proof (FR_mono H' (headn sh + S n * (k + 3)) k ltac:(unfold H'; cbn [Nat.mul]; lia)) as M1.
  pose proof (FR_mono (H' + n * (k + 3)) (headn sh + S n * (k + 3)) k ltac:(unfold H'; cbn [Nat.mul]; lia)) as M2.
  assert (n * FR (H' + n * (k + 3)) k <= n * FR (headn sh + S n * (k + 3)) k) by (apply Nat.mul_le_mono_l; exact M2).
  cbn [Nat.mul] in *. lia.
Qed.

Theorem solo_bound_closed cf t xs s k :
  WF2 s -> t_status (thr s t) = Running -> spurs cf t xs s <= k ->
  solo_steps cf t xs s <= B_any (headn (sh s)) k (length (t_stack (thr s t))).
Proof.
  intros W Hrun Hsp. eapply Nat.le_trans; [apply (solo_bound cf t xs s k W Hsp)|].
  apply mu_B_any. apply (w_thr s W t Hrun).
Qed.

(** Every reachable state satisfies the invariant, so the bounds hold from any state a
    schedule can lead to, whatever the other threads were doing when they were frozen. *)
Corollary solo_bound_reachable cf inits progs sched t xs k :
  let s := fst (run cf (init_state inits progs) sched) in
  spurs cf t xs s <= k -> solo_steps cf t xs s <= mu_of s t k.
Proof.
  intros s Hsp. apply solo_bound; [|exact Hsp].
  apply (run_WF2 cf sched _ (WF2_init inits progs)).
Qed.

Print Assumptions exec_dec.
Print Assumptions solo_bound.
Print Assumptions solo_bound_closed.
Print Assumptions writer_solo_bound.
Print Assumptions solo_completes.
Print Assumptions solo_bound_reachable.
