(** * ASModel.ProgressW — solo completion bound for the writers (C09).

    A measure [mu] on (stack, shared memory, remaining budget of spurious compare-exchange
    failures) that strictly decreases with every step of a thread that runs alone.  The
    measure is compositional: the cost of the active frame plus the costs of the waiting
    frames below it, where every waiting frame is charged for the worst continuation that
    is compatible with what the frames above it are predicted to return. *)
From Coq Require Import Lia ZArith.
From ASModel Require Import Base State Orderings_gen Step Run Progress.

Local Notation n2 := N.to_nat.
Local Open Scope nat_scope.
Local Infix "=?" := N.eqb (at level 70) : nat_scope.

(** ** What the frames above a waiting frame will hand down *)
Inductive pred :=
| PNone                 (* nothing known *)
| PVal (v : N)          (* returns a guard on [v] *)
| PFresh (v : N)        (* returns a guard on [v]; no container is written before that *)
| PKeep.                (* no container is written before the return *)

Definition pred_le (a b : pred) : Prop :=
  b = PNone \/ a = b \/ (exists v, a = PFresh v /\ b = PVal v).

Definition conf (r : retval) (p : pred) : Prop :=
  match p with
  | PVal v | PFresh v => exists d, r = RGuard v d
  | _ => True
  end.

Definition reads_store (p : pred) : bool :=
  match p with PFresh _ | PKeep => true | _ => false end.

(** ** Constants *)
Definition NODE : nat := 63.
Definition RD : nat := 40.
Definition RD2 : nat := 42.
Definition FINR : nat := 6.
Definition GETC (H k : nat) : nat := 5 * H + k + 3.
Definition LOADX (H k : nat) : nat := GETC H k + 28.
Definition PAYC (H : nat) : nat := NODE * H + 7.
Definition CR (H k : nat) : nat := LOADX H k + 4.
Definition KS (H k : nat) : nat := GETC H k + PAYC H + 2.
Definition AC (j H k : nat) : nat := j * CR H k + KS H k + 1.
Definition ATTg (H k : nat) : nat := LOADX H k + AC k H k + FINR + 1.
Definition ATTb (H k : nat) : nat := LOADX H k + ATTg H k + 4.

(** Extra help rounds a writer may need on node [w] when it believes the control word is
    [ctl]: none if the word still has that value or does not ask for help (or is the
    thread's own word, which its nested load is about to reset), one otherwise. *)
Definition is_genb (v : N) : bool := N.land v TAG_MASK =? GEN_TAG.
Definition phi2 (sh : shared) (cz : option N) (w ctl : N) : nat :=
  if (match cz with Some n => n =? w | None => false end)
     || (mem sh (LCtrl w) =? ctl) || negb (is_genb (mem sh (LCtrl w)))
  then 0 else 1.

Definition bw (w : N) : nat := NODE * n2 w + 23.

(** ** The active frame *)
Definition um (sh : shared) (c cur : N) : nat := if mem sh (LStore c) =? cur then 0 else 1.
Definition att (sh : shared) (c q : N) (H k : nat) : nat :=
  if mem sh (LStore c) =? q then ATTg H k else ATTb H k.
Definition att_np (sh : shared) (c q : N) (k : nat) : nat := k + 2 + um sh c q.

(** Nodes the frame may still push onto the list (through Node::get) before it returns. *)
Definition np_top (sh : shared) (k : nat) (p : pc) : nat :=
  match p with
  | GHead | GCool1 _ | GCool2 _ | GCool3 _ | GBack _ | GClaim _ | GPush0 | GPush _ => 1
  | S1 _ _ | Q1 _ _ _ => 1
  | K1 c cur _ _ _ => k + um sh c cur + 1
  | RAlloc c _ q _ | RInc c _ q _ => att_np sh c q k
  | _ => 0
  end.

Definition rem0 (p : pc) : nat := match rem p with Some m => m | None => 0 end.

Definition tcost (sh : shared) (k H : nat) (p : pc) : nat :=
  match p with
  | GHead => GETC H k
  | GCool1 w => 5 * n2 w + k + 7 | GCool2 w => 5 * n2 w + k + 6 | GCool3 w => 5 * n2 w + k + 5
  | GBack w => 5 * n2 w + k + 4 | GClaim w => 5 * n2 w + k + 3
  | GPush0 => k + 2
  | GPush h => k + 1 + (if h =? mem sh LHead then 0 else 1)
  | C1 _ => 3 | C2 _ => 2 | C3 _ => 1
  | PDec _ _ => 1 | GD1 _ _ => 2 | GI1 _ _ => 3 | GI2 _ _ => 2
  | P1 _ _ => PAYC H | P2 _ _ => NODE * H + 6
  | P3 _ _ w => bw w + RD + 4 | PE0d _ _ w => bw w + RD + 3 | PE0e _ _ w => bw w + RD + 2
  | PE1 _ _ w => bw w + RD + 1
  | PE2 _ _ w ctl => bw w + RD + phi2 sh None w ctl * RD2
  | PE3 _ _ w ctl => bw w + (RD - 1) + phi2 sh None w ctl * RD2
  | PE4 _ _ w ctl _ => bw w + 5 + phi2 sh None w ctl * RD2
  | PE5 _ _ w ctl _ _ => bw w + 4 + phi2 sh None w ctl * RD2
  | PE6 _ _ w ctl _ _ _ => bw w + 3 + phi2 sh None w ctl * RD2
  | PE7 _ _ w ctl _ _ _ => bw w + 2 + phi2 sh None w ctl * RD2
  | PE8 _ _ w _ => bw w + 1
  | PE9 _ _ w newctl _ =>
      bw w + 1 + (if is_genb newctl then RD + phi2 sh None w newctl * RD2 else 0)
  | PS _ _ w j => NODE * n2 w + 5 + 2 * (9 - n2 j)
  | PSi _ _ w j => NODE * n2 w + 4 + 2 * (9 - n2 j)
  | P5 _ _ w => NODE * n2 w + 5
  | P6 _ _ => 4
  | S1 _ _ => GETC H k + PAYC H + 1
  | K1 c cur _ _ _ => AC (k + um sh c cur) H k
  | RAlloc c _ q _ | RInc c _ q _ => att sh c q H k
  | Q1 _ _ _ => LOADX H k + 5
  | NewAlloc | CloneInc _ => 1
  | _ => rem0 p
  end.

Definition curv (sh : shared) (c : N) : N := mem sh (LStore c).

Definition tpred (sh : shared) (l : tlocal) (p : pc) : pred :=
  let n := own_node l in
  match p with
  | LA1 c | LA1d c _ | LAscan c _ _ | LA3 c _ _ | LA4 c _ _ | LA5 c _ _ | LA6 c _
  | LH0d c | LH1 c _ | LH2 c _ => PFresh (curv sh c)
  | LH3 c gt => if mem sh (LCtrl n) =? gt then PFresh (curv sh c) else PNone
  | LH3d _ gt v | LH4 _ gt v | LH5 _ gt v => if mem sh (LCtrl n) =? gt then PFresh v else PNone
  | LH6a v | LH6b v | LH6c v => PFresh v
  | LH7 _ e => PFresh (mem sh (LEnv e))
  | LH8 _ _ r | LH9 _ r | LH10 _ r => PFresh r
  | K1 c cur _ v _ =>
      if curv sh c =? cur then (if v =? cur then PVal cur else PNone) else PFresh (curv sh c)
  | S1 _ _ | RAlloc _ _ _ _ | RInc _ _ _ _ => PNone
  | PDec _ (RGuard v _) => PFresh v
  | _ => PKeep
  end.

(** The node whose control word is certainly not a help request any more when the
    frames above return: the thread's own node while its load is in the fallback. *)
Definition tcz (l : tlocal) (p : pc) : option N :=
  match p with
  | LA5 _ _ _ | LA6 _ _ | LH0d _ | LH1 _ _ | LH2 _ _ | LH3 _ _ | LH3d _ _ _ | LH4 _ _ _
  | LH5 _ _ _ => Some (own_node l)
  | _ => None
  end.

(** ** Waiting frames *)
Definition casj (sh : shared) (k : nat) (pr : pred) (c cur : N) : option nat :=
  match pr with
  | PFresh v => if v =? cur then Some (k + um sh c cur) else None
  | PVal v => if v =? cur then Some (k + 1) else None
  | _ => Some (k + 1)
  end.

Definition retryj (sh : shared) (k : nat) (pr : pred) (c cur : N) : nat :=
  if reads_store pr then k + um sh c cur else k + 1.

(* (more nodes, cost given the head bound) of the continuation of rcu after its
   compare_and_swap returned *)
Definition rcuq (sh : shared) (pr : pred) (c : N) : option (N * bool) :=
  match pr with
  | PFresh q => Some (q, curv sh c =? q)
  | PVal q => Some (q, false)
  | _ => None
  end.

Definition wnp (sh : shared) (k : nat) (pr : pred) (w : pc) : nat :=
  match w with
  | WCasLoad c cur _ => match casj sh k pr c cur with Some j => j + 1 | None => 0 end
  | WCasRetry c cur _ => retryj sh k pr c cur + 2
  | WRcuLoad c _ => match pr with PFresh v => att_np sh c v k | _ => k + 3 end
  | WRcuCas c _ p _ =>
      match rcuq sh pr c with
      | Some (q, g) => if p =? q then 0 else if g then k + 2 else k + 3
      | None => k + 3
      end
  | WRcuNext c _ q _ => if reads_store pr then att_np sh c q k else k + 3
  | _ => 0
  end.

Definition wcost (sh : shared) (k H : nat) (pr : pred) (cz : option N) (w : pc) : nat :=
  match w with
  | WGetLoad _ => 28
  | WGetPay _ _ => PAYC H
  | WLoadFull => 3
  | WHelpRepl _ _ w ctl => bw w + 5 + phi2 sh cz w ctl * RD2
  | WDropOld | WDropStore _ | WCacheReload _ _ _ | WCasPaid _ _ => 1
  | WCasLoad c cur _ => match casj sh k pr c cur with Some j => AC j H k | None => 1 end
  | WCasRetry c cur _ => LOADX H k + AC (retryj sh k pr c cur) H k
  | WRcuLoad c _ => match pr with PFresh v => att sh c v H k | _ => ATTb H k end
  | WRcuCas c _ p _ =>
      match rcuq sh pr c with
      | Some (q, g) => if p =? q then FINR else if g then 2 + ATTg H k else 2 + ATTb H k
      | None => 2 + ATTb H k
      end
  | WRcuNext c _ q _ => if reads_store pr then att sh c q H k else ATTb H k
  | WRcuInto _ _ => 2
  | _ => 0
  end.

Definition wpred (sh : shared) (pr : pred) (w : pc) : pred :=
  match w with
  | WGetLoad c => if reads_store pr then PFresh (curv sh c) else PNone
  | WExit (RGuard v _) => if reads_store pr then PFresh v else PVal v
  | WCasPaid p _ => PVal p
  | WCasLoad c cur _ =>
      match pr with
      | PFresh v => if v =? cur then (if curv sh c =? cur then PVal cur else PNone) else PFresh v
      | PVal v => if v =? cur then PNone else PVal v
      | _ => PNone
      end
  | WCasRetry c cur _ =>
      if reads_store pr then (if curv sh c =? cur then PVal cur else PFresh (curv sh c)) else PNone
  | _ => PNone
  end.

Fixpoint go (sh : shared) (k H : nat) (pr : pred) (cz : option N) (stk : list pc) : nat :=
  match stk with
  | [] => 0
  | w :: rest =>
      if is_bottom w then 0
      else let H' := (H + wnp sh k pr w)%nat in
           (wcost sh k H' pr cz w + go sh k H' (wpred sh pr w) cz rest)%nat
  end.

Definition headn (sh : shared) : nat := n2 (mem sh LHead).

Definition mu (sh : shared) (l : tlocal) (k : nat) (stk : list pc) : nat :=
  match stk with
  | [] => 0
  | p :: rest =>
      let H := (headn sh + np_top sh k p)%nat in
      (tcost sh k H p + go sh k H (tpred sh l p) (tcz l p) rest)%nat
  end.

(** ** Arithmetic of the constants *)
Lemma GETC_mono H' H k' k : H' <= H -> k' <= k -> GETC H' k' <= GETC H k.
Proof. unfold GETC. lia. Qed.
Lemma LOADX_mono H' H k' k : H' <= H -> k' <= k -> LOADX H' k' <= LOADX H k.
Proof. intros. unfold LOADX. pose proof (GETC_mono H' H k' k). lia. Qed.
Lemma PAYC_mono H' H : H' <= H -> PAYC H' <= PAYC H.
Proof. unfold PAYC, NODE. lia. Qed.
Lemma CR_mono H' H k' k : H' <= H -> k' <= k -> CR H' k' <= CR H k.
Proof. intros. unfold CR. pose proof (LOADX_mono H' H k' k). lia. Qed.
Lemma KS_mono H' H k' k : H' <= H -> k' <= k -> KS H' k' <= KS H k.
Proof. intros. unfold KS. pose proof (GETC_mono H' H k' k). pose proof (PAYC_mono H' H). lia. Qed.
Lemma AC_mono j' j H' H k' k : j' <= j -> H' <= H -> k' <= k -> AC j' H' k' <= AC j H k.
Proof.
  intros. unfold AC. pose proof (CR_mono H' H k' k). pose proof (KS_mono H' H k' k).
  assert (j' * CR H' k' <= j * CR H k) by (apply Nat.mul_le_mono; auto). lia.
Qed.
Lemma AC_S j H k : AC (S j) H k = CR H k + AC j H k.
Proof. unfold AC. lia. Qed.
Lemma AC_lb j H k : KS H k + 1 <= AC j H k.
Proof. unfold AC. lia. Qed.
Lemma ATTg_mono H' H k' k : H' <= H -> k' <= k -> ATTg H' k' <= ATTg H k.
Proof.
  intros. unfold ATTg. pose proof (LOADX_mono H' H k' k). pose proof (AC_mono k' k H' H k' k). lia.
Qed.
Lemma ATTb_mono H' H k' k : H' <= H -> k' <= k -> ATTb H' k' <= ATTb H k.
Proof.
  intros. unfold ATTb. pose proof (LOADX_mono H' H k' k). pose proof (ATTg_mono H' H k' k). lia.
Qed.
Lemma ATTg_le_b H k : ATTg H k <= ATTb H k.
Proof. unfold ATTb. lia. Qed.

Lemma um_le1 sh c cur : um sh c cur <= 1.
Proof. unfold um. destruct (_ =? _); lia. Qed.

Lemma pred_le_refl a : pred_le a a.
Proof. right; left; reflexivity. Qed.
Lemma pred_le_none a : pred_le a PNone.
Proof. left; reflexivity. Qed.
Lemma pred_le_reads a b : pred_le a b -> reads_store b = true -> a = b.
Proof.
  intros [->|[->|(v & -> & ->)]]; cbn; try discriminate; auto.
Qed.

(** ** Monotonicity of the waiting part *)
Definition ole (a b : option nat) : Prop :=
  match a, b with
  | None, _ => True
  | Some x, Some y => x <= y
  | Some _, None => False
  end.

Ltac pl := first [ left; reflexivity | right; left; reflexivity
                 | right; right; eexists; split; reflexivity ].

Section Mono.
  Variables (sh' sh : shared) (k' k : nat) (pr' pr : pred) (cz' cz : option N).
  Hypothesis Hk : k' <= k.
  Hypothesis Hle : pred_le pr' pr.
  Hypothesis Hst : reads_store pr = true -> forall c, curv sh' c = curv sh c.
  Hypothesis Hphi : forall w ctl, phi2 sh' cz' w ctl <= phi2 sh cz w ctl.

  Lemma um_st c cur : reads_store pr = true -> um sh' c cur = um sh c cur.
  Proof. intros H. unfold um. fold (curv sh' c) (curv sh c). rewrite (Hst H). reflexivity. Qed.

  Lemma casj_mono c cur : ole (casj sh' k' pr' c cur) (casj sh k pr c cur).
  Proof.
    pose proof (um_le1 sh' c cur). pose proof (um_st c cur) as Hu.
    destruct Hle as [->|[->|(v & -> & ->)]].
    - destruct pr'; cbn; try lia; destruct (_ =? _); cbn; lia.
    - destruct pr; cbn; try lia; destruct (_ =? _); cbn; try lia; auto.
      rewrite Hu by reflexivity. lia.
    - cbn. destruct (_ =? _); cbn; try lia; auto.
  Qed.

  Lemma retryj_mono c cur : retryj sh' k' pr' c cur <= retryj sh k pr c cur.
  Proof.
    pose proof (um_le1 sh' c cur). pose proof (um_st c cur) as Hu. unfold retryj.
    destruct Hle as [->|[->|(v & -> & ->)]]; cbn.
    - destruct (reads_store pr'); lia.
    - destruct (reads_store pr) eqn:E; [rewrite Hu by reflexivity|]; lia.
    - lia.
  Qed.

  Lemma att_st c q H' H : reads_store pr = true -> H' <= H ->
    att sh' c q H' k' <= att sh c q H k /\ att_np sh' c q k' <= att_np sh c q k.
  Proof.
    intros Hr HH. unfold att, att_np, um. fold (curv sh' c) (curv sh c). rewrite (Hst Hr).
    pose proof (ATTg_mono H' H k' k HH Hk). pose proof (ATTb_mono H' H k' k HH Hk).
    destruct (_ =? _); lia.
  Qed.
  Lemma att_le_b c q H' H : H' <= H ->
    att sh' c q H' k' <= ATTb H k /\ att_np sh' c q k' <= k + 3.
  Proof.
    intros HH. unfold att, att_np. pose proof (um_le1 sh' c q).
    pose proof (ATTg_mono H' H k' k HH Hk). pose proof (ATTb_mono H' H k' k HH Hk).
    pose proof (ATTg_le_b H k). destruct (_ =? _); lia.
  Qed.

  Lemma wnp_mono w : wnp sh' k' pr' w <= wnp sh k pr w.
  Proof.
    destruct w; cbn [wnp]; try lia;
      try (pose proof (att_st c) as As; pose proof (att_le_b c) as Ab).
    - pose proof (casj_mono c cur) as Hc. destruct (casj sh' k' pr' c cur), (casj sh k pr c cur); cbn in Hc; try lia; contradiction.
    - pose proof (retryj_mono c cur). lia.
    - destruct Hle as [->|[->|(v & -> & ->)]].
      + destruct pr'; try lia. apply (Ab v 0 0); lia.
      + destruct pr; try lia. apply (As v 0 0); auto.
      + apply (Ab v 0 0); lia.
    - destruct Hle as [->|[->|(v & -> & ->)]]; cbn [rcuq].
      + destruct (rcuq sh' pr' c) as [[q g]|]; try lia. destruct (_ =? _); try lia. destruct g; lia.
      + destruct pr; cbn [rcuq]; try lia.
        * destruct (_ =? _); try lia.
        * rewrite (Hst eq_refl). destruct (_ =? _); try lia. destruct (_ =? _); lia.
      + destruct (_ =? _); try lia. destruct (_ =? _); lia.
    - destruct Hle as [->|[->|(v & -> & ->)]]; cbn [reads_store].
      + destruct (reads_store pr'); try lia. apply (Ab q 0 0); lia.
      + destruct (reads_store pr) eqn:E; try lia. apply (As q 0 0); auto.
      + apply (Ab q 0 0); lia.
  Qed.

  Lemma wcost_mono w H1' H1 : H1' <= H1 ->
    wcost sh' k' H1' pr' cz' w <= wcost sh k H1 pr cz w.
  Proof.
    intros HH.
    pose proof (ATTg_mono H1' H1 k' k HH Hk) as Mg. pose proof (ATTb_mono H1' H1 k' k HH Hk) as Mb.
    pose proof (ATTg_le_b H1 k) as Mgb.
    assert (6 <= ATTg H1 k) as Mlb by (unfold ATTg, FINR; lia).
    destruct w; cbn [wcost]; try lia;
      try (pose proof (att_st c) as As; pose proof (att_le_b c) as Ab).
    - apply PAYC_mono; auto.
    - pose proof (Hphi w ctl). unfold RD2. lia.
    - pose proof (casj_mono c cur) as Hc. pose proof (AC_lb 0 H1 k).
      destruct (casj sh' k' pr' c cur) as [j'|], (casj sh k pr c cur) as [j|]; cbn in Hc; try lia; try contradiction.
      + apply AC_mono; auto.
      + pose proof (AC_lb j H1 k). lia.
    - pose proof (retryj_mono c cur). pose proof (LOADX_mono H1' H1 k' k HH Hk).
      pose proof (AC_mono (retryj sh' k' pr' c cur) (retryj sh k pr c cur) H1' H1 k' k). lia.
    - destruct Hle as [->|[->|(v & -> & ->)]].
      + destruct pr'; try lia. apply (Ab v H1' H1); lia.
      + destruct pr; try lia. apply (As v H1' H1); auto.
      + apply (Ab v H1' H1); lia.
    - unfold FINR in *. destruct Hle as [->|[->|(v & -> & ->)]]; cbn [rcuq].
      + destruct (rcuq sh' pr' c) as [[q g]|]; try lia. destruct (_ =? _); try lia. destruct g; lia.
      + destruct pr; cbn [rcuq]; try lia.
        * destruct (_ =? _); try lia.
        * rewrite (Hst eq_refl). destruct (_ =? _); try lia. destruct (_ =? _); lia.
      + destruct (_ =? _); try lia. destruct (_ =? _); lia.
    - destruct Hle as [->|[->|(v & -> & ->)]]; cbn [reads_store].
      + destruct (reads_store pr'); try lia. apply (Ab q H1' H1); lia.
      + destruct (reads_store pr) eqn:E; try lia. apply (As q H1' H1); auto.
      + apply (Ab q H1' H1); lia.
  Qed.

  Lemma wpred_mono w : pred_le (wpred sh' pr' w) (wpred sh pr w).
  Proof.
    destruct w; cbn [wpred]; try apply pred_le_refl.
    - (* WGetLoad *)
      destruct Hle as [->|[->|(v & -> & ->)]]; cbn [reads_store]; try apply pred_le_none.
      destruct (reads_store pr) eqn:E; [rewrite (Hst eq_refl)|]; apply pred_le_refl.
    - (* WExit *)
      destruct r; try apply pred_le_refl.
      destruct Hle as [->|[->|(v & -> & ->)]]; cbn [reads_store].
      + destruct (reads_store pr'); pl.
      + pl.
      + pl.
    - (* WCasLoad *)
      destruct Hle as [->|[->|(v & -> & ->)]]; try apply pred_le_none.
      + destruct pr; try apply pred_le_refl. rewrite (Hst eq_refl). apply pred_le_refl.
      + destruct (_ =? _); pl.
    - (* WCasRetry *)
      destruct Hle as [->|[->|(v & -> & ->)]]; cbn [reads_store]; try apply pred_le_none.
      destruct (reads_store pr) eqn:E; [rewrite (Hst eq_refl)|]; apply pred_le_refl.
  Qed.

  Lemma wpred_reads w : reads_store (wpred sh pr w) = true -> reads_store pr = true.
  Proof.
    destruct w; cbn [wpred]; try discriminate.
    - destruct (reads_store pr); auto.
    - destruct r; try discriminate. destruct (reads_store pr); auto.
    - destruct pr; try discriminate; cbn [reads_store]; auto. destruct (_ =? _); discriminate.
    - destruct (reads_store pr); auto.
  Qed.
End Mono.

Lemma go_mono stk : forall sh' sh k' k H' H pr' pr cz' cz,
  k' <= k -> H' <= H -> pred_le pr' pr ->
  (reads_store pr = true -> forall c, curv sh' c = curv sh c) ->
  (forall w ctl, phi2 sh' cz' w ctl <= phi2 sh cz w ctl) ->
  go sh' k' H' pr' cz' stk <= go sh k H pr cz stk.
Proof.
  induction stk as [|w rest IH]; intros sh' sh k' k H' H pr' pr cz' cz Hk HH Hle Hst Hphi; cbn [go]; [lia|].
  destruct (is_bottom w); [lia|].
  pose proof (wnp_mono sh' sh k' k pr' pr Hk Hle Hst w) as Hn.
  pose proof (wcost_mono sh' sh k' k pr' pr cz' cz Hk Hle Hst Hphi w
                (H' + wnp sh' k' pr' w) (H + wnp sh k pr w) ltac:(lia)) as Hc.
  specialize (IH sh' sh k' k (H' + wnp sh' k' pr' w) (H + wnp sh k pr w)
                 (wpred sh' pr' w) (wpred sh pr w) cz' cz Hk ltac:(lia)
                 (wpred_mono sh' sh pr' pr Hle Hst w)).
  assert (reads_store (wpred sh pr w) = true -> forall c, curv sh' c = curv sh c) as Hst2.
  { intros Hr. apply Hst. eapply wpred_reads; eauto. }
  specialize (IH Hst2 Hphi). lia.
Qed.

(** ** Entering calls *)
Lemma phi2_none sh cz w ctl : phi2 sh cz w ctl <= phi2 sh None w ctl.
Proof. unfold phi2. destruct cz as [n|]; [destruct (n =? w)|]; cbn; destruct (_ || _); lia. Qed.

Lemma go_weaken sh k H' H pr' pr cz stk :
  H' <= H -> pred_le pr' pr -> go sh k H' pr' cz stk <= go sh k H pr None stk.
Proof.
  intros. apply go_mono; auto. intros. apply phi2_none.
Qed.

Lemma mu_top_le sh l k p rest C H1 pr1 :
  headn sh + np_top sh k p <= H1 ->
  tcost sh k (headn sh + np_top sh k p) p <= C ->
  pred_le (tpred sh l p) pr1 ->
  mu sh l k (p :: rest) <= C + go sh k H1 pr1 None rest.
Proof.
  intros HH HC Hp. cbn [mu].
  pose proof (go_weaken sh k _ _ _ _ (tcz l p) rest HH Hp). lia.
Qed.

Lemma fallback_entry_pred cf sh l c l' p' :
  fallback_entry cf l c = (l', NGoto p') ->
  tpred sh l' p' = PFresh (curv sh c) /\ np_top sh 0 p' = 0 /\ (forall k, np_top sh k p' = 0) /\
  (forall k H, tcost sh k H p' <= 14).
Proof.
  unfold fallback_entry. destruct (tl_node l); [|discriminate].
  destruct (cf_debug cf); intros [= <- <-]; cbn; repeat split; auto; intros; cbn; lia.
Qed.

Lemma mu_enter_load cf sh l k c l' fs tail :
  enter_load cf l c = inl (l', fs) ->
  mu sh l' k (fs ++ tail) <=
  LOADX (headn sh + 1) k + go sh k (headn sh + 1) (PFresh (curv sh c)) None tail.
Proof.
  unfold enter_load. destruct (tl_node l) eqn:Hn.
  - unfold load_body. destruct (cf_use_fast cf).
    + intros [= <- <-]. cbn [app].
      eapply Nat.le_trans; [apply (mu_top_le _ _ _ _ _ 28 (headn sh + 1) (PFresh (curv sh c)))|].
      * cbn. lia.
      * cbn. lia.
      * apply pred_le_refl.
      * unfold LOADX. lia.
    + destruct (fallback_entry cf _ c) as [l2 nx] eqn:Hf. destruct nx; try discriminate.
      intros [= <- <-]. cbn [app].
      destruct (fallback_entry_pred cf sh _ c _ _ Hf) as (Hp & _ & Hnp & Hc).
      eapply Nat.le_trans; [apply (mu_top_le _ _ _ _ _ 28 (headn sh + 1) (PFresh (curv sh c)))|].
      * rewrite Hnp. lia.
      * pose proof (Hc k (headn sh + np_top sh k p)). lia.
      * rewrite Hp. apply pred_le_refl.
      * unfold LOADX. lia.
  - intros [= <- <-]. cbn. rewrite !Nat.add_0_r. unfold LOADX. lia.
Qed.

Lemma mu_enter_pay sh l k c old l' fs tail :
  enter_pay l c old = (l', fs) ->
  mu sh l' k (fs ++ tail) <=
  GETC (headn sh + 1) k + PAYC (headn sh + 1) + go sh k (headn sh + 1) PNone None tail.
Proof.
  unfold enter_pay. destruct (tl_node l) eqn:Hn; intros [= <- <-].
  - cbn [app]. pose proof (PAYC_mono (headn sh) (headn sh + 1) ltac:(lia)).
    eapply Nat.le_trans; [apply (mu_top_le _ _ _ _ _ (PAYC (headn sh + 1)) (headn sh + 1) PNone)|].
    + unfold pay_body. destruct (_ =? _); cbn; lia.
    + unfold pay_body. destruct (_ =? _); cbn; rewrite Nat.add_0_r; unfold PAYC in *; lia.
    + apply pred_le_none.
    + lia.
  - cbn. rewrite !Nat.add_0_r. lia.
Qed.

Lemma mu_gdrop sh l k p d f fs tail :
  guard_drop_frames p d = f :: fs ->
  fs = [] /\ mu sh l k (f :: tail) <= 2 + go sh k (headn sh) PKeep None tail.
Proof.
  unfold guard_drop_frames. destruct d as [sl|]; [|destruct (p =? 0); [discriminate|]];
    intros [= <- <-]; (split; [reflexivity|]);
    (eapply Nat.le_trans; [apply (mu_top_le _ _ _ _ _ 2 (headn sh) PKeep); cbn; try lia; apply pred_le_refl|lia]).
Qed.

Lemma mu_ginto sh l k p d f fs tail :
  guard_into_frames p d = f :: fs ->
  fs = [] /\ mu sh l k (f :: tail) <= 3 + go sh k (headn sh) PKeep None tail.
Proof.
  unfold guard_into_frames. destruct d as [sl|]; [destruct (p =? 0)|discriminate];
    intros [= <- <-]; (split; [reflexivity|]);
    (eapply Nat.le_trans; [apply (mu_top_le _ _ _ _ _ 3 (headn sh) PKeep); cbn; try lia; apply pred_le_refl|lia]).
Qed.

Lemma go_PKeep_le sh k H' H stk : H' <= H -> go sh k H' PKeep None stk <= go sh k H PNone None stk.
Proof. intros. apply go_weaken; auto. apply pred_le_none. Qed.

(** ** One attempt of rcu *)
Definition att_bound (sh : shared) (k : nat) (c p : N) (rest : list pc) : nat :=
  att sh c p (headn sh + att_np sh c p k) k + go sh k (headn sh + att_np sh c p k) PNone None rest.

Lemma mu_att_push cf sh l k c m p d x l' fs rest :
  enter_load cf l c = inl (l', fs) ->
  mu sh l' k ((fs ++ [WCasLoad c p x]) ++ WRcuCas c m p d :: rest) + 1 <= att_bound sh k c p rest.
Proof.
  intros He. rewrite <- app_assoc. cbn [app].
  eapply Nat.le_trans; [apply Nat.add_le_mono_r; eapply mu_enter_load; exact He|].
  unfold att_bound, att, att_np, um. fold (curv sh c).
  cbn [go is_bottom wnp wcost wpred casj rcuq]. unfold um. fold (curv sh c).
  destruct (curv sh c =? p) eqn:E.
  - cbn [wnp wcost wpred rcuq]. rewrite ?N.eqb_refl, !Nat.add_0_r.
    replace (headn sh + 1 + (k + 1)) with (headn sh + (k + 2)) by lia.
    pose proof (LOADX_mono (headn sh + 1) (headn sh + (k + 2)) k k ltac:(lia) ltac:(lia)).
    unfold ATTg. lia.
  - cbn [wnp wcost wpred rcuq]. rewrite ?N.eqb_refl, ?(N.eqb_sym p), ?E, !Nat.add_0_r.
    replace (headn sh + 1 + (k + 2)) with (headn sh + (k + 2 + 1)) by lia.
    pose proof (LOADX_mono (headn sh + 1) (headn sh + (k + 2 + 1)) k k ltac:(lia) ltac:(lia)).
    unfold ATTb. lia.
Qed.

Lemma att_lb sh c p H k : 6 <= att sh c p H k.
Proof. unfold att, ATTb, ATTg, FINR. destruct (_ =? _); lia. Qed.

Lemma mu_rcu_attempt cf sh l k c m p d l' nx rest :
  rcu_attempt cf l c m p d = (l', nx) ->
  match nx with
  | NGoto p' => mu sh l' k (p' :: rest) <= att_bound sh k c p rest
  | NPush fs wt => mu sh l' k (fs ++ wt :: rest) <= att_bound sh k c p rest
  | _ => True
  end.
Proof.
  assert (Halloc : forall m0, mu sh l k (RAlloc c m0 p d :: rest) <= att_bound sh k c p rest).
  { intros m0. unfold att_bound. cbn [mu np_top tcost tpred tcz]. lia. }
  assert (Hpush : forall x, match enter_load cf l c with
            | inl (l'0, frames) => (l'0, NPush (frames ++ [WCasLoad c p x]) (WRcuCas c m p d))
            | inr ps => (l, NPanic ps) end = (l', nx) ->
            match nx with
            | NGoto p' => mu sh l' k (p' :: rest) <= att_bound sh k c p rest
            | NPush fs wt => mu sh l' k (fs ++ wt :: rest) <= att_bound sh k c p rest
            | _ => True end).
  { intros x. destruct (enter_load cf l c) as [[l0 fs]|ps] eqn:He; intros [= <- <-]; [|exact I].
    pose proof (mu_att_push cf sh l k c m p d x l0 fs rest He). lia. }
  assert (Hpanic : forall g, guard_drop_frames p d = g -> match g with [] => (l, NRet RPanic) | _ :: _ => (l, NPush g WRcuPanic) end = (l', nx) ->
            match nx with
            | NGoto p' => mu sh l' k (p' :: rest) <= att_bound sh k c p rest
            | NPush fs wt => mu sh l' k (fs ++ wt :: rest) <= att_bound sh k c p rest
            | _ => True end).
  { intros g Hg. destruct g as [|f fs]; intros [= <- <-]; [exact I|].
    destruct (mu_gdrop sh l k p d f fs (WRcuPanic :: rest) Hg) as [-> Hm]. cbn [app].
    cbn [go is_bottom wnp wcost wpred] in Hm. rewrite !Nat.add_0_r in Hm.
    unfold att_bound. pose proof (att_lb sh c p (headn sh + att_np sh c p k) k).
    pose proof (go_PKeep_le sh k (headn sh) (headn sh + att_np sh c p k) rest ltac:(lia)).
    assert (go sh k (headn sh) PNone None rest <= go sh k (headn sh + att_np sh c p k) PNone None rest)
      by (apply go_weaken; [lia|apply pred_le_refl]). lia. }
  unfold rcu_attempt. destruct m.
  - intros [= <- <-]. apply Halloc.
  - apply Hpush.
  - destruct (p =? 0); [apply Hpush|]. intros [= <- <-].
    unfold att_bound. cbn [mu np_top tcost tpred tcz]. lia.
  - destruct (k0 =? 0)%N.
    + generalize (Hpanic _ eq_refl). destruct (guard_drop_frames p d); auto.
    + intros [= <- <-]. apply Halloc.
Qed.

(** ** Resuming a waiting frame costs no more than what it was charged *)
Definition wbound (sh : shared) (k H : nat) (pr : pred) (w : pc) (rest : list pc) : nat :=
  wcost sh k (H + wnp sh k pr w) pr None w +
  go sh k (H + wnp sh k pr w) (wpred sh pr w) None rest.

Definition res_ok (sh : shared) (k H : nat) (pr : pred) (w : pc) (l' : tlocal) (nx : next) : Prop :=
  match nx with
  | NGoto p' => forall rest, mu sh l' k (p' :: rest) <= wbound sh k H pr w rest
  | NPush fs wt => forall rest, mu sh l' k (fs ++ wt :: rest) <= wbound sh k H pr w rest
  | NRet v' => conf v' (wpred sh pr w)
  | _ => True
  end.

Lemma res_dec sh k H pr w l a r :
  headn sh <= H -> 1 <= wcost sh k (H + wnp sh k pr w) pr None w ->
  conf r (wpred sh pr w) ->
  pred_le (tpred sh l (PDec a r)) (wpred sh pr w) ->
  res_ok sh k H pr w l (dec_then a r).
Proof.
  intros HH Hc Hcf Hp. unfold dec_then. destruct (a =? 0); cbn [res_ok]; [exact Hcf|].
  intros rest. unfold wbound.
  eapply Nat.le_trans; [apply (mu_top_le _ _ _ _ _ 1 (H + wnp sh k pr w) (wpred sh pr w)); cbn [np_top tcost]; try lia; exact Hp|lia].
Qed.

Lemma res_simple sh k H pr w l p C :
  headn sh <= H -> np_top sh k p = 0 -> (forall H0, tcost sh k H0 p <= C) ->
  C <= wcost sh k (H + wnp sh k pr w) pr None w ->
  pred_le (tpred sh l p) (wpred sh pr w) ->
  res_ok sh k H pr w l (NGoto p).
Proof.
  intros HH Hn Hc HC Hp rest. unfold wbound.
  eapply Nat.le_trans; [apply (mu_top_le _ _ _ _ _ C (H + wnp sh k pr w) (wpred sh pr w)); auto; rewrite Hn; lia|lia].
Qed.

Lemma res_casload sh k H pr c cur new p d l :
  headn sh <= H -> conf (RGuard p d) pr ->
  res_ok sh k H pr (WCasLoad c cur new) l
    (if p =? cur then NGoto (K1 c cur new p d) else dec_then new (RGuard p d)).
Proof.
  intros HH Hcf. pose proof (um_le1 sh c cur) as Hu.
  destruct (p =? cur) eqn:E.
  - apply N.eqb_eq in E. subst p. intros rest. unfold wbound.
    assert (exists j, casj sh k pr c cur = Some j /\ k + um sh c cur <= j) as (j & Hj & Hle).
    { destruct pr; cbn [casj conf] in *; try (eexists; split; [reflexivity|lia]);
        destruct Hcf as (d0 & [= <-]); rewrite N.eqb_refl; eexists; split; try reflexivity; lia. }
    cbn [wnp wcost]. rewrite Hj.
    apply mu_top_le.
    + cbn [np_top]. lia.
    + cbn [np_top tcost]. apply AC_mono; lia.
    + cbn [tpred wpred]. rewrite N.eqb_refl.
      destruct pr; cbn [conf] in Hcf; try apply pred_le_none;
        destruct Hcf as (d0 & [= <-]); rewrite N.eqb_refl; try apply pred_le_none.
      destruct (curv sh c =? cur); [apply pred_le_refl|apply pred_le_none].
  - apply res_dec; auto.
    + cbn [wnp wcost]. destruct (casj sh k pr c cur) as [j|]; [|lia].
      pose proof (AC_lb j (H + (j + 1)) k). lia.
    + cbn [wpred]. destruct pr; cbn [conf] in *; auto;
        destruct Hcf as (d0 & [= <-]); rewrite E; cbn; eauto.
    + cbn [tpred wpred]. destruct pr; cbn [conf] in *; try apply pred_le_none;
        destruct Hcf as (d0 & [= <-]); rewrite E; pl.
Qed.

Lemma res_casretry cf sh k H pr c cur new l l' fs :
  headn sh <= H -> enter_load cf l c = inl (l', fs) ->
  res_ok sh k H pr (WCasRetry c cur new) l' (NPush fs (WCasLoad c cur new)).
Proof.
  intros HH He rest. unfold wbound.
  eapply Nat.le_trans; [eapply mu_enter_load; exact He|].
  cbn [go is_bottom wnp wcost wpred casj]. unfold um at 1 2 3. fold (curv sh c).
  set (j := retryj sh k pr c cur). assert (k + um sh c cur <= j) as Hj.
  { unfold j, retryj. pose proof (um_le1 sh c cur). destruct (reads_store pr); lia. }
  pose proof (LOADX_mono (headn sh + 1) (H + (j + 2)) k k ltac:(lia) ltac:(lia)).
  assert (Hgo : forall pa, pred_le pa (if reads_store pr then if curv sh c =? cur then PVal cur else PFresh (curv sh c) else PNone) ->
     forall Ha, Ha <= H + (j + 2) ->
     go sh k Ha pa None rest <= go sh k (H + (j + 2))
       (if reads_store pr then if curv sh c =? cur then PVal cur else PFresh (curv sh c) else PNone) None rest).
  { intros pa Hpa Ha HHa. apply go_weaken; auto. }
  destruct (curv sh c =? cur) eqn:E.
  - cbn [wnp wcost wpred]. unfold um in Hj. fold (curv sh c) in Hj. rewrite E in Hj.
    pose proof (AC_mono (k + 0) j (headn sh + 1 + (k + 0 + 1)) (H + (j + 2)) k k ltac:(lia) ltac:(lia) ltac:(lia)).
    pose proof (Hgo (PVal cur) ltac:(destruct (reads_store pr); [apply pred_le_refl|apply pred_le_none])
                  (headn sh + 1 + (k + 0 + 1)) ltac:(lia)). lia.
  - cbn [wnp wcost wpred]. rewrite ?E.
    pose proof (AC_lb j (H + (j + 2)) k).
    pose proof (Hgo (PFresh (curv sh c)) ltac:(destruct (reads_store pr); [apply pred_le_refl|apply pred_le_none])
                  (headn sh + 1 + 0) ltac:(lia)). lia.
Qed.

Lemma att_mono sh c q H' H k : H' <= H -> att sh c q H' k <= att sh c q H k.
Proof.
  intros. unfold att. pose proof (ATTg_mono H' H k k). pose proof (ATTb_mono H' H k k).
  destruct (_ =? _); lia.
Qed.

Lemma att_bound_le sh k c q rest H1 C :
  headn sh + att_np sh c q k <= H1 -> att sh c q H1 k <= C ->
  att_bound sh k c q rest <= C + go sh k H1 PNone None rest.
Proof.
  intros HH HC. unfold att_bound.
  pose proof (att_mono sh c q _ _ k HH).
  pose proof (go_weaken sh k _ _ PNone PNone None rest HH (pred_le_refl _)). lia.
Qed.

Lemma res_of_attempt cf sh k H pr w l c m q dq l' nx :
  (forall rest, att_bound sh k c q rest <= wbound sh k H pr w rest) ->
  wpred sh pr w = PNone ->
  rcu_attempt cf l c m q dq = (l', nx) ->
  res_ok sh k H pr w l' nx.
Proof.
  intros Hb Hp Ha. pose proof (mu_rcu_attempt cf sh l k c m q dq l' nx) as Hm.
  destruct nx; cbn [res_ok]; try exact I.
  - intros rest. exact (Nat.le_trans _ _ _ (Hm rest Ha) (Hb rest)).
  - intros rest. exact (Nat.le_trans _ _ _ (Hm rest Ha) (Hb rest)).
  - rewrite Hp. exact I.
Qed.

Lemma res_rcuload cf sh k H pr c m p d l l' nx :
  headn sh <= H -> conf (RGuard p d) pr ->
  rcu_attempt cf l c m p d = (l', nx) ->
  res_ok sh k H pr (WRcuLoad c m) l' nx.
Proof.
  intros HH Hcf. apply res_of_attempt; [|reflexivity].
  intros rest. unfold wbound. cbn [wnp wcost wpred].
  destruct pr; cbn [conf] in Hcf; try destruct Hcf as (d0 & [= <-]);
    apply att_bound_le; try lia;
    try (apply (att_le_b sh k k (Nat.le_refl _) c p); lia);
    try (pose proof (att_le_b sh k k (Nat.le_refl _) c p 0 0 ltac:(lia)); lia).
Qed.

Lemma res_rcunext cf sh k H pr c m q dq l l' nx :
  headn sh <= H ->
  rcu_attempt cf l c m q dq = (l', nx) ->
  res_ok sh k H pr (WRcuNext c m q dq) l' nx.
Proof.
  intros HH. apply res_of_attempt; [|reflexivity].
  intros rest. unfold wbound. cbn [wnp wcost wpred].
  pose proof (att_le_b sh k k (Nat.le_refl _) c q 0 0 ltac:(lia)) as [_ Hn].
  destruct (reads_store pr); apply att_bound_le; try lia.
  apply (att_le_b sh k k (Nat.le_refl _) c q). lia.
Qed.

(* the continuation of rcu after compare_and_swap returned a guard on [q] *)
Lemma res_rcucas cf sh k H pr c m p d q dq l l' nx :
  headn sh <= H -> conf (RGuard q dq) pr ->
  resume cf l (WRcuCas c m p d) (RGuard q dq) = (l', nx) ->
  res_ok sh k H pr (WRcuCas c m p d) l' nx.
Proof.
  intros HH Hcf.
  assert (Hq : match rcuq sh pr c with Some (q0, _) => q0 = q | None => True end).
  { destruct pr; cbn [rcuq conf] in *; auto; destruct Hcf as (d0 & [= <-]); reflexivity. }
  cbn [resume]. destruct (p =? q) eqn:E.
  - (* done *)
    assert (HC : 6 <= wcost sh k (H + wnp sh k pr (WRcuCas c m p d)) pr None (WRcuCas c m p d)).
    { cbn [wnp wcost]. destruct (rcuq sh pr c) as [[q0 g]|].
      - subst q0. rewrite E. unfold FINR. lia.
      - unfold ATTb. lia. }
    destruct (guard_into_frames q dq) as [|f fs] eqn:Hi.
    + destruct (guard_drop_frames p d) as [|f fs] eqn:Hg; intros [= <- <-]; [exact I|].
      intros rest. destruct (mu_gdrop sh l k p d f fs (WRcuRet q :: rest) Hg) as [-> Hm].
      cbn [app]. cbn [go is_bottom wnp wcost wpred] in Hm. rewrite !Nat.add_0_r in Hm.
      unfold wbound. cbn [wpred].
      pose proof (go_weaken sh k (headn sh) (H + wnp sh k pr (WRcuCas c m p d)) PNone PNone None rest ltac:(lia) (pred_le_refl _)). lia.
    + intros [= <- <-]. intros rest.
      destruct (mu_ginto sh l k q dq f fs (WRcuInto p d :: rest) Hi) as [-> Hm].
      cbn [app]. cbn [go is_bottom wnp wcost wpred] in Hm. rewrite !Nat.add_0_r in Hm.
      unfold wbound. cbn [wpred].
      pose proof (go_weaken sh k (headn sh) (H + wnp sh k pr (WRcuCas c m p d)) PNone PNone None rest ltac:(lia) (pred_le_refl _)). lia.
  - (* next round *)
    pose proof (att_le_b sh k k (Nat.le_refl _) c q) as Hab.
    assert (Hb : forall rest, 2 + att_bound sh k c q rest <= wbound sh k H pr (WRcuCas c m p d) rest).
    { intros rest. unfold wbound. cbn [wnp wcost wpred].
      destruct (rcuq sh pr c) as [[q0 g]|] eqn:Hr.
      - subst q0. rewrite E. destruct g.
        + assert (curv sh c =? q = true) as Hc.
          { destruct pr; cbn [rcuq] in Hr; try discriminate; injection Hr as <- Hr; auto. }
          unfold att_bound, att, att_np, um. fold (curv sh c). rewrite Hc.
          pose proof (ATTg_mono (headn sh + (k + 2 + 0)) (H + (k + 2)) k k ltac:(lia) ltac:(lia)).
          pose proof (go_weaken sh k (headn sh + (k + 2 + 0)) (H + (k + 2)) PNone PNone None rest ltac:(lia) (pred_le_refl _)). lia.
        + rewrite <- Nat.add_assoc. apply Nat.add_le_mono_l. apply att_bound_le; [|apply Hab; lia].
          pose proof (Hab 0 0 ltac:(lia)). lia.
      - rewrite <- Nat.add_assoc. apply Nat.add_le_mono_l. apply att_bound_le; [|apply Hab; lia].
        pose proof (Hab 0 0 ltac:(lia)). lia. }
    destruct (guard_drop_frames p d) as [|f fs] eqn:Hg.
    + apply res_of_attempt; [|reflexivity]. intros rest. specialize (Hb rest). lia.
    + intros [= <- <-]. intros rest. specialize (Hb rest).
      destruct (mu_gdrop sh l k p d f fs (WRcuNext c (rcu_next_mode m) q dq :: rest) Hg) as [-> Hm].
      cbn [app]. cbn [go is_bottom wnp wcost wpred reads_store] in Hm.
      unfold att_bound in Hb. lia.
Qed.

Lemma resume_ok cf sh l k H pr w v l' nx :
  headn sh <= H -> conf v pr -> is_bottom w = false ->
  resume cf l w v = (l', nx) ->
  res_ok sh k H pr w l' nx.
Proof.
  intros HH Hcf Hb.
  destruct w; try discriminate Hb; cbn [resume];
    try (intros [= <- <-]; exact I).
  - (* WGetLoad *)
    destruct v; try (intros [= <- <-]; exact I).
    unfold load_body. destruct (cf_use_fast cf).
    + intros [= <- <-]. apply (res_simple _ _ _ _ _ _ _ 28); auto; cbn; try lia.
      destruct (reads_store pr); pl.
    + intros Hf. destruct nx; try exact I;
        try (pose proof (fallback_entry_rem _ _ _ _ _ Hf) as Hr; cbn in Hr; contradiction).
      destruct (fallback_entry_pred cf sh _ c _ _ Hf) as (Hp & _ & Hnp & Hc).
      apply (res_simple _ _ _ _ _ _ _ 28); auto.
      * intros. pose proof (Hc k H0). lia.
      * rewrite Hp. cbn [wpred]. destruct (reads_store pr); pl.
  - (* WGetPay *)
    destruct v; try (intros [= <- <-]; exact I).
    intros [= <- <-]. intros rest. unfold wbound. cbn [wnp wcost wpred].
    apply mu_top_le.
    + unfold pay_body. destruct (_ =? _); cbn; lia.
    + unfold pay_body. pose proof (PAYC_mono (headn sh + 0) (H + 0) ltac:(lia)).
      destruct (_ =? _); cbn; unfold PAYC in *; lia.
    + apply pred_le_none.
  - (* WGetSetGen *)
    destruct v; intros [= <- <-]; exact I.
  - (* WExit *)
    intros [= <- <-]. cbn [res_ok wpred]. destruct r; try exact I.
    destruct (reads_store pr); cbn; eauto.
  - (* WLoadFull *)
    destruct v; try (intros [= <- <-]; exact I).
    destruct (guard_into_frames p d) as [|f fs] eqn:Hi; intros [= <- <-]; [exact I|].
    intros rest. destruct (mu_ginto sh l k p d f fs rest Hi) as [_ Hm].
    unfold wbound. cbn [wnp wcost wpred].
    pose proof (go_PKeep_le sh k (headn sh) (H + 0) rest ltac:(lia)). lia.
  - (* WHelpRepl *)
    destruct v; try (intros [= <- <-]; exact I).
    intros [= <- <-]. intros rest. unfold wbound. cbn [wnp wcost wpred].
    apply mu_top_le; cbn [np_top tcost tpred]; try lia. apply pred_le_none.
  - (* WDropOld *)
    destruct v; try (intros [= <- <-]; exact I).
    intros [= <- <-]. apply res_dec; auto; try exact I. apply pred_le_none.
  - (* WCasLoad *)
    destruct v; try (intros [= <- <-]; exact I).
    destruct (p =? cur) eqn:E; intros [= <- <-];
      pose proof (res_casload sh k H pr c cur new p d l HH Hcf) as R; rewrite E in R; exact R.
  - (* WCasPaid *)
    intros [= <- <-]. apply res_dec; auto; cbn; eauto. pl.
  - (* WCasRetry *)
    destruct (enter_load cf l c) as [[l0 fs]|ps] eqn:He; intros [= <- <-]; [|exact I].
    eapply res_casretry; eauto.
  - (* WRcuLoad *)
    destruct v; try (intros [= <- <-]; exact I).
    eapply res_rcuload; eauto.
  - (* WRcuCas *)
    destruct v; try (intros [= <- <-]; exact I).
    intros Hr. eapply res_rcucas; eauto.
  - (* WRcuInto *)
    destruct v; try (intros [= <- <-]; exact I).
    destruct (guard_drop_frames p d) as [|f fs] eqn:Hg; intros [= <- <-]; [exact I|].
    intros rest. destruct (mu_gdrop sh l k p d f fs (WRcuRet p0 :: rest) Hg) as [-> Hm].
    cbn [app]. cbn [go is_bottom wnp wcost wpred] in Hm. rewrite !Nat.add_0_r in Hm.
    unfold wbound. cbn [wnp wcost wpred].
    pose proof (go_weaken sh k (headn sh) (H + 0) PNone PNone None rest ltac:(lia) (pred_le_refl _)). lia.
  - (* WRcuNext *)
    eapply res_rcunext; eauto.
  - (* WDropStore *)
    intros [= <- <-]. apply res_dec; auto; try exact I. apply pred_le_none.
  - (* WCacheReload *)
    destruct v; try (intros [= <- <-]; exact I).
    destruct (a =? 0); intros [= <- <-]; [exact I|].
    apply (res_simple _ _ _ _ _ _ _ 1); auto; cbn; try lia. apply pred_le_none.
Qed.

(** ** Handing a value down the stack *)
Lemma unwind_nb cf l w rest v :
  is_bottom w = false ->
  unwind cf l (w :: rest) v =
  match resume cf l w v with
  | (l', NGoto p) => UStack l' (p :: rest)
  | (l', NPush frames wait) => UStack l' (frames ++ wait :: rest)
  | (l', NRet v') => unwind cf l' rest v'
  | (l', NPanic s) => UPanic l' s
  | (l', NFault f) => UFault l' f
  end.
Proof. destruct w; try discriminate; reflexivity. Qed.

Lemma unwind_le cf sh k : forall rest l H pr v,
  headn sh <= H -> conf v pr ->
  match unwind cf l rest v with
  | UStack l' stk => mu sh l' k stk <= go sh k H pr None rest
  | _ => True
  end.
Proof.
  induction rest as [|w rest IH]; intros l H pr v HH Hcf; [exact I|].
  destruct (is_bottom w) eqn:Hb.
  - destruct w; try discriminate; exact I.
  - rewrite (unwind_nb _ _ _ _ _ Hb). cbn [go]. rewrite Hb.
    destruct (resume cf l w v) as [l' nx] eqn:Hr.
    pose proof (resume_ok cf sh l k H pr w v l' nx HH Hcf Hb Hr) as R.
    destruct nx; cbn [res_ok] in R; try exact I.
    + apply R.
    + apply R.
    + specialize (IH l' (H + wnp sh k pr w) (wpred sh pr w) v0 ltac:(lia) R).
      destruct (unwind cf l' rest v0); try exact I. lia.
Qed.

(** ** One step of the active frame *)
Definition step_ok (sh : shared) (l : tlocal) (k : nat) (p : pc)
           (sh' : shared) (l' : tlocal) (k' : nat) (nx : next) : Prop :=
  match nx with
  | NGoto p' => forall rest, mu sh' l' k' (p' :: rest) < mu sh l k (p :: rest)
  | NPush fs w => forall rest, mu sh' l' k' (fs ++ w :: rest) < mu sh l k (p :: rest)
  | NRet v =>
      conf v (tpred sh l p) /\ headn sh' <= headn sh + np_top sh k p /\
      forall rest, go sh' k' (headn sh + np_top sh k p) (tpred sh l p) None rest
                   < mu sh l k (p :: rest)
  | _ => True
  end.

Record keeps (sh sh' : shared) : Prop := {
  k_head : mem sh' LHead = mem sh LHead;
  k_store : forall c, curv sh' c = curv sh c;
  k_ctl : forall w, mem sh' (LCtrl w) = mem sh (LCtrl w);
}.

Lemma keeps_refl sh : keeps sh sh.
Proof. split; reflexivity. Qed.

Lemma keeps_m_set sh loc v :
  loc <> LHead -> (forall c, loc <> LStore c) -> (forall w, loc <> LCtrl w) ->
  keeps sh (m_set sh loc v).
Proof.
  intros H1 H2 H3. split; intros; unfold curv; cbn; unfold upd;
    destruct (decide (_ = loc)) as [E|E]; try reflexivity; exfalso; symmetry in E;
    first [exact (H1 E)|exact (H2 _ E)|exact (H3 _ E)].
Qed.

Lemma keeps_rc_inc sh a sh' evs : rc_inc sh a = Some (sh', evs) -> keeps sh sh'.
Proof.
  unfold rc_inc. destruct (heap sh a); [|discriminate]. intros [= <- <-].
  apply keeps_m_set; congruence.
Qed.
Lemma keeps_rc_dec sh a sh' evs : rc_dec sh a = Some (sh', evs) -> keeps sh sh'.
Proof.
  unfold rc_dec. destruct (heap sh a); [|discriminate]. destruct (_ =? 1); intros [= <- <-].
  - split; intros; unfold curv; cbn; unfold upd; destruct (decide _); congruence.
  - apply keeps_m_set; congruence.
Qed.
Lemma keeps_rc_alloc sh a sh' evs : rc_alloc sh a = Some (sh', evs) -> keeps sh sh'.
Proof.
  unfold rc_alloc. destruct (heap sh a); [discriminate|]. destruct (valid_addr a); [|discriminate].
  intros [= <- <-]. split; intros; unfold curv; cbn; unfold upd; destruct (decide _); congruence.
Qed.

Lemma keeps_phi2 sh sh' cz w ctl : keeps sh sh' -> phi2 sh' cz w ctl = phi2 sh cz w ctl.
Proof. intros K. unfold phi2. rewrite (k_ctl _ _ K). reflexivity. Qed.
Lemma keeps_headn sh sh' : keeps sh sh' -> headn sh' = headn sh.
Proof. intros K. unfold headn. rewrite (k_head _ _ K). reflexivity. Qed.

Lemma lt_ok sh l k p sh' k' (M : list pc -> nat) C H1 pr1 cz1 :
  (forall rest, M rest <= C + go sh' k' H1 pr1 cz1 rest) ->
  k' <= k -> H1 <= headn sh + np_top sh k p ->
  C < tcost sh k (headn sh + np_top sh k p) p ->
  pred_le pr1 (tpred sh l p) ->
  (reads_store (tpred sh l p) = true -> forall c, curv sh' c = curv sh c) ->
  (forall w ctl, phi2 sh' cz1 w ctl <= phi2 sh (tcz l p) w ctl) ->
  forall rest, M rest < mu sh l k (p :: rest).
Proof.
  intros HM Hk HH HC Hp Hst Hphi rest. specialize (HM rest). cbn [mu].
  pose proof (go_mono rest sh' sh k' k H1 (headn sh + np_top sh k p) pr1 (tpred sh l p)
                cz1 (tcz l p) Hk HH Hp Hst Hphi). lia.
Qed.

Lemma goto_ok sh l k p sh' l' k' p' :
  k' <= k ->
  headn sh' + np_top sh' k' p' <= headn sh + np_top sh k p ->
  tcost sh' k' (headn sh' + np_top sh' k' p') p' < tcost sh k (headn sh + np_top sh k p) p ->
  pred_le (tpred sh' l' p') (tpred sh l p) ->
  (reads_store (tpred sh l p) = true -> forall c, curv sh' c = curv sh c) ->
  (forall w ctl, phi2 sh' (tcz l' p') w ctl <= phi2 sh (tcz l p) w ctl) ->
  step_ok sh l k p sh' l' k' (NGoto p').
Proof.
  intros Hk HH HC Hp Hst Hphi. cbn [step_ok].
  apply (lt_ok sh l k p sh' k' (fun rest => mu sh' l' k' (p' :: rest))
               (tcost sh' k' (headn sh' + np_top sh' k' p') p')
               (headn sh' + np_top sh' k' p') (tpred sh' l' p') (tcz l' p')); auto.
Qed.

Lemma ret_ok sh l k p sh' l' k' v :
  k' <= k -> conf v (tpred sh l p) ->
  headn sh' <= headn sh + np_top sh k p ->
  1 <= tcost sh k (headn sh + np_top sh k p) p ->
  (reads_store (tpred sh l p) = true -> forall c, curv sh' c = curv sh c) ->
  (forall w ctl, phi2 sh' None w ctl <= phi2 sh (tcz l p) w ctl) ->
  step_ok sh l k p sh' l' k' (NRet v).
Proof.
  intros Hk Hcf HH HC Hst Hphi. cbn [step_ok]. split; [exact Hcf|]. split; [exact HH|].
  apply (lt_ok sh l k p sh' k' (fun rest => go sh' k' (headn sh + np_top sh k p) (tpred sh l p) None rest)
               0 (headn sh + np_top sh k p) (tpred sh l p) None); auto; try lia.
  apply pred_le_refl.
Qed.

Definition spur (p : pc) (x : N) : nat :=
  match p with
  | K1 _ _ _ _ _ | GPush _ => if x =? 1 then 1 else 0
  | _ => 0
  end.

Lemma goto_keeps sh l k p sh' l' k' p' :
  keeps sh sh' -> k' <= k ->
  np_top sh' k' p' <= np_top sh k p ->
  tcost sh' k' (headn sh + np_top sh' k' p') p' < tcost sh k (headn sh + np_top sh k p) p ->
  pred_le (tpred sh' l' p') (tpred sh l p) ->
  (forall w ctl, phi2 sh (tcz l' p') w ctl <= phi2 sh (tcz l p) w ctl) ->
  step_ok sh l k p sh' l' k' (NGoto p').
Proof.
  intros K Hk Hn HC Hp Hphi. apply goto_ok; auto.
  - rewrite (keeps_headn _ _ K). lia.
  - rewrite (keeps_headn _ _ K). exact HC.
  - intros _. apply (k_store _ _ K).
  - intros. rewrite (keeps_phi2 _ _ _ _ _ K). apply Hphi.
Qed.

Lemma ret_keeps sh l k p sh' l' k' v :
  keeps sh sh' -> k' <= k -> conf v (tpred sh l p) ->
  1 <= tcost sh k (headn sh + np_top sh k p) p ->
  tcz l p = None ->
  step_ok sh l k p sh' l' k' (NRet v).
Proof.
  intros K Hk Hcf HC Hz. apply ret_ok; auto.
  - rewrite (keeps_headn _ _ K). lia.
  - intros _. apply (k_store _ _ K).
  - intros. rewrite (keeps_phi2 _ _ _ _ _ K), Hz. lia.
Qed.

Ltac kp :=
  first [ apply keeps_refl
        | apply keeps_m_set; [discriminate | intros; discriminate | intros; discriminate]
        | eapply keeps_rc_inc; eassumption
        | eapply keeps_rc_dec; eassumption
        | eapply keeps_rc_alloc; eassumption ].

Ltac ar :=
  cbn [np_top tcost tpred tcz]; unfold rem0; cbn [rem];
  try change ((0 <=? 7)%N) with true; cbn beta iota;
  unfold GETC, PAYC, LOADX, NODE, RD, RD2, bw, headn in *; try lia.

Ltac gk := apply goto_keeps; [kp | lia | ar | ar | cbn [tpred]; try pl | intros; cbn [tcz]; first [lia | apply phi2_none | apply Nat.le_refl | idtac]].
Ltac rk := apply ret_keeps; [kp | lia | try exact I | ar | reflexivity].

Lemma node_init_mem s n loc :
  (forall i, loc <> LSlot n i) -> loc <> LCtrl n -> loc <> LAddr n -> loc <> LOffer n ->
  loc <> LEnv n -> loc <> LInUse n -> loc <> LWriters n ->
  mem (node_init s n) loc = mem s loc.
Proof.
  intros. cbn. unfold upd.
  repeat match goal with
         | |- context [decide (loc = ?a)] =>
             destruct (decide (loc = a)) as [E|_]; [exfalso; subst loc; eauto; congruence|]
         end. reflexivity.
Qed.

Lemma node_init_ctl s n : mem (node_init s n) (LCtrl n) = IDLE.
Proof.
  cbn. unfold upd.
  repeat match goal with
         | |- context [decide (LCtrl n = ?a)] =>
             destruct (decide (LCtrl n = a)) as [E|E']; [try discriminate E; try reflexivity|try (exfalso; apply E'; reflexivity); try clear E']
         end.
Qed.

Definition is_getcool (p : pc) : bool :=
  match p with
  | GHead | GCool1 _ | GCool2 _ | GCool3 _ | GBack _ | GClaim _ | GPush0 | GPush _
  | C1 _ | C2 _ | C3 _ => true
  | _ => false
  end.

Lemma exec_getcool cf sh l p x k sh' l' evs nx :
  is_getcool p = true -> spur p x <= k ->
  exec cf sh l p x = (sh', l', evs, nx) ->
  step_ok sh l k p sh' l' (k - spur p x) nx.
Proof.
  intros Hg Hs. destruct p; try discriminate Hg; clear Hg; unfold exec;
    cbn [a_load a_cas a_store a_swap a_fadd a_fsub andb negb spur] in *; rewrite ?Nat.sub_0_r.
  - (* GHead *)
    intros [= <- <- <- <-]. destruct (mem sh LHead =? 0) eqn:E; [gk|]. apply N.eqb_neq in E. gk.
  - (* GCool1 *) intros [= <- <- <- <-]. destruct (_ =? NODE_COOLDOWN); gk.
  - (* GCool2 *) destruct (mem sh (LInUse n) =? NODE_COOLDOWN); cbn [andb]; intros [= <- <- <- <-]; gk.
  - (* GCool3 *) destruct (mem sh (LWriters n) =? 0); intros [= <- <- <- <-]; [rk|gk].
  - (* GBack *) intros [= <- <- <- <-]. gk.
  - (* GClaim *)
    destruct (mem sh (LInUse n) =? NODE_UNUSED); cbn [andb]; intros [= <- <- <- <-]; [rk|].
    destruct (n =? 0) eqn:E; [gk|]. apply N.eqb_neq in E. gk.
  - (* GPush0 *) intros [= <- <- <- <-]. gk. rewrite N.eqb_refl. lia.
  - (* GPush *)
    destruct (mem sh LHead =? head) eqn:Eh; destruct (x =? 1) eqn:Ex; cbn [andb negb];
      intros [= <- <- <- <-]; rewrite ?Nat.sub_0_r.
    + gk. rewrite N.eqb_refl, N.eqb_sym, Eh. lia.
    + apply N.eqb_eq in Eh. apply ret_ok; try lia; try exact I.
      * unfold headn. rewrite node_init_mem by discriminate. cbn. rewrite upd_same.
        cbn [np_top]. unfold node_val. rewrite Eh. lia.
      * ar.
      * intros _ c. unfold curv. rewrite node_init_mem by discriminate. cbn.
        rewrite upd_other by discriminate. reflexivity.
      * intros w ctl. cbn [tcz]. unfold phi2. destruct (decide (w = head)) as [->|Hne].
        -- rewrite node_init_ctl. change (is_genb IDLE) with false. cbn [negb]. rewrite Bool.orb_true_r. lia.
        -- rewrite node_init_mem by congruence. cbn. rewrite upd_other by discriminate. lia.
    + gk. rewrite N.eqb_refl, N.eqb_sym, Eh. lia.
    + gk. rewrite N.eqb_refl, N.eqb_sym, Eh. lia.
  - (* C1 *) intros [= <- <- <- <-]. gk.
  - (* C2 *) intros [= <- <- <- <-]. destruct (_ =? NODE_USED); [gk|exact I].
  - (* C3 *) intros [= <- <- <- <-]. rk.
Qed.

(** *** Loads *)
Lemma with_exit_ok sh l k p sh' k' v d l2 nx :
  with_exit l (RGuard v d) = (l2, nx) ->
  keeps sh sh' -> k' <= k ->
  np_top sh k p = 0 -> 3 < tcost sh k (headn sh) p ->
  tpred sh l p = PFresh v -> tcz l p = None ->
  step_ok sh l k p sh' l2 k' nx.
Proof.
  intros Hw K Hk Hn HC Hp Hz.
  apply with_exit_shape in Hw as [->|[n ->]].
  - apply ret_keeps; auto; rewrite ?Hp, ?Hn, ?Nat.add_0_r; cbn; eauto; lia.
  - cbn [step_ok app].
    apply (lt_ok sh l k p sh' k' _ 3 (headn sh') (PFresh v) None).
    + intros rest. cbn [mu np_top tcost tpred tcz go is_bottom wnp wcost wpred reads_store].
      rewrite !Nat.add_0_r. lia.
    + exact Hk.
    + rewrite (keeps_headn _ _ K). lia.
    + rewrite Hn, Nat.add_0_r. exact HC.
    + rewrite Hp. apply pred_le_refl.
    + intros _. apply (k_store _ _ K).
    + intros. rewrite (keeps_phi2 _ _ _ _ _ K), Hz. lia.
Qed.

Lemma fallback_entry_tcz cf l c l' p' :
  fallback_entry cf l c = (l', NGoto p') -> tcz l' p' = Some (own_node l).
Proof.
  unfold fallback_entry. destruct (tl_node l) eqn:E; [|discriminate].
  destruct (cf_debug cf); intros [= <- <-]; cbn; unfold own_node; cbn; rewrite ?E; reflexivity.
Qed.

Lemma fallback_ok cf sh l k p sh' k' c l2 nx :
  fallback_entry cf l c = (l2, nx) ->
  keeps sh sh' -> k' <= k ->
  np_top sh k p = 0 -> 14 < tcost sh k (headn sh) p ->
  tpred sh l p = PFresh (curv sh c) ->
  (tcz l p = None \/ tcz l p = Some (own_node l)) ->
  step_ok sh l k p sh' l2 k' nx.
Proof.
  intros Hf K Hk Hn HC Hp Hz.
  destruct nx; try exact I; try (pose proof (fallback_entry_rem _ _ _ _ _ Hf) as Hr; cbn in Hr; contradiction).
  destruct (fallback_entry_pred cf sh' _ c _ _ Hf) as (Hp' & _ & Hnp & Hc).
  pose proof (fallback_entry_tcz _ _ _ _ _ Hf) as Hz'.
  apply goto_keeps; auto.
  - rewrite Hnp. lia.
  - rewrite Hn, Nat.add_0_r. pose proof (Hc k' (headn sh + np_top sh' k' p0)). lia.
  - rewrite Hp', Hp, (k_store _ _ K). apply pred_le_refl.
  - intros. rewrite Hz'. destruct Hz as [->| ->]; [apply phi2_none|lia].
Qed.

Definition is_load (p : pc) : bool :=
  match p with
  | LA1 _ | LA1d _ _ | LAscan _ _ _ | LA3 _ _ _ | LA4 _ _ _ | LA5 _ _ _ | LA6 _ _
  | LH0d _ | LH1 _ _ | LH2 _ _ | LH3 _ _ | LH3d _ _ _ | LH4 _ _ _ | LH5 _ _ _
  | LH6a _ | LH6b _ | LH6c _ | LH7 _ _ | LH8 _ _ _ | LH9 _ _ | LH10 _ _ => true
  | _ => false
  end.

Definition top_hyp (l : tlocal) (p : pc) : Prop :=
  match p with
  | PE2 _ _ _ _ => tl_node l <> None
  | LAscan _ _ i => (i <= 7)%N
  | PS _ _ _ j | PSi _ _ _ j => (j <= 8)%N
  | _ => True
  end.

Lemma exec_load_A cf sh l p x k sh' l' evs nx :
  match p with
  | LA1 _ | LA1d _ _ | LAscan _ _ _ | LA3 _ _ _ | LA4 _ _ _ | LA5 _ _ _ | LA6 _ _ => True
  | _ => False
  end ->
  top_hyp l p ->
  exec cf sh l p x = (sh', l', evs, nx) ->
  step_ok sh l k p sh' l' k nx.
Proof.
  intros Hg Ht. destruct p; try contradiction; clear Hg; unfold exec;
    cbn [a_load a_cas a_store a_swap a_fadd a_fsub andb negb] in *.
  - (* LA1 *)
    destruct (tl_node l); [destruct (cf_debug cf)|]; intros [= <- <- <- <-]; try exact I; gk.
  - (* LA1d *)
    destruct (_ =? NODE_USED); intros [= <- <- <- <-]; try exact I; gk.
  - (* LAscan *)
    cbn [top_hyp] in Ht. assert (Hi : (i <=? 7)%N = true) by (apply N.leb_le; exact Ht).
    destruct (_ =? NONE).
    + intros [= <- <- <- <-]. gk; rewrite Hi; lia.
    + destruct (i =? 7) eqn:E7.
      * destruct (fallback_entry cf l c) as [l2 nx2] eqn:Hf. intros [= <- <- <- <-].
        apply N.eqb_eq in E7. subst i.
        eapply fallback_ok; eauto; try kp; try reflexivity; cbn; try lia; auto.
      * intros [= <- <- <- <-]. apply N.eqb_neq in E7.
        assert (Hi' : (i + 1 <=? 7)%N = true) by (apply N.leb_le; lia).
        gk; rewrite Hi, Hi'; lia.
  - (* LA3 *)
    destruct (_ && _); intros [= <- <- <- <-]; try exact I. gk.
  - (* LA4 *)
    destruct (mem sh (LStore c) =? p) eqn:E.
    + destruct (with_exit l _) as [l2 nx2] eqn:Hw. intros [= <- <- <- <-].
      apply N.eqb_eq in E. eapply with_exit_ok; eauto; try kp; try reflexivity; ar.
      unfold curv. rewrite E. reflexivity.
    + intros [= <- <- <- <-]. gk.
  - (* LA5 *)
    destruct (mem sh (LSlot (own_node l) j) =? p) eqn:E; cbn [orb].
    + destruct (fallback_entry cf l c) as [l2 nx2] eqn:Hf. intros [= <- <- <- <-].
      eapply fallback_ok; eauto; try kp; try reflexivity; cbn; try lia; auto.
    + destruct (p =? 0).
      * destruct (fallback_entry cf l c) as [l2 nx2] eqn:Hf. intros [= <- <- <- <-].
        eapply fallback_ok; eauto; try kp; try reflexivity; cbn; try lia; auto.
      * intros [= <- <- <- <-]. gk.
  - (* LA6 *)
    destruct (rc_dec sh p) as [[s2 evs2]|] eqn:Hd.
    + destruct (fallback_entry cf l c) as [l2 nx2] eqn:Hf. intros [= <- <- <- <-].
      eapply fallback_ok; eauto; try kp; try reflexivity; cbn; try lia; auto.
    + intros [= <- <- <- <-]. exact I.
Qed.

Lemma phi2_set_ctl_cz sh n v w ctl :
  phi2 (m_set sh (LCtrl n) v) (Some n) w ctl <= phi2 sh (Some n) w ctl.
Proof.
  unfold phi2. destruct (n =? w) eqn:E; cbn [orb]; [lia|].
  cbn. rewrite upd_other; [lia|]. intros [= ->]. rewrite N.eqb_refl in E. discriminate.
Qed.

Lemma phi2_set_idle sh n w ctl :
  phi2 (m_set sh (LCtrl n) IDLE) None w ctl <= phi2 sh (Some n) w ctl.
Proof.
  unfold phi2. destruct (n =? w) eqn:E; cbn [orb].
  - apply N.eqb_eq in E. subst w. cbn. rewrite upd_same. change (is_genb IDLE) with false.
    cbn [negb]. rewrite Bool.orb_true_r. lia.
  - cbn. rewrite upd_other; [lia|]. intros [= ->]. rewrite N.eqb_refl in E. discriminate.
Qed.

Lemma mem_set_same sh loc v : mem (m_set sh loc v) loc = v.
Proof. cbn. apply upd_same. Qed.
Lemma curv_set_ctl sh n v c : curv (m_set sh (LCtrl n) v) c = curv sh c.
Proof. unfold curv. cbn. apply upd_other. discriminate. Qed.
Lemma headn_set_ctl sh n v : headn (m_set sh (LCtrl n) v) = headn sh.
Proof. unfold headn. cbn. rewrite upd_other by discriminate. reflexivity. Qed.

Lemma exec_load_H1 cf sh l p x k sh' l' evs nx :
  match p with
  | LH0d _ | LH1 _ _ | LH2 _ _ | LH3 _ _ | LH3d _ _ _ | LH4 _ _ _ => True
  | _ => False
  end ->
  exec cf sh l p x = (sh', l', evs, nx) ->
  step_ok sh l k p sh' l' k nx.
Proof.
  intros Hg. destruct p; try contradiction; clear Hg; unfold exec;
    cbn [a_load a_cas a_store a_swap a_fadd a_fsub andb negb] in *.
  - (* LH0d *)
    destruct (_ =? NODE_USED); [|intros [= <- <- <- <-]; exact I].
    unfold gen_step. destruct (_ && _); intros [= <- <- <- <-]; [exact I|]. gk.
  - (* LH1 *) intros [= <- <- <- <-]. gk.
  - (* LH2 *)
    destruct (_ && _); intros [= <- <- <- <-]; [exact I|].
    assert (Ho : own_node (if gt =? GEN_TAG then tl_set_discard l true else l) = own_node l)
      by (destruct (gt =? GEN_TAG); reflexivity).
    apply goto_ok; try lia.
    + rewrite headn_set_ctl. ar.
    + rewrite headn_set_ctl. ar.
    + cbn [tpred]. rewrite Ho, mem_set_same, N.eqb_refl, curv_set_ctl. apply pred_le_refl.
    + intros _ c0. apply curv_set_ctl.
    + intros w ctl. cbn [tcz]. rewrite Ho. apply phi2_set_ctl_cz.
  - (* LH3 *)
    destruct (tl_node l); [destruct (cf_debug cf)|]; intros [= <- <- <- <-]; try exact I; gk.
  - (* LH3d *)
    destruct (_ =? NODE_USED); intros [= <- <- <- <-]; try exact I; gk.
  - (* LH4 *)
    destruct (_ && _); intros [= <- <- <- <-]; try exact I. gk.
Qed.

Lemma exec_load_H2 cf sh l p x k sh' l' evs nx :
  match p with
  | LH5 _ _ _ | LH6a _ | LH6b _ | LH6c _ | LH7 _ _ | LH8 _ _ _ | LH9 _ _ | LH10 _ _ => True
  | _ => False
  end ->
  exec cf sh l p x = (sh', l', evs, nx) ->
  step_ok sh l k p sh' l' k nx.
Proof.
  intros Hg. destruct p; try contradiction; clear Hg; unfold exec;
    cbn [a_load a_cas a_store a_swap a_fadd a_fsub andb negb] in *.
  - (* LH5 *)
    assert (G : forall p', np_top (m_set sh (LCtrl (own_node l)) IDLE) k p' = 0 ->
              tcost (m_set sh (LCtrl (own_node l)) IDLE) k (headn sh) p' < 8 ->
              pred_le (tpred (m_set sh (LCtrl (own_node l)) IDLE) l p') (tpred sh l (LH5 c gt cand)) ->
              tcz l p' = None ->
              step_ok sh l k (LH5 c gt cand) (m_set sh (LCtrl (own_node l)) IDLE) l k (NGoto p')).
    { intros p' Hn HC Hp Hz. apply goto_ok; try lia.
      - rewrite headn_set_ctl, Hn. ar.
      - rewrite headn_set_ctl, Hn, Nat.add_0_r. ar.
      - exact Hp.
      - intros _ c0. apply curv_set_ctl.
      - intros w ctl. rewrite Hz. cbn [tcz]. apply phi2_set_idle. }
    destruct (mem sh (LCtrl (own_node l)) =? gt) eqn:E.
    + destruct (cand =? 0); intros [= <- <- <- <-]; apply G; try reflexivity; ar;
        cbn [tpred]; rewrite E; apply pred_le_refl.
    + destruct (_ && _); intros [= <- <- <- <-]; [exact I|]. apply G; try reflexivity; ar.
      cbn [tpred]. rewrite E. apply pred_le_none.
  - (* LH6a *)
    destruct (rc_inc sh cand) as [[s2 evs2]|] eqn:Hd; intros [= <- <- <- <-]; [gk|exact I].
