(** * ASModel.ProgressW — solo completion bound for the writers (C09).

    A measure [mu] on (stack, shared memory, remaining budget of spurious compare-exchange
    failures) that strictly decreases with every step of a thread that runs alone.  The
    measure is compositional: the cost of the active frame plus the costs of the waiting
    frames below it, where every waiting frame is charged for the worst continuation that
    is compatible with what the frames above it are predicted to return. *)
From Coq Require Import Lia ZArith.
From ASModel Require Import Base State Orderings_gen Step Run Progress.

Local Notation n2 := N.to_nat.
Local Open Scope nat_scope.
Local Infix "=?" := N.eqb (at level 70) : nat_scope.

(** ** What the frames above a waiting frame will hand down *)
Inductive pred :=
| PNone                 (* nothing known *)
| PVal (v : N)          (* returns a guard on [v] *)
| PFresh (v : N)        (* returns a guard on [v]; no container is written before that *)
| PKeep.                (* no container is written before the return *)

Definition pred_le (a b : pred) : Prop :=
  b = PNone \/ a = b \/ (exists v, a = PFresh v /\ b = PVal v).

Definition conf (r : retval) (p : pred) : Prop :=
  match p with
  | PVal v | PFresh v => exists d, r = RGuard v d
  | _ => True
  end.

Definition reads_store (p : pred) : bool :=
  match p with PFresh _ | PKeep => true | _ => false end.

(** ** Constants *)
Definition NODE : nat := 63.
Definition RD : nat := 40.
Definition RD2 : nat := 42.
Definition FINR : nat := 6.
Definition GETC (H k : nat) : nat := 5 * H + k + 3.
Definition LOADX (H k : nat) : nat := GETC H k + 28.
Definition PAYC (H : nat) : nat := NODE * H + 7.
Definition CR (H k : nat) : nat := LOADX H k + 4.
Definition KS (H k : nat) : nat := GETC H k + PAYC H + 2.
Definition AC (j H k : nat) : nat := j * CR H k + KS H k + 1.
Definition ATTg (H k : nat) : nat := LOADX H k + AC k H k + FINR + 1.
Definition ATTb (H k : nat) : nat := LOADX H k + ATTg H k + 4.

(** Extra help rounds a writer may need on node [w] when it believes the control word is
    [ctl]: none if the word still has that value or does not ask for help (or is the
    thread's own word, which its nested load is about to reset), one otherwise. *)
Definition is_genb (v : N) : bool := N.land v TAG_MASK =? GEN_TAG.
Definition phi2 (sh : shared) (cz : option N) (w ctl : N) : nat :=
  if (match cz with Some n => n =? w | None => false end)
     || (mem sh (LCtrl w) =? ctl) || negb (is_genb (mem sh (LCtrl w)))
  then 0 else 1.

Definition bw (w : N) : nat := NODE * n2 w + 23.

(** ** The active frame *)
Definition um (sh : shared) (c cur : N) : nat := if mem sh (LStore c) =? cur then 0 else 1.
Definition att (sh : shared) (c q : N) (H k : nat) : nat :=
  if mem sh (LStore c) =? q then ATTg H k else ATTb H k.
Definition att_np (sh : shared) (c q : N) (k : nat) : nat := k + 2 + um sh c q.

(** Nodes the frame may still push onto the list (through Node::get) before it returns. *)
Definition np_top (sh : shared) (k : nat) (p : pc) : nat :=
  match p with
  | GHead | GCool1 _ | GCool2 _ | GCool3 _ | GBack _ | GClaim _ | GPush0 | GPush _ => 1
  | S1 _ _ | Q1 _ _ _ => 1
  | K1 c cur _ _ _ => k + um sh c cur + 1
  | RAlloc c _ q _ | RInc c _ q _ => att_np sh c q k
  | _ => 0
  end.

Definition rem0 (p : pc) : nat := match rem p with Some m => m | None => 0 end.

Definition tcost (sh : shared) (k H : nat) (p : pc) : nat :=
  match p with
  | GHead => GETC H k
  | GCool1 w => 5 * n2 w + k + 7 | GCool2 w => 5 * n2 w + k + 6 | GCool3 w => 5 * n2 w + k + 5
  | GBack w => 5 * n2 w + k + 4 | GClaim w => 5 * n2 w + k + 3
  | GPush0 => k + 2
  | GPush h => k + 1 + (if h =? mem sh LHead then 0 else 1)
  | C1 _ => 3 | C2 _ => 2 | C3 _ => 1
  | PDec _ _ => 1 | GD1 _ _ => 2 | GI1 _ _ => 3 | GI2 _ _ => 2
  | P1 _ _ => PAYC H | P2 _ _ => NODE * H + 6
  | P3 _ _ w => bw w + RD + 4 | PE0d _ _ w => bw w + RD + 3 | PE0e _ _ w => bw w + RD + 2
  | PE1 _ _ w => bw w + RD + 1
  | PE2 _ _ w ctl => bw w + RD + phi2 sh None w ctl * RD2
  | PE3 _ _ w ctl => bw w + (RD - 1) + phi2 sh None w ctl * RD2
  | PE4 _ _ w ctl _ => bw w + 5 + phi2 sh None w ctl * RD2
  | PE5 _ _ w ctl _ _ => bw w + 4 + phi2 sh None w ctl * RD2
  | PE6 _ _ w ctl _ _ _ => bw w + 3 + phi2 sh None w ctl * RD2
  | PE7 _ _ w ctl _ _ _ => bw w + 2 + phi2 sh None w ctl * RD2
  | PE8 _ _ w _ => bw w + 1
  | PE9 _ _ w newctl _ =>
      bw w + 1 + (if is_genb newctl then RD + phi2 sh None w newctl * RD2 else 0)
  | PS _ _ w j => NODE * n2 w + 5 + 2 * (9 - n2 j)
  | PSi _ _ w j => NODE * n2 w + 4 + 2 * (9 - n2 j)
  | P5 _ _ w => NODE * n2 w + 5
  | P6 _ _ => 4
  | S1 _ _ => GETC H k + PAYC H + 1
  | K1 c cur _ _ _ => AC (k + um sh c cur) H k
  | RAlloc c _ q _ | RInc c _ q _ => att sh c q H k
  | Q1 _ _ _ => LOADX H k + 5
  | NewAlloc | CloneInc _ => 1
  | _ => rem0 p
  end.

Definition curv (sh : shared) (c : N) : N := mem sh (LStore c).

Definition tpred (sh : shared) (l : tlocal) (p : pc) : pred :=
  let n := own_node l in
  match p with
  | LA1 c | LA1d c _ | LAscan c _ _ | LA3 c _ _ | LA4 c _ _ | LA5 c _ _ | LA6 c _
  | LH0d c | LH1 c _ | LH2 c _ => PFresh (curv sh c)
  | LH3 c gt => if mem sh (LCtrl n) =? gt then PFresh (curv sh c) else PNone
  | LH3d _ gt v | LH4 _ gt v | LH5 _ gt v => if mem sh (LCtrl n) =? gt then PFresh v else PNone
  | LH6a v | LH6b v | LH6c v => PFresh v
  | LH7 _ e => PFresh (mem sh (LEnv e))
  | LH8 _ _ r | LH9 _ r | LH10 _ r => PFresh r
  | K1 c cur _ v _ =>
      if curv sh c =? cur then (if v =? cur then PVal cur else PNone) else PFresh (curv sh c)
  | S1 _ _ | RAlloc _ _ _ _ | RInc _ _ _ _ => PNone
  | _ => PKeep
  end.

(** The node whose control word is certainly not a help request any more when the
    frames above return: the thread's own node while its load is in the fallback. *)
Definition tcz (l : tlocal) (p : pc) : option N :=
  match p with
  | LA5 _ _ _ | LA6 _ _ | LH0d _ | LH1 _ _ | LH2 _ _ | LH3 _ _ | LH3d _ _ _ | LH4 _ _ _
  | LH5 _ _ _ => Some (own_node l)
  | _ => None
  end.

(** ** Waiting frames *)
Definition casj (sh : shared) (k : nat) (pr : pred) (c cur : N) : option nat :=
  match pr with
  | PFresh v => if v =? cur then Some (k + um sh c cur) else None
  | PVal v => if v =? cur then Some (k + 1) else None
  | _ => Some (k + 1)
  end.

Definition retryj (sh : shared) (k : nat) (pr : pred) (c cur : N) : nat :=
  if reads_store pr then k + um sh c cur else k + 1.

(* (more nodes, cost given the head bound) of the continuation of rcu after its
   compare_and_swap returned *)
Definition rcuq (sh : shared) (pr : pred) (c : N) : option (N * bool) :=
  match pr with
  | PFresh q => Some (q, curv sh c =? q)
  | PVal q => Some (q, false)
  | _ => None
  end.

Definition wnp (sh : shared) (k : nat) (pr : pred) (w : pc) : nat :=
  match w with
  | WCasLoad c cur _ => match casj sh k pr c cur with Some j => j + 1 | None => 0 end
  | WCasRetry c cur _ => retryj sh k pr c cur + 2
  | WRcuLoad c _ => match pr with PFresh v => att_np sh c v k | _ => k + 3 end
  | WRcuCas c _ p _ =>
      match rcuq sh pr c with
      | Some (q, g) => if p =? q then 0 else if g then k + 2 else k + 3
      | None => k + 3
      end
  | WRcuNext c _ q _ => if reads_store pr then att_np sh c q k else k + 3
  | _ => 0
  end.

Definition wcost (sh : shared) (k H : nat) (pr : pred) (cz : option N) (w : pc) : nat :=
  match w with
  | WGetLoad _ => 28
  | WGetPay _ _ => PAYC H
  | WLoadFull => 3
  | WHelpRepl _ _ w ctl => bw w + 5 + phi2 sh cz w ctl * RD2
  | WDropOld | WDropStore _ | WCacheReload _ _ _ | WCasPaid _ _ => 1
  | WCasLoad c cur _ => match casj sh k pr c cur with Some j => AC j H k | None => 1 end
  | WCasRetry c cur _ => LOADX H k + AC (retryj sh k pr c cur) H k
  | WRcuLoad c _ => match pr with PFresh v => att sh c v H k | _ => ATTb H k end
  | WRcuCas c _ p _ =>
      match rcuq sh pr c with
      | Some (q, g) => if p =? q then FINR else if g then 2 + ATTg H k else 2 + ATTb H k
      | None => 2 + ATTb H k
      end
  | WRcuNext c _ q _ => if reads_store pr then att sh c q H k else ATTb H k
  | WRcuInto _ _ => 2
  | _ => 0
  end.

Definition wpred (sh : shared) (pr : pred) (w : pc) : pred :=
  match w with
  | WGetLoad c => if reads_store pr then PFresh (curv sh c) else PNone
  | WExit (RGuard v _) => if reads_store pr then PFresh v else PVal v
  | WCasPaid p _ => PVal p
  | WCasLoad c cur _ =>
      match pr with
      | PFresh v => if v =? cur then (if curv sh c =? cur then PVal cur else PNone) else PFresh v
      | PVal v => if v =? cur then PNone else PVal v
      | _ => PNone
      end
  | WCasRetry c cur _ =>
      if reads_store pr then (if curv sh c =? cur then PVal cur else PFresh (curv sh c)) else PNone
  | _ => PNone
  end.

Fixpoint go (sh : shared) (k H : nat) (pr : pred) (cz : option N) (stk : list pc) : nat :=
  match stk with
  | [] => 0
  | w :: rest =>
      if is_bottom w then 0
      else let H' := (H + wnp sh k pr w)%nat in
           (wcost sh k H' pr cz w + go sh k H' (wpred sh pr w) cz rest)%nat
  end.

Definition headn (sh : shared) : nat := n2 (mem sh LHead).

Definition mu (sh : shared) (l : tlocal) (k : nat) (stk : list pc) : nat :=
  match stk with
  | [] => 0
  | p :: rest =>
      let H := (headn sh + np_top sh k p)%nat in
      (tcost sh k H p + go sh k H (tpred sh l p) (tcz l p) rest)%nat
  end.

(** ** Arithmetic of the constants *)
Lemma GETC_mono H' H k' k : H' <= H -> k' <= k -> GETC H' k' <= GETC H k.
Proof. unfold GETC. lia. Qed.
Lemma LOADX_mono H' H k' k : H' <= H -> k' <= k -> LOADX H' k' <= LOADX H k.
Proof. intros. unfold LOADX. pose proof (GETC_mono H' H k' k). lia. Qed.
Lemma PAYC_mono H' H : H' <= H -> PAYC H' <= PAYC H.
Proof. unfold PAYC, NODE. lia. Qed.
Lemma CR_mono H' H k' k : H' <= H -> k' <= k -> CR H' k' <= CR H k.
Proof. intros. unfold CR. pose proof (LOADX_mono H' H k' k). lia. Qed.
Lemma KS_mono H' H k' k : H' <= H -> k' <= k -> KS H' k' <= KS H k.
Proof. intros. unfold KS. pose proof (GETC_mono H' H k' k). pose proof (PAYC_mono H' H). lia. Qed.
Lemma AC_mono j' j H' H k' k : j' <= j -> H' <= H -> k' <= k -> AC j' H' k' <= AC j H k.
Proof.
  intros. unfold AC. pose proof (CR_mono H' H k' k). pose proof (KS_mono H' H k' k).
  assert (j' * CR H' k' <= j * CR H k) by (apply Nat.mul_le_mono; auto). lia.
Qed.
Lemma AC_S j H k : AC (S j) H k = CR H k + AC j H k.
Proof. unfold AC. lia. Qed.
Lemma AC_lb j H k : KS H k + 1 <= AC j H k.
Proof. unfold AC. lia. Qed.
Lemma ATTg_mono H' H k' k : H' <= H -> k' <= k -> ATTg H' k' <= ATTg H k.
Proof.
  intros. unfold ATTg. pose proof (LOADX_mono H' H k' k). pose proof (AC_mono k' k H' H k' k). lia.
Qed.
Lemma ATTb_mono H' H k' k : H' <= H -> k' <= k -> ATTb H' k' <= ATTb H k.
Proof.
  intros. unfold ATTb. pose proof (LOADX_mono H' H k' k). pose proof (ATTg_mono H' H k' k). lia.
Qed.
Lemma ATTg_le_b H k : ATTg H k <= ATTb H k.
Proof. unfold ATTb. lia. Qed.

Lemma um_le1 sh c cur : um sh c cur <= 1.
Proof. unfold um. destruct (_ =? _); lia. Qed.

Lemma pred_le_refl a : pred_le a a.
Proof. right; left; reflexivity. Qed.
Lemma pred_le_none a : pred_le a PNone.
Proof. left; reflexivity. Qed.
Lemma pred_le_reads a b : pred_le a b -> reads_store b = true -> a = b.
Proof.
  intros [->|[->|(v & -> & ->)]]; cbn; try discriminate; auto.
Qed.
