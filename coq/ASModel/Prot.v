(** * ASModel.Prot — why a debt protects its value: [ProtInv] (ProtDefs) holds in every
    reachable state.

    The invariant that is inductive is [ProtInv'] (Prot11): the five statements of [ProtInv],
    with [ClaimNodes] strengthened by the slot index ([snd sl <= HSLOT]), plus two structural
    facts about stacks — they are guard-typed (Prot1: a value carrying a debt claim is only
    returned to a frame that keeps it; a [K1] frame compares with the value of its guard; a
    stack ends in one bottom frame) and the bottom frame names the destination handle of the
    thread's current command.  [ProtInv' s -> ProtInv s].

    Hypotheses of the step theorem: [WF2 s] and [Quiet s] (proved invariants), no fault in the
    step, and [DestFree s] (Prot11), a condition on the PROGRAMS: the handle that receives the
    result of a thread's current command holds no debt claim (a program does not overwrite a
    live guard; in Rust the old guard would be dropped first) — otherwise the claim of a slot
    disappears while the slot still holds the value, and [SlotClaimed] is false. *)
From Coq Require Import Lia.
From ASModel Require Import Base State Orderings_gen Step Run Progress Hist Inv InvTl InvProto InvStep Sum StepCases.
From ASModel Require Import GenDefs Gen1 Gen2 Gen AccDefs ProtDefs.
From ASModel Require Import Prot1 Prot2 Prot3 Prot11 Prot12 Prot13 Prot14 Prot15 Prot16.

(** ** The initial state *)
Theorem ProtInv'_init inits progs : ProtInv' (init_state inits progs).
Proof.
  assert (Hth : forall t0, t_stack (thr (init_state inits progs) t0) = []).
  { intros t0. cbn. apply init_threads_stack. cbn. auto. }
  assert (Hsl : forall n j, mem (sh (init_state inits progs)) (LSlot n j) = NONE).
  { intros n j. cbn. rewrite init_stores_other by discriminate. reflexivity. }
  constructor.
  - intros n j a [_ Hv] Hm. rewrite Hsl in Hm. congruence.
  - split.
    + intros t sl a H. rewrite stack_claims_eq, Hth in H. destruct H.
    + intros h sl a H. destruct H.
  - intros n j a [_ Hv] Hm. rewrite Hsl in Hm. congruence.
  - intros t n p rest c gt cand Hs. rewrite Hth in Hs. discriminate.
  - intros t. rewrite Hth. reflexivity.
  - intros t. rewrite Hth. exact I.
  - intros t f h Hin. rewrite Hth in Hin. destruct Hin.
Qed.

Theorem ProtInv_init inits progs : ProtInv (init_state inits progs).
Proof. apply ProtInv'_ProtInv. apply ProtInv'_init. Qed.

(** ** One step *)
Theorem step_ProtInv' cf s t x :
  WF2 s -> Quiet s -> DestFree s -> ProtInv' s -> NoFault (fst (step cf s t x)) ->
  ProtInv' (fst (step cf s t x)).
Proof.
  intros W Q DF [SC CN P PH PS Ty Ds] Hnf.
  destruct (step_claims cf s t x W Q DF Ty Ds SC CN Hnf) as [SC' CN'].
  constructor.
  - exact SC'.
  - exact CN'.
  - apply step_Prot; assumption.
  - apply step_ProtH; assumption.
  - apply step_PayShape; assumption.
  - apply step_typed. exact Ty.
  - apply step_dst; assumption.
Qed.

Theorem step_ProtInv cf s t x :
  WF2 s -> Quiet s -> DestFree s -> ProtInv' s -> NoFault (fst (step cf s t x)) ->
  ProtInv (fst (step cf s t x)).
Proof. intros. apply ProtInv'_ProtInv. apply step_ProtInv'; assumption. Qed.

(** The sub-invariants that need less: *)
Theorem step_PayShape_alone cf s t x :
  WF2 s -> PayShape s -> NoFault (fst (step cf s t x)) -> PayShape (fst (step cf s t x)).
Proof. apply step_PayShape. Qed.

(** A simple sufficient condition for [DestFree] (it holds for programs that create every
    handle once, like the generated ones): the destination handle of the current command is
    empty, or is a cache, or is the handle the command is about to consume. *)
Definition DestEmpty (s : state) : Prop :=
  forall t c h, t_status (thr s t) = Running ->
    nth_error (t_prog (thr s t)) (N.to_nat (t_cmdi (thr s t))) = Some c -> cmd_dst c = Some h ->
    hnd s h = HEmpty \/ (exists c0 a, hnd s h = HCache c0 a) \/ (exists a, hnd s h = HOwned a) \/
    (t_stack (thr s t) = [] /\ cmd_src c = Some h).

Lemma DestEmpty_DestFree s : DestEmpty s -> DestFree s.
Proof.
  intros H t c h Hr Hc Hd. destruct (H t c h Hr Hc Hd) as [E|[(c0 & a & E)|[(a & E)|E]]]; [left; rewrite E; reflexivity..|right; exact E].
Qed.

(** ** Runs *)
Record ProtInvQ (s : state) : Prop := {
  pq_wf : WF2 s;
  pq_quiet : Quiet s;
  pq_inv : ProtInv' s;
}.

Theorem ProtInvQ_init inits progs : ProtInvQ (init_state inits progs).
Proof. constructor; [apply WF2_init|apply Quiet_init|apply ProtInv'_init]. Qed.

Theorem step_ProtInvQ cf s t x :
  DestFree s -> ProtInvQ s -> NoFault (fst (step cf s t x)) -> ProtInvQ (fst (step cf s t x)).
Proof.
  intros DF [W Q PI] Hnf. constructor.
  - apply step_WF2. exact W.
  - apply step_Quiet'; assumption.
  - apply step_ProtInv'; assumption.
Qed.

Theorem run_ProtInvQ cf : forall sched s,
  ProtInvQ s ->
  (forall k, DestFree (run_state cf s (firstn k sched))) ->
  NoFault (run_state cf s sched) ->
  ProtInvQ (run_state cf s sched).
Proof.
  induction sched as [|[t x] sched IH]; intros s PQ Hd Hnf; [exact PQ|].
  rewrite run_state_cons in *. apply IH.
  - apply step_ProtInvQ; [exact (Hd 0%nat)|exact PQ|]. eapply NoFault_run_back. exact Hnf.
  - intros k. exact (Hd (S k)).
  - exact Hnf.
Qed.

(** In every run from an initial state in which no thread faults and the programs never
    overwrite a live guard, [ProtInv] holds at the end (hence, applying the theorem to
    prefixes, in every state). *)
Theorem run_ProtInv cf inits progs sched :
  (forall k, DestFree (run_state cf (init_state inits progs) (firstn k sched))) ->
  NoFault (run_state cf (init_state inits progs) sched) ->
  ProtInv (run_state cf (init_state inits progs) sched).
Proof.
  intros Hd Hnf. apply ProtInv'_ProtInv. apply pq_inv. apply run_ProtInvQ; [apply ProtInvQ_init|exact Hd|exact Hnf].
Qed.

Theorem run_ProtInv_run cf inits progs sched :
  (forall k, DestFree (fst (run cf (init_state inits progs) (firstn k sched)))) ->
  NoFault (fst (run cf (init_state inits progs) sched)) ->
  ProtInvQ (fst (run cf (init_state inits progs) sched)).
Proof.
  intros Hd Hnf. rewrite run_fst in *. apply run_ProtInvQ; [apply ProtInvQ_init| |exact Hnf].
  intros k. rewrite <- run_fst. apply Hd.
Qed.

Print Assumptions ProtInv'_init.
Print Assumptions ProtInv_init.
Print Assumptions ProtInv'_ProtInv.
Print Assumptions step_ProtInv'.
Print Assumptions step_ProtInv.
Print Assumptions step_PayShape_alone.
Print Assumptions step_ProtInvQ.
Print Assumptions run_ProtInvQ.
Print Assumptions run_ProtInv.
Print Assumptions run_ProtInv_run.
Print Assumptions DestEmpty_DestFree.
