(** * ASModel.Prot1 — guard-typed stacks.

    A value that carries a debt claim ([RGuard _ (Some _)]) is only ever returned to a frame
    that keeps the claim ([acc]): the frame above a frame that does not is one whose call
    returns no claim.  Also: a [K1] frame compares with the value its guard holds, and a
    stack ends with exactly one bottom frame.  (Same construction as the typing of [Acc2],
    for claims instead of references, and with the frames of the [Cache] commands.) *)
From Coq Require Import Lia.
From ASModel Require Import Base State Orderings_gen Step Run Progress Hist Inv InvTl InvProto InvStep Sum StepCases.
From ASModel Require Import GenDefs Gen1.

Definition noclaim (v : retval) : bool :=
  match v with RGuard _ (Some _) => false | _ => true end.

(** Frames that keep the claim of a guard returned to them. *)
Definition acc (w : pc) : bool :=
  match w with
  | WLoadFull | WCasLoad _ _ _ | WRcuLoad _ _ | WRcuCas _ _ _ _ | KDone (Some _) => true
  | _ => false
  end.
Definition nacc (w : pc) : bool := negb (acc w).

(** Frames whose call eventually returns a value without claim. *)
Definition nr (p : pc) : bool :=
  match p with
  | LA1 _ | LA1d _ _ | LAscan _ _ _ | LA3 _ _ _ | LA4 _ _ _ | LA5 _ _ _ | LA6 _ _
  | LH0d _ | LH1 _ _ | LH2 _ _ | LH3 _ _ | LH3d _ _ _ | LH4 _ _ _ | LH5 _ _ _
  | LH6a _ | LH6b _ | LH6c _ | LH7 _ _ | LH8 _ _ _ | LH9 _ _ | LH10 _ _
  | WGetLoad _ | K1 _ _ _ _ _ | WCasLoad _ _ _ | WCasPaid _ _ | WCasRetry _ _ _ => false
  | PDec _ r | WExit r => noclaim r
  | _ => true
  end.

Definition fok (p : pc) : bool :=
  match p with K1 _ cur _ v _ => v =? cur | _ => true end.

Definition glink (p : pc) (rest : list pc) : Prop :=
  match rest with
  | [] => is_bottom_frame p = true
  | w :: _ => is_bottom_frame p = false /\ (nacc w = true -> nr p = true)
  end.

Fixpoint gtyped (stk : list pc) : Prop :=
  match stk with
  | [] => True
  | p :: rest => fok p = true /\ glink p rest /\ gtyped rest
  end.

Fixpoint gseg (fs : list pc) (w : pc) : bool :=
  match fs with
  | [] => true
  | f :: fs' => fok f && negb (is_bottom_frame f) && implb (nacc (hd w fs')) (nr f) && gseg fs' w
  end.

Definition next_gt (u : bool) (nx : next) : bool :=
  match nx with
  | NGoto p' => fok p' && negb (is_bottom_frame p') && implb u (nr p')
  | NPush fs w => gseg fs w && fok w && negb (is_bottom_frame w) && implb u (nr w)
  | NRet v => implb u (noclaim v)
  | _ => true
  end.

Lemma gseg_app fs gs w : gseg fs (hd w gs) = true -> gseg gs w = true -> gseg (fs ++ gs) w = true.
Proof.
  induction fs as [|f fs IH]; intros H1 H2; [exact H2|]. cbn in *.
  apply andb_prop in H1 as [H1 H1d]. apply andb_prop in H1 as [H1 H1c].
  rewrite (IH H1d H2), Bool.andb_true_r.
  replace (hd w (fs ++ gs)) with (hd (hd w gs) fs) by (destruct fs; reflexivity).
  rewrite H1, H1c. reflexivity.
Qed.

Lemma gtyped_push fs w rest : gseg fs w = true -> gtyped (w :: rest) -> gtyped (fs ++ w :: rest).
Proof.
  induction fs as [|f fs IH]; intros H1 H2; [exact H2|]. cbn [gseg] in H1.
  apply andb_prop in H1 as [H1 H1d]. apply andb_prop in H1 as [H1 H1c]. apply andb_prop in H1 as [H1a H1b].
  cbn [app gtyped]. split; [exact H1a|]. split; [|apply IH; assumption].
  apply Bool.negb_true_iff in H1b.
  destruct fs as [|g fs]; cbn in *; (split; [exact H1b|]); intros Hi; rewrite Hi in H1c; exact H1c.
Qed.

Lemma next_gt_weaken u nx : next_gt u nx = true -> next_gt false nx = true.
Proof.
  destruct nx; cbn; try reflexivity; intros H.
  - apply andb_prop in H as [H _]. rewrite H. reflexivity.
  - apply andb_prop in H as [H _]. rewrite H. reflexivity.
Qed.

(** ** Helper functions *)
Lemma with_exit_gt l r l' nx u :
  with_exit l r = (l', nx) -> implb u (noclaim r) = true -> next_gt u nx = true.
Proof.
  unfold with_exit. intros H Hu. destr_in H; injection H as <- <-; cbn; exact Hu.
Qed.

Lemma fallback_entry_gt cf l c l' nx : fallback_entry cf l c = (l', nx) -> next_gt false nx = true.
Proof. unfold fallback_entry. intros H. destr_in H; injection H as <- <-; reflexivity. Qed.
Lemma gen_step_gt cf l c l' nx : gen_step cf l c = (l', nx) -> next_gt false nx = true.
Proof. unfold gen_step. intros H. destr_in H; injection H as <- <-; reflexivity. Qed.
Lemma load_body_gt cf l c l' nx : load_body cf l c = (l', nx) -> next_gt false nx = true.
Proof. unfold load_body. destruct (cf_use_fast cf); [intros [= <- <-]; reflexivity|apply fallback_entry_gt]. Qed.

Lemma enter_load_gt cf l c l' fs w : enter_load cf l c = inl (l', fs) -> nacc w = false -> gseg fs w = true.
Proof.
  unfold enter_load. intros H Hw. destruct (tl_node l).
  - destruct (load_body cf (tl_set_depth l (tl_depth l + 1)) c) as [l2 nx] eqn:Hb.
    apply load_body_gt in Hb. destruct nx; try discriminate. injection H as <- <-.
    cbn in *. rewrite Hw. apply andb_prop in Hb as [Hb _]. rewrite Hb. reflexivity.
  - injection H as <- <-. cbn. rewrite Hw. reflexivity.
Qed.

Lemma enter_pay_gt l c old l' fs w : enter_pay l c old = (l', fs) -> gseg fs w = true.
Proof.
  unfold enter_pay, pay_body. intros H. destr_in H; injection H as <- <-; cbn; rewrite ?Bool.implb_true_r; reflexivity.
Qed.

Lemma guard_drop_gt p d w : gseg (guard_drop_frames p d) w = true.
Proof. unfold guard_drop_frames. destruct d; [|destruct (p =? 0)]; cbn; rewrite ?Bool.implb_true_r; reflexivity. Qed.
Lemma guard_into_gt p d w : gseg (guard_into_frames p d) w = true.
Proof. unfold guard_into_frames. destruct d; [destruct (p =? 0)|]; cbn; rewrite ?Bool.implb_true_r; reflexivity. Qed.

Lemma help_dispatch_gt cf l c old w ctl u : next_gt u (help_dispatch cf l c old w ctl) = true.
Proof.
  unfold help_dispatch.
  repeat match goal with |- context [if ?b then _ else _] => destruct b end; cbn; rewrite ?Bool.implb_true_r; reflexivity.
Qed.
Lemma after_slot_gt c old w j u : next_gt u (after_slot c old w j) = true.
Proof. unfold after_slot. destruct (j =? HSLOT); cbn; rewrite ?Bool.implb_true_r; reflexivity. Qed.
Lemma dec_then_gt a r u : implb u (noclaim r) = true -> next_gt u (dec_then a r) = true.
Proof. unfold dec_then. intros H. destruct (a =? 0); cbn; exact H. Qed.
