(** * ASModel.Prot10 — the step of an unconfirmed publication; where a request frame on top
    of a stack comes from. *)
From Coq Require Import Lia.
From ASModel Require Import Base State Orderings_gen Step Run Progress Hist Inv InvTl InvProto InvStep Sum StepCases.
From ASModel Require Import GenDefs Gen1 Gen2 Gen3 AccDefs ProtDefs Prot6 Prot7 Prot8 Prot9.

Definition unconf_pc (j a : N) (p : pc) : bool :=
  match p with
  | LA4 _ v j' | LA5 _ v j' => (v =? a) && (j' =? j)
  | LH5 _ _ cand | LH7 cand _ | LH8 cand _ _ | LH9 cand _ => (cand =? a) && (j =? HSLOT)
  | _ => false
  end.

Lemma unconfirmed_top_eq n j a th :
  unconfirmed_top n j a th =
  match tl_node (t_loc th) with
  | Some n' => (n' =? n) && match t_stack th with p :: _ => unconf_pc j a p | [] => false end
  | None => false
  end.
Proof.
  unfold unconfirmed_top. destruct (tl_node (t_loc th)); [|reflexivity].
  destruct (t_stack th) as [|p ?]; [reflexivity|]. destruct p; reflexivity.
Qed.

Lemma exec_unconf cf s l p x s' l' evs nx n j a :
  exec cf s l p x = (s', l', evs, nx) -> ~ nx_stops nx -> tl_node l = Some n -> unconf_pc j a p = true ->
  mem s (LSlot n j) = a -> a <> NONE ->
  mem s' (LSlot n j) <> a \/ (exists c, mem s' (LStore c) = a) \/
  (exists p', nx = NGoto p' /\ unconf_pc j a p' = true /\ l' = l) \/
  (exists c gt, p = LH5 c gt a /\ j = HSLOT /\ mem s (LCtrl n) = gt /\
                nx = NGoto (if a =? 0 then LH6b a else LH6a a) /\ l' = l /\
                forall k, mem s' (LStore k) = mem s (LStore k)).
Proof.
  intros He Hns Hnode Hu Hm Ha.
  assert (Hown : own_node l = n) by (unfold own_node; rewrite Hnode; reflexivity).
  destruct p; try discriminate Hu; cbn [unconf_pc] in Hu; apply andb_prop in Hu as [Hu1 Hu2];
    apply N.eqb_eq in Hu1 as ->; apply N.eqb_eq in Hu2; try subst j0; try subst j; subst n.
  all: exec_norm He; try (exfalso; apply Hns; exact I).
  all: try (right; right; left; eexists; split; [reflexivity|]; split; [cbn; rewrite !N.eqb_refl; reflexivity|reflexivity]).
  all: try (left; cbn; rewrite upd_same; congruence).
  all: try (rewrite Hm, N.eqb_refl in *; discriminate).
  all: try (right; left; eexists; b2p; eassumption).
  all: right; right; right; exists c, gt; b2p; rewrite ?Heqb0; repeat split; auto.
  all: try (rewrite (proj2 (N.eqb_eq _ _) Heqb0); reflexivity).
  all: try (rewrite (proj2 (N.eqb_neq _ _) Heqb0); reflexivity).
Qed.

(** ** Where a request frame on top of the stack comes from *)
Lemma req_frame_top f c gt cand : req_frame f = Some (c, gt, cand) -> top_req f = Some (c, gt).
Proof. destruct f; cbn; try discriminate; intros [= <- <- <-]; reflexivity. Qed.

Lemma resume_hd_req cf l w v l' nx : resume cf l w v = (l', nx) -> hd_req (nx_frames nx) = None.
Proof.
  intros He.
  assert (Hg : (forall g, w <> WGetSetGen g) \/ exists g, w = WGetSetGen g).
  { destruct w; try (left; discriminate). right. eauto. }
  destruct Hg as [Hg|(g & ->)].
  - destruct (resume_call _ _ _ _ _ _ He Hg) as [Hc|(c & old & n & ctl & r & -> & -> & ->)]; [|reflexivity].
    eapply call_shape_req. exact Hc.
  - cbn in He. destr_in He; injection He as <- <-; reflexivity.
Qed.

Lemma settle_hd_req cf l rest nx l2 stk st :
  settle cf l rest nx l2 stk st -> hd_req stk = hd_req (nx_frames nx).
Proof.
  induction 1 as [l rest p|l rest fs w|l v|l v b post Hb Hne|l v post|l v w rest l' nx l'' stk st Hb Hr Hs IH];
    try reflexivity.
  - destruct fs; reflexivity.
  - rewrite IH. eapply resume_hd_req. exact Hr.
Qed.

Lemma exec_req cf s l p x s' l' evs nx p' c gt cand :
  exec cf s l p x = (s', l', evs, nx) -> ~ nx_stops nx ->
  hd_error (nx_frames nx) = Some p' -> req_frame p' = Some (c, gt, cand) ->
  l' = l /\ nx = NGoto p' /\
  ((p = LH3 c gt /\ cand = mem s (LStore c) /\ s' = s) \/
   ((p = LH3d c gt cand \/ p = LH4 c gt cand) /\
    (forall k, mem s' (LCtrl k) = mem s (LCtrl k)) /\ (forall k, mem s' (LStore k) = mem s (LStore k)))).
Proof.
  intros He Hns Hhd Hreq. apply req_frame_top in Hreq as Htop.
  assert (Hq : hd_req (nx_frames nx) = Some (c, gt)).
  { destruct (nx_frames nx); [discriminate|]. injection Hhd as ->. exact Htop. }
  destruct (special_pc p) eqn:Hsp.
  2: { pose proof (exec_call _ _ _ _ _ _ _ _ _ Hsp He) as Hc. rewrite (call_shape_req _ _ _ Hc) in Hq. discriminate. }
  destruct p; try discriminate Hsp; exec_norm He; try (exfalso; apply Hns; exact I); cbn [nx_frames] in *.
  all: try (rewrite (proj2 (help_dispatch_hd _ _ _ _ _ _)) in Hq; discriminate Hq).
  all: try (rewrite (proj2 (after_slot_hd _ _ _ _)) in Hq; discriminate Hq).
  all: try (cbn in Hq; discriminate Hq).
  all: try (cbn in Hhd; injection Hhd as <-; cbn in Hreq; try discriminate Hreq; injection Hreq as <- <- <-).
  all: try (split; [reflexivity|]; split; [reflexivity|]; left; repeat split; reflexivity).
  all: try (split; [reflexivity|]; split; [reflexivity|]; right; split; [auto|]; split; intros k; cbn;
            rewrite ?upd_other by discriminate; reflexivity).
  exfalso. match goal with H : enter_load _ _ _ = _ |- _ => apply enter_load_call in H as [Hcs Hne] end.
  rewrite <- app_assoc, hd_req_app in Hq by exact Hne. rewrite (call_shape_req _ _ _ Hcs) in Hq. discriminate.
Qed.
