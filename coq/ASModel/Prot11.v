(** * ASModel.Prot11 — the strengthened invariant [ProtInv'], the hypothesis [DestFree] on
    programs, and the claims of the acting thread after a frame step. *)
From Coq Require Import Lia.
From ASModel Require Import Base State Orderings_gen Step Run Progress Hist Inv InvTl InvProto InvStep Sum StepCases.
From ASModel Require Import GenDefs Gen1 Gen2 AccDefs ProtDefs Prot1 Prot2 Prot3 Prot4 Prot5.

(** ** Destination handles *)
Definition cmd_dst (c : cmd) : option N :=
  match c with
  | CNew h | CClone _ h | CLoad _ h | CLoadFull _ h | CGuardInto _ h | CSwap _ _ h | CCas _ _ _ h
  | CRcu _ _ h | CIntoInner _ h | CCacheNew _ h | CCacheLoad h | CMove _ h => Some h
  | _ => None
  end.

(** Handles whose guard the command itself takes over before it writes its result. *)
Definition cmd_src (c : cmd) : option N :=
  match c with CGuardInto h _ | CMove h _ => Some h | _ => None end.

(** The handle that receives the result of the current command of a running thread holds no
    debt claim (a program never overwrites a live guard), unless the command has not started
    yet and is about to consume that very handle. *)
Definition DestFree (s : state) : Prop :=
  forall t c h, t_status (thr s t) = Running ->
    nth_error (t_prog (thr s t)) (N.to_nat (t_cmdi (thr s t))) = Some c -> cmd_dst c = Some h ->
    handle_claims (hnd s h) = [] \/ (t_stack (thr s t) = [] /\ cmd_src c = Some h).

Definition bottom_dst (p : pc) : option N :=
  match p with KDone (Some h) => Some h | KCacheDone _ k => Some k | _ => None end.

Definition dst_ok (th : thread) : Prop :=
  forall f h, In f (t_stack th) -> bottom_dst f = Some h ->
    exists c, nth_error (t_prog th) (N.to_nat (t_cmdi th)) = Some c /\ cmd_dst c = Some h.

(** ** The strengthened invariant *)
Definition ClaimNodes' (s : state) : Prop :=
  (forall t sl a, In (sl, a) (stack_claims (thr s t)) -> fst sl < nn s /\ snd sl <= HSLOT) /\
  (forall h sl a, In (sl, a) (handle_claims (hnd s h)) -> fst sl < nn s /\ snd sl <= HSLOT).

Record ProtInv' (s : state) : Prop := {
  q_claimed : SlotClaimed s;
  q_nodes : ClaimNodes' s;
  q_prot : Prot s;
  q_proth : ProtH s;
  q_shape : PayShape s;
  q_typed : forall t, gtyped (t_stack (thr s t));
  q_dst : forall t, dst_ok (thr s t);
}.

Lemma ClaimNodes'_ClaimNodes s : ClaimNodes' s -> ClaimNodes s.
Proof. intros [H1 H2]. split; intros; [eapply H1|eapply H2]; eassumption. Qed.

Theorem ProtInv'_ProtInv s : ProtInv' s -> ProtInv s.
Proof.
  intros H. constructor; try apply H. apply ClaimNodes'_ClaimNodes. apply H.
Qed.

(** ** The handle written by a frame step *)
Definition written (cf : config) (l1 : tlocal) (rest : list pc) (nx : next) : option (N * handle) :=
  match nx with
  | NRet v => match unwind cf l1 rest v with UDone _ (Some (k, hv)) _ => Some (k, hv) | _ => None end
  | _ => None
  end.

Lemma hnd_after_written cf h l1 rest nx :
  hnd_after cf h l1 rest nx = match written cf l1 rest nx with Some (k, hv) => upd h k hv | None => h end.
Proof.
  unfold hnd_after, written. destruct nx; try reflexivity.
  destruct (unwind cf l1 rest v) as [| ? [[? ?]|] ? | | |]; reflexivity.
Qed.

Lemma unwind_dst cf : forall rest l v l' k hv v',
  unwind cf l rest v = UDone l' (Some (k, hv)) v' -> exists f, In f rest /\ bottom_dst f = Some k.
Proof.
  induction rest as [|w rest IH]; intros l v l' k hv v' H; [discriminate|].
  destruct (is_bottom_frame w) eqn:Hb.
  - destruct w; try discriminate Hb; cbn in H.
    + discriminate.
    + destruct dst; [|discriminate]. injection H as _ <- _ _. eexists. split; [left; reflexivity|reflexivity].
    + destruct v; try discriminate. injection H as _ <- _ _. eexists. split; [left; reflexivity|reflexivity].
  - rewrite (unwind_nonbottom _ _ _ _ _ Hb) in H. destruct (resume cf l w v) as [l2 nx]. destruct nx; try discriminate.
    destruct (IH _ _ _ _ _ _ H) as (f & Hin & Hf). exists f. split; [right; exact Hin|exact Hf].
Qed.

Lemma written_dst cf l1 rest nx k hv :
  written cf l1 rest nx = Some (k, hv) -> exists f, In f rest /\ bottom_dst f = Some k.
Proof.
  unfold written. destruct nx; try discriminate.
  destruct (unwind cf l1 rest v) as [| l2 [[k' hv']|] v' | | |] eqn:Hu; try discriminate.
  intros [= <- <-]. eapply unwind_dst. exact Hu.
Qed.

Lemma written_stack cf th l1 rest nx k hv :
  written cf l1 rest nx = Some (k, hv) -> t_stack (thread_after cf th l1 rest nx) = [].
Proof.
  unfold written, thread_after. destruct nx; try discriminate.
  destruct (unwind cf l1 rest v) as [| l2 [[k' hv']|] v' | | |]; try discriminate. reflexivity.
Qed.

(** ** Claims of the acting thread (and of the handle it writes) after a frame step *)
Definition wclaims (cf : config) (l1 : tlocal) (rest : list pc) (nx : next) : list (slot * N) :=
  match written cf l1 rest nx with Some (_, hv) => handle_claims hv | None => [] end.

Lemma after_claims cf th l1 p rest nx :
  all_waiting rest -> gtyped (p :: rest) -> is_bottom_frame p = false -> next_gt (nr p) nx = true ->
  (forall ps, nx <> NPanic ps) -> (forall f, nx <> NFault f) ->
  (forall v, nx = NRet v -> forall l2 ps, unwind cf l1 rest v <> UPanic l2 ps) ->
  (forall v, nx = NRet v -> forall l2 f, unwind cf l1 rest v <> UFault l2 f) ->
  forall cl, In cl (stack_claims (thread_after cf th l1 rest nx) ++ wclaims cf l1 rest nx) <->
             In cl (nx_claims l1 nx ++ sclaims l1 rest).
Proof.
  intros Hw Ht Hb Hn Hp Hf Hup Huf cl.
  pose proof (gtyped_next _ _ _ Ht Hb Hn) as Hnext.
  destruct nx as [p'|fs w|v|ps|f].
  - unfold wclaims, written. cbn [thread_after]. rewrite stack_claims_eq. cbn [t_loc t_stack nx_claims].
    change (sclaims l1 (p' :: rest)) with (frame_claims l1 p' ++ sclaims l1 rest). rewrite app_nil_r. tauto.
  - unfold wclaims, written. cbn [thread_after]. rewrite stack_claims_eq. cbn [t_loc t_stack nx_claims].
    change (fs ++ w :: rest) with (fs ++ [w] ++ rest). rewrite !sclaims_app.
    change (sclaims l1 [w]) with (frame_claims l1 w ++ []). rewrite !app_nil_r, !in_app_iff. tauto.
  - destruct Hnext as [Ht' Hv].
    assert (Hne : rest <> []).
    { intros ->. destruct Ht as (_ & Hl & _). cbn in Hl. congruence. }
    pose proof (unwind_claims cf rest l1 v Hw Ht' (Hv Hne) (Hup v eq_refl) (Huf v eq_refl) cl) as Hc.
    cbn [nx_claims]. rewrite <- Hc. unfold wclaims, written. cbn [thread_after].
    destruct (unwind cf l1 rest v) as [l' stk| l' [[k hv]|] v' | | |]; rewrite stack_claims_eq; cbn [t_loc t_stack uclaims sclaims flat_map app];
      rewrite ?app_nil_r; tauto.
  - exfalso. eapply Hp. reflexivity.
  - exfalso. eapply Hf. reflexivity.
Qed.
