(** * ASModel.Prot12 — facts about one frame step shared by the preservation proofs; the
    structural parts of [ProtInv'] (typed stacks, destination handles, [PayShape]). *)
From Coq Require Import Lia.
From ASModel Require Import Base State Orderings_gen Step Run Progress Hist Inv InvTl InvProto InvStep Sum StepCases.
From ASModel Require Import GenDefs Gen1 Gen2 AccDefs ProtDefs Prot1 Prot2 Prot3 Prot4 Prot5 Prot6 Prot11.

Lemma frame_step_facts cf s t x p rest s1 l1 evs nx :
  WF2 s -> Quiet s -> gtyped (t_stack (thr s t)) -> NoFault (fst (step cf s t x)) ->
  t_status (thr s t) = Running -> t_stack (thr s t) = p :: rest ->
  exec cf (sh s) (t_loc (thr s t)) p x = (s1, l1, evs, nx) ->
  let th' := thread_after cf (thr s t) l1 rest nx in
  ~ nx_stops nx /\
  settle cf l1 rest nx (t_loc th') (t_stack th') (t_status th') /\
  all_waiting rest /\ bl rest /\ is_waiting p = false /\
  (forall cl, In cl (stack_claims th' ++ wclaims cf l1 rest nx) <->
              In cl (nx_claims l1 nx ++ sclaims (t_loc (thr s t)) rest)).
Proof.
  intros W Q Ht Hnf Hr Hs He th'.
  destruct (exec_settle _ _ _ _ _ _ _ _ _ _ W Hnf Hr Hs He) as [Hns Hset].
  destruct (running_stk_ok s t W Hr) as [Htl _]. rewrite Hs in Htl. destruct Htl as (Hwp & Hwait & _).
  pose proof (q_bl _ Q t) as Hbl. rewrite Hs in Hbl. destruct Hbl as [_ Hbl].
  split; [exact Hns|]. split; [exact Hset|]. split; [exact Hwait|]. split; [exact Hbl|]. split; [exact Hwp|].
  rewrite Hs in Ht.
  destruct (exec_step_no_panic _ _ _ _ _ _ _ _ _ _ W Hr Hs He) as [Hp Hup].
  pose proof (Hnf t) as Hf. rewrite (step_exec_eq _ _ _ _ _ _ _ _ _ _ Hr Hs He) in Hf. cbn in Hf. rewrite upd_same in Hf.
  destruct (thread_after_nofault _ _ _ _ _ Hf) as [Hnf1 Hnf2].
  intros cl. rewrite (sclaims_waiting (t_loc (thr s t)) l1 rest Hwait).
  apply (after_claims cf (thr s t) l1 p rest nx Hwait Ht (not_waiting_not_bottom _ Hwp)
           (exec_gt _ _ _ _ _ _ _ _ _ He (proj1 Ht)) Hp Hnf1 Hup Hnf2).
Qed.

(** ** Typed stacks *)
Theorem step_typed cf s t x :
  (forall t', gtyped (t_stack (thr s t'))) -> forall t', gtyped (t_stack (thr (fst (step cf s t x)) t')).
Proof.
  intros H t'.
  destruct (step_cases cf s t x) as [E|c s1 l1 stk r Hr Hs Hc Hen Hcs E|n Hr Hs Hn E|Hr Hs Hn E|p rest s1 l1 evs nx Hr Hs He E];
    rewrite E; try apply H.
  - destruct (cmd_start_effect _ _ _ _ _ _ _ _ Hcs) as (Hthr & _).
    cbn. destruct (N.eq_dec t' t) as [->|Hne]; [rewrite upd_same|rewrite upd_other by exact Hne; rewrite Hthr; apply H].
    destruct (start_thread_fields (thr s t) l1 stk) as (F1 & _). rewrite F1. eapply cmd_start_gt. exact Hcs.
  - cbn. destruct (N.eq_dec t' t) as [->|Hne]; [rewrite upd_same|rewrite upd_other by exact Hne; apply H].
    cbn. repeat split; reflexivity || discriminate.
  - cbn. destruct (N.eq_dec t' t) as [->|Hne]; [rewrite upd_same|rewrite upd_other by exact Hne; apply H]. exact I.
  - cbn. destruct (N.eq_dec t' t) as [->|Hne]; [rewrite upd_same|rewrite upd_other by exact Hne; apply H].
    eapply exec_thread_gt; [exact He|]. rewrite <- Hs. apply H.
Qed.

(** ** The pay frames sit on the frame that owns the removed value *)
Theorem step_PayShape cf s t x :
  WF2 s -> PayShape s -> NoFault (fst (step cf s t x)) -> PayShape (fst (step cf s t x)).
Proof.
  intros W H Hnf t'.
  destruct (step_cases cf s t x) as [E|c s1 l1 stk r Hr Hs Hc Hen Hcs E|n Hr Hs Hn E|Hr Hs Hn E|p rest s1 l1 evs nx Hr Hs He E];
    rewrite E; try apply H.
  - destruct (cmd_start_effect _ _ _ _ _ _ _ _ Hcs) as (Hthr & _).
    cbn. destruct (N.eq_dec t' t) as [->|Hne]; [rewrite upd_same|rewrite upd_other by exact Hne; rewrite Hthr; apply H].
    destruct (start_thread_fields (thr s t) l1 stk) as (F1 & _). rewrite F1. eapply cmd_start_pay. exact Hcs.
  - cbn. destruct (N.eq_dec t' t) as [->|Hne]; [rewrite upd_same|rewrite upd_other by exact Hne; apply H]. reflexivity.
  - cbn. destruct (N.eq_dec t' t) as [->|Hne]; [rewrite upd_same|rewrite upd_other by exact Hne; apply H]. reflexivity.
  - cbn. destruct (N.eq_dec t' t) as [->|Hne]; [rewrite upd_same|rewrite upd_other by exact Hne; apply H].
    destruct (exec_settle _ _ _ _ _ _ _ _ _ _ W Hnf Hr Hs He) as [Hns Hset].
    eapply settle_pay_shape; [exact Hset|]. apply (pay_shape_next p); [rewrite <- Hs; apply H|].
    eapply exec_pay. exact He.
Qed.

(** ** Destination handles *)
Lemma plain_no_dst f : plain f = true -> bottom_dst f = None.
Proof. destruct f; cbn; try discriminate; reflexivity. Qed.

Lemma call_shape_no_dst l l' fs f : call_shape l l' fs -> In f fs -> bottom_dst f = None.
Proof. intros Hc Hin. apply plain_no_dst. exact (proj1 (Forall_forall _ _) (call_shape_plain _ _ _ Hc) f Hin). Qed.

Lemma simple_no_dst fs f : all_simple fs -> In f fs -> bottom_dst f = None.
Proof. intros Hs Hin. apply plain_no_dst. apply simple_plain. exact (proj1 (Forall_forall _ _) Hs f Hin). Qed.

Lemma cmd_start_dst cf s l c s' l' stk r :
  cmd_start cf s l c = inl (s', l', stk, r) ->
  forall f h, In f stk -> bottom_dst f = Some h -> cmd_dst c = Some h.
Proof.
  intros Hc f h Hin Hb.
  destruct c; cbn in Hc; destr_in Hc; try discriminate; injection Hc as <- <- <- <-; cbn [cmd_dst].
  all: try (destruct Hin; fail).
  all: repeat match goal with
       | H : enter_load _ _ _ = inl (_, _) |- _ => apply enter_load_call in H as [H _]
       | H : enter_pay _ _ _ = (_, _) |- _ => apply enter_pay_call in H
       end.
  all: try (match goal with H : guard_drop_frames ?a ?d = _ |- _ =>
              pose proof (guard_drop_simple a d) as Hsim; rewrite H in Hsim end).
  all: try (match goal with H : guard_into_frames ?a ?d = _ |- _ =>
              pose proof (guard_into_simple a d) as Hsim; rewrite H in Hsim end).
  all: repeat match goal with
       | H : In _ (_ ++ _) |- _ => apply in_app_or in H as [H|H]
       | H : In _ (_ :: _) |- _ => destruct H as [H|H]; [subst f; cbn in Hb; try discriminate Hb; try (injection Hb as <-; reflexivity)|]
       | H : In _ [] |- _ => destruct H
       end.
  all: try (match goal with Hc : call_shape _ _ ?fs, H : In _ ?fs |- _ =>
              rewrite (call_shape_no_dst _ _ _ _ Hc H) in Hb; discriminate Hb end).
  all: try (match goal with Hs : all_simple (?p :: ?l0), Hb : bottom_dst ?p = Some _ |- _ =>
              rewrite (simple_no_dst _ p Hs (or_introl eq_refl)) in Hb; discriminate Hb end).
  all: try (match goal with Hs : all_simple (?p :: ?l0), H : In ?g ?l0 |- _ =>
              rewrite (simple_no_dst _ g Hs (or_intror H)) in Hb; discriminate Hb end).
Qed.

Lemma thread_after_cmdi cf th l1 rest nx :
  t_stack (thread_after cf th l1 rest nx) <> [] -> t_cmdi (thread_after cf th l1 rest nx) = t_cmdi th.
Proof.
  unfold thread_after. destruct nx; try reflexivity.
  destruct (unwind cf l1 rest v); cbn; try reflexivity. congruence.
Qed.

Theorem step_dst cf s t x :
  WF2 s -> NoFault (fst (step cf s t x)) ->
  (forall t', dst_ok (thr s t')) -> forall t', dst_ok (thr (fst (step cf s t x)) t').
Proof.
  intros W Hnf H t'.
  destruct (step_cases cf s t x) as [E|c s1 l1 stk r Hr Hs Hc Hen Hcs E|n Hr Hs Hn E|Hr Hs Hn E|p rest s1 l1 evs nx Hr Hs He E];
    rewrite E; try apply H.
  - destruct (cmd_start_effect _ _ _ _ _ _ _ _ Hcs) as (Hthr & _).
    cbn. destruct (N.eq_dec t' t) as [->|Hne]; [rewrite upd_same|rewrite upd_other by exact Hne; rewrite Hthr; apply H].
    intros f h Hin Hb. unfold start_thread in *. destruct stk as [|p0 stk0]; [destruct Hin|]. cbn in *.
    exists c. split; [exact Hc|]. eapply cmd_start_dst; eassumption.
  - cbn. destruct (N.eq_dec t' t) as [->|Hne]; [rewrite upd_same|rewrite upd_other by exact Hne; apply H].
    intros f h Hin Hb. cbn in Hin. destruct Hin as [<-|[<-|[]]]; discriminate Hb.
  - cbn. destruct (N.eq_dec t' t) as [->|Hne]; [rewrite upd_same|rewrite upd_other by exact Hne; apply H].
    intros f h [].
  - cbn. destruct (N.eq_dec t' t) as [->|Hne]; [rewrite upd_same|rewrite upd_other by exact Hne; apply H].
    destruct (exec_settle _ _ _ _ _ _ _ _ _ _ W Hnf Hr Hs He) as [Hns Hset].
    intros f h Hin Hb.
    destruct (settle_frames _ _ _ _ _ _ _ Hset (exec_plain _ _ _ _ _ _ _ _ _ He Hns) f Hin) as [Hin'|Hpl].
    + rewrite thread_after_prog, thread_after_cmdi by (intros E0; rewrite E0 in Hin; destruct Hin).
      apply (H t f h); [rewrite Hs; right; exact Hin'|exact Hb].
    + rewrite (plain_no_dst _ Hpl) in Hb. discriminate.
Qed.
