(** * ASModel.Prot13 — [SlotClaimed] and [ClaimNodes'] are preserved by every step. *)
From Coq Require Import Lia.
From ASModel Require Import Base State Orderings_gen Step Run Progress Hist Inv InvTl InvProto InvStep Sum StepCases.
From ASModel Require Import GenDefs Gen1 Gen2 AccDefs ProtDefs Prot1 Prot2 Prot3 Prot4 Prot5 Prot6 Prot7 Prot9 Prot11 Prot12.

(** ** Starting a command: claims move between handles and the new frames *)
Definition dfree (s : state) (c : cmd) : Prop :=
  forall h, cmd_dst c = Some h -> handle_claims (hnd s h) = [] \/ cmd_src c = Some h.

Lemma consume_claims s v cl h0 :
  match v with SNull => True | SHandle h => handle_claims (hnd s h) = [] end ->
  In cl (handle_claims (hnd s h0)) -> exists h1, In cl (handle_claims (hnd (consume s v) h1)).
Proof.
  intros Hv Hin. destruct v as [|h]; [exists h0; exact Hin|]. cbn.
  destruct (N.eq_dec h0 h) as [->|Hne]; [rewrite Hv in Hin; destruct Hin|].
  exists h0. rewrite upd_other by exact Hne. exact Hin.
Qed.

Lemma enabled_owned s v : match v with SNull => true | SHandle h => match hnd s h with HOwned _ => true | _ => false end end = true ->
  match v with SNull => True | SHandle h => handle_claims (hnd s h) = [] end.
Proof. destruct v as [|h]; [auto|]. destruct (hnd s h); try discriminate. reflexivity. Qed.

Ltac rw_hnd := match goal with H : hnd _ ?k = _, Hin : In _ (handle_claims (hnd _ ?k)) |- _ => rewrite H in Hin end.

Ltac keep_h :=
  match goal with Hin : In ?cl (handle_claims (hnd ?s ?h0)) |- _ =>
    left; exists h0; cbn [hnd]; rewrite ?upd_other by assumption; exact Hin end.
Ltac by_key k :=
  match goal with Hin : In ?cl (handle_claims (hnd ?s ?h0)) |- _ =>
    destruct (N.eq_dec h0 k) as [->|?Hne]; [|try keep_h] end.

Lemma cmd_start_claims_fwd cf s l c s1 l1 stk r :
  cmd_start cf s l c = inl (s1, l1, stk, r) -> cmd_enabled s c = true -> dfree s c ->
  forall cl h0, In cl (handle_claims (hnd s h0)) ->
    (exists h1, In cl (handle_claims (hnd s1 h1))) \/ In cl (sclaims l1 stk).
Proof.
  intros Hc Hen Hd cl h0 Hin.
  destruct c; cbn in Hc; destr_in Hc; try discriminate; injection Hc as <- <- <- <-.
  all: try (left; exists h0; exact Hin).
  - by_key h2. exfalso. destruct (Hd h2 eq_refl) as [E|E]; [rewrite E in Hin; destruct Hin|discriminate E].
  - by_key h2. exfalso. destruct (Hd h2 eq_refl) as [E|E]; [rewrite E in Hin; destruct Hin|discriminate E].
  - by_key h. rw_hnd. destruct Hin.
  - by_key h. rw_hnd. destruct Hin.
  - by_key h. rw_hnd. cbn in Hin. destruct d; [discriminate|destruct Hin].
  - by_key h. right. rw_hnd. cbn in Hin.
    change (p :: l0 ++ [KDone None]) with ((p :: l0) ++ [KDone None]). rewrite sclaims_app, <- Heql0, guard_drop_claims.
    apply in_or_app. left. exact Hin.
  - by_key h. rw_hnd. destruct Hin.
  - by_key h. rw_hnd. destruct Hin.
  - assert (d = None) as -> by (destruct d; [unfold guard_into_frames in Heql0; destr_in Heql0; discriminate|reflexivity]).
    by_key h2.
    + exfalso. destruct (Hd h2 eq_refl) as [E|E]; [rewrite E in Hin; destruct Hin|].
      injection E as ->. rw_hnd. destruct Hin.
    + by_key h. rw_hnd. destruct Hin.
  - by_key h. right. rw_hnd. cbn in Hin.
    change (p :: l0 ++ [KDone (Some h2)]) with ((p :: l0) ++ [KDone (Some h2)]). rewrite sclaims_app, <- Heql0, guard_into_claims.
    apply in_or_app. left. exact Hin.
  - left. apply (consume_claims _ _ _ h0); [|exact Hin]. apply enabled_owned. exact Hen.
  - left. apply (consume_claims _ _ _ h0); [|exact Hin]. apply enabled_owned. exact Hen.
  - left. apply (consume_claims _ _ _ h0); [|exact Hin]. apply enabled_owned. cbn in Hen. apply andb_prop in Hen as [_ Hen]. exact Hen.
  - by_key h.
    + left. exists h2. cbn. rewrite upd_same. exact Hin.
    + by_key h2. exfalso. destruct (Hd h2 eq_refl) as [E|E]; [rewrite E in Hin; destruct Hin|].
      injection E as ->. congruence.
Qed.

Lemma cmd_start_claims_bwd cf s l c s1 l1 stk r :
  cmd_start cf s l c = inl (s1, l1, stk, r) ->
  forall cl, (In cl (sclaims l1 stk) \/ exists h1, In cl (handle_claims (hnd s1 h1))) ->
  exists h0, In cl (handle_claims (hnd s h0)).
Proof.
  intros Hc cl Hin.
  destruct c; cbn in Hc; destr_in Hc; try discriminate; injection Hc as <- <- <- <-.
  all: destruct Hin as [Hin|(h1 & Hin)].
  all: try (exists h1; exact Hin).
  all: try (rewrite ?sclaims_app in Hin;
            repeat match goal with
            | H : enter_load _ _ _ = inl (_, ?fs) |- _ => rewrite (enter_load_claims _ _ _ _ _ _ H) in Hin
            | H : enter_pay _ _ _ = (_, ?fs) |- _ => rewrite (enter_pay_claims _ _ _ _ _ _ H) in Hin
            end; cbn in Hin; contradiction).
  all: try (match type of Hin with context [consume _ ?v] => destruct v; cbn [consume] in Hin end).
  all: try (exists h1; exact Hin).
  all: try (cbn [hnd] in Hin; unfold upd in Hin;
            repeat match type of Hin with context [decide ?P] => destruct (decide P) end;
            try (destruct Hin; fail); try (exists h1; exact Hin); try (eexists; exact Hin); fail).
  all: try (match type of Hin with In _ (sclaims _ (?p :: ?l0 ++ ?b)) =>
              change (p :: l0 ++ b) with ((p :: l0) ++ b) in Hin; rewrite sclaims_app in Hin end;
            match goal with
            | H : guard_drop_frames ?a ?d = _ |- _ => rewrite <- H, guard_drop_claims in Hin
            | H : guard_into_frames ?a ?d = _ |- _ => rewrite <- H, guard_into_claims in Hin
            end;
            cbn in Hin; rewrite app_nil_r in Hin;
            match goal with H : hnd _ ?h = HGuard _ _ |- _ => exists h; rewrite H; exact Hin end).
Qed.

(** ** The owner's node *)
Lemma in_with_node s t p rest :
  WF2 s -> t_status (thr s t) = Running -> t_stack (thr s t) = p :: rest -> in_with p = true ->
  exists n, tl_node (t_loc (thr s t)) = Some n /\ holder (thr s t) = Some n /\ n < nn s /\
            own_node (t_loc (thr s t)) = n.
Proof.
  intros W Hr Hs Hw. destruct (running_stk_ok s t W Hr) as [Htl _]. rewrite Hs in Htl.
  destruct Htl as (_ & _ & _ & Hnn & _).
  destruct (tl_node (t_loc (thr s t))) as [n|] eqn:Hn.
  - assert (Hh : holder (thr s t) = Some n) by (unfold holder; rewrite Hn; reflexivity).
    exists n. split; [reflexivity|]. split; [exact Hh|]. split; [exact (w_lt _ W t n Hh)|].
    unfold own_node. rewrite Hn. reflexivity.
  - exfalso. apply Hnn; [|reflexivity]. cbn [depth_of]. rewrite (in_with_not_bottom _ Hw), Hw. lia.
Qed.

Definition claim_ok (s : state) (cl : slot * N) : Prop := fst (fst cl) < nn s /\ snd (fst cl) <= HSLOT.

Lemma fresh_claim_ok s t p rest cl :
  WF2 s -> t_status (thr s t) = Running -> t_stack (thr s t) = p :: rest ->
  fresh (t_loc (thr s t)) p cl -> claim_ok s cl.
Proof.
  intros W Hr Hs Hf.
  destruct p; try contradiction; cbn in Hf; subst cl;
    destruct (in_with_node s t _ _ W Hr Hs eq_refl) as (n & Hn & Hh & Hlt & Ho);
    pose proof (w_top _ W t n Hr Hh) as Htop; rewrite Hs in Htop; cbn in Htop;
    unfold claim_ok; cbn; rewrite Ho; split; try exact Hlt.
  - destruct Htop as (_ & _ & Hj). unfold SLOT_CNT, HSLOT in *. lia.
  - lia.
Qed.

Lemma exec_step_claims cf s t x p rest s1 l1 evs nx :
  WF2 s -> Quiet s -> DestFree s -> (forall t', gtyped (t_stack (thr s t'))) -> (forall t', dst_ok (thr s t')) ->
  SlotClaimed s -> ClaimNodes' s -> NoFault (fst (step cf s t x)) ->
  t_status (thr s t) = Running -> t_stack (thr s t) = p :: rest ->
  exec cf (sh s) (t_loc (thr s t)) p x = (s1, l1, evs, nx) ->
  let s' := mkState s1 (upd (thr s) t (thread_after cf (thr s t) l1 rest nx)) (hnd_after cf (hnd s) l1 rest nx) in
  SlotClaimed s' /\ ClaimNodes' s'.
Proof.
  intros W Q DF Ht Hd SC CN Hnf Hr Hs He s'.
  destruct (frame_step_facts _ _ _ _ _ _ _ _ _ _ W Q (Ht t) Hnf Hr Hs He) as (Hns & Hset & Hwait & Hbl & Hwp & Hcl).
  set (l := t_loc (thr s t)) in *. set (th' := thread_after cf (thr s t) l1 rest nx) in *.
  assert (Hstk : forall cl, In cl (frame_claims l p ++ sclaims l rest) -> In cl (stack_claims (thr s t))).
  { intros cl H. rewrite stack_claims_eq, Hs. exact H. }
  assert (Hold : forall cl, In cl (nx_claims l1 nx ++ sclaims l rest) -> claim_ok s cl).
  { intros [sl a] H. apply in_app_or in H as [H|H].
    - destruct (exec_claims_bwd _ _ _ _ _ _ _ _ _ He Hns _ H) as [H'|H'].
      + apply (proj1 CN t sl a). apply Hstk. apply in_or_app. left. exact H'.
      + eapply fresh_claim_ok; eassumption.
    - apply (proj1 CN t sl a). apply Hstk. apply in_or_app. right. exact H. }
  assert (Hnn : nn s <= nn s') by (unfold nn; cbn; eapply exec_head; exact He).
  assert (Hnew : forall cl, In cl (stack_claims th' ++ wclaims cf l1 rest nx) -> claim_ok s' cl).
  { intros cl H. apply Hcl in H. destruct (Hold cl H) as [H1 H2]. split; [lia|exact H2]. }
  assert (Hhnd : forall h, hnd s' h = hnd s h \/ exists hv, written cf l1 rest nx = Some (h, hv) /\ hnd s' h = hv).
  { intros h. unfold s'. cbn [hnd]. rewrite hnd_after_written. destruct (written cf l1 rest nx) as [[k hv]|]; [|left; reflexivity].
    destruct (N.eq_dec h k) as [->|Hne]; [right; exists hv; rewrite upd_same; auto|left; apply upd_other; exact Hne]. }
  split.
  2: { split.
    - intros t' sl a H. unfold s' in H. cbn [thr] in H. destruct (N.eq_dec t' t) as [->|Hne].
      + rewrite upd_same in H. apply (Hnew (sl, a)). apply in_or_app. left. exact H.
      + rewrite upd_other in H by exact Hne. destruct (proj1 CN t' sl a H) as [H1 H2]. split; [lia|exact H2].
    - intros h sl a H. destruct (Hhnd h) as [E|(hv & Ew & E)]; rewrite E in H.
      + destruct (proj2 CN h sl a H) as [H1 H2]. split; [lia|exact H2].
      + apply (Hnew (sl, a)). apply in_or_app. right. unfold wclaims. rewrite Ew. exact H. }
  assert (Hplace : forall cl, In cl (stack_claims th' ++ wclaims cf l1 rest nx) ->
            (exists t0, In cl (stack_claims (thr s' t0))) \/ (exists h, In cl (handle_claims (hnd s' h)))).
  { intros cl H. apply in_app_or in H as [H|H].
    - left. exists t. unfold s'. cbn [thr]. rewrite upd_same. exact H.
    - right. unfold wclaims in H. destruct (written cf l1 rest nx) as [[k hv]|] eqn:Ew; [|destruct H].
      exists k. unfold s'. cbn [hnd]. rewrite hnd_after_written, Ew, upd_same. exact H. }
  intros n j a Hv Hm. unfold s' in Hm; cbn [sh] in Hm.
  destruct (exec_slots _ _ _ _ _ _ _ _ _ n j He Hns) as
    [E|[E|[(c & v & -> & Hn & Hmv & -> & Hnode)|(c & gt & v & -> & Hn & -> & Hmv & -> & ->)]]].
  - rewrite E in Hm. destruct (SC n j a Hv Hm) as [(t0 & H)|(h0 & H)].
    + destruct (N.eq_dec t0 t) as [->|Hne].
      * apply Hplace. apply Hcl. rewrite stack_claims_eq, Hs in H.
        change (sclaims (t_loc (thr s t)) (p :: rest)) with (frame_claims l p ++ sclaims l rest) in H.
        apply in_app_or in H as [H|H]; [|apply in_or_app; right; exact H].
        destruct (exec_claims_fwd _ _ _ _ _ _ _ _ _ He Hns _ _ H Hv) as [H'|H']; [apply in_or_app; left; exact H'|].
        exfalso. apply H'. unfold slot_loc. cbn [fst snd]. rewrite E. exact Hm.
      * left. exists t0. unfold s'. cbn [thr]. rewrite upd_other by exact Hne. exact H.
    + destruct (Hhnd h0) as [E0|(hv & Ew & E0)].
      * right. exists h0. rewrite E0. exact H.
      * exfalso. destruct (written_dst _ _ _ _ _ _ Ew) as (f & Hin & Hb).
        assert (Hin' : In f (t_stack (thr s t))) by (rewrite Hs; right; exact Hin).
        destruct (Hd t f h0 Hin' Hb) as (c & Hc & Hdst).
        destruct (DF t c h0 Hr Hc Hdst) as [E1|[E1 _]]; [rewrite E1 in H; destruct H|rewrite Hs in E1; discriminate].
  - exfalso. destruct Hv as [_ Hv]. apply Hv. rewrite <- Hm. exact E.
  - apply Hplace. apply Hcl. apply in_or_app. left. cbn [nx_claims frame_claims]. left.
    unfold own_node in *. rewrite Hnode. fold l. rewrite <- Hn, <- Hm, Hmv. reflexivity.
  - apply Hplace. apply Hcl. apply in_or_app. left. cbn [nx_claims frame_claims]. left.
    fold l. rewrite <- Hn, <- Hm, Hmv. reflexivity.
Qed.

Lemma set_thread_claims s t th' :
  t_stack (thr s t) = [] -> stack_claims th' = [] ->
  SlotClaimed s -> ClaimNodes' s -> SlotClaimed (set_thread s t th') /\ ClaimNodes' (set_thread s t th').
Proof.
  intros Hs Hc SC CN. split.
  - intros n j a Hv Hm. destruct (SC n j a Hv Hm) as [(t0 & H)|(h0 & H)]; [|right; exists h0; exact H].
    left. exists t0. cbn. destruct (N.eq_dec t0 t) as [->|Hne]; [|rewrite upd_other by exact Hne; exact H].
    rewrite stack_claims_eq, Hs in H. destruct H.
  - split; [|exact (proj2 CN)]. intros t' sl a H. cbn in H. destruct (N.eq_dec t' t) as [->|Hne].
    + rewrite upd_same, Hc in H. destruct H.
    + rewrite upd_other in H by exact Hne. exact (proj1 CN t' sl a H).
Qed.

Theorem step_claims cf s t x :
  WF2 s -> Quiet s -> DestFree s -> (forall t', gtyped (t_stack (thr s t'))) -> (forall t', dst_ok (thr s t')) ->
  SlotClaimed s -> ClaimNodes' s -> NoFault (fst (step cf s t x)) ->
  SlotClaimed (fst (step cf s t x)) /\ ClaimNodes' (fst (step cf s t x)).
Proof.
  intros W Q DF Ht Hd SC CN Hnf.
  destruct (step_cases cf s t x) as [E|c s1 l1 stk r Hr Hs Hc Hen Hcs E|n Hr Hs Hn E|Hr Hs Hn E|p rest s1 l1 evs nx Hr Hs He E];
    rewrite E.
  - split; assumption.
  - destruct (cmd_start_effect _ _ _ _ _ _ _ _ Hcs) as (Hthr & Hnode & Hmem & _).
    destruct (start_thread_fields (thr s t) l1 stk) as (F1 & F2 & _).
    assert (Hdf : dfree s c).
    { intros h Hh. destruct (DF t c h Hr Hc Hh) as [H|[_ H]]; auto. }
    assert (Hnn : nn (set_thread s1 t (start_thread (thr s t) l1 stk)) = nn s) by (unfold nn; cbn; apply Hmem; discriminate).
    assert (Hnew : stack_claims (start_thread (thr s t) l1 stk) = sclaims l1 stk) by (rewrite stack_claims_eq, F1, F2; reflexivity).
    split.
    + intros n j a Hv Hm. cbn [set_thread sh] in Hm. rewrite Hmem in Hm by discriminate.
      destruct (SC n j a Hv Hm) as [(t0 & H)|(h0 & H)].
      * left. exists t0. cbn. destruct (N.eq_dec t0 t) as [->|Hne].
        -- rewrite stack_claims_eq, Hs in H. destruct H.
        -- rewrite upd_other by exact Hne. rewrite Hthr. exact H.
      * destruct (cmd_start_claims_fwd _ _ _ _ _ _ _ _ Hcs Hen Hdf _ _ H) as [(h1 & H1)|H1].
        -- right. exists h1. exact H1.
        -- left. exists t. cbn. rewrite upd_same, Hnew. exact H1.
    + split.
      * intros t' sl a H. rewrite Hnn. cbn in H. destruct (N.eq_dec t' t) as [->|Hne].
        -- rewrite upd_same, Hnew in H.
           destruct (cmd_start_claims_bwd _ _ _ _ _ _ _ _ Hcs _ (or_introl H)) as (h0 & H0). exact (proj2 CN h0 sl a H0).
        -- rewrite upd_other in H by exact Hne. rewrite Hthr in H. exact (proj1 CN t' sl a H).
      * intros h sl a H. rewrite Hnn. cbn in H.
        destruct (cmd_start_claims_bwd _ _ _ _ _ _ _ _ Hcs (sl, a) (or_intror (ex_intro _ h H))) as (h0 & H0).
        exact (proj2 CN h0 sl a H0).
  - apply set_thread_claims; try assumption. reflexivity.
  - apply set_thread_claims; try assumption. reflexivity.
  - eapply exec_step_claims; eassumption.
Qed.
