(** * ASModel.Prot14 — [ProtH] is preserved by every step. *)
From Coq Require Import Lia.
From ASModel Require Import Base State Orderings_gen Step Run Progress Hist Inv InvTl InvProto InvStep Sum StepCases.
From ASModel Require Import GenDefs Gen1 Gen2 Gen3 AccDefs ProtDefs Prot1 Prot2 Prot6 Prot7 Prot8 Prot9 Prot10 Prot11 Prot12 Prot13.

Lemma settle_nonret cf l rest nx l2 stk st :
  settle cf l rest nx l2 stk st -> nx_frames nx <> [] -> stk = nx_frames nx ++ rest /\ l2 = l /\ st = Running.
Proof.
  intros H Hne. inversion H; subst; cbn in *; try congruence; auto.
  rewrite <- app_assoc. auto.
Qed.

Lemma enter_pay_Ch l c cand l' fs n gt :
  enter_pay l c cand = (l', fs) -> exists q, In q fs /\ Ch cand n c gt q = true.
Proof.
  unfold enter_pay. intros H. destruct (tl_node l); injection H as <- <-.
  - exists (pay_body cand c). split; [left; reflexivity|]. unfold pay_body.
    destruct (cand =? 0); (apply Ch_intro; [reflexivity|]; cbn; apply N.eqb_refl).
  - exists (WGetPay c cand). split; [right; left; reflexivity|]. apply Ch_intro; [reflexivity|]; cbn; apply N.eqb_refl.
Qed.

Lemma enter_pay_Cs l c a l' fs n j :
  enter_pay l c a = (l', fs) -> exists q, In q fs /\ Cs a n j q = true.
Proof.
  unfold enter_pay. intros H. destruct (tl_node l); injection H as <- <-.
  - exists (pay_body a c). split; [left; reflexivity|]. unfold pay_body.
    destruct (a =? 0); (apply Cs_intro; reflexivity).
  - exists (WGetPay c a). split; [right; left; reflexivity|]. apply Cs_intro; reflexivity.
Qed.

Lemma cmd_start_hd_req cf s l c s1 l1 stk r :
  cmd_start cf s l c = inl (s1, l1, stk, r) -> hd_req stk = None.
Proof.
  intros Hc. destruct c; cbn in Hc; destr_in Hc; try discriminate; injection Hc as <- <- <- <-; try reflexivity.
  all: repeat match goal with
       | H : enter_load _ _ _ = inl (_, _) |- _ => apply enter_load_call in H as [H ?Hne]
       | H : enter_pay _ _ _ = (_, ?fs) |- _ => unfold enter_pay, pay_body in H; destr_in H; injection H as <- <-
       end; try reflexivity.
  all: try (rewrite hd_req_app by assumption; eapply call_shape_req; eassumption).
  all: try (match goal with H : guard_drop_frames ?a ?d = _ |- _ => unfold guard_drop_frames in H; destr_in H; try discriminate; injection H as <- <-; reflexivity end).
  all: try (match goal with H : guard_into_frames ?a ?d = _ |- _ => unfold guard_into_frames in H; destr_in H; try discriminate; injection H as <- <-; reflexivity end).
Qed.

(** The container written by a command start gets a walk for the removed value. *)
Lemma cmd_start_stores cf s l c s1 l1 stk r k :
  cmd_start cf s l c = inl (s1, l1, stk, r) ->
  mem (sh s1) (LStore k) = mem (sh s) (LStore k) \/
  (forall n gt, exists q, In q stk /\ Ch (mem (sh s) (LStore k)) n k gt q = true) /\
  (forall n j, exists q, In q stk /\ Cs (mem (sh s) (LStore k)) n j q = true).
Proof.
  intros Hc. destruct c; cbn in Hc; destr_in Hc; try discriminate; injection Hc as <- <- <- <-.
  all: try (left; reflexivity).
  all: try (left; unfold consume; match goal with |- context [match ?v with SNull => _ | SHandle _ => _ end] => destruct v end; reflexivity).
  all: cbn [sh mem m_set].
  all: destruct (N.eq_dec k c) as [->|Hne]; [|left; apply upd_other; congruence].
  all: right; split; intros.
  all: match goal with
       | H : enter_pay _ _ _ = _ |- exists q, _ /\ Ch _ ?n _ ?gt _ = true =>
           destruct (enter_pay_Ch _ _ _ _ _ n gt H) as (q & Hq & HC); exists q; split; [apply in_or_app; left; exact Hq|exact HC]
       | H : enter_pay _ _ _ = _ |- exists q, _ /\ Cs _ ?n ?j _ = true =>
           destruct (enter_pay_Cs _ _ _ _ _ n j H) as (q & Hq & HC); exists q; split; [apply in_or_app; left; exact Hq|exact HC]
       end.
Qed.

Lemma reader_facts s t0 n p0 rest0 c gt cand :
  WF2 s -> Quiet s -> t_stack (thr s t0) = p0 :: rest0 -> req_frame p0 = Some (c, gt, cand) ->
  tl_node (t_loc (thr s t0)) = Some n ->
  t_status (thr s t0) = Running /\ holder (thr s t0) = Some n /\ n < nn s /\ is_gen gt /\
  mem (sh s) (LAddr n) = store_val c.
Proof.
  intros W Q Hs Hreq Hn.
  assert (Hr : t_status (thr s t0) = Running) by (apply (in_running s t0 p0 Q); rewrite Hs; left; reflexivity).
  assert (Hh : holder (thr s t0) = Some n) by (unfold holder; rewrite Hn; reflexivity).
  split; [exact Hr|]. split; [exact Hh|]. split; [exact (w_lt _ W t0 n Hh)|].
  pose proof (w_top _ W t0 n Hr Hh) as Htop. rewrite Hs in Htop. cbn [hd_error] in Htop.
  destruct p0; try discriminate Hreq; cbn in Hreq; injection Hreq as -> -> ->; cbn in Htop; tauto.
Qed.

Lemma Ch_split cand n c gt q : Ch cand n c gt q = true <-> pay_frame_of cand q = true /\ covers_help n c gt q = true.
Proof. unfold Ch. rewrite Bool.andb_true_iff. tauto. Qed.
Lemma Cs_split a n j q : Cs a n j q = true <-> pay_frame_of a q = true /\ covers_slot n j q = true.
Proof. unfold Cs. rewrite Bool.andb_true_iff. tauto. Qed.

(** ** The invariant, with the cover as one boolean *)
Definition ProtHc (s : state) : Prop :=
  forall t n p rest c gt cand,
    t_stack (thr s t) = p :: rest -> req_frame p = Some (c, gt, cand) -> valid cand ->
    tl_node (t_loc (thr s t)) = Some n -> mem (sh s) (LCtrl n) = gt ->
    mem (sh s) (LStore c) = cand \/
    (exists t' q, In q (t_stack (thr s t')) /\ Ch cand n c gt q = true).

Lemma ProtHc_iff s : ProtH s <-> ProtHc s.
Proof.
  split; intros H t n p rest c gt cand H1 H2 H3 H4 H5;
    (destruct (H t n p rest c gt cand H1 H2 H3 H4 H5) as [E|(t' & q & Hin & Hq)]; [left; exact E|right; exists t', q]).
  - split; [exact Hin|]. apply Ch_split. exact Hq.
  - apply Ch_split in Hq. tauto.
Qed.

Lemma exec_step_ProtH cf s t x p rest s1 l1 evs nx :
  WF2 s -> Quiet s -> (forall t', gtyped (t_stack (thr s t'))) -> ProtHc s -> NoFault (fst (step cf s t x)) ->
  t_status (thr s t) = Running -> t_stack (thr s t) = p :: rest ->
  exec cf (sh s) (t_loc (thr s t)) p x = (s1, l1, evs, nx) ->
  ProtHc (mkState s1 (upd (thr s) t (thread_after cf (thr s t) l1 rest nx)) (hnd_after cf (hnd s) l1 rest nx)).
Proof.
  intros W Q Ht PH Hnf Hr Hs He.
  destruct (exec_settle _ _ _ _ _ _ _ _ _ _ W Hnf Hr Hs He) as [Hns Hset].
  pose proof (q_bl _ Q t) as Hbl. rewrite Hs in Hbl. destruct Hbl as [_ Hbl].
  set (l := t_loc (thr s t)) in *. set (th' := thread_after cf (thr s t) l1 rest nx) in *.
  intros t0 n p0 rest0 c gt cand Hs0 Hreq Hv Hn Hctl. cbn [thr sh] in *.
  assert (Hkeep : forall q, In q rest -> Ch cand n c gt q = true -> exists q', In q' (t_stack th') /\ Ch cand n c gt q' = true).
  { intros q Hin Hq. eapply settle_keep; [apply Ch_keepable|exact Hset|exact Hbl|]. exists q. auto. }
  assert (Hother : forall t' q, t' <> t -> In q (t_stack (thr s t')) -> Ch cand n c gt q = true ->
            exists t'' q', In q' (t_stack (upd (thr s) t th' t'')) /\ Ch cand n c gt q' = true).
  { intros t' q Hne Hin Hq. exists t', q. rewrite upd_other by exact Hne. auto. }
  assert (Hmine : forall q', In q' (t_stack th') -> Ch cand n c gt q' = true ->
            exists t'' q'', In q'' (t_stack (upd (thr s) t th' t'')) /\ Ch cand n c gt q'' = true).
  { intros q' Hin Hq. exists t, q'. rewrite upd_same. auto. }
  destruct (N.eq_dec t0 t) as [->|Hne0].
  - (* the acting thread is the reader *)
    rewrite upd_same in Hs0, Hn.
    pose proof (settle_hd_req _ _ _ _ _ _ _ Hset) as Hq. rewrite Hs0 in Hq. cbn [hd_req] in Hq.
    rewrite (req_frame_top _ _ _ _ Hreq) in Hq.
    assert (Hnef : nx_frames nx <> []) by (intros E0; rewrite E0 in Hq; discriminate).
    destruct (settle_nonret _ _ _ _ _ _ _ Hset Hnef) as (Estk & El & _).
    assert (Hhd : hd_error (nx_frames nx) = Some p0).
    { rewrite Hs0 in Estk. destruct (nx_frames nx) as [|f fs]; [congruence|]. injection Estk as -> _. reflexivity. }
    destruct (exec_req _ _ _ _ _ _ _ _ _ _ _ _ _ He Hns Hhd Hreq) as (El1 & -> & Hcase).
    destruct Hcase as [(-> & -> & ->)|(Hp & Hc1 & Hc2)].
    + left. reflexivity.
    + rewrite El, El1 in Hn. rewrite Hc1 in Hctl.
      assert (Hreq0 : req_frame p = Some (c, gt, cand)) by (destruct Hp as [-> | ->]; reflexivity).
      destruct (PH t n p rest c gt cand Hs Hreq0 Hv Hn Hctl) as [E|(t' & q & Hin & Hq')].
      * left. rewrite Hc2. exact E.
      * right. destruct (N.eq_dec t' t) as [->|Hne]; [|eapply Hother; eassumption].
        rewrite Hs in Hin. destruct Hin as [<-|Hin].
        -- exfalso. destruct Hp as [-> | ->]; discriminate Hq'.
        -- apply (Hmine q); [|exact Hq']. rewrite Estk. cbn. right. exact Hin.
  - rewrite upd_other in Hs0, Hn by exact Hne0.
    destruct (reader_facts s t0 n p0 rest0 c gt cand W Q Hs0 Hreq Hn) as (Hr0 & Hh0 & Hlt & Hg & Haddr).
    assert (Hctl0 : mem (sh s) (LCtrl n) = gt).
    { destruct (exec_ctrl _ _ _ _ _ _ _ _ _ n He Hns) as [E|[E|(c' & gt' & -> & En)]].
      - rewrite <- E. exact Hctl.
      - exfalso. apply E. rewrite Hctl. exact Hg.
      - exfalso. destruct (in_with_node s t _ _ W Hr Hs eq_refl) as (n' & _ & Hh & _ & Ho). fold l in Ho.
        apply Hne0. apply (w_uniq _ W t0 t n Hh0). rewrite Hh. f_equal. congruence. }
    destruct (PH t0 n p0 rest0 c gt cand Hs0 Hreq Hv Hn Hctl0) as [E|(t' & q & Hin & Hq)].
    + destruct (exec_stores _ _ _ _ _ _ _ _ _ c He Hns) as
        [E1|[(new & fs & -> & Hep & ->)|(cur & new & v & d & fs & -> & Hcur & Hep & ->)]].
      * left. rewrite E1. exact E.
      * right. rewrite E in Hep. destruct (enter_pay_Ch _ _ _ _ _ n gt Hep) as (q & Hq & HC).
        apply (Hmine q); [|exact HC]. eapply settle_nx_in; [exact Hset|]. cbn. apply in_or_app. left. exact Hq.
      * right. pose proof (Ht t) as Hty. rewrite Hs in Hty. destruct Hty as (Hfok & _). cbn in Hfok.
        apply N.eqb_eq in Hfok. subst v. rewrite <- Hcur, E in Hep.
        destruct (enter_pay_Ch _ _ _ _ _ n gt Hep) as (q & Hq & HC).
        apply (Hmine q); [|exact HC]. eapply settle_nx_in; [exact Hset|]. cbn. apply in_or_app. left. exact Hq.
    + right. destruct (N.eq_dec t' t) as [->|Hne]; [|eapply Hother; eassumption].
      rewrite Hs in Hin. destruct Hin as [<-|Hin].
      * destruct (exec_cover_help _ _ _ _ _ _ _ _ _ _ _ _ _ He Hns Hq Hlt Hg Hctl0 Haddr Hctl) as (f & Hf & HC).
        apply (Hmine f); [|exact HC]. eapply settle_nx_in; eassumption.
      * destruct (Hkeep q Hin Hq) as (q' & Hq' & HC). eapply Hmine; eassumption.
Qed.

Lemma set_thread_ProtH s t th' :
  t_stack (thr s t) = [] -> hd_req (t_stack th') = None ->
  ProtHc s -> ProtHc (set_thread s t th').
Proof.
  intros Hs Hq PH t0 n p0 rest0 c gt cand Hs0 Hreq Hv Hn Hctl. cbn [set_thread thr sh] in *.
  destruct (N.eq_dec t0 t) as [->|Hne0].
  - rewrite upd_same in Hs0. rewrite Hs0 in Hq. cbn in Hq. rewrite (req_frame_top _ _ _ _ Hreq) in Hq. discriminate.
  - rewrite upd_other in Hs0, Hn by exact Hne0.
    destruct (PH t0 n p0 rest0 c gt cand Hs0 Hreq Hv Hn Hctl) as [E|(t' & q & Hin & Hq')]; [left; exact E|].
    right. exists t', q. split; [|exact Hq']. destruct (N.eq_dec t' t) as [->|Hne]; [rewrite Hs in Hin; destruct Hin|].
    rewrite upd_other by exact Hne. exact Hin.
Qed.

Theorem step_ProtHc cf s t x :
  WF2 s -> Quiet s -> (forall t', gtyped (t_stack (thr s t'))) -> ProtHc s -> NoFault (fst (step cf s t x)) ->
  ProtHc (fst (step cf s t x)).
Proof.
  intros W Q Ht PH Hnf.
  destruct (step_cases cf s t x) as [E|c s1 l1 stk r Hr Hs Hc Hen Hcs E|n Hr Hs Hn E|Hr Hs Hn E|p rest s1 l1 evs nx Hr Hs He E];
    rewrite E.
  - exact PH.
  - destruct (cmd_start_effect _ _ _ _ _ _ _ _ Hcs) as (Hthr & Hnode & Hmem & _).
    destruct (start_thread_fields (thr s t) l1 stk) as (F1 & F2 & _).
    intros t0 n p0 rest0 c0 gt cand Hs0 Hreq Hv Hn Hctl. cbn [set_thread thr sh] in *.
    destruct (N.eq_dec t0 t) as [->|Hne0].
    + rewrite upd_same, F1 in Hs0. pose proof (cmd_start_hd_req _ _ _ _ _ _ _ _ Hcs) as Hq.
      rewrite Hs0 in Hq. cbn in Hq. rewrite (req_frame_top _ _ _ _ Hreq) in Hq. discriminate.
    + rewrite upd_other in Hs0, Hn by exact Hne0. rewrite Hthr in Hs0, Hn. rewrite Hmem in Hctl by discriminate.
      destruct (PH t0 n p0 rest0 c0 gt cand Hs0 Hreq Hv Hn Hctl) as [E0|(t' & q & Hin & Hq')].
      * destruct (cmd_start_stores _ _ _ _ _ _ _ _ c0 Hcs) as [E1|[H1 _]].
        -- left. rewrite E1. exact E0.
        -- right. rewrite E0 in H1. destruct (H1 n gt) as (q & Hq & HC). exists t, q. rewrite upd_same, F1. auto.
      * right. exists t', q. split; [|exact Hq']. destruct (N.eq_dec t' t) as [->|Hne]; [rewrite Hs in Hin; destruct Hin|].
        rewrite upd_other by exact Hne. rewrite Hthr. exact Hin.
  - apply set_thread_ProtH; [exact Hs|reflexivity|exact PH].
  - apply set_thread_ProtH; [exact Hs|reflexivity|exact PH].
  - eapply exec_step_ProtH; eassumption.
Qed.

Theorem step_ProtH cf s t x :
  WF2 s -> Quiet s -> (forall t', gtyped (t_stack (thr s t'))) -> ProtH s -> NoFault (fst (step cf s t x)) ->
  ProtH (fst (step cf s t x)).
Proof. intros W Q Ht PH Hnf. apply ProtHc_iff. apply step_ProtHc; try assumption. apply ProtHc_iff. exact PH. Qed.
