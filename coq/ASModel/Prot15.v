(** * ASModel.Prot15 — [Prot] is preserved by every step. *)
From Coq Require Import Lia.
From ASModel Require Import Base State Orderings_gen Step Run Progress Hist Inv InvTl InvProto InvStep Sum StepCases.
From ASModel Require Import GenDefs Gen1 Gen2 Gen3 AccDefs ProtDefs Prot1 Prot2 Prot6 Prot7 Prot8 Prot9 Prot10 Prot11 Prot12 Prot13 Prot14.

Definition Protc (s : state) : Prop :=
  forall n j a, valid a -> mem (sh s) (LSlot n j) = a ->
    (exists t, unconfirmed_top n j a (thr s t) = true) \/
    (exists c, mem (sh s) (LStore c) = a) \/
    (exists t q, In q (t_stack (thr s t)) /\ Cs a n j q = true).

Lemma Protc_iff s : Prot s <-> Protc s.
Proof.
  split; intros H n j a H1 H2;
    (destruct (H n j a H1 H2) as [E|[E|(t' & q & Hin & Hq)]]; [left; exact E|right; left; exact E|right; right; exists t', q]).
  - split; [exact Hin|]. apply Cs_split. exact Hq.
  - apply Cs_split in Hq. tauto.
Qed.

Lemma unconf_nil n j a th : t_stack th = [] -> unconfirmed_top n j a th = false.
Proof. intros H. rewrite unconfirmed_top_eq, H. destruct (tl_node (t_loc th)); [apply Bool.andb_false_r|reflexivity]. Qed.

Lemma unconf_intro n j a th p rest :
  tl_node (t_loc th) = Some n -> t_stack th = p :: rest -> unconf_pc j a p = true -> unconfirmed_top n j a th = true.
Proof. intros H1 H2 H3. rewrite unconfirmed_top_eq, H1, H2, H3, N.eqb_refl. reflexivity. Qed.

Lemma slot_bounds s n j a : SlotClaimed s -> ClaimNodes' s -> valid a -> mem (sh s) (LSlot n j) = a -> n < nn s /\ j <= HSLOT.
Proof.
  intros SC CN Hv Hm. destruct (SC n j a Hv Hm) as [(t0 & H)|(h0 & H)].
  - exact (proj1 CN t0 (n, j) a H).
  - exact (proj2 CN h0 (n, j) a H).
Qed.

Lemma set_thread_Prot s t th' :
  t_stack (thr s t) = [] -> Protc s -> Protc (set_thread s t th').
Proof.
  intros Hs P n j a Hv Hm. cbn [set_thread thr sh] in *.
  destruct (P n j a Hv Hm) as [(t0 & H)|[H|(t' & q & Hin & Hq)]].
  - left. exists t0. destruct (N.eq_dec t0 t) as [->|Hne]; [rewrite (unconf_nil _ _ _ _ Hs) in H; discriminate|].
    rewrite upd_other by exact Hne. exact H.
  - right. left. exact H.
  - right. right. exists t', q. split; [|exact Hq]. destruct (N.eq_dec t' t) as [->|Hne]; [rewrite Hs in Hin; destruct Hin|].
    rewrite upd_other by exact Hne. exact Hin.
Qed.

Lemma exec_step_Prot cf s t x p rest s1 l1 evs nx :
  WF2 s -> Quiet s -> (forall t', gtyped (t_stack (thr s t'))) -> SlotClaimed s -> ClaimNodes' s ->
  ProtHc s -> Protc s -> NoFault (fst (step cf s t x)) ->
  t_status (thr s t) = Running -> t_stack (thr s t) = p :: rest ->
  exec cf (sh s) (t_loc (thr s t)) p x = (s1, l1, evs, nx) ->
  Protc (mkState s1 (upd (thr s) t (thread_after cf (thr s t) l1 rest nx)) (hnd_after cf (hnd s) l1 rest nx)).
Proof.
  intros W Q Ht SC CN PH P Hnf Hr Hs He.
  destruct (exec_settle _ _ _ _ _ _ _ _ _ _ W Hnf Hr Hs He) as [Hns Hset].
  pose proof (q_bl _ Q t) as Hbl. rewrite Hs in Hbl. destruct Hbl as [_ Hbl].
  set (l := t_loc (thr s t)) in *. set (th' := thread_after cf (thr s t) l1 rest nx) in *.
  intros n j a Hv Hm. cbn [thr sh] in *.
  assert (Hother : forall t' q, t' <> t -> In q (t_stack (thr s t')) -> Cs a n j q = true ->
            exists t'' q', In q' (t_stack (upd (thr s) t th' t'')) /\ Cs a n j q' = true).
  { intros t' q Hne Hin Hq. exists t', q. rewrite upd_other by exact Hne. auto. }
  assert (Hmine : forall q', In q' (t_stack th') -> Cs a n j q' = true ->
            exists t'' q'', In q'' (t_stack (upd (thr s) t th' t'')) /\ Cs a n j q'' = true).
  { intros q' Hin Hq. exists t, q'. rewrite upd_same. auto. }
  assert (Hrest : forall q, In q rest -> Cs a n j q = true ->
            exists t'' q'', In q'' (t_stack (upd (thr s) t th' t'')) /\ Cs a n j q'' = true).
  { intros q Hin Hq. destruct (settle_keep _ _ _ _ _ _ _ _ (Cs_keepable a n j) Hset Hbl (ex_intro _ q (conj Hin Hq))) as (q' & Hq' & HC).
    eapply Hmine; eassumption. }
  assert (Hpay : forall c fs, enter_pay l c a = (l1, fs) -> (forall f, In f fs -> In f (nx_frames nx)) ->
            exists t'' q'', In q'' (t_stack (upd (thr s) t th' t'')) /\ Cs a n j q'' = true).
  { intros c fs Hep Hsub. destruct (enter_pay_Cs _ _ _ _ _ n j Hep) as (q & Hq & HC).
    apply (Hmine q); [|exact HC]. eapply settle_nx_in; [exact Hset|]. apply Hsub. exact Hq. }
  destruct (exec_slots _ _ _ _ _ _ _ _ _ n j He Hns) as
    [E|[E|[(c & v & -> & Hn & Hmv & -> & Hnode)|(c & gt & v & -> & Hn & -> & Hmv & -> & ->)]]].
  2: { exfalso. destruct Hv as [_ Hv]. apply Hv. rewrite <- Hm. exact E. }
  2: { left. exists t. rewrite upd_same. destruct (in_with_node s t _ _ W Hr Hs eq_refl) as (n' & Hn' & _ & _ & Ho).
       fold l in Hn', Ho. eapply unconf_intro; [|reflexivity|].
       - cbn. rewrite Hnode, Hn'. congruence.
       - cbn. rewrite <- Hm, Hmv, !N.eqb_refl. reflexivity. }
  2: { left. exists t. rewrite upd_same. destruct (in_with_node s t _ _ W Hr Hs eq_refl) as (n' & Hn' & _ & _ & Ho).
       fold l in Hn', Ho. eapply unconf_intro; [|reflexivity|].
       - cbn. rewrite Hn'. congruence.
       - cbn. rewrite <- Hm, Hmv, !N.eqb_refl. reflexivity. }
  rewrite E in Hm. destruct (slot_bounds s n j a SC CN Hv Hm) as [Hlt Hj].
  destruct (P n j a Hv Hm) as [(t0 & H)|[(c & H)|(t' & q & Hin & Hq)]].
  - destruct (N.eq_dec t0 t) as [->|Hne0]; [|left; exists t0; rewrite upd_other by exact Hne0; exact H].
    rewrite unconfirmed_top_eq, Hs in H. fold l in H.
    destruct (tl_node l) as [n'|] eqn:Hn'; [|discriminate]. apply andb_prop in H as [Hnn Hu].
    apply N.eqb_eq in Hnn. subst n'.
    destruct (exec_unconf _ _ _ _ _ _ _ _ _ n j a He Hns Hn' Hu Hm (proj2 Hv)) as
      [Hx|[Hx|[(p' & -> & Hu' & ->)|(c & gt & -> & -> & Hctl & -> & -> & Hst)]]].
    + exfalso. apply Hx. rewrite E. exact Hm.
    + right. left. exact Hx.
    + left. exists t. rewrite upd_same. eapply unconf_intro; [exact Hn'|reflexivity|exact Hu'].
    + destruct (PH t n _ rest c gt a Hs eq_refl Hv Hn' Hctl) as [E0|(t' & q & Hin & Hq)].
      * right. left. exists c. rewrite Hst. exact E0.
      * right. right. apply Ch_Cs in Hq.
        destruct (N.eq_dec t' t) as [->|Hne]; [|eapply Hother; eassumption].
        rewrite Hs in Hin. destruct Hin as [<-|Hin]; [discriminate Hq|].
        apply (Hmine q); [|exact Hq]. cbn. right. exact Hin.
  - destruct (exec_stores _ _ _ _ _ _ _ _ _ c He Hns) as
      [E1|[(new & fs & -> & Hep & ->)|(cur & new & v & d & fs & -> & Hcur & Hep & ->)]].
    + right. left. exists c. rewrite E1. exact H.
    + right. right. rewrite H in Hep. apply (Hpay c fs Hep). intros f Hf. cbn. apply in_or_app. left. exact Hf.
    + right. right. pose proof (Ht t) as Hty. rewrite Hs in Hty. destruct Hty as (Hfok & _). cbn in Hfok.
      apply N.eqb_eq in Hfok. subst v. rewrite <- Hcur, H in Hep.
      apply (Hpay c fs Hep). intros f Hf. cbn. apply in_or_app. left. exact Hf.
  - right. right. destruct (N.eq_dec t' t) as [->|Hne]; [|eapply Hother; eassumption].
    rewrite Hs in Hin. destruct Hin as [<-|Hin]; [|eapply Hrest; eassumption].
    assert (Hm1 : mem s1 (LSlot n j) = a) by (rewrite E; exact Hm).
    destruct (exec_cover_slot _ _ _ _ _ _ _ _ _ _ _ _ He Hns Hq (proj1 Hv) (proj2 Hv) Hlt Hj Hm Hm1) as (f & Hf & HC).
    apply (Hmine f); [|exact HC]. eapply settle_nx_in; eassumption.
Qed.

Theorem step_Protc cf s t x :
  WF2 s -> Quiet s -> (forall t', gtyped (t_stack (thr s t'))) -> SlotClaimed s -> ClaimNodes' s ->
  ProtHc s -> Protc s -> NoFault (fst (step cf s t x)) ->
  Protc (fst (step cf s t x)).
Proof.
  intros W Q Ht SC CN PH P Hnf.
  destruct (step_cases cf s t x) as [E|c s1 l1 stk r Hr Hs Hc Hen Hcs E|n Hr Hs Hn E|Hr Hs Hn E|p rest s1 l1 evs nx Hr Hs He E];
    rewrite E.
  - exact P.
  - destruct (cmd_start_effect _ _ _ _ _ _ _ _ Hcs) as (Hthr & Hnode & Hmem & _).
    destruct (start_thread_fields (thr s t) l1 stk) as (F1 & F2 & _).
    intros n j a Hv Hm. cbn [set_thread thr sh] in *. rewrite Hmem in Hm by discriminate.
    destruct (P n j a Hv Hm) as [(t0 & H)|[(c0 & H)|(t' & q & Hin & Hq)]].
    + left. exists t0. destruct (N.eq_dec t0 t) as [->|Hne]; [rewrite (unconf_nil _ _ _ _ Hs) in H; discriminate|].
      rewrite upd_other by exact Hne. rewrite Hthr. exact H.
    + destruct (cmd_start_stores _ _ _ _ _ _ _ _ c0 Hcs) as [E1|[_ H1]].
      * right. left. exists c0. rewrite E1. exact H.
      * right. right. rewrite H in H1. destruct (H1 n j) as (q & Hq & HC). exists t, q. rewrite upd_same, F1. auto.
    + right. right. exists t', q. split; [|exact Hq]. destruct (N.eq_dec t' t) as [->|Hne]; [rewrite Hs in Hin; destruct Hin|].
      rewrite upd_other by exact Hne. rewrite Hthr. exact Hin.
  - apply set_thread_Prot; [exact Hs|exact P].
  - apply set_thread_Prot; [exact Hs|exact P].
  - eapply exec_step_Prot; eassumption.
Qed.

Theorem step_Prot cf s t x :
  WF2 s -> Quiet s -> (forall t', gtyped (t_stack (thr s t'))) -> SlotClaimed s -> ClaimNodes' s ->
  ProtH s -> Prot s -> NoFault (fst (step cf s t x)) ->
  Prot (fst (step cf s t x)).
Proof.
  intros W Q Ht SC CN PH P Hnf. apply Protc_iff. apply step_Protc; try assumption; [apply ProtHc_iff|apply Protc_iff]; assumption.
Qed.
