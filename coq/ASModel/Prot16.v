(** * ASModel.Prot16 — [Quiet] (Gen2) is preserved by every step that does not fault, also
    for programs that use [verif::set_generation] (Gen2 proves it under [Calm]). *)
From Coq Require Import Lia.
From ASModel Require Import Base State Orderings_gen Step Run Progress Hist Inv InvTl InvProto InvStep Sum StepCases.
From ASModel Require Import GenDefs Gen1 Gen2.

Lemma cmd_start_quiet cf s l c s' l' stk r :
  cmd_start cf s l c = inl (s', l', stk, r) -> bl stk /\ ~ In WThreadExit stk.
Proof.
  intros Hcs.
  assert (Hg : (forall g, c <> CSetGen g) \/ exists g, c = CSetGen g).
  { destruct c; try (left; discriminate). right. eauto. }
  destruct Hg as [Hg|(g & ->)].
  - destruct (cmd_start_call _ _ _ _ _ _ _ _ Hcs Hg) as (fs & bs & -> & Hcall & Hbt).
    destruct (bottom_tail_bl _ Hbt) as [Hbl Hne]. apply call_shape_plain in Hcall. split.
    + apply bl_app_plain; assumption.
    + intros Hin. apply in_app_or in Hin as [Hin|Hin]; [|exact (Hne Hin)].
      exact (plain_not_exit _ (proj1 (Forall_forall _ _) Hcall _ Hin) eq_refl).
  - cbn in Hcs. destruct (tl_node l); injection Hcs as <- <- <- <-.
    + split; [exact I|intros []].
    + split; [cbn; repeat split; discriminate|]. intros [H|[H|[H|[]]]]; discriminate.
Qed.

Theorem step_Quiet' cf s t x :
  WF2 s -> Quiet s -> NoFault (fst (step cf s t x)) -> Quiet (fst (step cf s t x)).
Proof.
  intros W Q Hnf.
  destruct (step_cases cf s t x) as [E|c s1 l1 stk r Hr Hs Hc Hen Hcs E|n Hr Hs Hn E|Hr Hs Hn E|p rest s1 l1 evs nx Hr Hs He E].
  - rewrite E. exact Q.
  - rewrite E. destruct (cmd_start_effect _ _ _ _ _ _ _ _ Hcs) as (Hthr & Hnode & _).
    destruct (start_thread_fields (thr s t) l1 stk) as (F1 & F2 & F3 & _).
    destruct (cmd_start_quiet _ _ _ _ _ _ _ _ Hcs) as [Hbl Hne].
    apply (Quiet_upd s _ t Q); cbn; rewrite ?upd_same.
    + intros t' Hne'. rewrite upd_other by exact Hne'. rewrite Hthr. reflexivity.
    + rewrite F3. congruence.
    + rewrite F1. exact Hbl.
    + unfold exit_shape. rewrite F1. intros Hin. exfalso. exact (Hne Hin).
  - rewrite E. apply (Quiet_upd s _ t Q); cbn; rewrite ?upd_same; cbn.
    + intros t' Hne'. apply upd_other. exact Hne'.
    + congruence.
    + split; [discriminate|]. split; auto.
    + intros _. split; [reflexivity|]. eexists. split; reflexivity.
  - rewrite E. apply (Quiet_upd s _ t Q); cbn; rewrite ?upd_same; cbn.
    + intros t' Hne'. apply upd_other. exact Hne'.
    + intros _. auto.
    + exact I.
    + intros [].
  - destruct (exec_settle _ _ _ _ _ _ _ _ _ _ W Hnf Hr Hs He) as [Hns Hset].
    remember (thread_after cf (thr s t) l1 rest nx) as th' eqn:Eth.
    destruct th' as [stk2 l2 pr2 ci2 st2]; cbn [t_loc t_stack t_status] in Hset.
    pose proof (exec_plain _ _ _ _ _ _ _ _ _ He Hns) as Hpl.
    pose proof (q_bl _ Q t) as Hbl. rewrite Hs in Hbl. destruct Hbl as [_ Hbl].
    pose proof (q_exit _ Q t) as Hex. unfold exit_shape in Hex. rewrite Hs in Hex.
    assert (Hnode_exit : In WThreadExit rest -> tl_node l2 = None /\ rest = [WThreadExit] /\ is_cool p = true).
    { intros Hin. destruct (Hex (or_intror Hin)) as (Hnone & p0 & [= -> ->] & Hcool). split; [|auto].
      rewrite (settle_node _ _ _ _ _ _ _ Hset).
      destruct (exec_node _ _ _ _ _ _ _ _ _ He) as [H|[H|(k & _ & [[-> _]|[[-> _]|[-> _]]])]]; try discriminate Hcool; congruence. }
    rewrite E. apply (Quiet_upd s _ t Q); cbn; rewrite ?upd_same; cbn.
    + intros t' Hne'. apply upd_other. exact Hne'.
    + intros Hst. destruct (settle_status _ _ _ _ _ _ _ Hset) as [Hx|[Hx Hy]]; [contradiction|].
      split; [exact Hy|]. apply Hnode_exit. eapply settle_exited; eassumption.
    + eapply settle_bl; eassumption.
    + intros Hin. destruct (settle_frames _ _ _ _ _ _ _ Hset Hpl _ Hin) as [Hin'|Hp]; [|discriminate Hp].
      destruct (Hnode_exit Hin') as (Hnone & -> & Hcool). split; [exact Hnone|].
      destruct p; try discriminate Hcool.
      * cbn in He. unfold a_fadd in He. injection He as <- <- <- <-. inversion Hset; subst. eexists; split; reflexivity.
      * pose proof (exec_special _ _ _ _ _ _ _ _ _ He Hns) as [_ ->]. inversion Hset; subst. eexists; split; reflexivity.
      * cbn in He. unfold a_fsub in He. injection He as <- <- <- <-.
        inversion Hset; subst; try (destruct Hin; fail); try congruence; discriminate.
Qed.
