(** * ASModel.Prot2 — guard-typed stacks are preserved by frame steps, unwinding and command
    starts. *)
From Coq Require Import Lia.
From ASModel Require Import Base State Orderings_gen Step Run Progress Hist Inv InvTl InvProto InvStep Sum StepCases.
From ASModel Require Import GenDefs Gen1 Prot1.

Ltac gt_push :=
  cbn [next_gt];
  repeat match goal with
  | H : enter_load _ _ _ = inl (_, ?fs) |- context [gseg (?fs ++ ?gs) ?w] =>
      rewrite (gseg_app fs gs w) by (first [apply (enter_load_gt _ _ _ _ _ _ H); reflexivity | reflexivity])
  | H : enter_load _ _ _ = inl (_, ?fs) |- context [gseg ?fs ?w] =>
      rewrite (enter_load_gt _ _ _ _ _ w H) by reflexivity
  | H : enter_pay _ _ _ = (_, ?fs) |- context [gseg (?fs ++ ?gs) ?w] =>
      rewrite (gseg_app fs gs w) by (first [apply (enter_pay_gt _ _ _ _ _ _ H) | reflexivity])
  | H : enter_pay _ _ _ = (_, ?fs) |- context [gseg ?fs ?w] =>
      rewrite (enter_pay_gt _ _ _ _ _ w H)
  | H : guard_drop_frames ?p ?d = ?fs |- context [gseg ?fs ?w] =>
      rewrite <- H; rewrite (guard_drop_gt p d w)
  | H : guard_into_frames ?p ?d = ?fs |- context [gseg ?fs ?w] =>
      rewrite <- H; rewrite (guard_into_gt p d w)
  end;
  cbn; rewrite ?Bool.implb_true_r; try reflexivity.

Ltac gt_fin :=
  first
    [ reflexivity
    | match goal with
      | H : with_exit _ _ = (_, ?nx) |- next_gt _ ?nx = true => apply (with_exit_gt _ _ _ _ _ H); reflexivity
      | H : fallback_entry _ _ _ = (_, ?nx) |- next_gt _ ?nx = true => exact (fallback_entry_gt _ _ _ _ _ H)
      | H : gen_step _ _ _ = (_, ?nx) |- next_gt _ ?nx = true => exact (gen_step_gt _ _ _ _ _ H)
      | H : load_body _ _ _ = (_, ?nx) |- next_gt _ ?nx = true => exact (load_body_gt _ _ _ _ _ H)
      | |- next_gt _ (help_dispatch _ _ _ _ _ _) = true => apply help_dispatch_gt
      | |- next_gt _ (after_slot _ _ _ _) = true => apply after_slot_gt
      | |- next_gt _ (dec_then _ _) = true => apply dec_then_gt; reflexivity
      end
    | gt_push ].

Lemma exec_gt cf s l p x s' l' evs nx :
  exec cf s l p x = (s', l', evs, nx) -> fok p = true -> next_gt (nr p) nx = true.
Proof.
  intros He Hf. destruct p; exec_norm He; cbn [nr]; try gt_fin.
  all: try (destruct r as [| | ? [?|] | |]; cbn; reflexivity).
Qed.

(** ** Resuming a waiting frame *)
Lemma rcu_attempt_gt cf l c m p d l' nx u : rcu_attempt cf l c m p d = (l', nx) -> next_gt u nx = true.
Proof.
  intros He. unfold rcu_attempt in He. destr_in He; try discriminate; injection He as <- <-; try gt_fin.
Qed.

Lemma resume_gt cf l w v l' nx :
  resume cf l w v = (l', nx) -> fok w = true -> next_gt (nr w) nx = true.
Proof.
  intros He Hf. destruct w; unfold resume in He; destr_in He; try discriminate.
  all: try (match type of He with rcu_attempt _ _ _ _ _ _ = _ => exact (rcu_attempt_gt _ _ _ _ _ _ _ _ _ He) end).
  all: try (injection He as <- <-); cbn [nr]; try gt_fin.
  - unfold pay_body. destruct (old =? 0); reflexivity.
  - destruct r as [| | ? [?|] | |]; reflexivity.
  - match goal with H : guard_into_frames p d = _ |- _ => unfold guard_into_frames in H; destr_in H; try discriminate; injection H as <- <- end; reflexivity.
  - match goal with H : (_ =? _) = true |- _ => rewrite H end. reflexivity.
Qed.

(** ** Replacing the top frame; unwinding *)
Definition gvok (v : retval) (rest : list pc) : Prop :=
  match rest with w :: _ => nacc w = true -> noclaim v = true | [] => noclaim v = true end.

Lemma gtyped_next w rest nx :
  gtyped (w :: rest) -> is_bottom_frame w = false -> next_gt (nr w) nx = true ->
  match nx with
  | NGoto p' => gtyped (p' :: rest)
  | NPush fs w0 => gtyped (fs ++ w0 :: rest)
  | NRet v => gtyped rest /\ (rest <> [] -> gvok v rest)
  | _ => True
  end.
Proof.
  intros (Hf & Hl & Ht) Hb Hn.
  assert (Hlink : forall q, is_bottom_frame q = false -> implb (nr w) (nr q) = true -> glink q rest).
  { intros q Hq Hi. destruct rest as [|w' rest']; cbn in *; [congruence|].
    split; [exact Hq|]. intros Hw. destruct Hl as [_ Hl]. rewrite (Hl Hw) in Hi. exact Hi. }
  destruct nx as [p'|fs w0|v|?|?]; cbn in Hn; try exact I.
  - apply andb_prop in Hn as [Hn H3]. apply andb_prop in Hn as [H1 H2]. apply Bool.negb_true_iff in H2.
    cbn. auto.
  - apply andb_prop in Hn as [Hn H4]. apply andb_prop in Hn as [Hn H3]. apply andb_prop in Hn as [H1 H2].
    apply Bool.negb_true_iff in H3. apply gtyped_push; [exact H1|]. cbn. auto.
  - split; [exact Ht|]. destruct rest as [|w' rest']; cbn in *; [congruence|].
    intros _ Hw. destruct Hl as [_ Hl]. rewrite (Hl Hw) in Hn. exact Hn.
Qed.

Lemma unwind_gt cf : forall rest l v,
  gtyped rest -> match unwind cf l rest v with UStack _ stk => gtyped stk | _ => True end.
Proof.
  induction rest as [|w rest IH]; intros l v Ht; [exact I|].
  destruct w; cbn [unwind]; try exact I.
  all: match goal with |- context [resume ?cf0 ?l0 ?w0 ?v0] =>
         destruct (resume cf0 l0 w0 v0) as [l' nx] eqn:Hr end.
  all: pose proof (gtyped_next _ _ _ Ht eq_refl (resume_gt _ _ _ _ _ _ Hr (proj1 Ht))) as Hn.
  all: destruct nx as [p'|fs w'|v'|ps|f]; try exact I; try exact Hn.
  all: apply IH; exact (proj1 Hn).
Qed.

Lemma exec_thread_gt cf s l p x s' l' evs nx th rest :
  exec cf s l p x = (s', l', evs, nx) -> gtyped (p :: rest) ->
  gtyped (t_stack (thread_after cf th l' rest nx)).
Proof.
  intros He Ht. destruct (is_bottom_frame p) eqn:Hb.
  - destruct p; try discriminate Hb; cbn in He; injection He as <- <- <- <-; cbn; exact (proj2 (proj2 Ht)).
  - pose proof (gtyped_next _ _ _ Ht Hb (exec_gt _ _ _ _ _ _ _ _ _ He (proj1 Ht))) as Hn.
    destruct nx as [p'|fs w'|v'|ps|f]; cbn; try exact Hn; try exact (proj2 (proj2 Ht)).
    pose proof (unwind_gt cf rest l' v' (proj1 Hn)) as Hu.
    destruct (unwind cf l' rest v'); cbn; exact Hu || exact I.
Qed.

(** ** Starting a command *)
Ltac gt_seg :=
  repeat match goal with
  | H : enter_load _ _ _ = inl (_, ?fs) |- gseg ?fs ?w = true => apply (enter_load_gt _ _ _ _ _ _ H); reflexivity
  | H : enter_pay _ _ _ = (_, ?fs) |- gseg ?fs ?w = true => apply (enter_pay_gt _ _ _ _ _ _ H)
  | H : guard_drop_frames ?p ?d = ?fs |- gseg ?fs ?w = true => rewrite <- H; apply guard_drop_gt
  | H : guard_into_frames ?p ?d = ?fs |- gseg ?fs ?w = true => rewrite <- H; apply guard_into_gt
  end.

Lemma cmd_start_gt cf s l c s' l' stk r :
  cmd_start cf s l c = inl (s', l', stk, r) -> gtyped stk.
Proof.
  intros Hc. destruct c; cbn in Hc; destr_in Hc; try discriminate; injection Hc as <- <- <- <-.
  all: try (cbn; intuition (reflexivity || discriminate); fail).
  all: try (apply gtyped_push; [gt_seg|cbn; intuition (reflexivity || discriminate)]; fail).
  all: try (match goal with |- gtyped (?p :: ?l0 ++ ?bs) => change (gtyped ((p :: l0) ++ bs)) end;
            apply gtyped_push; [gt_seg|cbn; intuition (reflexivity || discriminate)]).
Qed.
