(** * ASModel.Prot3 — claims of frames, of returned values and of [next]s; the helper
    functions of [Step] create no claims. *)
From Coq Require Import Lia.
From ASModel Require Import Base State Orderings_gen Step Run Progress Hist Inv InvTl InvProto InvStep Sum StepCases.
From ASModel Require Import GenDefs Gen1 AccDefs ProtDefs Prot1.

Definition ret_claims (v : retval) : list (slot * N) :=
  match v with RGuard q d => claim_of_guard q d | _ => [] end.

Definition sclaims (l : tlocal) (stk : list pc) : list (slot * N) := flat_map (frame_claims l) stk.

Definition nx_claims (l : tlocal) (nx : next) : list (slot * N) :=
  match nx with
  | NGoto p => frame_claims l p
  | NPush fs w => sclaims l fs ++ frame_claims l w
  | NRet v => ret_claims v
  | _ => []
  end.

(** The claim a frame step creates: the owner publishes a value in one of its slots. *)
Definition fresh (l : tlocal) (p : pc) (cl : slot * N) : Prop :=
  match p with
  | LA3 _ v j => cl = ((own_node l, j), v)
  | LH4 _ _ v => cl = ((own_node l, HSLOT), v)
  | _ => False
  end.

Lemma sclaims_app l a b : sclaims l (a ++ b) = sclaims l a ++ sclaims l b.
Proof. unfold sclaims. apply flat_map_app. Qed.

Lemma stack_claims_eq th : stack_claims th = sclaims (t_loc th) (t_stack th).
Proof. reflexivity. Qed.

Lemma frame_claims_waiting l l' q : is_waiting q = true -> frame_claims l q = frame_claims l' q.
Proof. destruct q; cbn; try discriminate; reflexivity. Qed.

Lemma sclaims_waiting l l' stk : all_waiting stk -> sclaims l stk = sclaims l' stk.
Proof.
  induction 1 as [|q stk Hq _ IH]; [reflexivity|]. unfold sclaims in *. cbn [flat_map]. rewrite IH, (frame_claims_waiting l l' q Hq). reflexivity.
Qed.

Lemma frame_claims_wexit l r : frame_claims l (WExit r) = ret_claims r.
Proof. destruct r; reflexivity. Qed.
Lemma frame_claims_pdec l a r : frame_claims l (PDec a r) = ret_claims r.
Proof. destruct r; reflexivity. Qed.

Lemma noclaim_ret v : noclaim v = true -> ret_claims v = [].
Proof. destruct v as [| | ? [?|] | |]; cbn; congruence. Qed.

Lemma handle_of_claims v : handle_claims (handle_of v) = ret_claims v.
Proof. destruct v; reflexivity. Qed.

(** ** Helper functions *)
Lemma with_exit_claims l r l' nx l2 : with_exit l r = (l', nx) -> nx_claims l2 nx = ret_claims r.
Proof.
  unfold with_exit. intros H. destr_in H; injection H as <- <-; cbn; try reflexivity.
  all: try apply frame_claims_wexit.
  all: try (rewrite frame_claims_wexit; reflexivity).
Qed.

Lemma fallback_entry_claims cf l c l' nx l2 : fallback_entry cf l c = (l', nx) -> nx_claims l2 nx = [].
Proof. unfold fallback_entry. intros H. destr_in H; injection H as <- <-; reflexivity. Qed.
Lemma gen_step_claims cf l c l' nx l2 : gen_step cf l c = (l', nx) -> nx_claims l2 nx = [].
Proof. unfold gen_step. intros H. destr_in H; injection H as <- <-; reflexivity. Qed.
Lemma load_body_claims cf l c l' nx l2 : load_body cf l c = (l', nx) -> nx_claims l2 nx = [].
Proof. unfold load_body. destruct (cf_use_fast cf); [intros [= <- <-]; reflexivity|apply fallback_entry_claims]. Qed.

Lemma enter_load_claims cf l c l' fs l2 : enter_load cf l c = inl (l', fs) -> sclaims l2 fs = [].
Proof.
  unfold enter_load. intros H. destruct (tl_node l).
  - destruct (load_body cf (tl_set_depth l (tl_depth l + 1)) c) as [l3 nx] eqn:Hb.
    apply (load_body_claims _ _ _ _ _ l2) in Hb. destruct nx; try discriminate. injection H as <- <-.
    cbn in *. rewrite Hb. reflexivity.
  - injection H as <- <-. reflexivity.
Qed.

Lemma enter_pay_claims l c old l' fs l2 : enter_pay l c old = (l', fs) -> sclaims l2 fs = [].
Proof. unfold enter_pay, pay_body. intros H. destr_in H; injection H as <- <-; reflexivity. Qed.

Lemma guard_drop_claims p d l2 : sclaims l2 (guard_drop_frames p d) = claim_of_guard p d.
Proof. unfold guard_drop_frames. destruct d; [|destruct (p =? 0)]; reflexivity. Qed.
Lemma guard_into_claims p d l2 : sclaims l2 (guard_into_frames p d) = claim_of_guard p d.
Proof. unfold guard_into_frames. destruct d; [destruct (p =? 0)|]; reflexivity. Qed.

Lemma help_dispatch_claims cf l c old w ctl l2 : nx_claims l2 (help_dispatch cf l c old w ctl) = [].
Proof. unfold help_dispatch. repeat match goal with |- context [if ?b then _ else _] => destruct b end; reflexivity. Qed.
Lemma after_slot_claims c old w j l2 : nx_claims l2 (after_slot c old w j) = [].
Proof. unfold after_slot. destruct (j =? HSLOT); reflexivity. Qed.
Lemma dec_then_claims a r l2 : nx_claims l2 (dec_then a r) = ret_claims r.
Proof. unfold dec_then. destruct (a =? 0); [reflexivity|]. apply frame_claims_pdec. Qed.

(** Rewriting the claims of a [next] that was produced by helper functions. *)
Ltac claims_simp :=
  repeat match goal with
  | H : with_exit _ _ = (_, ?nx) |- context [nx_claims ?l2 ?nx] => rewrite (with_exit_claims _ _ _ _ l2 H)
  | H : fallback_entry _ _ _ = (_, ?nx) |- context [nx_claims ?l2 ?nx] => rewrite (fallback_entry_claims _ _ _ _ _ l2 H)
  | H : gen_step _ _ _ = (_, ?nx) |- context [nx_claims ?l2 ?nx] => rewrite (gen_step_claims _ _ _ _ _ l2 H)
  | H : load_body _ _ _ = (_, ?nx) |- context [nx_claims ?l2 ?nx] => rewrite (load_body_claims _ _ _ _ _ l2 H)
  | |- context [nx_claims ?l2 (help_dispatch _ _ _ _ _ _)] => rewrite help_dispatch_claims
  | |- context [nx_claims ?l2 (after_slot _ _ _ _)] => rewrite after_slot_claims
  | |- context [nx_claims ?l2 (dec_then _ _)] => rewrite dec_then_claims
  end;
  cbn [nx_claims]; rewrite ?sclaims_app;
  repeat match goal with
  | H : enter_load _ _ _ = inl (_, ?fs) |- context [sclaims ?l2 ?fs] => rewrite (enter_load_claims _ _ _ _ _ l2 H)
  | H : enter_pay _ _ _ = (_, ?fs) |- context [sclaims ?l2 ?fs] => rewrite (enter_pay_claims _ _ _ _ _ l2 H)
  | H : guard_drop_frames ?p ?d = ?fs |- context [sclaims ?l2 ?fs] => rewrite <- H, (guard_drop_claims p d l2)
  | H : guard_into_frames ?p ?d = ?fs |- context [sclaims ?l2 ?fs] => rewrite <- H, (guard_into_claims p d l2)
  end.
