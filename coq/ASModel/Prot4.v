(** * ASModel.Prot4 — what one frame step does to the claims of the frame. *)
From Coq Require Import Lia.
From ASModel Require Import Base State Orderings_gen Step Run Progress Hist Inv InvTl InvProto InvStep Sum StepCases.
From ASModel Require Import GenDefs Gen1 AccDefs ProtDefs Prot1 Prot3.

(** Every claim after the step was a claim of the frame, or is the publication just made. *)
Lemma exec_claims_bwd cf s l p x s' l' evs nx :
  exec cf s l p x = (s', l', evs, nx) -> ~ nx_stops nx ->
  forall cl, In cl (nx_claims l' nx) -> In cl (frame_claims l p) \/ fresh l p cl.
Proof.
  intros He Hns cl. destruct p; exec_norm He; try (exfalso; apply Hns; exact I); clear Hns.
  all: claims_simp.
  all: cbn [frame_claims sclaims flat_map app fresh ret_claims].
  all: try (intros []; fail).
  all: try (intros H; left; exact H).
  - intros [<-|[]]. right. reflexivity.
  - intros [<-|[]]. right. reflexivity.
  - rewrite app_nil_r. intros H; left; exact H.
Qed.

(** A claim of the frame is kept, or its slot no longer holds the value. *)
Lemma exec_claims_fwd cf s l p x s' l' evs nx :
  exec cf s l p x = (s', l', evs, nx) -> ~ nx_stops nx ->
  forall sl a, In (sl, a) (frame_claims l p) -> valid a ->
  In (sl, a) (nx_claims l' nx) \/ mem s' (slot_loc sl) <> a.
Proof.
  intros He Hns sl a Hin Hv.
  destruct p; try (destruct Hin; fail); exec_norm He; try (exfalso; apply Hns; exact I); clear Hns.
  all: claims_simp.
  all: cbn [frame_claims sclaims flat_map app fresh ret_claims] in *.
  all: try (left; exact Hin).
  all: try (rewrite app_nil_r; left; exact Hin).
  all: cbn [claim_of_guard In] in Hin; try contradiction.
  all: try (match goal with H : guard_drop_frames _ ?d = [] |- _ => destruct d; [discriminate H|destruct Hin] end).
  all: destruct Hin as [Hin|[]]; injection Hin as <- <-; right; unfold slot_loc in *; cbn [mem m_set fst snd] in *.
  all: try (rewrite upd_same; destruct Hv as [_ Hv]; congruence).
  all: try (intros E; rewrite E, N.eqb_refl in *; discriminate).
Qed.

(** ** Resuming a waiting frame keeps exactly the claims of the frame and of the value *)
Lemma rcu_attempt_claims cf l c m p d l' nx :
  rcu_attempt cf l c m p d = (l', nx) -> ~ nx_stops nx ->
  forall l2 cl, In cl (nx_claims l2 nx) <-> In cl (claim_of_guard p d).
Proof.
  intros He Hns l2 cl. unfold rcu_attempt in He. destr_in He; try discriminate; injection He as <- <-; try (exfalso; apply Hns; exact I); clear Hns.
  all: claims_simp.
  all: cbn [frame_claims sclaims flat_map app ret_claims].
  all: rewrite ?app_nil_r; try tauto.
  all: try (match goal with H : guard_drop_frames _ ?d = [] |- _ => destruct d; [discriminate H|cbn; tauto] end).
Qed.

Lemma resume_claims cf l w v l' nx :
  resume cf l w v = (l', nx) -> ~ nx_stops nx -> (nacc w = true -> noclaim v = true) ->
  forall l2 cl, In cl (nx_claims l2 nx) <-> In cl (frame_claims l w ++ ret_claims v).
Proof.
  intros He Hns Hacc l2 cl. destruct w; unfold resume in He; destr_in He; try discriminate.
  all: try (match type of He with rcu_attempt _ _ _ _ _ _ = _ =>
              rewrite (rcu_attempt_claims _ _ _ _ _ _ _ _ He Hns l2 cl) end).
  all: try (injection He as <- <-); try (exfalso; apply Hns; exact I); clear Hns.
  all: try (rewrite (noclaim_ret _ (Hacc eq_refl))).
  all: claims_simp.
  all: cbn [frame_claims sclaims flat_map app ret_claims].
  all: rewrite ?app_nil_r; try tauto.
  all: try (unfold pay_body; destruct (_ =? 0); cbn; tauto).
  all: repeat match goal with
       | H : guard_drop_frames _ ?d = [] |- _ => destruct d; [discriminate H|clear H]
       | H : guard_into_frames _ ?d = [] |- _ => destruct d; [unfold guard_into_frames in H; destr_in H; discriminate H|clear H]
       | H : guard_into_frames _ ?d = _ :: _ |- _ =>
           unfold guard_into_frames in H; destr_in H; try discriminate H; injection H as <- <-
       end.
  all: cbn [claim_of_guard frame_claims app]; rewrite ?app_nil_r; try tauto.
  all: try (rewrite !in_app_iff; tauto).
  all: rewrite in_app_iff; cbn [In]; tauto.
Qed.
