(** * ASModel.Prot5 — unwinding keeps exactly the claims of the popped frames and of the
    returned value: they end up in the remaining stack or in the destination handle. *)
From Coq Require Import Lia.
From ASModel Require Import Base State Orderings_gen Step Run Progress Hist Inv InvTl InvProto InvStep Sum StepCases.
From ASModel Require Import GenDefs Gen1 AccDefs ProtDefs Prot1 Prot2 Prot3 Prot4.

Definition uclaims (u : unwound) : list (slot * N) :=
  match u with
  | UStack l' stk => sclaims l' stk
  | UDone _ (Some (_, hv)) _ => handle_claims hv
  | _ => []
  end.

Lemma unwind_nonbottom cf l w rest v : is_bottom_frame w = false ->
  unwind cf l (w :: rest) v =
    match resume cf l w v with
    | (l', NGoto p) => UStack l' (p :: rest)
    | (l', NPush frames wait) => UStack l' (frames ++ wait :: rest)
    | (l', NRet v') => unwind cf l' rest v'
    | (l', NPanic s) => UPanic l' s
    | (l', NFault f) => UFault l' f
    end.
Proof. intros Hb. destruct w; try discriminate Hb; reflexivity. Qed.

Lemma gtyped_bottom_last w rest : gtyped (w :: rest) -> is_bottom_frame w = true -> rest = [].
Proof. intros (_ & Hl & _) Hb. destruct rest; [reflexivity|]. cbn in Hl. destruct Hl as [Hl _]. congruence. Qed.

Lemma unwind_claims cf : forall rest l v,
  all_waiting rest -> gtyped rest -> gvok v rest ->
  (forall l2 ps, unwind cf l rest v <> UPanic l2 ps) ->
  (forall l2 f, unwind cf l rest v <> UFault l2 f) ->
  forall cl, In cl (uclaims (unwind cf l rest v)) <-> In cl (ret_claims v ++ sclaims l rest).
Proof.
  induction rest as [|w rest IH]; intros l v Hw Ht Hv Hnp Hnf cl.
  - cbn in *. rewrite (noclaim_ret _ Hv). tauto.
  - inversion Hw as [|? ? Hww Hwr]; subst.
    destruct (is_bottom_frame w) eqn:Hb.
    + pose proof (gtyped_bottom_last _ _ Ht Hb) as ->.
      destruct w; try discriminate Hb; cbn [unwind uclaims sclaims flat_map frame_claims app].
      all: try (match goal with H : is_bottom_frame (KDone ?d) = true |- _ => destruct d end).
      all: cbn in Hv.
      all: try (rewrite handle_of_claims, app_nil_r; tauto).
      all: rewrite (noclaim_ret _ (Hv eq_refl)); try tauto.
      destruct v; cbn; tauto.
    + rewrite (unwind_nonbottom _ _ _ _ _ Hb) in *.
      destruct (resume cf l w v) as [l' nx] eqn:Hr.
      pose proof (gtyped_next _ _ _ Ht Hb (resume_gt _ _ _ _ _ _ Hr (proj1 Ht))) as Hn.
      assert (Hacc : nacc w = true -> noclaim v = true) by exact Hv.
      assert (Hrest : sclaims l' rest = sclaims l rest) by (apply sclaims_waiting; exact Hwr).
      destruct nx as [p'|fs w'|v'|ps|f].
      * pose proof (resume_claims _ _ _ _ _ _ Hr (fun H => H) Hacc l' cl) as Hc. cbn [nx_claims] in Hc.
        cbn [uclaims]. change (sclaims l' (p' :: rest)) with (frame_claims l' p' ++ sclaims l' rest).
        change (sclaims l (w :: rest)) with (frame_claims l w ++ sclaims l rest).
        rewrite Hrest, !in_app_iff in *. tauto.
      * pose proof (resume_claims _ _ _ _ _ _ Hr (fun H => H) Hacc l' cl) as Hc. cbn [nx_claims] in Hc.
        cbn [uclaims]. change (fs ++ w' :: rest) with (fs ++ [w'] ++ rest). rewrite !sclaims_app.
        change (sclaims l' [w']) with (frame_claims l' w' ++ []).
        change (sclaims l (w :: rest)) with (frame_claims l w ++ sclaims l rest).
        rewrite Hrest, app_nil_r, !in_app_iff in *. tauto.
      * pose proof (resume_claims _ _ _ _ _ _ Hr (fun H => H) Hacc l' cl) as Hc. cbn [nx_claims] in Hc.
        destruct Hn as [Ht' Hv'].
        assert (Hne : rest <> []).
        { intros ->. destruct Ht as (_ & Hl & _). cbn in Hl. congruence. }
        rewrite (IH l' v' Hwr Ht' (Hv' Hne) Hnp Hnf cl).
        change (sclaims l (w :: rest)) with (frame_claims l w ++ sclaims l rest).
        rewrite Hrest, !in_app_iff in *. tauto.
      * exfalso. eapply Hnp. reflexivity.
      * exfalso. eapply Hnf. reflexivity.
Qed.
