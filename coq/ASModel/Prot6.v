(** * ASModel.Prot6 — [PayShape]: a walk for [old] sits directly on the frame that owns the
    removed value. *)
From Coq Require Import Lia.
From ASModel Require Import Base State Orderings_gen Step Run Progress Hist Inv InvTl InvProto InvStep Sum StepCases.
From ASModel Require Import GenDefs Gen1 AccDefs ProtDefs.

Definition po (p : pc) (q : option pc) : bool :=
  match pay_old p with
  | Some o => (o =? 0) || match q with Some q => owns_old o q | None => false end
  | None => true
  end.

Lemma pay_shape_cons p rest : pay_shape (p :: rest) = po p (hd_error rest) && pay_shape rest.
Proof. unfold po. cbn. destruct (pay_old p); destruct rest; reflexivity. Qed.

(** [p'] replaces [p]: it is no pay frame or a pay frame for the same value. *)
Definition pay_leb (p' p : pc) : bool :=
  match pay_old p' with
  | None => true
  | Some o => match pay_old p with Some o' => o =? o' | None => false end
  end.

Fixpoint pseg (fs : list pc) (w : pc) : bool :=
  match fs with
  | [] => true
  | f :: fs' => po f (Some (hd w fs')) && pseg fs' w
  end.

Definition nopay (fs : list pc) : bool :=
  forallb (fun f => match pay_old f with None => true | Some _ => false end) fs.

Definition nx_pay (p : pc) (nx : next) : bool :=
  match nx with
  | NGoto p' => pay_leb p' p
  | NPush fs w => pseg fs w && pay_leb w p
  | _ => true
  end.

Lemma po_le p' p q : pay_leb p' p = true -> po p q = true -> po p' q = true.
Proof.
  unfold pay_leb, po. destruct (pay_old p') as [o|]; [|reflexivity].
  destruct (pay_old p) as [o'|]; [|discriminate]. intros E. apply N.eqb_eq in E as ->. auto.
Qed.

Lemma pseg_nopay fs gs w : nopay fs = true -> pseg (fs ++ gs) w = pseg gs w.
Proof.
  induction fs as [|f fs IH]; [reflexivity|]. cbn. intros H. apply andb_prop in H as [H1 H2].
  rewrite (IH H2). unfold po. destruct (pay_old f); [discriminate|reflexivity].
Qed.

Lemma pay_shape_push fs w rest : pseg fs w = true -> pay_shape (w :: rest) = true -> pay_shape (fs ++ w :: rest) = true.
Proof.
  induction fs as [|f fs IH]; intros H1 H2; [exact H2|]. cbn [pseg] in H1. apply andb_prop in H1 as [H1 H1'].
  cbn [app]. rewrite pay_shape_cons, (IH H1' H2), Bool.andb_true_r.
  replace (hd_error (fs ++ w :: rest)) with (Some (hd w fs)) by (destruct fs; reflexivity). exact H1.
Qed.

Lemma pay_shape_next p rest nx :
  pay_shape (p :: rest) = true -> nx_pay p nx = true ->
  pay_shape (nx_frames nx ++ rest) = true.
Proof.
  rewrite pay_shape_cons. intros H Hn. apply andb_prop in H as [H1 H2].
  destruct nx as [p'|fs w|v|?|?]; cbn [nx_frames app]; try exact H2.
  - rewrite pay_shape_cons, H2, Bool.andb_true_r. eapply po_le; eassumption.
  - cbn in Hn. apply andb_prop in Hn as [Hs Hl]. rewrite <- app_assoc. cbn [app].
    apply pay_shape_push; [exact Hs|]. rewrite pay_shape_cons, H2, Bool.andb_true_r. eapply po_le; eassumption.
Qed.

(** ** Helper functions *)
Lemma with_exit_pay l r l' nx p : with_exit l r = (l', nx) -> nx_pay p nx = true.
Proof. unfold with_exit. intros H. destr_in H; injection H as <- <-; reflexivity. Qed.
Lemma fallback_entry_pay cf l c l' nx p : fallback_entry cf l c = (l', nx) -> nx_pay p nx = true.
Proof. unfold fallback_entry. intros H. destr_in H; injection H as <- <-; reflexivity. Qed.
Lemma gen_step_pay cf l c l' nx p : gen_step cf l c = (l', nx) -> nx_pay p nx = true.
Proof. unfold gen_step. intros H. destr_in H; injection H as <- <-; reflexivity. Qed.
Lemma load_body_pay cf l c l' nx p : load_body cf l c = (l', nx) -> nx_pay p nx = true.
Proof. unfold load_body. destruct (cf_use_fast cf); [intros [= <- <-]; reflexivity|apply fallback_entry_pay]. Qed.

Lemma enter_load_nopay cf l c l' fs : enter_load cf l c = inl (l', fs) -> nopay fs = true.
Proof.
  unfold enter_load. intros H. destruct (tl_node l); [|injection H as <- <-; reflexivity].
  destruct (load_body cf (tl_set_depth l (tl_depth l + 1)) c) as [l2 nx] eqn:Hb.
  apply (load_body_pay _ _ _ _ _ GHead) in Hb. destruct nx; try discriminate. injection H as <- <-.
  cbn in *. unfold pay_leb in Hb. destruct (pay_old p); [discriminate|reflexivity].
Qed.

Lemma enter_pay_pseg l c old l' fs w : enter_pay l c old = (l', fs) -> owns_old old w = true -> pseg fs w = true.
Proof.
  unfold enter_pay, pay_body. intros H Hw. destr_in H; injection H as <- <-; cbn; unfold po; cbn; rewrite Hw, ?Bool.orb_true_r; reflexivity.
Qed.

Lemma guard_drop_nopay p d : nopay (guard_drop_frames p d) = true.
Proof. unfold guard_drop_frames. destruct d; [|destruct (p =? 0)]; reflexivity. Qed.
Lemma guard_into_nopay p d : nopay (guard_into_frames p d) = true.
Proof. unfold guard_into_frames. destruct d; [destruct (p =? 0)|]; reflexivity. Qed.

Lemma help_dispatch_pay cf l c old w ctl p : pay_old p = Some old -> nx_pay p (help_dispatch cf l c old w ctl) = true.
Proof.
  intros Hp. unfold help_dispatch.
  repeat match goal with |- context [if ?b then _ else _] => destruct b end; cbn; unfold pay_leb; cbn; rewrite ?Hp, ?N.eqb_refl; reflexivity.
Qed.
Lemma after_slot_pay c old w j p : pay_old p = Some old -> nx_pay p (after_slot c old w j) = true.
Proof. intros Hp. unfold after_slot. destruct (j =? HSLOT); cbn; unfold pay_leb; cbn; rewrite Hp, N.eqb_refl; reflexivity. Qed.
Lemma dec_then_pay a r p : nx_pay p (dec_then a r) = true.
Proof. unfold dec_then. destruct (a =? 0); reflexivity. Qed.

Lemma pseg_nopay_nil fs w : nopay fs = true -> pseg fs w = true.
Proof. intros H. rewrite <- (app_nil_r fs), (pseg_nopay fs [] w H). reflexivity. Qed.

(** ** Frame steps and resumption *)
Ltac pay_fin :=
  first
    [ reflexivity
    | match goal with
      | H : with_exit _ _ = (_, ?nx) |- nx_pay _ ?nx = true => exact (with_exit_pay _ _ _ _ _ H)
      | H : fallback_entry _ _ _ = (_, ?nx) |- nx_pay _ ?nx = true => exact (fallback_entry_pay _ _ _ _ _ _ H)
      | H : gen_step _ _ _ = (_, ?nx) |- nx_pay _ ?nx = true => exact (gen_step_pay _ _ _ _ _ _ H)
      | H : load_body _ _ _ = (_, ?nx) |- nx_pay _ ?nx = true => exact (load_body_pay _ _ _ _ _ _ H)
      | |- nx_pay _ (help_dispatch _ _ _ _ _ _) = true => apply help_dispatch_pay; reflexivity
      | |- nx_pay _ (after_slot _ _ _ _) = true => apply after_slot_pay; reflexivity
      | |- nx_pay _ (dec_then _ _) = true => apply dec_then_pay
      end
    | cbn [nx_pay];
      repeat match goal with
      | H : enter_load _ _ _ = inl (_, ?fs) |- context [pseg (?fs ++ ?gs) ?w] =>
          rewrite (pseg_nopay fs gs w (enter_load_nopay _ _ _ _ _ H))
      | H : enter_load _ _ _ = inl (_, ?fs) |- context [pseg ?fs ?w] =>
          rewrite (pseg_nopay_nil fs w (enter_load_nopay _ _ _ _ _ H))
      | H : enter_pay _ _ _ = (_, ?fs) |- context [pseg ?fs ?w] =>
          rewrite (enter_pay_pseg _ _ _ _ _ w H) by (cbn; apply N.eqb_refl)
      | H : guard_drop_frames ?p ?d = ?fs |- context [pseg ?fs ?w] =>
          rewrite <- H, (pseg_nopay_nil _ w (guard_drop_nopay p d))
      | H : guard_into_frames ?p ?d = ?fs |- context [pseg ?fs ?w] =>
          rewrite <- H, (pseg_nopay_nil _ w (guard_into_nopay p d))
      end;
      cbn; unfold pay_leb; cbn; rewrite ?N.eqb_refl; reflexivity ].

Lemma exec_pay cf s l p x s' l' evs nx :
  exec cf s l p x = (s', l', evs, nx) -> nx_pay p nx = true.
Proof.
  intros He. destruct p; exec_norm He; try pay_fin.
Qed.

Lemma rcu_attempt_pay cf l c m p d l' nx q : rcu_attempt cf l c m p d = (l', nx) -> nx_pay q nx = true.
Proof.
  intros He. unfold rcu_attempt in He. destr_in He; try discriminate; injection He as <- <-; try pay_fin.
Qed.

Lemma resume_pay cf l w v l' nx : resume cf l w v = (l', nx) -> nx_pay w nx = true.
Proof.
  intros He. destruct w; unfold resume in He; destr_in He; try discriminate.
  all: try (match type of He with rcu_attempt _ _ _ _ _ _ = _ => exact (rcu_attempt_pay _ _ _ _ _ _ _ _ _ He) end).
  all: try (injection He as <- <-); try pay_fin.
  - unfold pay_body. destruct (old =? 0); cbn; unfold pay_leb; cbn; apply N.eqb_refl.
  - match goal with H : guard_into_frames p d = _ |- _ => unfold guard_into_frames in H; destr_in H; try discriminate; injection H as <- <- end; reflexivity.
Qed.

(** ** The settled stack; command starts *)
Lemma settle_pay_shape cf l rest nx l2 stk st :
  settle cf l rest nx l2 stk st -> pay_shape (nx_frames nx ++ rest) = true -> pay_shape stk = true.
Proof.
  induction 1 as [l rest p|l rest fs w|l v|l v b post Hb Hne|l v post|l v w rest l' nx l'' stk st Hb Hr Hs IH];
    intros H; try reflexivity.
  - exact H.
  - cbn [nx_frames] in H. rewrite <- app_assoc in H. exact H.
  - apply IH. apply (pay_shape_next w rest nx H). eapply resume_pay. exact Hr.
Qed.

Lemma pay_shape_nopay fs rest : nopay fs = true -> pay_shape (fs ++ rest) = pay_shape rest.
Proof.
  induction fs as [|f fs IH]; [reflexivity|]. cbn [nopay forallb app]. intros H. apply andb_prop in H as [H1 H2].
  rewrite pay_shape_cons, (IH H2). unfold po. destruct (pay_old f); [discriminate|reflexivity].
Qed.

Lemma cmd_start_pay cf s l c s' l' stk r :
  cmd_start cf s l c = inl (s', l', stk, r) -> pay_shape stk = true.
Proof.
  intros Hc. destruct c; cbn in Hc; destr_in Hc; try discriminate; injection Hc as <- <- <- <-.
  all: try reflexivity.
  all: repeat match goal with
       | H : enter_load _ _ _ = inl (_, ?fs) |- context [pay_shape (?fs ++ _)] =>
           rewrite (pay_shape_nopay fs _ (enter_load_nopay _ _ _ _ _ H))
       | H : guard_drop_frames ?p ?d = ?fs |- context [pay_shape (?f :: ?fs' ++ ?r)] =>
           change (f :: fs' ++ r) with ((f :: fs') ++ r); rewrite <- H, (pay_shape_nopay _ _ (guard_drop_nopay p d))
       | H : guard_into_frames ?p ?d = ?fs |- context [pay_shape (?f :: ?fs' ++ ?r)] =>
           change (f :: fs' ++ r) with ((f :: fs') ++ r); rewrite <- H, (pay_shape_nopay _ _ (guard_into_nopay p d))
       end; try reflexivity.
  all: try (match goal with H : enter_pay _ _ _ = (_, ?fs) |- pay_shape (?fs ++ ?w :: ?rest) = true =>
              apply pay_shape_push; [apply (enter_pay_pseg _ _ _ _ _ w H); cbn; apply N.eqb_refl|reflexivity] end).
Qed.
