(** * ASModel.Prot7 — pay frames that cover a slot or a request stay in the stack (they are
    only replaced by their own continuation), and the step of a covering frame keeps the cover. *)
From Coq Require Import Lia.
From ASModel Require Import Base State Orderings_gen Step Run Progress Hist Inv InvTl InvProto InvStep Sum StepCases.
From ASModel Require Import GenDefs Gen1 Gen2 AccDefs ProtDefs Prot6.

Definition Cs (a n j : N) (q : pc) : bool := pay_frame_of a q && covers_slot n j q.
Definition Ch (cand n c gt : N) (q : pc) : bool := pay_frame_of cand q && covers_help n c gt q.

Record keepable (C : pc -> bool) : Prop := {
  k_get : forall c o, C (WGetPay c o) = true -> C (pay_body o c) = true;
  k_help : forall c o w ctl r, C (WHelpRepl c o w ctl) = true -> C (PE4 c o w ctl r) = true;
  k_pay : forall q, C q = true -> pay_old q <> None;
}.

Lemma Cs_keepable a n j : keepable (Cs a n j).
Proof.
  constructor.
  - intros c o. unfold Cs, pay_body, pay_frame_of. cbn. destruct (o =? 0); cbn; rewrite !Bool.andb_true_r; auto.
  - intros c o w ctl r. unfold Cs, pay_frame_of. cbn. auto.
  - intros q H Hn. unfold Cs, pay_frame_of in H. rewrite Hn in H. discriminate.
Qed.

Lemma Ch_keepable cand n c gt : keepable (Ch cand n c gt).
Proof.
  constructor.
  - intros c' o. unfold Ch, pay_body, pay_frame_of. cbn. destruct (o =? 0); cbn; auto.
  - intros c' o w ctl r. unfold Ch, pay_frame_of. cbn. auto.
  - intros q H Hn. unfold Ch, pay_frame_of in H. rewrite Hn in H. discriminate.
Qed.

Lemma resume_keep C cf l w v l' nx :
  keepable C -> resume cf l w v = (l', nx) -> ~ nx_stops nx -> C w = true ->
  exists f, nx = NGoto f /\ C f = true.
Proof.
  intros K Hr Hns Hc. pose proof (k_pay _ K _ Hc) as Hp.
  destruct w; try (exfalso; apply Hp; reflexivity); cbn in Hr; destr_in Hr; injection Hr as <- <-;
    try (exfalso; apply Hns; exact I).
  - eexists. split; [reflexivity|]. apply (k_get _ K). exact Hc.
  - eexists. split; [reflexivity|]. apply (k_help _ K). exact Hc.
Qed.

Lemma settle_keep C cf l rest nx l2 stk st :
  keepable C -> settle cf l rest nx l2 stk st -> bl rest ->
  (exists q, In q rest /\ C q = true) -> exists q, In q stk /\ C q = true.
Proof.
  intros K. induction 1 as [l rest p|l rest fs w|l v|l v b post Hb Hne|l v post|l v w rest l' nx l'' stk st Hb Hr Hs IH];
    intros Hbl (q & Hin & Hc).
  - exists q. split; [right; exact Hin|exact Hc].
  - exists q. split; [|exact Hc]. apply in_or_app. right. right. exact Hin.
  - destruct Hin.
  - exfalso. destruct Hbl as [Hp _]. rewrite (Hp Hb) in Hin. destruct Hin as [<-|[]].
    apply (k_pay _ K _ Hc). destruct b; try discriminate Hb; reflexivity.
  - exfalso. destruct Hbl as [Hp _]. rewrite (Hp eq_refl) in Hin. destruct Hin as [<-|[]].
    apply (k_pay _ K _ Hc). reflexivity.
  - destruct Hbl as [_ Hbl]. destruct Hin as [<-|Hin].
    + destruct (resume_keep C _ _ _ _ _ _ K Hr (settle_stops _ _ _ _ _ _ _ Hs) Hc) as (f & -> & Hf).
      inversion Hs; subst. exists f. split; [left; reflexivity|exact Hf].
    + apply IH; [exact Hbl|]. exists q. auto.
Qed.

(** The frames of a [next] that does not return are in the settled stack. *)
Lemma settle_nx_in cf l rest nx l2 stk st :
  settle cf l rest nx l2 stk st -> forall f, In f (nx_frames nx) -> In f stk.
Proof.
  intros H f Hin. inversion H; subst; cbn in Hin; try (destruct Hin; fail).
  - destruct Hin as [<-|[]]. left. reflexivity.
  - apply in_or_app. apply in_app_or in Hin as [Hin|[<-|[]]]; [left; exact Hin|right; left; reflexivity].
Qed.

Lemma help_dispatch_gen cf l c old w ctl :
  is_gen ctl -> help_dispatch cf l c old w ctl = NGoto (PE2 c old w ctl) \/ nx_stops (help_dispatch cf l c old w ctl).
Proof.
  unfold is_gen, help_dispatch. intros ->. cbn.
  destruct (cf_debug cf && _); [right; exact I|left; reflexivity].
Qed.

(** ** The step of a frame that covers a slot *)
Ltac b2p :=
  repeat match goal with
  | H : (_ && _) = true |- _ => apply andb_prop in H; destruct H
  | H : (_ || _) = true |- _ => apply Bool.orb_true_iff in H
  | H : (_ =? _) = true |- _ => apply N.eqb_eq in H
  | H : (_ <=? _) = true |- _ => apply N.leb_le in H
  | H : (_ <? _) = true |- _ => apply N.ltb_lt in H
  | H : (_ =? _) = false |- _ => apply N.eqb_neq in H
  | H : (_ && _) = false |- _ => apply Bool.andb_false_iff in H
  | H : negb _ = true |- _ => apply Bool.negb_true_iff in H
  | H : negb _ = false |- _ => apply Bool.negb_false_iff in H
  end.

Lemma Cs_intro a n j f : pay_old f = Some a -> covers_slot n j f = true -> Cs a n j f = true.
Proof. intros H1 H2. unfold Cs, pay_frame_of. rewrite H1, H2, N.eqb_refl. reflexivity. Qed.

Ltac cov_goal :=
  cbn [covers_slot covers_help]; b2p;
  repeat match goal with
         | |- (_ && _) = true => apply andb_true_intro; split
         | |- (_ =? _) = true => apply N.eqb_eq
         | |- (_ <=? _) = true => apply N.leb_le
         | |- (_ <? _) = true => apply N.ltb_lt
         end.

Lemma dispatch_Cs cf l c a w ctl n j :
  n <= w -> ~ nx_stops (help_dispatch cf l c a w ctl) ->
  exists f, In f (nx_frames (help_dispatch cf l c a w ctl)) /\ Cs a n j f = true.
Proof.
  intros Hle Hns. destruct (help_dispatch_cases cf l c a w ctl) as [H|[->|[_ ->]]]; [contradiction|..];
    (eexists; split; [left; reflexivity|]; apply Cs_intro; [reflexivity|]; cbn [covers_slot]).
  - destruct (N.eq_dec n w) as [->|Hne].
    + rewrite N.eqb_refl. replace (0 <=? j) with true by (symmetry; apply N.leb_le; lia). apply Bool.orb_true_r.
    + replace (n <? w) with true by (symmetry; apply N.ltb_lt; lia). reflexivity.
  - apply N.leb_le. exact Hle.
Qed.

Lemma after_slot_Cs c a w j0 n j :
  j <= HSLOT -> (n < w \/ (n = w /\ j0 < j)) ->
  exists f, In f (nx_frames (after_slot c a w j0)) /\ Cs a n j f = true.
Proof.
  intros Hj H. unfold after_slot. destruct (N.eqb_spec j0 HSLOT) as [->|Hne];
    (eexists; split; [left; reflexivity|]; apply Cs_intro; [reflexivity|]; cbn [covers_slot]).
  - apply N.ltb_lt. lia.
  - destruct H as [H|[-> H]].
    + replace (n <? w) with true by (symmetry; apply N.ltb_lt; lia). reflexivity.
    + rewrite N.eqb_refl. replace (j0 + 1 <=? j) with true by (symmetry; apply N.leb_le; lia). apply Bool.orb_true_r.
Qed.

Lemma upd_slot_ne s w j0 n j a :
  mem (m_set s (LSlot w j0) NONE) (LSlot n j) = a -> a <> NONE -> ~ (n = w /\ j = j0).
Proof. intros H Ha [-> ->]. cbn in H. rewrite upd_same in H. congruence. Qed.

Lemma PS_strict n w j0 j : (n <? w) || (n =? w) && (j0 <=? j) = true -> ~ (n = w /\ j = j0) ->
  n < w \/ (n = w /\ j0 < j).
Proof. intros H Hne. b2p. destruct H as [H|H]; b2p; [left; lia|]. right. split; [assumption|]. lia. Qed.

Lemma exec_cover_slot cf s l p x s' l' evs nx a n j :
  exec cf s l p x = (s', l', evs, nx) -> ~ nx_stops nx ->
  Cs a n j p = true -> a <> 0 -> a <> NONE -> n < mem s LHead -> j <= HSLOT ->
  mem s (LSlot n j) = a -> mem s' (LSlot n j) = a ->
  exists f, In f (nx_frames nx) /\ Cs a n j f = true.
Proof.
  intros He Hns HC Ha0 Ha3 Hn Hj Hm Hm'. unfold Cs, pay_frame_of in HC.
  destruct p; try discriminate HC; cbn [pay_old] in HC; apply andb_prop in HC as [Ho HC];
    apply N.eqb_eq in Ho; subst old; cbn [covers_slot] in HC; try discriminate HC.
  all: exec_norm He; try (exfalso; apply Hns; exact I).
  all: try (eexists; split; [left; reflexivity|]; apply Cs_intro; [reflexivity|]; cbn [covers_slot]; b2p;
            repeat match goal with |- (_ && _) = true => apply andb_true_intro; split
                                 | |- (_ <=? _) = true => apply N.leb_le | |- (_ <? _) = true => apply N.ltb_lt end; try lia; fail).
  - b2p. lia.
  - apply dispatch_Cs; [b2p; lia|exact Hns].
  - exists (WHelpRepl c a w ctl). split; [cbn; apply in_or_app; right; left; reflexivity|].
    apply Cs_intro; [reflexivity|exact HC].
  - apply dispatch_Cs; [b2p; lia|exact Hns].
  - apply dispatch_Cs; [b2p; lia|exact Hns].
  - apply dispatch_Cs; [b2p; lia|exact Hns].
  - pose proof (PS_strict _ _ _ _ HC (upd_slot_ne _ _ _ _ _ _ Hm' Ha3)) as Hs.
    eexists; split; [left; reflexivity|]. apply Cs_intro; [reflexivity|]. cbn [covers_slot].
    destruct Hs as [Hs|[-> Hs]].
    + replace (n <? w) with true by (symmetry; apply N.ltb_lt; lia). reflexivity.
    + rewrite N.eqb_refl. replace (j0 <? j) with true by (symmetry; apply N.ltb_lt; lia). apply Bool.orb_true_r.
  - apply after_slot_Cs; [exact Hj|]. apply (PS_strict _ _ _ _ HC). apply (upd_slot_ne _ _ _ _ _ _ Hm' Ha3).
  - apply after_slot_Cs; [exact Hj|]. apply (PS_strict _ _ _ _ HC).
    intros [-> ->]. rewrite Hm, N.eqb_refl in *. discriminate.
  - apply after_slot_Cs; [exact Hj|]. b2p. destruct HC as [HC|HC]; b2p; [left|right]; auto.
  - b2p. lia.
Qed.
