(** * ASModel.Prot7 — pay frames that cover a slot or a request stay in the stack (they are
    only replaced by their own continuation), and the step of a covering frame keeps the cover. *)
From Coq Require Import Lia.
From ASModel Require Import Base State Orderings_gen Step Run Progress Hist Inv InvTl InvProto InvStep Sum StepCases.
From ASModel Require Import GenDefs Gen1 Gen2 AccDefs ProtDefs Prot6.

Definition Cs (a n j : N) (q : pc) : bool := pay_frame_of a q && covers_slot n j q.
Definition Ch (cand n c gt : N) (q : pc) : bool := pay_frame_of cand q && covers_help n c gt q.

Record keepable (C : pc -> bool) : Prop := {
  k_get : forall c o, C (WGetPay c o) = true -> C (pay_body o c) = true;
  k_help : forall c o w ctl r, C (WHelpRepl c o w ctl) = true -> C (PE4 c o w ctl r) = true;
  k_pay : forall q, C q = true -> pay_old q <> None;
}.

Lemma Cs_keepable a n j : keepable (Cs a n j).
Proof.
  constructor.
  - intros c o. unfold Cs, pay_body, pay_frame_of. cbn. destruct (o =? 0); cbn; rewrite !Bool.andb_true_r; auto.
  - intros c o w ctl r. unfold Cs, pay_frame_of. cbn. auto.
  - intros q H Hn. unfold Cs, pay_frame_of in H. rewrite Hn in H. discriminate.
Qed.

Lemma Ch_keepable cand n c gt : keepable (Ch cand n c gt).
Proof.
  constructor.
  - intros c' o. unfold Ch, pay_body, pay_frame_of. cbn. destruct (o =? 0); cbn; auto.
  - intros c' o w ctl r. unfold Ch, pay_frame_of. cbn. auto.
  - intros q H Hn. unfold Ch, pay_frame_of in H. rewrite Hn in H. discriminate.
Qed.

Lemma resume_keep C cf l w v l' nx :
  keepable C -> resume cf l w v = (l', nx) -> ~ nx_stops nx -> C w = true ->
  exists f, nx = NGoto f /\ C f = true.
Proof.
  intros K Hr Hns Hc. pose proof (k_pay _ K _ Hc) as Hp.
  destruct w; try (exfalso; apply Hp; reflexivity); cbn in Hr; destr_in Hr; injection Hr as <- <-;
    try (exfalso; apply Hns; exact I).
  - eexists. split; [reflexivity|]. apply (k_get _ K). exact Hc.
  - eexists. split; [reflexivity|]. apply (k_help _ K). exact Hc.
Qed.

Lemma settle_keep C cf l rest nx l2 stk st :
  keepable C -> settle cf l rest nx l2 stk st -> bl rest ->
  (exists q, In q rest /\ C q = true) -> exists q, In q stk /\ C q = true.
Proof.
  intros K. induction 1 as [l rest p|l rest fs w|l v|l v b post Hb Hne|l v post|l v w rest l' nx l'' stk st Hb Hr Hs IH];
    intros Hbl (q & Hin & Hc).
  - exists q. split; [right; exact Hin|exact Hc].
  - exists q. split; [|exact Hc]. apply in_or_app. right. right. exact Hin.
  - destruct Hin.
  - exfalso. destruct Hbl as [Hp _]. rewrite (Hp Hb) in Hin. destruct Hin as [<-|[]].
    apply (k_pay _ K _ Hc). destruct b; try discriminate Hb; reflexivity.
  - exfalso. destruct Hbl as [Hp _]. rewrite (Hp eq_refl) in Hin. destruct Hin as [<-|[]].
    apply (k_pay _ K _ Hc). reflexivity.
  - destruct Hbl as [_ Hbl]. destruct Hin as [<-|Hin].
    + destruct (resume_keep C _ _ _ _ _ _ K Hr (settle_stops _ _ _ _ _ _ _ Hs) Hc) as (f & -> & Hf).
      inversion Hs; subst. exists f. split; [left; reflexivity|exact Hf].
    + apply IH; [exact Hbl|]. exists q. auto.
Qed.

(** The frames of a [next] that does not return are in the settled stack. *)
Lemma settle_nx_in cf l rest nx l2 stk st :
  settle cf l rest nx l2 stk st -> forall f, In f (nx_frames nx) -> In f stk.
Proof.
  intros H f Hin. inversion H; subst; cbn in Hin; try (destruct Hin; fail).
  - destruct Hin as [<-|[]]. left. reflexivity.
  - apply in_or_app. apply in_app_or in Hin as [Hin|[<-|[]]]; [left; exact Hin|right; left; reflexivity].
Qed.

Lemma help_dispatch_gen cf l c old w ctl :
  is_gen ctl -> help_dispatch cf l c old w ctl = NGoto (PE2 c old w ctl) \/ nx_stops (help_dispatch cf l c old w ctl).
Proof.
  unfold is_gen, help_dispatch. intros ->. cbn.
  destruct (cf_debug cf && _); [right; exact I|left; reflexivity].
Qed.
