(** * ASModel.Prot8 — the step of a writer frame that will still answer a request keeps
    answering it, as long as the request stands. *)
From Coq Require Import Lia.
From ASModel Require Import Base State Orderings_gen Step Run Progress Hist Inv InvTl InvProto InvStep Sum StepCases.
From ASModel Require Import GenDefs Gen1 Gen2 AccDefs ProtDefs Prot6 Prot7.

Lemma Ch_intro cand n c gt f : pay_old f = Some cand -> covers_help n c gt f = true -> Ch cand n c gt f = true.
Proof. intros H1 H2. unfold Ch, pay_frame_of. rewrite H1, H2, N.eqb_refl. reflexivity. Qed.

Lemma lor_repl_not_gen m : ~ is_gen (N.lor m REPLACEMENT_TAG).
Proof.
  unfold is_gen. intros H. apply (f_equal (fun z => N.testbit z 0)) in H.
  rewrite N.land_spec, N.lor_spec in H. cbn in H. rewrite Bool.orb_true_r in H. discriminate.
Qed.

Lemma dispatch_Ch cf l c a w ctl n gt :
  n <= w -> (n = w -> ctl = gt) -> is_gen gt -> ~ nx_stops (help_dispatch cf l c a w ctl) ->
  exists f, In f (nx_frames (help_dispatch cf l c a w ctl)) /\ Ch a n c gt f = true.
Proof.
  intros Hle He Hg Hns. destruct (N.eq_dec n w) as [->|Hne].
  - rewrite (He eq_refl) in *. destruct (help_dispatch_gen cf l c a w gt Hg) as [E|E]; [|contradiction].
    rewrite E. eexists; split; [left; reflexivity|]. apply Ch_intro; [reflexivity|]. cbn. rewrite !N.eqb_refl.
    rewrite Bool.orb_true_r. reflexivity.
  - assert (Hlt : (n <? w) = true) by (apply N.ltb_lt; lia).
    destruct (help_dispatch_cases cf l c a w ctl) as [H|[->|[_ ->]]]; [contradiction|..];
      (eexists; split; [left; reflexivity|]; apply Ch_intro; [reflexivity|]; cbn; rewrite N.eqb_refl, Hlt; reflexivity).
Qed.

Lemma after_slot_Ch c a w j0 n gt :
  n < w -> exists f, In f (nx_frames (after_slot c a w j0)) /\ Ch a n c gt f = true.
Proof.
  intros Hlt. apply N.ltb_lt in Hlt. unfold after_slot. destruct (j0 =? HSLOT);
    (eexists; split; [left; reflexivity|]; apply Ch_intro; [reflexivity|]; cbn; rewrite N.eqb_refl, Hlt; reflexivity).
Qed.

Lemma help_or n w ctl gt : (n <? w) || (n =? w) && (ctl =? gt) = true -> n < w \/ (n = w /\ ctl = gt).
Proof. intros H. b2p. destruct H as [H|H]; b2p; auto. Qed.

Lemma exec_cover_help cf s l p x s' l' evs nx cand n c gt :
  exec cf s l p x = (s', l', evs, nx) -> ~ nx_stops nx ->
  Ch cand n c gt p = true -> n < mem s LHead -> is_gen gt ->
  mem s (LCtrl n) = gt -> mem s (LAddr n) = store_val c -> mem s' (LCtrl n) = gt ->
  exists f, In f (nx_frames nx) /\ Ch cand n c gt f = true.
Proof.
  intros He Hns HC Hn Hg Hctl Haddr Hctl'. unfold Ch, pay_frame_of in HC.
  destruct p; try discriminate HC; cbn [pay_old] in HC; apply andb_prop in HC as [Ho HC];
    apply N.eqb_eq in Ho; subst old; cbn [covers_help] in HC; try discriminate HC.
  all: apply andb_prop in HC as [Hc HC] || (pose proof HC as Hc); apply N.eqb_eq in Hc; subst c0.
  all: exec_norm He; try (exfalso; apply Hns; exact I).
  all: try (eexists; split; [left; reflexivity|]; apply Ch_intro; [reflexivity|]; cbn [covers_help];
            rewrite ?N.eqb_refl, ?HC; try reflexivity; b2p; cov_goal; try lia; fail).
  - b2p. lia.
  - apply dispatch_Ch; [b2p; lia|intros ->; exact Hctl|exact Hg|exact Hns].
  - exists (WHelpRepl c cand w ctl). split; [cbn; apply in_or_app; right; left; reflexivity|].
    apply Ch_intro; [reflexivity|]. cbn [covers_help]. rewrite N.eqb_refl, HC. reflexivity.
  - destruct (help_or _ _ _ _ HC) as [Hlt|[-> ->]].
    + eexists; split; [left; reflexivity|]. apply Ch_intro; [reflexivity|]. cbn. rewrite N.eqb_refl. apply N.ltb_lt. exact Hlt.
    + rewrite Haddr, N.eqb_refl in Heqb. discriminate.
  - apply dispatch_Ch; [b2p; lia|intros ->; b2p; lia|exact Hg|exact Hns].
  - destruct (help_or _ _ _ _ HC) as [Hlt|[-> ->]].
    + eexists; split; [left; reflexivity|]. apply Ch_intro; [reflexivity|]. cbn. rewrite N.eqb_refl. apply N.ltb_lt. exact Hlt.
    + exfalso. cbn in Hctl'. rewrite upd_same in Hctl'. apply (lor_repl_not_gen mine). rewrite Hctl'. exact Hg.
  - destruct (help_or _ _ _ _ HC) as [Hlt|[-> ->]].
    + apply dispatch_Ch; [lia|intros ->; lia|exact Hg|exact Hns].
    + rewrite Hctl, N.eqb_refl in Heqb. discriminate.
  - destruct (help_or _ _ _ _ HC) as [Hlt|[-> ->]].
    + eexists; split; [left; reflexivity|]. apply Ch_intro; [reflexivity|]. cbn. rewrite N.eqb_refl. apply N.ltb_lt. exact Hlt.
    + rewrite Hctl, N.eqb_refl in Heqb. discriminate.
  - apply dispatch_Ch; [b2p; lia|intros ->; b2p; lia|exact Hg|exact Hns].
  - apply after_slot_Ch. b2p. assumption.
  - apply after_slot_Ch. b2p. assumption.
  - apply after_slot_Ch. b2p. assumption.
  - b2p. lia.
Qed.

(** A frame that will answer the request of node [n] has not walked past [n]'s helping slot. *)
Lemma Ch_Cs cand n c gt q : Ch cand n c gt q = true -> Cs cand n HSLOT q = true.
Proof.
  unfold Ch, Cs. intros H. apply andb_prop in H as [H1 H2]. rewrite H1. cbn [andb].
  destruct q; try discriminate H2; cbn [covers_help covers_slot] in *; try reflexivity;
    apply andb_prop in H2 as [_ H2]; try exact H2.
  all: try (destruct (help_or _ _ _ _ H2) as [Hlt|[-> _]]; apply N.leb_le; lia).
  all: try (apply N.ltb_lt in H2; apply N.leb_le; lia).
  all: rewrite H2; reflexivity.
Qed.
