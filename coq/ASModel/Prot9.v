(** * ASModel.Prot9 — what one frame step does to the debt slots, the containers, the control
    words and the list head. *)
From Coq Require Import Lia.
From ASModel Require Import Base State Orderings_gen Step Run Progress Hist Inv InvTl InvProto InvStep Sum StepCases.
From ASModel Require Import GenDefs Gen1 Gen2 AccDefs ProtDefs Prot6 Prot7 Prot8.

Lemma node_init_slot s h n j :
  mem (node_init s h) (LSlot n j) = mem s (LSlot n j) \/ mem (node_init s h) (LSlot n j) = NONE.
Proof.
  unfold node_init; cbn; unfold upd.
  repeat match goal with |- context [decide (?a = ?b)] =>
    destruct (decide (a = b)) as [?|?]; try discriminate; try (right; reflexivity) end.
  left; reflexivity.
Qed.

Definition slot_eff (s : shared) (l : tlocal) (p : pc) (s' : shared) (l' : tlocal) (nx : next) (n j : N) : Prop :=
  mem s' (LSlot n j) = mem s (LSlot n j) \/ mem s' (LSlot n j) = NONE \/
  (exists c v, p = LA3 c v j /\ n = own_node l /\ mem s' (LSlot n j) = v /\ nx = NGoto (LA4 c v j) /\ tl_node l' = tl_node l) \/
  (exists c gt v, p = LH4 c gt v /\ n = own_node l /\ j = HSLOT /\ mem s' (LSlot n j) = v /\ nx = NGoto (LH5 c gt v) /\ l' = l).

Lemma exec_slots cf s l p x s' l' evs nx n j :
  exec cf s l p x = (s', l', evs, nx) -> ~ nx_stops nx -> slot_eff s l p s' l' nx n j.
Proof.
  intros He Hns. unfold slot_eff. destruct p; exec_norm He; try (exfalso; apply Hns; exact I); mem_simp.
  all: try (left; reflexivity).
  all: try (match goal with |- context [upd ?f ?k ?v ?k'] =>
              destruct (decide (k' = k)) as [E|E];
              [|left; rewrite (upd_other f k k' v E); reflexivity];
              rewrite E, !upd_same; injection E as E1 E2; try subst n; try subst j end).
  all: try (right; left; reflexivity).
  - destruct (node_init_slot (m_set s LHead (node_val head)) head n j) as [E|E];
      [left; rewrite E; cbn; rewrite upd_other by discriminate; reflexivity|right; left; exact E].
  - right; right; left. exists c, p. repeat split; reflexivity.
  - right; right; right. exists c, gt, cand. repeat split; reflexivity.
Qed.

Definition store_eff (s : shared) (l : tlocal) (p : pc) (s' : shared) (l' : tlocal) (nx : next) (c : N) : Prop :=
  mem s' (LStore c) = mem s (LStore c) \/
  (exists new fs, p = S1 c new /\ enter_pay l c (mem s (LStore c)) = (l', fs) /\ nx = NPush fs (WSwap (mem s (LStore c)))) \/
  (exists cur new v d fs, p = K1 c cur new v d /\ mem s (LStore c) = cur /\ enter_pay l c v = (l', fs) /\
                          nx = NPush fs (WCasPaid v d)).

Lemma exec_stores cf s l p x s' l' evs nx c :
  exec cf s l p x = (s', l', evs, nx) -> ~ nx_stops nx -> store_eff s l p s' l' nx c.
Proof.
  intros He Hns. unfold store_eff. destruct p; exec_norm He; try (exfalso; apply Hns; exact I); mem_simp.
  all: try (left; reflexivity).
  all: try (left; rewrite node_init_store; cbn; rewrite upd_other by discriminate; reflexivity).
  all: try (match goal with |- context [upd ?f ?k ?v ?k'] =>
              destruct (decide (k' = k)) as [E|E];
              [|left; rewrite (upd_other f k k' v E); reflexivity];
              injection E as E1; subst c end).
  - right; left. eexists _, _. repeat split. eassumption.
  - right; right. b2p. eexists _, _, _, _, _. repeat split; [assumption|eassumption].
Qed.

Lemma exec_ctrl cf s l p x s' l' evs nx n :
  exec cf s l p x = (s', l', evs, nx) -> ~ nx_stops nx ->
  mem s' (LCtrl n) = mem s (LCtrl n) \/ ~ is_gen (mem s' (LCtrl n)) \/
  (exists c gt, p = LH2 c gt /\ n = own_node l).
Proof.
  intros He Hns. destruct p; exec_norm He; try (exfalso; apply Hns; exact I); mem_simp.
  all: try (left; reflexivity).
  all: try (match goal with |- context [upd ?f ?k ?v ?k'] =>
              destruct (decide (k' = k)) as [E|E];
              [|left; rewrite (upd_other f k k' v E); reflexivity];
              rewrite E, !upd_same; injection E as E1; subst n end).
  all: try (right; right; eexists _, _; split; reflexivity).
  all: try (right; left; unfold is_gen; cbn; discriminate).
  - rewrite node_init_ctrl. destruct (decide (n = head)); [right; left; unfold is_gen; cbn; discriminate|].
    left. cbn. rewrite upd_other by discriminate. reflexivity.
  - right; left. apply lor_repl_not_gen.
Qed.

Lemma exec_head cf s l p x s' l' evs nx :
  exec cf s l p x = (s', l', evs, nx) -> mem s LHead <= mem s' LHead.
Proof.
  intros He. destruct p; exec_norm He; mem_simp; try lia.
  rewrite node_init_head. cbn. rewrite upd_same. b2p. unfold node_val. lia.
Qed.
