(** * ASModel.ProtDefs — why a debt protects its value: definitions.

    A slot that holds the address [a] of a value is covered: either it was published a moment
    ago and its owner has not confirmed it yet, or some container still stores [a], or a writer
    that removed [a] has not walked past the slot yet (and that writer holds a reference).
    Together with the exact accounting ([AccDefs]) this gives: every count access of every step
    finds its value alive (C01).  The boolean functions are also run by the model driver on every
    state of the correspondence runs ([prot_check]), which tests the statements on reachable
    states; the proofs are in [Prot*]. *)
From Coq Require Import Lia.
From ASModel Require Import Base State Orderings_gen Step Run Inv AccDefs.

(** ** Claims: (slot, address) pairs for which a frame or a handle may give a debt back *)
Definition claim_of_guard (v : N) (d : option slot) : list (slot * N) :=
  match d with Some sl => [(sl, v)] | None => [] end.

Definition frame_claims (l : tlocal) (p : pc) : list (slot * N) :=
  match p with
  | LA4 _ v j | LA5 _ v j => [((own_node l, j), v)]
  | LH5 _ _ cand | LH6a cand | LH6b cand | LH7 cand _ | LH8 cand _ _ | LH9 cand _ => [((own_node l, HSLOT), cand)]
  | GD1 v sl | GI1 v sl | GI2 v sl => [(sl, v)]
  | K1 _ _ _ v d | RAlloc _ _ v d | RInc _ _ v d | WCasPaid v d | WRcuCas _ _ v d | WRcuInto v d
  | WRcuNext _ _ v d => claim_of_guard v d
  | PDec _ (RGuard q d) | WExit (RGuard q d) => claim_of_guard q d
  | _ => []
  end.

Definition handle_claims (h : handle) : list (slot * N) :=
  match h with HGuard v d => claim_of_guard v d | _ => [] end.

Definition slot_eqb (x y : slot) : bool := (fst x =? fst y) && (snd x =? snd y).
Definition claim_eqb (x y : slot * N) : bool := slot_eqb (fst x) (fst y) && (snd x =? snd y).

Definition stack_claims (th : thread) : list (slot * N) :=
  flat_map (frame_claims (t_loc th)) (t_stack th).

(** The publication in slot [(n, j)] of [a] by the node's owner is not confirmed (yet, or it
    was rejected and is about to be withdrawn). *)
Definition unconfirmed_top (n j a : N) (th : thread) : bool :=
  match tl_node (t_loc th) with
  | Some n' =>
      (n' =? n) &&
      match t_stack th with
      | LA4 _ v j' :: _ | LA5 _ v j' :: _ => (v =? a) && (j' =? j)
      | LH5 _ _ cand :: _ | LH7 cand _ :: _ | LH8 cand _ _ :: _ | LH9 cand _ :: _ => (cand =? a) && (j =? HSLOT)
      | _ => false
      end
  | None => false
  end.

(** ** Writers: where a walk is, relative to a slot *)
Definition pay_old (p : pc) : option N :=
  match p with
  | WGetPay _ o | P1 _ o | P2 _ o | P3 _ o _ | PE0d _ o _ | PE0e _ o _ | PE1 _ o _ | PE2 _ o _ _ | PE3 _ o _ _
  | WHelpRepl _ o _ _ | PE4 _ o _ _ _ | PE5 _ o _ _ _ _ | PE6 _ o _ _ _ _ _ | PE7 _ o _ _ _ _ _ | PE8 _ o _ _
  | PE9 _ o _ _ _ | PS _ o _ _ | PSi _ o _ _ | P5 _ o _ | P6 _ o => Some o
  | _ => None
  end.

(** The walk of this frame has not gone past slot [(n, j)]. *)
Definition covers_slot (n j : N) (p : pc) : bool :=
  match p with
  | WGetPay _ _ | P1 _ _ | P2 _ _ => true
  | P3 _ _ w | PE0d _ _ w | PE0e _ _ w | PE1 _ _ w | PE2 _ _ w _ | PE3 _ _ w _ | WHelpRepl _ _ w _
  | PE4 _ _ w _ _ | PE5 _ _ w _ _ _ | PE6 _ _ w _ _ _ _ | PE7 _ _ w _ _ _ _ | PE8 _ _ w _ | PE9 _ _ w _ _ => n <=? w
  | PS _ _ w j' => (n <? w) || ((n =? w) && (j' <=? j))
  | PSi _ _ w j' => (n <? w) || ((n =? w) && (j' <? j))
  | P5 _ _ w => n <? w
  | _ => false
  end.

(** The walk of a writer of container [c] will still answer (or is answering) the request
    [gt] of node [n]. *)
Definition covers_help (n c gt : N) (p : pc) : bool :=
  match p with
  | WGetPay c' _ | P1 c' _ | P2 c' _ => c' =? c
  | P3 c' _ w => (c' =? c) && (n <=? w)
  | PE0d c' _ w | PE0e c' _ w | PE1 c' _ w => (c' =? c) && (n <=? w)
  | PE2 c' _ w ctl | WHelpRepl c' _ w ctl | PE4 c' _ w ctl _ | PE5 c' _ w ctl _ _ | PE6 c' _ w ctl _ _ _
  | PE7 c' _ w ctl _ _ _ => (c' =? c) && ((n <? w) || ((n =? w) && (ctl =? gt)))
  | PE3 c' _ w _ | PE8 c' _ w _ | PE9 c' _ w _ _ | PS c' _ w _ | PSi c' _ w _ | P5 c' _ w => (c' =? c) && (n <? w)
  | _ => false
  end.

Definition pay_frame_of (a : N) (p : pc) : bool :=
  match pay_old p with Some o => o =? a | None => false end.

(** ** The invariants *)
Definition SlotClaimed (s : state) : Prop :=
  forall n j a, valid a -> mem (sh s) (LSlot n j) = a ->
    (exists t, In ((n, j), a) (stack_claims (thr s t))) \/
    (exists h, In ((n, j), a) (handle_claims (hnd s h))).

Definition ClaimNodes (s : state) : Prop :=
  (forall t sl a, In (sl, a) (stack_claims (thr s t)) -> fst sl < nn s) /\
  (forall h sl a, In (sl, a) (handle_claims (hnd s h)) -> fst sl < nn s).

Definition Prot (s : state) : Prop :=
  forall n j a, valid a -> mem (sh s) (LSlot n j) = a ->
    (exists t, unconfirmed_top n j a (thr s t) = true) \/
    (exists c, mem (sh s) (LStore c) = a) \/
    (exists t p, In p (t_stack (thr s t)) /\ pay_frame_of a p = true /\ covers_slot n j p = true).

Definition req_frame (p : pc) : option (N * N * N) :=
  match p with LH3d c gt cand | LH4 c gt cand | LH5 c gt cand => Some (c, gt, cand) | _ => None end.

Definition ProtH (s : state) : Prop :=
  forall t n p rest c gt cand,
    t_stack (thr s t) = p :: rest -> req_frame p = Some (c, gt, cand) -> valid cand ->
    tl_node (t_loc (thr s t)) = Some n -> mem (sh s) (LCtrl n) = gt ->
    mem (sh s) (LStore c) = cand \/
    (exists t' q, In q (t_stack (thr s t')) /\ pay_frame_of cand q = true /\ covers_help n c gt q = true).

(** A walk for [old] sits directly on the frame that owns the removed value. *)
Definition owns_old (o : N) (p : pc) : bool :=
  match p with
  | WSwap o' | WCasPaid o' _ | WInto o' | WDropStore o' => o' =? o
  | _ => false
  end.

Fixpoint pay_shape (stk : list pc) : bool :=
  match stk with
  | [] => true
  | p :: rest =>
      (match pay_old p with
       | Some o => (o =? 0) || match rest with q :: _ => owns_old o q | [] => false end
       | None => true
       end) && pay_shape rest
  end.

Definition PayShape (s : state) : Prop := forall t, pay_shape (t_stack (thr s t)) = true.

Record ProtInv (s : state) : Prop := {
  p_claimed : SlotClaimed s;
  p_nodes : ClaimNodes s;
  p_prot : Prot s;
  p_proth : ProtH s;
  p_shape : PayShape s;
}.

(** ** Executable test of the statements on a state (explicit finite ranges; not used in proofs) *)
Definition existsb_l {A} (f : A -> bool) (l : list A) : bool := existsb f l.

Definition prot_check_slot (s : state) (thrs hnds conts : list N) (n j : N) : bool :=
  let a := mem (sh s) (LSlot n j) in
  if (a =? 0) || (a =? NONE) then true
  else
    (* SlotClaimed *)
    (existsb (fun t => existsb (claim_eqb ((n, j), a)) (stack_claims (thr s t))) thrs ||
     existsb (fun h => existsb (claim_eqb ((n, j), a)) (handle_claims (hnd s h))) hnds)
    &&
    (* Prot *)
    (existsb (fun t => unconfirmed_top n j a (thr s t)) thrs ||
     existsb (fun c => mem (sh s) (LStore c) =? a) conts ||
     existsb (fun t => existsb (fun p => pay_frame_of a p && covers_slot n j p) (t_stack (thr s t))) thrs).

Definition prot_check_thread (s : state) (thrs conts : list N) (t : N) : bool :=
  let th := thr s t in
  pay_shape (t_stack th) &&
  forallb (fun cl => fst (fst cl) <? nn s) (stack_claims th) &&
  match t_stack th, tl_node (t_loc th) with
  | p :: _, Some n =>
      match req_frame p with
      | Some (c, gt, cand) =>
          if (cand =? 0) || (cand =? NONE) || negb (mem (sh s) (LCtrl n) =? gt) then true
          else (mem (sh s) (LStore c) =? cand) ||
               existsb (fun t' => existsb (fun q => pay_frame_of cand q && covers_help n c gt q) (t_stack (thr s t'))) thrs
      | None => true
      end
  | _, _ => true
  end.

Definition prot_check (s : state) (nodes thrs hnds conts : list N) : option (N * N) :=
  match find (fun nj => negb (prot_check_slot s thrs hnds conts (fst nj) (snd nj)))
             (flat_map (fun n => map (fun j => (n, j)) [0;1;2;3;4;5;6;7;8]) nodes) with
  | Some nj => Some nj
  | None =>
      match find (fun t => negb (prot_check_thread s thrs conts t)) thrs with
      | Some t => Some (1000 + t, 99)
      | None =>
          match find (fun h => negb (forallb (fun cl => fst (fst cl) <? nn s) (handle_claims (hnd s h)))) hnds with
          | Some h => Some (2000 + h, 99)
          | None => None
          end
      end
  end.
