(** * ASModel.Run — command dispatch, frame unwinding, the global step, schedules. *)
From ASModel Require Import Base State Orderings_gen Step.

(** Outcome of handing a value down the stack. *)
Inductive unwound :=
| UStack (l : tlocal) (stk : list pc)                       (* the thread continues with this stack *)
| UDone (l : tlocal) (dst : option (N * handle)) (v : retval)  (* the command is complete *)
| UExit (l : tlocal)                                           (* the thread is gone *)
| UPanic (l : tlocal) (s : panic_site)
| UFault (l : tlocal) (f : fault).

Definition handle_of (v : retval) : handle :=
  match v with
  | RGuard p d => HGuard p d
  | ROwned p => HOwned p
  | _ => HEmpty
  end.

(** Pop frames while they complete.  [stk] is the stack BELOW the frame that returned [v]. *)
Fixpoint unwind (cf : config) (l : tlocal) (stk : list pc) (v : retval) : unwound :=
  match stk with
  | [] => UDone l None v
  | KDone dst :: _ =>
      UDone l (match dst with Some h => Some (h, handle_of v) | None => None end) v
  | KCacheDone c k :: _ =>
      UDone l (match v with ROwned a => Some (k, HCache c a) | _ => None end) v
  | WThreadExit :: _ => UExit l
  | w :: rest =>
      match resume cf l w v with
      | (l', NGoto p) => UStack l' (p :: rest)
      | (l', NPush frames wait) => UStack l' (frames ++ wait :: rest)
      | (l', NRet v') => unwind cf l' rest v'
      | (l', NPanic s) => UPanic l' s
      | (l', NFault f) => UFault l' f
      end
  end.

Definition set_thread (s : state) (t : N) (th : thread) : state :=
  mkState (sh s) (upd (thr s) t th) (hnd s).

Definition src_val (s : state) (v : src) : option N :=
  match v with
  | SNull => Some 0
  | SHandle h => match hnd s h with HOwned a => Some a | HGuard a _ => Some a | _ => None end
  end.

(** A command can start only when the handles it uses exist (the scheduler never picks a
    thread whose next command is not enabled). *)
Definition cmd_enabled (s : state) (c : cmd) : bool :=
  match c with
  | CNew _ | CLoad _ _ | CLoadFull _ _ | CRcu _ _ _ | CIntoInner _ _ | CDropStore _
  | CCacheNew _ _ | CSetGen _ => true
  | CJoin t => match t_status (thr s t) with Exited => true | _ => false end
  | CClone h _ => match hnd s h with HOwned _ | HGuard _ _ => true | _ => false end
  | CDrop h | CMove h _ => match hnd s h with HEmpty => false | _ => true end
  | CGuardInto h _ => match hnd s h with HGuard _ _ => true | _ => false end
  | CStore _ v | CSwap _ v _ => match v with SNull => true | SHandle h => match hnd s h with HOwned _ => true | _ => false end end
  | CCas _ cur new _ =>
      (match src_val s cur with Some _ => true | None => false end) &&
      (match new with SNull => true | SHandle h => match hnd s h with HOwned _ => true | _ => false end end)
  | CCacheLoad k => match hnd s k with HCache _ _ => true | _ => false end
  end.

Definition consume (s : state) (v : src) : state :=
  match v with
  | SNull => s
  | SHandle h => mkState (sh s) (thr s) (upd (hnd s) h HEmpty)
  end.

(** The CMD step: sets up the frames of the command (no atomic access happens). *)
Definition cmd_start (cf : config) (s : state) (l : tlocal) (c : cmd)
  : state * tlocal * list pc * retval + panic_site :=
  match c with
  | CNew h => inl (s, l, [NewAlloc; KDone (Some h)], RUnit)
  | CClone h h2 =>
      match hnd s h with
      | HOwned a | HGuard a _ =>
          if a =? 0 then inl (mkState (sh s) (thr s) (upd (hnd s) h2 (HOwned 0)), l, [], ROwned 0)
          else inl (s, l, [CloneInc a; KDone (Some h2)], RUnit)
      | _ => inl (s, l, [], RUnit)
      end
  | CDrop h =>
      let s' := mkState (sh s) (thr s) (upd (hnd s) h HEmpty) in
      match hnd s h with
      | HOwned a => inl (s', l, (if a =? 0 then [] else [PDec a RUnit; KDone None]), RUnit)
      | HGuard a d => inl (s', l, match guard_drop_frames a d with [] => [] | fs => fs ++ [KDone None] end, RUnit)
      | HCache _ a => inl (s', l, (if a =? 0 then [] else [PDec a RUnit; KDone None]), RUnit)
      | HEmpty => inl (s, l, [], RUnit)
      end
  | CLoad c h =>
      match enter_load cf l c with
      | inl (l', fs) => inl (s, l', fs ++ [KDone (Some h)], RUnit)
      | inr ps => inr ps
      end
  | CLoadFull c h =>
      match enter_load cf l c with
      | inl (l', fs) => inl (s, l', fs ++ [WLoadFull; KDone (Some h)], RUnit)
      | inr ps => inr ps
      end
  | CGuardInto h h2 =>
      let s' := mkState (sh s) (thr s) (upd (hnd s) h HEmpty) in
      match hnd s h with
      | HGuard a d =>
          match guard_into_frames a d with
          | [] => inl (mkState (sh s) (thr s) (upd (upd (hnd s) h HEmpty) h2 (HOwned a)), l, [], ROwned a)
          | fs => inl (s', l, fs ++ [KDone (Some h2)], RUnit)
          end
      | _ => inl (s, l, [], RUnit)
      end
  | CStore c v =>
      match src_val s v with
      | Some a => inl (consume s v, l, [S1 c a; WDropOld; KDone None], RUnit)
      | None => inl (s, l, [], RUnit)
      end
  | CSwap c v h2 =>
      match src_val s v with
      | Some a => inl (consume s v, l, [S1 c a; KDone (Some h2)], RUnit)
      | None => inl (s, l, [], RUnit)
      end
  | CCas c cur new h2 =>
      match src_val s cur, src_val s new with
      | Some a, Some b =>
          match enter_load cf l c with
          | inl (l', fs) => inl (consume s new, l', fs ++ [WCasLoad c a b; KDone (Some h2)], RUnit)
          | inr ps => inr ps
          end
      | _, _ => inl (s, l, [], RUnit)
      end
  | CRcu c m h2 =>
      match enter_load cf l c with
      | inl (l', fs) => inl (s, l', fs ++ [WRcuLoad c m; KDone (Some h2)], RUnit)
      | inr ps => inr ps
      end
  | CIntoInner c h =>
      (* `*self.ptr.get_mut()`: a plain read; the container is consumed, its storage is
         never accessed again (the model clears it: the count it held now belongs to the frame) *)
      let p := mem (sh s) (LStore c) in
      let '(l', fs) := enter_pay l c p in
      inl (mkState (m_set (sh s) (LStore c) 0) (thr s) (hnd s), l', fs ++ [WInto p; KDone (Some h)], RUnit)
  | CDropStore c =>
      let p := mem (sh s) (LStore c) in
      let '(l', fs) := enter_pay l c p in
      inl (mkState (m_set (sh s) (LStore c) 0) (thr s) (hnd s), l', fs ++ [WDropStore p; KDone None], RUnit)
  | CJoin _ => inl (s, l, [], RUnit)
  | CCacheNew c k =>
      match enter_load cf l c with
      | inl (l', fs) => inl (s, l', fs ++ [WLoadFull; KCacheDone c k], RUnit)
      | inr ps => inr ps
      end
  | CCacheLoad k =>
      match hnd s k with
      | HCache c a => inl (s, l, [Q1 c a k; KCacheDone c k], RUnit)
      | _ => inl (s, l, [], RUnit)
      end
  | CMove h h2 =>
      inl (mkState (sh s) (thr s) (upd (upd (hnd s) h HEmpty) h2 (hnd s h)), l, [], RUnit)
  | CSetGen g0 =>
      (* the verification hook is only ever called with a multiple of four below 2^64 (the
         counter advances in steps of four); other arguments are normalised *)
      let g := (g0 - g0 mod 4) mod WORD in
      match tl_node l with
      | None => inl (s, l, [GHead; WGetSetGen g; KDone None], RUnit)
      | Some _ => inl (s, tl_set_gen l g, [], RUnit)
      end
  end.

Definition is_bottom (p : pc) : bool :=
  match p with KDone _ | KCacheDone _ _ | WThreadExit => true | _ => false end.

(** After a frame-level [next], compute the thread and the handle effects. *)
Definition finish (cf : config) (s : state) (t : N) (th : thread) (s_sh : shared) (l : tlocal)
           (rest : list pc) (evs : list event) (nx : next) : state * list event :=
  match nx with
  | NGoto p => (mkState s_sh (upd (thr s) t (mkThread (p :: rest) l (t_prog th) (t_cmdi th) Running)) (hnd s), evs)
  | NPush frames wait =>
      (mkState s_sh (upd (thr s) t (mkThread (frames ++ wait :: rest) l (t_prog th) (t_cmdi th) Running)) (hnd s), evs)
  | NPanic ps =>
      (mkState s_sh (upd (thr s) t (mkThread rest l (t_prog th) (t_cmdi th) Panicked)) (hnd s), evs ++ [EvPanic ps])
  | NFault f =>
      (mkState s_sh (upd (thr s) t (mkThread rest l (t_prog th) (t_cmdi th) Faulted)) (hnd s), evs ++ [EvFault f])
  | NRet v =>
      match unwind cf l rest v with
      | UStack l' stk =>
          (mkState s_sh (upd (thr s) t (mkThread stk l' (t_prog th) (t_cmdi th) Running)) (hnd s), evs)
      | UDone l' dst v' =>
          let h' := match dst with Some (h, hv) => upd (hnd s) h hv | None => hnd s end in
          (mkState s_sh (upd (thr s) t (mkThread [] l' (t_prog th) (t_cmdi th + 1) Running)) h',
           evs ++ [EvRet (t_cmdi th) v'])
      | UExit l' =>
          (mkState s_sh (upd (thr s) t (mkThread [] l' (t_prog th) (t_cmdi th) Exited)) (hnd s), evs)
      | UPanic l' ps =>
          (mkState s_sh (upd (thr s) t (mkThread [] l' (t_prog th) (t_cmdi th) Panicked)) (hnd s), evs ++ [EvPanic ps])
      | UFault l' f =>
          (mkState s_sh (upd (thr s) t (mkThread [] l' (t_prog th) (t_cmdi th) Faulted)) (hnd s), evs ++ [EvFault f])
      end
  end.

(** Is thread [t] able to take a step? *)
Definition enabled (s : state) (t : N) : bool :=
  let th := thr s t in
  match t_status th with
  | Running =>
      match t_stack th with
      | [] => match nth_error (t_prog th) (N.to_nat (t_cmdi th)) with
              | Some c => cmd_enabled s c
              | None => true     (* EXIT *)
              end
      | _ => true
      end
  | _ => false
  end.

(** ** The global step: thread [t] performs its next step with choice [x]. *)
Definition step (cf : config) (s : state) (t x : N) : state * list event :=
  let th := thr s t in
  match t_status th with
  | Running =>
      match t_stack th with
      | [] =>
          match nth_error (t_prog th) (N.to_nat (t_cmdi th)) with
          | Some c =>
              if cmd_enabled s c then
                match cmd_start cf s (t_loc th) c with
                | inl (s', l', [], r) =>
                    (* the command needs no atomic access at all *)
                    (set_thread s' t (mkThread [] l' (t_prog th) (t_cmdi th + 1) Running),
                     [EvCmd (t_cmdi th); EvRet (t_cmdi th) r])
                | inl (s', l', stk, _) =>
                    (set_thread s' t (mkThread stk l' (t_prog th) (t_cmdi th) Running), [EvCmd (t_cmdi th)])
                | inr ps =>
                    (set_thread s t (mkThread [] (t_loc th) (t_prog th) (t_cmdi th) Panicked),
                     [EvCmd (t_cmdi th); EvPanic ps])
                end
              else (s, [EvFault FBadChoice])
          | None =>
              (* end of the program: the thread function returns, TLS destructors run *)
              match tl_node (t_loc th) with
              | Some n => (set_thread s t (mkThread [C1 n; WThreadExit] (tl_set_node (t_loc th) None) (t_prog th) (t_cmdi th) Running), [EvExit])
              | None => (set_thread s t (mkThread [] (t_loc th) (t_prog th) (t_cmdi th) Exited), [EvExit])
              end
          end
      | p :: rest =>
          let '(s_sh, l, evs, nx) := exec cf (sh s) (t_loc th) p x in
          finish cf s t th s_sh l rest evs nx
      end
  | _ => (s, [EvFault FBadChoice])
  end.

(** ** Schedules *)
Fixpoint run (cf : config) (s : state) (sched : list (N * N)) : state * list (N * list event) :=
  match sched with
  | [] => (s, [])
  | (t, x) :: rest =>
      let '(s', evs) := step cf s t x in
      let '(s'', tr) := run cf s' rest in
      (s'', (t, evs) :: tr)
  end.

Definition run_state (cf : config) (s : state) (sched : list (N * N)) : state :=
  fold_left (fun s tx => fst (step cf s (fst tx) (snd tx))) sched s.

(** Initial state: containers [0 .. length inits) hold the objects at the given addresses
    (0 = null), each live object has count 1 (owned by its container) unless it is listed
    several times. *)
Definition init_mem : loc -> N := fun l =>
  match l with
  | LSlot _ _ => NONE
  | _ => 0
  end.

Fixpoint init_stores (inits : list N) (c : N) (s : shared) : shared :=
  match inits with
  | [] => s
  | a :: rest =>
      let s1 := m_set s (LStore c) a in
      let s2 :=
        if a =? 0 then s1
        else match heap s1 a with
             | Some _ => m_set s1 (LCount a) (mem s1 (LCount a) + 1)
             | None => mkShared (upd (mem s1) (LCount a) 1) (upd (heap s1) a (Some (next_oid s1))) (next_oid s1 + 1)
             end in
      init_stores rest (c + 1) s2
  end.

Definition init_thread (prog : list cmd) : thread := mkThread [] tl_init prog 0 Running.
Definition no_thread : thread := mkThread [] tl_init [] 0 Exited.

Fixpoint init_threads (progs : list (list cmd)) (t : N) (f : N -> thread) : N -> thread :=
  match progs with
  | [] => f
  | p :: rest => init_threads rest (t + 1) (upd f t (init_thread p))
  end.

Definition init_state (inits : list N) (progs : list (list cmd)) : state :=
  mkState (init_stores inits 0 (mkShared init_mem (fun _ => None) 0))
          (init_threads progs 0 (fun _ => no_thread))
          (fun _ => HEmpty).
