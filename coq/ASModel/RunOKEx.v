(** * ASModel.RunOKEx — non-vacuity of [Main.RunOK].

    The executable mirror [Scope.scope_thread]/[Scope.scope_alloc] of the per-state hypotheses
    of [RunOK] is proven sound; threads beyond the programs are [no_thread] in every state of a
    run, so the hypotheses (universally quantified over all thread numbers) reduce to a finite
    check; [runok_b] is a boolean checker with [runok_b ... = true -> RunOK ...].  It is then run
    ([vm_compute]) on a concrete concurrent run: two threads on one container, fallback-only
    strategy, the reader publishes its request and is HELPED by the writer. *)
From Coq Require Import Lia.
From ASModel Require Import Base State Orderings_gen Step Run Progress Hist Inv InvTl InvProto InvStep Sum StepCases.
From ASModel Require Import GenDefs Gen1 Gen2 Gen AccDefs Acc2 Acc Prot11 Safe2 Safe8 Safe Scope Main.

(** ** Threads beyond the programs *)
Lemma init_threads_beyond progs : forall t f t0,
  t + N.of_nat (length progs) <= t0 -> init_threads progs t f t0 = f t0.
Proof.
  induction progs as [|p progs IH]; intros t f t0 H; [reflexivity|].
  cbn [init_threads]. rewrite IH by (cbn [length] in H; lia).
  apply upd_other. cbn [length] in H. lia.
Qed.

Lemma init_state_beyond inits progs t :
  N.of_nat (length progs) <= t -> thr (init_state inits progs) t = no_thread.
Proof. intros H. cbn. apply init_threads_beyond. lia. Qed.

Lemma step_not_running cf s t x : t_status (thr s t) <> Running -> fst (step cf s t x) = s.
Proof. intros H. unfold step. destruct (t_status (thr s t)); [elim H|..]; reflexivity. Qed.

Lemma step_no_thread cf s t x t0 : thr s t0 = no_thread -> thr (fst (step cf s t x)) t0 = no_thread.
Proof.
  intros H. destruct (N.eq_dec t t0) as [->|Hne].
  - rewrite step_not_running; [exact H|]. rewrite H. discriminate.
  - rewrite step_other by exact Hne. exact H.
Qed.

Lemma run_no_thread cf t0 : forall sched s, thr s t0 = no_thread -> thr (run_state cf s sched) t0 = no_thread.
Proof.
  induction sched as [|[t x] sched IH]; intros s H; [exact H|].
  rewrite run_state_cons. apply IH. apply step_no_thread. exact H.
Qed.

(** All threads from number [n] on are [no_thread]. *)
Definition Beyond (n : nat) (s : state) : Prop := forall t, N.of_nat n <= t -> thr s t = no_thread.

Lemma Beyond_init inits progs : Beyond (length progs) (init_state inits progs).
Proof. intros t H. apply init_state_beyond. exact H. Qed.

Lemma Beyond_step cf n s t x : Beyond n s -> Beyond n (fst (step cf s t x)).
Proof. intros H t0 Ht. apply step_no_thread. apply H. exact Ht. Qed.

Lemma Beyond_run cf n sched s : Beyond n s -> Beyond n (run_state cf s sched).
Proof. intros H t0 Ht. apply run_no_thread. apply H. exact Ht. Qed.

(** ** Soundness of the mirror, per thread *)
Definition GenBound_at (s : state) (t : N) : Prop := tl_gen (t_loc (thr s t)) + 4 < WORD.

Definition DstEmpty_at (s : state) (t : N) : Prop :=
  forall c h, t_status (thr s t) = Running ->
    nth_error (t_prog (thr s t)) (N.to_nat (t_cmdi (thr s t))) = Some c -> cmd_dst c = Some h ->
    hnd s h = HEmpty \/ (t_stack (thr s t) = [] /\ cmd_src c = Some h).

Definition CloneSrcCmd_at (s : state) (t : N) : Prop :=
  forall h h2 a rest, t_status (thr s t) = Running ->
    nth_error (t_prog (thr s t)) (N.to_nat (t_cmdi (thr s t))) = Some (CClone h h2) ->
    t_stack (thr s t) = CloneInc a :: rest ->
    hnd s h = HOwned a \/ exists d, hnd s h = HGuard a d.

Definition Scope_at (s : state) (t : N) : Prop := GenBound_at s t /\ DstEmpty_at s t /\ CloneSrcCmd_at s t.

Lemma handle_empty_true h : handle_empty h = true -> h = HEmpty.
Proof. destruct h; [reflexivity|discriminate..]. Qed.

Theorem scope_thread_sound s t : scope_thread s t = true -> Scope_at s t.
Proof.
  unfold scope_thread. intros H. apply andb_true_iff in H as [Hg H].
  split; [apply N.ltb_lt; exact Hg|]. split.
  - intros c h Hr Hc Hd. rewrite Hr, Hc in H. apply andb_true_iff in H as [H _]. rewrite Hd in H.
    apply orb_true_iff in H as [H|H]; [left; apply handle_empty_true; exact H|right].
    apply andb_true_iff in H as [H1 H2]. split.
    + destruct (t_stack (thr s t)); [reflexivity|discriminate H1].
    + destruct (cmd_src c) as [h'|]; [|discriminate H2]. apply N.eqb_eq in H2. subst h'. reflexivity.
  - intros h h2 a rest Hr Hc Hst. rewrite Hr, Hc, Hst in H. apply andb_true_iff in H as [_ H].
    destruct (hnd s h) as [|a'|a' d|]; try discriminate H; apply N.eqb_eq in H; subst a'.
    + left. reflexivity.
    + right. exists d. reflexivity.
Qed.

Lemma no_thread_scope s t : thr s t = no_thread -> Scope_at s t.
Proof.
  intros H. unfold Scope_at, GenBound_at, DstEmpty_at, CloneSrcCmd_at. rewrite H. cbn.
  split; [reflexivity|]. split; intros; discriminate.
Qed.

Theorem scope_alloc_sound s t x : scope_alloc s t x = true -> alloc_ok s t x.
Proof.
  unfold scope_alloc, alloc_ok. destruct (t_stack (thr s t)) as [|p rest]; [intros _; exact I|].
  destruct p; try (intros _; exact I).
  all: destruct (heap (sh s) x); [discriminate|]; intros H; split; [reflexivity|exact H].
Qed.

(** The per-state hypotheses of [RunOK] from the finite check. *)
Definition thread_list (n : nat) : list N := map N.of_nat (seq 0 n).

Lemma thread_list_in n t : t < N.of_nat n -> In t (thread_list n).
Proof.
  intros H. unfold thread_list. apply in_map_iff. exists (N.to_nat t). split; [lia|].
  apply in_seq. lia.
Qed.

Definition scope_state (n : nat) (s : state) : bool := forallb (scope_thread s) (thread_list n).

Theorem scope_state_sound n s :
  Beyond n s -> scope_state n s = true -> GenBound s /\ DstEmpty s /\ CloneSrcCmd s.
Proof.
  intros B H.
  assert (A : forall t, Scope_at s t).
  { intros t. destruct (N.lt_ge_cases t (N.of_nat n)) as [Hlt|Hge].
    - apply scope_thread_sound. apply (proj1 (forallb_forall _ _) H). apply thread_list_in. exact Hlt.
    - apply no_thread_scope. apply B. exact Hge. }
  split; [|split].
  - intros t. apply (A t).
  - intros t. apply (A t).
  - intros t. apply (A t).
Qed.

(** ** The checker *)
(** Walks along the schedule, carrying the state: every state passes [scope_state], every
    scheduled step passes [scope_alloc]. *)
Fixpoint run_b (cf : config) (n : nat) (s : state) (sched : list (N * N)) : bool :=
  scope_state n s &&
  match sched with
  | [] => true
  | (t, x) :: rest => scope_alloc s t x && run_b cf n (fst (step cf s t x)) rest
  end.

Lemma St_0 cf s sched : St cf s sched 0 = s.
Proof. reflexivity. Qed.

Lemma St_nil cf s k : St cf s [] k = s.
Proof. unfold St. rewrite firstn_nil. reflexivity. Qed.

Lemma St_cons cf s t x sched k : St cf s ((t, x) :: sched) (S k) = St cf (fst (step cf s t x)) sched k.
Proof. reflexivity. Qed.

Theorem run_b_sound cf n : forall sched s, Beyond n s -> run_b cf n s sched = true ->
  (forall k, GenBound (St cf s sched k) /\ DstEmpty (St cf s sched k) /\ CloneSrcCmd (St cf s sched k)) /\
  (forall k t x, nth_error sched k = Some (t, x) -> alloc_ok (St cf s sched k) t x).
Proof.
  induction sched as [|[t x] sched IH]; intros s B H; cbn [run_b] in H; apply andb_true_iff in H as [Hs H].
  - split.
    + intros k. rewrite St_nil. apply (scope_state_sound n); assumption.
    + intros [|k] t x Hk; discriminate Hk.
  - apply andb_true_iff in H as [Ha H].
    destruct (IH _ (Beyond_step cf n s t x B) H) as [IH1 IH2]. split.
    + intros [|k]; [rewrite St_0; apply (scope_state_sound n); assumption|].
      rewrite St_cons. apply IH1.
    + intros [|k] t' x' Hk.
      * injection Hk as <- <-. rewrite St_0. apply scope_alloc_sound. exact Ha.
      * rewrite St_cons. apply IH2. exact Hk.
Qed.

Definition inits_b (inits : list N) : bool :=
  forallb (fun a => (a =? 0) || (negb (a =? 0) && negb (a =? NONE))) inits.

Lemma inits_b_sound inits : inits_b inits = true -> inits_ok inits.
Proof.
  intros H a Ha. apply (proj1 (forallb_forall _ _) H) in Ha.
  apply orb_true_iff in Ha as [Ha|Ha]; [left; apply N.eqb_eq; exact Ha|right].
  apply andb_true_iff in Ha as [H1 H2]. apply negb_true_iff in H1, H2.
  split; apply N.eqb_neq; assumption.
Qed.

Definition cmd_b (c : cmd) : bool :=
  match c with CSetGen _ | CCacheNew _ _ | CCacheLoad _ => false | _ => true end.

Definition progs_b (progs : list (list cmd)) : bool := forallb (forallb cmd_b) progs.

Lemma progs_b_sound progs : progs_b progs = true -> progs_ok progs.
Proof.
  intros H.
  assert (A : forall p c, In p progs -> In c p -> cmd_b c = true).
  { intros p c Hp Hc. apply (proj1 (forallb_forall _ _) H) in Hp. exact (proj1 (forallb_forall _ _) Hp c Hc). }
  split.
  - intros p Hp g Hin. specialize (A p _ Hp Hin). discriminate A.
  - intros p c Hp Hc. specialize (A p c Hp Hc). destruct c; try exact I; discriminate A.
Qed.

Definition runok_b (cf : config) (inits : list N) (progs : list (list cmd)) (sched : list (N * N)) : bool :=
  inits_b inits && progs_b progs && run_b cf (length progs) (init_state inits progs) sched.

Theorem runok_b_sound cf inits progs sched : runok_b cf inits progs sched = true -> RunOK cf inits progs sched.
Proof.
  intros H. apply andb_true_iff in H as [H Hr]. apply andb_true_iff in H as [Hi Hp].
  destruct (run_b_sound cf (length progs) sched _ (Beyond_init inits progs) Hr) as [H1 H2].
  constructor; [apply inits_b_sound; exact Hi|apply progs_b_sound; exact Hp|exact H1|exact H2].
Qed.

(** Every scheduled thread is enabled (hypothesis of [C01_no_fault_events]). *)
Fixpoint enabled_b (cf : config) (s : state) (sched : list (N * N)) : bool :=
  match sched with
  | [] => true
  | (t, x) :: rest => enabled s t && enabled_b cf (fst (step cf s t x)) rest
  end.

Lemma enabled_b_sound cf : forall sched s, enabled_b cf s sched = true ->
  forall k t x, nth_error sched k = Some (t, x) -> enabled (St cf s sched k) t = true.
Proof.
  induction sched as [|[t x] sched IH]; intros s H [|k] t' x' Hk; try discriminate Hk;
    cbn [enabled_b] in H; apply andb_true_iff in H as [H1 H2].
  - injection Hk as <- <-. exact H1.
  - rewrite St_cons. apply (IH _ H2 k t' x'). exact Hk.
Qed.

(** ** The example run *)
(** Fallback-only strategy with debug assertions; container 0 holds the value at 4096.
    Thread 0 (reader): [load] into handle 1, then drops the guard.
    Thread 1 (writer): allocates a value (at 4112, the scheduler's choice) and stores it.
    Schedule: the reader runs 7 steps — up to and including [LH2], the swap that publishes its
    generation in the control word of its node —; the writer runs to completion (60 steps): its
    [pay_all] finds the request ([PE1] -> [PE2]), loads a replacement, and hands it over with a
    successful exchange at [PE7]; then the reader finishes (13 steps): its confirmation [LH5]
    finds the replacement tag and takes the helper's value ([LH7]..[LH9]). *)
Definition ex_cf : config := mkConfig false true.
Definition ex_inits : list N := [4096].
Definition ex_progs : list (list cmd) := [[CLoad 0 1; CDrop 1]; [CNew 2; CStore 0 (SHandle 2)]].
Definition ex_sched : list (N * N) := repeat (0, 0) 7 ++ repeat (1, 4112) 60 ++ repeat (0, 0) 13.
Definition ex_s0 : state := init_state ex_inits ex_progs.
Definition ex_St (k : nat) : state := St ex_cf ex_s0 ex_sched k.
Definition ex_final : state := run_state ex_cf ex_s0 ex_sched.

Example runok_b_example : runok_b ex_cf ex_inits ex_progs ex_sched = true.
Proof. vm_compute. reflexivity. Qed.

Example RunOK_example : RunOK ex_cf ex_inits ex_progs ex_sched.
Proof. apply runok_b_sound. exact runok_b_example. Qed.

Example ex_length : length ex_sched = 80%nat.
Proof. reflexivity. Qed.

(** The run is the intended one: the reader published its request ... *)
Example ex_published :
  hd_error (t_stack (thr (ex_St 7) 0)) = Some (LH3 0 6) /\ mem (sh (ex_St 7)) (LCtrl 0) = 6 /\
  mem (sh (ex_St 7)) (LStore 0) = 4096.
Proof. vm_compute. auto. Qed.

(** ... the writer's exchange at [PE7] succeeded (it continues at [PE8], and the reader's control
    word now carries the replacement tag) ... *)
Example ex_helped :
  t_stack (thr (ex_St 49) 1) = [PE7 0 4096 0 6 4112 4 8; WSwap 4096; WDropOld; KDone None] /\
  nth_error ex_sched 49 = Some (1, 4112) /\
  hd_error (t_stack (thr (ex_St 50) 1)) = Some (PE8 0 4096 0 4) /\
  mem (sh (ex_St 49)) (LCtrl 0) = 6 /\
  mem (sh (ex_St 50)) (LCtrl 0) = N.lor 8 REPLACEMENT_TAG.
Proof. vm_compute. repeat split; reflexivity. Qed.

(** ... and the reader took the helper's value through [LH7], although the old value (4096) was
    destroyed in between: the guard it returns is on the NEW value. *)
Example ex_reader_helped :
  hd_error (t_stack (thr (ex_St 71) 0)) = Some (LH7 4112 1) /\
  heap (sh (ex_St 67)) 4096 = None /\
  hnd (ex_St 74) 1 = HGuard 4112 None /\ mem (sh (ex_St 74)) (LCount 4112) = 2.
Proof. vm_compute. repeat split; reflexivity. Qed.

(** ** The end-to-end theorems on this run *)
Example ex_NoFault : NoFault ex_final.
Proof. exact (proj1 (C01_no_use_after_free _ _ _ _ RunOK_example)). Qed.

Example ex_no_dead_access : forall te, In te (snd (run ex_cf ex_s0 ex_sched)) ->
  forall a, ~ In (EvFault (FDeadInc a)) (snd te) /\ ~ In (EvFault (FDeadDec a)) (snd te).
Proof. exact (proj2 (C01_no_use_after_free _ _ _ _ RunOK_example)). Qed.

Example ex_enabled : enabled_b ex_cf ex_s0 ex_sched = true.
Proof. vm_compute. reflexivity. Qed.

Example ex_no_fault_events : forall te, In te (snd (run ex_cf ex_s0 ex_sched)) ->
  forall f, ~ In (EvFault f) (snd te).
Proof.
  apply (C01_no_fault_events _ _ _ _ RunOK_example). apply enabled_b_sound. exact ex_enabled.
Qed.

Example ex_Acc : Acc ex_final.
Proof. exact (C02_accounting _ _ _ _ RunOK_example). Qed.

Example ex_Master : Master ex_final.
Proof. exact (RunOK_Master_end _ _ _ _ RunOK_example). Qed.

(** The schedule runs both threads to the end. *)
Example ex_final_threads :
  thr ex_final 0 = mkThread [] (mkTl None 0 4 false 0) [CLoad 0 1; CDrop 1] 2 Exited /\
  t_stack (thr ex_final 1) = [] /\ t_status (thr ex_final 1) = Exited /\ t_cmdi (thr ex_final 1) = 2.
Proof. vm_compute. repeat split; reflexivity. Qed.

Example ex_Quiescent : Quiescent ex_final.
Proof.
  intros t. assert (H : t = 0 \/ t = 1 \/ N.of_nat (length ex_progs) <= t) by (cbn; lia).
  destruct H as [->|[->|H]].
  - vm_compute. reflexivity.
  - vm_compute. reflexivity.
  - unfold ex_final, ex_s0.
    rewrite (Beyond_run ex_cf _ ex_sched _ (Beyond_init ex_inits ex_progs) t H). reflexivity.
Qed.

(** The final state: the container holds the new value with count 1, the old value is gone. *)
Example ex_final_values :
  mem (sh ex_final) (LStore 0) = 4112 /\ mem (sh ex_final) (LCount 4112) = 1 /\
  heap (sh ex_final) 4112 = Some 1 /\ mem (sh ex_final) (LCount 4096) = 0 /\ heap (sh ex_final) 4096 = None /\
  hnd ex_final 1 = HEmpty /\ hnd ex_final 2 = HEmpty.
Proof. vm_compute. repeat split; reflexivity. Qed.

(** C03 on the reader's [load]: it starts with step 0 and completes with step 73; the guard is
    on a value that the container held in between. *)
Example ex_load_linearizable :
  exists v, (exists d, hnd (ex_St 74) 1 = HGuard v d) /\
    exists k, (1 <= k <= 74)%nat /\ mem (sh (ex_St k)) (LStore 0) = v.
Proof.
  apply (C03_load_linearizable ex_cf ex_inits ex_progs ex_sched RunOK_example
           0 0 (CLoad 0 1) 0 1 0%nat 73%nat 0 0 0).
  all: try (vm_compute; reflexivity).
  - left. reflexivity.
  - lia.
Qed.

Print Assumptions scope_thread_sound.
Print Assumptions scope_alloc_sound.
Print Assumptions run_no_thread.
Print Assumptions runok_b_sound.
Print Assumptions RunOK_example.
Print Assumptions ex_NoFault.
Print Assumptions ex_no_fault_events.
Print Assumptions ex_Acc.
Print Assumptions ex_Quiescent.
Print Assumptions ex_load_linearizable.
