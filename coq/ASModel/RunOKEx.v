(** * ASModel.RunOKEx — non-vacuity of [Main.RunOK].

    The executable mirror [Scope.scope_thread]/[Scope.scope_alloc] of the per-state hypotheses
    of [RunOK] is proven sound; threads beyond the programs are [no_thread] in every state of a
    run, so the hypotheses (universally quantified over all thread numbers) reduce to a finite
    check; [runok_b] is a boolean checker with [runok_b ... = true -> RunOK ...].  It is then run
    ([vm_compute]) on a concrete concurrent run: two threads on one container, fallback-only
    strategy, the reader publishes its request and is HELPED by the writer. *)
From Coq Require Import Lia.
From ASModel Require Import Base State Orderings_gen Step Run Progress Hist Inv InvTl InvProto InvStep Sum StepCases.
From ASModel Require Import GenDefs Gen1 Gen2 Gen AccDefs Acc2 Acc Prot11 Safe2 Safe8 Safe Scope Main.

(** ** Threads beyond the programs *)
Lemma init_threads_beyond progs : forall t f t0,
  t + N.of_nat (length progs) <= t0 -> init_threads progs t f t0 = f t0.
Proof.
  induction progs as [|p progs IH]; intros t f t0 H; [reflexivity|].
  cbn [init_threads]. rewrite IH by (cbn [length] in H; lia).
  apply upd_other. cbn [length] in H. lia.
Qed.

Lemma init_state_beyond inits progs t :
  N.of_nat (length progs) <= t -> thr (init_state inits progs) t = no_thread.
Proof. intros H. cbn. apply init_threads_beyond. lia. Qed.

Lemma step_not_running cf s t x : t_status (thr s t) <> Running -> fst (step cf s t x) = s.
Proof. intros H. unfold step. destruct (t_status (thr s t)); [elim H|..]; reflexivity. Qed.

Lemma step_no_thread cf s t x t0 : thr s t0 = no_thread -> thr (fst (step cf s t x)) t0 = no_thread.
Proof.
  intros H. destruct (N.eq_dec t t0) as [->|Hne].
  - rewrite step_not_running; [exact H|]. rewrite H. discriminate.
  - rewrite step_other by exact Hne. exact H.
Qed.

Lemma run_no_thread cf t0 : forall sched s, thr s t0 = no_thread -> thr (run_state cf s sched) t0 = no_thread.
Proof.
  induction sched as [|[t x] sched IH]; intros s H; [exact H|].
  rewrite run_state_cons. apply IH. apply step_no_thread. exact H.
Qed.

(** All threads from number [n] on are [no_thread]. *)
Definition Beyond (n : nat) (s : state) : Prop := forall t, N.of_nat n <= t -> thr s t = no_thread.

Lemma Beyond_init inits progs : Beyond (length progs) (init_state inits progs).
Proof. intros t H. apply init_state_beyond. exact H. Qed.

Lemma Beyond_step cf n s t x : Beyond n s -> Beyond n (fst (step cf s t x)).
Proof. intros H t0 Ht. apply step_no_thread. apply H. exact Ht. Qed.

Lemma Beyond_run cf n sched s : Beyond n s -> Beyond n (run_state cf s sched).
Proof. intros H t0 Ht. apply run_no_thread. apply H. exact Ht. Qed.

(** ** Soundness of the mirror, per thread *)
Definition GenBound_at (s : state) (t : N) : Prop := tl_gen (t_loc (thr s t)) + 4 < WORD.

Definition DstEmpty_at (s : state) (t : N) : Prop :=
  forall c h, t_status (thr s t) = Running ->
    nth_error (t_prog (thr s t)) (N.to_nat (t_cmdi (thr s t))) = Some c -> cmd_dst c = Some h ->
    hnd s h = HEmpty \/ (t_stack (thr s t) = [] /\ cmd_src c = Some h).

Definition CloneSrcCmd_at (s : state) (t : N) : Prop :=
  forall h h2 a rest, t_status (thr s t) = Running ->
    nth_error (t_prog (thr s t)) (N.to_nat (t_cmdi (thr s t))) = Some (CClone h h2) ->
    t_stack (thr s t) = CloneInc a :: rest ->
    hnd s h = HOwned a \/ exists d, hnd s h = HGuard a d.

Definition Scope_at (s : state) (t : N) : Prop := GenBound_at s t /\ DstEmpty_at s t /\ CloneSrcCmd_at s t.

Lemma handle_empty_true h : handle_empty h = true -> h = HEmpty.
Proof. destruct h; [reflexivity|discriminate..]. Qed.

Theorem scope_thread_sound s t : scope_thread s t = true -> Scope_at s t.
Proof.
  unfold scope_thread. intros H. apply andb_true_iff in H as [Hg H].
  split; [apply N.ltb_lt; exact Hg|]. split.
  - intros c h Hr Hc Hd. rewrite Hr, Hc in H. apply andb_true_iff in H as [H _]. rewrite Hd in H.
    apply orb_true_iff in H as [H|H]; [left; apply handle_empty_true; exact H|right].
    apply andb_true_iff in H as [H1 H2]. split.
    + destruct (t_stack (thr s t)); [reflexivity|discriminate H1].
    + destruct (cmd_src c) as [h'|]; [|discriminate H2]. apply N.eqb_eq in H2. subst h'. reflexivity.
  - intros h h2 a rest Hr Hc Hst. rewrite Hr, Hc, Hst in H. apply andb_true_iff in H as [_ H].
    destruct (hnd s h) as [|a'|a' d|]; try discriminate H; apply N.eqb_eq in H; subst a'.
    + left. reflexivity.
    + right. exists d. reflexivity.
Qed.

Lemma no_thread_scope s t : thr s t = no_thread -> Scope_at s t.
Proof.
  intros H. unfold Scope_at, GenBound_at, DstEmpty_at, CloneSrcCmd_at. rewrite H. cbn.
  split; [reflexivity|]. split; intros; discriminate.
Qed.

Theorem scope_alloc_sound s t x : scope_alloc s t x = true -> alloc_ok s t x.
Proof.
  unfold scope_alloc, alloc_ok. destruct (t_stack (thr s t)) as [|p rest]; [intros _; exact I|].
  destruct p; try (intros _; exact I).
  all: destruct (heap (sh s) x); [discriminate|]; intros H; split; [reflexivity|exact H].
Qed.

(** The per-state hypotheses of [RunOK] from the finite check. *)
Definition thread_list (n : nat) : list N := map N.of_nat (seq 0 n).

Lemma thread_list_in n t : t < N.of_nat n -> In t (thread_list n).
Proof.
  intros H. unfold thread_list. apply in_map_iff. exists (N.to_nat t). split; [lia|].
  apply in_seq. lia.
Qed.

Definition scope_state (n : nat) (s : state) : bool := forallb (scope_thread s) (thread_list n).

Theorem scope_state_sound n s :
  Beyond n s -> scope_state n s = true -> GenBound s /\ DstEmpty s /\ CloneSrcCmd s.
Proof.
  intros B H.
  assert (A : forall t, Scope_at s t).
  { intros t. destruct (N.lt_ge_cases t (N.of_nat n)) as [Hlt|Hge].
    - apply scope_thread_sound. apply (proj1 (forallb_forall _ _) H). apply thread_list_in. exact Hlt.
    - apply no_thread_scope. apply B. exact Hge. }
  split; [|split].
  - intros t. apply (A t).
  - intros t. apply (A t).
  - intros t. apply (A t).
Qed.

(** ** The checker *)
(** Walks along the schedule, carrying the state: every state passes [scope_state], every
    scheduled step passes [scope_alloc]. *)
Fixpoint run_b (cf : config) (n : nat) (s : state) (sched : list (N * N)) : bool :=
  scope_state n s &&
  match sched with
  | [] => true
  | (t, x) :: rest => scope_alloc s t x && run_b cf n (fst (step cf s t x)) rest
  end.

Lemma St_0 cf s sched : St cf s sched 0 = s.
Proof. reflexivity. Qed.

Lemma St_nil cf s k : St cf s [] k = s.
Proof. unfold St. rewrite firstn_nil. reflexivity. Qed.

Lemma St_cons cf s t x sched k : St cf s ((t, x) :: sched) (S k) = St cf (fst (step cf s t x)) sched k.
Proof. reflexivity. Qed.

Theorem run_b_sound cf n : forall sched s, Beyond n s -> run_b cf n s sched = true ->
  (forall k, GenBound (St cf s sched k) /\ DstEmpty (St cf s sched k) /\ CloneSrcCmd (St cf s sched k)) /\
  (forall k t x, nth_error sched k = Some (t, x) -> alloc_ok (St cf s sched k) t x).
Proof.
  induction sched as [|[t x] sched IH]; intros s B H; cbn [run_b] in H; apply andb_true_iff in H as [Hs H].
  - split.
    + intros k. rewrite St_nil. apply (scope_state_sound n); assumption.
    + intros [|k] t x Hk; discriminate Hk.
  - apply andb_true_iff in H as [Ha H].
    destruct (IH _ (Beyond_step cf n s t x B) H) as [IH1 IH2]. split.
    + intros [|k]; [rewrite St_0; apply (scope_state_sound n); assumption|].
      rewrite St_cons. apply IH1.
    + intros [|k] t' x' Hk.
      * injection Hk as <- <-. rewrite St_0. apply scope_alloc_sound. exact Ha.
      * rewrite St_cons. apply IH2. exact Hk.
Qed.

Definition inits_b (inits : list N) : bool :=
  forallb (fun a => (a =? 0) || (negb (a =? 0) && negb (a =? NONE))) inits.

Lemma inits_b_sound inits : inits_b inits = true -> inits_ok inits.
Proof.
  intros H a Ha. apply (proj1 (forallb_forall _ _) H) in Ha.
  apply orb_true_iff in Ha as [Ha|Ha]; [left; apply N.eqb_eq; exact Ha|right].
  apply andb_true_iff in Ha as [H1 H2]. apply negb_true_iff in H1, H2.
  split; apply N.eqb_neq; assumption.
Qed.

Definition cmd_b (c : cmd) : bool :=
  match c with CSetGen _ | CCacheNew _ _ | CCacheLoad _ => false | _ => true end.

Definition progs_b (progs : list (list cmd)) : bool := forallb (forallb cmd_b) progs.

Lemma progs_b_sound progs : progs_b progs = true -> progs_ok progs.
Proof.
  intros H.
  assert (A : forall p c, In p progs -> In c p -> cmd_b c = true).
  { intros p c Hp Hc. apply (proj1 (forallb_forall _ _) H) in Hp. exact (proj1 (forallb_forall _ _) Hp c Hc). }
  split.
  - intros p Hp g Hin. specialize (A p _ Hp Hin). discriminate A.
  - intros p c Hp Hc. specialize (A p c Hp Hc). destruct c; try exact I; discriminate A.
Qed.

Definition runok_b (cf : config) (inits : list N) (progs : list (list cmd)) (sched : list (N * N)) : bool :=
  inits_b inits && progs_b progs && run_b cf (length progs) (init_state inits progs) sched.

Theorem runok_b_sound cf inits progs sched : runok_b cf inits progs sched = true -> RunOK cf inits progs sched.
Proof.
  intros H. apply andb_true_iff in H as [H Hr]. apply andb_true_iff in H as [Hi Hp].
  destruct (run_b_sound cf (length progs) sched _ (Beyond_init inits progs) Hr) as [H1 H2].
  constructor; [apply inits_b_sound; exact Hi|apply progs_b_sound; exact Hp|exact H1|exact H2].
Qed.
