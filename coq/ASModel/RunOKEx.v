(** * ASModel.RunOKEx — non-vacuity of [Main.RunOK].

    The executable mirror [Scope.scope_thread]/[Scope.scope_alloc] of the per-state hypotheses
    of [RunOK] is proven sound; threads beyond the programs are [no_thread] in every state of a
    run, so the hypotheses (universally quantified over all thread numbers) reduce to a finite
    check; [runok_b] is a boolean checker with [runok_b ... = true -> RunOK ...].  It is then run
    ([vm_compute]) on a concrete concurrent run: two threads on one container, fallback-only
    strategy, the reader publishes its request and is HELPED by the writer. *)
From Coq Require Import Lia.
From ASModel Require Import Base State Orderings_gen Step Run Progress Hist Inv InvTl InvProto InvStep Sum StepCases.
From ASModel Require Import GenDefs Gen1 Gen2 Gen AccDefs Acc2 Acc Prot11 Safe2 Safe8 Safe Scope Main.

(** ** Threads beyond the programs *)
Lemma init_threads_beyond progs : forall t f t0,
  t + N.of_nat (length progs) <= t0 -> init_threads progs t f t0 = f t0.
Proof.
  induction progs as [|p progs IH]; intros t f t0 H; [reflexivity|].
  cbn [init_threads]. rewrite IH by (cbn [length] in H; lia).
  apply upd_other. cbn [length] in H. lia.
Qed.

Lemma init_state_beyond inits progs t :
  N.of_nat (length progs) <= t -> thr (init_state inits progs) t = no_thread.
Proof. intros H. cbn. apply init_threads_beyond. lia. Qed.

Lemma step_not_running cf s t x : t_status (thr s t) <> Running -> fst (step cf s t x) = s.
Proof. intros H. unfold step. destruct (t_status (thr s t)); [elim H|..]; reflexivity. Qed.

Lemma step_no_thread cf s t x t0 : thr s t0 = no_thread -> thr (fst (step cf s t x)) t0 = no_thread.
Proof.
  intros H. destruct (N.eq_dec t t0) as [->|Hne].
  - rewrite step_not_running; [exact H|]. rewrite H. discriminate.
  - rewrite step_other by exact Hne. exact H.
Qed.

Lemma run_no_thread cf t0 : forall sched s, thr s t0 = no_thread -> thr (run_state cf s sched) t0 = no_thread.
Proof.
  induction sched as [|[t x] sched IH]; intros s H; [exact H|].
  rewrite run_state_cons. apply IH. apply step_no_thread. exact H.
Qed.

(** All threads from number [n] on are [no_thread]. *)
Definition Beyond (n : nat) (s : state) : Prop := forall t, N.of_nat n <= t -> thr s t = no_thread.

Lemma Beyond_init inits progs : Beyond (length progs) (init_state inits progs).
Proof. intros t H. apply init_state_beyond. exact H. Qed.

Lemma Beyond_step cf n s t x : Beyond n s -> Beyond n (fst (step cf s t x)).
Proof. intros H t0 Ht. apply step_no_thread. apply H. exact Ht. Qed.

Lemma Beyond_run cf n sched s : Beyond n s -> Beyond n (run_state cf s sched).
Proof. intros H t0 Ht. apply run_no_thread. apply H. exact Ht. Qed.
