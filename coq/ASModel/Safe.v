(** * ASModel.Safe — C01: no step touches the count of a destroyed value, and no step faults.

    [no_dead_access]: in a state satisfying the accounting invariant [AccInv] (Acc), the
    protection invariant [ProtInv'] (Prot), [ValOK] (Safe1) and the program hypothesis
    [CloneSrc] (Safe7), the step of any frame of any running thread never answers
    [FDeadInc]/[FDeadDec]; handing a value down the stack ([unwind]) touches no count at all.
    [step_NoFault]: with the typing invariant ([Typed.Typed]: no [FBadChoice]) and a scheduler
    that offers fresh valid addresses to allocations ([alloc_ok]: no [FBadAlloc]), a state
    without faulted thread steps to a state without faulted thread.  This is the fact that all
    the step theorems of the other invariants assume ([NoFault] of the next state). *)
From Coq Require Import Lia.
From ASModel Require Import Base State Orderings_gen Step Run Progress Hist Inv InvTl InvProto InvStep Sum StepCases.
From ASModel Require Import GenDefs Gen1 Gen2 AccDefs Acc1 Acc2 Acc3 Acc4 Acc5 Acc6 Acc7 Acc.
From ASModel Require Import ProtDefs Prot1 Prot11 Typed Safe1 Safe2 Safe3 Safe4 Safe5 Safe6 Safe7.

Theorem no_dead_access cf s t x p rest s1 l1 evs nx :
  AccInv s -> ProtInv' s -> ValOK s -> CloneSrc s ->
  t_status (thr s t) = Running -> t_stack (thr s t) = p :: rest ->
  exec cf (sh s) (t_loc (thr s t)) p x = (s1, l1, evs, nx) ->
  forall a, nx <> NFault (FDeadInc a) /\ nx <> NFault (FDeadDec a).
Proof.
  intros AI PI VO CS Hr Hst He a.
  assert (H : ~ (nx = NFault (FDeadInc a) \/ nx = NFault (FDeadDec a))); [|tauto].
  intros Hn. destruct (exec_dead _ _ _ _ _ _ _ _ _ a He Hn) as [Hsite Hheap].
  pose proof (site_alive s t p rest a AI PI VO CS Hr Hst Hsite) as Hc.
  apply (ai_alive _ AI) in Hheap. lia.
Qed.

(** [resume] and [unwind] do not touch counts: their only fault is [FBadChoice]. *)
Lemma rcu_attempt_fault cf l c m p d l' f : rcu_attempt cf l c m p d = (l', NFault f) -> f = FBadChoice.
Proof. unfold rcu_attempt. intros H. destr_in H; discriminate H. Qed.

Lemma resume_fault cf l w v l' f : resume cf l w v = (l', NFault f) -> f = FBadChoice.
Proof.
  intros H. destruct w; cbn in H; destr_in H; try discriminate H; try (injection H as _ <-; reflexivity).
  all: try (eapply rcu_attempt_fault; eassumption).
  all: try (exfalso; revert H; unfold load_body, fallback_entry, dec_then;
            repeat match goal with |- context [if ?b then _ else _] => destruct b
                                 | |- context [match ?e with _ => _ end] => destruct e end; discriminate).
Qed.

Lemma unwind_fault cf : forall rest l v l' f, unwind cf l rest v = UFault l' f -> f = FBadChoice.
Proof.
  induction rest as [|w rest IH]; intros l v l' f H; [discriminate H|].
  destruct (is_bottom_frame w) eqn:Hb.
  - destruct w; try discriminate Hb; cbn in H; discriminate H.
  - assert (E : unwind cf l (w :: rest) v =
                match resume cf l w v with
                | (l', NGoto p) => UStack l' (p :: rest)
                | (l', NPush frames wait) => UStack l' (frames ++ wait :: rest)
                | (l', NRet v') => unwind cf l' rest v'
                | (l', NPanic s) => UPanic l' s
                | (l', NFault f) => UFault l' f
                end) by (destruct w; try discriminate Hb; reflexivity).
    rewrite E in H. destruct (resume cf l w v) as [l2 nx] eqn:Hr.
    destruct nx; try discriminate H.
    + eapply IH; exact H.
    + injection H as _ <-. eapply resume_fault; exact Hr.
Qed.

(** ** No step faults *)
Definition alloc_ok (s : state) (t x : N) : Prop :=
  match t_stack (thr s t) with
  | NewAlloc :: _ | RAlloc _ _ _ _ :: _ => heap (sh s) x = None /\ valid_addr x = true
  | _ => True
  end.

Lemma rc_alloc_some s x : heap s x = None -> valid_addr x = true -> rc_alloc s x <> None.
Proof. intros H1 H2. unfold rc_alloc. rewrite H1, H2. discriminate. Qed.

Theorem step_NoFault cf s t x :
  AccInv s -> ProtInv' s -> ValOK s -> ASModel.Typed.Typed s -> CloneSrc s ->
  NoFault s -> alloc_ok s t x -> NoFault (fst (step cf s t x)).
Proof.
  intros AI PI VO TY CS NF AO t'.
  destruct (N.eq_dec t' t) as [->|Hne]; [|rewrite step_status_other by exact Hne; apply NF].
  destruct (step_cases cf s t x) as [E|c s1 l1 stk r Hr Hst Hc Hen Hcs E|n Hr Hst Hn E|Hr Hst Hn E|p rest s1 l1 evs nx Hr Hst He E];
    rewrite E.
  - apply NF.
  - cbn. rewrite upd_same. unfold start_thread. destruct stk; discriminate.
  - cbn. rewrite upd_same. discriminate.
  - cbn. rewrite upd_same. discriminate.
  - cbn [thr]. rewrite upd_same.
    destruct (no_bad_choice0 cf s t x p rest s1 l1 evs nx TY Hr Hst He) as [Hb1 Hb2].
    unfold thread_after. destruct nx as [p'|fs w|v|ps|f]; cbn [t_status]; try discriminate.
    + specialize (Hb2 v eq_refl). destruct (unwind cf l1 rest v) as [| | | |l2 f] eqn:Hu; cbn [t_status]; try discriminate.
      exfalso. apply (Hb2 l2). rewrite (unwind_fault cf rest l1 v l2 f Hu). reflexivity.
    + exfalso. destruct (exec_fault _ _ _ _ _ _ _ _ _ f He eq_refl) as [(a & Hd)|[(-> & Hp & Hnone)| ->]].
      * destruct (no_dead_access cf s t x p rest s1 l1 evs _ AI PI VO CS Hr Hst He a) as [H1 H2].
        destruct Hd as [->| ->]; [apply H1|apply H2]; reflexivity.
      * unfold alloc_ok in AO. rewrite Hst in AO.
        destruct Hp as [->|(c & m & v & d & ->)]; destruct AO as [A1 A2]; exact (rc_alloc_some _ _ A1 A2 Hnone).
      * apply Hb1. reflexivity.
Qed.

Print Assumptions no_dead_access.
Print Assumptions step_NoFault.
Print Assumptions step_ValOK.
Print Assumptions ValOK_init.
