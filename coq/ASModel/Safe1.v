(** * ASModel.Safe1 — the addresses a thread works with are addresses of values.

    [ValOK]: no container, envelope, handle or frame holds the empty-slot marker [NONE] as the
    address of a value, and the frames that are about to touch a count ([LA6], [LH6a], [LH6c],
    [LH10], [PDec], [GI1], [P1], [PSi], [P6], [PE9], [RInc], [CloneInc]) hold an address that is
    neither null nor [NONE].  Inductive on its own, given that allocation never hands out a bad
    address (in the model: a failed [rc_alloc] is the fault [FBadAlloc]). *)
From Coq Require Import Lia.
From ASModel Require Import Base State Orderings_gen Step Run Progress Hist Inv InvTl InvProto InvStep Sum StepCases.
From ASModel Require Import GenDefs Gen1.

Definition av (x : N) : bool := negb (x =? NONE).

Definition rv (r : retval) : bool :=
  match r with RGuard q _ | ROwned q => av q | _ => true end.

Definition pc_vok (p : pc) : bool :=
  match p with
  | LA1d _ v | LAscan _ v _ | LA3 _ v _ | LA4 _ v _ | LA5 _ v _ => av v
  | LA6 _ v => valid_addr v
  | LH3d _ _ v | LH4 _ _ v | LH5 _ _ v => av v
  | LH6a v => valid_addr v
  | LH6b v => av v
  | LH6c v => valid_addr v
  | LH7 v _ => av v
  | LH8 v _ r | LH9 v r => av v && av r
  | LH10 v r => valid_addr v && av r
  | PDec a r => valid_addr a && rv r
  | GD1 v _ | GI2 v _ => av v
  | GI1 v _ => valid_addr v
  | P1 _ old | PSi _ old _ _ | P6 _ old => valid_addr old
  | P2 _ old | P3 _ old _ | PE0d _ old _ | PE0e _ old _ | PE1 _ old _ | PE2 _ old _ _ | PE3 _ old _ _
  | PE8 _ old _ _ | PS _ old _ _ | P5 _ old _ | WHelpRepl _ old _ _ | WGetPay _ old => av old
  | PE4 _ old _ _ r | PE5 _ old _ _ r _ | PE6 _ old _ _ r _ _ | PE7 _ old _ _ r _ _ => av old && av r
  | PE9 _ old _ _ r => av old && valid_addr r
  | S1 _ new => av new
  | K1 _ _ new v _ => av new && av v
  | RAlloc _ _ v _ => av v
  | RInc _ _ v _ => valid_addr v
  | Q1 _ a _ => av a
  | CloneInc a => valid_addr a
  | WExit r => rv r
  | WSwap old => av old
  | WCasLoad _ _ new | WCasRetry _ _ new => av new
  | WCasPaid p _ => av p
  | WRcuCas _ _ p _ | WRcuInto p _ | WRcuRet p | WRcuNext _ _ p _ => av p
  | WInto p | WDropStore p => av p
  | WCacheReload _ a _ => av a
  | _ => true
  end.

Definition next_vok (nx : next) : bool :=
  match nx with
  | NGoto p => pc_vok p
  | NPush fs w => forallb pc_vok fs && pc_vok w
  | NRet v => rv v
  | _ => true
  end.

Definition mem_vok (s : shared) : Prop :=
  (forall c, av (mem s (LStore c)) = true) /\ (forall e, av (mem s (LEnv e)) = true).

Definition hnd_vok (h : handle) : bool :=
  match h with HOwned a | HGuard a _ | HCache _ a => av a | HEmpty => true end.

Record ValOK (s : state) : Prop := {
  v_mem : mem_vok (sh s);
  v_hnd : forall h, hnd_vok (hnd s h) = true;
  v_stk : forall t, forallb pc_vok (t_stack (thr s t)) = true;
}.

Lemma av_0 : av 0 = true. Proof. reflexivity. Qed.
Lemma valid_av x : valid_addr x = true -> av x = true.
Proof. unfold valid_addr, av. intros H. apply andb_prop in H as [_ H]. exact H. Qed.
Lemma valid_addr_iff x : valid_addr x = true <-> x <> 0 /\ x <> NONE.
Proof.
  unfold valid_addr. rewrite andb_true_iff, !negb_true_iff, !N.eqb_neq. reflexivity.
Qed.
Lemma nz_valid x : (x =? 0) = false -> av x = true -> valid_addr x = true.
Proof. unfold valid_addr, av. intros -> ->. reflexivity. Qed.

(** ** Memory *)
Lemma mem_vok_set s l0 v :
  mem_vok s -> match l0 with LStore _ | LEnv _ => av v = true | _ => True end -> mem_vok (m_set s l0 v).
Proof.
  intros [H1 H2] Hv. split; intros k; cbn; unfold upd.
  - destruct (decide (LStore k = l0)) as [<-|?]; [exact Hv|apply H1].
  - destruct (decide (LEnv k = l0)) as [<-|?]; [exact Hv|apply H2].
Qed.

Lemma mem_vok_same s s' :
  (forall l0, (forall b, l0 <> LCount b) -> mem s' l0 = mem s l0) -> mem_vok s -> mem_vok s'.
Proof. intros Hm [H1 H2]. split; intros k; rewrite Hm by discriminate; auto. Qed.

Lemma mem_vok_node_init s n : mem_vok s -> mem_vok (node_init s n).
Proof.
  intros [H1 H2]. split; intros k.
  - rewrite node_init_store. apply H1.
  - unfold node_init. cbn. destruct (decide (k = n)) as [->|Hne].
    + repeat (rewrite upd_other by discriminate). rewrite upd_same. reflexivity.
    + repeat (rewrite upd_other by (discriminate || congruence)). apply H2.
Qed.

Lemma mem_vok_rc_inc s a s' evs : rc_inc s a = Some (s', evs) -> mem_vok s -> mem_vok s'.
Proof. intros H. apply mem_vok_same. intros l0. eapply rc_inc_other; exact H. Qed.
Lemma mem_vok_rc_dec s a s' evs : rc_dec s a = Some (s', evs) -> mem_vok s -> mem_vok s'.
Proof. intros H. apply mem_vok_same. intros l0. eapply rc_dec_other; exact H. Qed.
Lemma mem_vok_rc_alloc s a s' evs : rc_alloc s a = Some (s', evs) -> mem_vok s -> mem_vok s'.
Proof. intros H. apply mem_vok_same. intros l0. eapply rc_alloc_other; exact H. Qed.

Lemma rc_alloc_valid s a s' evs : rc_alloc s a = Some (s', evs) -> valid_addr a = true.
Proof. unfold rc_alloc. destruct (heap s a); [discriminate|]. destruct (valid_addr a); [reflexivity|discriminate]. Qed.

(** ** The helper functions of [exec] *)
Lemma with_exit_vok l r l' nx : with_exit l r = (l', nx) -> rv r = true -> next_vok nx = true.
Proof.
  unfold with_exit. intros H Hr. destr_in H; injection H as <- <-; cbn; try exact Hr.
Qed.

Lemma fallback_entry_vok cf l c l' nx : fallback_entry cf l c = (l', nx) -> next_vok nx = true.
Proof. unfold fallback_entry. intros H. destr_in H; injection H as <- <-; reflexivity. Qed.

Lemma gen_step_vok cf l c l' nx : gen_step cf l c = (l', nx) -> next_vok nx = true.
Proof. unfold gen_step. intros H. destr_in H; injection H as <- <-; reflexivity. Qed.

Lemma load_body_vok cf l c l' nx : load_body cf l c = (l', nx) -> next_vok nx = true.
Proof.
  unfold load_body. destruct (cf_use_fast cf); [intros [= <- <-]; reflexivity|apply fallback_entry_vok].
Qed.

Lemma enter_load_vok cf l c l' fs : enter_load cf l c = inl (l', fs) -> forallb pc_vok fs = true.
Proof.
  unfold enter_load. intros H. destruct (tl_node l); [|injection H as <- <-; reflexivity].
  destruct (load_body cf _ c) as [l2 nx] eqn:Hb. apply load_body_vok in Hb.
  destruct nx; try discriminate H. injection H as <- <-. cbn in *. rewrite Hb. reflexivity.
Qed.

Lemma pay_body_vok old c : av old = true -> pc_vok (pay_body old c) = true.
Proof.
  intros H. unfold pay_body. destruct (old =? 0) eqn:E; cbn; [exact H|apply nz_valid; assumption].
Qed.

Lemma enter_pay_vok l c old l' fs : enter_pay l c old = (l', fs) -> av old = true -> forallb pc_vok fs = true.
Proof.
  unfold enter_pay. intros H Ho. destruct (tl_node l); injection H as <- <-; cbn.
  - rewrite pay_body_vok by exact Ho. reflexivity.
  - rewrite Ho. reflexivity.
Qed.

Lemma guard_drop_vok p d : av p = true -> forallb pc_vok (guard_drop_frames p d) = true.
Proof.
  intros H. unfold guard_drop_frames. destruct d; cbn; [rewrite H; reflexivity|].
  destruct (p =? 0) eqn:E; cbn; [reflexivity|]. rewrite (nz_valid _ E H). reflexivity.
Qed.

Lemma guard_into_vok p d : av p = true -> forallb pc_vok (guard_into_frames p d) = true.
Proof.
  intros H. unfold guard_into_frames. destruct d; cbn; [|reflexivity].
  destruct (p =? 0) eqn:E; cbn; [rewrite H; reflexivity|]. rewrite (nz_valid _ E H). reflexivity.
Qed.

Lemma help_dispatch_vok cf l c old w ctl : av old = true -> next_vok (help_dispatch cf l c old w ctl) = true.
Proof.
  intros H. unfold help_dispatch.
  repeat match goal with |- context [if ?b then _ else _] => destruct b end; cbn; try exact H; reflexivity.
Qed.

Lemma after_slot_vok c old w j : av old = true -> next_vok (after_slot c old w j) = true.
Proof. intros H. unfold after_slot. destruct (j =? HSLOT); exact H. Qed.

Lemma dec_then_vok a r : av a = true -> rv r = true -> next_vok (dec_then a r) = true.
Proof.
  intros Ha Hr. unfold dec_then. destruct (a =? 0) eqn:E; cbn; [exact Hr|].
  rewrite (nz_valid _ E Ha), Hr. reflexivity.
Qed.

Lemma forallb_app_true {A} (f : A -> bool) l1 l2 :
  forallb f l1 = true -> forallb f l2 = true -> forallb f (l1 ++ l2) = true.
Proof. intros H1 H2. rewrite forallb_app, H1, H2. reflexivity. Qed.

(** ** The frame step *)
Ltac vok_mem :=
  repeat first
    [ assumption
    | apply mem_vok_node_init
    | apply mem_vok_set; [|cbn; unfold slot_loc; try exact I]
    | eapply mem_vok_rc_inc; [eassumption|]
    | eapply mem_vok_rc_dec; [eassumption|]
    | eapply mem_vok_rc_alloc; [eassumption|] ].

Ltac nz_hyps :=
  repeat match goal with
  | H : _ || _ = false |- _ => apply orb_false_elim in H as [? ?]
  | H : negb _ = true |- _ => apply negb_true_iff in H
  end.

Ltac vfin Hm :=
  nz_hyps;
  try match goal with H : guard_drop_frames ?p ?d = _ :: _ |- _ => rewrite <- H end;
  cbn [next_vok pc_vok rv forallb];
  rewrite ?forallb_app; cbn [forallb pc_vok rv];
  repeat match goal with
  | H : enter_load _ _ _ = inl (_, ?fs) |- context [forallb pc_vok ?fs] => rewrite (enter_load_vok _ _ _ _ _ H)
  | H : enter_pay _ _ _ = (_, ?fs) |- context [forallb pc_vok ?fs] =>
      rewrite (enter_pay_vok _ _ _ _ _ H) by first [assumption | apply (proj1 Hm) | apply valid_av; assumption]
  | |- context [forallb pc_vok (guard_drop_frames ?p ?d)] => rewrite (guard_drop_vok p d) by assumption
  | H : rc_alloc _ ?x = Some _ |- _ => rewrite (valid_av _ (rc_alloc_valid _ _ _ _ H))
  | H : (?v =? 0) = false, H2 : av ?v = true |- context [valid_addr ?v] => rewrite (nz_valid v H H2)
  | |- context [av (mem _ (LStore ?c))] => rewrite (proj1 Hm c)
  | |- context [av (mem _ (LEnv ?e))] => rewrite (proj2 Hm e)
  | H : av ?v = true |- context [av ?v] => rewrite H
  | H : valid_addr ?v = true |- context [valid_addr ?v] => rewrite H
  | H : valid_addr ?v = true |- context [av ?v] => rewrite (valid_av _ H)
  end; try reflexivity.

Lemma exec_vok cf s l p x s' l' evs nx :
  mem_vok s -> pc_vok p = true -> exec cf s l p x = (s', l', evs, nx) ->
  mem_vok s' /\ next_vok nx = true.
Proof.
  intros Hm Hp He. destruct p; exec_norm He; cbn [pc_vok] in Hp.
  all: split; [vok_mem|].
  all: repeat match goal with H : _ && _ = true |- _ => apply andb_prop in H as [? ?] end.
    all: try (cbn; reflexivity).
  all: try (cbn; assumption).
  all: try (match goal with
            | H : with_exit _ _ = (_, ?n) |- next_vok ?n = true => apply (with_exit_vok _ _ _ _ H); cbn
            | H : fallback_entry _ _ _ = (_, ?n) |- next_vok ?n = true => exact (fallback_entry_vok _ _ _ _ _ H)
            | H : gen_step _ _ _ = (_, ?n) |- next_vok ?n = true => exact (gen_step_vok _ _ _ _ _ H)
            | |- next_vok (help_dispatch _ _ _ _ _ _) = true => apply help_dispatch_vok
            | |- next_vok (after_slot _ _ _ _) = true => apply after_slot_vok
            | |- next_vok (dec_then _ _) = true => apply dec_then_vok; cbn
            end).
  all: try assumption.
  all: try (apply valid_av; assumption).
  all: try (vfin Hm; fail).
Qed.
