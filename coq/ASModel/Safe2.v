(** * ASModel.Safe2 — [ValOK] (Safe1) is inductive. *)
From Coq Require Import Lia.
From ASModel Require Import Base State Orderings_gen Step Run Progress Hist Inv InvTl InvProto InvStep Sum StepCases.
From ASModel Require Import GenDefs Gen1 Gen2 Gen Safe1.

Lemma rcu_attempt_vok cf l c m p d l' nx :
  av p = true -> rcu_attempt cf l c m p d = (l', nx) -> next_vok nx = true.
Proof.
  intros Hp H. unfold rcu_attempt in H. destr_in H; try discriminate H; injection H as <- <-.
  all: nz_hyps; try match goal with H : guard_drop_frames ?p ?d = _ :: _ |- _ => rewrite <- H end.
  all: cbn [next_vok pc_vok rv forallb]; rewrite ?forallb_app; cbn [forallb pc_vok rv].
  all: repeat match goal with
       | H : enter_load _ _ _ = inl (_, ?fs) |- context [forallb pc_vok ?fs] => rewrite (enter_load_vok _ _ _ _ _ H)
       | |- context [forallb pc_vok (guard_drop_frames ?p ?d)] => rewrite (guard_drop_vok p d) by assumption
       | H : (?v =? 0) = false, H2 : av ?v = true |- context [valid_addr ?v] => rewrite (nz_valid v H H2)
       | H : av ?v = true |- context [av ?v] => rewrite H
       end; reflexivity.
Qed.

Ltac rfin :=
  nz_hyps;
  repeat match goal with
  | H : guard_drop_frames ?p ?d = _ :: _ |- _ => rewrite <- H
  | H : guard_into_frames ?p ?d = _ :: _ |- context [NPush] => rewrite <- H
  end;
  cbn [next_vok pc_vok rv forallb];
  rewrite ?forallb_app; cbn [forallb pc_vok rv];
  repeat match goal with
  | H : enter_load _ _ _ = inl (_, ?fs) |- context [forallb pc_vok ?fs] => rewrite (enter_load_vok _ _ _ _ _ H)
  | |- context [forallb pc_vok (guard_drop_frames ?p ?d)] => rewrite (guard_drop_vok p d) by assumption
  | |- context [forallb pc_vok (guard_into_frames ?p ?d)] => rewrite (guard_into_vok p d) by assumption
  | H : (?v =? 0) = false, H2 : av ?v = true |- context [valid_addr ?v] => rewrite (nz_valid v H H2)
  | H : av ?v = true |- context [av ?v] => rewrite H
  | H : valid_addr ?v = true |- context [valid_addr ?v] => rewrite H
  | H : valid_addr ?v = true |- context [av ?v] => rewrite (valid_av _ H)
  end; try reflexivity.

Lemma resume_vok cf l w v l' nx :
  pc_vok w = true -> rv v = true -> resume cf l w v = (l', nx) -> next_vok nx = true.
Proof.
  intros Hw Hv H. destruct w; cbn [pc_vok] in Hw; cbn in H; destr_in H; try discriminate H.
  all: cbn [rv] in Hv.
  all: repeat match goal with H : _ && _ = true |- _ => apply andb_prop in H as [? ?] end.
  all: try (eapply rcu_attempt_vok; [|eassumption]; assumption).
  all: try (eapply load_body_vok; eassumption).
  all: injection H as <- <-.
  all: try (apply dec_then_vok; cbn [rv]; assumption).
  all: try (apply pay_body_vok; assumption).
  all: try (rfin; fail).
  - exact Hw.
  - pose proof (guard_into_vok p d Hv) as Hg. rewrite Heql0 in Hg. cbn in Hg.
    apply andb_prop in Hg as [Hg _]. exact Hg.
  - apply dec_then_vok; [exact Hw|reflexivity].
Qed.

Lemma hnd_vok_handle_of v : hnd_vok (handle_of v) = rv v.
Proof. destruct v; reflexivity. Qed.

Definition unwound_vok (u : unwound) : Prop :=
  match u with
  | UStack _ stk => forallb pc_vok stk = true
  | UDone _ (Some (_, hv)) _ => hnd_vok hv = true
  | _ => True
  end.

Lemma unwind_vok cf : forall rest l v,
  forallb pc_vok rest = true -> rv v = true -> unwound_vok (unwind cf l rest v).
Proof.
  induction rest as [|w rest IH]; intros l v Hs Hv; [exact I|].
  cbn [forallb] in Hs. apply andb_prop in Hs as [Hw Hs].
  destruct (is_bottom_frame w) eqn:Hb.
  - destruct w; try discriminate Hb; cbn [unwind].
    + exact I.
    + destruct dst; [|exact I]. cbn. rewrite hnd_vok_handle_of. exact Hv.
    + destruct v; try exact I. exact Hv.
  - assert (E : unwind cf l (w :: rest) v =
                match resume cf l w v with
                | (l', NGoto p) => UStack l' (p :: rest)
                | (l', NPush frames wait) => UStack l' (frames ++ wait :: rest)
                | (l', NRet v') => unwind cf l' rest v'
                | (l', NPanic s) => UPanic l' s
                | (l', NFault f) => UFault l' f
                end) by (destruct w; try discriminate Hb; reflexivity).
    rewrite E. destruct (resume cf l w v) as [l' nx] eqn:Hr.
    pose proof (resume_vok _ _ _ _ _ _ Hw Hv Hr) as Hn.
    destruct nx as [p|fs wt|v'| |]; cbn in Hn |- *; try exact I.
    + rewrite Hn, Hs. reflexivity.
    + apply andb_prop in Hn as [H1 H2]. rewrite forallb_app. cbn. rewrite H1, H2, Hs. reflexivity.
    + apply IH; assumption.
Qed.

(** ** A command starts *)
Lemma hnd_vok_upd (hs : N -> handle) k hv :
  (forall h, hnd_vok (hs h) = true) -> hnd_vok hv = true -> forall h, hnd_vok (upd hs k hv h) = true.
Proof. intros H Hv h. unfold upd. destruct (decide (h = k)); [exact Hv|apply H]. Qed.

Lemma src_val_vok s v a : (forall h, hnd_vok (hnd s h) = true) -> src_val s v = Some a -> av a = true.
Proof.
  intros H. destruct v as [|h]; cbn; [intros [= <-]; reflexivity|].
  pose proof (H h) as Hh. destruct (hnd s h); try discriminate; intros [= <-]; exact Hh.
Qed.

Lemma consume_vok s v : (forall h, hnd_vok (hnd s h) = true) -> forall h, hnd_vok (hnd (consume s v) h) = true.
Proof. intros H. destruct v; cbn; [exact H|]. apply hnd_vok_upd; [exact H|reflexivity]. Qed.

Lemma cmd_start_vok cf s l c s1 l1 stk r :
  mem_vok (sh s) -> (forall h, hnd_vok (hnd s h) = true) ->
  cmd_start cf s l c = inl (s1, l1, stk, r) ->
  mem_vok (sh s1) /\ (forall h, hnd_vok (hnd s1 h) = true) /\ forallb pc_vok stk = true.
Proof.
  intros Hm Hh Hc. destruct c; cbn in Hc; destr_in Hc; try discriminate Hc; injection Hc as <- <- <- <-.
  all: repeat match goal with
       | H : src_val _ _ = Some _ |- _ => apply (src_val_vok _ _ _ Hh) in H
       | H : hnd _ ?h = _ |- _ => pose proof (Hh h) as ?Hv; rewrite H in Hv; cbn [hnd_vok] in Hv; clear H
       end.
  all: cbn [sh hnd].
  all: split; [try exact Hm; try (apply mem_vok_set; [exact Hm|reflexivity]);
               try (match goal with |- mem_vok (sh (consume _ ?v)) => destruct v; exact Hm end)|].
  all: split; [try exact Hh; try (apply consume_vok; exact Hh);
               repeat (apply hnd_vok_upd; try exact Hh; try reflexivity; try assumption); try apply Hh|].
  all: nz_hyps.
  all: repeat match goal with
       | H : guard_drop_frames ?p ?d = _ :: _ |- _ => rewrite <- H
       | H : guard_into_frames ?p ?d = _ :: _ |- _ => rewrite <- H
       end.
  all: rewrite ?forallb_app; cbn [forallb pc_vok rv].
  all: repeat match goal with
       | H : enter_load _ _ _ = inl (_, ?fs) |- context [forallb pc_vok ?fs] => rewrite (enter_load_vok _ _ _ _ _ H)
       | H : enter_pay _ _ _ = (_, ?fs) |- context [forallb pc_vok ?fs] =>
           rewrite (enter_pay_vok _ _ _ _ _ H) by apply (proj1 Hm)
       | |- context [forallb pc_vok (guard_drop_frames ?p ?d)] => rewrite (guard_drop_vok p d) by assumption
       | |- context [forallb pc_vok (guard_into_frames ?p ?d)] => rewrite (guard_into_vok p d) by assumption
       | H : (?v =? 0) = false, H2 : av ?v = true |- context [valid_addr ?v] => rewrite (nz_valid v H H2)
       | |- context [av (mem _ (LStore ?c))] => rewrite (proj1 Hm c)
       | H : av ?v = true |- context [av ?v] => rewrite H
       end; try reflexivity.
  - pose proof (guard_drop_vok a d Hv) as Hg. rewrite Heql0 in Hg. cbn in Hg.
    apply andb_prop in Hg as [-> Hg]. rewrite forallb_app, Hg. reflexivity.
  - pose proof (guard_into_vok a d Hv) as Hg. rewrite Heql0 in Hg. cbn in Hg.
    apply andb_prop in Hg as [-> Hg]. rewrite forallb_app, Hg. reflexivity.
Qed.

(** ** Every step *)
Theorem step_ValOK cf s t x : ValOK s -> ValOK (fst (step cf s t x)).
Proof.
  intros [Hm Hh Hs].
  destruct (step_cases cf s t x) as [E|c s1 l1 stk r Hr Hst Hc Hen Hcs E|n Hr Hst Hn E|Hr Hst Hn E|p rest s1 l1 evs nx Hr Hst He E];
    rewrite E.
  - constructor; assumption.
  - destruct (cmd_start_vok _ _ _ _ _ _ _ _ Hm Hh Hcs) as (Hm1 & Hh1 & Hs1).
    assert (Ht : thr s1 = thr s).
    { clear -Hcs. destruct c; cbn in Hcs; destr_in Hcs; try discriminate Hcs; injection Hcs as <- <- <- <-;
        try reflexivity; match goal with |- thr (consume _ ?v) = _ => destruct v; reflexivity end. }
    constructor; cbn; [exact Hm1|exact Hh1|].
    intros t'. unfold upd. destruct (decide (t' = t)); [|rewrite Ht; apply Hs].
    unfold start_thread. destruct stk; [reflexivity|exact Hs1].
  - constructor; cbn; [exact Hm|exact Hh|]. intros t'. unfold upd. destruct (decide (t' = t)); [reflexivity|apply Hs].
  - constructor; cbn; [exact Hm|exact Hh|]. intros t'. unfold upd. destruct (decide (t' = t)); [reflexivity|apply Hs].
  - pose proof (Hs t) as Hst'. rewrite Hst in Hst'. cbn [forallb] in Hst'. apply andb_prop in Hst' as [Hp Hrest].
    destruct (exec_vok _ _ _ _ _ _ _ _ _ Hm Hp He) as [Hm1 Hn].
    assert (Hu : forall v, nx = NRet v -> unwound_vok (unwind cf l1 rest v)).
    { intros v ->. apply unwind_vok; [exact Hrest|exact Hn]. }
    constructor; cbn [sh hnd thr].
    + exact Hm1.
    + unfold hnd_after. destruct nx as [| |v| |]; try exact Hh. specialize (Hu v eq_refl).
      destruct (unwind cf l1 rest v) as [| ? [[k hv]|] ? | | |]; try exact Hh. apply hnd_vok_upd; [exact Hh|exact Hu].
    + intros t'. unfold upd. destruct (decide (t' = t)); [|apply Hs].
      unfold thread_after. destruct nx as [p'|fs w|v| |]; cbn [t_stack next_vok] in *.
      * cbn. rewrite Hn, Hrest. reflexivity.
      * apply andb_prop in Hn as [H1 H2]. rewrite forallb_app. cbn. rewrite H1, H2, Hrest. reflexivity.
      * specialize (Hu v eq_refl). destruct (unwind cf l1 rest v); cbn; try reflexivity. exact Hu.
      * exact Hrest.
      * exact Hrest.
Qed.

Lemma run_ValOK cf : forall sched s, ValOK s -> ValOK (run_state cf s sched).
Proof.
  induction sched as [|[t x] sched IH]; intros s H; [exact H|].
  rewrite run_state_cons. apply IH. apply step_ValOK. exact H.
Qed.

(** ** The initial state *)
Lemma init_stores_vok : forall inits c s,
  (forall a, In a inits -> av a = true) -> mem_vok s -> mem_vok (init_stores inits c s).
Proof.
  induction inits as [|a inits IH]; intros c s Hi Hm; [exact Hm|]. cbn [init_stores]. apply IH.
  - intros b Hb. apply Hi. right. exact Hb.
  - assert (H1 : mem_vok (m_set s (LStore c) a)) by (apply mem_vok_set; [exact Hm|apply Hi; left; reflexivity]).
    destruct (a =? 0); [exact H1|]. destruct (heap _ a).
    + apply mem_vok_set; [exact H1|exact I].
    + eapply mem_vok_same; [|exact H1]. intros l0 Hl0. cbn. apply upd_other. apply Hl0.
Qed.

Definition inits_ok (inits : list N) : Prop := forall a, In a inits -> a = 0 \/ (a <> 0 /\ a <> NONE).

Theorem ValOK_init inits progs : inits_ok inits -> ValOK (init_state inits progs).
Proof.
  intros Hi. constructor.
  - apply init_stores_vok.
    + intros a Ha. destruct (Hi a Ha) as [->|[_ H]]; [reflexivity|]. unfold av. apply negb_true_iff, N.eqb_neq. exact H.
    + split; intros k; reflexivity.
  - intros h. reflexivity.
  - intros t. cbn. destruct (init_threads_stack progs 0 (fun _ => no_thread) t) as (-> & _); [cbn; auto|reflexivity].
Qed.
