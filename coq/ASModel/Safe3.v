(** * ASModel.Safe3 — finite sums: linearity, order, exchange of two sums, a common domain for
    two finitely supported functions. *)
From Coq Require Import List NArith Lia Permutation.
From ASModel Require Import Base State Sum.
Import ListNotations.
Local Open Scope N_scope.

Section One.
Context {A : Type}.

Lemma fsum_add (d : list A) f g : fsum d (fun k => f k + g k) = fsum d f + fsum d g.
Proof. induction d as [|k d IH]; cbn; [reflexivity|]. rewrite IH. lia. Qed.

Lemma fsum_le (d : list A) f g : (forall k, In k d -> f k <= g k) -> fsum d f <= fsum d g.
Proof.
  induction d as [|k d IH]; intros H; cbn; [lia|].
  pose proof (H k (or_introl eq_refl)). assert (fsum d f <= fsum d g) by (apply IH; intros; apply H; right; assumption). lia.
Qed.

Lemma fsum_in_le (d : list A) f k : In k d -> f k <= fsum d f.
Proof.
  induction d as [|k0 d IH]; intros H; [destruct H|]. cbn. destruct H as [->|H]; [lia|]. specialize (IH H). lia.
Qed.

Lemma fsum_in2_le (d : list A) f k1 k2 : List.NoDup d -> In k1 d -> In k2 d -> k1 <> k2 -> f k1 + f k2 <= fsum d f.
Proof.
  induction d as [|k0 d IH]; intros Nd H1 H2 Hne; [destruct H1|]. cbn. inversion Nd as [|? ? Hn Nd']; subst.
  destruct H1 as [->|H1], H2 as [->|H2].
  - congruence.
  - pose proof (fsum_in_le d f k2 H2). lia.
  - pose proof (fsum_in_le d f k1 H1). lia.
  - specialize (IH Nd' H1 H2 Hne). lia.
Qed.

Lemma fsum_flat_map {B} (d : list A) (F : A -> list B) (g : B -> N) :
  fsum (flat_map F d) g = fsum d (fun k => fsum (F k) g).
Proof. induction d as [|k d IH]; cbn; [reflexivity|]. rewrite fsum_app, IH. reflexivity. Qed.
End One.

(** Exchange of two finite sums. *)
Lemma fsum_swap {A B} (d1 : list A) (d2 : list B) (f : A -> B -> N) :
  fsum d1 (fun i => fsum d2 (f i)) = fsum d2 (fun j => fsum d1 (fun i => f i j)).
Proof.
  induction d1 as [|i d1 IH]; cbn.
  - symmetry. apply fsum_zero. reflexivity.
  - rewrite IH, <- fsum_add. reflexivity.
Qed.

Section Common.
Context {A : Type} `{EqDecision A}.

(** Two finitely supported functions and any finite set of points share a domain. *)
Lemma Total_common (f g : A -> N) n m (extra : list A) :
  Total f n -> Total g m ->
  exists d, List.NoDup d /\ (forall k, In k extra -> In k d) /\
            (forall k, f k <> 0 -> In k d) /\ (forall k, g k <> 0 -> In k d) /\
            fsum d f = n /\ fsum d g = m.
Proof.
  intros (d1 & [N1 C1] & E1) (d2 & [N2 C2] & E2).
  set (d := nodup adec (extra ++ d1 ++ d2)).
  assert (Nd : List.NoDup d) by apply NoDup_nodup.
  assert (Cf : forall k, f k <> 0 -> In k d).
  { intros k Hk. apply nodup_In, in_or_app. right. apply in_or_app. left. apply C1. exact Hk. }
  assert (Cg : forall k, g k <> 0 -> In k d).
  { intros k Hk. apply nodup_In, in_or_app. right. apply in_or_app. right. apply C2. exact Hk. }
  exists d. split; [exact Nd|]. split; [|split; [exact Cf|split; [exact Cg|split]]].
  - intros k Hk. apply nodup_In, in_or_app. left. exact Hk.
  - rewrite <- E1. apply (Total_unique f); [exists d|exists d1]; (split; [split|reflexivity]); auto.
  - rewrite <- E2. apply (Total_unique g); [exists d|exists d2]; (split; [split|reflexivity]); auto.
Qed.
End Common.
