(** * ASModel.Safe4 — counting debt claims against slots.

    For a value [a]: the slots that hold [a] are claimed ([SlotClaimed]), different slots by
    different claims, so the number of slots holding [a] is at most the number of claims on
    [a] that frames and handles list; a slot that is claimed twice, or claimed while it does
    not hold [a], makes the inequality strict. *)
From Coq Require Import Lia.
From ASModel Require Import Base State Orderings_gen Step Run Inv Sum.
From ASModel Require Import AccDefs Acc1 ProtDefs Safe3.

Lemma slot_eqb_eq (x y : slot) : slot_eqb x y = true <-> x = y.
Proof.
  destruct x as [n j], y as [n' j']. unfold slot_eqb. cbn. rewrite andb_true_iff, !N.eqb_eq.
  split; [intros [-> ->]; reflexivity|intros [= -> ->]; auto].
Qed.

Section Claims.
Variable a : N.

Definition isc (cl : slot * N) : N := is a (snd cl).
Definition hit (sl : slot) (cl : slot * N) : N := ind (slot_eqb sl (fst cl) && (snd cl =? a)).

Definition cls (s : state) (i : idx) : list (slot * N) :=
  match i with
  | IThread t => stack_claims (thr s t)
  | IHandle h => handle_claims (hnd s h)
  | _ => []
  end.

Definition Cw (s : state) (i : idx) : N := fsum (cls s i) isc.
Definition occ (s : state) (d : list idx) (sl : slot) : N := fsum d (fun i => fsum (cls s i) (hit sl)).

Definition slots_of (d : list idx) : list slot :=
  flat_map (fun i => match i with ISlot n j => [(n, j)] | _ => [] end) d.

Lemma hit_le sl c : hit sl c <= isc c.
Proof.
  unfold hit, isc, is, ind. destruct (slot_eqb sl (fst c)); cbn; [|destruct (snd c =? a); lia].
  destruct (snd c =? a); lia.
Qed.

Lemma hit_sum D c : List.NoDup D -> fsum D (fun sl => hit sl c) <= isc c.
Proof.
  induction D as [|sl D IH]; intros Nd; cbn; [lia|]. inversion Nd as [|? ? Hn Nd']; subst.
  specialize (IH Nd'). unfold hit at 1. destruct (slot_eqb sl (fst c)) eqn:E; cbn [andb ind]; [|lia].
  apply slot_eqb_eq in E. rewrite (fsum_zero D).
  - pose proof (hit_le sl c) as H. unfold hit in H. rewrite (proj2 (slot_eqb_eq sl (fst c)) E) in H. cbn in H. lia.
  - intros sl' Hin. unfold hit. destruct (slot_eqb sl' (fst c)) eqn:E'; [|reflexivity].
    apply slot_eqb_eq in E'. subst. contradiction.
Qed.

(** The exchange: claims that hit distinct slots are distinct claims. *)
Lemma occ_le s d D : List.NoDup D -> fsum D (occ s d) <= fsum d (Cw s).
Proof.
  intros Nd. unfold occ. rewrite fsum_swap. apply fsum_le. intros i _. rewrite fsum_swap.
  unfold Cw. apply fsum_le. intros c _. apply hit_sum. exact Nd.
Qed.

Lemma in_slots_of d n j : In (n, j) (slots_of d) <-> In (ISlot n j) d.
Proof.
  unfold slots_of. rewrite in_flat_map. split.
  - intros (i & Hi & Hin). destruct i; try (destruct Hin; fail). destruct Hin as [[= -> ->]|[]]. exact Hi.
  - intros H. exists (ISlot n j). split; [exact H|left; reflexivity].
Qed.

Lemma slots_of_nodup d : List.NoDup d -> List.NoDup (slots_of d).
Proof.
  induction d as [|i d IH]; intros Nd; [constructor|]. inversion Nd as [|? ? Hn Nd']; subst.
  specialize (IH Nd'). destruct i; try exact IH. cbn. constructor; [|exact IH].
  intros H. apply in_slots_of in H. contradiction.
Qed.

Lemma fsum_slots d (g : slot -> N) :
  fsum d (fun i => match i with ISlot n j => g (n, j) | _ => 0 end) = fsum (slots_of d) g.
Proof.
  induction d as [|i d IH]; [reflexivity|]. cbn [fsum]. rewrite IH. destruct i; cbn; try reflexivity.
Qed.

(** One claimant, two claimants. *)
Lemma hit_in s i sl : In (sl, a) (cls s i) -> 1 <= fsum (cls s i) (hit sl).
Proof.
  intros H. etransitivity; [|apply (fsum_in_le _ _ (sl, a) H)]. unfold hit. cbn.
  rewrite (proj2 (slot_eqb_eq sl sl) eq_refl), N.eqb_refl. cbn. lia.
Qed.

Lemma occ_one s d i sl : In i d -> In (sl, a) (cls s i) -> 1 <= occ s d sl.
Proof.
  intros Hi Hc. unfold occ. etransitivity; [apply (hit_in s i sl Hc)|].
  apply (fsum_in_le d (fun i => fsum (cls s i) (hit sl)) i Hi).
Qed.

Lemma occ_two s d i1 i2 sl : List.NoDup d -> In i1 d -> In i2 d -> i1 <> i2 ->
  In (sl, a) (cls s i1) -> In (sl, a) (cls s i2) -> 2 <= occ s d sl.
Proof.
  intros Nd H1 H2 Hne C1 C2. unfold occ.
  pose proof (fsum_in2_le d (fun i => fsum (cls s i) (hit sl)) i1 i2 Nd H1 H2 Hne) as H. cbn in H.
  pose proof (hit_in s i1 sl C1). pose proof (hit_in s i2 sl C2). lia.
Qed.

Lemma Cw_in s i sl : In (sl, a) (cls s i) -> 1 <= Cw s i.
Proof.
  intros H. unfold Cw. etransitivity; [|apply (fsum_in_le _ _ (sl, a) H)]. unfold isc. cbn. rewrite is_same. lia.
Qed.
End Claims.
