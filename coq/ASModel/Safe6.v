(** * ASModel.Safe6 — a lower bound for the count of a value.

    From the accounting equation ([Acc_at]): count = (references - claims - owed) +
    (claims - slots holding the value).  Both brackets are sums of non-negative terms
    ([stack_bal] of Safe5, [occ_le] of Safe4 with [SlotClaimed]); one positive term makes the
    count positive. *)
From Coq Require Import Lia.
From ASModel Require Import Base State Orderings_gen Step Run Inv Sum.
From ASModel Require Import AccDefs Acc1 ProtDefs Safe3 Safe4 Safe5.

Section Lower.
Variable a : N.
Hypothesis Ha : valid a.
Variable s : state.
Hypothesis HA : Acc_at a s.
Hypothesis HS : PayShape s.
Hypothesis HC : SlotClaimed s.

Definition isat (sl : slot) : N := is a (mem (sh s) (slot_loc sl)).

Definition LS (i : idx) : N := match i with ISlot n j => isat (n, j) | _ => 0 end.
Definition LP (i : idx) : N := match i with IThread t => spend a (t_stack (thr s t)) | _ => 0 end.

(** What index [i] owns. *)
Definition Ow (i : idx) : N :=
  match i with
  | IThread t => fsum (t_stack (thr s t)) (own a (mem (sh s)) (t_loc (thr s t)))
  | IHandle h => href a (hnd s h) - Cw a s i
  | _ => Rw a s i
  end.

Lemma handle_claims_le h : fsum (handle_claims h) (isc a) <= href a h.
Proof.
  destruct h as [|x|x d|c x]; cbn; try lia. destruct d; cbn; unfold isc; cbn; lia.
Qed.

Lemma idx_bal i : Cw a s i + LP i + Ow i <= Rw a s i.
Proof.
  destruct i as [n j|c|w|t|h]; cbn [Cw cls LP Ow Rw fsum]; try lia.
  - unfold Cw. cbn [cls]. unfold stack_claims. apply stack_bal; [exact Ha|apply HS].
  - unfold Cw. cbn [cls]. pose proof (handle_claims_le (hnd s h)) as H. lia.
Qed.

Lemma Lw_split i : Lw a s i = LS i + LP i.
Proof. destruct i; cbn [Lw LS LP]; unfold isat, slot_loc; cbn [fst snd]; lia. Qed.

Lemma claimant_in d i sl : (forall k, Rw a s k <> 0 -> In k d) -> In (sl, a) (cls s i) -> In i d.
Proof.
  intros Hd Hc. apply Hd. pose proof (Cw_in a s i sl Hc). pose proof (idx_bal i). lia.
Qed.

(** Every slot that holds [a] is hit by a claim of the domain. *)
Lemma isat_occ d sl : (forall k, Rw a s k <> 0 -> In k d) -> isat sl <= occ a s d sl.
Proof.
  intros Hd. unfold isat, is, ind, slot_loc. destruct sl as [n j]. cbn [fst snd].
  destruct (N.eqb_spec (mem (sh s) (LSlot n j)) a) as [E|]; [|lia].
  destruct (HC n j a Ha E) as [(t & Hin)|(h & Hin)].
  - apply (occ_one a s d (IThread t) (n, j)); [|exact Hin]. eapply claimant_in; [exact Hd|exact Hin].
  - apply (occ_one a s d (IHandle h) (n, j)); [|exact Hin]. eapply claimant_in; [exact Hd|exact Hin].
Qed.

Theorem count_ge (extra : list idx) (e : slot -> N) :
  (forall d, List.NoDup d -> (forall k, In k extra -> In k d) -> (forall k, Rw a s k <> 0 -> In k d) ->
             forall sl, In sl (slots_of d) -> isat sl + e sl <= occ a s d sl) ->
  exists d, (forall k, In k extra -> In k d) /\
            fsum (slots_of d) e + fsum d Ow <= mem (sh s) (LCount a).
Proof.
  intros He. destruct HA as (nL & nR & TL & TR & E).
  destruct (Total_common (Lw a s) (Rw a s) nL nR extra TL TR) as (d & Nd & Hex & _ & Hcov & EL & ER).
  exists d. split; [exact Hex|]. specialize (He d Nd Hex Hcov).
  assert (E1 : fsum d (Lw a s) = fsum (slots_of d) isat + fsum d LP).
  { rewrite (fsum_ext d (Lw a s) (fun i => LS i + LP i)) by (intros; apply Lw_split).
    rewrite fsum_add. f_equal. unfold LS. apply fsum_slots. }
  assert (E2 : fsum d (Cw a s) + fsum d LP + fsum d Ow <= fsum d (Rw a s)).
  { rewrite <- !fsum_add. apply fsum_le. intros i _. apply idx_bal. }
  assert (E3 : fsum (slots_of d) (fun sl => isat sl + e sl) <= fsum d (Cw a s)).
  { etransitivity; [|apply (occ_le a s d (slots_of d)); apply slots_of_nodup; exact Nd].
    apply fsum_le. exact He. }
  rewrite fsum_add in E3. lia.
Qed.

(** (A) Somebody owns a reference. *)
Theorem count_owner i : 1 <= Ow i -> 1 <= mem (sh s) (LCount a).
Proof.
  intros Hi. destruct (count_ge [i] (fun _ => 0)) as (d & Hex & Hle).
  - intros d Nd Hex Hcov sl _. rewrite N.add_0_r. apply isat_occ. exact Hcov.
  - pose proof (fsum_in_le d Ow i (Hex i (or_introl eq_refl))). lia.
Qed.

(** (B) A claim on a slot that does not hold the value, or that somebody else claims too. *)
Lemma count_surplus (extra : list idx) n j :
  (forall d, List.NoDup d -> (forall k, In k extra -> In k d) -> (forall k, Rw a s k <> 0 -> In k d) ->
             isat (n, j) + 1 <= occ a s d (n, j)) ->
  1 <= mem (sh s) (LCount a).
Proof.
  intros Hs.
  set (e := fun sl : slot => ind (slot_eqb sl (n, j))).
  destruct (count_ge (ISlot n j :: extra) e) as (d & Hex & Hle).
  - intros d Nd Hex Hcov sl _. unfold e. destruct (slot_eqb sl (n, j)) eqn:Esl; cbn [ind].
    + apply slot_eqb_eq in Esl. subst sl. apply Hs; [exact Nd| |exact Hcov]. intros k Hk. apply Hex. right. exact Hk.
    + rewrite N.add_0_r. apply isat_occ. exact Hcov.
  - assert (Hin : In (n, j) (slots_of d)) by (apply in_slots_of; apply Hex; left; reflexivity).
    pose proof (fsum_in_le (slots_of d) e (n, j) Hin) as H. unfold e at 1 in H.
    rewrite (proj2 (slot_eqb_eq (n, j) (n, j)) eq_refl) in H. cbn [ind] in H. lia.
Qed.

Theorem count_claim_free i0 n j :
  In ((n, j), a) (cls s i0) -> mem (sh s) (LSlot n j) <> a -> 1 <= mem (sh s) (LCount a).
Proof.
  intros Hc Hne. apply (count_surplus [i0] n j). intros d Nd Hex Hcov.
  assert (Hi0 : In i0 d) by (apply Hex; left; reflexivity).
  unfold isat, is, ind, slot_loc. cbn [fst snd]. destruct (N.eqb_spec (mem (sh s) (LSlot n j)) a); [contradiction|].
  pose proof (occ_one a s d i0 (n, j) Hi0 Hc). lia.
Qed.

Theorem count_claim_two i0 i1 n j :
  In ((n, j), a) (cls s i0) -> In ((n, j), a) (cls s i1) -> i1 <> i0 -> 1 <= mem (sh s) (LCount a).
Proof.
  intros Hc Hc1 Hne. apply (count_surplus [i0; i1] n j). intros d Nd Hex Hcov.
  assert (Hi0 : In i0 d) by (apply Hex; left; reflexivity).
  assert (Hi1 : In i1 d) by (apply Hex; right; left; reflexivity).
  pose proof (occ_two a s d i1 i0 (n, j) Nd Hi1 Hi0 Hne Hc1 Hc).
  pose proof (is_le1 a (mem (sh s) (slot_loc (n, j)))). unfold isat. lia.
Qed.
End Lower.
