(** * ASModel.Safe7 — no count access meets a destroyed value (C01).

    [site p]: the address whose count the frame [p] is about to touch.  In a state that
    satisfies the accounting invariant ([AccInv]), the protection invariant ([ProtInv']) and
    [ValOK], the count of that address is positive, hence ([Alive]) the value is alive. *)
From Coq Require Import Lia.
From ASModel Require Import Base State Orderings_gen Step Run Progress Hist Inv InvTl InvProto InvStep Sum StepCases.
From ASModel Require Import GenDefs Gen1 Gen2 AccDefs Acc1 Acc2 Acc3 Acc4 Acc5 Acc6 Acc7 Acc.
From ASModel Require Import ProtDefs Prot1 Prot11 Safe1 Safe2 Safe3 Safe4 Safe5 Safe6.

Definition site (p : pc) : option N :=
  match p with
  | LA6 _ v | LH6a v | LH6c v | LH10 v _ | PDec v _ | GI1 v _ | P1 _ v | PSi _ v _ _ | P6 _ v
  | PE9 _ _ _ _ v | RInc _ _ v _ | CloneInc v => Some v
  | _ => None
  end.

Lemma rc_inc_none s a : rc_inc s a = None -> heap s a = None.
Proof. unfold rc_inc. destruct (heap s a); [discriminate|reflexivity]. Qed.
Lemma rc_dec_none s a : rc_dec s a = None -> heap s a = None.
Proof. unfold rc_dec. destruct (heap s a); [|reflexivity]. destruct (_ =? 1); discriminate. Qed.

Lemma exec_dead cf s l p x s' l' evs nx a :
  exec cf s l p x = (s', l', evs, nx) -> nx = NFault (FDeadInc a) \/ nx = NFault (FDeadDec a) ->
  site p = Some a /\ heap s a = None.
Proof.
  intros He Hn. destruct p; exec_norm He; destruct Hn as [Hn|Hn]; try discriminate Hn.
  all: try (is_var nx; subst nx).
  all: repeat match goal with n : next, H : ?n = NFault _ |- _ => subst n end.
  all: try (match goal with
            | H : with_exit _ _ = (_, NFault _) |- _ => unfold with_exit in H; destr_in H; discriminate H
            | H : fallback_entry _ _ _ = (_, NFault _) |- _ => unfold fallback_entry in H; destr_in H; discriminate H
            | H : gen_step _ _ _ = (_, NFault _) |- _ => unfold gen_step in H; destr_in H; discriminate H
            end).
  all: try (exfalso; revert Hn; unfold help_dispatch, after_slot, dec_then;
            repeat match goal with |- context [if ?b then _ else _] => destruct b end; discriminate).
  all: injection Hn as <-; cbn [site]; split; [reflexivity|].
  all: first [apply rc_inc_none; assumption | apply rc_dec_none; assumption].
Qed.

(** The only faults of [exec] are the ones written in [Step]. *)
Lemma exec_fault cf s l p x s' l' evs nx f :
  exec cf s l p x = (s', l', evs, nx) -> nx = NFault f ->
  (exists a, f = FDeadInc a \/ f = FDeadDec a) \/ (f = FBadAlloc x /\ (p = NewAlloc \/ exists c m v d, p = RAlloc c m v d) /\ rc_alloc s x = None) \/
  f = FBadChoice.
Proof.
  intros He Hn. destruct p; exec_norm He; try discriminate Hn.
  all: repeat match goal with n : next, H : ?n = NFault _ |- _ => subst n end.
  all: try (match goal with
            | H : with_exit _ _ = (_, NFault _) |- _ => unfold with_exit in H; destr_in H; discriminate H
            | H : fallback_entry _ _ _ = (_, NFault _) |- _ => unfold fallback_entry in H; destr_in H; discriminate H
            | H : gen_step _ _ _ = (_, NFault _) |- _ => unfold gen_step in H; destr_in H; discriminate H
            end).
  all: try (exfalso; revert Hn; unfold help_dispatch, after_slot, dec_then;
            repeat match goal with |- context [if ?b then _ else _] => destruct b end; discriminate).
  all: injection Hn as <-; eauto 10.
Qed.

(** ** Hypothesis on the programs: the source of a clone in progress is still there.
    ([CClone h h2] reads the handle [h] when it starts and increments the count one step
    later; a program in which another thread drops or moves [h] in between is racy — in Rust
    [h] is borrowed for the whole call.) *)
Definition CloneSrc (s : state) : Prop :=
  forall t a rest, t_status (thr s t) = Running -> t_stack (thr s t) = CloneInc a :: rest ->
    exists h, hnd s h = HOwned a \/ exists d, hnd s h = HGuard a d.

(** ** What the frames at the count sites own *)
Definition osite (p : pc) : option N :=
  match p with
  | LA6 _ v | LH6c v | LH10 v _ | PDec v _ | P1 _ v | PSi _ v _ _ | P6 _ v | PE9 _ _ _ _ v
  | RInc _ _ v None => Some v
  | _ => None
  end.

Lemma own_site a m l p : valid a -> osite p = Some a -> 1 <= own a m l p.
Proof.
  intros Ha Hs. unfold own, claimsA, payb, hbf, pay_frame_of.
  destruct p; try discriminate Hs;
    repeat match goal with d : option slot |- _ => destruct d; try discriminate Hs end;
    injection Hs as ->;
    cbn [frame_claims claim_of_guard fpend owns_old pay_old fr fsum ret_refs isc snd ind];
    repeat match goal with
           | r : retval |- _ => destruct r; cbn [frame_claims claim_of_guard fsum isc snd ret_refs]
           | d : option slot |- _ => destruct d; cbn [frame_claims claim_of_guard fsum isc snd ret_refs]
           end;
    unfold isc; cbn [snd]; rewrite ?is_same; rewrite ?N.eqb_refl; cbn [ind]; unfold is, ind;
    repeat match goal with |- context [N.eqb ?x ?y] => destruct (N.eqb x y) end; lia.
Qed.

Lemma own_pay a m l q : pay_frame_of a q = true -> 1 <= own a m l q.
Proof.
  intros Hq. unfold own, claimsA, payb, hbf. rewrite Hq. unfold pay_frame_of in Hq.
  destruct q; try discriminate Hq; cbn [pay_old] in Hq; apply N.eqb_eq in Hq; subst;
    cbn [frame_claims claim_of_guard fpend owns_old fr fsum ind]; rewrite ?is_same; unfold is, ind;
    repeat match goal with |- context [N.eqb ?x ?y] => destruct (N.eqb x y) end; lia.
Qed.

Lemma unconfirmed_claim n j a th : unconfirmed_top n j a th = true -> In ((n, j), a) (stack_claims th).
Proof.
  unfold unconfirmed_top, stack_claims. destruct (tl_node (t_loc th)) as [n'|] eqn:Hn; [|discriminate].
  intros H. apply andb_prop in H as [H1 H2]. apply N.eqb_eq in H1. subst n'.
  assert (Ho : own_node (t_loc th) = n) by (unfold own_node; rewrite Hn; reflexivity).
  destruct (t_stack th) as [|p rest]; [discriminate|]. cbn [flat_map]. apply in_or_app. left.
  destruct p; try discriminate H2; apply andb_prop in H2 as [Ha Hj]; apply N.eqb_eq in Ha, Hj; subst;
    cbn [frame_claims]; left; reflexivity.
Qed.

Lemma unconfirmed_top_frame n j a th p rest :
  t_stack th = p :: rest -> unconfirmed_top n j a th = true ->
  match p with LA4 _ _ _ | LA5 _ _ _ | LH5 _ _ _ | LH7 _ _ | LH8 _ _ _ | LH9 _ _ => True | _ => False end.
Proof.
  unfold unconfirmed_top. intros ->. destruct (tl_node _); [|discriminate].
  intros H. apply andb_prop in H as [_ H]. destruct p; try discriminate H; exact I.
Qed.

(** ** The count of a claimed value is positive *)
Section Alive.
Variable s : state.
Hypothesis AI : AccInv s.
Hypothesis PI : ProtInv' s.

Lemma owner_alive a i : valid a -> 1 <= Ow a s i -> 1 <= mem (sh s) (LCount a).
Proof.
  intros Ha. apply (count_owner a Ha s (ai_acc _ AI a Ha) (q_shape _ PI) (q_claimed _ PI)).
Qed.

Lemma frame_owner_alive a t q : valid a -> In q (t_stack (thr s t)) ->
  1 <= own a (mem (sh s)) (t_loc (thr s t)) q -> 1 <= mem (sh s) (LCount a).
Proof.
  intros Ha Hin Hq. apply (owner_alive a (IThread t) Ha). cbn [Ow].
  etransitivity; [exact Hq|]. apply own_in. exact Hin.
Qed.

Lemma claim_alive a i0 n j : valid a ->
  In ((n, j), a) (cls s i0) ->
  (forall t', i0 = IThread t' -> unconfirmed_top n j a (thr s t') = false) ->
  1 <= mem (sh s) (LCount a).
Proof.
  intros Ha Hc Hun.
  pose proof (ai_acc _ AI a Ha) as HA. pose proof (q_shape _ PI) as HS. pose proof (q_claimed _ PI) as HC.
  destruct (N.eq_dec (mem (sh s) (LSlot n j)) a) as [E|E].
  2:{ exact (count_claim_free a Ha s HA HS HC i0 n j Hc E). }
  destruct (q_prot _ PI n j a Ha E) as [(t' & Hu)|[(c & Hst)|(t' & q & Hin & Hq & _)]].
  - apply (count_claim_two a Ha s HA HS HC i0 (IThread t') n j Hc).
    + cbn [cls]. apply unconfirmed_claim. exact Hu.
    + intros <-. rewrite (Hun t' eq_refl) in Hu. discriminate Hu.
  - apply (owner_alive a (IStore c) Ha). cbn [Ow Rw]. rewrite Hst, is_same. lia.
  - apply (frame_owner_alive a t' q Ha Hin). apply own_pay. exact Hq.
Qed.
End Alive.

Lemma site_valid p a : pc_vok p = true -> site p = Some a -> valid a.
Proof.
  intros Hp Hs. apply valid_addr_iff.
  destruct p; try discriminate Hs; injection Hs as ->; cbn [pc_vok] in Hp;
    repeat match goal with H : _ && _ = true |- _ => apply andb_prop in H as [? ?] end; assumption.
Qed.

Lemma top_claim (th : thread) p rest cl :
  t_stack th = p :: rest -> In cl (frame_claims (t_loc th) p) -> In cl (stack_claims th).
Proof. intros Hs Hin. unfold stack_claims. rewrite Hs. cbn [flat_map]. apply in_or_app. left. exact Hin. Qed.

Theorem site_alive s t p rest a :
  AccInv s -> ProtInv' s -> ValOK s -> CloneSrc s ->
  t_status (thr s t) = Running -> t_stack (thr s t) = p :: rest -> site p = Some a ->
  1 <= mem (sh s) (LCount a).
Proof.
  intros AI PI VO CS Hr Hst Hsite.
  assert (Hp : pc_vok p = true).
  { pose proof (v_stk _ VO t) as H. rewrite Hst in H. cbn in H. apply andb_prop in H as [H _]. exact H. }
  pose proof (site_valid p a Hp Hsite) as Ha.
  assert (Hnu : forall n j, match p with LA4 _ _ _ | LA5 _ _ _ | LH5 _ _ _ | LH7 _ _ | LH8 _ _ _ | LH9 _ _ => False | _ => True end ->
                forall t', IThread t = IThread t' -> unconfirmed_top n j a (thr s t') = false).
  { intros n j Hnp t' [= <-]. destruct (unconfirmed_top n j a (thr s t)) eqn:Hu; [|reflexivity].
    pose proof (unconfirmed_top_frame _ _ _ _ _ _ Hst Hu) as H. destruct p; try contradiction; destruct Hnp. }
  destruct (osite p) as [a'|] eqn:Hos.
  - assert (a' = a) by (destruct p; try discriminate Hos; cbn in Hsite, Hos; destr_in Hos; congruence). subst a'.
    apply (frame_owner_alive s AI PI a t p Ha); [rewrite Hst; left; reflexivity|]. apply own_site; assumption.
  - destruct p; try discriminate Hsite; try discriminate Hos; injection Hsite as ->.
    + (* LH6a *)
      apply (claim_alive s AI PI a (IThread t) (own_node (t_loc (thr s t))) HSLOT Ha).
      * cbn [cls]. eapply top_claim; [exact Hst|]. left. reflexivity.
      * apply Hnu. exact I.
    + (* GI1 *)
      destruct sl as [n j]. apply (claim_alive s AI PI a (IThread t) n j Ha).
      * cbn [cls]. eapply top_claim; [exact Hst|]. left. reflexivity.
      * apply Hnu. exact I.
    + (* RInc with a debt *)
      destruct d as [[n j]|]; [|discriminate Hos].
      apply (claim_alive s AI PI a (IThread t) n j Ha).
      * cbn [cls]. eapply top_claim; [exact Hst|]. left. reflexivity.
      * apply Hnu. exact I.
    + (* CloneInc *)
      destruct (CS t a rest Hr Hst) as (h & [Hh|([[n j]|] & Hh)]).
      * apply (owner_alive s AI PI a (IHandle h) Ha). cbn [Ow]. unfold Cw. cbn [cls]. rewrite Hh. cbn. rewrite is_same. lia.
      * apply (claim_alive s AI PI a (IHandle h) n j Ha); [|discriminate]. cbn [cls]. rewrite Hh. left. reflexivity.
      * apply (owner_alive s AI PI a (IHandle h) Ha). cbn [Ow]. unfold Cw. cbn [cls]. rewrite Hh. cbn. rewrite is_same. lia.
Qed.
