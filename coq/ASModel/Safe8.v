(** * ASModel.Safe8 — the frame [CloneInc] only occurs in a [CClone] command.

    With this, the hypothesis [CloneSrc] of Safe7 (some handle still holds the value that a
    running clone is about to count) follows from its command-level form [CloneSrcCmd]: the
    source handle of a running [CClone h h2] still holds the value. *)
From Coq Require Import Lia.
From ASModel Require Import Base State Orderings_gen Step Run Progress Hist Inv InvTl InvProto InvStep Sum StepCases.
From ASModel Require Import GenDefs Gen1 Gen2 Safe1 Safe7.

Definition nocl (p : pc) : bool := match p with CloneInc _ => false | _ => true end.

Definition next_nc (nx : next) : bool :=
  match nx with
  | NGoto p => nocl p
  | NPush fs w => forallb nocl fs && nocl w
  | _ => true
  end.

Lemma with_exit_nc l r l' nx : with_exit l r = (l', nx) -> next_nc nx = true.
Proof. unfold with_exit. intros H. destr_in H; injection H as <- <-; reflexivity. Qed.
Lemma fallback_entry_nc cf l c l' nx : fallback_entry cf l c = (l', nx) -> next_nc nx = true.
Proof. unfold fallback_entry. intros H. destr_in H; injection H as <- <-; reflexivity. Qed.
Lemma gen_step_nc cf l c l' nx : gen_step cf l c = (l', nx) -> next_nc nx = true.
Proof. unfold gen_step. intros H. destr_in H; injection H as <- <-; reflexivity. Qed.
Lemma load_body_nc cf l c l' nx : load_body cf l c = (l', nx) -> next_nc nx = true.
Proof. unfold load_body. destruct (cf_use_fast cf); [intros [= <- <-]; reflexivity|apply fallback_entry_nc]. Qed.
Lemma enter_load_nc cf l c l' fs : enter_load cf l c = inl (l', fs) -> forallb nocl fs = true.
Proof.
  unfold enter_load. intros H. destruct (tl_node l); [|injection H as <- <-; reflexivity].
  destruct (load_body cf _ c) as [l2 nx] eqn:Hb. apply load_body_nc in Hb.
  destruct nx; try discriminate H. injection H as <- <-. cbn in *. rewrite Hb. reflexivity.
Qed.
Lemma enter_pay_nc l c old l' fs : enter_pay l c old = (l', fs) -> forallb nocl fs = true.
Proof. unfold enter_pay, pay_body. intros H. destruct (tl_node l); injection H as <- <-; [destruct (old =? 0)|]; reflexivity. Qed.
Lemma guard_drop_nc p d : forallb nocl (guard_drop_frames p d) = true.
Proof. unfold guard_drop_frames. destruct d; [reflexivity|]. destruct (p =? 0); reflexivity. Qed.
Lemma guard_into_nc p d : forallb nocl (guard_into_frames p d) = true.
Proof. unfold guard_into_frames. destruct d; [|reflexivity]. destruct (p =? 0); reflexivity. Qed.
Lemma help_dispatch_nc cf l c old w ctl : next_nc (help_dispatch cf l c old w ctl) = true.
Proof. unfold help_dispatch. repeat match goal with |- context [if ?b then _ else _] => destruct b end; reflexivity. Qed.
Lemma after_slot_nc c old w j : next_nc (after_slot c old w j) = true.
Proof. unfold after_slot. destruct (j =? HSLOT); reflexivity. Qed.
Lemma dec_then_nc a r : next_nc (dec_then a r) = true.
Proof. unfold dec_then. destruct (a =? 0); reflexivity. Qed.

Ltac nc_fin :=
  try match goal with H : guard_drop_frames ?p ?d = _ :: _ |- _ => rewrite <- H end;
  cbn [next_nc nocl forallb]; rewrite ?forallb_app; cbn [forallb nocl];
  repeat match goal with
  | H : enter_load _ _ _ = inl (_, ?fs) |- context [forallb nocl ?fs] => rewrite (enter_load_nc _ _ _ _ _ H)
  | H : enter_pay _ _ _ = (_, ?fs) |- context [forallb nocl ?fs] => rewrite (enter_pay_nc _ _ _ _ _ H)
  | |- context [forallb nocl (guard_drop_frames ?p ?d)] => rewrite (guard_drop_nc p d)
  | |- context [forallb nocl (guard_into_frames ?p ?d)] => rewrite (guard_into_nc p d)
  end; try reflexivity.

Lemma exec_nc cf s l p x s' l' evs nx : exec cf s l p x = (s', l', evs, nx) -> next_nc nx = true.
Proof.
  intros He. destruct p; exec_norm He.
  all: try reflexivity.
  all: try (match goal with
            | H : with_exit _ _ = (_, ?n) |- next_nc ?n = true => exact (with_exit_nc _ _ _ _ H)
            | H : fallback_entry _ _ _ = (_, ?n) |- next_nc ?n = true => exact (fallback_entry_nc _ _ _ _ _ H)
            | H : gen_step _ _ _ = (_, ?n) |- next_nc ?n = true => exact (gen_step_nc _ _ _ _ _ H)
            | |- next_nc (help_dispatch _ _ _ _ _ _) = true => apply help_dispatch_nc
            | |- next_nc (after_slot _ _ _ _) = true => apply after_slot_nc
            | |- next_nc (dec_then _ _) = true => apply dec_then_nc
            end).
  all: try (nc_fin; fail).
Qed.

Lemma rcu_attempt_nc cf l c m p d l' nx : rcu_attempt cf l c m p d = (l', nx) -> next_nc nx = true.
Proof.
  intros H. unfold rcu_attempt in H. destr_in H; try discriminate H; injection H as <- <-; nc_fin.
Qed.

Lemma resume_nc cf l w v l' nx : resume cf l w v = (l', nx) -> next_nc nx = true.
Proof.
  intros H. destruct w; cbn in H; destr_in H; try discriminate H.
  all: try (eapply rcu_attempt_nc; eassumption).
  all: try (eapply load_body_nc; eassumption).
  all: injection H as <- <-.
  all: try apply dec_then_nc.
  all: try (unfold pay_body; destruct (_ =? 0); reflexivity).
  all: try (nc_fin; fail).
  all: try (match goal with H : guard_into_frames ?p ?d = ?f :: _ |- next_nc (NGoto ?f) = true =>
              pose proof (guard_into_nc p d) as Hg; rewrite H in Hg; cbn in Hg; apply andb_prop in Hg as [Hg _]; exact Hg end).
  all: try (match goal with H : guard_into_frames ?p ?d = _ :: _ |- _ => rewrite <- H; nc_fin end).
Qed.

(** The stack after handing a value down: nothing but old frames and frames that are not [CloneInc]. *)
Lemma unwind_nc cf : forall rest l v l' stk a,
  unwind cf l rest v = UStack l' stk -> In (CloneInc a) stk -> In (CloneInc a) rest.
Proof.
  induction rest as [|w rest IH]; intros l v l' stk a H Hin; [discriminate H|].
  destruct (is_bottom_frame w) eqn:Hb.
  - destruct w; try discriminate Hb; cbn in H; discriminate H.
  - assert (E : unwind cf l (w :: rest) v =
                match resume cf l w v with
                | (l', NGoto p) => UStack l' (p :: rest)
                | (l', NPush frames wait) => UStack l' (frames ++ wait :: rest)
                | (l', NRet v') => unwind cf l' rest v'
                | (l', NPanic s) => UPanic l' s
                | (l', NFault f) => UFault l' f
                end) by (destruct w; try discriminate Hb; reflexivity).
    rewrite E in H. destruct (resume cf l w v) as [l2 nx] eqn:Hr. pose proof (resume_nc _ _ _ _ _ _ Hr) as Hn.
    right. destruct nx as [p|fs wt|v'| |]; try discriminate H; cbn in Hn.
    + injection H as _ <-. destruct Hin as [Hp|Hin]; [rewrite Hp in Hn; discriminate Hn|exact Hin].
    + injection H as _ <-. apply andb_prop in Hn as [H1 H2]. apply in_app_or in Hin as [Hin|[Hw|Hin]].
      * rewrite forallb_forall in H1. specialize (H1 _ Hin). discriminate H1.
      * rewrite Hw in H2. discriminate H2.
      * exact Hin.
    + eapply IH; eassumption.
Qed.

(** ** The invariant *)
Definition CloneCmd (s : state) : Prop :=
  forall t a, In (CloneInc a) (t_stack (thr s t)) ->
    exists h h2, nth_error (t_prog (thr s t)) (N.to_nat (t_cmdi (thr s t))) = Some (CClone h h2).

Lemma cmd_start_clone cf s l c s1 l1 stk r a :
  cmd_start cf s l c = inl (s1, l1, stk, r) -> In (CloneInc a) stk ->
  (exists h h2, c = CClone h h2) /\ thr s1 = thr s.
Proof.
  intros Hc Hin.
  assert (Hnc : (exists h h2, c = CClone h h2) \/ forallb nocl stk = true).
  { destruct c; cbn in Hc; destr_in Hc; try discriminate Hc; injection Hc as <- <- <- <-; eauto; right.
    all: repeat match goal with
         | H : guard_drop_frames ?p ?d = _ :: _ |- _ => rewrite <- H
         | H : guard_into_frames ?p ?d = _ :: _ |- _ => rewrite <- H
         end.
    all: rewrite ?forallb_app; cbn [forallb nocl].
    all: repeat match goal with
         | H : enter_load _ _ _ = inl (_, ?fs) |- context [forallb nocl ?fs] => rewrite (enter_load_nc _ _ _ _ _ H)
         | H : enter_pay _ _ _ = (_, ?fs) |- context [forallb nocl ?fs] => rewrite (enter_pay_nc _ _ _ _ _ H)
         | |- context [forallb nocl (guard_drop_frames ?p ?d)] => rewrite (guard_drop_nc p d)
         | |- context [forallb nocl (guard_into_frames ?p ?d)] => rewrite (guard_into_nc p d)
         end; try reflexivity.
    - pose proof (guard_drop_nc a0 d) as Hg. rewrite Heql0 in Hg. cbn in Hg.
      apply andb_prop in Hg as [-> Hg]. rewrite forallb_app, Hg. reflexivity.
    - pose proof (guard_into_nc a0 d) as Hg. rewrite Heql0 in Hg. cbn in Hg.
      apply andb_prop in Hg as [-> Hg]. rewrite forallb_app, Hg. reflexivity. }
  destruct Hnc as [(h & h2 & ->)|Hnc].
  - split; [eauto|]. cbn in Hc. destr_in Hc; injection Hc as <- <- <- <-; reflexivity.
  - exfalso. rewrite forallb_forall in Hnc. specialize (Hnc _ Hin). discriminate Hnc.
Qed.

Theorem CloneCmd_init inits progs : CloneCmd (init_state inits progs).
Proof.
  intros t a Hin. cbn in Hin.
  destruct (init_threads_stack progs 0 (fun _ => no_thread) t) as (Hs & _); [cbn; auto|].
  rewrite Hs in Hin. destruct Hin.
Qed.

Theorem step_CloneCmd cf s t x : CloneCmd s -> CloneCmd (fst (step cf s t x)).
Proof.
  intros CC t' a.
  destruct (N.eq_dec t' t) as [->|Hne]; [|rewrite step_status_other by exact Hne; apply CC].
  destruct (step_cases cf s t x) as [E|c s1 l1 stk r Hr Hst Hc Hen Hcs E|n Hr Hst Hn E|Hr Hst Hn E|p rest s1 l1 evs nx Hr Hst He E];
    rewrite E.
  - apply CC.
  - cbn. rewrite upd_same. unfold start_thread. destruct stk as [|f stk]; [intros []|]. cbn [t_stack t_prog t_cmdi].
    intros Hin. destruct (cmd_start_clone _ _ _ _ _ _ _ _ a Hcs Hin) as [(h & h2 & ->) _]. eauto.
  - cbn. rewrite upd_same. cbn. intros [H|[H|[]]]; discriminate H.
  - cbn. rewrite upd_same. intros [].
  - cbn [thr]. rewrite upd_same. pose proof (exec_nc _ _ _ _ _ _ _ _ _ He) as Hn.
    assert (Hrest : In (CloneInc a) rest ->
                    exists h h2, nth_error (t_prog (thr s t)) (N.to_nat (t_cmdi (thr s t))) = Some (CClone h h2)).
    { intros Hin. apply (CC t a). rewrite Hst. right. exact Hin. }
    unfold thread_after. destruct nx as [p'|fs w|v|ps|f]; cbn [t_stack t_prog t_cmdi] in *.
    + intros [Hp|Hin]; [rewrite Hp in Hn; discriminate Hn|exact (Hrest Hin)].
    + apply andb_prop in Hn as [H1 H2]. intros Hin. apply in_app_or in Hin as [Hin|[Hw|Hin]].
      * rewrite forallb_forall in H1. specialize (H1 _ Hin). discriminate H1.
      * rewrite Hw in H2. discriminate H2.
      * exact (Hrest Hin).
    + destruct (unwind cf l1 rest v) as [l2 stk| | | |] eqn:Hu; cbn [t_stack t_prog t_cmdi]; try (intros []; fail).
      intros Hin. apply Hrest. eapply unwind_nc; eassumption.
    + exact Hrest.
    + exact Hrest.
Qed.

Lemma run_CloneCmd cf : forall sched s, CloneCmd s -> CloneCmd (run_state cf s sched).
Proof.
  induction sched as [|[t x] sched IH]; intros s H; [exact H|].
  change (run_state cf s ((t, x) :: sched)) with (run_state cf (fst (step cf s t x)) sched).
  apply IH. apply step_CloneCmd. exact H.
Qed.

(** ** The command-level form of the hypothesis *)
Definition CloneSrcCmd (s : state) : Prop :=
  forall t h h2 a rest, t_status (thr s t) = Running ->
    nth_error (t_prog (thr s t)) (N.to_nat (t_cmdi (thr s t))) = Some (CClone h h2) ->
    t_stack (thr s t) = CloneInc a :: rest ->
    hnd s h = HOwned a \/ exists d, hnd s h = HGuard a d.

Theorem CloneSrcCmd_CloneSrc s : CloneCmd s -> CloneSrcCmd s -> CloneSrc s.
Proof.
  intros CC H t a rest Hr Hst.
  destruct (CC t a) as (h & h2 & Hc); [rewrite Hst; left; reflexivity|].
  exists h. exact (H t h h2 a rest Hr Hc Hst).
Qed.

Print Assumptions step_CloneCmd.
Print Assumptions CloneSrcCmd_CloneSrc.
