(** * ASModel.Scope — executable mirror of the run hypotheses [Main.RunOK] (per state, for the
    listed threads): used by the model driver to count which correspondence runs lie inside the
    scope of the end-to-end theorems.  Not used in proofs. *)
From ASModel Require Import Base State Orderings_gen Step Run Prot11.

Definition handle_empty (h : handle) : bool := match h with HEmpty => true | _ => false end.

Definition scope_thread (s : state) (t : N) : bool :=
  let th := thr s t in
  (tl_gen (t_loc th) + 4 <? WORD) &&
  match t_status th with
  | Running =>
      match nth_error (t_prog th) (N.to_nat (t_cmdi th)) with
      | Some c =>
          (match cmd_dst c with
           | Some h => handle_empty (hnd s h) ||
                       (match t_stack th with [] => true | _ => false end &&
                        match cmd_src c with Some h' => h' =? h | None => false end)
           | None => true
           end) &&
          (match c, t_stack th with
           | CClone h _, CloneInc a :: _ =>
               match hnd s h with HOwned a' | HGuard a' _ => a' =? a | _ => false end
           | _, _ => true
           end)
      | None => true
      end
  | _ => true
  end.

Definition scope_alloc (s : state) (t x : N) : bool :=
  match t_stack (thr s t) with
  | NewAlloc :: _ | RAlloc _ _ _ _ :: _ =>
      match heap (sh s) x with None => valid_addr x | Some _ => false end
  | _ => true
  end.

Definition scope_step (s : state) (thrs : list N) (t x : N) : bool :=
  forallb (scope_thread s) thrs && scope_alloc s t x.
