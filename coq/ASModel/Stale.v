(** * ASModel.Stale — a stale first read on the fast path.

    The first read of the stored pointer in [HybridProtection::attempt] is [Relaxed]: under the
    C++ memory model it may return an OLD value of the storage.  [step_stale] is [step] except that
    at that program point ([LA1]) the scheduler may supply the value read ([x >= 2]: the value
    [x - 2], whatever it is - a value stored long ago, the address of a destroyed object, garbage);
    every other access behaves as in [step].  The protocol does not trust that value: it publishes
    it and then confirms with a SeqCst read.  [StaleInv.v] proves the master invariant and the
    end-to-end theorems for runs of [step_stale]. *)
From ASModel Require Import Base State Orderings_gen Step Run.

Definition stale_exec (cf : config) (s : shared) (l : tlocal) (c v : N)
  : shared * tlocal * list event * next :=
  let e := EvAcc (LStore c) OLoad (fst o_attempt_first) (snd o_attempt_first) v v true in
  match tl_node l with
  | None => (s, l, [e], NPanic PExpectNode)
  | Some _ => (s, l, [e], if cf_debug cf then NGoto (LA1d c v) else NGoto (LAscan c v 0))
  end.

Definition step_stale (cf : config) (s : state) (t x : N) : state * list event :=
  let th := thr s t in
  match t_status th, t_stack th with
  | Running, LA1 c :: rest =>
      if 2 <=? x then
        let '(s_sh, l, evs, nx) := stale_exec cf (sh s) (t_loc th) c (x - 2) in
        finish cf s t th s_sh l rest evs nx
      else step cf s t x
  | _, _ => step cf s t x
  end.

Definition run_state_stale (cf : config) (s : state) (sched : list (N * N)) : state :=
  fold_left (fun s tx => fst (step_stale cf s (fst tx) (snd tx))) sched s.

Fixpoint run_stale (cf : config) (s : state) (sched : list (N * N)) : state * list (N * list event) :=
  match sched with
  | [] => (s, [])
  | (t, x) :: rest =>
      let '(s', evs) := step_stale cf s t x in
      let '(s'', tr) := run_stale cf s' rest in
      (s'', (t, evs) :: tr)
  end.
