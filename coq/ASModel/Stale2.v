(** * ASModel.Stale2 — every non-SeqCst load of the read path and of [Node::get] may be stale.

    [Stale.step_stale] weakens one site, the Relaxed first read of the fast path.  [step_stale2]
    weakens ALL loads of the read side that the code does not request as SeqCst and whose value
    the protocol does not trust:

    - [LA1]     `ptr.load(Relaxed)`, first read of `HybridProtection::attempt` (as in [Stale]);
    - [LAscan]  `slot.0.load(Relaxed)` of `fast::Slots::get_debt`: the owner may still see a debt it
                published although a writer has paid it since (read-own-write coherence forbids
                the other direction: a slot the owner sees empty is empty) - the slot is skipped;
    - [GCool1]  `in_use.load(Acquire)` of `Node::check_cooldown`, the cheap look at a node of
                another thread: any earlier state of the word; the CAS that follows decides;
    - [GPush0]  `LIST_HEAD.load(Relaxed)` before the push loop: an older head (the list only
                grows, so an older value is a smaller count); the CAS that follows decides.

    With choice [x >= 2] the scheduler supplies the value read, [x - 2].  Every other access
    behaves as in [step].  [Stale2Inv*.v] proves the master invariant and the end-to-end theorems
    for runs of [step_stale2] within [RunOKS2]. *)
From ASModel Require Import Base State Orderings_gen Step Run Stale.

Definition ld_event (lc : loc) (o : ord * ord) (v : N) : event :=
  EvAcc lc OLoad (fst o) (snd o) v v true.

(** The step of program point [p] when its load is answered with [v] instead of the memory's
    content; [None] for program points whose load is not weakened. *)
Definition stale2_exec (cf : config) (s : shared) (l : tlocal) (p : pc) (v : N)
  : option (shared * tlocal * list event * next) :=
  let n := own_node l in
  match p with
  | LA1 c => Some (stale_exec cf s l c v)
  | LAscan c w i =>
      let j := (i + tl_off l) mod SLOT_CNT in
      let e := ld_event (LSlot n j) o_fast_scan v in
      if v =? NONE then None   (* an owner never sees a slot empty that is not *)
      else if i =? 7 then let '(l', nx) := fallback_entry cf l c in Some (s, l', [e], nx)
      else Some (s, l, [e], NGoto (LAscan c w (i + 1)))
  | GCool1 w =>
      let e := ld_event (LInUse w) o_check_inuse v in
      Some (s, l, [e], if v =? NODE_COOLDOWN then NGoto (GCool2 w) else NGoto (GClaim w))
  | GPush0 =>
      let e := ld_event LHead o_get_head_relaxed v in
      Some (s, l, [e], NGoto (GPush v))
  | _ => None
  end.

Definition step_stale2 (cf : config) (s : state) (t x : N) : state * list event :=
  let th := thr s t in
  match t_status th, t_stack th with
  | Running, p :: rest =>
      if 2 <=? x then
        match stale2_exec cf (sh s) (t_loc th) p (x - 2) with
        | Some (s_sh, l, evs, nx) => finish cf s t th s_sh l rest evs nx
        | None => step cf s t x
        end
      else step cf s t x
  | _, _ => step cf s t x
  end.

Definition run_state_stale2 (cf : config) (s : state) (sched : list (N * N)) : state :=
  fold_left (fun s tx => fst (step_stale2 cf s (fst tx) (snd tx))) sched s.

Fixpoint run_stale2 (cf : config) (s : state) (sched : list (N * N)) : state * list (N * list event) :=
  match sched with
  | [] => (s, [])
  | (t, x) :: rest =>
      let '(s', evs) := step_stale2 cf s t x in
      let '(s'', tr) := run_stale2 cf s' rest in
      (s'', (t, evs) :: tr)
  end.

(** The values the memory model permits (what the correspondence harness supplies):
    - [LA1]: any value but null (the storage never holds null);
    - [LAscan]: any value but the empty marker (see above);
    - [GCool1]: any value;
    - [GPush0]: an older head, i.e. a count not above the current one. *)
Definition stale2_ok (s : state) (t x : N) : Prop :=
  2 <= x ->
  match t_stack (thr s t) with
  | LA1 _ :: _ => x - 2 <> NONE
  | GPush0 :: _ => x - 2 <= mem (sh s) LHead
  | _ => True
  end.

(** [step_stale2] extends [step_stale] and [step]: with choices below 2 all three agree. *)
Lemma step_stale2_lt2 cf s t x : x < 2 -> step_stale2 cf s t x = step cf s t x.
Proof.
  intros H. unfold step_stale2.
  destruct (2 <=? x) eqn:E; [apply N.leb_le in E; lia|].
  destruct (t_status (thr s t)); try reflexivity.
  destruct (t_stack (thr s t)) as [|p rest]; reflexivity.
Qed.

Lemma step_stale2_LA1 cf s t x c rest :
  t_stack (thr s t) = LA1 c :: rest -> step_stale2 cf s t x = step_stale cf s t x.
Proof.
  intros H. unfold step_stale2, step_stale. rewrite H. cbn [stale2_exec].
  destruct (t_status (thr s t)); reflexivity.
Qed.
