(** * ASModel.Stale2Inv — the master invariant and the end-to-end theorems survive stale loads at
    all four weakened sites of [Stale2.step_stale2].

    [step_stale2] is [step] except that the loads at [LA1] (first read of the fast path),
    [LAscan] (slot scan of the owner), [GCool1] (look at [in_use] of another node) and [GPush0]
    (list head before the push loop) may be answered by the scheduler.  None of these loads
    changes the shared state; the state after such a step is
    - the state after [step] (only the value in the load event differs), or
    - at [LA1]: the state after [Stale.step_stale] (the StaleInv files), or
    - the state after [step] with the new top frame replaced by a [twin2]
      ([LA3 c v j -> LAscan c v (i+1)] / [LH0d c], [GCool2 w <-> GClaim w], [GPush h -> GPush v]), or
    - (eighth slot, no debug assertions) the state after [step] from the state with [LH0d c]
      on top, whose load of [in_use] finds [NODE_USED]: both enter the fallback with the next
      generation.
    Every component of [Main.Master] and of [Lin1.LinInv2] survives the replacement of a top
    frame by its [twin2]: the frames concerned hold no reference, no claim, no candidate, no
    generation.  The hypothesis on the values is [Stale2.stale2_ok] as stated there (not
    strengthened): the value for [LA1] is not the empty-slot marker ([ValOK]), the value for
    [GPush0] is not above the current head (frames refer to existing nodes, [pc_nodes_ok]).

    - Stale2Inv1-3, 7: [twin2], [retop_*] - the components of [Master], [LinInv2], [LdTyped];
    - Stale2Inv4-5: [Master_retop2], [stale2_shape], [step_stale2_cases];
    - Stale2Inv6, 8: [step_stale2_Master], [RunOKS2], [run_stale2_Master], C01, C02;
    - Stale2Inv9-12: [step_stale2_dich], [gstep_stale2], [gstep_stale2_LinAll], C03, C12;
    - Stale2InvEx, Stale2InvEx2: a checker for [RunOKS2] and two example runs;
    - Stale2InvProg: the wait-free bound of [Progress] for [step_stale2]. *)
From ASModel Require Import Base State Step Run StepCases Gen AccDefs Acc Safe Main LinDefs Lin1 Lin Progress StaleInv8.
From ASModel Require Export Stale2 Stale2Inv1 Stale2Inv2 Stale2Inv3 Stale2Inv4 Stale2Inv5 Stale2Inv6 Stale2Inv7
  Stale2Inv8 Stale2Inv9 Stale2Inv10 Stale2Inv11 Stale2Inv12 Stale2InvEx Stale2InvEx2 Stale2InvProg.

Check stale2_ok.
Check step_stale2_Master
  : forall cf s t x, GenBound s -> ProgOK s -> alloc_ok s t x -> stale2_ok s t x -> Master s ->
                     Master (fst (step_stale2 cf s t x)).
Check run_stale2_Master
  : forall cf inits progs sched, RunOKS2 cf inits progs sched ->
      forall k, Master (StS2 cf (init_state inits progs) sched k).
Check C01_no_use_after_free_stale2
  : forall cf inits progs sched, RunOKS2 cf inits progs sched ->
      NoFault (run_state_stale2 cf (init_state inits progs) sched) /\
      forall te, In te (snd (run_stale2 cf (init_state inits progs) sched)) ->
        forall a, ~ In (EvFault (FDeadInc a)) (snd te) /\ ~ In (EvFault (FDeadDec a)) (snd te).
Check C02_accounting_stale2
  : forall cf inits progs sched, RunOKS2 cf inits progs sched ->
      AccDefs.Acc (run_state_stale2 cf (init_state inits progs) sched).
Check C02_no_owner_destroyed_stale2.
Check C03_load_linearizable_stale2.
Check C12_load_own_container_stale2.
Check gstep_stale2_LinAll
  : forall cf s g t x, GenBound s -> ProgOK s -> alloc_ok s t x -> stale2_ok s t x -> LinAll s g ->
      LinAll (fst (gstep_stale2 cf (s, g) t x)) (snd (gstep_stale2 cf (s, g) t x)).
Check RunOKS2_example : RunOKS2 sx2_cf sx2_inits sx2_progs sx2_sched.
Check RunOKS2_example_y : RunOKS2 sy2_cf sx2_inits sx2_progs sy2_sched.
Check read_wait_free_stale2.
Check load_wait_free_stale2.
Check load_full_wait_free_stale2.

Print Assumptions step_stale2_Master.
Print Assumptions run_stale2_Master_gen.
Print Assumptions run_stale2_Master.
Print Assumptions C01_no_use_after_free_stale2.
Print Assumptions C01_no_fault_stale2_prefix.
Print Assumptions C02_accounting_stale2.
Print Assumptions C02_quiescent_counts_stale2.
Print Assumptions C02_no_owner_destroyed_stale2.
Print Assumptions gstep_stale2_LinAll.
Print Assumptions load_returns_fresh_stale2.
Print Assumptions lt_sound_stale2.
Print Assumptions C03_load_linearizable_stale2.
Print Assumptions C12_load_own_container_stale2.
Print Assumptions RunOKS2_example.
Print Assumptions RunOKS2_example_y.
Print Assumptions sx2_load_linearizable.
Print Assumptions sy2_load_linearizable.
Print Assumptions read_wait_free_stale2.
