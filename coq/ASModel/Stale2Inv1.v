(** * ASModel.Stale2Inv1 — replacing the top frame of one thread by a frame that a stale load
    ([Stale2.step_stale2]) reaches instead: the relation [twin2], the state with the replaced
    frame and the first group of invariants that survive the replacement ([WF2], [Quiet],
    [CtlFresh], [NoFault], [Typed], [CloneCmd]).

    [twin2 p p']: [p] is the frame the thread has, [p'] the frame it gets.
    - [LA3 c v j -> LAscan c v i]: the owner saw its (empty) slot still occupied and scans on;
    - [LA3 c v j -> LH0d c], [LAscan c v i -> LH0d c]: ... and it was the eighth slot: fallback;
    - [GCool2 w <-> GClaim w]: the cheap look at [in_use] of node [w] gave another answer;
    - [GPush h -> GPush v], [v <= h]: an older list head;
    - [LH1 c gt -> LH1 c gt]: no change (the lemmas of this development then say that the
      invariants do not depend on the representation of the thread map). *)
From Coq Require Import Lia.
From ASModel Require Import Base State Orderings_gen Step Run Progress Hist Inv InvTl InvProto InvStep Sum StepCases.
From ASModel Require Import GenDefs Gen1 Gen2 EnvDefs Env4 Typed1 Typed Safe1 Safe8 Stale Stale2.

Inductive twin2 : pc -> pc -> Prop :=
| t2_scan c v j i : i <= 7 -> twin2 (LA3 c v j) (LAscan c v i)
| t2_fbd c v j : twin2 (LA3 c v j) (LH0d c)
| t2_fb c v i : twin2 (LAscan c v i) (LH0d c)
| t2_cool w : twin2 (GCool2 w) (GClaim w)
| t2_claim w : twin2 (GClaim w) (GCool2 w)
| t2_push h v : v <= h -> twin2 (GPush h) (GPush v)
| t2_lh1 c gt : twin2 (LH1 c gt) (LH1 c gt).

Lemma twin2_nodes_ok bound p p' : twin2 p p' -> pc_nodes_ok bound p -> pc_nodes_ok bound p'.
Proof. intros T. destruct T; cbn; intros Hn; try exact Hn; try exact I; lia. Qed.

Lemma twin2_tl_ok l p p' rest : twin2 p p' -> tl_ok l (p :: rest) -> tl_ok l (p' :: rest).
Proof. intros T. destruct T; exact (fun H => H). Qed.

Lemma twin2_top_ok bound m l n p p' :
  twin2 p p' -> top_ok bound m l n (Some p) -> top_ok bound m l n (Some p').
Proof. intros T. destruct T; cbn; intros Hn; try exact Hn; apply Hn. Qed.

#[local] Set Default Proof Using "All".

Section Retop.
Variables (s : state) (t : N) (p p' : pc) (rest : list pc) (thr' : N -> thread).
Hypothesis Hs : t_stack (thr s t) = p :: rest.
Hypothesis Htw : twin2 p p'.
Hypothesis Hsame : thr' t = mkThread (p' :: rest) (t_loc (thr s t)) (t_prog (thr s t)) (t_cmdi (thr s t)) (t_status (thr s t)).
Hypothesis Hoth : forall t', t' <> t -> thr' t' = thr s t'.

Local Notation s' := (mkState (sh s) thr' (hnd s)).

Lemma retop_same : thr s' t = mkThread (p' :: rest) (t_loc (thr s t)) (t_prog (thr s t)) (t_cmdi (thr s t)) (t_status (thr s t)).
Proof. exact Hsame. Qed.

Lemma retop_other t' : t' <> t -> thr s' t' = thr s t'.
Proof. exact (Hoth t'). Qed.

Lemma retop_stack : t_stack (thr s' t) = p' :: rest.
Proof. rewrite retop_same. reflexivity. Qed.
Lemma retop_loc t' : t_loc (thr s' t') = t_loc (thr s t').
Proof. destruct (N.eq_dec t' t) as [->|H]; [rewrite retop_same; reflexivity|rewrite retop_other by exact H; reflexivity]. Qed.
Lemma retop_status t' : t_status (thr s' t') = t_status (thr s t').
Proof. destruct (N.eq_dec t' t) as [->|H]; [rewrite retop_same; reflexivity|rewrite retop_other by exact H; reflexivity]. Qed.
Lemma retop_prog t' : t_prog (thr s' t') = t_prog (thr s t').
Proof. destruct (N.eq_dec t' t) as [->|H]; [rewrite retop_same; reflexivity|rewrite retop_other by exact H; reflexivity]. Qed.
Lemma retop_cmdi t' : t_cmdi (thr s' t') = t_cmdi (thr s t').
Proof. destruct (N.eq_dec t' t) as [->|H]; [rewrite retop_same; reflexivity|rewrite retop_other by exact H; reflexivity]. Qed.

Lemma retop_thread (F : thread -> Prop) :
  (forall l pr ci st, F (mkThread (p :: rest) l pr ci st) -> F (mkThread (p' :: rest) l pr ci st)) ->
  forall t', F (thr s t') -> F (thr s' t').
Proof.
  intros HF t' H. destruct (N.eq_dec t' t) as [->|Hne]; [|rewrite retop_other by exact Hne; exact H].
  rewrite retop_same. apply HF. destruct (thr s t) as [stk l pr ci st]. cbn in Hs. subst stk. exact H.
Qed.

Lemma retop_fun {A} (F : thread -> A) :
  (forall l pr ci st, F (mkThread (p' :: rest) l pr ci st) = F (mkThread (p :: rest) l pr ci st)) ->
  forall t', F (thr s' t') = F (thr s t').
Proof.
  intros HF t'. destruct (N.eq_dec t' t) as [->|Hne]; [|rewrite retop_other by exact Hne; reflexivity].
  rewrite retop_same, HF. destruct (thr s t) as [stk l pr ci st]. cbn in Hs. subst stk. reflexivity.
Qed.

Lemma retop_holder t' : holder (thr s' t') = holder (thr s t').
Proof. apply retop_fun. intros. destruct Htw; reflexivity. Qed.

Lemma retop_in t' f : In f (t_stack (thr s' t')) -> (t' = t /\ f = p') \/ (In f (t_stack (thr s t')) /\ (t' = t -> In f rest)).
Proof.
  destruct (N.eq_dec t' t) as [->|Hne].
  - rewrite retop_stack, Hs. intros [<-|H]; [left; auto|right; split; [right; exact H|intros _; exact H]].
  - rewrite retop_other by exact Hne. intros H. right. split; [exact H|contradiction].
Qed.

Lemma retop_nn : nn s' = nn s. Proof. reflexivity. Qed.

(** ** [WF2] *)
Lemma retop_WF2 : WF2 s -> WF2 s'.
Proof.
  intros W. constructor.
  - intros t'. rewrite retop_status, retop_loc. intros Hr. pose proof (w_thr _ W t' Hr) as H. revert H.
    apply (retop_thread (fun th => stk_ok (nn s) (t_loc (thr s t')) (t_stack th))). cbn [t_stack].
    intros _ _ _ _ [H1 H2]. inversion H2 as [|? ? Hp Hrest]; subst.
    split; [exact (twin2_tl_ok _ _ _ _ Htw H1)|constructor; [exact (twin2_nodes_ok _ _ _ Htw Hp)|exact Hrest]].
  - intros t' n. rewrite retop_holder. apply (w_lt _ W).
  - intros t1 t2 n. rewrite !retop_holder. apply (w_uniq _ W).
  - intros n Hn. rewrite (w_inuse _ W n Hn). split; intros [t' H]; exists t'; [rewrite retop_holder|rewrite retop_holder in H]; exact H.
  - intros t' n. rewrite retop_status, retop_holder, retop_loc. intros Hr Hh. pose proof (w_top _ W t' n Hr Hh) as H. revert H.
    apply (retop_thread (fun th => top_ok (nn s) (mem (sh s)) (t_loc (thr s t')) n (hd_error (t_stack th)))). cbn [t_stack hd_error].
    intros _ _ _ _. exact (twin2_top_ok _ _ _ _ _ _ Htw).
  - intros n Hn Hno. apply (w_unowned _ W n Hn). intros t'. rewrite <- retop_holder. apply Hno.
  - apply (w_ctl _ W).
  - apply (w_off _ W).
Qed.

(** ** [Quiet] *)
Lemma retop_Quiet : Quiet s -> Quiet s'.
Proof.
  intros Q. apply (Quiet_upd s s' t Q).
  - intros t' H. apply retop_other. exact H.
  - rewrite retop_status, retop_loc. intros Hr. destruct (q_stop _ Q t Hr) as [E _]. rewrite Hs in E. discriminate.
  - rewrite retop_stack. pose proof (q_bl _ Q t) as H. rewrite Hs in H. destruct Htw; exact H.
  - unfold exit_shape. rewrite retop_stack, retop_loc. pose proof (q_exit _ Q t) as H. unfold exit_shape in H. rewrite Hs in H.
    intros Hin. assert (Hin' : In WThreadExit (p :: rest)).
    { destruct Hin as [E|Hin]; [destruct Htw; discriminate E|right; exact Hin]. }
    destruct (H Hin') as (_ & q & [= -> ->] & Hc). destruct Htw; discriminate Hc.
Qed.

Lemma retop_CtlFresh : CtlFresh s -> CtlFresh s'.
Proof. intros F. exact F. Qed.

Lemma retop_NoFault : NoFault s -> NoFault s'.
Proof. intros H t'. rewrite retop_status. apply H. Qed.

Lemma retop_Typed : Typed s -> Typed s'.
Proof.
  intros T t'. rewrite retop_status. intros Hr. pose proof (T t' Hr) as H. revert H.
  apply (retop_thread (fun th => typed_stack (t_stack th) = true)). cbn [t_stack]. intros _ _ _ _. destruct Htw; exact (fun H => H).
Qed.

Lemma retop_CloneCmd : CloneCmd s -> CloneCmd s'.
Proof.
  intros C t' a Hin. rewrite retop_prog, retop_cmdi. apply (C t' a).
  destruct (retop_in _ _ Hin) as [[_ E]|[H _]]; [destruct Htw; discriminate E|exact H].
Qed.
End Retop.
