(** * ASModel.Stale2Inv10 — [Master], [LinInv2] and [LdTyped] ([StaleInv8.LinAll]) are preserved by
    the instrumented step [gstep_stale2]; the completing step of a load returns a value that is
    fresh ([load_returns_fresh_stale2]: that step is never a stale load). *)
From Coq Require Import Lia.
From ASModel Require Import Base State Orderings_gen Step Run Progress Hist Inv InvTl InvProto InvStep Sum StepCases.
From ASModel Require Import GenDefs Gen1 Gen2 Gen EnvDefs Env4 Env AccDefs Acc ProtDefs Prot11 Typed Safe1 Safe2 Safe8 Safe.
From ASModel Require Import LinDefs Lin1 Lin2 Lin14 Lin Main.
From ASModel Require Import Stale StaleInv4 StaleInv5 StaleInv8.
From ASModel Require Import Stale2 Stale2Inv1 Stale2Inv2 Stale2Inv3 Stale2Inv4 Stale2Inv5 Stale2Inv6 Stale2Inv7 Stale2Inv9.

(** At [LA1], [gstep_stale2] is [gstep_stale]. *)
Lemma gstep_stale2_LA1 cf s g t x c rest :
  t_stack (thr s t) = LA1 c :: rest -> gstep_stale2 cf (s, g) t x = gstep_stale cf (s, g) t x.
Proof. intros H. unfold gstep_stale2, gstep_stale. rewrite (step_stale2_LA1 cf s t x c rest H). reflexivity. Qed.

(** The ghost state after the step from the state with [LH0d c] on top. *)
Lemma gstep_pre_snd cf s g t x c v i rest thr1 :
  t_status (thr s t) = Running -> t_stack (thr s t) = LAscan c v i :: rest ->
  thr1 t = mkThread (LH0d c :: rest) (t_loc (thr s t)) (t_prog (thr s t)) (t_cmdi (thr s t)) (t_status (thr s t)) ->
  sh (fst (step cf (mkState (sh s) thr1 (hnd s)) t 0)) = sh s ->
  sh (fst (step_stale2 cf s t x)) = sh s ->
  snd (gstep cf (mkState (sh s) thr1 (hnd s), g) t 0) = snd (gstep_stale2 cf (s, g) t x).
Proof.
  intros Hr Hst Hsame Hsh1 Hsh2. unfold gstep, gstep_stale2. cbn [snd]. rewrite Hsh1, Hsh2.
  unfold starts_now, publishes_now. cbn [thr]. rewrite Hsame, Hst, Hr. reflexivity.
Qed.

Theorem gstep_stale2_LinAll cf s g t x :
  GenBound s -> ProgOK s -> alloc_ok s t x -> stale2_ok s t x -> LinAll s g ->
  LinAll (fst (gstep_stale2 cf (s, g) t x)) (snd (gstep_stale2 cf (s, g) t x)).
Proof.
  intros GB PO AO SO [M LI LT].
  pose proof (step_stale2_Master cf s t x GB PO AO SO M) as M2.
  destruct (step_stale2_cases cf s t x (m_wf _ M) SO)
    as [E|c rest Hst|sn p p' rest thr' Esn Hr Hne Hci Hsn Htw Hsame Hoth E
        |c v i rest thr1 sn q thr2 Hr Hst Hsame1 Hoth1 Esn Hsh Hhnd Hci Hsn Htw Hsame2 Hoth2 E].
  - (* the step of [step] *)
    pose proof (step_Master cf s t x GB PO AO M) as Mn. pose proof (Master_EnvInvQ s M) as EQ.
    rewrite gstep_stale2_fst, gstep_stale2_snd. constructor; [exact M2| |]; rewrite E.
    + apply (gstep_LinInv2 cf s g t x); [apply M|apply Master_Calm; assumption|apply M|apply M
        |apply EnvInvQ_EnvFree; exact EQ|apply EnvInvQ_EnvA; exact EQ|exact LI|apply Mn].
    + apply step_LdTyped; [apply M|apply Mn|exact LT].
  - (* [LA1]: [StaleInv8] *)
    rewrite (gstep_stale2_LA1 cf s g t x c rest Hst). apply gstep_stale_LinAll; try assumption; [|constructor; assumption].
    apply stale2_ok_stale. exact SO.
  - (* the step of [step], then another top frame *)
    pose proof (step_Master cf s t x GB PO AO M) as Mn. pose proof (Master_EnvInvQ s M) as EQ.
    assert (LIn : LinInv2 (fst (step cf s t x)) (snd (gstep cf (s, g) t x))).
    { apply (gstep_LinInv2 cf s g t x); [apply M|apply Master_Calm; assumption|apply M|apply M
        |apply EnvInvQ_EnvFree; exact EQ|apply EnvInvQ_EnvA; exact EQ|exact LI|apply Mn]. }
    assert (LTn : LdTyped (fst (step cf s t x))) by (apply step_LdTyped; [apply M|apply Mn|exact LT]).
    rewrite gstep_stale2_fst, gstep_stale2_snd. constructor; [exact M2| |]; rewrite E; rewrite Esn in *.
    + eapply retop_LinInv2; eassumption.
    + eapply retop_LdTyped; eassumption.
  - (* [LH0d c] on top, then the step of [step] *)
    set (s1 := mkState (sh s) thr1 (hnd s)) in *.
    assert (M1 : Master s1) by (eapply Master_retop2; try eassumption; constructor).
    assert (LI1 : LinInv2 s1 g) by (eapply retop_LinInv2; try eassumption; constructor).
    assert (LT1 : LdTyped s1) by (eapply retop_LdTyped; try eassumption; constructor).
    assert (GB1 : GenBound s1) by (eapply side_GenBound; eassumption).
    assert (PO1 : ProgOK s1) by (eapply side_ProgOK; try eassumption; discriminate).
    assert (AO1 : alloc_ok s1 t 0) by (unfold alloc_ok; cbn; rewrite Hsame1; exact I).
    pose proof (step_Master cf s1 t 0 GB1 PO1 AO1 M1) as Mn. pose proof (Master_EnvInvQ s1 M1) as EQ.
    assert (LIn : LinInv2 (fst (step cf s1 t 0)) (snd (gstep cf (s1, g) t 0))).
    { apply (gstep_LinInv2 cf s1 g t 0); [apply M1|apply Master_Calm; assumption|apply M1|apply M1
        |apply EnvInvQ_EnvFree; exact EQ|apply EnvInvQ_EnvA; exact EQ|exact LI1|apply Mn]. }
    assert (LTn : LdTyped (fst (step cf s1 t 0))) by (apply step_LdTyped; [apply M1|apply Mn|exact LT1]).
    assert (Eg : snd (gstep cf (s1, g) t 0) = snd (gstep_stale2 cf (s, g) t x)).
    { apply (gstep_pre_snd cf s g t x c v i rest thr1 Hr Hst Hsame1); [fold s1; rewrite <- Esn; exact Hsh|].
      rewrite E. cbn [sh]. exact Hsh. }
    rewrite gstep_stale2_fst, <- Eg. constructor; [exact M2| |]; rewrite E; rewrite Esn in *.
    + eapply retop_LinInv2; eassumption.
    + eapply retop_LdTyped; eassumption.
Qed.

(** ** The step that completes a load: it is never a stale load *)
Theorem load_returns_fresh_stale2 cf s g t x cm c h :
  GenBound s -> ProgOK s -> alloc_ok s t x -> LinAll s g ->
  cur_cmd s t = Some cm -> is_load_of cm c h ->
  t_cmdi (thr (fst (step_stale2 cf s t x)) t) = t_cmdi (thr s t) + 1 ->
  let s' := fst (step_stale2 cf s t x) in
  let g' := snd (gstep_stale2 cf (s, g) t x) in
  exists rv, hnd s' h = handle_of rv /\ g_start g' t = g_start g t /\
             (forall v, rval rv = Some v -> (g_lt g' c v >= g_start g' t)%nat) /\
             (forall K, load_kind cm = Some K -> kind_of rv = Some K).
Proof.
  intros GB PO AO [M LI LT] Hcm Hld Hci. cbn zeta. rewrite gstep_stale2_snd, step_stale2_hnd.
  pose proof (step_Master cf s t x GB PO AO M) as Mn.
  pose proof (Master_EnvInvQ s M) as EQ.
  assert (Hci' : t_cmdi (thr (fst (step cf s t x)) t) = t_cmdi (thr s t) + 1).
  { destruct (step_stale2_dich cf s t x) as [E|(_ & _ & _ & _ & A & _)]; [rewrite <- E; exact Hci|].
    cbn zeta in A. rewrite A in Hci. lia. }
  destruct (load_returns_fresh cf s g t x cm c h (m_wf _ M) (Master_Calm s GB PO) (m_quiet _ M) (m_gen _ M)
              (EnvInvQ_EnvFree _ EQ) (EnvInvQ_EnvA _ EQ) LI (m_nofault _ Mn) Hcm Hld Hci') as (rv & H1 & H2 & H3 & H4 & H5).
  exists rv. split; [exact H1|]. split; [exact H3|]. split; [exact H4|]. intros K. apply H5. exact LT.
Qed.
