(** * ASModel.Stale2Inv11 — instrumented runs of [step_stale2]: the ghost state names states of the
    run ([lt_sound_stale2]); [LinAll] in every state of a [RunOKS2] run. *)
From Coq Require Import Lia.
From ASModel Require Import Base State Orderings_gen Step Run Progress Hist Inv InvTl InvProto InvStep Sum StepCases.
From ASModel Require Import GenDefs Gen1 Gen2 Gen EnvDefs Env4 Env AccDefs Acc ProtDefs Prot11 Typed Safe1 Safe2 Safe8 Safe.
From ASModel Require Import LinDefs Lin1 Lin2 Lin14 Lin Main.
From ASModel Require Import Stale StaleInv8 Stale2 Stale2Inv6 Stale2Inv8 Stale2Inv9 Stale2Inv10.

Lemma grun_stale2_snoc cf sg sched tx :
  grun_stale2 cf sg (sched ++ [tx]) = gstep_stale2 cf (grun_stale2 cf sg sched) (fst tx) (snd tx).
Proof. unfold grun_stale2. rewrite fold_left_app. reflexivity. Qed.

Lemma grun_stale2_cons cf s g t x sched :
  grun_stale2 cf (s, g) ((t, x) :: sched) = grun_stale2 cf (gstep_stale2 cf (s, g) t x) sched.
Proof. reflexivity. Qed.

Lemma grun_stale2_app cf sg a b : grun_stale2 cf sg (a ++ b) = grun_stale2 cf (grun_stale2 cf sg a) b.
Proof. unfold grun_stale2. apply fold_left_app. Qed.

Lemma grun_stale2_fst cf : forall sched s g, fst (grun_stale2 cf (s, g) sched) = run_state_stale2 cf s sched.
Proof.
  induction sched as [|[t x] sched IH]; intros s g; [reflexivity|].
  rewrite grun_stale2_cons, run_state_stale2_cons. unfold gstep_stale2 at 1. rewrite IH. reflexivity.
Qed.

Lemma grun_stale2_now cf : forall sched s g, g_now (snd (grun_stale2 cf (s, g) sched)) = (g_now g + length sched)%nat.
Proof.
  induction sched as [|[t x] sched IH]; intros s g; [cbn; lia|].
  rewrite grun_stale2_cons. unfold gstep_stale2. rewrite IH. cbn. lia.
Qed.

Lemma LtFresh_sh s1 s2 g : sh s2 = sh s1 -> LtFresh s1 g -> LtFresh s2 g.
Proof. intros E (A & B). split; [|exact B]. intros c. rewrite E. apply A. Qed.

Lemma LtFresh_step_stale2 cf s g t x :
  LtFresh s g -> LtFresh (fst (gstep_stale2 cf (s, g) t x)) (snd (gstep_stale2 cf (s, g) t x)).
Proof.
  intros H. rewrite gstep_stale2_fst, gstep_stale2_snd.
  apply (LtFresh_sh (fst (step cf s t x))); [apply step_stale2_sh|]. apply LtFresh_step. exact H.
Qed.

Lemma grun_stale2_LtFresh cf : forall sched s g, LtFresh s g ->
  LtFresh (fst (grun_stale2 cf (s, g) sched)) (snd (grun_stale2 cf (s, g) sched)).
Proof.
  induction sched as [|[t x] sched IH]; intros s g H; [exact H|].
  rewrite grun_stale2_cons. pose proof (LtFresh_step_stale2 cf s g t x H) as H1.
  destruct (gstep_stale2 cf (s, g) t x) as [s1 g1]. apply IH. exact H1.
Qed.

Lemma grun_stale2_start_mono cf : forall sched s g t, LtFresh s g ->
  (g_start g t <= g_start (snd (grun_stale2 cf (s, g) sched)) t)%nat.
Proof.
  induction sched as [|[t0 x] sched IH]; intros s g t H; [cbn; lia|].
  rewrite grun_stale2_cons. pose proof (LtFresh_step_stale2 cf s g t0 x H) as H1.
  pose proof (proj1 (g_start_le cf s g t0 x H t)) as H2. rewrite <- gstep_stale2_snd in H2.
  destruct (gstep_stale2 cf (s, g) t0 x) as [s1 g1]. cbn [fst snd] in *. pose proof (IH _ g1 t H1). lia.
Qed.

(** [g_lt] names a state of the run in which the container held the value. *)
Theorem lt_sound_stale2 cf s0 sched c v :
  let k := g_lt (snd (grun_stale2 cf (s0, ghost0) sched)) c v in
  (k <= length sched)%nat /\
  ((k > 0)%nat -> mem (sh (run_state_stale2 cf s0 (firstn k sched))) (LStore c) = v).
Proof.
  induction sched as [|tx sched IH] using rev_ind; [cbn; split; [lia|intros; lia]|].
  cbn zeta in *. rewrite grun_stale2_snoc.
  destruct (grun_stale2 cf (s0, ghost0) sched) as [s1 g1] eqn:Hg.
  assert (Hs1 : s1 = run_state_stale2 cf s0 sched) by (rewrite <- (grun_stale2_fst cf sched s0 ghost0), Hg; reflexivity).
  assert (Hn : g_now g1 = length sched).
  { pose proof (grun_stale2_now cf sched s0 ghost0) as H. rewrite Hg in H. exact H. }
  cbn [snd] in IH. rewrite gstep_stale2_snd, g_lt_step, Hn, app_length. cbn [length].
  rewrite <- step_stale2_sh.
  destruct (N.eqb_spec (mem (sh (fst (step_stale2 cf s1 (fst tx) (snd tx)))) (LStore c)) v) as [E|E].
  - split; [lia|]. intros _. replace (S (length sched)) with (length (sched ++ [tx])) by (rewrite app_length; cbn; lia).
    rewrite firstn_all. destruct tx as [t x]. rewrite run_state_stale2_snoc, <- Hs1. exact E.
  - destruct IH as [IH1 IH2]. split; [lia|]. intros Hk.
    rewrite firstn_app. replace (g_lt g1 c v - length sched)%nat with 0%nat by lia.
    cbn [firstn]. rewrite app_nil_r. apply IH2. exact Hk.
Qed.

Section Run.
  Variables (cf : config) (inits : list N) (progs : list (list cmd)) (sched : list (N * N)).
  Hypothesis R : RunOKS2 cf inits progs sched.
  Local Notation s0 := (init_state inits progs).
  Local Notation St k := (StS2 cf s0 sched k).
  Local Notation Gh k := (snd (grun_stale2 cf (s0, ghost0) (firstn k sched))).

  Lemma GhS2_pair k : grun_stale2 cf (s0, ghost0) (firstn k sched) = (St k, Gh k).
  Proof.
    destruct (grun_stale2 cf (s0, ghost0) (firstn k sched)) as [s1 g1] eqn:Hg. cbn [snd]. f_equal.
    unfold StS2. rewrite <- (grun_stale2_fst cf (firstn k sched) s0 ghost0), Hg. reflexivity.
  Qed.

  Lemma GhS2_succ k t x : nth_error sched k = Some (t, x) -> Gh (S k) = snd (gstep_stale2 cf (St k, Gh k) t x).
  Proof. intros H. rewrite (firstn_succ_nth _ _ _ H), grun_stale2_snoc, GhS2_pair. reflexivity. Qed.

  Lemma GhS2_now k : (k <= length sched)%nat -> g_now (Gh k) = k.
  Proof. intros H. rewrite grun_stale2_now. cbn. rewrite firstn_length. lia. Qed.

  Lemma GhS2_LtFresh k : LtFresh (St k) (Gh k).
  Proof.
    pose proof (grun_stale2_LtFresh cf (firstn k sched) s0 ghost0 (LtFresh_init inits progs)) as H.
    rewrite GhS2_pair in H. exact H.
  Qed.

  Lemma GhS2_start_mono j k t : (j <= k)%nat -> (g_start (Gh j) t <= g_start (Gh k) t)%nat.
  Proof.
    intros H. rewrite (firstn_split sched j k H), grun_stale2_app, GhS2_pair.
    apply grun_stale2_start_mono. apply GhS2_LtFresh.
  Qed.

  Lemma run_stale2_LinAll k : LinAll (St k) (Gh k).
  Proof.
    induction k as [|k IH].
    - constructor; [apply (run_stale2_Master _ _ _ _ R 0)|apply LinInv2_init|apply LdTyped_init].
    - destruct (nth_error sched k) as [[t x]|] eqn:Hk.
      + rewrite (StS2_step _ _ _ _ _ _ Hk), (GhS2_succ k t x Hk), <- gstep_stale2_fst with (g := Gh k).
        apply gstep_stale2_LinAll; [apply (ros2_state _ _ _ _ R k)|apply RunOKS2_ProgOK; exact R
                                  |apply (ros2_alloc _ _ _ _ R k t x Hk)|apply (ros2_stale _ _ _ _ R k t x Hk)|exact IH].
      + rewrite (StS2_end _ _ _ _ Hk). apply nth_error_None in Hk.
        replace (firstn (S k) sched) with (firstn k sched) by (rewrite !firstn_all2 by lia; reflexivity). exact IH.
  Qed.
End Run.
