(** * ASModel.Stale2Inv2 — [ValOK], [GenInv] and [EnvInv] survive the replacement of a top frame
    by its [twin2] (the frames concerned carry no generation, no request, no reservation and
    no handover). *)
From Coq Require Import Lia.
From ASModel Require Import Base State Orderings_gen Step Run Progress Hist Inv InvTl InvProto InvStep Sum StepCases.
From ASModel Require Import GenDefs Gen1 Gen2 EnvDefs Env1 Env4 Safe1 Stale Stale2 Stale2Inv1.

#[local] Set Default Proof Using "All".
Section Retop.
Variables (s : state) (t : N) (p p' : pc) (rest : list pc) (thr' : N -> thread).
Hypothesis Hs : t_stack (thr s t) = p :: rest.
Hypothesis Htw : twin2 p p'.
Hypothesis Hsame : thr' t = mkThread (p' :: rest) (t_loc (thr s t)) (t_prog (thr s t)) (t_cmdi (thr s t)) (t_status (thr s t)).
Hypothesis Hoth : forall t', t' <> t -> thr' t' = thr s t'.

Local Notation s' := (mkState (sh s) thr' (hnd s)).

(** ** [ValOK]: the new value is not the empty-slot marker *)
Lemma retop_ValOK : pc_vok p' = true -> ValOK s -> ValOK s'.
Proof.
  intros Hv V. constructor; [apply V|apply V|].
  intros t'. pose proof (v_stk _ V t') as H. revert H.
  apply (retop_thread s t p p' rest thr' Hs Htw Hsame Hoth (fun th => forallb pc_vok (t_stack th) = true)). cbn.
  intros _ _ _ _ H. apply andb_prop in H as [_ H]. rewrite Hv, H. reflexivity.
Qed.

(** ** [GenInv] *)
Lemma retop_owner t' : owner (thr s' t') = owner (thr s t').
Proof. unfold owner. rewrite (retop_loc s t p p' rest thr' Hs Htw Hsame Hoth). reflexivity. Qed.

Lemma retop_unpublished t' : unpublished (thr s' t') = unpublished (thr s t').
Proof. apply (retop_fun s t p p' rest thr' Hs Htw Hsame Hoth). intros. destruct Htw; reflexivity. Qed.

Lemma retop_req_of t' : req_of (thr s' t') = req_of (thr s t').
Proof. apply (retop_fun s t p p' rest thr' Hs Htw Hsame Hoth). intros. destruct Htw; reflexivity. Qed.

Lemma retop_resv w t' : resv w (t_stack (thr s' t')) = resv w (t_stack (thr s t')).
Proof. apply (retop_fun s t p p' rest thr' Hs Htw Hsame Hoth (fun th => resv w (t_stack th))). intros. destruct Htw; reflexivity. Qed.

Lemma retop_GenInv : GenInv s -> GenInv s'.
Proof.
  intros [Wi NU GT U C T]. constructor.
  - intros w. eapply Total_ext; [|exact (Wi w)]. intros k. cbn beta. symmetry. apply retop_resv.
  - exact NU.
  - intros t'. rewrite (retop_status s t p p' rest thr' Hs Htw Hsame Hoth), (retop_loc s t p p' rest thr' Hs Htw Hsame Hoth). intros Hr.
    pose proof (GT t' Hr) as H. revert H.
    apply (retop_thread s t p p' rest thr' Hs Htw Hsame Hoth (fun th => Forall (gen_frame_ok (t_loc (thr s t'))) (t_stack th))). cbn.
    intros _ _ _ _ H. inversion H; subst. constructor; [destruct Htw; try exact I; assumption|assumption].
  - intros t' f w ctl Hin Hf th. rewrite retop_owner, retop_unpublished, (retop_loc s t p p' rest thr' Hs Htw Hsame Hoth).
    destruct (retop_in s t p p' rest thr' Hs Htw Hsame Hoth _ _ Hin) as [[_ ->]|[Hin' _]]; [destruct Htw; discriminate Hf|].
    exact (U t' f w ctl Hin' Hf th).
  - intros t' f c w ctl Hin Hf th c'. rewrite retop_owner, retop_req_of.
    destruct (retop_in s t p p' rest thr' Hs Htw Hsame Hoth _ _ Hin) as [[_ ->]|[Hin' _]]; [destruct Htw; discriminate Hf|].
    exact (C t' f c w ctl Hin' Hf th c').
  - intros t' f w ctl their Hin Hf th c'. rewrite retop_owner, retop_req_of.
    destruct (retop_in s t p p' rest thr' Hs Htw Hsame Hoth _ _ Hin) as [[_ ->]|[Hin' _]]; [destruct Htw; discriminate Hf|].
    exact (T t' f w ctl their Hin' Hf th c').
Qed.

(** ** [EnvInv]: a quiet change of the acting thread *)
Lemma retop_EnvInv : WF2 s -> EnvInv s -> EnvInv s'.
Proof.
  intros W EI. apply (quiet_step s s' t W EI).
  - intros t' H. apply (retop_other s t p p' rest thr' Hs Htw Hsame Hoth). exact H.
  - reflexivity.
  - intros k _. reflexivity.
  - intros k _. left. reflexivity.
  - intros k. reflexivity.
  - rewrite Hs. destruct Htw; reflexivity.
  - rewrite (retop_stack s t p p' rest thr' Hs Htw Hsame Hoth). destruct Htw; reflexivity.
Qed.
End Retop.
