(** * ASModel.Stale2Inv3 — [AccInv] and [ProtInv'] survive the replacement of a top frame by its
    [twin2]: none of the frames concerned holds a reference or a debt claim. *)
From Coq Require Import Lia.
From ASModel Require Import Base State Orderings_gen Step Run Progress Hist Inv InvTl InvProto InvStep Sum StepCases.
From ASModel Require Import GenDefs Gen1 Gen2 AccDefs Acc1 Acc2 Acc3 Acc4 Acc ProtDefs Prot1 Prot11 Stale Stale2 Stale2Inv1.

#[local] Set Default Proof Using "All".
Section Retop.
Variables (s : state) (t : N) (p p' : pc) (rest : list pc) (thr' : N -> thread).
Hypothesis Hs : t_stack (thr s t) = p :: rest.
Hypothesis Htw : twin2 p p'.
Hypothesis Hsame : thr' t = mkThread (p' :: rest) (t_loc (thr s t)) (t_prog (thr s t)) (t_cmdi (thr s t)) (t_status (thr s t)).
Hypothesis Hoth : forall t', t' <> t -> thr' t' = thr s t'.

Local Notation s' := (mkState (sh s) thr' (hnd s)).

Lemma retop_in_rev t' f : In f (t_stack (thr s t')) -> (t' = t /\ f = p) \/ In f (t_stack (thr s' t')).
Proof.
  destruct (N.eq_dec t' t) as [->|Hne].
  - rewrite (retop_stack s t p p' rest thr' Hs Htw Hsame Hoth), Hs. intros [<-|H]; [left; auto|right; right; exact H].
  - rewrite (retop_other s t p p' rest thr' Hs Htw Hsame Hoth) by exact Hne. intros H. right. exact H.
Qed.

(** ** [AccInv] *)
Lemma retop_AccInv : AccInv s -> AccInv s'.
Proof.
  intros [A Al Fr Ty NC]. constructor.
  - intros a Ha. destruct (A a Ha) as (nL & nR & TL & TR & E). exists nL, nR. split; [|split; [|exact E]].
    + eapply Total_ext; [|exact TL]. intros [n j|c|w|t'|h]; try reflexivity. cbn [Lw]. symmetry.
      apply (retop_fun s t p p' rest thr' Hs Htw Hsame Hoth (fun th => spend a (t_stack th))). intros. destruct Htw; reflexivity.
    + eapply Total_ext; [|exact TR]. intros [n j|c|w|t'|h]; try reflexivity. cbn [Rw]. symmetry.
      apply (retop_fun s t p p' rest thr' Hs Htw Hsame Hoth (fun th => srefs a (mem (sh s)) (t_stack th))). intros. destruct Htw; reflexivity.
  - exact Al.
  - exact Fr.
  - intros t'. pose proof (Ty t') as H. revert H.
    apply (retop_thread s t p p' rest thr' Hs Htw Hsame Hoth (fun th => typed (t_stack th))). cbn. intros _ _ _ _. destruct Htw; exact (fun H => H).
  - exact NC.
Qed.

(** ** [ProtInv'] *)
Lemma retop_claims t' : stack_claims (thr s' t') = stack_claims (thr s t').
Proof. apply (retop_fun s t p p' rest thr' Hs Htw Hsame Hoth). intros. destruct Htw; reflexivity. Qed.

Lemma retop_unconfirmed n j a t' : unconfirmed_top n j a (thr s' t') = unconfirmed_top n j a (thr s t').
Proof. apply (retop_fun s t p p' rest thr' Hs Htw Hsame Hoth). intros. destruct Htw; reflexivity. Qed.

Lemma retop_ProtInv' : ProtInv' s -> ProtInv' s'.
Proof.
  intros [SC CN P PH PS Ty Ds]. constructor.
  - intros n j a Ha Hm. destruct (SC n j a Ha Hm) as [[t' H]|H]; [left; exists t'; rewrite retop_claims; exact H|right; exact H].
  - destruct CN as [C1 C2]. split; [|exact C2]. intros t' sl a. rewrite retop_claims. apply C1.
  - intros n j a Ha Hm. destruct (P n j a Ha Hm) as [[t' H]|[H|(t' & q & Hin & H1 & H2)]].
    + left. exists t'. rewrite retop_unconfirmed. exact H.
    + right. left. exact H.
    + right. right. exists t', q. split; [|split; assumption].
      destruct (retop_in_rev _ _ Hin) as [[_ ->]|H]; [destruct Htw; discriminate H1|exact H].
  - intros t' n q rest' c gt cand Hst Hrq Hv. rewrite (retop_loc s t p p' rest thr' Hs Htw Hsame Hoth). intros Hn Hm.
    assert (Hst' : t_stack (thr s t') = q :: rest').
    { destruct (N.eq_dec t' t) as [->|Hne]; [|rewrite (retop_other s t p p' rest thr' Hs Htw Hsame Hoth) in Hst by exact Hne; exact Hst].
      rewrite (retop_stack s t p p' rest thr' Hs Htw Hsame Hoth) in Hst. injection Hst as <- <-. destruct Htw; discriminate Hrq. }
    destruct (PH t' n q rest' c gt cand Hst' Hrq Hv Hn Hm) as [H|(t2 & q2 & Hin & H1 & H2)]; [left; exact H|].
    right. exists t2, q2. split; [|split; assumption].
    destruct (retop_in_rev _ _ Hin) as [[_ ->]|H]; [destruct Htw; discriminate H1|exact H].
  - intros t'. rewrite <- (PS t'). apply (retop_fun s t p p' rest thr' Hs Htw Hsame Hoth (fun th => pay_shape (t_stack th))).
    intros. destruct Htw; reflexivity.
  - intros t'. pose proof (Ty t') as H. revert H.
    apply (retop_thread s t p p' rest thr' Hs Htw Hsame Hoth (fun th => gtyped (t_stack th))). cbn. intros _ _ _ _. destruct Htw; exact (fun H => H).
  - intros t' f h Hin Hb. rewrite (retop_prog s t p p' rest thr' Hs Htw Hsame Hoth), (retop_cmdi s t p p' rest thr' Hs Htw Hsame Hoth).
    destruct (retop_in s t p p' rest thr' Hs Htw Hsame Hoth _ _ Hin) as [[_ ->]|[Hin' _]]; [destruct Htw; discriminate Hb|].
    exact (Ds t' f h Hin' Hb).
Qed.
End Retop.
