(** * ASModel.Stale2Inv4 — [Master] for a state with a replaced top frame ([Master_retop2]) and the
    shapes of a step of [step_stale2] ([stale2_shape]):
    - it is the step of [step] (up to the value in the load event), or of [step_stale] (at [LA1]);
    - or it is the step of [step] followed by the replacement of the new top frame by a [twin2];
    - or (the eighth slot looked occupied, no debug assertions: the fallback begins with a new
      generation) it is the step of [step] from the state with [LH0d c] on top, whose load of
      [in_use] finds [NODE_USED]. *)
From Coq Require Import Lia.
From ASModel Require Import Base State Orderings_gen Step Run Progress Hist Inv InvTl InvProto InvStep Sum StepCases.
From ASModel Require Import GenDefs Gen1 Gen2 Gen EnvDefs Env4 Env AccDefs Acc ProtDefs Prot11 Typed Safe1 Safe2 Safe8 Safe Main.
From ASModel Require Import Stale Stale2 Stale2Inv1 Stale2Inv2 Stale2Inv3.

Lemma twin2_vok p p' : twin2 p p' -> pc_vok p = true -> pc_vok p' = true.
Proof. intros T. destruct T; cbn; auto. Qed.

Lemma Master_retop2 s t p p' rest thr' :
  t_stack (thr s t) = p :: rest -> twin2 p p' ->
  thr' t = mkThread (p' :: rest) (t_loc (thr s t)) (t_prog (thr s t)) (t_cmdi (thr s t)) (t_status (thr s t)) ->
  (forall t', t' <> t -> thr' t' = thr s t') ->
  Master s -> Master (mkState (sh s) thr' (hnd s)).
Proof.
  intros Hs Htw Hsame Hoth [W Q G E C A P T V CC NF].
  assert (Hv : pc_vok p' = true).
  { apply (twin2_vok p p' Htw). pose proof (v_stk _ V t) as H. rewrite Hs in H. cbn in H. apply andb_prop in H. apply H. }
  constructor.
  - eapply retop_WF2; eassumption.
  - eapply retop_Quiet; eassumption.
  - eapply retop_GenInv; eassumption.
  - eapply retop_EnvInv; eassumption.
  - exact C.
  - eapply retop_AccInv; eassumption.
  - eapply retop_ProtInv'; eassumption.
  - eapply retop_Typed; eassumption.
  - eapply retop_ValOK; eassumption.
  - eapply retop_CloneCmd; eassumption.
  - eapply retop_NoFault; eassumption.
Qed.

(** The state after [finish] does not depend on the events. *)
Lemma finish_fst_evs cf s t th s_sh l rest evs evs' nx :
  fst (finish cf s t th s_sh l rest evs nx) = fst (finish cf s t th s_sh l rest evs' nx).
Proof. unfold finish. destruct nx; try reflexivity. destruct (unwind cf l rest v); reflexivity. Qed.

Lemma step_top cf s t x p rest :
  t_status (thr s t) = Running -> t_stack (thr s t) = p :: rest ->
  step cf s t x = (let '(s_sh, l, evs, nx) := exec cf (sh s) (t_loc (thr s t)) p x in
                   finish cf s t (thr s t) s_sh l rest evs nx).
Proof. intros Hr Hst. unfold step. rewrite Hr, Hst. reflexivity. Qed.

Lemma step_stale2_top cf s t x p rest :
  t_status (thr s t) = Running -> t_stack (thr s t) = p :: rest -> 2 <= x ->
  step_stale2 cf s t x =
    match stale2_exec cf (sh s) (t_loc (thr s t)) p (x - 2) with
    | Some (s_sh, l, evs, nx) => finish cf s t (thr s t) s_sh l rest evs nx
    | None => step cf s t x
    end.
Proof. intros Hr Hst Hx. unfold step_stale2. rewrite Hr, Hst. apply N.leb_le in Hx. rewrite Hx. reflexivity. Qed.

Inductive stale2_shape (cf : config) (s : state) (t x : N) : Prop :=
| s2s_same : fst (step_stale2 cf s t x) = fst (step cf s t x) -> stale2_shape cf s t x
| s2s_la1 c rest : t_stack (thr s t) = LA1 c :: rest -> stale2_shape cf s t x
| s2s_post sn p p' rest thr' :
    sn = fst (step cf s t x) ->
    t_status (thr s t) = Running -> t_stack (thr s t) <> [] ->
    t_cmdi (thr sn t) = t_cmdi (thr s t) ->
    t_stack (thr sn t) = p :: rest -> twin2 p p' ->
    thr' t = mkThread (p' :: rest) (t_loc (thr sn t)) (t_prog (thr sn t)) (t_cmdi (thr sn t)) (t_status (thr sn t)) ->
    (forall t', t' <> t -> thr' t' = thr sn t') ->
    fst (step_stale2 cf s t x) = mkState (sh sn) thr' (hnd sn) ->
    stale2_shape cf s t x
| s2s_pre c v i rest thr1 sn q thr2 :
    t_status (thr s t) = Running -> t_stack (thr s t) = LAscan c v i :: rest ->
    thr1 t = mkThread (LH0d c :: rest) (t_loc (thr s t)) (t_prog (thr s t)) (t_cmdi (thr s t)) (t_status (thr s t)) ->
    (forall t', t' <> t -> thr1 t' = thr s t') ->
    sn = fst (step cf (mkState (sh s) thr1 (hnd s)) t 0) ->
    sh sn = sh s -> hnd sn = hnd s -> t_cmdi (thr sn t) = t_cmdi (thr s t) ->
    t_stack (thr sn t) = q :: rest -> twin2 q q ->
    thr2 t = mkThread (q :: rest) (t_loc (thr sn t)) (t_prog (thr sn t)) (t_cmdi (thr sn t)) (t_status (thr sn t)) ->
    (forall t', t' <> t -> thr2 t' = thr sn t') ->
    fst (step_stale2 cf s t x) = mkState (sh sn) thr2 (hnd sn) ->
    stale2_shape cf s t x.

(** Both steps continue with the same [next]: same state. *)
Lemma shape_same cf s t x s_sh l rest evs evs' nx :
  step cf s t x = finish cf s t (thr s t) s_sh l rest evs nx ->
  step_stale2 cf s t x = finish cf s t (thr s t) s_sh l rest evs' nx ->
  stale2_shape cf s t x.
Proof. intros En Es. apply s2s_same. rewrite En, Es. apply finish_fst_evs. Qed.

(** Both steps go to a frame, the two frames are twins. *)
Lemma shape_post cf s t x s_sh l rest evs evs' p p' q :
  t_status (thr s t) = Running -> t_stack (thr s t) = q :: rest ->
  step cf s t x = finish cf s t (thr s t) s_sh l rest evs (NGoto p) ->
  step_stale2 cf s t x = finish cf s t (thr s t) s_sh l rest evs' (NGoto p') ->
  twin2 p p' -> stale2_shape cf s t x.
Proof.
  intros Hr Hst En Es Htw.
  apply (s2s_post cf s t x (fst (step cf s t x)) p p' rest (thr (fst (step_stale2 cf s t x)))); try assumption; try reflexivity.
  - rewrite Hst. discriminate.
  - rewrite En. cbn. rewrite upd_same. reflexivity.
  - rewrite En. cbn. rewrite upd_same. reflexivity.
  - rewrite Es, En. cbn. rewrite !upd_same. reflexivity.
  - intros t' Hne. rewrite Es, En. cbn. rewrite !upd_other by exact Hne. reflexivity.
  - rewrite Es, En. reflexivity.
Qed.
