(** * ASModel.Stale2Inv5 — every step of [step_stale2] has one of the shapes of [stale2_shape]
    ([step_stale2_cases]). *)
From Coq Require Import Lia.
From ASModel Require Import Base State Orderings_gen Step Run Progress Hist Inv InvTl InvProto InvStep Sum StepCases.
From ASModel Require Import GenDefs Gen1 Gen2 Gen EnvDefs Env4 Env AccDefs Acc ProtDefs Prot11 Typed Safe1 Safe2 Safe8 Safe Main.
From ASModel Require Import Stale Stale2 Stale2Inv1 Stale2Inv2 Stale2Inv3 Stale2Inv4.

(** ** The cheap look at [in_use] of another node *)
Lemma shape_GCool1 cf s t x w rest :
  t_status (thr s t) = Running -> t_stack (thr s t) = GCool1 w :: rest -> 2 <= x -> stale2_shape cf s t x.
Proof.
  intros Hr Hst Hx.
  pose proof (step_top cf s t x _ _ Hr Hst) as En. pose proof (step_stale2_top cf s t x _ _ Hr Hst Hx) as Es.
  cbn [exec a_load stale2_exec] in En, Es.
  destruct (mem (sh s) (LInUse w) =? NODE_COOLDOWN); destruct (x - 2 =? NODE_COOLDOWN).
  - eapply shape_same; eassumption.
  - eapply shape_post; try eassumption. constructor.
  - eapply shape_post; try eassumption. constructor.
  - eapply shape_same; eassumption.
Qed.

(** ** The head of the list before the push loop *)
Lemma shape_GPush0 cf s t x rest :
  t_status (thr s t) = Running -> t_stack (thr s t) = GPush0 :: rest -> 2 <= x ->
  x - 2 <= mem (sh s) LHead -> stale2_shape cf s t x.
Proof.
  intros Hr Hst Hx Hle.
  pose proof (step_top cf s t x _ _ Hr Hst) as En. pose proof (step_stale2_top cf s t x _ _ Hr Hst Hx) as Es.
  cbn [exec a_load stale2_exec] in En, Es.
  eapply shape_post; try eassumption. constructor. exact Hle.
Qed.

(** ** The slot scan, eighth slot, no debug assertions: via [LH0d] *)
Lemma shape_pre cf s t x c w i rest evs' :
  t_status (thr s t) = Running -> t_stack (thr s t) = LAscan c w i :: rest -> cf_debug cf = false ->
  mem (sh s) (LInUse (own_node (t_loc (thr s t)))) = NODE_USED ->
  step_stale2 cf s t x =
    finish cf s t (thr s t) (sh s) (tl_set_gen (t_loc (thr s t)) ((tl_gen (t_loc (thr s t)) + 4) mod WORD)) rest evs'
           (NGoto (LH1 c (N.lor ((tl_gen (t_loc (thr s t)) + 4) mod WORD) GEN_TAG))) ->
  stale2_shape cf s t x.
Proof.
  intros Hr Hst Hd Hu Es.
  set (th1 := mkThread (LH0d c :: rest) (t_loc (thr s t)) (t_prog (thr s t)) (t_cmdi (thr s t)) (t_status (thr s t))).
  set (s1 := mkState (sh s) (upd (thr s) t th1) (hnd s)).
  assert (Ht1 : thr s1 t = th1) by (cbn; apply upd_same).
  assert (En : step cf s1 t 0 =
               finish cf s1 t th1 (sh s) (tl_set_gen (t_loc (thr s t)) ((tl_gen (t_loc (thr s t)) + 4) mod WORD)) rest
                      [ld_event (LInUse (own_node (t_loc (thr s t)))) o_dbg_inuse_helping NODE_USED]
                      (NGoto (LH1 c (N.lor ((tl_gen (t_loc (thr s t)) + 4) mod WORD) GEN_TAG)))).
  { rewrite (step_top cf s1 t 0 (LH0d c) rest) by (rewrite Ht1; [exact Hr|reflexivity] || (rewrite Ht1; reflexivity) || (rewrite Ht1; exact Hr)).
    rewrite Ht1. cbn [exec a_load th1 t_loc s1 sh]. rewrite Hu. cbn [N.eqb Pos.eqb NODE_USED].
    unfold gen_step. rewrite Hd. reflexivity. }
  apply (s2s_pre cf s t x c w i rest (upd (thr s) t th1) (fst (step cf s1 t 0))
                 (LH1 c (N.lor ((tl_gen (t_loc (thr s t)) + 4) mod WORD) GEN_TAG)) (thr (fst (step_stale2 cf s t x))));
    try assumption; try reflexivity.
  - intros t' Hne. apply upd_other. exact Hne.
  - rewrite En. reflexivity.
  - rewrite En. reflexivity.
  - rewrite En. cbn. rewrite upd_same. reflexivity.
  - rewrite En. cbn. rewrite upd_same. reflexivity.
  - constructor.
  - rewrite Es, En. cbn. rewrite !upd_same. reflexivity.
  - intros t' Hne. rewrite Es, En. cbn. rewrite !upd_other by exact Hne. reflexivity.
  - rewrite Es, En. reflexivity.
Qed.

(** ** The slot scan *)
Lemma shape_LAscan cf s t x c w i rest :
  WF2 s -> t_status (thr s t) = Running -> t_stack (thr s t) = LAscan c w i :: rest -> 2 <= x ->
  stale2_shape cf s t x.
Proof.
  intros W Hr Hst Hx.
  pose proof (step_top cf s t x _ _ Hr Hst) as En. pose proof (step_stale2_top cf s t x _ _ Hr Hst Hx) as Es.
  cbn [exec a_load stale2_exec] in En, Es.
  destruct (x - 2 =? NONE); [apply s2s_same; rewrite Es; reflexivity|].
  destruct (mem (sh s) (LSlot (own_node (t_loc (thr s t))) ((i + tl_off (t_loc (thr s t))) mod SLOT_CNT)) =? NONE).
  2:{ destruct (i =? 7); [destruct (fallback_entry cf (t_loc (thr s t)) c) as [l' nx]|]; eapply shape_same; eassumption. }
  destruct (w_thr _ W t Hr) as [Htl Hnodes]. rewrite Hst in Htl, Hnodes.
  destruct (N.eqb_spec i 7) as [Ei|Ei].
  - unfold fallback_entry in Es. destruct (tl_node (t_loc (thr s t))) as [n|] eqn:Hn.
    + destruct (cf_debug cf) eqn:Hd.
      * eapply shape_post; try eassumption. constructor.
      * eapply shape_pre; try eassumption.
        assert (Hh : holder (thr s t) = Some n) by (unfold holder; rewrite Hn; reflexivity).
        unfold own_node. rewrite Hn. apply (w_inuse _ W n (w_lt _ W t n Hh)). exists t. exact Hh.
    + exfalso. destruct Htl as (_ & _ & _ & Hnode & _). apply Hnode; [|exact Hn].
      cbn. destruct (depth_of rest); discriminate.
  - eapply shape_post; try eassumption. constructor.
    inversion Hnodes as [|? ? Hp _]; subst. cbn in Hp. lia.
Qed.

(** ** All steps *)
Lemma step_stale2_cases cf s t x : WF2 s -> stale2_ok s t x -> stale2_shape cf s t x.
Proof.
  intros W SO.
  destruct (t_status (thr s t)) eqn:Hr; try (apply s2s_same; unfold step_stale2; rewrite Hr; reflexivity).
  destruct (t_stack (thr s t)) as [|p rest] eqn:Hst; [apply s2s_same; unfold step_stale2; rewrite Hr, Hst; reflexivity|].
  destruct (2 <=? x) eqn:Hx; [|apply s2s_same; unfold step_stale2; rewrite Hr, Hst, Hx; reflexivity].
  apply N.leb_le in Hx.
  destruct p; try (apply s2s_same; rewrite (step_stale2_top cf s t x _ _ Hr Hst Hx); reflexivity).
  - eapply shape_GCool1; eassumption.
  - eapply shape_GPush0; try eassumption. unfold stale2_ok in SO. rewrite Hst in SO. exact (SO Hx).
  - eapply s2s_la1. exact Hst.
  - eapply shape_LAscan; eassumption.
Qed.
