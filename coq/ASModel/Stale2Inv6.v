(** * ASModel.Stale2Inv6 — the master invariant survives stale loads at all four sites:
    [step_stale2_Master]; runs of [step_stale2]: [RunOKS2], [run_stale2_Master]. *)
From Coq Require Import Lia.
From ASModel Require Import Base State Orderings_gen Step Run Progress Hist Inv InvTl InvProto InvStep Sum StepCases.
From ASModel Require Import GenDefs Gen1 Gen2 Gen EnvDefs Env4 Env AccDefs Acc ProtDefs Prot11 Typed Safe1 Safe2 Safe8 Safe Main.
From ASModel Require Import Lin Stale StaleInv4 StaleInv5 Stale2 Stale2Inv1 Stale2Inv2 Stale2Inv3 Stale2Inv4 Stale2Inv5.

(** The hypotheses of [step_Master] for the state with [LH0d c] on top of thread [t]'s stack. *)
Section Side.
Variables (s : state) (t : N) (p p' : pc) (rest : list pc) (thr' : N -> thread).
Hypothesis Hs : t_stack (thr s t) = p :: rest.
Hypothesis Hsame : thr' t = mkThread (p' :: rest) (t_loc (thr s t)) (t_prog (thr s t)) (t_cmdi (thr s t)) (t_status (thr s t)).
Hypothesis Hoth : forall t', t' <> t -> thr' t' = thr s t'.
Hypothesis Hp' : forall a, p' <> CloneInc a.
Local Notation s' := (mkState (sh s) thr' (hnd s)).

Lemma side_GenBound : GenBound s -> GenBound s'.
Proof.
  intros H t'. cbn. destruct (N.eq_dec t' t) as [->|Hne]; [rewrite Hsame; apply H|rewrite Hoth by exact Hne; apply H].
Qed.

Lemma side_ProgOK : ProgOK s -> ProgOK s'.
Proof.
  intros (NS & NC & DE & CS). split; [|split; [|split]].
  - intros t' g. cbn. destruct (N.eq_dec t' t) as [->|Hne]; [rewrite Hsame; apply NS|rewrite Hoth by exact Hne; apply NS].
  - intros t' c. cbn. destruct (N.eq_dec t' t) as [->|Hne]; [rewrite Hsame; apply NC|rewrite Hoth by exact Hne; apply NC].
  - intros t' c h. cbn. destruct (N.eq_dec t' t) as [->|Hne]; [|rewrite Hoth by exact Hne; apply DE].
    rewrite Hsame. cbn. intros Hr Hc Hd. destruct (DE t c h Hr Hc Hd) as [E|[E _]]; [left; exact E|].
    rewrite Hs in E. discriminate E.
  - intros t' h h2 a rest'. cbn. destruct (N.eq_dec t' t) as [->|Hne]; [|rewrite Hoth by exact Hne; apply CS].
    rewrite Hsame. cbn. intros _ _ E. injection E as E _. destruct (Hp' a E).
Qed.
End Side.

Lemma stale2_ok_stale s t x : stale2_ok s t x -> stale_ok s t x.
Proof.
  unfold stale2_ok, stale_ok. intros H. destruct (t_stack (thr s t)) as [|p rest]; [exact I|].
  destruct p; try exact I. exact H.
Qed.

Theorem step_stale2_Master cf s t x :
  GenBound s -> ProgOK s -> alloc_ok s t x -> stale2_ok s t x -> Master s -> Master (fst (step_stale2 cf s t x)).
Proof.
  intros GB PO AO SO M.
  destruct (step_stale2_cases cf s t x (m_wf _ M) SO)
    as [E|c rest Hst|sn p p' rest thr' Esn Hr Hne Hci Hsn Htw Hsame Hoth E
        |c v i rest thr1 sn q thr2 Hr Hst Hsame1 Hoth1 Esn Hsh Hhnd Hci Hsn Htw Hsame2 Hoth2 E].
  - rewrite E. apply step_Master; assumption.
  - rewrite (step_stale2_LA1 cf s t x c rest Hst). apply step_stale_Master; try assumption. apply stale2_ok_stale. exact SO.
  - rewrite E. eapply Master_retop2; try eassumption. rewrite Esn. apply step_Master; assumption.
  - rewrite E. eapply Master_retop2; try eassumption. rewrite Esn. apply step_Master.
    + eapply side_GenBound; eassumption.
    + eapply side_ProgOK; try eassumption. discriminate.
    + unfold alloc_ok. cbn. rewrite Hsame1. exact I.
    + eapply Master_retop2; try eassumption. constructor.
Qed.

(** Programs are not changed by a step. *)
Lemma step_stale2_prog cf s t x t' : t_prog (thr (fst (step_stale2 cf s t x)) t') = t_prog (thr s t').
Proof.
  unfold step_stale2. destruct (t_status (thr s t)) eqn:Hr; try apply step_prog.
  destruct (t_stack (thr s t)) as [|p rest] eqn:Hst; [apply step_prog|].
  destruct (2 <=? x); [|apply step_prog].
  destruct (stale2_exec cf (sh s) (t_loc (thr s t)) p (x - 2)) as [[[[s_sh l] evs] nx]|]; [|apply step_prog].
  unfold finish. destruct nx; cbn;
    try (destruct (N.eq_dec t' t) as [->|Hne]; [rewrite upd_same|rewrite upd_other by exact Hne]; reflexivity).
  destruct (unwind cf l rest v) as [l' stk|l' [[h hv]|] v'|l'|l' ps|l' f]; cbn;
    (destruct (N.eq_dec t' t) as [->|Hne]; [rewrite upd_same|rewrite upd_other by exact Hne]; reflexivity).
Qed.

(** A stale load emits no fault event of its own. *)
Lemma step_stale2_fault_event cf s t x f :
  In (EvFault f) (snd (step_stale2 cf s t x)) -> In (EvFault f) (snd (step cf s t x)).
Proof.
  unfold step_stale2. destruct (t_status (thr s t)); try exact (fun H => H).
  destruct (t_stack (thr s t)) as [|p rest]; [exact (fun H => H)|].
  destruct (2 <=? x); [|exact (fun H => H)].
  destruct p; cbn [stale2_exec]; try exact (fun H => H).
  - destruct (x - 2 =? NODE_COOLDOWN); cbn; intros H; exfalso; intuition discriminate.
  - cbn. intros H; exfalso; intuition discriminate.
  - unfold stale_exec. destruct (tl_node (t_loc (thr s t))); [destruct (cf_debug cf)|]; cbn; intros H; exfalso; intuition discriminate.
  - destruct (x - 2 =? NONE); [exact (fun H => H)|]. match goal with |- context[?i =? 7] => destruct (i =? 7) end.
    + unfold fallback_entry. destruct (tl_node (t_loc (thr s t))); [destruct (cf_debug cf)|]; cbn; intros H; exfalso; intuition discriminate.
    + cbn. intros H; exfalso; intuition discriminate.
Qed.

(** ** Runs *)
Definition StS2 (cf : config) (s0 : state) (sched : list (N * N)) (k : nat) : state :=
  run_state_stale2 cf s0 (firstn k sched).

Lemma run_state_stale2_snoc cf s sched t x :
  run_state_stale2 cf s (sched ++ [(t, x)]) = fst (step_stale2 cf (run_state_stale2 cf s sched) t x).
Proof. unfold run_state_stale2. rewrite fold_left_app. reflexivity. Qed.

Lemma run_state_stale2_cons cf s t x sched :
  run_state_stale2 cf s ((t, x) :: sched) = run_state_stale2 cf (fst (step_stale2 cf s t x)) sched.
Proof. reflexivity. Qed.

Lemma StS2_step cf s0 sched k t x :
  nth_error sched k = Some (t, x) -> StS2 cf s0 sched (S k) = fst (step_stale2 cf (StS2 cf s0 sched k) t x).
Proof. intros H. unfold StS2. rewrite (firstn_succ_nth _ _ _ H), run_state_stale2_snoc. reflexivity. Qed.

Lemma StS2_end cf s0 sched k : nth_error sched k = None -> StS2 cf s0 sched (S k) = StS2 cf s0 sched k.
Proof. intros H. apply nth_error_None in H. unfold StS2. rewrite !firstn_all2 by lia. reflexivity. Qed.

Lemma StS2_all cf s0 sched : StS2 cf s0 sched (length sched) = run_state_stale2 cf s0 sched.
Proof. unfold StS2. rewrite firstn_all. reflexivity. Qed.

Theorem run_stale2_Master_gen cf s0 sched :
  Master s0 ->
  (forall k, GenBound (StS2 cf s0 sched k) /\ ProgOK (StS2 cf s0 sched k)) ->
  (forall k t x, nth_error sched k = Some (t, x) ->
                 alloc_ok (StS2 cf s0 sched k) t x /\ stale2_ok (StS2 cf s0 sched k) t x) ->
  forall k, Master (StS2 cf s0 sched k).
Proof.
  intros M0 Hh Ha. induction k as [|k IH]; [exact M0|].
  destruct (nth_error sched k) as [[t x]|] eqn:Hk.
  - rewrite (StS2_step _ _ _ _ _ _ Hk). destruct (Hh k) as [GB PO]. destruct (Ha k t x Hk) as [AO SO].
    apply step_stale2_Master; assumption.
  - rewrite (StS2_end _ _ _ _ Hk). exact IH.
Qed.
