(** * ASModel.Stale2Inv7 — the invariants behind C03 ([LinInv2], [LdTyped]) survive the replacement
    of a top frame by its [twin2]: none of the frames concerned carries a candidate value. *)
From Coq Require Import Lia.
From ASModel Require Import Base State Orderings_gen Step Run Progress Hist Inv InvTl InvProto InvStep Sum StepCases.
From ASModel Require Import GenDefs Gen1 Gen2 EnvDefs LinDefs Lin1 Lin14 Stale Stale2 Stale2Inv1 Stale2Inv2.

#[local] Set Default Proof Using "All".
Section Retop.
Variables (s : state) (t : N) (p p' : pc) (rest : list pc) (thr' : N -> thread).
Hypothesis Hs : t_stack (thr s t) = p :: rest.
Hypothesis Htw : twin2 p p'.
Hypothesis Hsame : thr' t = mkThread (p' :: rest) (t_loc (thr s t)) (t_prog (thr s t)) (t_cmdi (thr s t)) (t_status (thr s t)).
Hypothesis Hoth : forall t', t' <> t -> thr' t' = thr s t'.

Local Notation s' := (mkState (sh s) thr' (hnd s)).

Lemma retop_cur_cmd t' : cur_cmd s' t' = cur_cmd s t'.
Proof.
  unfold cur_cmd. rewrite (retop_prog s t p p' rest thr' Hs Htw Hsame Hoth), (retop_cmdi s t p p' rest thr' Hs Htw Hsame Hoth). reflexivity.
Qed.

Lemma retop_cur_cont0 t' : cur_cont0 s' t' = cur_cont0 s t'.
Proof. unfold cur_cont0. rewrite retop_cur_cmd. reflexivity. Qed.

Lemma retop_ld t' : ld s' t' = ld s t'.
Proof. unfold ld. rewrite retop_cur_cmd. reflexivity. Qed.

(** A frame of the new stack is a frame of the old stack or the twin of its top. *)
Lemma retop_in_twin t' f : In f (t_stack (thr s' t')) ->
  exists f0, In f0 (t_stack (thr s t')) /\ (f0 = f \/ (f0 = p /\ f = p')).
Proof.
  intros Hin. destruct (retop_in s t p p' rest thr' Hs Htw Hsame Hoth _ _ Hin) as [[-> ->]|[H _]].
  - exists p. split; [rewrite Hs; left; reflexivity|right; auto].
  - exists f. auto.
Qed.

Lemma retop_named t' c : named s' t' c <-> named s t' c.
Proof.
  unfold named. rewrite retop_ld, retop_cur_cont0. split; (intros [H|(old & w & ctl & Hin)]; [left; exact H|right; exists old, w, ctl]).
  - destruct (retop_in s t p p' rest thr' Hs Htw Hsame Hoth _ _ Hin) as [[_ E]|[H _]]; [destruct Htw; discriminate E|exact H].
  - destruct (N.eq_dec t' t) as [->|Hne]; [|rewrite (retop_other s t p p' rest thr' Hs Htw Hsame Hoth) by exact Hne; exact Hin].
    rewrite (retop_stack s t p p' rest thr' Hs Htw Hsame Hoth). rewrite Hs in Hin.
    destruct Hin as [E|Hin]; [destruct Htw; discriminate E|right; exact Hin].
Qed.

Lemma retop_Fr g t' v : Fr s g t' v -> Fr s' g t' v.
Proof. intros H c Hn. apply H. apply retop_named. exact Hn. Qed.

Lemma retop_LinInv2 g : LinInv2 s g -> LinInv2 s' g.
Proof.
  intros [LF CA CP LB ZV PF HF AN]. constructor.
  - exact LF.
  - intros t' c0. rewrite retop_cur_cont0. intros Hc. pose proof (CA t' c0 Hc) as H. revert H.
    apply (retop_thread s t p p' rest thr' Hs Htw Hsame Hoth (fun th => Forall (cont_ok c0) (t_stack th))). cbn.
    intros _ _ _ _ H. inversion H as [|? ? Hp Hr]; subst. constructor; [|exact Hr]. destruct Htw; exact Hp.
  - intros t' f1 f2 c1 c2 H1 H2 E1 E2.
    destruct (retop_in_twin _ _ H1) as (g1 & G1 & D1). destruct (retop_in_twin _ _ H2) as (g2 & G2 & D2).
    apply (CP t' g1 g2 c1 c2 G1 G2).
    + destruct D1 as [->|[-> ->]]; [exact E1|]. destruct Htw; exact E1.
    + destruct D2 as [->|[-> ->]]; [exact E2|]. destruct Htw; exact E2.
  - intros t' c h. rewrite retop_cur_cmd. intros Hc Hd. destruct (LB t' c h Hc Hd) as [H|(pre & H)].
    + destruct (N.eq_dec t' t) as [->|Hne]; [rewrite Hs in H; discriminate H|].
      left. rewrite (retop_other s t p p' rest thr' Hs Htw Hsame Hoth) by exact Hne. exact H.
    + right. destruct (N.eq_dec t' t) as [->|Hne]; [|rewrite (retop_other s t p p' rest thr' Hs Htw Hsame Hoth) by exact Hne; eauto].
      rewrite (retop_stack s t p p' rest thr' Hs Htw Hsame Hoth). rewrite Hs in H.
      destruct pre as [|q pre]; cbn in H; [injection H as E _; exfalso; clear -E Htw; destruct Htw; discriminate E|].
      injection H as _ ->. exists (p' :: pre). reflexivity.
  - intros t'. destruct (ZV t') as [Z1 Z2]. rewrite retop_ld. split.
    + apply (ZI_mono _ (Fr s g t')); [intros v; apply retop_Fr|]. revert Z1.
      apply (retop_thread s t p p' rest thr' Hs Htw Hsame Hoth (fun th => ZI (ld s t') (Fr s g t') (t_stack th))). cbn [t_stack].
      intros _ _ _ _. destruct Htw; cbn; intros [H1 H2]; (split; [|exact H2]); intros Hz; (split; [reflexivity|intros u Hu; discriminate Hu]).
    + intros cand e rest' Hst. apply retop_Fr. apply (Z2 cand e rest').
      destruct (N.eq_dec t' t) as [->|Hne]; [|rewrite (retop_other s t p p' rest thr' Hs Htw Hsame Hoth) in Hst by exact Hne; exact Hst].
      rewrite (retop_stack s t p p' rest thr' Hs Htw Hsame Hoth) in Hst. injection Hst as E _. destruct Htw; discriminate E.
  - intros t' n. rewrite (retop_status s t p p' rest thr' Hs Htw Hsame Hoth),
      (retop_owner s t p p' rest thr' Hs Htw Hsame Hoth), (retop_req_of s t p p' rest thr' Hs Htw Hsame Hoth). apply PF.
  - intros t' f Hin.
    destruct (retop_in s t p p' rest thr' Hs Htw Hsame Hoth _ _ Hin) as [[_ ->]|[Hin' _]].
    + split; [intros c w ctl E|intros c w ctl r E]; destruct Htw; discriminate E.
    + destruct (HF t' f Hin') as [H1 H2]. split; [|exact H2].
      intros c w ctl E th c'. rewrite (retop_owner s t p p' rest thr' Hs Htw Hsame Hoth), (retop_req_of s t p p' rest thr' Hs Htw Hsame Hoth).
      apply (H1 c w ctl E th c').
  - intros w th c' gt. rewrite (retop_owner s t p p' rest thr' Hs Htw Hsame Hoth), (retop_req_of s t p p' rest thr' Hs Htw Hsame Hoth).
    apply AN.
Qed.

Lemma retop_LdTyped : LdTyped s -> LdTyped s'.
Proof.
  intros LT t' cm K. rewrite retop_cur_cmd. intros Hc Hk. pose proof (LT t' cm K Hc Hk) as H. revert H.
  apply (retop_thread s t p p' rest thr' Hs Htw Hsame Hoth (fun th => tstk K (t_stack th))). cbn [t_stack].
  intros _ _ _ _. destruct Htw; exact (fun H => H).
Qed.
End Retop.
