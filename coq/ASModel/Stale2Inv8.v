(** * ASModel.Stale2Inv8 — runs of [step_stale2] from an initial state ([RunOKS2]): [Master] in
    every state, C01 (no use after free) and C02 (exact accounting). *)
From Coq Require Import Lia.
From ASModel Require Import Base State Orderings_gen Step Run Progress Hist Inv InvTl InvProto InvStep Sum StepCases.
From ASModel Require Import GenDefs Gen1 Gen2 Gen EnvDefs Env4 Env AccDefs Acc ProtDefs Prot11 Typed Safe1 Safe2 Safe8 Safe Main.
From ASModel Require Import Lin Stale Stale2 Stale2Inv1 Stale2Inv4 Stale2Inv5 Stale2Inv6.

(** [Main.RunOK] / [StaleInv5.RunOKS] for runs of [step_stale2]. *)
Record RunOKS2 (cf : config) (inits : list N) (progs : list (list cmd)) (sched : list (N * N)) : Prop := {
  ros2_inits : inits_ok inits;
  ros2_progs : progs_ok progs;
  ros2_state : forall k, let s := StS2 cf (init_state inits progs) sched k in
                         GenBound s /\ DstEmpty s /\ CloneSrcCmd s;
  ros2_alloc : forall k t x, nth_error sched k = Some (t, x) ->
                             alloc_ok (StS2 cf (init_state inits progs) sched k) t x;
  ros2_stale : forall k t x, nth_error sched k = Some (t, x) ->
                             stale2_ok (StS2 cf (init_state inits progs) sched k) t x;
}.

Lemma run_state_stale2_prog cf : forall sched s t', t_prog (thr (run_state_stale2 cf s sched) t') = t_prog (thr s t').
Proof.
  induction sched as [|[t x] sched IH]; intros s t'; [reflexivity|].
  rewrite run_state_stale2_cons, IH. apply step_stale2_prog.
Qed.

Lemma RunOKS2_ProgOK cf inits progs sched :
  RunOKS2 cf inits progs sched -> forall k, ProgOK (StS2 cf (init_state inits progs) sched k).
Proof.
  intros [Hi [Hg Hc] Hs _ _] k. destruct (Hs k) as (_ & DE & CS). split; [|split; [|split]]; try assumption.
  - intros t g. unfold StS2. rewrite run_state_stale2_prog. apply (NoSetGen_init inits progs Hg).
  - intros t c. unfold StS2. rewrite run_state_stale2_prog. apply (NoCacheP_init inits progs Hc).
Qed.

Theorem run_stale2_Master cf inits progs sched :
  RunOKS2 cf inits progs sched -> forall k, Master (StS2 cf (init_state inits progs) sched k).
Proof.
  intros R. apply run_stale2_Master_gen.
  - apply Master_init; apply R.
  - intros k. split; [apply (ros2_state _ _ _ _ R k)|apply RunOKS2_ProgOK; exact R].
  - intros k t x Hk. split; [apply (ros2_alloc _ _ _ _ R k t x Hk)|apply (ros2_stale _ _ _ _ R k t x Hk)].
Qed.

Corollary run_stale2_Master_end cf inits progs sched :
  RunOKS2 cf inits progs sched -> Master (run_state_stale2 cf (init_state inits progs) sched).
Proof. intros R. rewrite <- StS2_all. apply run_stale2_Master. exact R. Qed.

Lemma run_stale2_events cf (P : list event -> Prop) : forall sched s,
  (forall k t x, nth_error sched k = Some (t, x) -> P (snd (step_stale2 cf (StS2 cf s sched k) t x))) ->
  forall te, In te (snd (run_stale2 cf s sched)) -> P (snd te).
Proof.
  induction sched as [|[t x] sched IH]; intros s H te; [intros []|].
  cbn [run_stale2]. pose proof (H 0%nat t x eq_refl) as H0. unfold StS2 in H0. cbn in H0.
  destruct (step_stale2 cf s t x) as [s1 evs] eqn:Hs. specialize (IH s1).
  destruct (run_stale2 cf s1 sched) as [s2 tr]. cbn [snd] in *.
  intros [<-|Hin]; [exact H0|]. apply IH; [|exact Hin].
  intros k t' x' Hk. specialize (H (S k) t' x' Hk). unfold StS2 in *. cbn [firstn] in H.
  rewrite run_state_stale2_cons, Hs in H. exact H.
Qed.

Lemma run_stale2_fst cf : forall sched s, fst (run_stale2 cf s sched) = run_state_stale2 cf s sched.
Proof.
  induction sched as [|[t x] sched IH]; intros s; [reflexivity|].
  cbn [run_stale2]. rewrite run_state_stale2_cons. destruct (step_stale2 cf s t x) as [s1 evs] eqn:Hs. cbn [fst].
  rewrite <- IH. destruct (run_stale2 cf s1 sched). reflexivity.
Qed.

Theorem step_stale2_no_dead_event cf s t x f :
  Master s -> ProgOK s -> dead_fault f -> ~ In (EvFault f) (snd (step_stale2 cf s t x)).
Proof.
  intros M PO Hf Hin. apply step_stale2_fault_event in Hin. exact (step_no_dead_event cf s t x f M PO Hf Hin).
Qed.

(** ** C01: no thread ever faults and no count access ever finds its object destroyed *)
Theorem C01_no_use_after_free_stale2 cf inits progs sched :
  RunOKS2 cf inits progs sched ->
  NoFault (run_state_stale2 cf (init_state inits progs) sched) /\
  forall te, In te (snd (run_stale2 cf (init_state inits progs) sched)) ->
    forall a, ~ In (EvFault (FDeadInc a)) (snd te) /\ ~ In (EvFault (FDeadDec a)) (snd te).
Proof.
  intros R. split; [apply (run_stale2_Master_end _ _ _ _ R)|].
  apply (run_stale2_events cf (fun evs => forall a, ~ In (EvFault (FDeadInc a)) evs /\ ~ In (EvFault (FDeadDec a)) evs)).
  intros k t x Hk a.
  pose proof (run_stale2_Master _ _ _ _ R k) as M. pose proof (RunOKS2_ProgOK _ _ _ _ R k) as PO.
  split; apply step_stale2_no_dead_event; try assumption; exists a; auto.
Qed.

(** In every state of the run (not only the last one). *)
Corollary C01_no_fault_stale2_prefix cf inits progs sched k :
  RunOKS2 cf inits progs sched -> NoFault (StS2 cf (init_state inits progs) sched k).
Proof. intros R. apply (run_stale2_Master _ _ _ _ R k). Qed.

(** ** C02: exact accounting *)
Theorem C02_accounting_stale2 cf inits progs sched :
  RunOKS2 cf inits progs sched -> Acc (run_state_stale2 cf (init_state inits progs) sched).
Proof. intros R. apply ai_acc. apply m_acc. apply run_stale2_Master_end. exact R. Qed.

Theorem C02_quiescent_counts_stale2 cf inits progs sched a :
  RunOKS2 cf inits progs sched ->
  let s := run_state_stale2 cf (init_state inits progs) sched in
  Quiescent s -> valid a ->
  exists nS nC nH,
    Total (fun ij : N * N => is a (mem (sh s) (LSlot (fst ij) (snd ij)))) nS /\
    Total (fun c : N => is a (mem (sh s) (LStore c))) nC /\
    Total (fun h : N => href a (hnd s h)) nH /\
    mem (sh s) (LCount a) + nS = nC + nH.
Proof.
  intros R s Hq Ha. pose proof (run_stale2_Master_end _ _ _ _ R) as M.
  apply quiescent_counts; [apply M|apply M|apply M|exact Hq|exact Ha].
Qed.

Theorem C02_no_owner_destroyed_stale2 cf inits progs sched a :
  RunOKS2 cf inits progs sched ->
  let s := run_state_stale2 cf (init_state inits progs) sched in
  Quiescent s -> valid a ->
  (forall c, mem (sh s) (LStore c) <> a) -> (forall h, href a (hnd s h) = 0) ->
  mem (sh s) (LCount a) = 0 /\ heap (sh s) a = None /\ forall n j, mem (sh s) (LSlot n j) <> a.
Proof.
  intros R s Hq Ha Hc Hh. pose proof (run_stale2_Master_end _ _ _ _ R) as M.
  apply no_owner_destroyed; [apply M|apply M|apply M|exact Hq|exact Ha|exact Hc|exact Hh].
Qed.
