(** * ASModel.Stale2Inv9 — what a stale load of [step_stale2] leaves alone ([step_stale2_dich]:
    shared state, handles, the other threads, the command index), the instrumented step
    [gstep_stale2] ([LinDefs.gstep] over [step_stale2]) and its ghost state. *)
From Coq Require Import Lia.
From ASModel Require Import Base State Orderings_gen Step Run Progress Hist Inv InvTl InvProto InvStep Sum StepCases.
From ASModel Require Import LinDefs Lin1 Stale Stale2 Stale2Inv4.

Definition quiet_next (nx : next) : Prop := match nx with NGoto _ | NPanic _ => True | _ => False end.

Lemma fallback_entry_quiet cf l c : quiet_next (snd (fallback_entry cf l c)).
Proof. unfold fallback_entry. destruct (tl_node l); [destruct (cf_debug cf)|]; exact I. Qed.

Lemma exec_LAscan_quiet cf ssh l c w i x :
  exists l0 evs0 nx0, exec cf ssh l (LAscan c w i) x = (ssh, l0, evs0, nx0) /\ quiet_next nx0.
Proof.
  cbn [exec a_load].
  destruct (mem ssh (LSlot (own_node l) ((i + tl_off l) mod SLOT_CNT)) =? NONE); [do 3 eexists; split; [reflexivity|exact I]|].
  destruct (i =? 7); [|do 3 eexists; split; [reflexivity|exact I]].
  pose proof (fallback_entry_quiet cf l c) as Hq. destruct (fallback_entry cf l c) as [l0 nx0].
  do 3 eexists. split; [reflexivity|exact Hq].
Qed.

(** Where [stale2_exec] answers, it and [exec] only read, and continue in the same function. *)
Lemma stale2_exec_quiet cf ssh l p v x s' l' evs nx :
  stale2_exec cf ssh l p v = Some (s', l', evs, nx) ->
  s' = ssh /\ quiet_next nx /\
  exists l0 evs0 nx0, exec cf ssh l p x = (ssh, l0, evs0, nx0) /\ quiet_next nx0.
Proof.
  destruct p; try discriminate; cbn [stale2_exec exec a_load].
  - intros [= <- <- <- <-]. split; [reflexivity|]. split; [destruct (v =? NODE_COOLDOWN); exact I|].
    do 3 eexists. split; [reflexivity|]. match goal with |- quiet_next (if ?b then _ else _) => destruct b end; exact I.
  - intros [= <- <- <- <-]. split; [reflexivity|]. split; [exact I|]. do 3 eexists. split; [reflexivity|exact I].
  - unfold stale_exec. destruct (tl_node l).
    + intros [= <- <- <- <-]. split; [reflexivity|]. split; [destruct (cf_debug cf); exact I|].
      do 3 eexists. split; [reflexivity|]. destruct (cf_debug cf); exact I.
    + intros [= <- <- <- <-]. split; [reflexivity|]. split; [exact I|]. do 3 eexists. split; [reflexivity|exact I].
  - destruct (v =? NONE); [discriminate|].
    match goal with |- context[LAscan ?c ?w (?i + 1)] =>
      pose proof (exec_LAscan_quiet cf ssh l c w i x) as Hex; cbn [exec a_load] in Hex;
      destruct (i =? 7);
      [pose proof (fallback_entry_quiet cf l c) as Hq; destruct (fallback_entry cf l c) as [l0 nx0];
       intros [= <- <- <- <-]; split; [reflexivity|]; split; [exact Hq|exact Hex]
      |intros [= <- <- <- <-]; split; [reflexivity|]; split; [exact I|exact Hex]]
    end.
Qed.

Lemma finish_quiet cf s t th s_sh l rest evs nx :
  quiet_next nx ->
  let s' := fst (finish cf s t th s_sh l rest evs nx) in
  sh s' = s_sh /\ hnd s' = hnd s /\ t_cmdi (thr s' t) = t_cmdi th /\ (forall t', t' <> t -> thr s' t' = thr s t').
Proof.
  destruct nx; try contradiction; intros _; cbn; rewrite upd_same; repeat split; intros t' Hne; apply upd_other; exact Hne.
Qed.

(** A step of [step_stale2] is the step of [step], or both only read. *)
Lemma step_stale2_dich cf s t x :
  step_stale2 cf s t x = step cf s t x \/
  (let s2 := fst (step_stale2 cf s t x) in let sn := fst (step cf s t x) in
   sh s2 = sh s /\ sh sn = sh s /\ hnd s2 = hnd s /\ hnd sn = hnd s /\
   t_cmdi (thr s2 t) = t_cmdi (thr s t) /\ (forall t', t' <> t -> thr s2 t' = thr s t')).
Proof.
  unfold step_stale2. destruct (t_status (thr s t)) eqn:Hr; try (left; reflexivity).
  destruct (t_stack (thr s t)) as [|p rest] eqn:Hst; [left; reflexivity|].
  destruct (2 <=? x); [|left; reflexivity].
  destruct (stale2_exec cf (sh s) (t_loc (thr s t)) p (x - 2)) as [[[[s_sh l] evs] nx]|] eqn:E; [|left; reflexivity].
  right. destruct (stale2_exec_quiet cf _ _ _ _ x _ _ _ _ E) as (-> & Hq & l0 & evs0 & nx0 & En & Hq0).
  rewrite (step_top cf s t x p rest Hr Hst), En.
  destruct (finish_quiet cf s t (thr s t) (sh s) l rest evs nx Hq) as (A1 & A2 & A3 & A4).
  destruct (finish_quiet cf s t (thr s t) (sh s) l0 rest evs0 nx0 Hq0) as (B1 & B2 & _ & _).
  cbn zeta. repeat split; assumption.
Qed.

Lemma step_stale2_sh cf s t x : sh (fst (step_stale2 cf s t x)) = sh (fst (step cf s t x)).
Proof. destruct (step_stale2_dich cf s t x) as [->|(A & B & _)]; [reflexivity|]. cbn zeta in *. congruence. Qed.

Lemma step_stale2_hnd cf s t x : hnd (fst (step_stale2 cf s t x)) = hnd (fst (step cf s t x)).
Proof. destruct (step_stale2_dich cf s t x) as [->|(_ & _ & A & B & _)]; [reflexivity|]. cbn zeta in *. congruence. Qed.

Lemma step_stale2_other cf s t x t' : t' <> t -> thr (fst (step_stale2 cf s t x)) t' = thr s t'.
Proof.
  intros Hne. destruct (step_stale2_dich cf s t x) as [->|(_ & _ & _ & _ & _ & A)]; [|apply A; exact Hne].
  apply step_status_other. exact Hne.
Qed.

(** ** The instrumented step *)
Definition gstep_stale2 (cf : config) (sg : state * ghost) (t x : N) : state * ghost :=
  let '(s, g) := sg in
  let s' := fst (step_stale2 cf s t x) in
  let now' := S (g_now g) in
  (s',
   mkGhost now'
     (fun c v => if mem (sh s') (LStore c) =? v then now' else g_lt g c v)
     (fun t' => if (t' =? t) && starts_now s t then now' else g_start g t')
     (fun n => match publishes_now s t with
               | Some n' => if n =? n' then now' else g_pub g n
               | None => g_pub g n
               end)).

Definition grun_stale2 (cf : config) (sg : state * ghost) (sched : list (N * N)) : state * ghost :=
  fold_left (fun sg tx => gstep_stale2 cf sg (fst tx) (snd tx)) sched sg.

Lemma gstep_stale2_fst cf s g t x : fst (gstep_stale2 cf (s, g) t x) = fst (step_stale2 cf s t x).
Proof. reflexivity. Qed.

(** The ghost state does not see the difference. *)
Lemma gstep_stale2_snd cf s g t x : snd (gstep_stale2 cf (s, g) t x) = snd (gstep cf (s, g) t x).
Proof. unfold gstep_stale2, gstep. cbn [snd]. rewrite step_stale2_sh. reflexivity. Qed.
