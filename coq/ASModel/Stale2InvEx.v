(** * ASModel.Stale2InvEx — non-vacuity of [RunOKS2]: a boolean checker [runoks2_b] with
    [runoks2_b ... = true -> RunOKS2 ...] (as [StaleInvEx.runoks_b] for [RunOKS]) and two example
    runs (the runs step by step: [Stale2InvEx2]).

    Run [sx2]: the reader (thread 0) holds eight guards on 4096, one debt in each of its eight
    slots; the writer (thread 1) replaces 4096 by 4112 and pays the eight debts.  While the
    writer looks for a node, its look at [in_use] of the reader's node ([GCool1]) is answered
    with a stale value, and so is its read of the list head ([GPush0]: 0, the head before the
    reader's node was pushed).  Then the reader loads again: its scan of slot 0 ([LAscan]) is
    answered with the debt it published there (4096) although the writer has paid it; the reader
    skips the slot and publishes in slot 1.

    Run [sy2] (no debug assertions): as above, but all eight slots are answered with the paid
    debt; after the eighth the reader enters the fallback. *)
From Coq Require Import Lia.
From ASModel Require Import Base State Orderings_gen Step Run Progress Hist Inv InvTl InvProto InvStep Sum StepCases.
From ASModel Require Import GenDefs Gen1 Gen2 Gen AccDefs Acc2 Acc Prot11 Safe1 Safe2 Safe8 Safe Scope Main RunOKEx.
From ASModel Require Import Stale Stale2 Stale2Inv6 Stale2Inv8 Stale2Inv9.

Lemma step_stale2_no_thread cf s t x t0 : thr s t0 = no_thread -> thr (fst (step_stale2 cf s t x)) t0 = no_thread.
Proof.
  intros H. destruct (N.eq_dec t0 t) as [->|Hne]; [|rewrite step_stale2_other by exact Hne; exact H].
  unfold step_stale2. rewrite H. cbn. apply step_no_thread. exact H.
Qed.

Lemma Beyond_step_stale2 cf n s t x : Beyond n s -> Beyond n (fst (step_stale2 cf s t x)).
Proof. intros H t0 Ht. apply step_stale2_no_thread. apply H. exact Ht. Qed.

Lemma Beyond_run_stale2 cf n : forall sched s, Beyond n s -> Beyond n (run_state_stale2 cf s sched).
Proof.
  induction sched as [|[t x] sched IH]; intros s H; [exact H|].
  rewrite run_state_stale2_cons. apply IH. apply Beyond_step_stale2. exact H.
Qed.

Definition stale2_b (s : state) (t x : N) : bool :=
  match t_stack (thr s t) with
  | LA1 _ :: _ => negb (2 <=? x) || negb (x - 2 =? NONE)
  | GPush0 :: _ => negb (2 <=? x) || (x - 2 <=? mem (sh s) LHead)
  | _ => true
  end.

Lemma stale2_b_sound s t x : stale2_b s t x = true -> stale2_ok s t x.
Proof.
  unfold stale2_b, stale2_ok. intros H Hx. destruct (t_stack (thr s t)) as [|p rest]; [exact I|].
  destruct p; try exact I; apply orb_true_iff in H as [H|H];
    try (apply negb_true_iff, N.leb_gt in H; lia).
  - apply N.leb_le in H. exact H.
  - apply negb_true_iff, N.eqb_neq in H. exact H.
Qed.

Fixpoint runs2_b (cf : config) (n : nat) (s : state) (sched : list (N * N)) : bool :=
  scope_state n s &&
  match sched with
  | [] => true
  | (t, x) :: rest => scope_alloc s t x && stale2_b s t x && runs2_b cf n (fst (step_stale2 cf s t x)) rest
  end.

Lemma StS2_nil cf s k : StS2 cf s [] k = s.
Proof. unfold StS2. rewrite firstn_nil. reflexivity. Qed.

Lemma StS2_cons cf s t x sched k : StS2 cf s ((t, x) :: sched) (S k) = StS2 cf (fst (step_stale2 cf s t x)) sched k.
Proof. reflexivity. Qed.

Theorem runs2_b_sound cf n : forall sched s, Beyond n s -> runs2_b cf n s sched = true ->
  (forall k, GenBound (StS2 cf s sched k) /\ DstEmpty (StS2 cf s sched k) /\ CloneSrcCmd (StS2 cf s sched k)) /\
  (forall k t x, nth_error sched k = Some (t, x) -> alloc_ok (StS2 cf s sched k) t x /\ stale2_ok (StS2 cf s sched k) t x).
Proof.
  induction sched as [|[t x] sched IH]; intros s B H; cbn [runs2_b] in H; apply andb_true_iff in H as [Hs H].
  - split.
    + intros k. rewrite StS2_nil. apply (scope_state_sound n); assumption.
    + intros [|k] t x Hk; discriminate Hk.
  - apply andb_true_iff in H as [Ha H]. apply andb_true_iff in Ha as [Ha Hst].
    destruct (IH _ (Beyond_step_stale2 cf n s t x B) H) as [IH1 IH2]. split.
    + intros [|k]; [apply (scope_state_sound n); assumption|]. rewrite StS2_cons. apply IH1.
    + intros [|k] t' x' Hk.
      * injection Hk as <- <-. split; [apply scope_alloc_sound; exact Ha|apply stale2_b_sound; exact Hst].
      * rewrite StS2_cons. apply IH2. exact Hk.
Qed.

Definition runoks2_b (cf : config) (inits : list N) (progs : list (list cmd)) (sched : list (N * N)) : bool :=
  inits_b inits && progs_b progs && runs2_b cf (length progs) (init_state inits progs) sched.

Theorem runoks2_b_sound cf inits progs sched : runoks2_b cf inits progs sched = true -> RunOKS2 cf inits progs sched.
Proof.
  intros H. apply andb_true_iff in H as [H Hr]. apply andb_true_iff in H as [Hi Hp].
  destruct (runs2_b_sound cf (length progs) sched _ (Beyond_init inits progs) Hr) as [H1 H2].
  constructor; [apply inits_b_sound; exact Hi|apply progs_b_sound; exact Hp|exact H1|intros; apply H2; assumption..].
Qed.

(** ** The example runs *)
Definition sx2_cf : config := mkConfig true true.
Definition sx2_inits : list N := [4096].
Definition sx2_progs : list (list cmd) :=
  [[CLoad 0 1; CLoad 0 2; CLoad 0 3; CLoad 0 4; CLoad 0 5; CLoad 0 6; CLoad 0 7; CLoad 0 8; CLoad 0 9];
   [CNew 20; CStore 0 (SHandle 20)]].
(** The reader's eight loads (51 steps).  The writer runs to completion (55 steps): its look at
    [in_use] of node 0 (step 56) is answered with [NODE_COOLDOWN] (choice 2 + 2), its read of the
    head before the push loop (step 59) with 0 (choice 0 + 2).  The reader's ninth load: the scan
    of slot 0 (step 109) is answered with 4096 (choice 4096 + 2); then the reader exits. *)
Definition sx2_writer : list (N * N) :=
  [(1, 0); (1, 4112); (1, 0); (1, 0); (1, 0); (1, 4); (1, 0); (1, 0); (1, 2)] ++ repeat (1, 0) 46.
Definition sx2_sched : list (N * N) :=
  repeat (0, 0) 51 ++ sx2_writer ++ [(0, 0); (0, 0); (0, 0); (0, 4098)] ++ repeat (0, 0) 7.
Definition sx2_s0 : state := init_state sx2_inits sx2_progs.
Definition sx2_St (k : nat) : state := StS2 sx2_cf sx2_s0 sx2_sched k.
Definition sx2_final : state := run_state_stale2 sx2_cf sx2_s0 sx2_sched.

Example runoks2_b_example : runoks2_b sx2_cf sx2_inits sx2_progs sx2_sched = true.
Proof. vm_compute. reflexivity. Qed.

Example RunOKS2_example : RunOKS2 sx2_cf sx2_inits sx2_progs sx2_sched.
Proof. apply runoks2_b_sound. exact runoks2_b_example. Qed.

(** No debug assertions; all eight slots look occupied: steps 96 .. 103. *)
Definition sy2_cf : config := mkConfig true false.
Definition sy2_writer : list (N * N) :=
  [(1, 0); (1, 4112); (1, 0); (1, 0); (1, 0); (1, 4); (1, 0); (1, 0); (1, 2)] ++ repeat (1, 0) 42.
Definition sy2_sched : list (N * N) :=
  repeat (0, 0) 43 ++ sy2_writer ++ [(0, 0); (0, 0)] ++ repeat (0, 4098) 8 ++ repeat (0, 0) 11.
Definition sy2_St (k : nat) : state := StS2 sy2_cf sx2_s0 sy2_sched k.
Definition sy2_final : state := run_state_stale2 sy2_cf sx2_s0 sy2_sched.

Example runoks2_b_example_y : runoks2_b sy2_cf sx2_inits sx2_progs sy2_sched = true.
Proof. vm_compute. reflexivity. Qed.

Example RunOKS2_example_y : RunOKS2 sy2_cf sx2_inits sx2_progs sy2_sched.
Proof. apply runoks2_b_sound. exact runoks2_b_example_y. Qed.
