(** * ASModel.Stale2InvEx2 — the example runs of [Stale2InvEx], step by step, and the end-to-end
    theorems applied to them. *)
From Coq Require Import Lia.
From ASModel Require Import Base State Orderings_gen Step Run Progress Hist Inv InvTl InvProto InvStep Sum StepCases.
From ASModel Require Import GenDefs Gen1 Gen2 Gen AccDefs Acc2 Acc Prot11 Safe1 Safe2 Safe8 Safe Scope Main RunOKEx.
From ASModel Require Import Stale Stale2 Stale2Inv6 Stale2Inv8 Stale2Inv9 Stale2Inv12 Stale2InvEx.

(** ** Run [sx2] *)
(** After its eight loads the reader holds eight guards with a debt each; all slots are taken. *)
Example sx2_eight_debts :
  t_stack (thr (sx2_St 51) 0) = [] /\ t_cmdi (thr (sx2_St 51) 0) = 8 /\
  hnd (sx2_St 51) 1 = HGuard 4096 (Some (0, 0)) /\ hnd (sx2_St 51) 8 = HGuard 4096 (Some (0, 7)) /\
  forallb (fun j => mem (sh (sx2_St 51)) (LSlot 0 j) =? 4096) [0; 1; 2; 3; 4; 5; 6; 7] = true /\
  mem (sh (sx2_St 51)) (LCount 4096) = 1.
Proof. vm_compute. repeat split; reflexivity. Qed.

(** The writer looks for a node: [in_use] of node 0 is [NODE_USED], the look is answered with
    [NODE_COOLDOWN]; the writer tries to take the node over ([GCool2], the CAS fails) instead of
    claiming it ([GClaim]) ... *)
Example sx2_stale_in_use :
  hd_error (t_stack (thr (sx2_St 56) 1)) = Some (GCool1 0) /\ nth_error sx2_sched 56 = Some (1, 4) /\
  mem (sh (sx2_St 56)) (LInUse 0) = NODE_USED /\
  hd_error (t_stack (thr (sx2_St 57) 1)) = Some (GCool2 0) /\
  hd_error (t_stack (thr (fst (step sx2_cf (sx2_St 56) 1 0)) 1)) = Some (GClaim 0) /\
  snd (step_stale2 sx2_cf (sx2_St 56) 1 4) = [ld_event (LInUse 0) o_check_inuse NODE_COOLDOWN] /\
  hd_error (t_stack (thr (sx2_St 58) 1)) = Some (GClaim 0) /\ mem (sh (sx2_St 58)) (LInUse 0) = NODE_USED.
Proof. vm_compute. repeat split; reflexivity. Qed.

(** ... the head of the list is 1, the read before the push loop is answered with 0 (the head
    before the reader pushed its node); the first CAS of the push loop fails and delivers 1. *)
Example sx2_stale_head :
  hd_error (t_stack (thr (sx2_St 59) 1)) = Some GPush0 /\ nth_error sx2_sched 59 = Some (1, 2) /\
  mem (sh (sx2_St 59)) LHead = 1 /\
  hd_error (t_stack (thr (sx2_St 60) 1)) = Some (GPush 0) /\
  hd_error (t_stack (thr (fst (step sx2_cf (sx2_St 59) 1 0)) 1)) = Some (GPush 1) /\
  snd (step_stale2 sx2_cf (sx2_St 59) 1 2) = [ld_event LHead o_get_head_relaxed 0] /\
  hd_error (t_stack (thr (sx2_St 61) 1)) = Some (GPush 1) /\ mem (sh (sx2_St 61)) LHead = 1 /\
  tl_node (t_loc (thr (sx2_St 62) 1)) = Some 1 /\ mem (sh (sx2_St 62)) LHead = 2.
Proof. vm_compute. repeat split; reflexivity. Qed.

(** The writer has stored 4112 and paid the eight debts: the slots are empty, 4096 has the
    count 8 (one per guard) ... *)
Example sx2_paid :
  t_status (thr (sx2_St 106) 1) = Exited /\ mem (sh (sx2_St 106)) (LStore 0) = 4112 /\
  forallb (fun j => mem (sh (sx2_St 106)) (LSlot 0 j) =? NONE) [0; 1; 2; 3; 4; 5; 6; 7] = true /\
  mem (sh (sx2_St 106)) (LCount 4096) = 8 /\ hnd (sx2_St 106) 1 = HGuard 4096 (Some (0, 0)).
Proof. vm_compute. repeat split; reflexivity. Qed.

(** ... the reader's scan of slot 0 is answered with the debt it had published there; it skips
    the slot (the SC model publishes in slot 0) and publishes in slot 1 ... *)
Example sx2_stale_slot :
  hd_error (t_stack (thr (sx2_St 109) 0)) = Some (LAscan 0 4112 0) /\ nth_error sx2_sched 109 = Some (0, 4098) /\
  tl_off (t_loc (thr (sx2_St 109) 0)) = 8 /\ mem (sh (sx2_St 109)) (LSlot 0 0) = NONE /\
  hd_error (t_stack (thr (sx2_St 110) 0)) = Some (LAscan 0 4112 1) /\
  hd_error (t_stack (thr (fst (step sx2_cf (sx2_St 109) 0 0)) 0)) = Some (LA3 0 4112 0) /\
  snd (step_stale2 sx2_cf (sx2_St 109) 0 4098) = [ld_event (LSlot 0 0) o_fast_scan 4096] /\
  hd_error (t_stack (thr (sx2_St 111) 0)) = Some (LA3 0 4112 1) /\
  mem (sh (sx2_St 112)) (LSlot 0 1) = 4112 /\ mem (sh (sx2_St 112)) (LSlot 0 0) = NONE.
Proof. vm_compute. repeat split; reflexivity. Qed.

(** ... and returns a guard on the current value. *)
Example sx2_loaded :
  hnd (sx2_St 113) 9 = HGuard 4112 (Some (0, 1)) /\ t_cmdi (thr (sx2_St 113) 0) = 9 /\
  t_status (thr sx2_final 0) = Exited /\ t_status (thr sx2_final 1) = Exited.
Proof. vm_compute. repeat split; reflexivity. Qed.

Example sx2_no_fault_event :
  forallb (fun te => forallb (fun e => match e with EvFault _ => false | _ => true end) (snd te))
          (snd (run_stale2 sx2_cf sx2_s0 sx2_sched)) = true.
Proof. vm_compute. reflexivity. Qed.

(** The end-to-end theorems on this run. *)
Example sx2_Master : Master sx2_final.
Proof. exact (run_stale2_Master_end _ _ _ _ RunOKS2_example). Qed.

Example sx2_NoFault : NoFault sx2_final.
Proof. exact (proj1 (C01_no_use_after_free_stale2 _ _ _ _ RunOKS2_example)). Qed.

Example sx2_Acc : Acc sx2_final.
Proof. exact (C02_accounting_stale2 _ _ _ _ RunOKS2_example). Qed.

(** C03 on the reader's ninth [load]: it starts with step 106 and completes with step 112. *)
Example sx2_load_linearizable :
  exists v, (exists d, hnd (sx2_St 113) 9 = HGuard v d) /\
    exists k, (107 <= k <= 113)%nat /\ mem (sh (sx2_St k)) (LStore 0) = v.
Proof.
  apply (C03_load_linearizable_stale2 sx2_cf sx2_inits sx2_progs sx2_sched RunOKS2_example
           0 8 (CLoad 0 9) 0 9 106%nat 112%nat 0 0 0).
  all: try (vm_compute; reflexivity).
  - left. reflexivity.
  - lia.
Qed.

(** ** Run [sy2]: all eight slots look occupied *)
Example sy2_before :
  hd_error (t_stack (thr (sy2_St 96) 0)) = Some (LAscan 0 4112 0) /\
  forallb (fun j => mem (sh (sy2_St 96)) (LSlot 0 j) =? NONE) [0; 1; 2; 3; 4; 5; 6; 7] = true /\
  forallb (fun k => match nth_error sy2_sched k with Some (0, 4098) => true | _ => false end)
          [96; 97; 98; 99; 100; 101; 102; 103]%nat = true.
Proof. vm_compute. repeat split; reflexivity. Qed.

(** After the eighth slot the reader enters the fallback with a new generation (the SC model
    publishes in slot 7); the fallback returns a guard on the current value. *)
Example sy2_fallback :
  hd_error (t_stack (thr (sy2_St 103) 0)) = Some (LAscan 0 4112 7) /\ tl_gen (t_loc (thr (sy2_St 103) 0)) = 0 /\
  hd_error (t_stack (thr (sy2_St 104) 0)) = Some (LH1 0 6) /\ tl_gen (t_loc (thr (sy2_St 104) 0)) = 4 /\
  hd_error (t_stack (thr (fst (step sy2_cf (sy2_St 103) 0 0)) 0)) = Some (LA3 0 4112 7) /\
  snd (step_stale2 sy2_cf (sy2_St 103) 0 4098) = [ld_event (LSlot 0 7) o_fast_scan 4096] /\
  hnd (sy2_St 111) 9 = HGuard 4112 None /\ mem (sh (sy2_St 111)) (LCount 4112) = 2 /\
  t_status (thr sy2_final 0) = Exited /\ t_status (thr sy2_final 1) = Exited.
Proof. vm_compute. repeat split; reflexivity. Qed.

Example sy2_NoFault : NoFault sy2_final.
Proof. exact (proj1 (C01_no_use_after_free_stale2 _ _ _ _ RunOKS2_example_y)). Qed.

Example sy2_Acc : Acc sy2_final.
Proof. exact (C02_accounting_stale2 _ _ _ _ RunOKS2_example_y). Qed.

Example sy2_load_linearizable :
  exists v, (exists d, hnd (sy2_St 111) 9 = HGuard v d) /\
    exists k, (95 <= k <= 111)%nat /\ mem (sh (sy2_St k)) (LStore 0) = v.
Proof.
  apply (C03_load_linearizable_stale2 sy2_cf sx2_inits sx2_progs sy2_sched RunOKS2_example_y
           0 8 (CLoad 0 9) 0 9 94%nat 110%nat 0 0 0).
  all: try (vm_compute; reflexivity).
  - left. reflexivity.
  - lia.
Qed.

Print Assumptions runoks2_b_sound.
Print Assumptions RunOKS2_example.
Print Assumptions RunOKS2_example_y.
Print Assumptions sx2_NoFault.
Print Assumptions sx2_Acc.
Print Assumptions sx2_load_linearizable.
Print Assumptions sy2_load_linearizable.
