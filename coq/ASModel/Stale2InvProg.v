(** * ASModel.Stale2InvProg — wait-freedom of [load] (C08, [Progress.read_wait_free]) for runs of
    [step_stale2]: the measure [Progress.rem] also decreases when a load of the read path is
    answered with a stale value (a stale slot scan goes to the next slot or to the fallback, never
    back).  A [load] finishes within [K_load] = 28 own steps, a [load_full] within
    [K_load_full] = 31, whatever the other threads do and whatever values the stale loads return. *)
From Coq Require Import Lia.
From ASModel Require Import Base State Orderings_gen Step Run Progress Stale Stale2 Stale2Inv9.

Lemma stale2_exec_load_decreases cf s l p v m s' l' evs nx :
  rem p = Some m ->
  stale2_exec cf s l p v = Some (s', l', evs, nx) ->
  load_next_ok m nx.
Proof.
  intros Hm He. destruct p; cbn in Hm; try discriminate; cbn [stale2_exec] in He.
  - (* LA1 *)
    injection Hm as <-. unfold stale_exec in He.
    destruct (tl_node l); [destruct (cf_debug cf)|]; injection He as <- <- <- <-; cbn; eauto; try (eexists; split; [reflexivity|lia]).
  - (* LAscan *)
    destruct (v =? NONE); [discriminate|].
    match type of Hm with context [?i <=? 7] => destruct (N.leb_spec i 7) as [Hi|Hi]; [|discriminate];
      destruct (N.eqb_spec i 7) as [E7|E7] end.
    + injection Hm as <-.
      match type of He with context [fallback_entry cf l ?c] => destruct (fallback_entry cf l c) as [l2 nx2] eqn:Hf end.
      pose proof (fallback_entry_rem _ _ _ _ _ Hf) as Hr. injection He as <- <- <- <-.
      destruct nx2; cbn; try exact I; try contradiction.
      destruct Hr as (m' & Hm' & Hle). exists m'. split; [exact Hm'|]. subst. cbn. lia.
    + injection Hm as <-. injection He as <- <- <- <-. cbn.
      match goal with |- context [?j <=? 7] => destruct (N.leb_spec j 7) as [Hj|Hj]; [|lia] end.
      eexists. split; [reflexivity|]. lia.
Qed.

Definition read_progress2 (cf : config) (s : state) (t x : N) (m : nat) : Prop :=
  let s' := fst (step_stale2 cf s t x) in
  let evs := snd (step_stale2 cf s t x) in
  (t_stack (thr s' t) = [] /\ t_status (thr s' t) = Running /\
     exists v, In (EvRet (t_cmdi (thr s t)) v) evs)
  \/ t_status (thr s' t) <> Running
  \/ exists m', read_stack (t_stack (thr s' t)) m' /\ t_status (thr s' t) = Running /\ (m' < m)%nat.

(** One own step of a reading thread, stale or not: the command completes, or the thread stops,
    or the measure strictly decreases. *)
Lemma read_step2 cf s t x stk m :
  t_status (thr s t) = Running ->
  t_stack (thr s t) = stk ->
  read_stack stk m ->
  read_progress2 cf s t x m.
Proof.
  intros Hrun Hstk Hrs.
  pose proof (read_step cf s t x stk m Hrun Hstk Hrs) as Hn. unfold read_progress in Hn.
  unfold read_progress2, step_stale2. rewrite Hrun, Hstk.
  destruct stk as [|p rest]; [exact Hn|]. destruct (2 <=? x); [|exact Hn].
  destruct (stale2_exec cf (sh s) (t_loc (thr s t)) p (x - 2)) as [[[[s_sh l] evs] nx]|] eqn:E; [|exact Hn].
  clear Hn. destruct (stale2_exec_quiet cf _ _ _ _ 0 _ _ _ _ E) as (_ & Hq & _).
  inversion Hrs as [p0 m0 d Hm|p0 m0 d Hm|p0 m0 q dq d Hm|p0 m0 q dq d Hm|a sl d|a sl d|a d]; subst;
    try (destruct p; cbn in Hm; discriminate Hm || discriminate E); try discriminate E.
  - pose proof (stale2_exec_load_decreases _ _ _ _ _ _ _ _ _ _ Hm E) as Hok.
    destruct nx as [p'|fs w|v|ps|f]; try contradiction; cbn in Hok.
    + right; right. destruct Hok as (m' & Hm' & Hlt). exists m'. cbn. rewrite upd_same. cbn.
      split; [apply rs_load; exact Hm'|]. split; [reflexivity|exact Hlt].
    + right; left. cbn. rewrite upd_same. cbn. discriminate.
  - pose proof (stale2_exec_load_decreases _ _ _ _ _ _ _ _ _ _ Hm E) as Hok.
    destruct nx as [p'|fs w|v|ps|f]; try contradiction; cbn in Hok.
    + right; right. destruct Hok as (m' & Hm' & Hlt). exists (m' + 3)%nat. cbn. rewrite upd_same. cbn.
      split; [apply rs_loadfull; exact Hm'|]. split; [reflexivity|lia].
    + right; left. cbn. rewrite upd_same. cbn. discriminate.
Qed.

(** Steps of other threads never touch this thread's stack, status or locals. *)
Lemma step_stale2_other_thr cf s t t' x : t' <> t -> thr (fst (step_stale2 cf s t' x)) t = thr s t.
Proof. intros Hne. apply step_stale2_other. congruence. Qed.

(** ** The bound over arbitrary schedules of [step_stale2] *)
Fixpoint own_steps_reading2 (cf : config) (t : N) (sched : list (N * N)) (s : state) (fuel_reading : bool) : nat :=
  match sched with
  | [] => 0
  | (t', x) :: rest =>
      let s' := fst (step_stale2 cf s t' x) in
      if negb fuel_reading then 0%nat
      else if N.eqb t' t then
        S (own_steps_reading2 cf t rest s'
             (match t_stack (thr s' t), t_status (thr s' t) with
              | [], _ => false
              | _, Running => true
              | _, _ => false
              end))
      else own_steps_reading2 cf t rest s' fuel_reading
  end.

Theorem read_wait_free_stale2 cf t :
  forall sched s m,
    t_status (thr s t) = Running ->
    read_stack (t_stack (thr s t)) m ->
    (own_steps_reading2 cf t sched s true <= m)%nat.
Proof.
  induction sched as [|[t' x] sched IH]; intros s m Hrun Hrs; [cbn; lia|].
  cbn [own_steps_reading2 negb]. destruct (N.eqb_spec t' t) as [->|Hne].
  - pose proof (read_stack_pos _ _ Hrs) as Hpos.
    pose proof (read_step2 cf s t x _ m Hrun eq_refl Hrs) as Hp. unfold read_progress2 in Hp.
    destruct Hp as [(Hnil & _ & _)|[Hstop|(m' & Hrs' & Hrun' & Hlt)]].
    + rewrite Hnil. destruct sched as [|[? ?] ?]; cbn; lia.
    + destruct (t_stack (thr (fst (step_stale2 cf s t x)) t)); [destruct sched as [|[? ?] ?]; cbn; lia|].
      destruct (t_status (thr (fst (step_stale2 cf s t x)) t)); try congruence; destruct sched as [|[? ?] ?]; cbn; lia.
    + specialize (IH (fst (step_stale2 cf s t x)) m' Hrun' Hrs').
      destruct (t_stack (thr (fst (step_stale2 cf s t x)) t)) eqn:Hst.
      * inversion Hrs'.
      * rewrite Hrun'. lia.
  - apply IH; rewrite (step_stale2_other_thr cf s t t' x Hne); assumption.
Qed.

(** The numbers: a read in progress takes at most 31 more own steps; a [load] (guard result:
    frame directly above [KDone]) at most 28. *)
Corollary read_wait_free_stale2_bound cf t sched s m :
  t_status (thr s t) = Running -> read_stack (t_stack (thr s t)) m ->
  (own_steps_reading2 cf t sched s true <= K_load_full)%nat.
Proof.
  intros Hr Hrs. pose proof (read_wait_free_stale2 cf t sched s m Hr Hrs). pose proof (read_stack_bound _ _ Hrs). lia.
Qed.

Corollary load_wait_free_stale2 cf t sched s p m d :
  t_status (thr s t) = Running -> t_stack (thr s t) = [p; KDone d] -> rem p = Some m ->
  (own_steps_reading2 cf t sched s true <= K_load)%nat.
Proof.
  intros Hr Hst Hm. assert (Hrs : read_stack (t_stack (thr s t)) m) by (rewrite Hst; apply rs_load; exact Hm).
  pose proof (read_wait_free_stale2 cf t sched s m Hr Hrs).
  assert ((m <= K_load)%nat); [|lia]. unfold K_load.
  destruct p; cbn in Hm; try discriminate; try (injection Hm as <-; lia).
  match type of Hm with context [if ?b then _ else _] => destruct b; [injection Hm as <-; lia|discriminate] end.
Qed.

Corollary load_full_wait_free_stale2 cf t sched s p m d :
  t_status (thr s t) = Running -> t_stack (thr s t) = [p; WLoadFull; KDone d] -> rem p = Some m ->
  (own_steps_reading2 cf t sched s true <= K_load_full)%nat.
Proof.
  intros Hr Hst Hm. apply (read_wait_free_stale2_bound cf t sched s (m + 3) Hr). rewrite Hst. apply rs_loadfull. exact Hm.
Qed.

Print Assumptions read_wait_free_stale2.
Print Assumptions load_wait_free_stale2.
Print Assumptions load_full_wait_free_stale2.
