(** * ASModel.Stale2P — the UNCONDITIONAL results of the development ([WF2] in every reachable
    state, no panic in any run: C13; the solo bounds: C09) for [Stale2.step_stale2], the step in
    which the four loads the protocol does not trust ([LA1], [LAscan], [GCool1], [GPush0]) may be
    answered by the scheduler.  No run hypothesis ([RunOK]/[RunOKS2]) is used; the only hypothesis
    is on the values supplied.

    - Stale2P1: [stale2_head_ok] (the [GPush0] clause of [stale2_ok]: an older head),
      [step_stale2_WF2], [step_stale2_no_panic] (no condition on the values at all);
    - Stale2P2: [Stale2Sched], [run_stale2_WF2], [no_panic_in_any_run_stale2], [C13_total_stale2];
      the value at [LA1] may be anything (null, the empty marker, garbage): [.._head] variants;
    - Stale2P3: [spur2], [stale2_exec_dec], [step2_dec]: the measure [ProgressW.mu] decreases; a
      stale head that differs from the current one is charged to the budget [k] like a spurious
      failure (the measure is tight at [GPush0 -> GPush h]: without the charge the bound would be
      exceeded by one step per stale head);
    - Stale2P4: [solo_bound_stale2], [solo_bound_closed_stale2], [writer_solo_bound_stale2],
      [solo_completes_stale2], [solo_bound_reachable_stale2];
    - Stale2P5: the charge is necessary - a reachable state and a stale head for which
      the solo thread needs [mu_of s t 0 + 1] steps. *)
From ASModel Require Import Base State Step Run InvStep ProgressW Stale2 Stale2Inv6.
From ASModel Require Export Stale2P1 Stale2P2 Stale2P3 Stale2P4 Stale2P5.

Check stale2_ok_head : forall s t x, stale2_ok s t x -> stale2_head_ok s t x.
Check step_stale2_WF2
  : forall cf s t x, WF2 s -> stale2_head_ok s t x -> WF2 (fst (step_stale2 cf s t x)).
Check step_stale2_WF2_ok
  : forall cf s t x, WF2 s -> stale2_ok s t x -> WF2 (fst (step_stale2 cf s t x)).
Check step_stale2_no_panic
  : forall cf s t x, WF2 s -> forall e, In e (snd (step_stale2 cf s t x)) -> no_panic_ev e.
Check run_stale2_WF2
  : forall cf inits progs sched, Stale2Sched cf (init_state inits progs) sched ->
      WF2 (run_state_stale2 cf (init_state inits progs) sched).
Check no_panic_in_any_run_stale2
  : forall cf inits progs sched te e, Stale2Sched cf (init_state inits progs) sched ->
      In te (snd (run_stale2 cf (init_state inits progs) sched)) -> In e (snd te) -> no_panic_ev e.
Check no_panic_in_any_run_stale2_head.
Check C13_total_stale2.
Check step2_dec.
Check solo_bound_stale2
  : forall cf t xs s k, WF2 s -> solo_ok2 cf t xs s -> (spurs2 cf t xs s <= k)%nat ->
      (solo_steps2 cf t xs s <= mu_of s t k)%nat.
Check solo_bound_closed_stale2
  : forall cf t xs s k, WF2 s -> t_status (thr s t) = Running -> solo_ok2 cf t xs s ->
      (spurs2 cf t xs s <= k)%nat ->
      (solo_steps2 cf t xs s <= B_any (headn (sh s)) k (length (t_stack (thr s t))))%nat.
Check writer_solo_bound_stale2.
Check solo_completes_stale2.
Check solo_bound_reachable_stale2.
Check stale_head_costs_one_step.

Print Assumptions step_stale2_WF2.
Print Assumptions step_stale2_no_panic.
Print Assumptions run_stale2_WF2.
Print Assumptions run_stale2_WF2_prefix.
Print Assumptions no_panic_in_any_run_stale2.
Print Assumptions no_panic_in_any_run_stale2_head.
Print Assumptions C13_total_stale2.
Print Assumptions stale2_exec_dec.
Print Assumptions step2_dec.
Print Assumptions solo_bound_stale2.
Print Assumptions solo_bound_closed_stale2.
Print Assumptions writer_solo_bound_stale2.
Print Assumptions solo_completes_stale2.
Print Assumptions solo_bound_reachable_stale2.
Print Assumptions stale_head_costs_one_step.
