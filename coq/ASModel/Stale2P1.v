(** * ASModel.Stale2P1 — the structural invariant [WF2] and panic freedom for [Stale2.step_stale2],
    WITHOUT the run hypotheses [RunOKS2] (the statement of C13 for the weakened step).

    The only condition on the values the scheduler supplies is [stale2_head_ok]: the value for
    [GPush0] is not above the current list head (the second clause of [Stale2.stale2_ok]).  The
    value for [LA1] may be anything - null, the empty-slot marker, garbage: no debug assertion of
    the fast path looks at it ([WF2] does not mention the value carried by the frames
    [LA1d]/[LAscan]/[LA3]/[LA4]/[LA5]; the slot the value is published in is empty by [top_ok],
    which is what [PSlotNotNone] checks).  Panic freedom of a single step needs no condition on
    the value at all ([step_stale2_no_panic]). *)
From Coq Require Import Lia.
From ASModel Require Import Base State Orderings_gen Step Run Progress Hist Inv InvTl InvProto InvStep Sum StepCases.
From ASModel Require Import Stale StaleInv1 StaleInv4 Stale2 Stale2Inv1 Stale2Inv4 Stale2Inv5 Stale2Inv6 Stale2Inv8.

(** The part of [stale2_ok] that the structural invariant needs. *)
Definition stale2_head_ok (s : state) (t x : N) : Prop :=
  2 <= x ->
  match t_stack (thr s t) with
  | GPush0 :: _ => x - 2 <= mem (sh s) LHead
  | _ => True
  end.

Lemma stale2_ok_head s t x : stale2_ok s t x -> stale2_head_ok s t x.
Proof.
  unfold stale2_ok, stale2_head_ok. intros H Hx. specialize (H Hx).
  destruct (t_stack (thr s t)) as [|p rest]; [exact I|]. destruct p; try exact I. exact H.
Qed.

Lemma step_stale2_cases_head cf s t x : WF2 s -> stale2_head_ok s t x -> stale2_shape cf s t x.
Proof.
  intros W SO.
  destruct (t_stack (thr s t)) as [|p rest] eqn:Hst.
  - apply step_stale2_cases; [exact W|]. unfold stale2_ok. rewrite Hst. intros _. exact I.
  - assert (D : (exists c, p = LA1 c) \/ forall c, p <> LA1 c).
    { destruct p; try (right; discriminate). left. eexists. reflexivity. }
    destruct D as [[c ->]|Hn]; [eapply s2s_la1; exact Hst|].
    apply step_stale2_cases; [exact W|]. unfold stale2_ok, stale2_head_ok in *. rewrite Hst in *.
    intros Hx. specialize (SO Hx). destruct p; try exact I; try exact SO. destruct (Hn c eq_refl).
Qed.

(** ** [WF2] is preserved: at [LA1] for every value *)
Lemma step_stale_WF2 cf s t x : WF2 s -> WF2 (fst (step_stale cf s t x)).
Proof.
  intros W. destruct (step_stale_cases cf s t x) as [E|c rest p p' thr' Hr Hst Hx Hsn Htw Hp' Hsame Hoth E].
  - rewrite E. apply step_WF2. exact W.
  - rewrite E. eapply StaleInv1.retop_WF2; try eassumption. apply step_WF2. exact W.
Qed.

Theorem step_stale2_WF2 cf s t x :
  WF2 s -> stale2_head_ok s t x -> WF2 (fst (step_stale2 cf s t x)).
Proof.
  intros W SO.
  destruct (step_stale2_cases_head cf s t x W SO)
    as [E|c rest Hst|sn p p' rest thr' Esn Hr Hne Hci Hsn Htw Hsame Hoth E
        |c v i rest thr1 sn q thr2 Hr Hst Hsame1 Hoth1 Esn Hsh Hhnd Hci Hsn Htw Hsame2 Hoth2 E].
  - rewrite E. apply step_WF2. exact W.
  - rewrite (step_stale2_LA1 cf s t x c rest Hst). apply step_stale_WF2. exact W.
  - rewrite E. eapply Stale2Inv1.retop_WF2; try eassumption. rewrite Esn. apply step_WF2. exact W.
  - rewrite E. eapply Stale2Inv1.retop_WF2; try eassumption. rewrite Esn. apply step_WF2.
    eapply Stale2Inv1.retop_WF2; try eassumption. constructor.
Qed.

Corollary step_stale2_WF2_ok cf s t x :
  WF2 s -> stale2_ok s t x -> WF2 (fst (step_stale2 cf s t x)).
Proof. intros W SO. apply step_stale2_WF2; [exact W|apply stale2_ok_head; exact SO]. Qed.

(** ** No panic: a weakened load continues with a frame *)
Lemma stale2_exec_goto cf s t p rest v s1 l1 evs nx :
  WF2 s -> t_status (thr s t) = Running -> t_stack (thr s t) = p :: rest ->
  stale2_exec cf (sh s) (t_loc (thr s t)) p v = Some (s1, l1, evs, nx) ->
  (exists q, nx = NGoto q) /\ forall e, In e evs -> no_panic_ev e.
Proof.
  intros W Hr Hst He.
  destruct (w_thr _ W t Hr) as [Htl _]. rewrite Hst in Htl.
  assert (Hnode : in_with p = true -> tl_node (t_loc (thr s t)) <> None).
  { intros Hw. destruct Htl as (Hnw & _ & _ & Hnode & _). apply Hnode.
    cbn [depth_of]. rewrite (in_with_not_bottom _ Hw), Hw. destruct (depth_of rest); discriminate. }
  destruct p; cbn [stale2_exec] in He; try discriminate.
  - injection He as <- <- <- <-. split; [|intros e [<-|[]]; exact I].
    destruct (v =? NODE_COOLDOWN); eexists; reflexivity.
  - injection He as <- <- <- <-. split; [|intros e [<-|[]]; exact I]. eexists; reflexivity.
  - unfold stale_exec in He. destruct (tl_node (t_loc (thr s t))) eqn:Hn; [|destruct (Hnode eq_refl eq_refl)].
    injection He as <- <- <- <-. split; [|intros e [<-|[]]; exact I].
    destruct (cf_debug cf); eexists; reflexivity.
  - destruct (v =? NONE); [discriminate|]. destruct (i =? 7).
    + unfold fallback_entry in He. destruct (tl_node (t_loc (thr s t))) eqn:Hn; [|destruct (Hnode eq_refl eq_refl)].
      destruct (cf_debug cf); injection He as <- <- <- <-; (split; [eexists; reflexivity|intros e [<-|[]]; exact I]).
    + injection He as <- <- <- <-. split; [eexists; reflexivity|intros e [<-|[]]; exact I].
Qed.

Theorem step_stale2_no_panic cf s t x :
  WF2 s -> forall e, In e (snd (step_stale2 cf s t x)) -> no_panic_ev e.
Proof.
  intros W. pose proof (proj2 (step_WF2 cf s t x W)) as Hn.
  unfold step_stale2. destruct (t_status (thr s t)) eqn:Hr; try exact Hn.
  destruct (t_stack (thr s t)) as [|p rest] eqn:Hst; [exact Hn|].
  destruct (2 <=? x); [|exact Hn].
  destruct (stale2_exec cf (sh s) (t_loc (thr s t)) p (x - 2)) as [[[[s1 l1] evs] nx]|] eqn:He; [|exact Hn].
  destruct (stale2_exec_goto cf s t p rest (x - 2) s1 l1 evs nx W Hr Hst He) as [[q ->] Hev].
  apply finish_panics; [exact Hev|exact I|exact I].
Qed.
