(** * ASModel.Stale2P2 — runs of [step_stale2]: [WF2] in every reachable state and no panic in any
    run (C13 for the weakened step), under the hypothesis on the stale choices only. *)
From Coq Require Import Lia.
From ASModel Require Import Base State Orderings_gen Step Run Progress Hist Inv InvTl InvProto InvStep Sum StepCases.
From ASModel Require Import Stale Stale2 Stale2Inv6 Stale2Inv8 Stale2P1.

(** The stale choices of a schedule are admissible at every position. *)
Definition Stale2Sched (cf : config) (s0 : state) (sched : list (N * N)) : Prop :=
  forall k t x, nth_error sched k = Some (t, x) -> stale2_ok (run_state_stale2 cf s0 (firstn k sched)) t x.

(** What is really used: the head values. *)
Definition Stale2HeadSched (cf : config) (s0 : state) (sched : list (N * N)) : Prop :=
  forall k t x, nth_error sched k = Some (t, x) -> stale2_head_ok (run_state_stale2 cf s0 (firstn k sched)) t x.

Lemma Stale2Sched_head cf s0 sched : Stale2Sched cf s0 sched -> Stale2HeadSched cf s0 sched.
Proof. intros H k t x Hk. apply stale2_ok_head. exact (H k t x Hk). Qed.

Lemma StS2_WF2_head cf s0 sched :
  WF2 s0 -> Stale2HeadSched cf s0 sched -> forall k, WF2 (StS2 cf s0 sched k).
Proof.
  intros W0 H. induction k as [|k IH]; [exact W0|].
  destruct (nth_error sched k) as [[t x]|] eqn:Hk.
  - rewrite (StS2_step _ _ _ _ _ _ Hk). apply step_stale2_WF2; [exact IH|exact (H k t x Hk)].
  - rewrite (StS2_end _ _ _ _ Hk). exact IH.
Qed.

Theorem run_stale2_WF2_gen cf s0 sched :
  WF2 s0 -> Stale2HeadSched cf s0 sched ->
  WF2 (run_state_stale2 cf s0 sched) /\
  (forall te e, In te (snd (run_stale2 cf s0 sched)) -> In e (snd te) -> no_panic_ev e).
Proof.
  intros W0 H. split.
  - rewrite <- StS2_all. apply StS2_WF2_head; assumption.
  - intros te e Hte. revert e.
    apply (run_stale2_events cf (fun evs => forall e, In e evs -> no_panic_ev e) sched s0); [|exact Hte].
    intros k t x _. apply step_stale2_no_panic. apply StS2_WF2_head; assumption.
Qed.

(** [WF2] in every state of every run from an initial state. *)
Theorem run_stale2_WF2 cf inits progs sched :
  Stale2Sched cf (init_state inits progs) sched ->
  WF2 (run_state_stale2 cf (init_state inits progs) sched).
Proof.
  intros H. apply (run_stale2_WF2_gen cf _ sched (WF2_init inits progs)). apply Stale2Sched_head. exact H.
Qed.

Theorem run_stale2_WF2_prefix cf inits progs sched k :
  Stale2Sched cf (init_state inits progs) sched ->
  WF2 (run_state_stale2 cf (init_state inits progs) (firstn k sched)).
Proof.
  intros H. apply (StS2_WF2_head cf _ sched (WF2_init inits progs)). apply Stale2Sched_head. exact H.
Qed.

(** C13 for [step_stale2]: no operation panics, in any schedule, from any initial configuration,
    whatever admissible values the weakened loads return. *)
Theorem no_panic_in_any_run_stale2 cf inits progs sched te e :
  Stale2Sched cf (init_state inits progs) sched ->
  In te (snd (run_stale2 cf (init_state inits progs) sched)) -> In e (snd te) -> no_panic_ev e.
Proof.
  intros H. apply (run_stale2_WF2_gen cf _ sched (WF2_init inits progs)). apply Stale2Sched_head. exact H.
Qed.

(** The same with the weaker hypothesis: the value for [LA1] is unconstrained. *)
Theorem no_panic_in_any_run_stale2_head cf inits progs sched te e :
  Stale2HeadSched cf (init_state inits progs) sched ->
  In te (snd (run_stale2 cf (init_state inits progs) sched)) -> In e (snd te) -> no_panic_ev e.
Proof. intros H. apply (run_stale2_WF2_gen cf _ sched (WF2_init inits progs)). exact H. Qed.

(** In the form of [Props/C13.v]: no event is a panic marker. *)
Corollary C13_total_stale2 cf inits progs sched :
  Stale2Sched cf (init_state inits progs) sched ->
  forall te, In te (snd (run_stale2 cf (init_state inits progs) sched)) ->
    forall ps, ~ In (EvPanic ps) (snd te).
Proof.
  intros H te Hte ps Hin. exact (no_panic_in_any_run_stale2 cf inits progs sched te (EvPanic ps) H Hte Hin).
Qed.
