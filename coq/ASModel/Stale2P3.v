(** * ASModel.Stale2P3 — the measure [ProgressW.mu] of the solo bound (C09) decreases with every
    step of [Stale2.step_stale2].

    A stale answer at [LA1], [LAscan], [GCool1] sends the thread to a frame that [step] could also
    have reached from the same frame ([LAscan c v 0]/[LA1d c v] with another value, the next slot
    or the fallback, [GCool2 w]/[GClaim w]): the cost tables of [mu] do not depend on the value
    carried, so the measure decreases exactly as for [step].

    A stale head at [GPush0] ([GPush v] with [v] not the current head) costs ONE extra step: the
    compare-exchange on the head fails once and returns the current head.  [mu] is tight there
    ([GPush0]: k+2, [GPush v], v not the head: k+2): the extra step is paid like one spurious
    failure of the weak compare-exchange, i.e. out of the budget [k] ([spur2]).  A stale head equal
    to the current head costs nothing. *)
From Coq Require Import Lia ZArith Arith.
From ASModel Require Import Base State Orderings_gen Step Run Progress ProgressW Stale Stale2.

Local Notation n2 := N.to_nat.
Local Open Scope nat_scope.
Local Infix "=?" := N.eqb (at level 70) : nat_scope.

(** Budget consumed by one step: a spurious failure ([ProgressW.spur]) or a stale head that
    differs from the current one. *)
Definition spur2 (sh : shared) (p : pc) (x : N) : nat :=
  match p with
  | GPush0 => if (2 <=? x)%N && negb (x - 2 =? mem sh LHead) then 1 else 0
  | _ => spur p x
  end.

Lemma spur2_other sh p x : p <> GPush0 -> spur2 sh p x = spur p x.
Proof. destruct p; intros H; try reflexivity. destruct (H eq_refl). Qed.

Lemma stale2_exec_dec cf sh l p x k sh' l' evs nx :
  top_hyp l p -> spur2 sh p x <= k -> (2 <= x)%N ->
  stale2_exec cf sh l p (x - 2) = Some (sh', l', evs, nx) ->
  step_ok sh l k p sh' l' (k - spur2 sh p x) nx.
Proof.
  intros Ht Hs Hx. apply N.leb_le in Hx.
  destruct p; cbn [stale2_exec]; try discriminate; cbn [spur2 spur] in *; rewrite ?Nat.sub_0_r.
  - (* GCool1 *) intros [= <- <- <- <-]. destruct (_ =? NODE_COOLDOWN); gk.
  - (* GPush0 *)
    rewrite Hx in *. cbn [andb] in *. intros [= <- <- <- <-].
    destruct (x - 2 =? mem sh LHead) eqn:E; cbn [negb] in *.
    + rewrite Nat.sub_0_r. gk. rewrite E. lia.
    + gk. rewrite E. lia.
  - (* LA1 *)
    unfold stale_exec. destruct (tl_node l); [destruct (cf_debug cf)|]; intros [= <- <- <- <-]; try exact I; gk.
  - (* LAscan *)
    cbn [top_hyp] in Ht. assert (Hi : (i <=? 7)%N = true) by (apply N.leb_le; exact Ht).
    destruct (x - 2 =? NONE); [discriminate|].
    destruct (i =? 7) eqn:E7.
    + destruct (fallback_entry cf l c) as [l2 nx2] eqn:Hf. intros [= <- <- <- <-].
      apply N.eqb_eq in E7. subst i.
      eapply fallback_ok; eauto; try kp; try reflexivity; cbn; try lia; auto.
    + intros [= <- <- <- <-]. apply N.eqb_neq in E7.
      assert (Hi' : (i + 1 <=? 7)%N = true) by (apply N.leb_le; lia).
      gk; rewrite Hi, Hi'; lia.
Qed.

Lemma stale2_exec_none_spur cf sh l p v x :
  stale2_exec cf sh l p v = None -> spur2 sh p x = spur p x.
Proof. intros H. apply spur2_other. intros ->. discriminate H. Qed.

(** ** The thread *)
Lemma step2_dec cf s t x k p rest :
  t_status (thr s t) = Running -> t_stack (thr s t) = p :: rest ->
  top_hyp (t_loc (thr s t)) p -> spur2 (sh s) p x <= k ->
  let s' := fst (step_stale2 cf s t x) in
  t_status (thr s' t) <> Running \/ t_stack (thr s' t) = [] \/
  mu (sh s') (t_loc (thr s' t)) (k - spur2 (sh s) p x) (t_stack (thr s' t))
  < mu (sh s) (t_loc (thr s t)) k (p :: rest).
Proof.
  intros Hrun Hstk Ht Hs.
  assert (Hnorm : (2 <=? x)%N = false \/ stale2_exec cf (sh s) (t_loc (thr s t)) p (x - 2) = None ->
                  spur2 (sh s) p x = spur p x).
  { intros [H|H]; [|eapply stale2_exec_none_spur; exact H].
    destruct p; try reflexivity. cbn [spur2 spur]. rewrite H. reflexivity. }
  unfold step_stale2. rewrite Hrun, Hstk.
  destruct (2 <=? x)%N eqn:Hx.
  2:{ rewrite Hnorm in * by (left; reflexivity). apply step_dec; assumption. }
  destruct (stale2_exec cf (sh s) (t_loc (thr s t)) p (x - 2)) as [[[[s_sh l] evs] nx]|] eqn:He.
  2:{ rewrite Hnorm in * by (right; reflexivity). apply step_dec; assumption. }
  apply N.leb_le in Hx.
  pose proof (stale2_exec_dec cf _ _ _ _ k _ _ _ _ Ht Hs Hx He) as Hok.
  destruct nx as [p'|fs w|v|ps|f]; cbn [step_ok] in Hok; cbn [finish fst].
  - right; right. (thr_simpl; cbn [t_stack t_loc t_status]). apply Hok.
  - right; right. (thr_simpl; cbn [t_stack t_loc t_status]). apply Hok.
  - destruct Hok as (Hcf & HH & Hgo).
    pose proof (unwind_le cf s_sh (k - spur2 (sh s) p x) rest l _ _ v HH Hcf) as Hu.
    destruct (unwind cf l rest v) as [l2 stk|l2 dst v'|l2|l2 ps|l2 f]; cbn [fst]; (thr_simpl; cbn [t_stack t_loc t_status]).
    + right; right. specialize (Hgo rest). lia.
    + right; left. reflexivity.
    + left. discriminate.
    + left. discriminate.
    + left. discriminate.
  - left. (thr_simpl; cbn [t_stack t_loc t_status]). discriminate.
  - left. (thr_simpl; cbn [t_stack t_loc t_status]). discriminate.
Qed.
