(** * ASModel.Stale2P4 — the solo bounds of [ProgressW] (C09) for [Stale2.step_stale2].

    [solo_steps2], [spurs2]: [ProgressW.solo_steps], [ProgressW.spurs] over [step_stale2]; the budget
    [k] bounds the spurious failures of weak compare-exchange AND the stale heads read at [GPush0]
    that differ from the current head (each costs one failed compare-exchange, which returns the
    current head: at most one extra step per stale head).  With that budget the bounds are those of
    [ProgressW], from every state satisfying [WF2]: [mu_of s t k], [B_any], [B_cmd].
    Hypothesis on the solo thread's choices: [solo_ok2] ([stale2_head_ok] at every own step - a
    stale head is an older head; needed for [WF2], which the measure uses for [top_hyp]). *)
From Coq Require Import Lia ZArith Arith.
From ASModel Require Import Base State Orderings_gen Step Run Progress Hist Inv InvTl InvProto InvStep ProgressW.
From ASModel Require Import Stale Stale2 Stale2Inv6 Stale2P1 Stale2P2 Stale2P3.

Local Open Scope nat_scope.

Definition spur2_of (s : state) (t x : N) : nat :=
  match t_stack (thr s t) with p :: _ => spur2 (sh s) p x | [] => 0 end.

Fixpoint solo_steps2 (cf : config) (t : N) (xs : list N) (s : state) : nat :=
  match xs with
  | [] => 0
  | x :: r => if busy s t then S (solo_steps2 cf t r (fst (step_stale2 cf s t x))) else 0
  end.

Fixpoint spurs2 (cf : config) (t : N) (xs : list N) (s : state) : nat :=
  match xs with
  | [] => 0
  | x :: r => if busy s t then spur2_of s t x + spurs2 cf t r (fst (step_stale2 cf s t x)) else 0
  end.

(** The stale heads supplied to the solo thread are older heads. *)
Fixpoint solo_ok2 (cf : config) (t : N) (xs : list N) (s : state) : Prop :=
  match xs with
  | [] => True
  | x :: r => if busy s t then stale2_head_ok s t x /\ solo_ok2 cf t r (fst (step_stale2 cf s t x)) else True
  end.

Theorem solo_bound_stale2 cf t : forall xs s k,
  WF2 s -> solo_ok2 cf t xs s -> spurs2 cf t xs s <= k -> solo_steps2 cf t xs s <= mu_of s t k.
Proof.
  induction xs as [|x r IH]; intros s k W Hok Hsp; cbn [solo_steps2 spurs2 solo_ok2] in *; [lia|].
  destruct (busy s t) eqn:Hb; [|lia].
  destruct Hok as [Hho Hok].
  destruct (busy_inv _ _ Hb) as (Hrun & p & rest & Hstk).
  pose proof (WF2_top_hyp s t p rest W Hrun Hstk) as Ht.
  pose proof (WF2_not_waiting s t p rest W Hrun Hstk) as Hnw.
  assert (Hs : spur2 (sh s) p x <= k) by (unfold spur2_of in Hsp; rewrite Hstk in Hsp; lia).
  pose proof (step2_dec cf s t x k p rest Hrun Hstk Ht Hs) as Hd. cbn zeta in Hd.
  pose proof (step_stale2_WF2 cf s t x W Hho) as W'.
  assert (Hpos : 1 <= mu_of s t k).
  { unfold mu_of. rewrite Hstk. cbn [mu].
    pose proof (tcost_pos (sh s) (t_loc (thr s t)) k (headn (sh s) + np_top (sh s) k p) p Hnw Ht). lia. }
  set (s' := fst (step_stale2 cf s t x)) in *.
  assert (Hsp' : spurs2 cf t r s' <= k - spur2 (sh s) p x).
  { unfold spur2_of in Hsp. rewrite Hstk in Hsp. lia. }
  specialize (IH s' (k - spur2 (sh s) p x) W' Hok Hsp').
  destruct Hd as [Hstop|[Hnil|Hlt]].
  - assert (busy s' t = false) as Hb'.
    { unfold busy. destruct (t_status (thr s' t)); try reflexivity. congruence. }
    destruct r; cbn [solo_steps2]; rewrite ?Hb'; lia.
  - assert (busy s' t = false) as Hb'.
    { unfold busy. rewrite Hnil. destruct (t_status (thr s' t)); reflexivity. }
    destruct r; cbn [solo_steps2]; rewrite ?Hb'; lia.
  - unfold mu_of in *. rewrite Hstk. lia.
Qed.

Theorem solo_bound_closed_stale2 cf t xs s k :
  WF2 s -> t_status (thr s t) = Running -> solo_ok2 cf t xs s -> spurs2 cf t xs s <= k ->
  solo_steps2 cf t xs s <= B_any (headn (sh s)) k (length (t_stack (thr s t))).
Proof.
  intros W Hrun Hok Hsp. eapply Nat.le_trans; [apply (solo_bound_stale2 cf t xs s k W Hok Hsp)|].
  apply mu_B_any. apply (w_thr s W t Hrun).
Qed.

(** From the start of a writer command (the first step sets up the frames; it is a step of
    [step]: no load). *)
Lemma step_stale2_nil cf s t x : t_stack (thr s t) = [] -> step_stale2 cf s t x = step cf s t x.
Proof. intros H. unfold step_stale2. rewrite H. destruct (t_status (thr s t)); reflexivity. Qed.

Theorem writer_solo_bound_stale2 cf t s x0 xs k c :
  WF2 s -> t_status (thr s t) = Running -> t_stack (thr s t) = [] ->
  nth_error (t_prog (thr s t)) (N.to_nat (t_cmdi (thr s t))) = Some c ->
  cmd_enabled s c = true -> is_writer c = true ->
  solo_ok2 cf t xs (fst (step_stale2 cf s t x0)) ->
  spurs2 cf t xs (fst (step_stale2 cf s t x0)) <= k ->
  solo_steps2 cf t xs (fst (step_stale2 cf s t x0)) <= B_cmd c (headn (sh s)) k.
Proof.
  intros W Hrun Hstk Hc Hen Hw. rewrite (step_stale2_nil cf s t x0 Hstk). intros Hok Hsp.
  destruct (step_WF2 cf s t x0 W) as [W1 _].
  eapply Nat.le_trans; [apply (solo_bound_stale2 cf t xs _ k W1 Hok Hsp)|].
  unfold mu_of, step. rewrite Hrun, Hstk, Hc, Hen.
  destruct (cmd_start cf s (t_loc (thr s t)) c) as [[[[s' l'] stk] r]|ps] eqn:Hcs.
  - pose proof (cmd_mu cf s _ c k s' l' stk r Hw Hcs) as Hm.
    destruct stk as [|p stk]; cbn [fst]; unfold set_thread; thr_simpl; cbn [t_stack t_loc].
    + cbn [mu]. lia.
    + exact Hm.
  - cbn [fst]. unfold set_thread. thr_simpl. cbn [t_stack t_loc mu]. lia.
Qed.

(** ** In terms of schedules *)
Lemma solo_steps2_le cf t : forall xs s, solo_steps2 cf t xs s <= length xs.
Proof.
  induction xs as [|x r IH]; intros s; cbn; [lia|]. destruct (busy s t); [|lia].
  specialize (IH (fst (step_stale2 cf s t x))). lia.
Qed.

Lemma solo_steps2_stop cf t : forall xs s,
  solo_steps2 cf t xs s < length xs ->
  busy (run_state_stale2 cf s (solo_sched t (firstn (solo_steps2 cf t xs s) xs))) t = false.
Proof.
  induction xs as [|x r IH]; intros s Hlt; cbn in Hlt; [lia|].
  cbn [solo_steps2] in *. destruct (busy s t) eqn:Hb.
  - cbn [firstn solo_sched map]. rewrite run_state_stale2_cons. cbn [fst snd].
    apply IH. lia.
  - cbn. exact Hb.
Qed.

Theorem solo_completes_stale2 cf t s k xs :
  WF2 s -> solo_ok2 cf t xs s -> spurs2 cf t xs s <= k -> mu_of s t k < length xs ->
  exists n, n <= mu_of s t k /\
            busy (run_state_stale2 cf s (solo_sched t (firstn n xs))) t = false.
Proof.
  intros W Hok Hsp Hlen. exists (solo_steps2 cf t xs s).
  pose proof (solo_bound_stale2 cf t xs s k W Hok Hsp). split; [assumption|].
  apply solo_steps2_stop. lia.
Qed.

(** Every state reachable by [step_stale2] (admissible stale choices) satisfies [WF2]: the
    bound holds from any state a schedule of the weakened step can lead to. *)
Corollary solo_bound_reachable_stale2 cf inits progs sched t xs k :
  Stale2Sched cf (init_state inits progs) sched ->
  let s := run_state_stale2 cf (init_state inits progs) sched in
  solo_ok2 cf t xs s -> spurs2 cf t xs s <= k -> solo_steps2 cf t xs s <= mu_of s t k.
Proof.
  intros HS s Hok Hsp. apply solo_bound_stale2; [|exact Hok|exact Hsp].
  apply run_stale2_WF2. exact HS.
Qed.
