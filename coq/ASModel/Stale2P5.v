(** * ASModel.Stale2P5 — the charge for a stale head is necessary and exact.

    Thread 0 has loaded once (it holds node 0, the list head is 1).  Thread 1 starts the
    [set_generation] hook, finds node 0 in use and arrives at [GPush0].  From that reachable state
    [s], with no spurious failure at all:
    - [mu_of s 1 0 = 2], and with fresh loads thread 1 finishes alone in 2 steps;
    - if its head read is answered with the older head 0, it needs 3 steps ([GPush0], the failed
      compare-exchange of [GPush 0], the successful one of [GPush 1]): one more than [mu_of s 1 0],
      exactly [mu_of s 1 1] - the stale head is charged like one spurious failure ([spurs2 = 1]).
    So the bound [solo_steps <= mu_of s t k] of [ProgressW.solo_bound], [k] counting spurious failures
    only, does NOT hold for [step_stale2]; it holds with the stale heads counted in [k]
    ([Stale2P4.solo_bound_stale2]). *)
From Coq Require Import Lia List NArith.
Import ListNotations.
From ASModel Require Import Base State Orderings_gen Step Run Progress InvStep ProgressW.
From ASModel Require Import Stale Stale2 Stale2P1 Stale2P2 Stale2P3 Stale2P4.

(** A checker for [solo_ok2]. *)
Definition head_b (s : state) (t x : N) : bool :=
  match t_stack (thr s t) with
  | GPush0 :: _ => negb (2 <=? x) || (x - 2 <=? mem (sh s) LHead)
  | _ => true
  end.

Lemma head_b_sound s t x : head_b s t x = true -> stale2_head_ok s t x.
Proof.
  unfold head_b, stale2_head_ok. intros H Hx. destruct (t_stack (thr s t)) as [|p rest]; [exact I|].
  destruct p; try exact I. apply orb_true_iff in H as [H|H].
  - apply negb_true_iff, N.leb_gt in H. lia.
  - apply N.leb_le in H. exact H.
Qed.

Fixpoint solo_ok2_b (cf : config) (t : N) (xs : list N) (s : state) : bool :=
  match xs with
  | [] => true
  | x :: r => if busy s t then head_b s t x && solo_ok2_b cf t r (fst (step_stale2 cf s t x)) else true
  end.

Lemma solo_ok2_b_sound cf t : forall xs s, solo_ok2_b cf t xs s = true -> solo_ok2 cf t xs s.
Proof.
  induction xs as [|x r IH]; intros s H; cbn [solo_ok2 solo_ok2_b] in *; [exact I|].
  destruct (busy s t); [|exact I]. apply andb_prop in H as [H1 H2].
  split; [apply head_b_sound; exact H1|apply IH; exact H2].
Qed.

Definition p5_cf : config := mkConfig true false.
Definition p5_inits : list N := [4096].
Definition p5_progs : list (list cmd) := [[CLoad 0 1; CLoad 0 2]; [CSetGen 8]].
Definition p5_sched : list (N * N) := repeat (0, 0) 8 ++ repeat (1, 0) 4.
Definition p5_s : state := run_state_stale2 p5_cf (init_state p5_inits p5_progs) p5_sched.
Definition p5_stale : list N := [2; 0; 0; 0].
Definition p5_fresh : list N := [0; 0; 0; 0].

Lemma p5_sched_ok : Stale2Sched p5_cf (init_state p5_inits p5_progs) p5_sched.
Proof.
  intros k t x Hk Hx. exfalso.
  assert (F : Forall (fun tx : N * N => snd tx = 0) p5_sched) by (vm_compute; repeat constructor).
  apply nth_error_In in Hk. rewrite Forall_forall in F. specialize (F _ Hk). cbn in F. lia.
Qed.

Theorem stale_head_costs_one_step :
  Stale2Sched p5_cf (init_state p5_inits p5_progs) p5_sched /\
  WF2 p5_s /\
  hd_error (t_stack (thr p5_s 1)) = Some GPush0 /\ mem (sh p5_s) LHead = 1 /\
  stale2_ok p5_s 1 2 /\ solo_ok2 p5_cf 1 p5_stale p5_s /\
  Forall (fun x => x <> 1) p5_stale /\
  mu_of p5_s 1 0 = 2%nat /\
  solo_steps p5_cf 1 p5_fresh p5_s = 2%nat /\
  solo_steps2 p5_cf 1 p5_stale p5_s = 3%nat /\
  spurs2 p5_cf 1 p5_stale p5_s = 1%nat /\
  mu_of p5_s 1 1 = 3%nat.
Proof.
  split; [exact p5_sched_ok|].
  split; [apply run_stale2_WF2; exact p5_sched_ok|].
  split; [vm_compute; reflexivity|].
  assert (Hh : mem (sh p5_s) LHead = 1) by (vm_compute; reflexivity).
  split; [exact Hh|].
  split.
  { unfold stale2_ok. intros _.
    assert (E : t_stack (thr p5_s 1) = [GPush0; WGetSetGen 8; KDone None]) by (vm_compute; reflexivity).
    rewrite E, Hh. lia. }
  split; [apply solo_ok2_b_sound; vm_compute; reflexivity|].
  split; [repeat constructor; discriminate|].
  repeat split; vm_compute; reflexivity.
Qed.
