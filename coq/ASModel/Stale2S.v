(** * ASModel.Stale2S — summary: the STATIC versions of the end-to-end theorems for runs of
    [step_stale2] (four loads of the read side answered with stale values).

    - Stale2S1: [step_stale2_shapeS] (a step of [step_stale2] is the step of [step], a quiet step,
      or the panic of a weakened load without node - no hypothesis on the state);
      [step_stale2_gen]: a step advances a generation counter by at most 4;
      [GenBound_len_stale2]: [GenBound] in every state of a run shorter than [2^62 - 1] steps.
    - Stale2S2: [RunOKLenS2] (= [RunOKS2] with the length bound for [GenBound]), C01/C02/C03/C12 [_len].
    - Stale2S3: [ProgWF2.PInv] is preserved by [step_stale2]; [DstEmpty] / [CloneSrcCmd] from [progs_wf].
    - Stale2S4: [RunStaticS2]: initial values, program text, length; on the states of the run only
      [alloc_ok] and [stale2_ok] (conditions on the scheduler's choices); C01/C02/C03/C12 [_static].
    - Stale2S5: [RunStatic] with choices below 2 is an instance of [RunStaticS2]. *)
From Coq Require Import Lia.
From ASModel Require Import Base State Orderings_gen Step Run Progress Hist Inv InvTl InvProto InvStep Sum StepCases.
From ASModel Require Import GenDefs Gen1 Gen2 Gen AccDefs Acc LinDefs Lin Safe2 Safe8 Safe Main GenLen ProgWF1 ProgWF2 ProgWF.
From ASModel Require Import Stale Stale2 Stale2Inv6 Stale2Inv8.
From ASModel Require Export Stale2S1 Stale2S2 Stale2S3 Stale2S4 Stale2S5.

Check (step_stale2_shapeS : forall cf s t x, stale2_shapeS cf s t x).

Check (step_stale2_gen : forall cf s t x, NoSetGen s -> NoSGF s ->
  (forall t', tl_gen (t_loc (thr (fst (step_stale2 cf s t x)) t')) <= tl_gen (t_loc (thr s t')) + 4) /\
  NoSGF (fst (step_stale2 cf s t x))).

Check (run_stale2_gen_init : forall cf inits progs sched t, progs_ok progs ->
  tl_gen (t_loc (thr (run_state_stale2 cf (init_state inits progs) sched) t)) <= 4 * N.of_nat (length sched)).

Check (GenBound_len_stale2 : forall cf inits progs sched,
  progs_ok progs -> 4 * N.of_nat (length sched) + 4 < WORD ->
  forall k, GenBound (StS2 cf (init_state inits progs) sched k)).

Check (GenBound_len61_stale2 : forall cf inits progs sched,
  progs_ok progs -> N.of_nat (length sched) < 2 ^ 61 ->
  forall k, GenBound (StS2 cf (init_state inits progs) sched k)).

Check (RunOKLenS2_RunOKS2 : forall cf inits progs sched,
  RunOKLenS2 cf inits progs sched -> RunOKS2 cf inits progs sched).

Check (C01_no_use_after_free_stale2_len : forall cf inits progs sched,
  RunOKLenS2 cf inits progs sched ->
  NoFault (run_state_stale2 cf (init_state inits progs) sched) /\
  forall te, In te (snd (run_stale2 cf (init_state inits progs) sched)) ->
    forall a, ~ In (EvFault (FDeadInc a)) (snd te) /\ ~ In (EvFault (FDeadDec a)) (snd te)).

Check (C02_accounting_stale2_len : forall cf inits progs sched,
  RunOKLenS2 cf inits progs sched -> Acc (run_state_stale2 cf (init_state inits progs) sched)).

Check (step_stale2_PInv : forall progs cf s t x,
  handles_disjoint progs -> ProgWF2.PInv progs s -> ProgWF2.PInv progs (fst (step_stale2 cf s t x))).

Check (progs_wf_DstEmpty_stale2 : forall progs, progs_wf progs ->
  forall cf inits sched, DstEmpty (run_state_stale2 cf (init_state inits progs) sched)).

Check (progs_wf_CloneSrcCmd_stale2 : forall progs, progs_wf progs ->
  forall cf inits sched, Safe8.CloneSrcCmd (run_state_stale2 cf (init_state inits progs) sched)).

Check (RunStaticS2_RunOKLenS2 : forall cf inits progs sched,
  RunStaticS2 cf inits progs sched -> RunOKLenS2 cf inits progs sched).

Check (RunStaticS2_RunOKS2 : forall cf inits progs sched,
  RunStaticS2 cf inits progs sched -> RunOKS2 cf inits progs sched).

Check (RunStaticS2_of_checker : forall cf inits progs sched,
  inits_ok inits -> progs_ok progs -> progs_wf_b progs = true -> N.of_nat (length sched) < 2 ^ 61 ->
  (forall k t x, nth_error sched k = Some (t, x) -> alloc_ok (StS2 cf (init_state inits progs) sched k) t x) ->
  (forall k t x, nth_error sched k = Some (t, x) -> stale2_ok (StS2 cf (init_state inits progs) sched k) t x) ->
  RunStaticS2 cf inits progs sched).

Check (C01_no_use_after_free_stale2_static : forall cf inits progs sched,
  RunStaticS2 cf inits progs sched ->
  NoFault (run_state_stale2 cf (init_state inits progs) sched) /\
  forall te, In te (snd (run_stale2 cf (init_state inits progs) sched)) ->
    forall a, ~ In (EvFault (FDeadInc a)) (snd te) /\ ~ In (EvFault (FDeadDec a)) (snd te)).

Check (C02_accounting_stale2_static : forall cf inits progs sched,
  RunStaticS2 cf inits progs sched -> Acc (run_state_stale2 cf (init_state inits progs) sched)).

Check (C03_load_linearizable_stale2_static : forall cf inits progs sched,
  RunStaticS2 cf inits progs sched ->
  let s0 := init_state inits progs in
  forall t i cm c h pa pb xa tb xb,
  nth_error (t_prog (thr s0 t)) (N.to_nat i) = Some cm -> is_load_of cm c h ->
  (pa <= pb)%nat ->
  nth_error sched pa = Some (t, xa) ->
  t_status (thr (StS2 cf s0 sched pa) t) = Running -> t_stack (thr (StS2 cf s0 sched pa) t) = [] ->
  t_cmdi (thr (StS2 cf s0 sched pa) t) = i ->
  nth_error sched pb = Some (tb, xb) ->
  t_cmdi (thr (StS2 cf s0 sched pb) t) = i -> t_cmdi (thr (StS2 cf s0 sched (S pb)) t) = i + 1 ->
  exists v, (match cm with
             | CLoad _ _ => exists d, hnd (StS2 cf s0 sched (S pb)) h = HGuard v d
             | _ => hnd (StS2 cf s0 sched (S pb)) h = HOwned v
             end) /\
    exists k, (pa + 1 <= k <= pb + 1)%nat /\ mem (sh (StS2 cf s0 sched k)) (LStore c) = v).

Check (RunStatic_RunStaticS2 : forall cf inits progs sched,
  fresh_sched sched -> RunStatic cf inits progs sched -> RunStaticS2 cf inits progs sched).

Print Assumptions step_stale2_shapeS.
Print Assumptions step_stale2_gen.
Print Assumptions GenBound_len_stale2.
Print Assumptions GenBound_len61_stale2.
Print Assumptions RunOKLenS2_RunOKS2.
Print Assumptions C01_no_use_after_free_stale2_len.
Print Assumptions C02_accounting_stale2_len.
Print Assumptions C03_load_linearizable_stale2_len.
Print Assumptions C12_load_own_container_stale2_len.
Print Assumptions step_stale2_PInv.
Print Assumptions progs_wf_DstEmpty_stale2.
Print Assumptions progs_wf_CloneSrcCmd_stale2.
Print Assumptions RunStaticS2_RunOKLenS2.
Print Assumptions RunStaticS2_of_checker.
Print Assumptions C01_no_use_after_free_stale2_static.
Print Assumptions C01_no_fault_stale2_prefix_static.
Print Assumptions C02_accounting_stale2_static.
Print Assumptions C03_load_linearizable_stale2_static.
Print Assumptions C12_load_own_container_stale2_static.
Print Assumptions RunStatic_RunStaticS2.
