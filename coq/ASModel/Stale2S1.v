(** * ASModel.Stale2S1 — the shape of a step of [step_stale2] without any hypothesis on the state
    ([step_stale2_shapeS]), and the generation counters under [step_stale2]: a step advances a
    counter by at most 4 ([step_stale2_gen]), so [GenBound] holds in every state of a run from an
    initial state that is short enough ([GenBound_len_stale2], the bound of [GenLen]).

    The quiet step (a weakened load answered by the scheduler) leaves the counter alone except
    at the eighth slot of the scan ([LAscan _ _ 7]), where it enters the fallback through
    [fallback_entry] exactly as [step] does: one increment of 4. *)
From Coq Require Import Lia ZArith.
From ASModel Require Import Base State Orderings_gen Step Run Progress Hist Inv InvTl InvProto InvStep Sum StepCases.
From ASModel Require Import GenDefs Gen1 Gen2 Gen EnvDefs Env4 Env Safe Main GenLen.
From ASModel Require Import Stale Stale2 Stale2Inv4 Stale2Inv6 Stale2Inv8 Stale2Inv9 Stale2W2.

(** ** [stale2_exec]: no hypothesis on the thread (without a node the load panics) *)
Lemma fallback_entry_shapeS cf l c :
  tl_gen (fst (fallback_entry cf l c)) <= tl_gen l + 4 /\
  ((exists q, snd (fallback_entry cf l c) = NGoto q /\ quiet_tgt q = true) \/
   exists ps, snd (fallback_entry cf l c) = NPanic ps).
Proof.
  unfold fallback_entry. destruct (tl_node l); [destruct (cf_debug cf)|]; cbn [fst snd tl_set_gen tl_gen].
  - split; [lia|left; eexists; split; reflexivity].
  - split; [apply mod_le_add|left; eexists; split; reflexivity].
  - split; [lia|right; eexists; reflexivity].
Qed.

Lemma stale2_exec_shapeS cf ssh l p v s' l' evs nx :
  stale2_exec cf ssh l p v = Some (s', l', evs, nx) ->
  s' = ssh /\ stale_site p = true /\ tl_gen l' <= tl_gen l + 4 /\
  ((exists q, nx = NGoto q /\ quiet_tgt q = true) \/ exists ps, nx = NPanic ps).
Proof.
  destruct p; try discriminate; cbn [stale2_exec].
  - intros [= <- <- <- <-]. repeat split; [lia|]. left.
    destruct (v =? NODE_COOLDOWN); eexists; split; reflexivity.
  - intros [= <- <- <- <-]. repeat split; [lia|]. left. eexists; split; reflexivity.
  - unfold stale_exec. destruct (tl_node l).
    + intros [= <- <- <- <-]. repeat split; [lia|]. left. destruct (cf_debug cf); eexists; split; reflexivity.
    + intros [= <- <- <- <-]. repeat split; [lia|]. right. eexists; reflexivity.
  - destruct (v =? NONE); [discriminate|]. destruct (i =? 7).
    + pose proof (fallback_entry_shapeS cf l c) as [H1 H2]. destruct (fallback_entry cf l c) as [l0 nx0].
      cbn [fst snd] in *. intros [= <- <- <- <-]. repeat split; assumption.
    + intros [= <- <- <- <-]. repeat split; [lia|]. left. eexists; split; reflexivity.
Qed.

(** ** The step: [step]'s step, a quiet step, or a panic of a thread without node *)
Definition retopS (s : state) (t : N) (stk : list pc) (l1 : tlocal) (st : status) : state :=
  mkState (sh s) (upd (thr s) t (mkThread stk l1 (t_prog (thr s t)) (t_cmdi (thr s t)) st)) (hnd s).

Inductive stale2_shapeS (cf : config) (s : state) (t x : N) : Prop :=
| sS_same : step_stale2 cf s t x = step cf s t x -> stale2_shapeS cf s t x
| sS_quiet p rest l1 q :
    t_status (thr s t) = Running -> t_stack (thr s t) = p :: rest ->
    stale_site p = true -> quiet_tgt q = true ->
    tl_gen l1 <= tl_gen (t_loc (thr s t)) + 4 ->
    fst (step_stale2 cf s t x) = retopS s t (q :: rest) l1 Running ->
    stale2_shapeS cf s t x
| sS_panic p rest l1 :
    t_status (thr s t) = Running -> t_stack (thr s t) = p :: rest ->
    stale_site p = true ->
    tl_gen l1 <= tl_gen (t_loc (thr s t)) + 4 ->
    fst (step_stale2 cf s t x) = retopS s t rest l1 Panicked ->
    stale2_shapeS cf s t x.

Lemma step_stale2_shapeS cf s t x : stale2_shapeS cf s t x.
Proof.
  destruct (t_status (thr s t)) eqn:Hr; try (apply sS_same; unfold step_stale2; rewrite Hr; reflexivity).
  destruct (t_stack (thr s t)) as [|p rest] eqn:Hst; [apply sS_same; unfold step_stale2; rewrite Hr, Hst; reflexivity|].
  destruct (2 <=? x) eqn:Hx; [|apply sS_same; unfold step_stale2; rewrite Hr, Hst, Hx; reflexivity].
  destruct (stale2_exec cf (sh s) (t_loc (thr s t)) p (x - 2)) as [[[[s1 l1] evs] nx]|] eqn:E;
    [|apply sS_same; unfold step_stale2; rewrite Hr, Hst, Hx, E; reflexivity].
  destruct (stale2_exec_shapeS _ _ _ _ _ _ _ _ _ E) as (-> & Hsite & Hg & [(q & -> & Hq)|(ps & ->)]).
  - eapply sS_quiet; try eassumption. unfold step_stale2. rewrite Hr, Hst, Hx, E. reflexivity.
  - eapply sS_panic; try eassumption. unfold step_stale2. rewrite Hr, Hst, Hx, E. reflexivity.
Qed.

(** ** The generation counters *)
Lemma quiet_tgt_NoSG q : quiet_tgt q = true -> forall g, q <> WGetSetGen g.
Proof. intros H g ->. discriminate H. Qed.

Theorem step_stale2_gen cf s t x :
  NoSetGen s -> NoSGF s ->
  (forall t', tl_gen (t_loc (thr (fst (step_stale2 cf s t x)) t')) <= tl_gen (t_loc (thr s t')) + 4) /\
  NoSGF (fst (step_stale2 cf s t x)).
Proof.
  intros NS NF.
  destruct (step_stale2_shapeS cf s t x) as [E|p rest l1 q Hr Hst Hp Hq Hg E|p rest l1 Hr Hst Hp Hg E].
  - rewrite E. apply step_gen; assumption.
  - rewrite E. pose proof (NF t) as Ht. rewrite Hst in Ht. apply NoSG_cons in Ht as [_ Hrest].
    split; intros t'; unfold retopS; cbn [thr]; (destruct (N.eq_dec t' t) as [->|Hne]; [rewrite upd_same|rewrite upd_other by exact Hne]).
    + cbn [t_loc]. exact Hg.
    + lia.
    + cbn [t_stack]. intros g [H|H]; [exact (quiet_tgt_NoSG q Hq g H)|exact (Hrest g H)].
    + apply NF.
  - rewrite E. pose proof (NF t) as Ht. rewrite Hst in Ht. apply NoSG_cons in Ht as [_ Hrest].
    split; intros t'; unfold retopS; cbn [thr]; (destruct (N.eq_dec t' t) as [->|Hne]; [rewrite upd_same|rewrite upd_other by exact Hne]).
    + cbn [t_loc]. exact Hg.
    + lia.
    + cbn [t_stack]. exact Hrest.
    + apply NF.
Qed.

Lemma NoSetGen_step_stale2 cf s t x : NoSetGen s -> NoSetGen (fst (step_stale2 cf s t x)).
Proof. intros NS t' g. rewrite step_stale2_prog. apply NS. Qed.

Lemma run_stale2_gen cf : forall sched s, NoSetGen s -> NoSGF s ->
  (forall t, tl_gen (t_loc (thr (run_state_stale2 cf s sched) t)) <=
             tl_gen (t_loc (thr s t)) + 4 * N.of_nat (length sched)) /\
  NoSGF (run_state_stale2 cf s sched).
Proof.
  induction sched as [|[t x] sched IH]; intros s NS NF.
  - split; [intros t; cbn; lia|exact NF].
  - rewrite run_state_stale2_cons.
    destruct (step_stale2_gen cf s t x NS NF) as [H1 H2].
    destruct (IH _ (NoSetGen_step_stale2 cf s t x NS) H2) as [H3 H4].
    split; [|exact H4]. intros t'. specialize (H1 t'). specialize (H3 t').
    cbn [length]. lia.
Qed.

(** After [n] steps of [step_stale2] from an initial state every counter is at most [4 * n]. *)
Theorem run_stale2_gen_init cf inits progs sched t :
  progs_ok progs ->
  tl_gen (t_loc (thr (run_state_stale2 cf (init_state inits progs) sched) t)) <= 4 * N.of_nat (length sched).
Proof.
  intros [Hp _].
  destruct (run_stale2_gen cf sched _ (NoSetGen_init inits progs Hp) (NoSGF_init inits progs)) as [H _].
  specialize (H t). rewrite (proj2 (init_thread_facts inits progs t)) in H. cbn [tl_init tl_gen] in H. lia.
Qed.

Theorem GenBound_len_stale2 cf inits progs sched :
  progs_ok progs -> 4 * N.of_nat (length sched) + 4 < WORD ->
  forall k, GenBound (StS2 cf (init_state inits progs) sched k).
Proof.
  intros Hp Hlen k t. unfold StS2.
  pose proof (run_stale2_gen_init cf inits progs (firstn k sched) t Hp) as H.
  rewrite firstn_length in H. lia.
Qed.

Corollary GenBound_len61_stale2 cf inits progs sched :
  progs_ok progs -> N.of_nat (length sched) < 2 ^ 61 ->
  forall k, GenBound (StS2 cf (init_state inits progs) sched k).
Proof.
  intros Hp Hlen. apply GenBound_len_stale2; [exact Hp|].
  change WORD with (4 * 2 ^ 61 + 4 * 2 ^ 61). change (2 ^ 61) with 2305843009213693952 in *. lia.
Qed.
