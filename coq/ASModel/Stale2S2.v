(** * ASModel.Stale2S2 — [RunOKS2] with the length of the run in place of [GenBound]
    ([RunOKLenS2], the counterpart of [GenLen.RunOKLen] for runs of [step_stale2]) and the
    headline theorems C01 / C02 / C03 / C12 for such runs. *)
From Coq Require Import Lia.
From ASModel Require Import Base State Orderings_gen Step Run Progress Hist Inv InvTl InvProto InvStep Sum StepCases.
From ASModel Require Import GenDefs Gen1 Gen2 Gen AccDefs Acc LinDefs Lin Safe2 Safe8 Safe Main GenLen.
From ASModel Require Import Stale Stale2 Stale2Inv6 Stale2Inv8 Stale2Inv12 Stale2S1.

Record RunOKLenS2 (cf : config) (inits : list N) (progs : list (list cmd)) (sched : list (N * N)) : Prop := {
  rl2_inits : inits_ok inits;
  rl2_progs : progs_ok progs;
  rl2_len : 4 * N.of_nat (length sched) + 4 < WORD;
  rl2_state : forall k, let s := StS2 cf (init_state inits progs) sched k in
                        DstEmpty s /\ CloneSrcCmd s;
  rl2_alloc : forall k t x, nth_error sched k = Some (t, x) ->
                            alloc_ok (StS2 cf (init_state inits progs) sched k) t x;
  rl2_stale : forall k t x, nth_error sched k = Some (t, x) ->
                            stale2_ok (StS2 cf (init_state inits progs) sched k) t x;
}.

Theorem RunOKLenS2_RunOKS2 cf inits progs sched :
  RunOKLenS2 cf inits progs sched -> RunOKS2 cf inits progs sched.
Proof.
  intros [Hi Hp Hl Hs Ha Ht]. constructor; [exact Hi|exact Hp| |exact Ha|exact Ht].
  intros k. cbn zeta. split; [|exact (Hs k)].
  apply GenBound_len_stale2; assumption.
Qed.

(** Conversely, [RunOKS2] without the length bound is all of [RunOKLenS2] but [rl2_len]. *)
Lemma RunOKS2_RunOKLenS2 cf inits progs sched :
  RunOKS2 cf inits progs sched -> 4 * N.of_nat (length sched) + 4 < WORD -> RunOKLenS2 cf inits progs sched.
Proof.
  intros [Hi Hp Hs Ha Ht] Hl. constructor; try assumption.
  intros k. exact (proj2 (Hs k)).
Qed.

Corollary RunOKLenS2_Master cf inits progs sched :
  RunOKLenS2 cf inits progs sched -> forall k, Master (StS2 cf (init_state inits progs) sched k).
Proof. intros R. apply run_stale2_Master. apply RunOKLenS2_RunOKS2. exact R. Qed.

(** ** The headline theorems for runs of [step_stale2] of bounded length *)
Theorem C01_no_use_after_free_stale2_len cf inits progs sched :
  RunOKLenS2 cf inits progs sched ->
  NoFault (run_state_stale2 cf (init_state inits progs) sched) /\
  forall te, In te (snd (run_stale2 cf (init_state inits progs) sched)) ->
    forall a, ~ In (EvFault (FDeadInc a)) (snd te) /\ ~ In (EvFault (FDeadDec a)) (snd te).
Proof. intros R. apply C01_no_use_after_free_stale2. apply RunOKLenS2_RunOKS2. exact R. Qed.

Corollary C01_no_fault_stale2_prefix_len cf inits progs sched k :
  RunOKLenS2 cf inits progs sched -> NoFault (StS2 cf (init_state inits progs) sched k).
Proof. intros R. apply C01_no_fault_stale2_prefix. apply RunOKLenS2_RunOKS2. exact R. Qed.

Theorem C02_accounting_stale2_len cf inits progs sched :
  RunOKLenS2 cf inits progs sched -> Acc (run_state_stale2 cf (init_state inits progs) sched).
Proof. intros R. apply C02_accounting_stale2. apply RunOKLenS2_RunOKS2. exact R. Qed.

Theorem C03_load_linearizable_stale2_len cf inits progs sched :
  RunOKLenS2 cf inits progs sched ->
  let s0 := init_state inits progs in
  forall t i cm c h pa pb xa tb xb,
  nth_error (t_prog (thr s0 t)) (N.to_nat i) = Some cm -> is_load_of cm c h ->
  (pa <= pb)%nat ->
  nth_error sched pa = Some (t, xa) ->
  t_status (thr (StS2 cf s0 sched pa) t) = Running -> t_stack (thr (StS2 cf s0 sched pa) t) = [] ->
  t_cmdi (thr (StS2 cf s0 sched pa) t) = i ->
  nth_error sched pb = Some (tb, xb) ->
  t_cmdi (thr (StS2 cf s0 sched pb) t) = i -> t_cmdi (thr (StS2 cf s0 sched (S pb)) t) = i + 1 ->
  exists v, (match cm with
             | CLoad _ _ => exists d, hnd (StS2 cf s0 sched (S pb)) h = HGuard v d
             | _ => hnd (StS2 cf s0 sched (S pb)) h = HOwned v
             end) /\
    exists k, (pa + 1 <= k <= pb + 1)%nat /\ mem (sh (StS2 cf s0 sched k)) (LStore c) = v.
Proof.
  intros R s0. apply (C03_load_linearizable_stale2 cf inits progs sched (RunOKLenS2_RunOKS2 _ _ _ _ R)).
Qed.

Theorem C12_load_own_container_stale2_len cf inits progs sched :
  RunOKLenS2 cf inits progs sched ->
  let s0 := init_state inits progs in
  forall t i c h (full : bool) pa pb xa tb xb,
  nth_error (t_prog (thr s0 t)) (N.to_nat i) = Some (if full then CLoadFull c h else CLoad c h) ->
  (pa <= pb)%nat ->
  nth_error sched pa = Some (t, xa) ->
  t_status (thr (StS2 cf s0 sched pa) t) = Running -> t_stack (thr (StS2 cf s0 sched pa) t) = [] ->
  t_cmdi (thr (StS2 cf s0 sched pa) t) = i ->
  nth_error sched pb = Some (tb, xb) ->
  t_cmdi (thr (StS2 cf s0 sched pb) t) = i -> t_cmdi (thr (StS2 cf s0 sched (S pb)) t) = i + 1 ->
  exists v k, handle_ptr (hnd (StS2 cf s0 sched (S pb)) h) = Some v /\
              (pa + 1 <= k <= pb + 1)%nat /\ mem (sh (StS2 cf s0 sched k)) (LStore c) = v.
Proof.
  intros R s0. apply (C12_load_own_container_stale2 cf inits progs sched (RunOKLenS2_RunOKS2 _ _ _ _ R)).
Qed.
