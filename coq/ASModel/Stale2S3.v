(** * ASModel.Stale2S3 — the program invariant [ProgWF2.PInv] under [step_stale2]: a quiet step
    (and the panic of a weakened load without node) changes neither the handles nor the command
    index nor the programs, and replaces the top frame by a frame of the read path / of
    [Node::get], which is neither a bottom frame nor [CloneInc].  Hence [DstEmpty] and
    [CloneSrcCmd] hold in every state of every run of [step_stale2] of well-formed programs. *)
From Coq Require Import Lia.
From ASModel Require Import Base State Orderings_gen Step Run Progress Hist Inv InvTl InvProto InvStep Sum StepCases.
From ASModel Require Import GenDefs Gen1 Gen2 Gen Prot11 Prot12 Safe8 Safe Main.
From ASModel Require Import ProgWF1 ProgWF2 ProgWF3 ProgWF.
From ASModel Require Import Stale Stale2 Stale2Inv6 Stale2W2 Stale2S1.

Lemma quiet_tgt_bottom_dst q : quiet_tgt q = true -> bottom_dst q = None.
Proof. destruct q; cbn; congruence. Qed.

Lemma quiet_tgt_not_clone q a : quiet_tgt q = true -> CloneInc a <> q.
Proof. intros H <-. discriminate H. Qed.

(** [PInv] when the acting (running) thread keeps programs, command index and a non-empty stack
    whose new top frame is a quiet target, or stops running. *)
Lemma retopS_PInv progs s t p rest stk l1 st :
  PInv progs s -> t_status (thr s t) = Running -> t_stack (thr s t) = p :: rest ->
  (st = Running -> exists q, stk = q :: rest /\ quiet_tgt q = true) ->
  PInv progs (retopS s t stk l1 st).
Proof.
  intros PI Hr0 Hst Hstk.
  assert (Hother : forall t', t' <> t -> thr (retopS s t stk l1 st) t' = thr s t').
  { intros t' Hne. unfold retopS. cbn [thr]. apply upd_other. exact Hne. }
  assert (Hself : thr (retopS s t stk l1 st) t = mkThread stk l1 (t_prog (thr s t)) (t_cmdi (thr s t)) st).
  { unfold retopS. cbn [thr]. apply upd_same. }
  assert (Hhnd : hnd (retopS s t stk l1 st) = hnd s) by reflexivity.
  constructor.
  - intros t'. destruct (N.eq_dec t' t) as [->|Hne]; [rewrite Hself; cbn [t_prog]|rewrite Hother by exact Hne]; apply PI.
  - intros t'. destruct (N.eq_dec t' t) as [->|Hne]; [|rewrite Hother by exact Hne; apply PI].
    rewrite Hself. cbn [t_status]. intros Hr. destruct (Hstk Hr) as (q & -> & Hq).
    intros f h Hin Hb. cbn [t_stack t_prog t_cmdi] in *. destruct Hin as [<-|Hin].
    + rewrite (quiet_tgt_bottom_dst _ Hq) in Hb. discriminate Hb.
    + apply (pi_dst _ _ PI t Hr0 f h); [rewrite Hst; right; exact Hin|exact Hb].
  - intros t' h. rewrite Hhnd. destruct (N.eq_dec t' t) as [->|Hne]; [|rewrite Hother by exact Hne; apply PI].
    rewrite Hself. cbn [t_status t_prog]. intros Hr Hin Hh. destruct (Hstk Hr) as (q & -> & Hq).
    pose proof (pi_hnd _ _ PI t h Hr0 Hin Hh) as Hc.
    unfold cur_env in *. cbn [t_stack t_prog t_cmdi]. rewrite Hst in Hc. exact Hc.
  - intros t' a h h2. rewrite Hhnd. destruct (N.eq_dec t' t) as [->|Hne]; [|rewrite Hother by exact Hne; apply PI].
    rewrite Hself. cbn [t_status t_prog t_stack t_cmdi]. intros Hr Hin Hc. destruct (Hstk Hr) as (q & -> & Hq).
    apply (pi_clone _ _ PI t a h h2 Hr0); [|exact Hc].
    rewrite Hst. right. destruct Hin as [E|Hin]; [|exact Hin].
    exfalso. exact (quiet_tgt_not_clone q a Hq (eq_sym E)).
Qed.

Theorem step_stale2_PInv progs cf s t x :
  handles_disjoint progs -> PInv progs s -> PInv progs (fst (step_stale2 cf s t x)).
Proof.
  intros HD PI.
  destruct (step_stale2_shapeS cf s t x) as [E|p rest l1 q Hr Hst Hp Hq Hg E|p rest l1 Hr Hst Hp Hg E]; rewrite E.
  - apply step_PInv; assumption.
  - eapply retopS_PInv; try eassumption. intros _. exists q. split; [reflexivity|exact Hq].
  - eapply retopS_PInv; try eassumption. discriminate.
Qed.

Theorem run_stale2_PInv progs cf : forall sched s,
  handles_disjoint progs -> PInv progs s -> PInv progs (run_state_stale2 cf s sched).
Proof.
  induction sched as [|[t x] sched IH]; intros s HD PI; [exact PI|].
  rewrite run_state_stale2_cons. apply IH; [exact HD|]. apply step_stale2_PInv; assumption.
Qed.

(** ** The two program hypotheses hold in every state of every run of [step_stale2] *)
Theorem progs_wf_PInv_stale2 progs : progs_wf progs ->
  forall cf inits sched, PInv progs (run_state_stale2 cf (init_state inits progs) sched).
Proof. intros [HD _] cf inits sched. apply run_stale2_PInv; [exact HD|apply PInv_init]. Qed.

Theorem progs_wf_DstEmpty_stale2 progs : progs_wf progs ->
  forall cf inits sched, DstEmpty (run_state_stale2 cf (init_state inits progs) sched).
Proof.
  intros W cf inits sched. apply (PInv_DstEmpty progs); [apply W|apply progs_wf_PInv_stale2; exact W].
Qed.

Theorem progs_wf_CloneSrcCmd_stale2 progs : progs_wf progs ->
  forall cf inits sched, CloneSrcCmd (run_state_stale2 cf (init_state inits progs) sched).
Proof. intros W cf inits sched. apply (PInv_CloneSrcCmd progs). apply progs_wf_PInv_stale2. exact W. Qed.
