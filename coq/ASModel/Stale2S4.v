(** * ASModel.Stale2S4 — runs of [step_stale2] described by static hypotheses ([RunStaticS2], the
    counterpart of [ProgWF.RunStatic]): initial values, program text ([progs_ok], [progs_wf]),
    length of the schedule; the only hypotheses on the states of the run are the two conditions
    on the scheduler's choices, [alloc_ok] (the allocator hands out a free, valid address) and
    [stale2_ok] (a stale value the memory model permits).  The headline theorems. *)
From Coq Require Import Lia.
From ASModel Require Import Base State Orderings_gen Step Run Progress Hist Inv InvTl InvProto InvStep Sum StepCases.
From ASModel Require Import GenDefs Gen1 Gen2 Gen AccDefs Acc LinDefs Lin Safe2 Safe8 Safe Main GenLen.
From ASModel Require Import ProgWF1 ProgWF2 ProgWF3 ProgWF.
From ASModel Require Import Stale Stale2 Stale2Inv6 Stale2Inv8 Stale2Inv12 Stale2S1 Stale2S2 Stale2S3.

Record RunStaticS2 (cf : config) (inits : list N) (progs : list (list cmd)) (sched : list (N * N)) : Prop := {
  rs2_inits : inits_ok inits;
  rs2_progs : progs_ok progs;
  rs2_wf : progs_wf progs;
  rs2_len : 4 * N.of_nat (length sched) + 4 < WORD;
  rs2_alloc : forall k t x, nth_error sched k = Some (t, x) ->
                            alloc_ok (StS2 cf (init_state inits progs) sched k) t x;
  rs2_stale : forall k t x, nth_error sched k = Some (t, x) ->
                            stale2_ok (StS2 cf (init_state inits progs) sched k) t x;
}.

Theorem RunStaticS2_RunOKLenS2 cf inits progs sched :
  RunStaticS2 cf inits progs sched -> RunOKLenS2 cf inits progs sched.
Proof.
  intros [Hi Hp Hw Hl Ha Ht]. constructor; try assumption.
  intros k. cbn zeta. unfold StS2. split; [apply progs_wf_DstEmpty_stale2|apply progs_wf_CloneSrcCmd_stale2]; exact Hw.
Qed.

Corollary RunStaticS2_RunOKS2 cf inits progs sched :
  RunStaticS2 cf inits progs sched -> RunOKS2 cf inits progs sched.
Proof. intros R. apply RunOKLenS2_RunOKS2. apply RunStaticS2_RunOKLenS2. exact R. Qed.

Corollary RunStaticS2_Master cf inits progs sched :
  RunStaticS2 cf inits progs sched -> forall k, Master (StS2 cf (init_state inits progs) sched k).
Proof. intros R. apply RunOKLenS2_Master. apply RunStaticS2_RunOKLenS2. exact R. Qed.

(** With the boolean checker of [ProgWF] and the bound [2^61] on the length. *)
Corollary RunStaticS2_of_checker cf inits progs sched :
  inits_ok inits -> progs_ok progs -> progs_wf_b progs = true -> N.of_nat (length sched) < 2 ^ 61 ->
  (forall k t x, nth_error sched k = Some (t, x) -> alloc_ok (StS2 cf (init_state inits progs) sched k) t x) ->
  (forall k t x, nth_error sched k = Some (t, x) -> stale2_ok (StS2 cf (init_state inits progs) sched k) t x) ->
  RunStaticS2 cf inits progs sched.
Proof.
  intros Hi Hp Hw Hl Ha Ht. constructor; try assumption.
  - apply progs_wf_b_sound. exact Hw.
  - change WORD with (4 * 2 ^ 61 + 4 * 2 ^ 61). change (2 ^ 61) with 2305843009213693952 in *. lia.
Qed.

(** A run of [step] is a run of [step_stale2] whose choices are all below 2; for such a schedule
    [stale2_ok] holds by itself. *)
Lemma stale2_ok_lt2 s t x : x < 2 -> stale2_ok s t x.
Proof. intros H H2. lia. Qed.

(** ** The headline theorems *)
Theorem C01_no_use_after_free_stale2_static cf inits progs sched :
  RunStaticS2 cf inits progs sched ->
  NoFault (run_state_stale2 cf (init_state inits progs) sched) /\
  forall te, In te (snd (run_stale2 cf (init_state inits progs) sched)) ->
    forall a, ~ In (EvFault (FDeadInc a)) (snd te) /\ ~ In (EvFault (FDeadDec a)) (snd te).
Proof. intros R. apply C01_no_use_after_free_stale2_len. apply RunStaticS2_RunOKLenS2. exact R. Qed.

Corollary C01_no_fault_stale2_prefix_static cf inits progs sched k :
  RunStaticS2 cf inits progs sched -> NoFault (StS2 cf (init_state inits progs) sched k).
Proof. intros R. apply C01_no_fault_stale2_prefix_len. apply RunStaticS2_RunOKLenS2. exact R. Qed.

Theorem C02_accounting_stale2_static cf inits progs sched :
  RunStaticS2 cf inits progs sched -> Acc (run_state_stale2 cf (init_state inits progs) sched).
Proof. intros R. apply C02_accounting_stale2_len. apply RunStaticS2_RunOKLenS2. exact R. Qed.

Theorem C03_load_linearizable_stale2_static cf inits progs sched :
  RunStaticS2 cf inits progs sched ->
  let s0 := init_state inits progs in
  forall t i cm c h pa pb xa tb xb,
  nth_error (t_prog (thr s0 t)) (N.to_nat i) = Some cm -> is_load_of cm c h ->
  (pa <= pb)%nat ->
  nth_error sched pa = Some (t, xa) ->
  t_status (thr (StS2 cf s0 sched pa) t) = Running -> t_stack (thr (StS2 cf s0 sched pa) t) = [] ->
  t_cmdi (thr (StS2 cf s0 sched pa) t) = i ->
  nth_error sched pb = Some (tb, xb) ->
  t_cmdi (thr (StS2 cf s0 sched pb) t) = i -> t_cmdi (thr (StS2 cf s0 sched (S pb)) t) = i + 1 ->
  exists v, (match cm with
             | CLoad _ _ => exists d, hnd (StS2 cf s0 sched (S pb)) h = HGuard v d
             | _ => hnd (StS2 cf s0 sched (S pb)) h = HOwned v
             end) /\
    exists k, (pa + 1 <= k <= pb + 1)%nat /\ mem (sh (StS2 cf s0 sched k)) (LStore c) = v.
Proof.
  intros R s0. apply (C03_load_linearizable_stale2_len cf inits progs sched (RunStaticS2_RunOKLenS2 _ _ _ _ R)).
Qed.

Theorem C12_load_own_container_stale2_static cf inits progs sched :
  RunStaticS2 cf inits progs sched ->
  let s0 := init_state inits progs in
  forall t i c h (full : bool) pa pb xa tb xb,
  nth_error (t_prog (thr s0 t)) (N.to_nat i) = Some (if full then CLoadFull c h else CLoad c h) ->
  (pa <= pb)%nat ->
  nth_error sched pa = Some (t, xa) ->
  t_status (thr (StS2 cf s0 sched pa) t) = Running -> t_stack (thr (StS2 cf s0 sched pa) t) = [] ->
  t_cmdi (thr (StS2 cf s0 sched pa) t) = i ->
  nth_error sched pb = Some (tb, xb) ->
  t_cmdi (thr (StS2 cf s0 sched pb) t) = i -> t_cmdi (thr (StS2 cf s0 sched (S pb)) t) = i + 1 ->
  exists v k, handle_ptr (hnd (StS2 cf s0 sched (S pb)) h) = Some v /\
              (pa + 1 <= k <= pb + 1)%nat /\ mem (sh (StS2 cf s0 sched k)) (LStore c) = v.
Proof.
  intros R s0. apply (C12_load_own_container_stale2_len cf inits progs sched (RunStaticS2_RunOKLenS2 _ _ _ _ R)).
Qed.
