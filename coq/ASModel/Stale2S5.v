(** * ASModel.Stale2S5 — [RunStaticS2] generalises [ProgWF.RunStatic]: a schedule whose choices
    are all below 2 never asks for a stale value, its run of [step_stale2] is the run of [step],
    [stale2_ok] holds by itself, and [RunStatic] gives [RunStaticS2]. *)
From Coq Require Import Lia.
From ASModel Require Import Base State Orderings_gen Step Run Progress Hist Inv InvTl InvProto InvStep Sum StepCases.
From ASModel Require Import Gen Safe Main GenLen ProgWF.
From ASModel Require Import Stale Stale2 Stale2Inv6 Stale2Inv8 Stale2S4.

Definition fresh_sched (sched : list (N * N)) : Prop := Forall (fun tx => snd tx < 2) sched.

Lemma run_state_stale2_fresh cf : forall sched s,
  fresh_sched sched -> run_state_stale2 cf s sched = run_state cf s sched.
Proof.
  induction sched as [|[t x] sched IH]; intros s H; [reflexivity|].
  inversion H as [|? ? Hx Hrest]; subst. cbn [snd] in Hx.
  rewrite run_state_stale2_cons, run_state_cons, (step_stale2_lt2 cf s t x Hx). apply IH. exact Hrest.
Qed.

Lemma fresh_sched_firstn k : forall sched, fresh_sched sched -> fresh_sched (firstn k sched).
Proof.
  induction k as [|k IH]; intros [|tx sched] H; cbn [firstn]; try constructor.
  - inversion H; assumption.
  - apply IH. inversion H; assumption.
Qed.

Lemma StS2_fresh cf s0 sched k : fresh_sched sched -> StS2 cf s0 sched k = St cf s0 sched k.
Proof. intros H. unfold StS2, St. apply run_state_stale2_fresh. apply fresh_sched_firstn. exact H. Qed.

Theorem RunStatic_RunStaticS2 cf inits progs sched :
  fresh_sched sched -> RunStatic cf inits progs sched -> RunStaticS2 cf inits progs sched.
Proof.
  intros Hf [Hi Hp Hw Hl Ha]. constructor; try assumption.
  - intros k t x Hk. rewrite (StS2_fresh _ _ _ _ Hf). apply Ha. exact Hk.
  - intros k t x Hk. apply stale2_ok_lt2.
    pose proof (proj1 (Forall_forall _ _) Hf (t, x) (nth_error_In _ _ Hk)) as H. exact H.
Qed.
