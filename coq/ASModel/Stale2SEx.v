(** * ASModel.Stale2SEx — the static scope [RunStaticS2] is inhabited by a run with stale loads:
    the run [sx2] of [Stale2InvEx.v] (a stale `in_use` look, a stale head read, a stale slot scan). *)
From ASModel Require Import Base State Step Run ProgWF Stale2 Stale2Inv Stale2S.

Lemma sx2_progs_wf_b : progs_wf_b sx2_progs = true.
Proof. vm_compute. reflexivity. Qed.

Lemma sx2_len : N.of_nat (length sx2_sched) < 2 ^ 61.
Proof. vm_compute. reflexivity. Qed.

Example RunStaticS2_example : RunStaticS2 sx2_cf sx2_inits sx2_progs sx2_sched.
Proof.
  apply RunStaticS2_of_checker.
  - exact (ros2_inits _ _ _ _ RunOKS2_example).
  - exact (ros2_progs _ _ _ _ RunOKS2_example).
  - exact sx2_progs_wf_b.
  - exact sx2_len.
  - exact (ros2_alloc _ _ _ _ RunOKS2_example).
  - exact (ros2_stale _ _ _ _ RunOKS2_example).
Qed.

Print Assumptions RunStaticS2_example.
