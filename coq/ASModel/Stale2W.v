(** * ASModel.Stale2W — the theorems about the WRITE operations and about guards for runs of
    [Stale2.step_stale2] within [Stale2Inv8.RunOKS2].

    [step_stale2] answers four loads the protocol does not trust with values of the scheduler
    ([LA1] first read of the fast path, [LAscan] slot scan, [GCool1] look at [in_use], [GPush0]
    head read).  compare_and_swap and [rcu] load the current value first (through the same fast
    path), and [pay_all] of every writer calls [Node::get]; so the run-level theorems of
    [LinCasMain] (C05, C06), [LinSwapMain] (C04), [Main] (C10) and [Alive] are affected by the
    weakening.  They hold for runs of [step_stale2], with the same conclusions:

    - every step of [step_stale2] is the step of [step] or a "quiet" step: the top frame is one of
      the four loads; memory, handles, command index and the other threads are untouched; the
      frame is replaced by a frame of the read path / of [Node::get] that carries no value; the
      step is the frame step [exec] in a memory that holds the supplied value at the location
      read ([Stale2W3.step_stale2_cases3]);
    - the zone lemmas of the writers ([LinCas3.casz_step], [LinCasR3.rcuz_step],
      [LinSwap1.swapz_step], [LinSwap4.store_zstep]) are stated for [exec] in an arbitrary memory:
      they cover the quiet step unchanged; the state-level lemma of compare_and_swap
      ([LinCas4.cas_exec], freshness of the value a failed compare_and_swap returns) is re-proved
      for the quiet step ([Stale2W7.cas_exec_s2]: the new frame carries no value);
    - a step of [step_stale2] has the write events of the step of [step]
      ([Stale2W4.step_stale2_writes]) and the same memory and handles ([Stale2Inv9]).

    Files: Stale2W1 (C10, Alive), W2-W3 (quiet steps, runs), W4 (write events: [step_w2], [wsum2],
    [no_write_s2], [one_write_s2]), W5 ([LinSwap2.ZoneRun] for stale runs), W6/W12 (swap, store,
    removed values), W7-W9 (compare_and_swap), W10-W11 (rcu), W13 (chain of writes), WEx (examples:
    the theorems applied to runs with stale loads inside compare_and_swap, rcu and store).

    Changes of statement w.r.t. the [_runok] theorems: the states are [StS2] (runs of
    [step_stale2]); [one_write] / [no_write] / [made_to] / [released_once] / [swap_call] and the
    trace are their counterparts over [step_stale2] ([one_write_s2], [no_write_s2], [made_to_s2],
    [released_once_s2], [swap_call_s2], [run_stale2]); the hypothesis "no program calls
    [set_generation]" is dropped (it is part of [RunOKS2], [ros2_progs]).  No extra hypothesis. *)
From ASModel Require Import Base State Step Run Hist StepCases Gen AccDefs LinDefs Safe Main Alive LinCasR1.
From ASModel Require Import Stale2 Stale2Inv6 Stale2Inv8.
From ASModel Require Export Stale2W1 Stale2W2 Stale2W3 Stale2W4 Stale2W5 Stale2W6 Stale2W7 Stale2W8 Stale2W9
  Stale2W10 Stale2W11 Stale2W12 Stale2W13 Stale2WEx.

(** ** C05, C06 *)
Check cas_linearizable_stale2
  : forall cf inits progs sched t i c cur new h2 a b pa pb xa tb xb,
    let s0 := init_state inits progs in
    let St := fun k => StS2 cf s0 sched k in
    RunOKS2 cf inits progs sched ->
    nth_error (t_prog (thr s0 t)) (N.to_nat i) = Some (CCas c cur new h2) ->
    (pa <= pb)%nat ->
    nth_error sched pa = Some (t, xa) ->
    t_status (thr (St pa) t) = Running -> t_stack (thr (St pa) t) = [] -> t_cmdi (thr (St pa) t) = i ->
    cmd_enabled (St pa) (CCas c cur new h2) = true ->
    src_val (St pa) cur = Some a -> src_val (St pa) new = Some b ->
    nth_error sched pb = Some (tb, xb) ->
    t_cmdi (thr (St pb) t) = i -> t_cmdi (thr (St (S pb)) t) = i + 1 ->
    exists p d, hnd (St (S pb)) h2 = HGuard p d /\
      ((p <> a /\
        (exists j, (pa + 1 <= j <= pb + 1)%nat /\ mem (sh (St j)) (LStore c) = p) /\
        no_write_s2 cf s0 sched t c pa pb)
       \/ (p = a /\ exists j, one_write_s2 cf s0 sched t c a b pa pb j)).
Check rcu_linearizable_stale2
  : forall cf inits progs sched t i c m h2 pa pb xa tb xb,
    let s0 := init_state inits progs in
    let St := fun k => StS2 cf s0 sched k in
    RunOKS2 cf inits progs sched ->
    nth_error (t_prog (thr s0 t)) (N.to_nat i) = Some (CRcu c m h2) -> nonpanic m = true ->
    (pa <= pb)%nat ->
    nth_error sched pa = Some (t, xa) ->
    t_status (thr (St pa) t) = Running -> t_stack (thr (St pa) t) = [] -> t_cmdi (thr (St pa) t) = i ->
    nth_error sched pb = Some (tb, xb) ->
    t_cmdi (thr (St pb) t) = i -> t_cmdi (thr (St (S pb)) t) = i + 1 ->
    exists q nw j, hnd (St (S pb)) h2 = HOwned q /\
      one_write_s2 cf s0 sched t c q nw pa pb j /\
      rcu_new (made_to_s2 cf s0 sched t pa (S pb)) m q nw.

(** ** C04 *)
Check swap_linearizable_stale2
  : forall cf inits progs sched t i c v h2 b pa pb xa tb xb,
    let s0 := init_state inits progs in
    let St := fun k => StS2 cf s0 sched k in
    RunOKS2 cf inits progs sched ->
    nth_error (t_prog (thr s0 t)) (N.to_nat i) = Some (CSwap c v h2) ->
    (pa <= pb)%nat ->
    nth_error sched pa = Some (t, xa) ->
    t_status (thr (St pa) t) = Running -> t_stack (thr (St pa) t) = [] -> t_cmdi (thr (St pa) t) = i ->
    cmd_enabled (St pa) (CSwap c v h2) = true ->
    src_val (St pa) v = Some b ->
    nth_error sched pb = Some (tb, xb) ->
    t_cmdi (thr (St pb) t) = i -> t_cmdi (thr (St (S pb)) t) = i + 1 ->
    exists old j, hnd (St (S pb)) h2 = HOwned old /\ one_write_s2 cf s0 sched t c old b pa pb j.
Check store_linearizable_stale2
  : forall cf inits progs sched t i c v b pa pb xa tb xb,
    let s0 := init_state inits progs in
    let St := fun k => StS2 cf s0 sched k in
    RunOKS2 cf inits progs sched ->
    nth_error (t_prog (thr s0 t)) (N.to_nat i) = Some (CStore c v) ->
    (pa <= pb)%nat ->
    nth_error sched pa = Some (t, xa) ->
    t_status (thr (St pa) t) = Running -> t_stack (thr (St pa) t) = [] -> t_cmdi (thr (St pa) t) = i ->
    cmd_enabled (St pa) (CStore c v) = true ->
    src_val (St pa) v = Some b ->
    nth_error sched pb = Some (tb, xb) ->
    t_cmdi (thr (St pb) t) = i -> t_cmdi (thr (St (S pb)) t) = i + 1 ->
    tb = t /\ exists old j, one_write_s2 cf s0 sched t c old b pa pb j /\ released_once_s2 cf s0 sched t old pa pb j xb.
Check every_removed_value_returned_stale2
  : forall cf inits progs sched c t old new,
    let s0 := init_state inits progs in
    let St := fun k => StS2 cf s0 sched k in
    RunOKS2 cf inits progs sched ->
    In (t, old, new) (writes_of_trace c (snd (run_stale2 cf s0 sched))) ->
    exists j x, nth_error sched j = Some (t, x) /\
      In (old, new) (writes_in c (snd (step_stale2 cf (St j) t x))) /\
      forall i v h2 b pa pb, swap_call_s2 cf s0 sched t i c v h2 b pa pb -> (pa <= j <= pb)%nat ->
        new = b /\ hnd (St (S pb)) h2 = HOwned old.
Check one_write_chain_stale2.

(** ** C10, Alive *)
Check C10_guard_keeps_identity_stale2
  : forall cf s t x h a,
    GenBound s -> ProgOK s -> alloc_ok s t x -> stale2_ok s t x -> Master s ->
    (hnd s h = HOwned a \/ exists d, hnd s h = HGuard a d) -> valid a ->
    hnd (fst (step_stale2 cf s t x)) h = hnd s h ->
    heap (sh (fst (step_stale2 cf s t x))) a = heap (sh s) a /\ heap (sh s) a <> None.
Check C10_every_state_stale2
  : forall cf inits progs sched, RunOKS2 cf inits progs sched ->
      forall k, Master (StS2 cf (init_state inits progs) sched k).
Check C10_guard_keeps_value_stale2.
Check C10_guard_keeps_identity_run_stale2.
Check frame_guard_alive_stale2.
Check frame_guard_identity_stale2
  : forall cf s t t' x p v d,
    GenBound s -> ProgOK s -> alloc_ok s t' x -> stale2_ok s t' x -> Master s ->
    In p (t_stack (thr s t)) -> In p (t_stack (thr (fst (step_stale2 cf s t' x)) t)) ->
    guard_frame p = Some (v, d) -> valid v ->
    heap (sh (fst (step_stale2 cf s t' x))) v = heap (sh s) v /\ heap (sh s) v <> None.
Check cas_current_identity_stale2
  : forall cf s t t' x c cur new p d,
    GenBound s -> ProgOK s -> alloc_ok s t' x -> stale2_ok s t' x -> Master s ->
    In (K1 c cur new p d) (t_stack (thr s t)) -> valid cur ->
    p = cur /\ heap (sh s) cur <> None /\
    (In (K1 c cur new p d) (t_stack (thr (fst (step_stale2 cf s t' x)) t)) ->
     heap (sh (fst (step_stale2 cf s t' x))) cur = heap (sh s) cur).

(** ** Examples *)
Check RunOKS2_example_z : RunOKS2 sz2_cf sz2_inits sz2_progs sz2_sched.
Check sz2_stale_frames.
Check sz2_cas.
Check sz2_rcu.
Check sz2_swap.
Check sx2_store.

Print Assumptions cas_linearizable_stale2.
Print Assumptions rcu_linearizable_stale2.
Print Assumptions swap_linearizable_stale2.
Print Assumptions store_linearizable_stale2.
Print Assumptions every_removed_value_returned_stale2.
Print Assumptions one_write_chain_stale2.
Print Assumptions C10_guard_keeps_identity_stale2.
Print Assumptions C10_every_state_stale2.
Print Assumptions C10_guard_keeps_value_stale2.
Print Assumptions C10_guard_keeps_identity_run_stale2.
Print Assumptions frame_guard_alive_stale2.
Print Assumptions frame_guard_identity_stale2.
Print Assumptions cas_current_identity_stale2.
Print Assumptions step_stale2_cases3.
Print Assumptions RunOKS2_example_z.
Print Assumptions sz2_cas.
Print Assumptions sz2_rcu.
Print Assumptions sz2_swap.
Print Assumptions sx2_store.
