(** * ASModel.Stale2W1 — C10 and the guard-in-frame theorems of [Alive] for a step of
    [Stale2.step_stale2] (stale loads at [LA1], [LAscan], [GCool1], [GPush0]).

    A step of [step_stale2] leaves the same shared memory and the same handle table as the step
    of [step] ([Stale2Inv9.step_stale2_sh], [step_stale2_hnd]) and preserves [Master]
    ([Stale2Inv6.step_stale2_Master]); so the object behind a guard, an owned handle or a guard
    held in a frame is alive and keeps its identity over such a step as well. *)
From Coq Require Import Lia.
From ASModel Require Import Base State Orderings_gen Step Run Progress Hist Inv InvTl InvProto InvStep Sum StepCases.
From ASModel Require Import GenDefs Gen1 Gen2 Gen EnvDefs Env4 Env AccDefs Acc ProtDefs Prot11 Typed Safe1 Safe2 Safe8 Safe Main Alive.
From ASModel Require Import Stale Stale2 Stale2Inv6 Stale2Inv8 Stale2Inv9.

Lemma step_stale2_heap cf s t x : heap_stable (sh s) (sh (fst (step_stale2 cf s t x))).
Proof. rewrite step_stale2_sh. apply step_heap. Qed.

(** ** C10 *)
Theorem C10_guard_keeps_identity_stale2 cf s t x h a :
  GenBound s -> ProgOK s -> alloc_ok s t x -> stale2_ok s t x -> Master s ->
  (hnd s h = HOwned a \/ exists d, hnd s h = HGuard a d) -> valid a ->
  hnd (fst (step_stale2 cf s t x)) h = hnd s h ->
  heap (sh (fst (step_stale2 cf s t x))) a = heap (sh s) a /\ heap (sh s) a <> None.
Proof.
  intros GB PO AO SO M Hh Ha Hsame. rewrite step_stale2_sh. rewrite step_stale2_hnd in Hsame.
  exact (C10_guard_keeps_identity cf s t x h a GB PO AO M Hh Ha Hsame).
Qed.

(** [Master] - hence [C10_guard_keeps_value] - in every state of a run of [step_stale2]. *)
Theorem C10_every_state_stale2 cf inits progs sched :
  RunOKS2 cf inits progs sched -> forall k, Master (StS2 cf (init_state inits progs) sched k).
Proof. exact (run_stale2_Master cf inits progs sched). Qed.

Theorem C10_guard_keeps_value_stale2 cf inits progs sched k h a :
  RunOKS2 cf inits progs sched ->
  let s := StS2 cf (init_state inits progs) sched k in
  (hnd s h = HOwned a \/ exists d, hnd s h = HGuard a d) -> valid a -> heap (sh s) a <> None.
Proof. intros R s Hh Ha. exact (C10_guard_keeps_value s h a (run_stale2_Master _ _ _ _ R k) Hh Ha). Qed.

(** Along a run: over the step at position [k]. *)
Theorem C10_guard_keeps_identity_run_stale2 cf inits progs sched k t x h a :
  RunOKS2 cf inits progs sched -> nth_error sched k = Some (t, x) ->
  let St := StS2 cf (init_state inits progs) sched in
  (hnd (St k) h = HOwned a \/ exists d, hnd (St k) h = HGuard a d) -> valid a ->
  hnd (St (S k)) h = hnd (St k) h ->
  heap (sh (St (S k))) a = heap (sh (St k)) a /\ heap (sh (St k)) a <> None.
Proof.
  intros R Hk St Hh Ha Hsame. subst St. cbn beta in *. rewrite (StS2_step _ _ _ _ _ _ Hk) in *.
  apply (C10_guard_keeps_identity_stale2 cf _ t x h a); try assumption.
  - apply (ros2_state _ _ _ _ R k).
  - apply RunOKS2_ProgOK. exact R.
  - apply (ros2_alloc _ _ _ _ R k t x Hk).
  - apply (ros2_stale _ _ _ _ R k t x Hk).
  - apply run_stale2_Master. exact R.
Qed.

(** ** [Alive]: a guard held in a frame *)
Theorem frame_guard_identity_stale2 cf s t t' x p v d :
  GenBound s -> ProgOK s -> alloc_ok s t' x -> stale2_ok s t' x -> Master s ->
  In p (t_stack (thr s t)) -> In p (t_stack (thr (fst (step_stale2 cf s t' x)) t)) ->
  guard_frame p = Some (v, d) -> valid v ->
  heap (sh (fst (step_stale2 cf s t' x))) v = heap (sh s) v /\ heap (sh s) v <> None.
Proof.
  intros GB PO AO SO M Hin Hin' Hg Hv.
  pose proof (step_stale2_Master cf s t' x GB PO AO SO M) as M'.
  pose proof (frame_guard_alive s t p v d M Hin Hg Hv) as H1.
  pose proof (frame_guard_alive _ t p v d M' Hin' Hg Hv) as H2.
  split; [|exact H1].
  destruct (heap (sh s) v) as [o|] eqn:E1; [|congruence].
  destruct (heap (sh (fst (step_stale2 cf s t' x))) v) as [o'|] eqn:E2; [|congruence].
  f_equal. symmetry. exact (step_stale2_heap cf s t' x v o o' E1 E2).
Qed.

Theorem cas_current_identity_stale2 cf s t t' x c cur new p d :
  GenBound s -> ProgOK s -> alloc_ok s t' x -> stale2_ok s t' x -> Master s ->
  In (K1 c cur new p d) (t_stack (thr s t)) -> valid cur ->
  p = cur /\ heap (sh s) cur <> None /\
  (In (K1 c cur new p d) (t_stack (thr (fst (step_stale2 cf s t' x)) t)) ->
   heap (sh (fst (step_stale2 cf s t' x))) cur = heap (sh s) cur).
Proof.
  intros GB PO AO SO M Hin Hv.
  pose proof (cas_frame_current s t c cur new p d (m_prot _ M) Hin) as ->.
  split; [reflexivity|]. split.
  - exact (frame_guard_alive s t _ cur d M Hin eq_refl Hv).
  - intros Hin'. exact (proj1 (frame_guard_identity_stale2 cf s t t' x _ cur d GB PO AO SO M Hin Hin' eq_refl Hv)).
Qed.

(** In every state of a run of [step_stale2] a guard held in a frame protects a live object. *)
Theorem frame_guard_alive_stale2 cf inits progs sched k t p v d :
  RunOKS2 cf inits progs sched ->
  let s := StS2 cf (init_state inits progs) sched k in
  In p (t_stack (thr s t)) -> guard_frame p = Some (v, d) -> valid v -> heap (sh s) v <> None.
Proof. intros R s Hin Hg Hv. exact (frame_guard_alive s t p v d (run_stale2_Master _ _ _ _ R k) Hin Hg Hv). Qed.
