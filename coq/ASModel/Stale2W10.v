(** * ASModel.Stale2W10 — C06: the zone of a [CRcu] command along a run of [step_stale2] within
    [RunOKS2] ([LinCasR4] for [StS2]). *)
From Coq Require Import Lia.
From ASModel Require Import Base State Orderings_gen Step Run Progress Hist Inv InvTl InvProto InvStep Sum StepCases
  GenDefs Gen1 Gen2 Gen3 Gen Typed1 EnvDefs LinDefs
  Lin1 Lin2 Lin3 Lin4 Lin5 Lin6 Lin7 Lin8 Lin9 Lin10 Lin11 Lin12 Lin13 Lin14 Lin
  LinCache1 LinCache2 LinCache3 LinCache4 LinCache5 LinCache6 LinCache Env
  LinCas1 LinCas2 LinCas3 LinCas4 LinCas5 LinCasR1 LinCasR2 LinCasR3 LinCasR4 Main.
From ASModel Require Import Stale Stale2 Stale2Inv4 Stale2Inv6 Stale2Inv8 Stale2Inv9 Stale2W2 Stale2W3 Stale2W4 Stale2W5.

(** A weakened load allocates nothing. *)
Lemma exec_site_noalloc cf s l p x s1 l1 evs nx :
  stale_site p = true -> exec cf s l p x = (s1, l1, evs, nx) -> forall a oid, ~ In (EvAlloc a oid) evs.
Proof.
  intros Hp He. destruct p; try discriminate Hp; exec_norm He; intros a oid [H|[]]; discriminate H.
Qed.

(** Step [j] of the schedule is a step of [t] with an allocation event for [v] ... *)
Definition alloc_at_s2 cf s0 sched (t : N) (j : nat) (v : N) : Prop :=
  exists x oid, nth_error sched j = Some (t, x) /\ In (EvAlloc v oid) (snd (step_stale2 cf (StS2 cf s0 sched j) t x)).
(** ... one of the steps [pa] .. [k - 1]. *)
Definition made_to_s2 cf s0 sched (t : N) (pa k : nat) (v : N) : Prop :=
  exists j, (pa <= j < k)%nat /\ alloc_at_s2 cf s0 sched t j v.

Lemma made_to_s2_mono cf s0 sched t pa j k v :
  (j <= k)%nat -> made_to_s2 cf s0 sched t pa j v -> made_to_s2 cf s0 sched t pa k v.
Proof. intros H (j0 & Hj & Ha0). exists j0. split; [lia|exact Ha0]. Qed.

Section Run2.
  Variables (cf : config) (inits : list N) (progs : list (list cmd)) (sched : list (N * N)).
  Local Notation s0 := (init_state inits progs).
  Hypothesis R : RunOKS2 cf inits progs sched.
  Local Notation St k := (StS2 cf s0 sched k).
  Local Notation W k := (wsum2 cf s0 sched k).

  Variables (t i c : N) (m : rcu_mode) (h2 : N) (pa : nat) (xa : N).
  Hypotheses (Hcm : nth_error (t_prog (thr s0 t)) (N.to_nat i) = Some (CRcu c m h2))
             (Hm : nonpanic m = true)
             (Ha : nth_error sched pa = Some (t, xa))
             (Hra : t_status (thr (St pa) t) = Running) (Hsa : t_stack (thr (St pa) t) = [])
             (Hia : t_cmdi (thr (St pa) t) = i).
  Local Notation tl := [KDone (Some h2)].
  Local Notation made k := (made_to_s2 cf s0 sched t pa k).

  Lemma rcu_started_s2 :
    RcuZ (made (S pa)) m c tl [] (t_stack (thr (St (S pa)) t)) /\
    t_cmdi (thr (St (S pa)) t) = i /\ step_w2 cf s0 sched t c pa = [].
  Proof.
    pose proof (StS2_step cf s0 sched pa t xa Ha) as Ea. rewrite (step_stale2_idle cf _ t xa Hsa) in Ea.
    assert (Hc0 : cur_cmd (St pa) t = Some (CRcu c m h2)) by (unfold cur_cmd; rewrite StS2_prog, Hia; exact Hcm).
    assert (Hw : step_w2 cf s0 sched t c pa = []).
    { unfold step_w2. rewrite Ha, N.eqb_refl. apply step_stale2_writes_idle. right. exact Hsa. }
    destruct (step_cases2 cf (St pa) t xa) as [Hr E|c0 Hr Hs Hcc0 Hen0 E|c0 s1 l1 stk r Hr Hs Hcc0 Hen0 Hcs E|n Hr Hs Hcc0 Hn E|Hr Hs Hcc0 Hn E|p rest s1 l1 evs nx Hr Hs He E];
      try congruence.
    - rewrite Hc0 in Hcc0. injection Hcc0 as <-. discriminate Hen0.
    - rewrite Hc0 in Hcc0. injection Hcc0 as <-.
      pose proof (cmd_start_rcu cf _ _ _ _ _ _ _ _ _ (made (S pa)) Hcs) as Z.
      destruct (RcuZ_tail _ _ _ _ _ _ Z) as (pre & Hpre & Hne).
      assert (Hstk : t_stack (thr (St (S pa)) t) = stk).
      { rewrite Ea, E. cbn [thr set_thread]. rewrite upd_same. apply start_thread_stack. }
      split; [rewrite Hstk; exact Z|]. split; [|exact Hw].
      rewrite Ea, E. cbn [thr set_thread]. rewrite upd_same. destruct stk; [|exact Hia].
      destruct pre; [congruence|discriminate Hpre].
  Qed.

  (** A frame step of [t] in a state of the zone. *)
  Lemma rcu_exec_s2 j x0 wr :
    nth_error sched j = Some (t, x0) -> (pa <= j)%nat ->
    t_status (thr (St j) t) = Running -> RcuZ (made j) m c tl wr (t_stack (thr (St j) t)) ->
    exists p rest s1 l1 evs nx,
      t_stack (thr (St j) t) = p :: rest /\
      St (S j) = mkState s1 (upd (thr (St j)) t (thread_after cf (thr (St j) t) l1 rest nx))
                         (hnd_after cf (hnd (St j)) l1 rest nx) /\
      step_w2 cf s0 sched t c j = writes_in c evs /\
      ((exists l' stk, land cf l1 rest nx = UStack l' stk /\ RcuZ (made (S j)) m c tl (wr ++ writes_in c evs) stk) \/
       (exists l' q nw, land cf l1 rest nx = unwind cf l' tl (ROwned q) /\
                        wr ++ writes_in c evs = [(q, nw)] /\ rcu_new (made (S j)) m q nw)).
  Proof.
    intros Hn Hpj Hrj Zj.
    pose proof (StS2_step cf s0 sched j t x0 Hn) as E.
    pose proof (run_stale2_Master _ _ _ _ R j) as M. pose proof (m_wf _ M) as WF.
    pose proof (m_nofault _ (run_stale2_Master _ _ _ _ R (S j))) as Hnf'. rewrite E in Hnf'.
    destruct (RcuZ_tail _ _ _ _ _ _ Zj) as (pre & Hpre & Hpne).
    assert (Hnil : t_stack (thr (St j) t) <> []) by (rewrite Hpre; destruct pre; [congruence|discriminate]).
    assert (Hmono : forall v, made j v -> made (S j) v) by (intros v; apply made_to_s2_mono; lia).
    destruct (step_stale2_cases3 cf (St j) t x0 WF) as [Esame|p rest l1 e q sm evs' Hr Hs Hsite Hq Hex E2 Hwe Hae].
    - rewrite Esame in E, Hnf'.
      destruct (step_cases2 cf (St j) t x0) as [Hr E2|c0 Hr Hs Hcc0 Hen0 E2|c0 s1 l1 stk r Hr Hs Hcc0 Hen0 Hcs E2|n Hr Hs Hcc0 Hn0 E2|Hr Hs Hcc0 Hn0 E2|p rest s1 l1 evs nx Hr Hs He E2];
        try congruence.
      exists p, rest, s1, l1, evs, nx. split; [exact Hs|]. split; [rewrite E; exact E2|].
      split.
      { unfold step_w2. rewrite Hn, N.eqb_refl, Esame. apply (step_writes_exec cf (St j) t x0 p rest s1 l1 evs nx c Hr Hs He). }
      destruct (ex_top (St j) t WF p rest Hr Hs) as [Hnw _].
      pose proof (land_cases cf (St j) t x0 p rest s1 l1 evs nx WF Hnf' Hr Hs He) as Hlc.
      rewrite Hs in Zj.
      assert (Hal : forall v oid, In (EvAlloc v oid) evs -> made (S j) v).
      { intros v oid Hin. exists j. split; [lia|]. exists x0, oid. split; [exact Hn|].
        rewrite Esame. eapply step_events_exec; eassumption. }
      destruct (rcuz_step cf (made j) (made (S j)) m c tl Hm Hmono
                  (sh (St j)) (t_loc (thr (St j) t)) p rest x0 s1 l1 evs nx _ Zj Hnw He Hal)
        as [H|[H|Hstop]]; [left; exact H|right; exact H|].
      exfalso. destruct (land cf l1 rest nx); contradiction.
    - exists p, rest, (sh (St j)), l1, evs', (NGoto q). split; [exact Hs|].
      split; [rewrite E, E2; reflexivity|].
      assert (Hw0 : writes_in c evs' = []).
      { eapply exec_nowrite; [exact Hex|]. apply pf_not_wfr. apply lfr_pf. apply stale_site_lfr. exact Hsite. }
      split.
      { unfold step_w2. rewrite Hn, N.eqb_refl, E2, Hw0. cbn [snd]. apply writes_in_single. apply Hwe. }
      rewrite Hs in Zj.
      assert (Hal : forall v oid, In (EvAlloc v oid) evs' -> made (S j) v).
      { intros v oid Hin. exfalso. exact (exec_site_noalloc _ _ _ _ _ _ _ _ _ Hsite Hex v oid Hin). }
      destruct (rcuz_step cf (made j) (made (S j)) m c tl Hm Hmono
                  sm (t_loc (thr (St j) t)) p rest x0 sm l1 evs' (NGoto q) _ Zj (stale_site_not_waiting p Hsite) Hex Hal)
        as [H|[H|Hstop]]; [left; exact H|right; exact H|].
      exfalso. exact Hstop.
  Qed.

  Lemma rcu_inv_s2 pb :
    (pb < length sched)%nat ->
    t_cmdi (thr (St pb) t) = i -> t_cmdi (thr (St (S pb)) t) = i + 1 ->
    forall d, (S pa + d <= pb)%nat ->
      RcuZ (made (S pa + d)) m c tl (W t c pa (S d)) (t_stack (thr (St (S pa + d)) t)).
  Proof.
    intros Hlen Hib Hib'. destruct rcu_started_s2 as (Z0 & Hi0 & Hw0).
    induction d as [|d IH]; intros Hd.
    - rewrite Nat.add_0_r. cbn [wsum2]. rewrite Nat.add_0_r, Hw0. exact Z0.
    - specialize (IH ltac:(lia)). rename IH into Z.
      replace (S pa + S d)%nat with (S (S pa + d)) by lia. remember (S pa + d)%nat as j eqn:Hj.
      change (W t c pa (S (S d))) with (W t c pa (S d) ++ step_w2 cf s0 sched t c (pa + S d)).
      replace (pa + S d)%nat with j by lia.
      destruct (nth_error sched j) as [[t0 x0]|] eqn:Hn; [|apply nth_error_None in Hn; lia].
      pose proof (StS2_cmdi_mono cf s0 sched (S pa) j t ltac:(lia)) as M1.
      pose proof (StS2_cmdi_mono cf s0 sched j (S j) t ltac:(lia)) as M2.
      pose proof (StS2_cmdi_mono cf s0 sched (S j) pb t ltac:(lia)) as M3.
      pose proof (StS2_running cf s0 sched t i j pb ltac:(lia) Hib Hib') as Hrj.
      destruct (N.eqb_spec t0 t) as [->|Hne].
      + destruct (rcu_exec_s2 j x0 _ Hn ltac:(lia) Hrj Z)
          as (p & rest & s1 & l1 & evs & nx & Hs & E & Hw & [(l' & stk & EL & Z')|(l' & q & nw & EL & _)]).
        * rewrite Hw. destruct (land_stack cf (thr (St j) t) l1 rest nx l' stk (hnd (St j)) EL) as [Eth _].
          rewrite E. cbn [thr]. rewrite upd_same, Eth. exact Z'.
        * exfalso. cbn in EL.
          destruct (land_done cf (thr (St j) t) l1 rest nx _ _ _ (hnd (St j)) EL) as [Eth _].
          rewrite E in M2, M3. cbn [thr] in M2, M3. rewrite upd_same, Eth in M2, M3. cbn [t_cmdi] in M2, M3. lia.
      + rewrite (step_w2_other cf s0 sched t c j t0 x0 Hn Hne), app_nil_r.
        rewrite (StS2_step cf s0 sched j t0 x0 Hn), step_stale2_other by congruence.
        eapply RcuZ_mono; [|exact Z]. intros v. apply made_to_s2_mono. lia.
  Qed.
End Run2.
