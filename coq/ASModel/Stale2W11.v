(** * ASModel.Stale2W11 — C06 for runs of [step_stale2] within [RunOKS2]: [rcu] is an atomic
    read-modify-write ([LinCasMain.rcu_linearizable_runok] with [StS2] for the states of the run
    and [step_stale2] for its steps: [one_write_s2], [made_to_s2]). *)
From Coq Require Import Lia.
From ASModel Require Import Base State Orderings_gen Step Run Progress Hist Inv InvTl InvProto InvStep Sum StepCases
  GenDefs Gen1 Gen2 Gen3 Gen Typed1 EnvDefs LinDefs
  Lin1 Lin2 Lin3 Lin4 Lin5 Lin6 Lin7 Lin8 Lin9 Lin10 Lin11 Lin12 Lin13 Lin14 Lin
  LinCache1 LinCache2 LinCache3 LinCache4 LinCache5 LinCache6 LinCache Env
  LinCas1 LinCas2 LinCas3 LinCas4 LinCas5 LinCasR1 LinCasR2 LinCasR3 LinCasR4 Main.
From ASModel Require Import Stale Stale2 Stale2Inv4 Stale2Inv6 Stale2Inv8 Stale2Inv9
  Stale2W2 Stale2W3 Stale2W4 Stale2W5 Stale2W10.

Section Run2.
  Variables (cf : config) (inits : list N) (progs : list (list cmd)) (sched : list (N * N)).
  Local Notation s0 := (init_state inits progs).
  Hypothesis R : RunOKS2 cf inits progs sched.
  Local Notation St k := (StS2 cf s0 sched k).

  Theorem rcu_linearizable_s2 t i c m h2 pa pb xa tb xb :
    nth_error (t_prog (thr s0 t)) (N.to_nat i) = Some (CRcu c m h2) -> nonpanic m = true ->
    (pa <= pb)%nat ->
    nth_error sched pa = Some (t, xa) ->
    t_status (thr (St pa) t) = Running -> t_stack (thr (St pa) t) = [] -> t_cmdi (thr (St pa) t) = i ->
    nth_error sched pb = Some (tb, xb) ->
    t_cmdi (thr (St pb) t) = i -> t_cmdi (thr (St (S pb)) t) = i + 1 ->
    exists q nw j, hnd (St (S pb)) h2 = HOwned q /\
      one_write_s2 cf s0 sched t c q nw pa pb j /\
      rcu_new (made_to_s2 cf s0 sched t pa (S pb)) m q nw.
  Proof.
    intros Hcm Hm Hab Ha Hra Hsa Hia Hb Hib Hib'.
    assert (Hlen : (pb < length sched)%nat) by (apply nth_error_Some; congruence).
    pose proof (StS2_step cf s0 sched pb tb xb Hb) as Eb.
    assert (tb = t) as ->.
    { destruct (N.eq_dec tb t) as [E|E]; [exact E|]. rewrite Eb, step_stale2_other in Hib' by congruence. lia. }
    destruct (rcu_started_s2 cf inits progs sched t i c m h2 pa xa Hcm Ha Hra Hsa Hia) as (_ & Hi0 & _).
    assert (Hlt : (S pa <= pb)%nat).
    { destruct (Nat.eq_dec pa pb) as [Heq|Hneq]; [|lia]. subst pb. lia. }
    pose proof (rcu_inv_s2 cf inits progs sched R t i c m h2 pa xa Hcm Hm Ha Hra Hsa Hia
                  pb Hlen Hib Hib' (pb - S pa)%nat ltac:(lia)) as Z.
    replace (S pa + (pb - S pa))%nat with pb in Z by lia.
    remember (pb - S pa)%nat as d eqn:Hd.
    pose proof (StS2_running cf s0 sched t i pb pb (le_n _) Hib Hib') as Hrb.
    destruct (rcu_exec_s2 cf inits progs sched R t i c m h2 pa Hm Hia pb xb _ Hb ltac:(lia) Hrb Z)
      as (p & rest & s1 & l1 & evs & nx & Hs & E & Hwv & [(l' & stk & EL & Z')|(l' & q & nw & EL & Hwr & Hn)]).
    - exfalso. destruct (RcuZ_tail _ _ _ _ _ _ Z') as (pre' & Hpre' & Hpne').
      destruct (land_stack cf (thr (St pb) t) l1 rest nx l' stk (hnd (St pb)) EL) as [Eth _].
      rewrite E in Hib'. cbn [thr] in Hib'. rewrite upd_same, Eth in Hib'. cbn [t_cmdi] in Hib'. lia.
    - assert (Hw : wsum2 cf s0 sched t c pa (S (S d)) = wsum2 cf s0 sched t c pa (S d) ++ writes_in c evs).
      { change (wsum2 cf s0 sched t c pa (S (S d))) with (wsum2 cf s0 sched t c pa (S d) ++ step_w2 cf s0 sched t c (pa + S d)).
        replace (pa + S d)%nat with pb by lia. rewrite Hwv. reflexivity. }
      cbn in EL. destruct (land_done cf (thr (St pb) t) l1 rest nx _ _ _ (hnd (St pb)) EL) as [_ Eh].
      rewrite <- Hw in Hwr.
      destruct (one_write_of_wsum2 cf s0 sched t c q nw pa (S d) Hwr) as (j & Hj).
      exists q, nw, j. split; [rewrite E; cbn [hnd]; rewrite Eh; apply upd_same|].
      split; [replace pb with (pa + S d)%nat by lia; exact Hj|exact Hn].
  Qed.
End Run2.

(** The statement of [LinCasMain.rcu_linearizable_runok] for runs of [step_stale2]. *)
Theorem rcu_linearizable_stale2 cf inits progs sched t i c m h2 pa pb xa tb xb :
  let s0 := init_state inits progs in
  let St := fun k => StS2 cf s0 sched k in
  RunOKS2 cf inits progs sched ->
  nth_error (t_prog (thr s0 t)) (N.to_nat i) = Some (CRcu c m h2) -> nonpanic m = true ->
  (pa <= pb)%nat ->
  nth_error sched pa = Some (t, xa) ->
  t_status (thr (St pa) t) = Running -> t_stack (thr (St pa) t) = [] -> t_cmdi (thr (St pa) t) = i ->
  nth_error sched pb = Some (tb, xb) ->
  t_cmdi (thr (St pb) t) = i -> t_cmdi (thr (St (S pb)) t) = i + 1 ->
  exists q nw j, hnd (St (S pb)) h2 = HOwned q /\
    one_write_s2 cf s0 sched t c q nw pa pb j /\
    rcu_new (made_to_s2 cf s0 sched t pa (S pb)) m q nw.
Proof. intros s0 St0 R. subst s0 St0. cbn beta. exact (rcu_linearizable_s2 cf inits progs sched R t i c m h2 pa pb xa tb xb). Qed.

Print Assumptions rcu_linearizable_stale2.
