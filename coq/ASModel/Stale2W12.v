(** * ASModel.Stale2W12 — C04 for runs of [step_stale2] within [RunOKS2], in the form of
    [LinSwapMain]: [swap_linearizable_stale2], [store_linearizable_stale2], and every value removed
    from a container by a completed [swap] is the value handed back
    ([every_removed_value_returned_stale2], over the trace of [run_stale2]). *)
From Coq Require Import Lia.
From ASModel Require Import Base State Orderings_gen Step Run Progress Hist Inv InvTl InvProto InvStep Sum StepCases
  GenDefs Gen1 Gen2 Gen3 Gen Typed1 EnvDefs LinDefs Lin Env
  LinCas5 LinCas LinSwap1 LinSwap2 LinSwap3 LinSwap4 LinSwap Main.
From ASModel Require Import Stale Stale2 Stale2Inv4 Stale2Inv6 Stale2Inv8 Stale2Inv9
  Stale2W2 Stale2W3 Stale2W4 Stale2W5 Stale2W6.

Theorem swap_linearizable_stale2 cf inits progs sched t i c v h2 b pa pb xa tb xb :
  let s0 := init_state inits progs in
  let St := fun k => StS2 cf s0 sched k in
  RunOKS2 cf inits progs sched ->
  nth_error (t_prog (thr s0 t)) (N.to_nat i) = Some (CSwap c v h2) ->
  (pa <= pb)%nat ->
  nth_error sched pa = Some (t, xa) ->
  t_status (thr (St pa) t) = Running -> t_stack (thr (St pa) t) = [] -> t_cmdi (thr (St pa) t) = i ->
  cmd_enabled (St pa) (CSwap c v h2) = true ->
  src_val (St pa) v = Some b ->
  nth_error sched pb = Some (tb, xb) ->
  t_cmdi (thr (St pb) t) = i -> t_cmdi (thr (St (S pb)) t) = i + 1 ->
  exists old j, hnd (St (S pb)) h2 = HOwned old /\ one_write_s2 cf s0 sched t c old b pa pb j.
Proof.
  intros s0 St0 R. subst s0 St0. cbn beta.
  exact (swap_linearizable_s2 cf inits progs sched R t i c v h2 b pa pb xa tb xb).
Qed.

Theorem store_linearizable_stale2 cf inits progs sched t i c v b pa pb xa tb xb :
  let s0 := init_state inits progs in
  let St := fun k => StS2 cf s0 sched k in
  RunOKS2 cf inits progs sched ->
  nth_error (t_prog (thr s0 t)) (N.to_nat i) = Some (CStore c v) ->
  (pa <= pb)%nat ->
  nth_error sched pa = Some (t, xa) ->
  t_status (thr (St pa) t) = Running -> t_stack (thr (St pa) t) = [] -> t_cmdi (thr (St pa) t) = i ->
  cmd_enabled (St pa) (CStore c v) = true ->
  src_val (St pa) v = Some b ->
  nth_error sched pb = Some (tb, xb) ->
  t_cmdi (thr (St pb) t) = i -> t_cmdi (thr (St (S pb)) t) = i + 1 ->
  tb = t /\ exists old j, one_write_s2 cf s0 sched t c old b pa pb j /\ released_once_s2 cf s0 sched t old pa pb j xb.
Proof.
  intros s0 St0 R Hcm Hab Ha Hra Hsa Hia Hen Hvb Hb Hib Hib'. subst s0 St0. cbn beta in *.
  pose proof (StS2_step cf (init_state inits progs) sched pb tb xb Hb) as Eb.
  assert (tb = t) as ->.
  { destruct (N.eq_dec tb t) as [E|E]; [exact E|]. rewrite Eb, step_stale2_other in Hib' by congruence. lia. }
  split; [reflexivity|].
  exact (store_lin0_s2 cf inits progs sched R t i c v b pa pb xa xb Hcm Ha Hra Hsa Hia Hen Hvb Hb Hib Hib' Hab).
Qed.

Print Assumptions swap_linearizable_stale2.
Print Assumptions store_linearizable_stale2.

(** ** Every value removed by a completed [swap] is the value handed back *)

(** The writes of the trace are write events of steps of the schedule. *)
Lemma writes_of_trace_inv_stale2 cf c : forall sched s t old new,
  In (t, old, new) (writes_of_trace c (snd (run_stale2 cf s sched))) ->
  exists j x, nth_error sched j = Some (t, x) /\
    In (old, new) (writes_in c (snd (step_stale2 cf (StS2 cf s sched j) t x))).
Proof.
  induction sched as [|[t0 x0] sched IH]; intros s t old new Hin; [cbn in Hin; contradiction|].
  cbn [run_stale2] in Hin. destruct (step_stale2 cf s t0 x0) as [s1 evs] eqn:Hs.
  destruct (run_stale2 cf s1 sched) as [s2 tr] eqn:Hr.
  cbn [snd writes_of_trace] in Hin. apply in_app_or in Hin as [Hin|Hin].
  - apply in_map_iff in Hin as ([o n] & Heq & Hw). cbn in Heq. injection Heq as <- <- <-.
    exists 0%nat, x0. split; [reflexivity|]. unfold StS2. cbn. rewrite Hs. exact Hw.
  - specialize (IH s1 t old new). rewrite Hr in IH. destruct (IH Hin) as (j & x & Hn & Hw).
    exists (S j), x. split; [exact Hn|]. unfold StS2 in *. cbn [firstn]. rewrite run_state_stale2_cons, Hs. exact Hw.
Qed.

(** Command [i] of thread [t] is [CSwap c v h2], started (enabled, [v] denoting [b]) by the step
    at [pa] and completed by the step at [pb]. *)
Definition swap_call_s2 cf s0 sched (t i c : N) (v : src) (h2 b : N) (pa pb : nat) : Prop :=
  let St := fun k => StS2 cf s0 sched k in
  nth_error (t_prog (thr s0 t)) (N.to_nat i) = Some (CSwap c v h2) /\ (pa <= pb)%nat /\
  (exists xa, nth_error sched pa = Some (t, xa)) /\
  t_status (thr (St pa) t) = Running /\ t_stack (thr (St pa) t) = [] /\ t_cmdi (thr (St pa) t) = i /\
  cmd_enabled (St pa) (CSwap c v h2) = true /\ src_val (St pa) v = Some b /\
  (pb < length sched)%nat /\ t_cmdi (thr (St pb) t) = i /\ t_cmdi (thr (St (S pb)) t) = i + 1.

Theorem every_removed_value_returned_stale2 cf inits progs sched c t old new :
  let s0 := init_state inits progs in
  let St := fun k => StS2 cf s0 sched k in
  RunOKS2 cf inits progs sched ->
  In (t, old, new) (writes_of_trace c (snd (run_stale2 cf s0 sched))) ->
  exists j x, nth_error sched j = Some (t, x) /\
    In (old, new) (writes_in c (snd (step_stale2 cf (St j) t x))) /\
    forall i v h2 b pa pb, swap_call_s2 cf s0 sched t i c v h2 b pa pb -> (pa <= j <= pb)%nat ->
      new = b /\ hnd (St (S pb)) h2 = HOwned old.
Proof.
  intros s0 St0 R Hin. subst s0 St0. cbn beta.
  destruct (writes_of_trace_inv_stale2 cf c sched _ t old new Hin) as (j & x & Hn & Hw).
  exists j, x. split; [exact Hn|]. split; [exact Hw|].
  intros i v h2 b pa pb (Hcm & Hab & (xa & Ha) & Hra & Hsa & Hia & Hen & Hvb & Hlen & Hib & Hib') Hj.
  destruct (nth_error sched pb) as [[tb xb]|] eqn:Hb; [|apply nth_error_None in Hb; lia].
  destruct (swap_linearizable_s2 cf inits progs sched R t i c v h2 b pa pb xa tb xb
              Hcm Hab Ha Hra Hsa Hia Hen Hvb Hb Hib Hib') as (old' & j' & Hh & _ & (x' & Hn' & Hw') & _ & _ & Hoth).
  destruct (Nat.eq_dec j j') as [->|Hne].
  - rewrite Hn in Hn'. injection Hn' as <-. rewrite Hw' in Hw. destruct Hw as [[= <- <-]|[]]. auto.
  - exfalso. specialize (Hoth j Hj Hne). unfold step_w2 in Hoth. rewrite Hn, N.eqb_refl in Hoth.
    rewrite Hoth in Hw. exact Hw.
Qed.

Print Assumptions every_removed_value_returned_stale2.
