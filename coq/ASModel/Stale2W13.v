(** * ASModel.Stale2W13 — the chain of all writes of a container ([Hist.store_chain]) for runs of
    [step_stale2], and the successful exchange of a [swap] / compare_and_swap / [rcu] as one link
    of it ([LinCas.one_write_chain] for [one_write_s2]). *)
From Coq Require Import Lia.
From ASModel Require Import Base State Orderings_gen Step Run Progress Hist Inv InvTl InvProto InvStep Sum StepCases.
From ASModel Require Import Stale Stale2 Stale2Inv6 Stale2Inv8 Stale2Inv9 Stale2W4.

Lemma step_stale2_store_effect cf s t x c :
  store_effect c (mem (sh s)) (mem (sh (fst (step_stale2 cf s t x)))) (snd (step_stale2 cf s t x))
  \/ consumes_now s t c.
Proof.
  destruct (step_store_effect cf s t x c) as [H|H]; [left|right; exact H].
  unfold store_effect in *. rewrite step_stale2_writes, step_stale2_sh. exact H.
Qed.

Theorem store_chain_stale2 cf c :
  forall sched s,
    never_consumed c s ->
    chain (mem (sh s) (LStore c)) (writes_of_trace c (snd (run_stale2 cf s sched)))
          (mem (sh (fst (run_stale2 cf s sched))) (LStore c)).
Proof.
  induction sched as [|[t x] sched IH]; intros s Hnc; [reflexivity|].
  cbn [run_stale2]. destruct (step_stale2 cf s t x) as [s1 evs] eqn:Hs.
  destruct (run_stale2 cf s1 sched) as [s2 tr] eqn:Hr. cbn [fst snd writes_of_trace].
  assert (Hnc1 : never_consumed c s1).
  { intros t' cm Hin. apply (Hnc t' cm). replace s1 with (fst (step_stale2 cf s t x)) in Hin by (rewrite Hs; reflexivity).
    rewrite step_stale2_prog in Hin. exact Hin. }
  specialize (IH s1 Hnc1). rewrite Hr in IH. cbn [fst snd] in IH.
  destruct (step_stale2_store_effect cf s t x c) as [Heff|Hcons].
  - rewrite Hs in Heff. cbn [fst snd] in Heff. destruct Heff as [[Hm Hw]|Hw]; rewrite Hw; cbn.
    + rewrite <- Hm. exact IH.
    + split; [reflexivity|exact IH].
  - exfalso. destruct Hcons as (_ & _ & cm & Hnth & Hic).
    apply nth_error_In in Hnth. rewrite (Hnc t cm Hnth) in Hic. discriminate.
Qed.

(** The write events of a step are in the trace of the run. *)
Lemma writes_of_trace_in_stale2 cf c : forall sched s j t x w,
  nth_error sched j = Some (t, x) ->
  In w (writes_in c (snd (step_stale2 cf (StS2 cf s sched j) t x))) ->
  In (t, fst w, snd w) (writes_of_trace c (snd (run_stale2 cf s sched))).
Proof.
  induction sched as [|[t0 x0] sched IH]; intros s j t x w Hn Hin; [destruct j; discriminate Hn|].
  cbn [run_stale2]. destruct (step_stale2 cf s t0 x0) as [s1 evs] eqn:Hs.
  destruct (run_stale2 cf s1 sched) as [s2 tr] eqn:Hr.
  cbn [snd writes_of_trace]. apply in_or_app. destruct j as [|j].
  - left. injection Hn as -> ->. unfold StS2 in Hin. cbn in Hin. rewrite Hs in Hin. cbn in Hin.
    apply (in_map (fun w0 => (t, fst w0, snd w0))) in Hin. exact Hin.
  - right. cbn [nth_error] in Hn. unfold StS2 in Hin. cbn [firstn] in Hin.
    rewrite run_state_stale2_cons, Hs in Hin. cbn [fst] in Hin.
    specialize (IH s1 j t x w Hn Hin). rewrite Hr in IH. exact IH.
Qed.

Corollary one_write_chain_stale2 cf s0 sched t c a b lo hi j :
  one_write_s2 cf s0 sched t c a b lo hi j -> never_consumed c s0 ->
  In (t, a, b) (writes_of_trace c (snd (run_stale2 cf s0 sched))) /\
  Hist.chain (mem (sh s0) (LStore c)) (writes_of_trace c (snd (run_stale2 cf s0 sched)))
             (mem (sh (run_state_stale2 cf s0 sched)) (LStore c)).
Proof.
  intros (_ & (x & Hn & Hw) & _) Hnc. split.
  - apply (writes_of_trace_in_stale2 cf c sched s0 j t x (a, b) Hn). rewrite Hw. left. reflexivity.
  - rewrite <- (run_stale2_fst cf sched s0). apply store_chain_stale2. exact Hnc.
Qed.

Print Assumptions store_chain_stale2.
Print Assumptions one_write_chain_stale2.
