(** * ASModel.Stale2W2 — the shape of a step of [step_stale2] for the zone proofs of the writer-side
    commands ([LinCas*], [LinCasR*], [LinSwap*]).

    A step of [step_stale2] is the step of [step], or ("quiet") the top frame [p] is one of the
    four weakened loads and the step
    - leaves shared memory, handles, the command index and all other threads alone,
    - replaces [p] by a frame [q] of the read path / of [Node::get] that carries no value,
    - emits one load event,
    and is the frame step [exec] of [p] in a memory [sm] that holds the supplied value at the
    location read.  The zone lemmas ([casz_step], [rcuz_step], [swapz_step], ...) are stated for
    [exec] in an arbitrary memory, so they apply to the quiet step as they are. *)
From Coq Require Import Lia.
From ASModel Require Import Base State Orderings_gen Step Run Progress Hist Inv InvTl InvProto InvStep Sum StepCases.
From ASModel Require Import GenDefs Gen1 Gen2 Typed1 EnvDefs LinDefs Lin1 Lin3 LinCas1 LinCas2 LinCas3.
From ASModel Require Import Stale Stale2 Stale2Inv4 Stale2Inv9.

(** The frames a weakened load continues with. *)
Definition quiet_tgt (q : pc) : bool :=
  match q with
  | LA1d _ _ | LAscan _ _ _ | LH0d _ | LH1 _ _ | GCool2 _ | GClaim _ | GPush _ => true
  | _ => false
  end.

Lemma quiet_tgt_lfr q : quiet_tgt q = true -> lfr q = true.
Proof. destruct q; cbn; congruence. Qed.
Lemma quiet_tgt_fval q : quiet_tgt q = true -> fval q = None.
Proof. destruct q; cbn; congruence. Qed.
Lemma quiet_tgt_pf q : quiet_tgt q = true -> PF q.
Proof. unfold PF. destruct q; cbn; congruence. Qed.
Lemma quiet_tgt_lfv P q : quiet_tgt q = true -> lfv P q.
Proof. intros H. split; [apply quiet_tgt_lfr; exact H|]. intros v Hv. rewrite (quiet_tgt_fval q H) in Hv. discriminate. Qed.
Lemma quiet_tgt_not7 q cand e : quiet_tgt q = true -> q <> LH7 cand e.
Proof. intros H ->. discriminate H. Qed.

(** The weakened loads. *)
Definition stale_site (p : pc) : bool :=
  match p with LA1 _ | LAscan _ _ _ | GCool1 _ | GPush0 => true | _ => false end.

Lemma stale_site_lfr p : stale_site p = true -> lfr p = true.
Proof. destruct p; cbn; congruence. Qed.
Lemma stale_site_fval p : stale_site p = true -> fval p = None.
Proof. destruct p; cbn; congruence. Qed.
Lemma stale_site_not_waiting p : stale_site p = true -> is_waiting p = false.
Proof. destruct p; cbn; congruence. Qed.

Lemma fallback_entry_tgt cf l c n : tl_node l = Some n ->
  exists l' q, fallback_entry cf l c = (l', NGoto q) /\ quiet_tgt q = true.
Proof. intros H. unfold fallback_entry. rewrite H. destruct (cf_debug cf); eauto. Qed.

(** [stale2_exec] with a node is [exec] in a memory that holds the value at the location read. *)
Definition needs_node (p : pc) : bool := match p with LA1 _ | LAscan _ _ _ => true | _ => false end.

Lemma stale2_exec_fake cf ssh l p v x s' l' evs nx :
  (needs_node p = true -> exists n, tl_node l = Some n) ->
  stale2_exec cf ssh l p v = Some (s', l', evs, nx) ->
  s' = ssh /\ stale_site p = true /\
  (exists e, evs = [e] /\ (forall c, write_of c e = None) /\ (forall a oid, e <> EvAlloc a oid)) /\
  exists q, nx = NGoto q /\ quiet_tgt q = true /\
  exists sm evs', exec cf sm l p x = (sm, l', evs', NGoto q).
Proof.
  intros Hn. destruct p; try discriminate; cbn [stale2_exec].
  - (* GCool1 *)
    intros [= <- <- <- <-]. split; [reflexivity|]. split; [reflexivity|]. split.
    { eexists. split; [reflexivity|]. split; [reflexivity|discriminate]. }
    exists (if v =? NODE_COOLDOWN then GCool2 n else GClaim n). split; [destruct (v =? NODE_COOLDOWN); reflexivity|].
    split; [destruct (v =? NODE_COOLDOWN); reflexivity|].
    exists (m_set ssh (LInUse n) v). eexists. cbn [exec a_load m_set mem]. rewrite upd_same.
    destruct (v =? NODE_COOLDOWN); reflexivity.
  - (* GPush0 *)
    intros [= <- <- <- <-]. split; [reflexivity|]. split; [reflexivity|]. split.
    { eexists. split; [reflexivity|]. split; [reflexivity|discriminate]. }
    exists (GPush v). split; [reflexivity|]. split; [reflexivity|].
    exists (m_set ssh LHead v). eexists. cbn [exec a_load m_set mem]. rewrite upd_same. reflexivity.
  - (* LA1 *)
    destruct (Hn eq_refl) as [n Hn']. clear Hn. rename Hn' into Hn.
    unfold stale_exec. rewrite Hn. intros [= <- <- <- <-]. split; [reflexivity|]. split; [reflexivity|]. split.
    { eexists. split; [reflexivity|]. split; [intros c0; cbn; destruct (c =? c0); reflexivity|discriminate]. }
    exists (if cf_debug cf then LA1d c v else LAscan c v 0). split; [destruct (cf_debug cf); reflexivity|].
    split; [destruct (cf_debug cf); reflexivity|].
    exists (m_set ssh (LStore c) v). eexists. cbn [exec a_load m_set mem]. rewrite upd_same, Hn.
    destruct (cf_debug cf); reflexivity.
  - (* LAscan *)
    destruct (Hn eq_refl) as [n Hn']. clear Hn. rename Hn' into Hn.
    destruct (v =? NONE) eqn:Ev; [discriminate|].
    destruct (i =? 7) eqn:Ei.
    + destruct (fallback_entry_tgt cf l c n Hn) as (l2 & q & Hf & Hq). rewrite Hf.
      intros [= <- <- <- <-]. split; [reflexivity|]. split; [reflexivity|]. split.
      { eexists. split; [reflexivity|]. split; [reflexivity|discriminate]. }
      exists q. split; [reflexivity|]. split; [exact Hq|].
      exists (m_set ssh (LSlot (own_node l) ((i + tl_off l) mod SLOT_CNT)) v). eexists.
      cbn [exec a_load m_set mem]. rewrite upd_same, Ev, Ei, Hf. reflexivity.
    + intros [= <- <- <- <-]. split; [reflexivity|]. split; [reflexivity|]. split.
      { eexists. split; [reflexivity|]. split; [reflexivity|discriminate]. }
      eexists. split; [reflexivity|]. split; [reflexivity|].
      exists (m_set ssh (LSlot (own_node l) ((i + tl_off l) mod SLOT_CNT)) v). eexists.
      cbn [exec a_load m_set mem]. rewrite upd_same, Ev, Ei. reflexivity.
Qed.

(** A running thread whose top frame is a weakened load has a node. *)
Lemma stale_site_node s t p rest :
  WF2 s -> t_status (thr s t) = Running -> t_stack (thr s t) = p :: rest ->
  needs_node p = true -> exists n, tl_node (t_loc (thr s t)) = Some n.
Proof.
  intros W Hr Hst Hp. destruct (tl_node (t_loc (thr s t))) as [n|] eqn:Hn; [eauto|exfalso].
  destruct (w_thr _ W t Hr) as [Htl _]. rewrite Hst in Htl.
  destruct Htl as (_ & _ & _ & Hnode & _). apply Hnode; [|exact Hn].
  destruct p; try discriminate Hp; cbn; destruct (depth_of rest); discriminate.
Qed.
