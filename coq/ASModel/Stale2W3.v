(** * ASModel.Stale2W3 — [step_stale2_cases3]: a step of [step_stale2] is the step of [step] or a
    quiet step ([Stale2W2]); facts about runs of [step_stale2]: command indices only grow, stopped
    threads stay stopped, a thread that completes a command was running before. *)
From Coq Require Import Lia.
From ASModel Require Import Base State Orderings_gen Step Run Progress Hist Inv InvTl InvProto InvStep Sum StepCases.
From ASModel Require Import GenDefs Gen1 Gen2 Gen3 Gen EnvDefs LinDefs
  Lin1 Lin2 Lin3 Lin4 Lin5 Lin6 Lin7 Lin8 Lin9 Lin10 Lin11 Lin12 Lin13 Lin14 Lin LinCache6 LinCas1 LinCas2 LinCas3.
From ASModel Require Import Stale Stale2 Stale2Inv4 Stale2Inv6 Stale2Inv8 Stale2Inv9 Stale2W2.

Inductive stale2_shape3 (cf : config) (s : state) (t x : N) : Prop :=
| s3_same : step_stale2 cf s t x = step cf s t x -> stale2_shape3 cf s t x
| s3_quiet p rest l1 e q sm evs' :
    t_status (thr s t) = Running -> t_stack (thr s t) = p :: rest ->
    stale_site p = true -> quiet_tgt q = true ->
    exec cf sm (t_loc (thr s t)) p x = (sm, l1, evs', NGoto q) ->
    step_stale2 cf s t x =
      (mkState (sh s) (upd (thr s) t (mkThread (q :: rest) l1 (t_prog (thr s t)) (t_cmdi (thr s t)) Running)) (hnd s),
       [e]) ->
    (forall c, write_of c e = None) -> (forall a oid, e <> EvAlloc a oid) ->
    stale2_shape3 cf s t x.

Lemma step_stale2_cases3 cf s t x : WF2 s -> stale2_shape3 cf s t x.
Proof.
  intros W.
  destruct (t_status (thr s t)) eqn:Hr; try (apply s3_same; unfold step_stale2; rewrite Hr; reflexivity).
  destruct (t_stack (thr s t)) as [|p rest] eqn:Hst; [apply s3_same; unfold step_stale2; rewrite Hr, Hst; reflexivity|].
  destruct (2 <=? x) eqn:Hx; [|apply s3_same; unfold step_stale2; rewrite Hr, Hst, Hx; reflexivity].
  destruct (stale2_exec cf (sh s) (t_loc (thr s t)) p (x - 2)) as [[[[s1 l1] evs] nx]|] eqn:E;
    [|apply s3_same; unfold step_stale2; rewrite Hr, Hst, Hx, E; reflexivity].
  destruct (stale2_exec_fake cf _ _ _ _ x _ _ _ _ (stale_site_node s t p rest W Hr Hst) E)
    as (-> & Hsite & (e & -> & Hw & Ha) & q & -> & Hq & sm & evs' & Hex).
  eapply s3_quiet; try eassumption.
  unfold step_stale2. rewrite Hr, Hst, Hx, E. reflexivity.
Qed.

(** The quiet step in the vocabulary of [Lin8.step_shape2]. *)
Lemma thread_after_goto cf th l1 rest q :
  thread_after cf th l1 rest (NGoto q) = mkThread (q :: rest) l1 (t_prog th) (t_cmdi th) Running.
Proof. reflexivity. Qed.

Lemma hnd_after_goto cf h l1 rest q : hnd_after cf h l1 rest (NGoto q) = h.
Proof. reflexivity. Qed.

Lemma writes_in_single c e : write_of c e = None -> writes_in c [e] = [].
Proof. intros H. cbn. rewrite H. reflexivity. Qed.

(** ** Runs *)
Lemma step_stale2_cmdi_mono cf s t0 x t : t_cmdi (thr s t) <= t_cmdi (thr (fst (step_stale2 cf s t0 x)) t).
Proof.
  destruct (step_stale2_dich cf s t0 x) as [->|(_ & _ & _ & _ & A & B)]; [apply step_cmdi_mono|].
  cbn zeta in A, B. destruct (N.eq_dec t t0) as [->|Hne]; [rewrite A; lia|rewrite B by exact Hne; lia].
Qed.

Lemma step_stale2_stopped cf s t0 x t :
  t_status (thr s t) <> Running -> thr (fst (step_stale2 cf s t0 x)) t = thr s t.
Proof.
  intros H. destruct (N.eq_dec t t0) as [->|Hne]; [|apply step_stale2_other; exact Hne].
  unfold step_stale2. destruct (t_status (thr s t0)) eqn:Hs; try congruence;
    apply (step_stopped cf s t0 x t0); congruence.
Qed.

Lemma run_stale2_cmdi_mono cf : forall sched s t, t_cmdi (thr s t) <= t_cmdi (thr (run_state_stale2 cf s sched) t).
Proof.
  induction sched as [|[t0 x] sched IH]; intros s t; [cbn; lia|].
  rewrite run_state_stale2_cons. pose proof (step_stale2_cmdi_mono cf s t0 x t).
  pose proof (IH (fst (step_stale2 cf s t0 x)) t). lia.
Qed.

Lemma run_stale2_stopped cf : forall sched s t,
  t_status (thr s t) <> Running -> thr (run_state_stale2 cf s sched) t = thr s t.
Proof.
  induction sched as [|[t0 x] sched IH]; intros s t H; [reflexivity|].
  rewrite run_state_stale2_cons. pose proof (step_stale2_stopped cf s t0 x t H) as E.
  rewrite IH; [exact E|]. rewrite E. exact H.
Qed.

Lemma run_state_stale2_app cf s a b :
  run_state_stale2 cf s (a ++ b) = run_state_stale2 cf (run_state_stale2 cf s a) b.
Proof. unfold run_state_stale2. apply fold_left_app. Qed.

Section Run.
  Variables (cf : config) (s0 : state) (sched : list (N * N)).
  Local Notation St k := (StS2 cf s0 sched k).

  Lemma StS2_split j k : (j <= k)%nat -> St k = run_state_stale2 cf (St j) (firstn (k - j) (skipn j sched)).
  Proof. intros H. unfold StS2. rewrite (firstn_split sched j k H), run_state_stale2_app. reflexivity. Qed.

  Lemma StS2_cmdi_mono j k t : (j <= k)%nat -> t_cmdi (thr (St j) t) <= t_cmdi (thr (St k) t).
  Proof. intros H. rewrite (StS2_split j k H). apply run_stale2_cmdi_mono. Qed.

  Lemma StS2_stopped j k t : (j <= k)%nat -> t_status (thr (St j) t) <> Running -> thr (St k) t = thr (St j) t.
  Proof. intros H Hs. rewrite (StS2_split j k H). apply run_stale2_stopped. exact Hs. Qed.

  Lemma StS2_running t i j pb :
    (j <= pb)%nat -> t_cmdi (thr (St pb) t) = i -> t_cmdi (thr (St (S pb)) t) = i + 1 ->
    t_status (thr (St j) t) = Running.
  Proof.
    intros Hj H1 H2. destruct (status_running_dec (t_status (thr (St j) t))) as [H|H]; [exact H|exfalso].
    rewrite (StS2_stopped j pb t Hj H) in H1. rewrite (StS2_stopped j (S pb) t ltac:(lia) H) in H2. lia.
  Qed.

  Lemma StS2_prog k t : t_prog (thr (St k) t) = t_prog (thr s0 t).
  Proof. unfold StS2. apply run_state_stale2_prog. Qed.
End Run.
