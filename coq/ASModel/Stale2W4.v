(** * ASModel.Stale2W4 — the write events of the steps of a run of [step_stale2]
    ([LinCas5.step_w], [wsum], [LinCas.no_write], [one_write] over [StS2] / [step_stale2]).

    A step of [step_stale2] has the write events (on the storage of any container) of the step of
    [step]: a weakened load has none. *)
From Coq Require Import Lia.
From ASModel Require Import Base State Orderings_gen Step Run Progress Hist Inv InvTl InvProto InvStep Sum StepCases.
From ASModel Require Import GenDefs Gen1 Gen2 Typed1 EnvDefs LinDefs Lin1 Lin3 LinCas1 LinCas2 LinCas3 LinCas5.
From ASModel Require Import Stale Stale2 Stale2Inv4 Stale2Inv6 Stale2Inv9 Stale2W2.

Lemma stale2_exec_nowrite cf ssh l p v s' l' evs nx c :
  stale2_exec cf ssh l p v = Some (s', l', evs, nx) -> writes_in c evs = [] /\ wfr p = false.
Proof.
  destruct p; try discriminate; cbn [stale2_exec].
  - intros [= <- <- <- <-]. auto.
  - intros [= <- <- <- <-]. auto.
  - unfold stale_exec. destruct (tl_node l); intros [= <- <- <- <-]; (split; [|reflexivity]);
      cbn; match goal with |- context [?a =? c] => destruct (a =? c) end; reflexivity.
  - destruct (v =? NONE); [discriminate|].
    destruct (i =? 7); [destruct (fallback_entry cf l c0) as [l0 nx0]|]; intros [= <- <- <- <-]; auto.
Qed.

Lemma step_stale2_writes cf s t x c :
  writes_in c (snd (step_stale2 cf s t x)) = writes_in c (snd (step cf s t x)).
Proof.
  unfold step_stale2. destruct (t_status (thr s t)) eqn:Hr; try reflexivity.
  destruct (t_stack (thr s t)) as [|p rest] eqn:Hst; [reflexivity|].
  destruct (2 <=? x); [|reflexivity].
  destruct (stale2_exec cf (sh s) (t_loc (thr s t)) p (x - 2)) as [[[[s_sh l] evs] nx]|] eqn:E; [|reflexivity].
  destruct (stale2_exec_nowrite _ _ _ _ _ _ _ _ _ c E) as [Hw Hp].
  rewrite finish_events_writes, Hw.
  destruct (exec cf (sh s) (t_loc (thr s t)) p x) as [[[s1 l1] evs1] nx1] eqn:He.
  rewrite (step_writes_exec cf s t x p rest s1 l1 evs1 nx1 c Hr Hst He).
  symmetry. eapply exec_nowrite; eassumption.
Qed.

(** A step whose only write event on the storage of [c] is [(a, b)] replaces [a] by [b]. *)
Lemma write_mem_stale2 cf s t x c a b :
  writes_in c (snd (step_stale2 cf s t x)) = [(a, b)] ->
  mem (sh s) (LStore c) = a /\ mem (sh (fst (step_stale2 cf s t x))) (LStore c) = b.
Proof. rewrite step_stale2_writes, step_stale2_sh. apply write_mem. Qed.

Lemma step_stale2_writes_idle cf s t x c :
  t_status (thr s t) <> Running \/ t_stack (thr s t) = [] -> writes_in c (snd (step_stale2 cf s t x)) = [].
Proof. rewrite step_stale2_writes. apply step_writes_idle. Qed.

Section Writes.
  Variables (cf : config) (s0 : state) (sched : list (N * N)).
  Local Notation St k := (StS2 cf s0 sched k).

  (** The write events of thread [t] on the storage of [c] in step [j] of the schedule ... *)
  Definition step_w2 (t c : N) (j : nat) : list (N * N) :=
    match nth_error sched j with
    | Some (t', x) => if t' =? t then writes_in c (snd (step_stale2 cf (St j) t' x)) else []
    | None => []
    end.

  (** ... and in the steps [lo], ..., [lo + n - 1]. *)
  Fixpoint wsum2 (t c : N) (lo n : nat) : list (N * N) :=
    match n with 0%nat => [] | S n' => wsum2 t c lo n' ++ step_w2 t c (lo + n') end.

  Lemma wsum2_nil t c lo : forall n, wsum2 t c lo n = [] -> forall j, (lo <= j < lo + n)%nat -> step_w2 t c j = [].
  Proof.
    induction n as [|n IH]; intros H j Hj; [lia|]. cbn in H. apply app_eq_nil in H as [H1 H2].
    destruct (Nat.eq_dec j (lo + n)%nat) as [->|Hne]; [exact H2|]. apply IH; [exact H1|lia].
  Qed.

  Lemma wsum2_one t c lo w : forall n, wsum2 t c lo n = [w] ->
    exists j, (lo <= j < lo + n)%nat /\ step_w2 t c j = [w] /\
              forall j', (lo <= j' < lo + n)%nat -> j' <> j -> step_w2 t c j' = [].
  Proof.
    induction n as [|n IH]; intros H; [discriminate H|]. cbn in H.
    destruct (wsum2 t c lo n) as [|w1 r1] eqn:E1.
    - cbn in H. exists (lo + n)%nat. split; [lia|]. split; [exact H|].
      intros j' Hj' Hne. apply (wsum2_nil t c lo n E1). lia.
    - destruct r1; [|destruct r1; discriminate H]. cbn in H.
      assert (H2 : step_w2 t c (lo + n) = []) by (destruct (step_w2 t c (lo + n)); [reflexivity|discriminate H]).
      rewrite H2 in H. injection H as ->.
      destruct (IH eq_refl) as (j & Hj & Hw & Hoth). exists j. split; [lia|]. split; [exact Hw|].
      intros j' Hj' Hne. destruct (Nat.eq_dec j' (lo + n)%nat) as [->|Hn]; [exact H2|]. apply Hoth; [lia|exact Hne].
  Qed.

  Lemma step_w2_inv t c j w ws : step_w2 t c j = w :: ws ->
    exists x, nth_error sched j = Some (t, x) /\ writes_in c (snd (step_stale2 cf (St j) t x)) = w :: ws.
  Proof.
    unfold step_w2. destruct (nth_error sched j) as [[t' x]|]; [|discriminate].
    destruct (N.eqb_spec t' t) as [->|Hne]; [|discriminate]. eauto.
  Qed.

  Lemma step_w2_other t c j t0 x0 : nth_error sched j = Some (t0, x0) -> t0 <> t -> step_w2 t c j = [].
  Proof. intros Hn Hne. unfold step_w2. rewrite Hn. destruct (N.eqb_spec t0 t); [congruence|reflexivity]. Qed.
End Writes.

(** No step of [t] among the steps [lo] .. [hi] has a write event on the storage of [c]. *)
Definition no_write_s2 cf s0 sched (t c : N) (lo hi : nat) : Prop :=
  forall j, (lo <= j <= hi)%nat -> step_w2 cf s0 sched t c j = [].

(** Exactly one step of [t] among the steps [lo] .. [hi] has a write event on the storage of [c]:
    step [j]; it has one, [(a, b)], and replaces the content [a] by [b]. *)
Definition one_write_s2 cf s0 sched (t c a b : N) (lo hi j : nat) : Prop :=
  (lo <= j <= hi)%nat /\
  (exists x, nth_error sched j = Some (t, x) /\
     writes_in c (snd (step_stale2 cf (StS2 cf s0 sched j) t x)) = [(a, b)]) /\
  mem (sh (StS2 cf s0 sched j)) (LStore c) = a /\
  mem (sh (StS2 cf s0 sched (S j))) (LStore c) = b /\
  forall j', (lo <= j' <= hi)%nat -> j' <> j -> step_w2 cf s0 sched t c j' = [].

Lemma one_write_of_wsum2 cf s0 sched t c a b lo n :
  wsum2 cf s0 sched t c lo (S n) = [(a, b)] ->
  exists j, one_write_s2 cf s0 sched t c a b lo (lo + n) j.
Proof.
  intros H. destruct (wsum2_one _ _ _ _ _ _ _ _ H) as (j & Hj & Hw & Hoth).
  destruct (step_w2_inv _ _ _ _ _ _ _ _ Hw) as (x & Hn & Hwr).
  destruct (write_mem_stale2 _ _ _ _ _ _ _ Hwr) as [M1 M2].
  exists j. split; [lia|]. split; [eauto|]. split; [exact M1|]. split.
  - rewrite (StS2_step cf s0 sched j t x Hn). exact M2.
  - intros j' Hj' Hne. apply Hoth; [lia|exact Hne].
Qed.
