(** * ASModel.Stale2W5 — [LinSwap2.ZoneRun] for runs of [step_stale2] within [RunOKS2]: a zone [Z]
    that is preserved by the frame steps ([Z_step], stated for [exec] in any memory) holds from the
    state after the CMD step of the command up to the state before its completing step, with the
    write events of the thread collected by [wsum2]; [Fin] holds for the completing step.

    A quiet step (a weakened load) is the frame step in a memory that holds the supplied value
    ([Stale2W3.step_stale2_cases3]), so [Z_step] covers it. *)
From Coq Require Import Lia.
From ASModel Require Import Base State Orderings_gen Step Run Progress Hist Inv InvTl InvProto InvStep Sum StepCases
  GenDefs Gen1 Gen2 Gen3 Gen Typed1 EnvDefs LinDefs
  Lin1 Lin2 Lin3 Lin4 Lin5 Lin6 Lin7 Lin8 Lin9 Lin10 Lin11 Lin12 Lin13 Lin14 Lin
  LinCache1 LinCache2 LinCache3 LinCache4 LinCache5 LinCache6 LinCache
  LinCas1 LinCas2 LinCas3 LinCas5 LinSwap2 Main.
From ASModel Require Import Stale Stale2 Stale2Inv4 Stale2Inv6 Stale2Inv8 Stale2Inv9 Stale2W2 Stale2W3 Stale2W4.

Lemma step_stale2_idle cf s t x : t_stack (thr s t) = [] -> step_stale2 cf s t x = step cf s t x.
Proof. intros H. unfold step_stale2. rewrite H. destruct (t_status (thr s t)); reflexivity. Qed.

Section ZoneRun.
  Variables (cf : config) (inits : list N) (progs : list (list cmd)) (sched : list (N * N)).
  Local Notation s0 := (init_state inits progs).
  Hypothesis R : RunOKS2 cf inits progs sched.
  Local Notation St k := (StS2 cf s0 sched k).
  Local Notation W k := (wsum2 cf s0 sched k).

  Variables (c : N) (Z : list (N * N) -> list pc -> Prop)
            (Fin : list pc -> list (N * N) -> option (N * handle) -> Prop).
  Hypothesis Z_ne : forall wr, ~ Z wr [].
  Hypothesis Z_step : forall s l p rest x s1 l1 evs nx wr,
    Z wr (p :: rest) -> is_waiting p = false -> exec cf s l p x = (s1, l1, evs, nx) ->
    znext Z Fin (p :: rest) (wr ++ writes_in c evs) (land cf l1 rest nx).

  Variables (t i : N) (cm : cmd) (pa : nat) (xa : N).
  Hypotheses (Hcm : nth_error (t_prog (thr s0 t)) (N.to_nat i) = Some cm)
             (Ha : nth_error sched pa = Some (t, xa))
             (Hra : t_status (thr (St pa) t) = Running) (Hsa : t_stack (thr (St pa) t) = [])
             (Hia : t_cmdi (thr (St pa) t) = i)
             (Hen : cmd_enabled (St pa) cm = true).
  Hypothesis Hstart : forall s1 l1 stk r,
    cmd_start cf (St pa) (t_loc (thr (St pa) t)) cm = inl (s1, l1, stk, r) -> Z [] stk.

  Lemma zone2_cur j : t_cmdi (thr (St j) t) = i -> cur_cmd (St j) t = Some cm.
  Proof. intros Hj. unfold cur_cmd. rewrite StS2_prog, Hj. exact Hcm. Qed.

  (** The state after the CMD step. *)
  Lemma zone2_started :
    Z [] (t_stack (thr (St (S pa)) t)) /\ t_cmdi (thr (St (S pa)) t) = i /\ step_w2 cf s0 sched t c pa = [].
  Proof.
    pose proof (StS2_step cf s0 sched pa t xa Ha) as Ea. rewrite (step_stale2_idle cf _ t xa Hsa) in Ea.
    pose proof (zone2_cur pa Hia) as Hc0.
    assert (Hw : step_w2 cf s0 sched t c pa = []).
    { unfold step_w2. rewrite Ha, N.eqb_refl. apply step_stale2_writes_idle. right. exact Hsa. }
    destruct (step_cases2 cf (St pa) t xa) as [Hr E|c0 Hr Hs Hcc0 Hen0 E|c0 s1 l1 stk r Hr Hs Hcc0 Hen0 Hcs E|n Hr Hs Hcc0 Hn E|Hr Hs Hcc0 Hn E|p rest s1 l1 evs nx Hr Hs He E];
      try congruence.
    rewrite Hc0 in Hcc0. injection Hcc0 as <-.
    pose proof (Hstart _ _ _ _ Hcs) as Z0.
    assert (Hstk : t_stack (thr (St (S pa)) t) = stk).
    { rewrite Ea, E. cbn [thr set_thread]. rewrite upd_same. apply start_thread_stack. }
    split; [rewrite Hstk; exact Z0|]. split; [|exact Hw].
    rewrite Ea, E. cbn [thr set_thread]. rewrite upd_same. destruct stk; [|exact Hia].
    exfalso. exact (Z_ne _ Z0).
  Qed.

  (** A frame step of [t] in a state of the zone: the frame step [exec] in the memory of the
      state, or (a weakened load) in a memory [sm] that holds the supplied value. *)
  Lemma zone2_exec j x0 wr :
    nth_error sched j = Some (t, x0) ->
    t_status (thr (St j) t) = Running -> Z wr (t_stack (thr (St j) t)) ->
    exists p rest sm s1 s1' l1 evs nx,
      t_stack (thr (St j) t) = p :: rest /\
      exec cf sm (t_loc (thr (St j) t)) p x0 = (s1', l1, evs, nx) /\
      St (S j) = mkState s1 (upd (thr (St j)) t (thread_after cf (thr (St j) t) l1 rest nx))
                         (hnd_after cf (hnd (St j)) l1 rest nx) /\
      step_w2 cf s0 sched t c j = writes_in c evs /\
      ((exists l' stk, land cf l1 rest nx = UStack l' stk /\ Z (wr ++ writes_in c evs) stk) \/
       (exists l' dst v, land cf l1 rest nx = UDone l' dst v /\ Fin (p :: rest) (wr ++ writes_in c evs) dst)).
  Proof.
    intros Hn Hrj Zj.
    pose proof (StS2_step cf s0 sched j t x0 Hn) as E.
    pose proof (run_stale2_Master _ _ _ _ R j) as M. pose proof (m_wf _ M) as WF.
    pose proof (m_nofault _ (run_stale2_Master _ _ _ _ R (S j))) as Hnf'. rewrite E in Hnf'.
    assert (Hnil : t_stack (thr (St j) t) <> []) by (intros Hx; rewrite Hx in Zj; exact (Z_ne _ Zj)).
    destruct (step_stale2_cases3 cf (St j) t x0 WF) as [Esame|p rest l1 e q sm evs' Hr Hs Hsite Hq Hex E2 Hwe Hae].
    - rewrite Esame in E, Hnf'.
      destruct (step_cases2 cf (St j) t x0) as [Hr E2|c0 Hr Hs Hcc0 Hen0 E2|c0 s1 l1 stk r Hr Hs Hcc0 Hen0 Hcs E2|n Hr Hs Hcc0 Hn0 E2|Hr Hs Hcc0 Hn0 E2|p rest s1 l1 evs nx Hr Hs He E2];
        try congruence.
      exists p, rest, (sh (St j)), s1, s1, l1, evs, nx. split; [exact Hs|]. split; [exact He|]. split; [rewrite E; exact E2|].
      split.
      { unfold step_w2. rewrite Hn, N.eqb_refl, Esame. apply (step_writes_exec cf (St j) t x0 p rest s1 l1 evs nx c Hr Hs He). }
      destruct (ex_top (St j) t WF p rest Hr Hs) as [Hnw _].
      pose proof (land_cases cf (St j) t x0 p rest s1 l1 evs nx WF Hnf' Hr Hs He) as Hlc.
      rewrite Hs in Zj.
      destruct (Z_step (sh (St j)) (t_loc (thr (St j) t)) p rest x0 s1 l1 evs nx wr Zj Hnw He)
        as [H|[H|Hstop]]; [left; exact H|right; exact H|].
      exfalso. destruct (land cf l1 rest nx); contradiction.
    - exists p, rest, sm, (sh (St j)), sm, l1, evs', (NGoto q). split; [exact Hs|]. split; [exact Hex|].
      split; [rewrite E, E2; reflexivity|].
      assert (Hw0 : writes_in c evs' = []).
      { eapply exec_nowrite; [exact Hex|]. apply pf_not_wfr. apply lfr_pf. apply stale_site_lfr. exact Hsite. }
      split.
      { unfold step_w2. rewrite Hn, N.eqb_refl, E2, Hw0. cbn [snd]. apply writes_in_single. apply Hwe. }
      rewrite Hs in Zj.
      destruct (Z_step sm (t_loc (thr (St j) t)) p rest x0 sm l1 evs' (NGoto q) wr Zj (stale_site_not_waiting p Hsite) Hex)
        as [H|[H|Hstop]]; [left; exact H|right; exact H|].
      exfalso. exact Hstop.
  Qed.

  (** Up to the state before the completing step (at position [pb]). *)
  Lemma zone2_inv pb :
    (pb < length sched)%nat ->
    t_cmdi (thr (St pb) t) = i -> t_cmdi (thr (St (S pb)) t) = i + 1 ->
    forall d, (S pa + d <= pb)%nat -> Z (W t c pa (S d)) (t_stack (thr (St (S pa + d)) t)).
  Proof.
    intros Hlen Hib Hib'. destruct zone2_started as (Z0 & Hi0 & Hw0).
    induction d as [|d IH]; intros Hd.
    - rewrite Nat.add_0_r. cbn [wsum2]. rewrite Nat.add_0_r, Hw0. exact Z0.
    - specialize (IH ltac:(lia)).
      replace (S pa + S d)%nat with (S (S pa + d)) by lia. remember (S pa + d)%nat as j eqn:Hj.
      change (W t c pa (S (S d))) with (W t c pa (S d) ++ step_w2 cf s0 sched t c (pa + S d)).
      replace (pa + S d)%nat with j by lia.
      destruct (nth_error sched j) as [[t0 x0]|] eqn:Hn; [|apply nth_error_None in Hn; lia].
      pose proof (StS2_cmdi_mono cf s0 sched (S pa) j t ltac:(lia)) as M1.
      pose proof (StS2_cmdi_mono cf s0 sched j (S j) t ltac:(lia)) as M2.
      pose proof (StS2_cmdi_mono cf s0 sched (S j) pb t ltac:(lia)) as M3.
      pose proof (StS2_running cf s0 sched t i j pb ltac:(lia) Hib Hib') as Hrj.
      destruct (N.eqb_spec t0 t) as [->|Hne].
      + destruct (zone2_exec j x0 _ Hn Hrj IH) as (p & rest & sm & s1 & s1' & l1 & evs & nx & Hs & He & E & Hw & [(l' & stk & EL & Z')|(l' & dst & v & EL & _)]).
        * rewrite Hw. destruct (land_stack cf (thr (St j) t) l1 rest nx l' stk (hnd (St j)) EL) as [Eth _].
          rewrite E. cbn [thr]. rewrite upd_same, Eth. exact Z'.
        * exfalso. destruct (land_done cf (thr (St j) t) l1 rest nx _ _ _ (hnd (St j)) EL) as [Eth _].
          rewrite E in M2, M3. cbn [thr] in M2, M3. rewrite upd_same, Eth in M2, M3. cbn [t_cmdi] in M2, M3. lia.
      + rewrite (step_w2_other cf s0 sched t c j t0 x0 Hn Hne), app_nil_r.
        rewrite (StS2_step cf s0 sched j t0 x0 Hn).
        rewrite step_stale2_other by congruence. exact IH.
  Qed.

  (** The completing step. *)
  Lemma zone2_final pb xb :
    nth_error sched pb = Some (t, xb) -> (S pa <= pb)%nat ->
    t_cmdi (thr (St pb) t) = i -> t_cmdi (thr (St (S pb)) t) = i + 1 ->
    exists dst, Fin (t_stack (thr (St pb) t)) (W t c pa (S (pb - pa))) dst /\
      hnd (St (S pb)) = match dst with Some (k, hv) => upd (hnd (St pb)) k hv | None => hnd (St pb) end.
  Proof.
    intros Hb Hlt Hib Hib'.
    assert (Hlen : (pb < length sched)%nat) by (apply nth_error_Some; congruence).
    pose proof (zone2_inv pb Hlen Hib Hib' (pb - S pa)%nat ltac:(lia)) as Zb.
    replace (S pa + (pb - S pa))%nat with pb in Zb by lia.
    pose proof (StS2_running cf s0 sched t i pb pb (le_n _) Hib Hib') as Hrb.
    replace (S (pb - pa)) with (S (S (pb - S pa))) by lia.
    change (W t c pa (S (S (pb - S pa)))) with (W t c pa (S (pb - S pa)) ++ step_w2 cf s0 sched t c (pa + S (pb - S pa))).
    replace (pa + S (pb - S pa))%nat with pb by lia.
    destruct (zone2_exec pb xb _ Hb Hrb Zb) as (p & rest & sm & s1 & s1' & l1 & evs & nx & Hs & He & E & Hw & [(l' & stk & EL & Z')|(l' & dst & v & EL & HF)]).
    - exfalso. destruct (land_stack cf (thr (St pb) t) l1 rest nx l' stk (hnd (St pb)) EL) as [Eth _].
      rewrite E in Hib'. cbn [thr] in Hib'. rewrite upd_same in Hib'.
      rewrite thread_after_cmdi in Hib' by (rewrite Eth; cbn; intros Hx; rewrite Hx in Z'; exact (Z_ne _ Z')). lia.
    - destruct (land_done cf (thr (St pb) t) l1 rest nx _ _ _ (hnd (St pb)) EL) as [_ Eh].
      exists dst. rewrite Hw, Hs. split; [exact HF|]. rewrite E. cbn [hnd]. rewrite Eh.
      destruct dst as [[k hv]|]; reflexivity.
  Qed.
End ZoneRun.
