(** * ASModel.Stale2W6 — C04 for runs of [step_stale2] within [RunOKS2]: [swap] takes out exactly
    the value its write replaced ([swap_linearizable_stale2]); [store] writes once and releases
    the value its write replaced ([store_linearizable_stale2]).  Statements of
    [LinSwapMain.swap_linearizable_runok] / [store_linearizable_runok] with [StS2] for the states
    of the run, [step_stale2] for the steps ([one_write_s2], [released_once_s2]). *)
From Coq Require Import Lia.
From ASModel Require Import Base State Orderings_gen Step Run Progress Hist Inv InvTl InvProto InvStep Sum StepCases
  GenDefs Gen1 Gen2 Gen3 Gen Typed1 EnvDefs LinDefs
  Lin1 Lin2 Lin3 Lin4 Lin5 Lin6 Lin7 Lin8 Lin9 Lin10 Lin11 Lin12 Lin13 Lin14 Lin
  LinCache1 LinCache2 LinCache3 LinCache4 LinCache5 LinCache6 LinCache Env
  LinCas1 LinCas2 LinCas3 LinCas5 LinCas LinSwap1 LinSwap2 LinSwap3 LinSwap4 Main.
From ASModel Require Import Stale Stale2 Stale2Inv4 Stale2Inv6 Stale2Inv8 Stale2Inv9 Stale2W2 Stale2W3 Stale2W4 Stale2W5.

Lemma step_stale2_nosite cf s t x p rest :
  t_stack (thr s t) = p :: rest -> stale_site p = false -> step_stale2 cf s t x = step cf s t x.
Proof.
  intros Hs Hp. unfold step_stale2. rewrite Hs. destruct (t_status (thr s t)); try reflexivity.
  destruct (2 <=? x); [|reflexivity]. destruct p; try discriminate Hp; reflexivity.
Qed.

(** The release of the value [old] returned by the swap inside a [store] call of thread [t]
    (CMD step at [pa], completing step [(t, xb)] at [pb], write at [j]). *)
Definition released_once_s2 cf s0 sched (t old : N) (pa pb j : nat) (xb : N) : Prop :=
  let St := StS2 cf s0 sched in
  (old <> 0 -> (j < pb)%nat /\ t_stack (thr (St pb) t) = [PDec old RUnit; KDone None] /\
               exists n evs', snd (step_stale2 cf (St pb) t xb) = EvRc old false n :: evs') /\
  (old = 0 -> (3 <= length (t_stack (thr (St pb) t)))%nat) /\
  (forall k x, (pa < k < pb)%nat -> nth_error sched k = Some (t, x) ->
               (3 <= length (t_stack (thr (St k) t)))%nat).

Section Run2.
  Variables (cf : config) (inits : list N) (progs : list (list cmd)) (sched : list (N * N)).
  Local Notation s0 := (init_state inits progs).
  Hypothesis R : RunOKS2 cf inits progs sched.
  Local Notation St k := (StS2 cf s0 sched k).

  Theorem swap_linearizable_s2 t i c v h2 b pa pb xa tb xb :
    nth_error (t_prog (thr s0 t)) (N.to_nat i) = Some (CSwap c v h2) ->
    (pa <= pb)%nat ->
    nth_error sched pa = Some (t, xa) ->
    t_status (thr (St pa) t) = Running -> t_stack (thr (St pa) t) = [] -> t_cmdi (thr (St pa) t) = i ->
    cmd_enabled (St pa) (CSwap c v h2) = true ->
    src_val (St pa) v = Some b ->
    nth_error sched pb = Some (tb, xb) ->
    t_cmdi (thr (St pb) t) = i -> t_cmdi (thr (St (S pb)) t) = i + 1 ->
    exists old j, hnd (St (S pb)) h2 = HOwned old /\ one_write_s2 cf s0 sched t c old b pa pb j.
  Proof.
    intros Hcm Hab Ha Hra Hsa Hia Hen Hvb Hb Hib Hib'.
    pose proof (StS2_step cf s0 sched pb tb xb Hb) as Eb.
    assert (tb = t) as ->.
    { destruct (N.eq_dec tb t) as [E|E]; [exact E|]. rewrite Eb, step_stale2_other in Hib' by congruence. lia. }
    assert (Hne : forall wr, ~ SwapZ c b [KDone (Some h2)] wr []).
    { intros wr Z. apply SwapZ_length in Z. cbn in Z. lia. }
    assert (Hst : forall s1 l1 stk r,
               cmd_start cf (St pa) (t_loc (thr (St pa) t)) (CSwap c v h2) = inl (s1, l1, stk, r) ->
               SwapZ c b [KDone (Some h2)] [] stk).
    { intros s1 l1 stk r Hcs. eapply cmd_start_swap; eassumption. }
    destruct (zone2_started cf inits progs sched c _ Hne t i _ pa xa Hcm Ha Hra Hsa Hia Hen Hst) as (_ & Hi0 & _).
    assert (Hlt : (S pa <= pb)%nat).
    { destruct (Nat.eq_dec pa pb) as [Heq|Hneq]; [|lia]. subst pb. lia. }
    destruct (zone2_final cf inits progs sched R c _ (SwapFin b h2) Hne (swap_zstep cf c b h2)
                t i _ pa xa Hcm Ha Hra Hsa Hia Hen Hst pb xb Hb Hlt Hib Hib') as (dst & (old & Hwr & ->) & Hh).
    destruct (one_write_of_wsum2 cf s0 sched t c old b pa (pb - pa) Hwr) as (j & Hj).
    exists old, j. split; [rewrite Hh; apply upd_same|].
    replace pb with (pa + (pb - pa))%nat at 1 by lia. exact Hj.
  Qed.

  Section Store.
  Variables (t i c : N) (v : src) (b : N) (pa pb : nat) (xa xb : N).
  Hypotheses (Hcm : nth_error (t_prog (thr s0 t)) (N.to_nat i) = Some (CStore c v))
             (Ha : nth_error sched pa = Some (t, xa))
             (Hra : t_status (thr (St pa) t) = Running) (Hsa : t_stack (thr (St pa) t) = [])
             (Hia : t_cmdi (thr (St pa) t) = i)
             (Hen : cmd_enabled (St pa) (CStore c v) = true)
             (Hvb : src_val (St pa) v = Some b)
             (Hb : nth_error sched pb = Some (t, xb))
             (Hib : t_cmdi (thr (St pb) t) = i) (Hib' : t_cmdi (thr (St (S pb)) t) = i + 1).

  Lemma store_start_s2 s1 l1 stk r :
    cmd_start cf (St pa) (t_loc (thr (St pa) t)) (CStore c v) = inl (s1, l1, stk, r) -> StoreZ c b [] stk.
  Proof. intros Hcs. eapply cmd_start_store_z; eassumption. Qed.

  (** A step of [t] strictly inside the call: the drop frame is not on top. *)
  Lemma store_inside_s2 k x :
    (pa < k < pb)%nat -> nth_error sched k = Some (t, x) -> (3 <= length (t_stack (thr (St k) t)))%nat.
  Proof.
    intros Hk Hn.
    assert (Hlen : (pb < length sched)%nat) by (apply nth_error_Some; congruence).
    pose proof (zone2_inv cf inits progs sched R c _ (StoreFin b) (StoreZ_ne c b) (store_zstep cf c b)
                  t i _ pa xa Hcm Ha Hra Hsa Hia Hen store_start_s2 pb Hlen Hib Hib' (k - S pa)%nat ltac:(lia)) as Zk.
    replace (S pa + (k - S pa))%nat with k in Zk by lia.
    pose proof (StS2_running cf s0 sched t i k pb ltac:(lia) Hib Hib') as Hrk.
    inversion Zk as [wr0 stk0 Z0 E1 E2|old Hold E1 E2].
    - apply SwapZ_length in Z0. cbn [length] in Z0. lia.
    - exfalso.
      destruct (zone2_exec cf inits progs sched R c _ (StoreFin b) (StoreZ_ne c b) (store_zstep cf c b)
                  t k x _ Hn Hrk Zk) as (p & rest & sm & s1 & s1' & l1 & evs & nx & Hs & He & E & _ & HL).
      rewrite <- E2 in Hs. injection Hs as <- <-.
      cbn in He. destruct (rc_dec _ old) as [[s2 e2]|]; injection He as <- <- <- <-; cbn in HL.
      + destruct HL as [(l' & stk & EL & _)|(l' & dst & rv & EL & _)]; [discriminate EL|].
        pose proof (StS2_cmdi_mono cf s0 sched (S k) pb t ltac:(lia)) as M.
        rewrite E in M. cbn [thr] in M. rewrite upd_same in M. cbn in M.
        pose proof (StS2_cmdi_mono cf s0 sched (S pa) k t ltac:(lia)) as M1.
        destruct (zone2_started cf inits progs sched c _ (StoreZ_ne c b) t i _ pa xa Hcm Ha Hra Hsa Hia Hen store_start_s2)
          as (_ & Hi0 & _).
        lia.
      + destruct HL as [(l' & stk & EL & _)|(l' & dst & rv & EL & _)]; discriminate EL.
  Qed.

  Lemma store_lin0_s2 : (pa <= pb)%nat ->
    exists old j, one_write_s2 cf s0 sched t c old b pa pb j /\ released_once_s2 cf s0 sched t old pa pb j xb.
  Proof.
    intros Hab.
    destruct (zone2_started cf inits progs sched c _ (StoreZ_ne c b) t i _ pa xa Hcm Ha Hra Hsa Hia Hen store_start_s2)
      as (_ & Hi0 & _).
    assert (Hlt : (S pa <= pb)%nat).
    { destruct (Nat.eq_dec pa pb) as [Heq|Hneq]; [|lia]. subst pb. lia. }
    destruct (zone2_final cf inits progs sched R c _ (StoreFin b) (StoreZ_ne c b) (store_zstep cf c b)
                t i _ pa xa Hcm Ha Hra Hsa Hia Hen store_start_s2 pb xb Hb Hlt Hib Hib')
      as (dst & (old & Hwr & -> & HA & HB) & _).
    destruct (one_write_of_wsum2 cf s0 sched t c old b pa (pb - pa) Hwr) as (j & Hj).
    replace (pa + (pb - pa))%nat with pb in Hj by lia.
    exists old, j. split; [exact Hj|]. split; [|split; [exact HB|exact store_inside_s2]].
    intros Hold. specialize (HA Hold).
    pose proof (StS2_running cf s0 sched t i pb pb (le_n _) Hib Hib') as Hrb.
    pose proof (m_nofault _ (run_stale2_Master _ _ _ _ R (S pb))) as Hnf'.
    rewrite (StS2_step cf s0 sched pb t xb Hb) in Hnf'.
    pose proof (step_stale2_nosite cf (St pb) t xb _ _ HA eq_refl) as Esame. rewrite Esame in Hnf'.
    split; [|split; [exact HA|rewrite Esame; exact (step_pdec_events cf _ t xb old RUnit _ Hrb HA Hnf')]].
    destruct Hj as (Hrange & (x & Hnx & Hwx) & _).
    destruct (Nat.eq_dec j pb) as [->|Hne]; [exfalso|lia].
    rewrite Hb in Hnx. injection Hnx as <-. rewrite Esame in Hwx.
    destruct (exec cf (sh (St pb)) (t_loc (thr (St pb) t)) (PDec old RUnit) xb) as [[[s1 l1] evs] nx] eqn:He.
    rewrite (step_writes_exec cf (St pb) t xb _ _ s1 l1 evs nx c Hrb HA He) in Hwx.
    rewrite (exec_nowrite _ _ _ _ _ _ _ _ _ c He eq_refl) in Hwx. discriminate Hwx.
  Qed.
  End Store.
End Run2.
