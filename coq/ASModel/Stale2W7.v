(** * ASModel.Stale2W7 — C05: the zone of a compare_and_swap ([LinCas4.CasAt]) over a step of
    [step_stale2]: preserved by the frame step of the acting thread (or the compare_and_swap
    returns), [cas_exec_s2], and by the steps of the other threads, [cas_other_s2]. *)
From Coq Require Import Lia.
From ASModel Require Import Base State Orderings_gen Step Run Progress Hist Inv InvTl InvProto InvStep Sum StepCases
  GenDefs Gen1 Gen2 Gen3 Gen Typed1 EnvDefs LinDefs
  Lin1 Lin2 Lin3 Lin4 Lin5 Lin6 Lin7 Lin8 Lin9 Lin10 Lin11 Lin12 Lin13 Lin14 LinCache1 LinCache2 LinCache3
  LinCas1 LinCas2 LinCas3 LinCas4.
From ASModel Require Import Stale Stale2 Stale2Inv4 Stale2Inv6 Stale2Inv9 Stale2W2 Stale2W3 Stale2W4.

(** [CasAt] depends on the thread, the shared memory and the ghost state only. *)
Lemma CasAt_ext s1 s2 g t c a b tl wr :
  thr s2 t = thr s1 t -> sh s2 = sh s1 -> CasAt s1 g t c a b tl wr -> CasAt s2 g t c a b tl wr.
Proof. intros Et Es [Z H7]. unfold CasAt. rewrite Et, Es. split; assumption. Qed.

Section Step.
  Variables (cf : config) (s : state) (g : ghost) (t x : N).
  Hypotheses (W : WF2 s) (Hcalm : Calm s) (Q : Quiet s) (GI : GenInv s) (EF : EnvFree s)
             (Hnf : NoFault (fst (step cf s t x))).
  Hypotheses (LI : LinInv2 s g).
  Local Notation s2 := (fst (step_stale2 cf s t x)).
  Local Notation g' := (snd (gstep cf (s, g) t x)).
  Variables (c a b : N) (tl : list pc).

  (** The steps of the other threads. *)
  Lemma cas_other_s2 t' wr : t' <> t -> CasAt s g t' c a b tl wr -> CasAt s2 g' t' c a b tl wr.
  Proof.
    intros Hne Z. apply (CasAt_ext (fst (step cf s t x))).
    - rewrite step_stale2_other by exact Hne. symmetry. apply step_status_other. exact Hne.
    - apply step_stale2_sh.
    - apply (cas_other cf s g t x W Q EF LI); assumption.
  Qed.

  (** The frame step of the acting thread. *)
  Lemma cas_exec_s2 wr :
    t_status (thr s t) = Running -> t_stack (thr s t) <> [] ->
    CasAt s g t c a b tl wr ->
    exists p rest s1 l1 evs nx,
      t_stack (thr s t) = p :: rest /\
      s2 = mkState s1 (upd (thr s) t (thread_after cf (thr s t) l1 rest nx)) (hnd_after cf (hnd s) l1 rest nx) /\
      writes_in c (snd (step_stale2 cf s t x)) = writes_in c evs /\
      (CasAt s2 g' t c a b tl (wr ++ writes_in c evs) \/
       exists l' v d, land cf l1 rest nx = unwind cf l' tl (RGuard v d) /\
                      CasRet (PC g' t c) a b (wr ++ writes_in c evs) v) /\
      (wr ++ writes_in c evs = [] -> starts_now s t = false).
  Proof.
    intros Hr Hnil Z.
    destruct (step_stale2_cases3 cf s t x W) as [Esame|p rest l1 e q sm evs' _ Hs Hsite Hq Hex E2 Hwe Hae].
    - rewrite Esame.
      destruct (step_cases2 cf s t x) as [Hr' E2|c0 Hr' Hs Hcc0 Hen0 E2|c0 s1 l1 stk r Hr' Hs Hcc0 Hen0 Hcs E2|n Hr' Hs Hcc0 Hn0 E2|Hr' Hs Hcc0 Hn0 E2|p rest s1 l1 evs nx Hr' Hs He E2];
        try congruence.
      exists p, rest, s1, l1, evs, nx. split; [exact Hs|]. split; [exact E2|].
      split; [apply (step_writes_exec cf s t x p rest s1 l1 evs nx c Hr Hs He)|].
      exact (cas_exec cf s g t x W Hnf LI c a b tl p rest s1 l1 evs nx wr Hr Hs He E2 Z).
    - exists p, rest, (sh s), l1, evs', (NGoto q). split; [exact Hs|]. split; [rewrite E2; reflexivity|].
      assert (Hw0 : writes_in c evs' = []).
      { eapply exec_nowrite; [exact Hex|]. apply pf_not_wfr. apply lfr_pf. apply stale_site_lfr. exact Hsite. }
      split; [rewrite E2, Hw0; cbn [snd]; apply writes_in_single; apply Hwe|].
      rewrite Hw0, app_nil_r.
      destruct Z as [Z H7]. rewrite Hs in Z.
      pose proof (stale_site_not_waiting p Hsite) as Hnw.
      assert (Eth : thr s2 t = mkThread (q :: rest) l1 (t_prog (thr s t)) (t_cmdi (thr s t)) Running)
        by (rewrite E2; cbn; apply upd_same).
      assert (Hno7 : forall cand e0 rest', t_stack (thr s2 t) = LH7 cand e0 :: rest' -> False).
      { intros cand e0 rest' Hstk. rewrite Eth in Hstk. cbn in Hstk. injection Hstk as -> _. discriminate Hq. }
      destruct wr as [|w0 wr0].
      + pose proof (CasZ_not_start _ _ _ _ _ s t p rest Z Hnw Hs) as Hst.
        assert (Hm : forall v, PC g t c v -> PC g' t c v) by (intros v; apply (PC_same cf s g t x LI); exact Hst).
        assert (Hld : @nil (N * N) = [] -> lfr p = true -> vok (PC g t c) p -> nx_lfv (PC g' t c) (NGoto q)).
        { intros _ _ _. apply nx_lfv_goto; [apply quiet_tgt_lfr; exact Hq|apply vok_none; apply quiet_tgt_fval; exact Hq]. }
        split; [|intros _; exact Hst].
        destruct (casz_step cf (PC g t c) (PC g' t c) c a b tl Hm sm (t_loc (thr s t)) p rest x sm l1 evs' (NGoto q) [] Z Hnw Hex Hld)
          as [(l' & stk & EL & Z')|[(l' & v & d & EL & HR)|Hstop]].
        * left. cbn [land] in EL. injection EL as <- <-. rewrite Hw0 in Z'.
          split; [rewrite Eth; exact Z'|]. intros _ cand e0 rest' Hstk. exfalso. eapply Hno7. exact Hstk.
        * right. rewrite Hw0 in HR. eauto.
        * exfalso. exact Hstop.
      + split; [|intros Hx; discriminate Hx].
        assert (Z2 : CasZ (PC g' t c) c a b tl (w0 :: wr0) (p :: rest)) by (eapply CasZ_written; [discriminate|exact Z]).
        assert (Hld : w0 :: wr0 = [] -> lfr p = true -> vok (PC g' t c) p -> nx_lfv (PC g' t c) (NGoto q)) by (intros Hx; discriminate Hx).
        destruct (casz_step cf (PC g' t c) (PC g' t c) c a b tl (fun v H => H) sm (t_loc (thr s t)) p rest x sm l1 evs' (NGoto q) _ Z2 Hnw Hex Hld)
          as [(l' & stk & EL & Z')|[(l' & v & d & EL & HR)|Hstop]].
        * left. cbn [land] in EL. injection EL as <- <-. rewrite Hw0, app_nil_r in Z'.
          split; [rewrite Eth; exact Z'|]. intros Hx. discriminate Hx.
        * right. rewrite Hw0, app_nil_r in HR. eauto.
        * exfalso. exact Hstop.
  Qed.
End Step.
