(** * ASModel.Stale2W8 — C05: the zone of a [CCas] command along a run of [step_stale2] within
    [RunOKS2] (from its CMD step at position [pa] of the schedule up to the state before its
    completing step); [LinCas6] for [StS2] / [grun_stale2]. *)
From Coq Require Import Lia.
From ASModel Require Import Base State Orderings_gen Step Run Progress Hist Inv InvTl InvProto InvStep Sum StepCases
  GenDefs Gen1 Gen2 Gen3 Gen Typed1 EnvDefs LinDefs
  Lin1 Lin2 Lin3 Lin4 Lin5 Lin6 Lin7 Lin8 Lin9 Lin10 Lin11 Lin12 Lin13 Lin14 Lin
  LinCache1 LinCache2 LinCache3 LinCache4 LinCache5 LinCache6 LinCache Env
  LinCas1 LinCas2 LinCas3 LinCas4 LinCas5 LinCas6 Main.
From ASModel Require Import Stale StaleInv8 Stale2 Stale2Inv4 Stale2Inv6 Stale2Inv8 Stale2Inv9 Stale2Inv10 Stale2Inv11
  Stale2W2 Stale2W3 Stale2W4 Stale2W5 Stale2W7.

Section Run2.
  Variables (cf : config) (inits : list N) (progs : list (list cmd)) (sched : list (N * N)).
  Local Notation s0 := (init_state inits progs).
  Hypothesis R : RunOKS2 cf inits progs sched.
  Local Notation St k := (StS2 cf s0 sched k).
  Local Notation Gh k := (snd (grun_stale2 cf (s0, ghost0) (firstn k sched))).
  Local Notation W k := (wsum2 cf s0 sched k).

  (** What the per-step lemmas need, in every state of the run. *)
  Lemma S2_facts j t0 x0 :
    nth_error sched j = Some (t0, x0) ->
    WF2 (St j) /\ Quiet (St j) /\ EnvFree (St j) /\ NoFault (fst (step cf (St j) t0 x0)) /\ LinInv2 (St j) (Gh j).
  Proof.
    intros Hn. pose proof (run_stale2_Master _ _ _ _ R j) as M.
    pose proof (proj1 (ros2_state _ _ _ _ R j)) as GB. pose proof (RunOKS2_ProgOK _ _ _ _ R j) as PO.
    split; [apply M|]. split; [apply M|]. split; [apply EnvInvQ_EnvFree; apply Master_EnvInvQ; exact M|].
    split; [apply (step_Master cf (St j) t0 x0 GB PO (ros2_alloc _ _ _ _ R j t0 x0 Hn) M)|].
    apply (la_lin _ _ (run_stale2_LinAll cf inits progs sched R j)).
  Qed.

  Lemma GhS2_succ' k t x : nth_error sched k = Some (t, x) -> Gh (S k) = snd (gstep cf (St k, Gh k) t x).
  Proof. intros H. rewrite (GhS2_succ cf inits progs sched k t x H). apply gstep_stale2_snd. Qed.

  Variables (t i c : N) (cur new : src) (h2 a b : N) (pa : nat) (xa : N).
  Hypotheses (Hcm : nth_error (t_prog (thr s0 t)) (N.to_nat i) = Some (CCas c cur new h2))
             (Ha : nth_error sched pa = Some (t, xa))
             (Hra : t_status (thr (St pa) t) = Running) (Hsa : t_stack (thr (St pa) t) = [])
             (Hia : t_cmdi (thr (St pa) t) = i)
             (Hen : cmd_enabled (St pa) (CCas c cur new h2) = true)
             (Hva : src_val (St pa) cur = Some a) (Hvb : src_val (St pa) new = Some b).
  Local Notation tl := [KDone (Some h2)].

  Lemma cas_cur_s2 j : t_cmdi (thr (St j) t) = i -> cur_cmd (St j) t = Some (CCas c cur new h2).
  Proof. intros Hj. unfold cur_cmd. rewrite StS2_prog, Hj. exact Hcm. Qed.

  (** The state after the CMD step. *)
  Lemma cas_started_s2 :
    CasAt (St (S pa)) (Gh (S pa)) t c a b tl [] /\ g_start (Gh (S pa)) t = S pa /\
    t_cmdi (thr (St (S pa)) t) = i /\ step_w2 cf s0 sched t c pa = [].
  Proof.
    assert (Hlen : (pa < length sched)%nat) by (apply nth_error_Some; congruence).
    pose proof (StS2_step cf s0 sched pa t xa Ha) as Ea. rewrite (step_stale2_idle cf _ t xa Hsa) in Ea.
    pose proof (cas_cur_s2 pa Hia) as Hc0.
    assert (Hw : step_w2 cf s0 sched t c pa = []).
    { unfold step_w2. rewrite Ha, N.eqb_refl. apply step_stale2_writes_idle. right. exact Hsa. }
    assert (Hst : g_start (Gh (S pa)) t = S pa).
    { rewrite (GhS2_succ' pa t xa Ha), g_start_step, N.eqb_refl.
      unfold starts_now. rewrite Hra, Hsa. cbn. rewrite GhS2_now by lia. reflexivity. }
    destruct (step_cases2 cf (St pa) t xa) as [Hr E|c0 Hr Hs Hcc0 Hen0 E|c0 s1 l1 stk r Hr Hs Hcc0 Hen0 Hcs E|n Hr Hs Hcc0 Hn E|Hr Hs Hcc0 Hn E|p rest s1 l1 evs nx Hr Hs He E];
      try congruence.
    rewrite Hc0 in Hcc0. injection Hcc0 as <-.
    destruct (cmd_start_cas cf _ _ _ _ _ _ a b _ _ _ _ (PC (Gh (S pa)) t c) Hcs Hva Hvb) as [Z Hsh].
    destruct (CasZ_tail _ _ _ _ _ _ _ Z) as (pre & Hpre & Hne).
    assert (Hstk : t_stack (thr (St (S pa)) t) = stk).
    { rewrite Ea, E. cbn [thr set_thread]. rewrite upd_same. apply start_thread_stack. }
    split; [|split; [exact Hst|split; [|exact Hw]]].
    - split; [rewrite Hstk; exact Z|].
      intros _ cand e rest0 H7. rewrite Hstk in H7. exfalso.
      pose proof (cmd_start_no7 _ _ _ _ _ _ _ _ Hcs) as Hno. rewrite H7 in Hno. inversion Hno as [|? ? Hx _]. discriminate Hx.
    - rewrite Ea, E. cbn [thr set_thread]. rewrite upd_same. destruct stk; [|exact Hia].
      destruct pre; [congruence|discriminate Hpre].
  Qed.

  (** Up to the state before the completing step (at position [pb]). *)
  Lemma cas_inv_s2 pb :
    (pb < length sched)%nat ->
    t_cmdi (thr (St pb) t) = i -> t_cmdi (thr (St (S pb)) t) = i + 1 ->
    forall d, (S pa + d <= pb)%nat ->
      CasAt (St (S pa + d)) (Gh (S pa + d)) t c a b tl (W t c pa (S d)) /\
      (W t c pa (S d) = [] -> g_start (Gh (S pa + d)) t = S pa).
  Proof.
    intros Hlen Hib Hib'. destruct cas_started_s2 as (Z0 & Hst0 & Hi0 & Hw0).
    induction d as [|d IH]; intros Hd.
    - rewrite Nat.add_0_r. cbn [wsum2]. rewrite Nat.add_0_r, Hw0. auto.
    - specialize (IH ltac:(lia)). destruct IH as [Z Hst].
      replace (S pa + S d)%nat with (S (S pa + d)) by lia. remember (S pa + d)%nat as j eqn:Hj.
      change (W t c pa (S (S d))) with (W t c pa (S d) ++ step_w2 cf s0 sched t c (pa + S d)).
      replace (pa + S d)%nat with j by lia.
      destruct (nth_error sched j) as [[t0 x0]|] eqn:Hn; [|apply nth_error_None in Hn; lia].
      pose proof (StS2_step cf s0 sched j t0 x0 Hn) as E.
      pose proof (GhS2_succ' j t0 x0 Hn) as EG.
      pose proof (StS2_cmdi_mono cf s0 sched (S pa) j t ltac:(lia)) as M1.
      pose proof (StS2_cmdi_mono cf s0 sched j (S j) t ltac:(lia)) as M2.
      pose proof (StS2_cmdi_mono cf s0 sched (S j) pb t ltac:(lia)) as M3.
      pose proof (StS2_running cf s0 sched t i j pb ltac:(lia) Hib Hib') as Hrj.
      destruct (S2_facts j t0 x0 Hn) as (WF & Q & EF & Hnf' & LI).
      unfold step_w2. rewrite Hn. rewrite E, EG.
      destruct (N.eqb_spec t0 t) as [->|Hne].
      + destruct (CasZ_tail _ _ _ _ _ _ _ (proj1 Z)) as (pre & Hpre & Hpne).
        assert (Hnil : t_stack (thr (St j) t) <> []) by (rewrite Hpre; destruct pre; [congruence|discriminate]).
        destruct (cas_exec_s2 cf (St j) (Gh j) t x0 WF Hnf' LI c a b tl _ Hrj Hnil Z)
          as (p & rest & s1 & l1 & evs & nx & Hs & E2 & Hwv & [Z'|(l' & v & dd & EL & _)] & Hs').
        * rewrite Hwv. split; [exact Z'|]. intros Hw. apply app_eq_nil in Hw as Hw2. destruct Hw2 as [Hw2 _].
          rewrite (g_start_same cf (St j) (Gh j) t x0 (Hs' Hw) t). apply Hst. exact Hw2.
        * exfalso. cbn in EL.
          destruct (land_done cf (thr (St j) t) l1 rest nx _ _ _ (hnd (St j)) EL) as [Eth _].
          rewrite E, E2 in M2, M3. cbn [thr] in M2, M3. rewrite upd_same, Eth in M2, M3. cbn [t_cmdi] in M2, M3. lia.
      + rewrite app_nil_r. split.
        * apply (cas_other_s2 cf (St j) (Gh j) t0 x0 WF Q EF LI c a b tl t); [congruence|exact Z].
        * intros Hw. rewrite (g_start_other cf (St j) (Gh j) t0 x0 t) by congruence. apply Hst. exact Hw.
  Qed.
End Run2.
