(** * ASModel.Stale2W9 — C05 for runs of [step_stale2] within [RunOKS2]: compare_and_swap replaces
    iff the stored pointer equals [current], and returns the previous value
    ([LinCasMain.cas_linearizable_runok] with [StS2] for the states of the run and [step_stale2] for
    its steps: [no_write_s2], [one_write_s2]).

    The internal loads of compare_and_swap take the fast path, whose first read and slot scan may
    be answered with stale values, and [pay_all] after the exchange calls [Node::get], whose look
    at [in_use] and read of the list head may be stale: neither changes what the exchange
    compares, what is written, nor the freshness of the value returned on failure. *)
From Coq Require Import Lia.
From ASModel Require Import Base State Orderings_gen Step Run Progress Hist Inv InvTl InvProto InvStep Sum StepCases
  GenDefs Gen1 Gen2 Gen3 Gen Typed1 EnvDefs LinDefs
  Lin1 Lin2 Lin3 Lin4 Lin5 Lin6 Lin7 Lin8 Lin9 Lin10 Lin11 Lin12 Lin13 Lin14 Lin
  LinCache1 LinCache2 LinCache3 LinCache4 LinCache5 LinCache6 LinCache Env
  LinCas1 LinCas2 LinCas3 LinCas4 LinCas5 LinCas6 Main.
From ASModel Require Import Stale StaleInv8 Stale2 Stale2Inv4 Stale2Inv6 Stale2Inv8 Stale2Inv9 Stale2Inv10 Stale2Inv11
  Stale2W2 Stale2W3 Stale2W4 Stale2W5 Stale2W7 Stale2W8.

Section Run2.
  Variables (cf : config) (inits : list N) (progs : list (list cmd)) (sched : list (N * N)).
  Local Notation s0 := (init_state inits progs).
  Hypothesis R : RunOKS2 cf inits progs sched.
  Local Notation St k := (StS2 cf s0 sched k).
  Local Notation Gh k := (snd (grun_stale2 cf (s0, ghost0) (firstn k sched))).

  Theorem cas_linearizable_s2 t i c cur new h2 a b pa pb xa tb xb :
    nth_error (t_prog (thr s0 t)) (N.to_nat i) = Some (CCas c cur new h2) ->
    (pa <= pb)%nat ->
    nth_error sched pa = Some (t, xa) ->
    t_status (thr (St pa) t) = Running -> t_stack (thr (St pa) t) = [] -> t_cmdi (thr (St pa) t) = i ->
    cmd_enabled (St pa) (CCas c cur new h2) = true ->
    src_val (St pa) cur = Some a -> src_val (St pa) new = Some b ->
    nth_error sched pb = Some (tb, xb) ->
    t_cmdi (thr (St pb) t) = i -> t_cmdi (thr (St (S pb)) t) = i + 1 ->
    exists p d, hnd (St (S pb)) h2 = HGuard p d /\
      ((p <> a /\
        (exists j, (pa + 1 <= j <= pb + 1)%nat /\ mem (sh (St j)) (LStore c) = p) /\
        no_write_s2 cf s0 sched t c pa pb)
       \/ (p = a /\ exists j, one_write_s2 cf s0 sched t c a b pa pb j)).
  Proof.
    intros Hcm Hab Ha Hra Hsa Hia Hen Hva Hvb Hb Hib Hib'.
    assert (Hlen : (pb < length sched)%nat) by (apply nth_error_Some; congruence).
    pose proof (StS2_step cf s0 sched pb tb xb Hb) as Eb.
    assert (tb = t) as ->.
    { destruct (N.eq_dec tb t) as [E|E]; [exact E|]. rewrite Eb, step_stale2_other in Hib' by congruence. lia. }
    destruct (cas_started_s2 cf inits progs sched t i c cur new h2 a b pa xa Hcm Ha Hra Hsa Hia Hen Hva Hvb)
      as (_ & _ & Hi0 & _).
    assert (Hlt : (S pa <= pb)%nat).
    { destruct (Nat.eq_dec pa pb) as [Heq|Hneq]; [|lia]. subst pb. lia. }
    destruct (cas_inv_s2 cf inits progs sched R t i c cur new h2 a b pa xa
                Hcm Ha Hra Hsa Hia Hen Hva Hvb pb Hlen Hib Hib' (pb - S pa)%nat ltac:(lia)) as [Z Hst].
    replace (S pa + (pb - S pa))%nat with pb in Z, Hst by lia.
    remember (pb - S pa)%nat as d eqn:Hd.
    pose proof (GhS2_succ' cf inits progs sched pb t xb Hb) as EG.
    pose proof (StS2_running cf s0 sched t i pb pb (le_n _) Hib Hib') as Hrb.
    destruct (S2_facts cf inits progs sched R pb t xb Hb) as (WF & Q & EF & Hnf' & LI).
    destruct (CasZ_tail _ _ _ _ _ _ _ (proj1 Z)) as (pre & Hpre & Hpne).
    assert (Hnil : t_stack (thr (St pb) t) <> []) by (rewrite Hpre; destruct pre; [congruence|discriminate]).
    destruct (cas_exec_s2 cf (St pb) (Gh pb) t xb WF Hnf' LI c a b [KDone (Some h2)] _ Hrb Hnil Z)
      as (p & rest & s1 & l1 & evs & nx & Hs & E2 & Hwv & [Z'|(l' & v & dd & EL & HR)] & Hs').
    - exfalso. destruct (CasZ_tail _ _ _ _ _ _ _ (proj1 Z')) as (pre' & Hpre' & Hpne').
      rewrite E2 in Hpre'. cbn [thr] in Hpre'. rewrite upd_same in Hpre'.
      rewrite Eb, E2 in Hib'. cbn [thr] in Hib'. rewrite upd_same in Hib'.
      rewrite thread_after_cmdi in Hib' by (rewrite Hpre'; destruct pre'; [congruence|discriminate]). lia.
    - assert (Hw : wsum2 cf s0 sched t c pa (S (S d)) = wsum2 cf s0 sched t c pa (S d) ++ writes_in c evs).
      { change (wsum2 cf s0 sched t c pa (S (S d))) with (wsum2 cf s0 sched t c pa (S d) ++ step_w2 cf s0 sched t c (pa + S d)).
        replace (pa + S d)%nat with pb by lia. unfold step_w2. rewrite Hb, N.eqb_refl, Hwv. reflexivity. }
      cbn in EL. destruct (land_done cf (thr (St pb) t) l1 rest nx _ _ _ (hnd (St pb)) EL) as [_ Eh].
      exists v, dd. split.
      { rewrite Eb, E2. cbn [hnd]. rewrite Eh. apply upd_same. }
      rewrite <- Hw in HR, Hs'. rewrite <- EG in HR.
      destruct HR as [(Hva' & HP & Hwr)|[-> Hwr]].
      + left. split; [exact Hva'|]. split.
        * rewrite Hw in Hwr. pose proof Hwr as Hwr0. rewrite <- Hw in Hwr0. pose proof (Hs' Hwr0) as Hsn.
          apply app_eq_nil in Hwr as [Hwr1 _].
          assert (Hstart : g_start (Gh (S pb)) t = S pa).
          { rewrite EG, (g_start_same cf (St pb) (Gh pb) t xb Hsn t). apply Hst. exact Hwr1. }
          destruct (lt_sound_stale2 cf s0 (firstn (S pb) sched) c v) as [Hk1 Hk2]. cbn zeta in Hk1, Hk2.
          rewrite firstn_length in Hk1. unfold PC in HP.
          exists (g_lt (Gh (S pb)) c v). split; [lia|].
          unfold StS2. rewrite firstn_firstn in Hk2. rewrite Nat.min_l in Hk2 by lia. apply Hk2. lia.
        * intros j Hj. apply (wsum2_nil cf s0 sched t c pa (S (S d)) Hwr). lia.
      + right. split; [reflexivity|].
        destruct (one_write_of_wsum2 cf s0 sched t c a b pa (S d) Hwr) as (j & Hj).
        exists j. replace pb with (pa + S d)%nat by lia. exact Hj.
  Qed.
End Run2.

(** The statement of [LinCasMain.cas_linearizable_runok] for runs of [step_stale2]. *)
Theorem cas_linearizable_stale2 cf inits progs sched t i c cur new h2 a b pa pb xa tb xb :
  let s0 := init_state inits progs in
  let St := fun k => StS2 cf s0 sched k in
  RunOKS2 cf inits progs sched ->
  nth_error (t_prog (thr s0 t)) (N.to_nat i) = Some (CCas c cur new h2) ->
  (pa <= pb)%nat ->
  nth_error sched pa = Some (t, xa) ->
  t_status (thr (St pa) t) = Running -> t_stack (thr (St pa) t) = [] -> t_cmdi (thr (St pa) t) = i ->
  cmd_enabled (St pa) (CCas c cur new h2) = true ->
  src_val (St pa) cur = Some a -> src_val (St pa) new = Some b ->
  nth_error sched pb = Some (tb, xb) ->
  t_cmdi (thr (St pb) t) = i -> t_cmdi (thr (St (S pb)) t) = i + 1 ->
  exists p d, hnd (St (S pb)) h2 = HGuard p d /\
    ((p <> a /\
      (exists j, (pa + 1 <= j <= pb + 1)%nat /\ mem (sh (St j)) (LStore c) = p) /\
      no_write_s2 cf s0 sched t c pa pb)
     \/ (p = a /\ exists j, one_write_s2 cf s0 sched t c a b pa pb j)).
Proof. intros s0 St0 R. subst s0 St0. cbn beta. exact (cas_linearizable_s2 cf inits progs sched R t i c cur new h2 a b pa pb xa tb xb). Qed.

Print Assumptions cas_linearizable_stale2.
