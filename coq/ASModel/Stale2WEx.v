(** * ASModel.Stale2WEx — the writer-side theorems for runs of [step_stale2] are not vacuous.

    Run [sz2] (one thread, debug assertions on): [load]; [new]; [compare_and_swap]; [rcu]; [swap].
    - step 12, the first read of the internal load of compare_and_swap ([LA1]), is answered with
      4112 (the address just allocated, never stored): the debt is published for 4112, the
      confirmation fails, the load falls back and returns 4096; the exchange succeeds;
    - step 48, the first read of the load of [rcu], is answered with 4096 - the value the
      compare_and_swap has replaced; step 50, the scan of slot 0, is answered with the paid debt
      4096; the confirmation fails, the fallback returns 4112; the closure's value 4128 replaces it.
    Run [sx2] of [Stale2InvEx]: the [store] of thread 1 contains the stale look at [in_use]
    (step 56) and the stale read of the list head (step 59). *)
From Coq Require Import Lia.
From ASModel Require Import Base State Orderings_gen Step Run Progress Hist Inv InvTl InvProto InvStep Sum StepCases.
From ASModel Require Import LinCasR1 Main.
From ASModel Require Import Stale Stale2 Stale2Inv6 Stale2Inv8 Stale2Inv9 Stale2InvEx
  Stale2W4 Stale2W6 Stale2W9 Stale2W10 Stale2W11 Stale2W12.

Definition sz2_cf : config := mkConfig true true.
Definition sz2_inits : list N := [4096].
Definition sz2_progs : list (list cmd) :=
  [[CLoad 0 1; CNew 20; CCas 0 (SHandle 1) (SHandle 20) 2; CRcu 0 RcuNew 3; CSwap 0 SNull 4]].
Definition sz2_sched : list (N * N) :=
  repeat (0, 0) 10 ++ [(0, 4112); (0, 0); (0, 4114)] ++ repeat (0, 0) 35 ++
  [(0, 4098); (0, 0); (0, 4098)] ++ repeat (0, 0) 13 ++ [(0, 4128)] ++ repeat (0, 0) 54.
Definition sz2_s0 : state := init_state sz2_inits sz2_progs.
Definition sz2_St (k : nat) : state := StS2 sz2_cf sz2_s0 sz2_sched k.

Example runoks2_b_example_z : runoks2_b sz2_cf sz2_inits sz2_progs sz2_sched = true.
Proof. vm_compute. reflexivity. Qed.

Example RunOKS2_example_z : RunOKS2 sz2_cf sz2_inits sz2_progs sz2_sched.
Proof. apply runoks2_b_sound. exact runoks2_b_example_z. Qed.

(** The stale loads are taken: the frames after steps 12, 48 and 50. *)
Example sz2_stale_frames :
  hd_error (t_stack (thr (sz2_St 12) 0)) = Some (LA1 0) /\
  hd_error (t_stack (thr (sz2_St 13) 0)) = Some (LA1d 0 4112) /\
  mem (sh (sz2_St 12)) (LStore 0) = 4096 /\
  hd_error (t_stack (thr (sz2_St 48) 0)) = Some (LA1 0) /\
  hd_error (t_stack (thr (sz2_St 49) 0)) = Some (LA1d 0 4096) /\
  mem (sh (sz2_St 48)) (LStore 0) = 4112 /\
  hd_error (t_stack (thr (sz2_St 50) 0)) = Some (LAscan 0 4096 0) /\
  hd_error (t_stack (thr (sz2_St 51) 0)) = Some (LAscan 0 4096 1) /\
  mem (sh (sz2_St 50)) (LSlot 0 0) = NONE.
Proof. vm_compute. repeat split; reflexivity. Qed.

Ltac vc := vm_compute; reflexivity.

(** The states are written [StS2 ..] (not [sz2_St ..]) below: the statements are then syntactically
    instances of the theorems, and no conversion has to evaluate a run. *)
Local Notation zs0 := (init_state sz2_inits sz2_progs).
Local Notation zSt k := (StS2 sz2_cf (init_state sz2_inits sz2_progs) sz2_sched k).
Local Notation xs0 := (init_state sx2_inits sx2_progs).
Local Notation xSt k := (StS2 sx2_cf (init_state sx2_inits sx2_progs) sx2_sched k).

(** compare_and_swap (command 2, steps 11 .. 46) reports success and wrote once. *)
Example sz2_cas :
  hnd (zSt 47) 2 = HGuard 4096 None /\
  exists j, one_write_s2 sz2_cf zs0 sz2_sched 0 0 4096 4112 11 46 j.
Proof.
  split; [vc|].
  pose proof (cas_linearizable_s2 sz2_cf sz2_inits sz2_progs sz2_sched RunOKS2_example_z 0 2 0 (SHandle 1) (SHandle 20)
                2 4096 4112 11 46 0 0 0
                ltac:(vc) ltac:(lia) ltac:(vc) ltac:(vc) ltac:(vc) ltac:(vc) ltac:(vc)
                ltac:(vc) ltac:(vc) ltac:(vc) ltac:(vc) ltac:(vc)) as H.
  destruct H as (p & d & Hh & [(Hne & _)|(_ & Hj)]); [|exact Hj].
  exfalso. apply Hne. vm_compute in Hh. injection Hh as <- _. reflexivity.
Qed.

(** [rcu] (command 3, steps 47 .. 93) returns the value its one write replaced. *)
Example sz2_rcu :
  exists q nw j, hnd (zSt 94) 3 = HOwned q /\
    one_write_s2 sz2_cf zs0 sz2_sched 0 0 q nw 47 93 j /\
    rcu_new (made_to_s2 sz2_cf zs0 sz2_sched 0 47 94) RcuNew q nw.
Proof.
  exact (rcu_linearizable_s2 sz2_cf sz2_inits sz2_progs sz2_sched RunOKS2_example_z 0 3 0 RcuNew 3 47 93 0 0 0
           ltac:(vc) eq_refl ltac:(lia) ltac:(vc) ltac:(vc) ltac:(vc) ltac:(vc) ltac:(vc) ltac:(vc) ltac:(vc)).
Qed.

(** [swap] (command 4, steps 94 .. 112). *)
Example sz2_swap :
  exists old j, hnd (zSt 113) 4 = HOwned old /\ one_write_s2 sz2_cf zs0 sz2_sched 0 0 old 0 94 112 j.
Proof.
  exact (swap_linearizable_s2 sz2_cf sz2_inits sz2_progs sz2_sched RunOKS2_example_z 0 4 0 SNull 4 0 94 112 0 0 0
           ltac:(vc) ltac:(lia) ltac:(vc) ltac:(vc) ltac:(vc) ltac:(vc) ltac:(vc) ltac:(vc) ltac:(vc) ltac:(vc) ltac:(vc)).
Qed.

(** [store] of thread 1 in run [sx2] (command 1, steps 53 .. 101), with the stale loads of
    [Node::get] at steps 56 and 59. *)
Example sx2_store :
  exists old j, one_write_s2 sx2_cf xs0 sx2_sched 1 0 old 4112 53 101 j /\
                released_once_s2 sx2_cf xs0 sx2_sched 1 old 53 101 j 0.
Proof.
  exact (store_lin0_s2 sx2_cf sx2_inits sx2_progs sx2_sched RunOKS2_example 1 1 0 (SHandle 20) 4112 53 101 0 0
           ltac:(vc) ltac:(vc) ltac:(vc) ltac:(vc) ltac:(vc) ltac:(vc) ltac:(vc) ltac:(vc) ltac:(vc) ltac:(vc) ltac:(lia)).
Qed.

Print Assumptions sz2_cas.
Print Assumptions sz2_rcu.
Print Assumptions sz2_swap.
Print Assumptions sx2_store.
