(** * ASModel.Stale2Wr — the end-to-end theorems THROUGH THE WRAP of the generation counter (Wrp*.v)
    for runs of [Stale2.step_stale2] (stale loads at [LA1], [LAscan], [GCool1], [GPush0]).

    The two extensions of the model compose: [MasterW B] (WrpMain: [Master] with the modular
    generation invariant [GenInvW B] in place of [GenInv]) is preserved by a step of
    [step_stale2] under the side conditions of [WrpMain.step_MasterW] plus [stale2_ok].  In
    particular the step of the eighth slot of the scan (a stale non-empty value: the thread
    enters the fallback and its generation counter becomes [+ 4 mod WORD], possibly WRAPPING)
    is the step of [step] from the state with the debug frame [LH0d c] on top, covered by
    [step_MasterW]; all other stale steps are a step of [step] followed by the replacement of
    the new top frame by a [twin]/[twin2], and [GenInvW] survives that replacement
    ([retop_GenInvW], [retop2_GenInvW]) like the other components of [MasterW] (StaleInv1-3,
    Stale2Inv1-3, unchanged).

    - Stale2Wr1: [retop_GenInvW], [MasterW_retop], [step_stale_MasterW] (stale read at [LA1]);
    - Stale2Wr2: [retop2_GenInvW], [MasterW_retop2], [side_ProgOKW], [step_stale2_MasterW];
    - Stale2Wr3: [RunOKWS2], [run_stale2_MasterW], C01, C02;
    - Stale2Wr4: [LinAllW], [gstep_LinAllW], [gstep_stale_LinAllW];
    - Stale2Wr5: [gstep_stale2_LinAllW], [load_returns_fresh_wrap_stale2];
    - Stale2Wr6: [run_stale2_LinAllW], C03, C12;
    - Stale2Wr7: [RunOKWS2] extends [RunOKW] (choices below 2) and [RunOKS2] (length); the example
      runs of Stale2InvEx/Ex2 inhabit it.

    [RunOKWS2] is [WrpMain.RunOKW] (fewer than 2^62 steps, [CSetGen] at most as the first
    command of a thread, no Cache commands, destinations empty, clone sources) over the states
    [StS2] of the run of [step_stale2], plus [stale2_ok] at every position (as in
    [Stale2Inv8.RunOKS2]).  No further hypothesis. *)
From ASModel Require Import Base State Step Run StepCases Gen AccDefs Acc Safe Main LinDefs Lin1 Lin Progress.
From ASModel Require Import WrpDefs WrpGen WrpMain StaleInv4 StaleInv8 Stale2 Stale2Inv6 Stale2Inv8 Stale2Inv9.
From ASModel Require Import Stale2InvEx Stale2InvEx2.
From ASModel Require Export Stale2Wr1 Stale2Wr2 Stale2Wr3 Stale2Wr4 Stale2Wr5 Stale2Wr6 Stale2Wr7.

Check step_stale_MasterW
  : forall cf s t x B, B < WORD -> ProgOKW s -> alloc_ok s t x -> stale_ok s t x -> MasterW B s ->
                       MasterW (B + 4) (fst (Stale.step_stale cf s t x)).
Check step_stale2_MasterW
  : forall cf s t x B, B < WORD -> ProgOKW s -> alloc_ok s t x -> stale2_ok s t x -> MasterW B s ->
                       MasterW (B + 4) (fst (step_stale2 cf s t x)).
Check run_stale2_MasterW_gen
  : forall cf s0 sched, MasterW 0 s0 -> 4 * N.of_nat (length sched) < WORD + 4 ->
      (forall k, ProgOKW (StS2 cf s0 sched k)) ->
      (forall k t x, nth_error sched k = Some (t, x) ->
                     alloc_ok (StS2 cf s0 sched k) t x /\ stale2_ok (StS2 cf s0 sched k) t x) ->
      forall k, (k <= length sched)%nat -> MasterW (4 * N.of_nat k) (StS2 cf s0 sched k).
Check run_stale2_MasterW
  : forall cf inits progs sched, RunOKWS2 cf inits progs sched ->
      forall k, MasterW (4 * N.of_nat (length sched)) (StS2 cf (init_state inits progs) sched k).
Check RunOKS2_RunOKWS2
  : forall cf inits progs sched, RunOKS2 cf inits progs sched -> 4 * N.of_nat (length sched) + 8 < WORD ->
      RunOKWS2 cf inits progs sched.
Check RunOKW_RunOKWS2_lt2
  : forall cf inits progs sched, (forall tx, In tx sched -> snd tx < 2) ->
      RunOKW cf inits progs sched -> RunOKWS2 cf inits progs sched.
Check RunOKWS2_example : RunOKWS2 sx2_cf sx2_inits sx2_progs sx2_sched.
Check RunOKWS2_example_y : RunOKWS2 sy2_cf sx2_inits sx2_progs sy2_sched.
Check C01_no_use_after_free_wrap_stale2
  : forall cf inits progs sched, RunOKWS2 cf inits progs sched ->
      NoFault (run_state_stale2 cf (init_state inits progs) sched) /\
      forall te, In te (snd (run_stale2 cf (init_state inits progs) sched)) ->
        forall a, ~ In (EvFault (FDeadInc a)) (snd te) /\ ~ In (EvFault (FDeadDec a)) (snd te).
Check C01_no_fault_wrap_stale2_prefix
  : forall cf inits progs sched k, RunOKWS2 cf inits progs sched -> NoFault (StS2 cf (init_state inits progs) sched k).
Check C01_no_fault_events_wrap_stale2
  : forall cf inits progs sched, RunOKWS2 cf inits progs sched ->
      (forall k t x, nth_error sched k = Some (t, x) -> enabled (StS2 cf (init_state inits progs) sched k) t = true) ->
      forall te, In te (snd (run_stale2 cf (init_state inits progs) sched)) -> forall f, ~ In (EvFault f) (snd te).
Check C02_accounting_wrap_stale2
  : forall cf inits progs sched, RunOKWS2 cf inits progs sched ->
      AccDefs.Acc (run_state_stale2 cf (init_state inits progs) sched).
Check C02_quiescent_counts_wrap_stale2
  : forall cf inits progs sched a, RunOKWS2 cf inits progs sched ->
      let s := run_state_stale2 cf (init_state inits progs) sched in
      Quiescent s -> valid a ->
      exists nS nC nH,
        Sum.Total (fun ij : N * N => is a (mem (sh s) (LSlot (fst ij) (snd ij)))) nS /\
        Sum.Total (fun c : N => is a (mem (sh s) (LStore c))) nC /\
        Sum.Total (fun h : N => href a (hnd s h)) nH /\
        mem (sh s) (LCount a) + nS = nC + nH.
Check C02_no_owner_destroyed_wrap_stale2
  : forall cf inits progs sched a, RunOKWS2 cf inits progs sched ->
      let s := run_state_stale2 cf (init_state inits progs) sched in
      Quiescent s -> valid a ->
      (forall c, mem (sh s) (LStore c) <> a) -> (forall h, href a (hnd s h) = 0) ->
      mem (sh s) (LCount a) = 0 /\ heap (sh s) a = None /\ forall n j, mem (sh s) (LSlot n j) <> a.
Check gstep_stale2_LinAllW
  : forall cf s g t x B, B < WORD -> ProgOKW s -> alloc_ok s t x -> stale2_ok s t x -> LinAllW B s g ->
      LinAllW (B + 4) (fst (gstep_stale2 cf (s, g) t x)) (snd (gstep_stale2 cf (s, g) t x)).
Check C03_load_linearizable_wrap_stale2
  : forall cf inits progs sched, RunOKWS2 cf inits progs sched ->
    forall t i cm c h pa pb xa tb xb,
      let s0 := init_state inits progs in
      nth_error (t_prog (thr s0 t)) (N.to_nat i) = Some cm -> is_load_of cm c h ->
      (pa <= pb)%nat ->
      nth_error sched pa = Some (t, xa) ->
      t_status (thr (StS2 cf s0 sched pa) t) = Running -> t_stack (thr (StS2 cf s0 sched pa) t) = [] ->
      t_cmdi (thr (StS2 cf s0 sched pa) t) = i ->
      nth_error sched pb = Some (tb, xb) ->
      t_cmdi (thr (StS2 cf s0 sched pb) t) = i -> t_cmdi (thr (StS2 cf s0 sched (S pb)) t) = i + 1 ->
      exists v, (match cm with
                 | CLoad _ _ => exists d, hnd (StS2 cf s0 sched (S pb)) h = HGuard v d
                 | _ => hnd (StS2 cf s0 sched (S pb)) h = HOwned v
                 end) /\
        exists k, (pa + 1 <= k <= pb + 1)%nat /\ mem (sh (StS2 cf s0 sched k)) (LStore c) = v.
Check C12_load_own_container_wrap_stale2
  : forall cf inits progs sched, RunOKWS2 cf inits progs sched ->
    forall t i c h (full : bool) pa pb xa tb xb,
      let s0 := init_state inits progs in
      nth_error (t_prog (thr s0 t)) (N.to_nat i) = Some (if full then CLoadFull c h else CLoad c h) ->
      (pa <= pb)%nat ->
      nth_error sched pa = Some (t, xa) ->
      t_status (thr (StS2 cf s0 sched pa) t) = Running -> t_stack (thr (StS2 cf s0 sched pa) t) = [] ->
      t_cmdi (thr (StS2 cf s0 sched pa) t) = i ->
      nth_error sched pb = Some (tb, xb) ->
      t_cmdi (thr (StS2 cf s0 sched pb) t) = i -> t_cmdi (thr (StS2 cf s0 sched (S pb)) t) = i + 1 ->
      exists v k, handle_ptr (hnd (StS2 cf s0 sched (S pb)) h) = Some v /\
                  (pa + 1 <= k <= pb + 1)%nat /\ mem (sh (StS2 cf s0 sched k)) (LStore c) = v.

Print Assumptions step_stale_MasterW.
Print Assumptions step_stale2_MasterW.
Print Assumptions run_stale2_MasterW_gen.
Print Assumptions run_stale2_MasterW.
Print Assumptions RunOKS2_RunOKWS2.
Print Assumptions C01_no_use_after_free_wrap_stale2.
Print Assumptions C01_no_fault_wrap_stale2_prefix.
Print Assumptions C01_no_fault_events_wrap_stale2.
Print Assumptions C02_accounting_wrap_stale2.
Print Assumptions C02_quiescent_counts_wrap_stale2.
Print Assumptions C02_no_owner_destroyed_wrap_stale2.
Print Assumptions gstep_stale2_LinAllW.
Print Assumptions load_returns_fresh_wrap_stale2.
Print Assumptions C03_load_linearizable_wrap_stale2.
Print Assumptions C12_load_own_container_wrap_stale2.
Print Assumptions RunOKW_RunOKWS2_lt2.
Print Assumptions RunOKWS2_example.
Print Assumptions RunOKWS2_example_y.
