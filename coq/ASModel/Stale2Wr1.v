(** * ASModel.Stale2Wr1 — [MasterW] (the master invariant THROUGH THE WRAP of the generation counter,
    WrpMain) survives a stale first read at [LA1] ([Stale.step_stale]): [GenInvW] does not depend
    on the value carried by a top frame [LAscan]/[LA1d] ([retop_GenInvW], the analogue of
    [StaleInv2.retop_GenInv] with the modular age [GUW] in place of [GU], and with [GenTopW],
    [Fresh]); the other components of [MasterW] are those of [Master] ([StaleInv1-3]). *)
From Coq Require Import Lia.
From ASModel Require Import Base State Orderings_gen Step Run Progress Hist Inv InvTl InvProto InvStep Sum StepCases.
From ASModel Require Import GenDefs Gen1 Gen2 Gen EnvDefs Env4 Env AccDefs Acc ProtDefs Prot11 Typed Safe1 Safe2 Safe8 Safe Main.
From ASModel Require Import WrpDefs WrpGen WrpEnv WrpMain.
From ASModel Require Import Stale StaleInv1 StaleInv2 StaleInv3 StaleInv4.

Section Retop.
Variables (s : state) (t : N) (p p' : pc) (rest : list pc) (thr' : N -> thread).
Hypothesis Hs : t_stack (thr s t) = p :: rest.
Hypothesis Htw : twin p p'.
Hypothesis Hsame : thr' t = mkThread (p' :: rest) (t_loc (thr s t)) (t_prog (thr s t)) (t_cmdi (thr s t)) (t_status (thr s t)).
Hypothesis Hoth : forall t', t' <> t -> thr' t' = thr s t'.

Local Notation s' := (mkState (sh s) thr' (hnd s)).

Lemma retop_GenInvW B : GenInvW B s -> GenInvW B s'.
Proof using Hs Htw Hsame Hoth.
  intros [Wi NU GT FR U C T]. constructor.
  - intros w. eapply Total_ext; [|exact (Wi w)]. intros k. cbn beta. symmetry.
    apply (retop_resv s t p p' rest thr' Hs Htw Hsame Hoth).
  - exact NU.
  - intros t'. rewrite (retop_status s t p p' rest thr' Hs Htw Hsame Hoth), (retop_loc s t p p' rest thr' Hs Htw Hsame Hoth). intros Hr.
    pose proof (GT t' Hr) as H. revert H.
    apply (retop_thread s t p p' rest thr' Hs Htw Hsame Hoth
             (fun th => Forall (gen_frame_ok (t_loc (thr s t'))) (t_stack th) \/ sg_stack (t_loc (thr s t')) (t_stack th))). cbn.
    intros _ _ _ _ [H|(q & g & E & Hq & Hn)].
    + left. inversion H; subst. constructor; [destruct Htw; try exact I; assumption|assumption].
    + exfalso. injection E as -> _. destruct Htw; discriminate Hq.
  - intros t'. rewrite (retop_status s t p p' rest thr' Hs Htw Hsame Hoth), (retop_loc s t p p' rest thr' Hs Htw Hsame Hoth),
      (retop_cmdi s t p p' rest thr' Hs Htw Hsame Hoth). intros Hr Hc Hst. apply (FR t' Hr Hc).
    destruct (N.eq_dec t' t) as [->|Hne].
    + rewrite (retop_stack s t p p' rest thr' Hs Htw Hsame Hoth) in Hst. discriminate Hst.
    + rewrite (retop_other s t p p' rest thr' Hs Htw Hsame Hoth t' Hne) in Hst. exact Hst.
  - intros t' f w ctl Hin Hf th.
    rewrite (retop_owner s t p p' rest thr' Hs Htw Hsame Hoth), (retop_unpublished s t p p' rest thr' Hs Htw Hsame Hoth),
      (retop_loc s t p p' rest thr' Hs Htw Hsame Hoth).
    destruct (retop_in s t p p' rest thr' Hs Htw Hsame Hoth _ _ Hin) as [[_ ->]|[Hin' _]]; [destruct Htw; discriminate Hf|].
    exact (U t' f w ctl Hin' Hf th).
  - intros t' f c w ctl Hin Hf th c'.
    rewrite (retop_owner s t p p' rest thr' Hs Htw Hsame Hoth), (retop_req_of s t p p' rest thr' Hs Htw Hsame Hoth).
    destruct (retop_in s t p p' rest thr' Hs Htw Hsame Hoth _ _ Hin) as [[_ ->]|[Hin' _]]; [destruct Htw; discriminate Hf|].
    exact (C t' f c w ctl Hin' Hf th c').
  - intros t' f w ctl their Hin Hf th c'.
    rewrite (retop_owner s t p p' rest thr' Hs Htw Hsame Hoth), (retop_req_of s t p p' rest thr' Hs Htw Hsame Hoth).
    destruct (retop_in s t p p' rest thr' Hs Htw Hsame Hoth _ _ Hin) as [[_ ->]|[Hin' _]]; [destruct Htw; discriminate Hf|].
    exact (T t' f w ctl their Hin' Hf th c').
Qed.
End Retop.

Lemma MasterW_retop B s t p p' rest thr' :
  t_stack (thr s t) = p :: rest -> twin p p' -> pc_vok p' = true ->
  thr' t = mkThread (p' :: rest) (t_loc (thr s t)) (t_prog (thr s t)) (t_cmdi (thr s t)) (t_status (thr s t)) ->
  (forall t', t' <> t -> thr' t' = thr s t') ->
  MasterW B s -> MasterW B (mkState (sh s) thr' (hnd s)).
Proof.
  intros Hs Htw Hv Hsame Hoth [W Q G E C A P T V CC NF]. constructor.
  - eapply retop_WF2; eassumption.
  - eapply retop_Quiet; eassumption.
  - eapply retop_GenInvW; eassumption.
  - eapply retop_EnvInv; eassumption.
  - exact C.
  - eapply retop_AccInv; eassumption.
  - eapply retop_ProtInv'; eassumption.
  - eapply retop_Typed; eassumption.
  - eapply retop_ValOK; eassumption.
  - eapply retop_CloneCmd; eassumption.
  - eapply retop_NoFault; eassumption.
Qed.

Theorem step_stale_MasterW cf s t x B :
  B < WORD -> ProgOKW s -> alloc_ok s t x -> stale_ok s t x -> MasterW B s ->
  MasterW (B + 4) (fst (step_stale cf s t x)).
Proof.
  intros HB PO AO SO M. pose proof (step_MasterW cf s t x B HB PO AO M) as Mn.
  destruct (step_stale_cases cf s t x) as [E|c rest p p' thr' Hr Hst Hx Hsn Htw Ep' Hsame Hoth E]; rewrite E; [exact Mn|].
  eapply MasterW_retop; try eassumption.
  subst p'. unfold stale_ok in SO. rewrite Hst in SO. specialize (SO Hx).
  destruct (cf_debug cf); cbn; unfold av; rewrite Bool.negb_true_iff, N.eqb_neq; exact SO.
Qed.
