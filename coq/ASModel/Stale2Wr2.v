(** * ASModel.Stale2Wr2 — [MasterW] (WrpMain: the master invariant through the WRAP of the generation
    counter) survives stale loads at all four weakened sites of [Stale2.step_stale2]:
    [step_stale2_MasterW].

    [retop2_GenInvW]: [GenInvW B] survives the replacement of a top frame by its [twin2] (the
    analogue of [Stale2Inv2.retop_GenInv]; the frames concerned carry no generation, are no
    help frames, and a [Node::get] frame is replaced by a [Node::get] frame, so the stack of
    the hook [sg_stack] keeps its shape).  [MasterW_retop2] is [Stale2Inv4.Master_retop2].
    The proof of [step_stale2_MasterW] follows [Stale2Inv6.step_stale2_Master] along
    [step_stale2_cases]; in the eighth-slot case the step is [step] from the state with the
    debug frame [LH0d c] on top: this is the step that adds 4 to the generation counter
    [mod WORD], covered by [step_MasterW] whether it wraps or not. *)
From Coq Require Import Lia.
From ASModel Require Import Base State Orderings_gen Step Run Progress Hist Inv InvTl InvProto InvStep Sum StepCases.
From ASModel Require Import GenDefs Gen1 Gen2 Gen EnvDefs Env4 Env AccDefs Acc ProtDefs Prot11 Typed Safe1 Safe2 Safe8 Safe Main.
From ASModel Require Import WrpDefs WrpGen WrpEnv WrpMain.
From ASModel Require Import Lin Stale StaleInv4 StaleInv5 Stale2 Stale2Inv1 Stale2Inv2 Stale2Inv3 Stale2Inv4 Stale2Inv5 Stale2Inv6.
From ASModel Require Import Stale2Wr1.

Section Retop.
Variables (s : state) (t : N) (p p' : pc) (rest : list pc) (thr' : N -> thread).
Hypothesis Hs : t_stack (thr s t) = p :: rest.
Hypothesis Htw : twin2 p p'.
Hypothesis Hsame : thr' t = mkThread (p' :: rest) (t_loc (thr s t)) (t_prog (thr s t)) (t_cmdi (thr s t)) (t_status (thr s t)).
Hypothesis Hoth : forall t', t' <> t -> thr' t' = thr s t'.

Local Notation s' := (mkState (sh s) thr' (hnd s)).

Lemma retop2_GenInvW B : GenInvW B s -> GenInvW B s'.
Proof using Hs Htw Hsame Hoth.
  intros [Wi NU GT FR U C T]. constructor.
  - intros w. eapply Total_ext; [|exact (Wi w)]. intros k. cbn beta. symmetry.
    apply (retop_resv s t p p' rest thr' Hs Htw Hsame Hoth).
  - exact NU.
  - intros t'. rewrite (retop_status s t p p' rest thr' Hs Htw Hsame Hoth), (retop_loc s t p p' rest thr' Hs Htw Hsame Hoth). intros Hr.
    pose proof (GT t' Hr) as H. revert H.
    apply (retop_thread s t p p' rest thr' Hs Htw Hsame Hoth
             (fun th => Forall (gen_frame_ok (t_loc (thr s t'))) (t_stack th) \/ sg_stack (t_loc (thr s t')) (t_stack th))). cbn.
    intros _ _ _ _ [H|(q & g & E & Hq & Hn)].
    + left. inversion H; subst. constructor; [destruct Htw; try exact I; assumption|assumption].
    + right. injection E as -> ->. exists p', g. split; [reflexivity|]. split; [|exact Hn].
      destruct Htw; try discriminate Hq; reflexivity.
  - intros t'. rewrite (retop_status s t p p' rest thr' Hs Htw Hsame Hoth), (retop_loc s t p p' rest thr' Hs Htw Hsame Hoth),
      (retop_cmdi s t p p' rest thr' Hs Htw Hsame Hoth). intros Hr Hc Hst. apply (FR t' Hr Hc).
    destruct (N.eq_dec t' t) as [->|Hne].
    + rewrite (retop_stack s t p p' rest thr' Hs Htw Hsame Hoth) in Hst. discriminate Hst.
    + rewrite (retop_other s t p p' rest thr' Hs Htw Hsame Hoth t' Hne) in Hst. exact Hst.
  - intros t' f w ctl Hin Hf th.
    rewrite (retop_owner s t p p' rest thr' Hs Htw Hsame Hoth), (retop_unpublished s t p p' rest thr' Hs Htw Hsame Hoth),
      (retop_loc s t p p' rest thr' Hs Htw Hsame Hoth).
    destruct (retop_in s t p p' rest thr' Hs Htw Hsame Hoth _ _ Hin) as [[_ ->]|[Hin' _]]; [destruct Htw; discriminate Hf|].
    exact (U t' f w ctl Hin' Hf th).
  - intros t' f c w ctl Hin Hf th c'.
    rewrite (retop_owner s t p p' rest thr' Hs Htw Hsame Hoth), (retop_req_of s t p p' rest thr' Hs Htw Hsame Hoth).
    destruct (retop_in s t p p' rest thr' Hs Htw Hsame Hoth _ _ Hin) as [[_ ->]|[Hin' _]]; [destruct Htw; discriminate Hf|].
    exact (C t' f c w ctl Hin' Hf th c').
  - intros t' f w ctl their Hin Hf th c'.
    rewrite (retop_owner s t p p' rest thr' Hs Htw Hsame Hoth), (retop_req_of s t p p' rest thr' Hs Htw Hsame Hoth).
    destruct (retop_in s t p p' rest thr' Hs Htw Hsame Hoth _ _ Hin) as [[_ ->]|[Hin' _]]; [destruct Htw; discriminate Hf|].
    exact (T t' f w ctl their Hin' Hf th c').
Qed.
End Retop.

Lemma MasterW_retop2 B s t p p' rest thr' :
  t_stack (thr s t) = p :: rest -> twin2 p p' ->
  thr' t = mkThread (p' :: rest) (t_loc (thr s t)) (t_prog (thr s t)) (t_cmdi (thr s t)) (t_status (thr s t)) ->
  (forall t', t' <> t -> thr' t' = thr s t') ->
  MasterW B s -> MasterW B (mkState (sh s) thr' (hnd s)).
Proof.
  intros Hs Htw Hsame Hoth [W Q G E C A P T V CC NF].
  assert (Hv : pc_vok p' = true).
  { apply (twin2_vok p p' Htw). pose proof (v_stk _ V t) as H. rewrite Hs in H. cbn in H. apply andb_prop in H. apply H. }
  constructor.
  - eapply retop_WF2; eassumption.
  - eapply retop_Quiet; eassumption.
  - eapply retop2_GenInvW; eassumption.
  - eapply retop_EnvInv; eassumption.
  - exact C.
  - eapply retop_AccInv; eassumption.
  - eapply retop_ProtInv'; eassumption.
  - eapply retop_Typed; eassumption.
  - eapply retop_ValOK; eassumption.
  - eapply retop_CloneCmd; eassumption.
  - eapply retop_NoFault; eassumption.
Qed.


(** The hypotheses of [step_MasterW] for the state with another frame on top of thread [t]'s stack. *)
Section Side.
Variables (s : state) (t : N) (p p' : pc) (rest : list pc) (thr' : N -> thread).
Hypothesis Hs : t_stack (thr s t) = p :: rest.
Hypothesis Hsame : thr' t = mkThread (p' :: rest) (t_loc (thr s t)) (t_prog (thr s t)) (t_cmdi (thr s t)) (t_status (thr s t)).
Hypothesis Hoth : forall t', t' <> t -> thr' t' = thr s t'.
Hypothesis Hp' : forall a, p' <> CloneInc a.
Local Notation s' := (mkState (sh s) thr' (hnd s)).

Lemma side_ProgOKW : ProgOKW s -> ProgOKW s'.
Proof using Hs Hsame Hoth Hp'.
  intros (NS & NC & DE & CS). split; [|split; [|split]].
  - intros t' i g. cbn. destruct (N.eq_dec t' t) as [->|Hne]; [rewrite Hsame; apply NS|rewrite Hoth by exact Hne; apply NS].
  - intros t' c. cbn. destruct (N.eq_dec t' t) as [->|Hne]; [rewrite Hsame; apply NC|rewrite Hoth by exact Hne; apply NC].
  - intros t' c h. cbn. destruct (N.eq_dec t' t) as [->|Hne]; [|rewrite Hoth by exact Hne; apply DE].
    rewrite Hsame. cbn. intros Hr Hc Hd. destruct (DE t c h Hr Hc Hd) as [E|[E _]]; [left; exact E|].
    rewrite Hs in E. discriminate E.
  - intros t' h h2 a rest'. cbn. destruct (N.eq_dec t' t) as [->|Hne]; [|rewrite Hoth by exact Hne; apply CS].
    rewrite Hsame. cbn. intros _ _ E. injection E as E _. destruct (Hp' a E).
Qed.
End Side.

Theorem step_stale2_MasterW cf s t x B :
  B < WORD -> ProgOKW s -> alloc_ok s t x -> stale2_ok s t x -> MasterW B s ->
  MasterW (B + 4) (fst (step_stale2 cf s t x)).
Proof.
  intros HB PO AO SO M.
  destruct (step_stale2_cases cf s t x (mw_wf _ _ M) SO)
    as [E|c rest Hst|sn p p' rest thr' Esn Hr Hne Hci Hsn Htw Hsame Hoth E
        |c v i rest thr1 sn q thr2 Hr Hst Hsame1 Hoth1 Esn Hsh Hhnd Hci Hsn Htw Hsame2 Hoth2 E].
  - rewrite E. apply step_MasterW; assumption.
  - rewrite (step_stale2_LA1 cf s t x c rest Hst). apply step_stale_MasterW; try assumption. apply stale2_ok_stale. exact SO.
  - rewrite E. eapply MasterW_retop2; try eassumption. rewrite Esn. apply step_MasterW; assumption.
  - rewrite E. eapply MasterW_retop2; try eassumption. rewrite Esn. apply step_MasterW.
    + exact HB.
    + eapply side_ProgOKW; try eassumption. discriminate.
    + unfold alloc_ok. cbn. rewrite Hsame1. exact I.
    + eapply MasterW_retop2; try eassumption. constructor.
Qed.
