(** * ASModel.Stale2Wr3 — runs of [step_stale2] THROUGH THE WRAP of the generation counter:
    [RunOKWS2] ([WrpMain.RunOKW] over the states [StS2] of a run of [step_stale2], plus
    [Stale2.stale2_ok] at every position), [run_stale2_MasterW], and the end-to-end theorems
    C01 / C02 of WrpMain for such runs. *)
From Coq Require Import Lia.
From ASModel Require Import Base State Orderings_gen Step Run Progress Hist Inv InvTl InvProto InvStep Sum StepCases.
From ASModel Require Import GenDefs Gen1 Gen2 Gen EnvDefs Env4 Env AccDefs Acc ProtDefs Prot11 Typed Safe1 Safe2 Safe8 Safe Main.
From ASModel Require Import WrpDefs WrpGen WrpEnv WrpMain.
From ASModel Require Import Lin Stale Stale2 Stale2Inv1 Stale2Inv4 Stale2Inv5 Stale2Inv6 Stale2Inv8.
From ASModel Require Import Stale2Wr1 Stale2Wr2.

(** ** Runs: after [k] steps, [MasterW (4 * k)] *)
Theorem run_stale2_MasterW_gen cf s0 sched :
  MasterW 0 s0 ->
  4 * N.of_nat (length sched) < WORD + 4 ->
  (forall k, ProgOKW (StS2 cf s0 sched k)) ->
  (forall k t x, nth_error sched k = Some (t, x) ->
                 alloc_ok (StS2 cf s0 sched k) t x /\ stale2_ok (StS2 cf s0 sched k) t x) ->
  forall k, (k <= length sched)%nat -> MasterW (4 * N.of_nat k) (StS2 cf s0 sched k).
Proof.
  intros M0 Hlen Hh Ha. induction k as [|k IH]; intros Hk; [exact M0|].
  destruct (nth_error sched k) as [[t x]|] eqn:Ek.
  - rewrite (StS2_step _ _ _ _ _ _ Ek). destruct (Ha k t x Ek) as [AO SO].
    replace (4 * N.of_nat (S k)) with (4 * N.of_nat k + 4) by lia.
    apply step_stale2_MasterW; [lia|apply Hh|exact AO|exact SO|apply IH; lia].
  - apply nth_error_None in Ek. lia.
Qed.

Corollary run_stale2_MasterW_all cf s0 sched :
  MasterW 0 s0 ->
  4 * N.of_nat (length sched) < WORD + 4 ->
  (forall k, ProgOKW (StS2 cf s0 sched k)) ->
  (forall k t x, nth_error sched k = Some (t, x) ->
                 alloc_ok (StS2 cf s0 sched k) t x /\ stale2_ok (StS2 cf s0 sched k) t x) ->
  forall k, MasterW (4 * N.of_nat (length sched)) (StS2 cf s0 sched k).
Proof.
  intros M0 Hlen Hh Ha k. destruct (Nat.le_gt_cases k (length sched)) as [Hk|Hk].
  - eapply MasterW_mono; [|apply run_stale2_MasterW_gen; eassumption]. lia.
  - unfold StS2. rewrite firstn_all2 by lia. rewrite <- (firstn_all sched) at 2.
    apply (run_stale2_MasterW_gen cf s0 sched M0 Hlen Hh Ha (length sched)). lia.
Qed.

(** ** Runs from an initial state: [WrpMain.RunOKW] / [Stale2Inv8.RunOKS2] *)
Record RunOKWS2 (cf : config) (inits : list N) (progs : list (list cmd)) (sched : list (N * N)) : Prop := {
  rows2_inits : inits_ok inits;
  rows2_progs : progs_okW progs;
  rows2_len : 4 * N.of_nat (length sched) + 8 < WORD;
  rows2_state : forall k, let s := StS2 cf (init_state inits progs) sched k in DstEmpty s /\ CloneSrcCmd s;
  rows2_alloc : forall k t x, nth_error sched k = Some (t, x) ->
                              alloc_ok (StS2 cf (init_state inits progs) sched k) t x;
  rows2_stale : forall k t x, nth_error sched k = Some (t, x) ->
                              stale2_ok (StS2 cf (init_state inits progs) sched k) t x;
}.

Lemma RunOKWS2_ProgOKW cf inits progs sched :
  RunOKWS2 cf inits progs sched -> forall k, ProgOKW (StS2 cf (init_state inits progs) sched k).
Proof.
  intros [Hi [Hg Hc] _ Hs _ _] k. destruct (Hs k) as (DE & CS). split; [|split; [|split]]; try assumption.
  - intros t i g. unfold StS2. rewrite run_state_stale2_prog. apply (SetGenFirst_init inits progs Hg).
  - intros t c. unfold StS2. rewrite run_state_stale2_prog. apply (NoCacheP_init inits progs Hc).
Qed.

Theorem run_stale2_MasterW cf inits progs sched :
  RunOKWS2 cf inits progs sched ->
  forall k, MasterW (4 * N.of_nat (length sched)) (StS2 cf (init_state inits progs) sched k).
Proof.
  intros R. apply run_stale2_MasterW_all.
  - apply MasterW_init. apply R.
  - pose proof (rows2_len _ _ _ _ R). lia.
  - apply RunOKWS2_ProgOKW. exact R.
  - intros k t x Hk. split; [apply (rows2_alloc _ _ _ _ R k t x Hk)|apply (rows2_stale _ _ _ _ R k t x Hk)].
Qed.

Corollary run_stale2_MasterW_end cf inits progs sched :
  RunOKWS2 cf inits progs sched ->
  MasterW (4 * N.of_nat (length sched)) (run_state_stale2 cf (init_state inits progs) sched).
Proof. intros R. rewrite <- StS2_all. apply run_stale2_MasterW. exact R. Qed.

(** [RunOKS2] is the special case of [RunOKWS2] without the hook (given the length of the run). *)
Lemma RunOKS2_RunOKWS2 cf inits progs sched :
  RunOKS2 cf inits progs sched -> 4 * N.of_nat (length sched) + 8 < WORD -> RunOKWS2 cf inits progs sched.
Proof.
  intros [Hi Hp Hs Ha Hst] Hlen. constructor; [exact Hi|apply progs_ok_okW; exact Hp|exact Hlen| |exact Ha|exact Hst].
  intros k. destruct (Hs k) as (_ & H). exact H.
Qed.

(** ** C01: no use after free *)
Theorem step_stale2_no_dead_eventW cf s t x f B :
  MasterW B s -> ProgOKW s -> dead_fault f -> ~ In (EvFault f) (snd (step_stale2 cf s t x)).
Proof.
  intros M PO Hf Hin. apply step_stale2_fault_event in Hin. exact (step_no_dead_eventW cf s t x f B M PO Hf Hin).
Qed.

Theorem C01_no_use_after_free_wrap_stale2 cf inits progs sched :
  RunOKWS2 cf inits progs sched ->
  NoFault (run_state_stale2 cf (init_state inits progs) sched) /\
  forall te, In te (snd (run_stale2 cf (init_state inits progs) sched)) ->
    forall a, ~ In (EvFault (FDeadInc a)) (snd te) /\ ~ In (EvFault (FDeadDec a)) (snd te).
Proof.
  intros R. split; [apply (run_stale2_MasterW_end _ _ _ _ R)|].
  apply (run_stale2_events cf (fun evs => forall a, ~ In (EvFault (FDeadInc a)) evs /\ ~ In (EvFault (FDeadDec a)) evs)).
  intros k t x Hk a.
  pose proof (run_stale2_MasterW _ _ _ _ R k) as M. pose proof (RunOKWS2_ProgOKW _ _ _ _ R k) as PO.
  split; eapply step_stale2_no_dead_eventW; try eassumption; exists a; auto.
Qed.

(** In every state of the run (not only the last one). *)
Corollary C01_no_fault_wrap_stale2_prefix cf inits progs sched k :
  RunOKWS2 cf inits progs sched -> NoFault (StS2 cf (init_state inits progs) sched k).
Proof. intros R. apply (run_stale2_MasterW _ _ _ _ R k). Qed.

Theorem step_stale2_no_fault_eventW cf s t x f B :
  MasterW B s -> ProgOKW s -> alloc_ok s t x -> enabled s t = true -> ~ In (EvFault f) (snd (step_stale2 cf s t x)).
Proof.
  intros M PO AO Hen Hin. apply step_stale2_fault_event in Hin.
  exact (step_no_fault_eventW cf s t x f B M PO AO Hen Hin).
Qed.

Theorem C01_no_fault_events_wrap_stale2 cf inits progs sched :
  RunOKWS2 cf inits progs sched ->
  (forall k t x, nth_error sched k = Some (t, x) -> enabled (StS2 cf (init_state inits progs) sched k) t = true) ->
  forall te, In te (snd (run_stale2 cf (init_state inits progs) sched)) -> forall f, ~ In (EvFault f) (snd te).
Proof.
  intros R Hen. apply (run_stale2_events cf (fun evs => forall f, ~ In (EvFault f) evs)).
  intros k t x Hk f. eapply step_stale2_no_fault_eventW.
  - apply (run_stale2_MasterW _ _ _ _ R k).
  - apply (RunOKWS2_ProgOKW _ _ _ _ R k).
  - apply (rows2_alloc _ _ _ _ R k t x Hk).
  - apply (Hen k t x Hk).
Qed.

(** ** C02: exact accounting *)
Theorem C02_accounting_wrap_stale2 cf inits progs sched :
  RunOKWS2 cf inits progs sched -> Acc (run_state_stale2 cf (init_state inits progs) sched).
Proof. intros R. apply ai_acc. eapply mw_acc. apply run_stale2_MasterW_end. exact R. Qed.

Theorem C02_quiescent_counts_wrap_stale2 cf inits progs sched a :
  RunOKWS2 cf inits progs sched ->
  let s := run_state_stale2 cf (init_state inits progs) sched in
  Quiescent s -> valid a ->
  exists nS nC nH,
    Total (fun ij : N * N => is a (mem (sh s) (LSlot (fst ij) (snd ij)))) nS /\
    Total (fun c : N => is a (mem (sh s) (LStore c))) nC /\
    Total (fun h : N => href a (hnd s h)) nH /\
    mem (sh s) (LCount a) + nS = nC + nH.
Proof.
  intros R s Hq Ha. pose proof (run_stale2_MasterW_end _ _ _ _ R) as M.
  apply quiescent_counts; [apply M|apply M|apply M|exact Hq|exact Ha].
Qed.

Theorem C02_no_owner_destroyed_wrap_stale2 cf inits progs sched a :
  RunOKWS2 cf inits progs sched ->
  let s := run_state_stale2 cf (init_state inits progs) sched in
  Quiescent s -> valid a ->
  (forall c, mem (sh s) (LStore c) <> a) -> (forall h, href a (hnd s h) = 0) ->
  mem (sh s) (LCount a) = 0 /\ heap (sh s) a = None /\ forall n j, mem (sh s) (LSlot n j) <> a.
Proof.
  intros R s Hq Ha Hc Hh. pose proof (run_stale2_MasterW_end _ _ _ _ R) as M.
  apply no_owner_destroyed; [apply M|apply M|apply M|exact Hq|exact Ha|exact Hc|exact Hh].
Qed.
