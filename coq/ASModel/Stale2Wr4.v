(** * ASModel.Stale2Wr4 — the invariants of instrumented states through the wrap: [LinAllW B]
    ([MasterW B], [LinInv2], [LdTyped]: [StaleInv8.LinAll] with [MasterW] in place of [Master]);
    it is preserved by the instrumented step of [step] ([gstep_LinW]) and of [step_stale]
    ([gstep_stale_LinAllW], the stale first read at [LA1]). *)
From Coq Require Import Lia.
From ASModel Require Import Base State Orderings_gen Step Run Progress Hist Inv InvTl InvProto InvStep Sum StepCases.
From ASModel Require Import GenDefs Gen1 Gen2 Gen EnvDefs Env4 Env AccDefs Acc ProtDefs Prot11 Typed Safe1 Safe2 Safe8 Safe.
From ASModel Require Import LinDefs Lin1 Lin2 Lin14 Lin Main.
From ASModel Require Import WrpDefs WrpGen WrpEnv WrpMain WrpLin.
From ASModel Require Import Stale StaleInv1 StaleInv2 StaleInv3 StaleInv4 StaleInv5 StaleInv7 StaleInv8.
From ASModel Require Import Stale2Wr1.

Record LinAllW (B : N) (s : state) (g : ghost) : Prop := {
  law_master : MasterW B s;
  law_lin : LinInv2 s g;
  law_typed : LdTyped s;
}.

(** The instrumented step of [step]. *)
Lemma gstep_LinW cf s g t x B :
  B < WORD -> ProgOKW s -> alloc_ok s t x -> MasterW B s -> LinInv2 s g -> LdTyped s ->
  LinInv2 (fst (step cf s t x)) (snd (gstep cf (s, g) t x)) /\ LdTyped (fst (step cf s t x)).
Proof.
  intros HB PO AO M LI LT.
  pose proof (step_MasterW cf s t x B HB PO AO M) as Mn. pose proof (MasterW_EnvInvWQ B s M) as EQ.
  split.
  - rewrite <- (gstep_fst cf s g t x).
    apply (gstep_LinInv2W cf s g t x B); [apply M|apply M|apply M|apply PO|exact HB
      |eapply EnvInvWQ_EnvFree; exact EQ|eapply EnvInvWQ_EnvA; exact EQ|exact LI|apply Mn].
  - apply step_LdTyped; [apply M|apply Mn|exact LT].
Qed.

Theorem gstep_LinAllW cf s g t x B :
  B < WORD -> ProgOKW s -> alloc_ok s t x -> LinAllW B s g ->
  LinAllW (B + 4) (fst (gstep cf (s, g) t x)) (snd (gstep cf (s, g) t x)).
Proof.
  intros HB PO AO [M LI LT]. destruct (gstep_LinW cf s g t x B HB PO AO M LI LT) as [LIn LTn].
  rewrite gstep_fst. constructor; [apply step_MasterW; assumption|exact LIn|exact LTn].
Qed.

Theorem gstep_stale_LinAllW cf s g t x B :
  B < WORD -> ProgOKW s -> alloc_ok s t x -> stale_ok s t x -> LinAllW B s g ->
  LinAllW (B + 4) (fst (gstep_stale cf (s, g) t x)) (snd (gstep_stale cf (s, g) t x)).
Proof.
  intros HB PO AO SO [M LI LT]. destruct (gstep_LinW cf s g t x B HB PO AO M LI LT) as [LIn LTn].
  rewrite gstep_stale_fst, gstep_stale_snd. constructor.
  - apply step_stale_MasterW; assumption.
  - destruct (step_stale_cases cf s t x) as [E|c rest p p' thr' Hr Hst Hx Hsn Htw Ep' Hsame Hoth E]; rewrite E; [exact LIn|].
    eapply retop_LinInv2; eassumption.
  - destruct (step_stale_cases cf s t x) as [E|c rest p p' thr' Hr Hst Hx Hsn Htw Ep' Hsame Hoth E]; rewrite E; [exact LTn|].
    eapply retop_LdTyped; eassumption.
Qed.
