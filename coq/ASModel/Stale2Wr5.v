(** * ASModel.Stale2Wr5 — [LinAllW] (Stale2Wr4) is preserved by the instrumented step
    [Stale2Inv9.gstep_stale2] ([gstep_stale2_LinAllW], the analogue of
    [Stale2Inv10.gstep_stale2_LinAll] through the wrap); the completing step of a load returns a
    value that is fresh ([load_returns_fresh_wrap_stale2]). *)
From Coq Require Import Lia.
From ASModel Require Import Base State Orderings_gen Step Run Progress Hist Inv InvTl InvProto InvStep Sum StepCases.
From ASModel Require Import GenDefs Gen1 Gen2 Gen EnvDefs Env4 Env AccDefs Acc ProtDefs Prot11 Typed Safe1 Safe2 Safe8 Safe.
From ASModel Require Import LinDefs Lin1 Lin2 Lin14 Lin Main.
From ASModel Require Import WrpDefs WrpGen WrpEnv WrpMain WrpLin.
From ASModel Require Import Stale StaleInv4 StaleInv5 StaleInv8.
From ASModel Require Import Stale2 Stale2Inv1 Stale2Inv2 Stale2Inv3 Stale2Inv4 Stale2Inv5 Stale2Inv6 Stale2Inv7 Stale2Inv9 Stale2Inv10.
From ASModel Require Import Stale2Wr1 Stale2Wr2 Stale2Wr4.

Theorem gstep_stale2_LinAllW cf s g t x B :
  B < WORD -> ProgOKW s -> alloc_ok s t x -> stale2_ok s t x -> LinAllW B s g ->
  LinAllW (B + 4) (fst (gstep_stale2 cf (s, g) t x)) (snd (gstep_stale2 cf (s, g) t x)).
Proof.
  intros HB PO AO SO [M LI LT].
  pose proof (step_stale2_MasterW cf s t x B HB PO AO SO M) as M2.
  destruct (step_stale2_cases cf s t x (mw_wf _ _ M) SO)
    as [E|c rest Hst|sn p p' rest thr' Esn Hr Hne Hci Hsn Htw Hsame Hoth E
        |c v i rest thr1 sn q thr2 Hr Hst Hsame1 Hoth1 Esn Hsh Hhnd Hci Hsn Htw Hsame2 Hoth2 E].
  - (* the step of [step] *)
    destruct (gstep_LinW cf s g t x B HB PO AO M LI LT) as [LIn LTn].
    rewrite gstep_stale2_fst, gstep_stale2_snd. constructor; [exact M2| |]; rewrite E; assumption.
  - (* [LA1]: Stale2Wr4 *)
    rewrite (gstep_stale2_LA1 cf s g t x c rest Hst). apply gstep_stale_LinAllW; try assumption; [|constructor; assumption].
    apply stale2_ok_stale. exact SO.
  - (* the step of [step], then another top frame *)
    destruct (gstep_LinW cf s g t x B HB PO AO M LI LT) as [LIn LTn].
    rewrite gstep_stale2_fst, gstep_stale2_snd. constructor; [exact M2| |]; rewrite E; rewrite Esn in *.
    + eapply retop_LinInv2; eassumption.
    + eapply retop_LdTyped; eassumption.
  - (* [LH0d c] on top, then the step of [step]: the generation counter + 4 [mod WORD] *)
    set (s1 := mkState (sh s) thr1 (hnd s)) in *.
    assert (M1 : MasterW B s1) by (eapply MasterW_retop2; try eassumption; constructor).
    assert (LI1 : LinInv2 s1 g) by (eapply retop_LinInv2; try eassumption; constructor).
    assert (LT1 : LdTyped s1) by (eapply retop_LdTyped; try eassumption; constructor).
    assert (PO1 : ProgOKW s1) by (eapply side_ProgOKW; try eassumption; discriminate).
    assert (AO1 : alloc_ok s1 t 0) by (unfold alloc_ok; cbn; rewrite Hsame1; exact I).
    destruct (gstep_LinW cf s1 g t 0 B HB PO1 AO1 M1 LI1 LT1) as [LIn LTn].
    assert (Eg : snd (gstep cf (s1, g) t 0) = snd (gstep_stale2 cf (s, g) t x)).
    { apply (gstep_pre_snd cf s g t x c v i rest thr1 Hr Hst Hsame1); [fold s1; rewrite <- Esn; exact Hsh|].
      rewrite E. cbn [sh]. exact Hsh. }
    rewrite gstep_stale2_fst, <- Eg. constructor; [exact M2| |]; rewrite E; rewrite Esn in *.
    + eapply retop_LinInv2; eassumption.
    + eapply retop_LdTyped; eassumption.
Qed.

(** ** The step that completes a load: it is never a stale load *)
Theorem load_returns_fresh_wrap_stale2 cf s g t x cm c h B :
  B < WORD -> ProgOKW s -> alloc_ok s t x -> LinAllW B s g ->
  cur_cmd s t = Some cm -> is_load_of cm c h ->
  t_cmdi (thr (fst (step_stale2 cf s t x)) t) = t_cmdi (thr s t) + 1 ->
  let s' := fst (step_stale2 cf s t x) in
  let g' := snd (gstep_stale2 cf (s, g) t x) in
  exists rv, hnd s' h = handle_of rv /\ g_start g' t = g_start g t /\
             (forall v, rval rv = Some v -> (g_lt g' c v >= g_start g' t)%nat) /\
             (forall K, load_kind cm = Some K -> kind_of rv = Some K).
Proof.
  intros HB PO AO [M LI LT] Hcm Hld Hci. cbn zeta. rewrite gstep_stale2_snd, step_stale2_hnd.
  pose proof (step_MasterW cf s t x B HB PO AO M) as Mn.
  assert (Hci' : t_cmdi (thr (fst (step cf s t x)) t) = t_cmdi (thr s t) + 1).
  { destruct (step_stale2_dich cf s t x) as [E|(_ & _ & _ & _ & A & _)]; [rewrite <- E; exact Hci|].
    cbn zeta in A. rewrite A in Hci. lia. }
  destruct (load_returns_freshW cf s g t x cm c h (mw_wf _ _ M) (mw_quiet _ _ M) LI (mw_nofault _ _ Mn) Hcm Hld Hci')
    as (rv & H1 & H2 & H3 & H4 & H5).
  exists rv. split; [exact H1|]. split; [exact H3|]. split; [exact H4|]. intros K. apply H5. exact LT.
Qed.
