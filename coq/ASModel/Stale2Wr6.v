(** * ASModel.Stale2Wr6 — C03 / C12 for runs of [step_stale2] within [RunOKWS2] (Stale2Wr3): a load
    returns a value that its container held between the call and the return, when loads of the
    read path and of [Node::get] are answered with stale values AND the generation counter of a
    thread wraps (or was preset with [CSetGen] as the thread's first command). *)
From Coq Require Import Lia.
From ASModel Require Import Base State Orderings_gen Step Run Progress Hist Inv InvTl InvProto InvStep Sum StepCases.
From ASModel Require Import GenDefs Gen1 Gen2 Gen EnvDefs Env4 Env AccDefs Acc ProtDefs Prot11 Typed Safe1 Safe2 Safe8 Safe.
From ASModel Require Import LinDefs Lin1 Lin2 Lin14 Lin Main.
From ASModel Require Import WrpDefs WrpGen WrpEnv WrpMain WrpLin.
From ASModel Require Import Stale StaleInv8 Stale2 Stale2Inv6 Stale2Inv8 Stale2Inv9 Stale2Inv10 Stale2Inv11.
From ASModel Require Import Stale2Wr1 Stale2Wr2 Stale2Wr3 Stale2Wr4 Stale2Wr5.

Section Loads.
Variables (cf : config) (inits : list N) (progs : list (list cmd)) (sched : list (N * N)).
Hypothesis R : RunOKWS2 cf inits progs sched.
Local Notation s0 := (init_state inits progs).
Local Notation St k := (StS2 cf s0 sched k).
Local Notation Gh k := (snd (grun_stale2 cf (s0, ghost0) (firstn k sched))).

(** After [k] steps: [LinAllW (4 * k)]. *)
Lemma run_stale2_LinAllW k : (k <= length sched)%nat -> LinAllW (4 * N.of_nat k) (St k) (Gh k).
Proof using R.
  pose proof (rows2_len _ _ _ _ R) as Hlen.
  induction k as [|k IH]; intros Hk.
  - constructor; [apply MasterW_init; apply R|apply LinInv2_init|apply LdTyped_init].
  - destruct (nth_error sched k) as [[t x]|] eqn:Ek.
    + rewrite (StS2_step _ _ _ _ _ _ Ek), (GhS2_succ cf inits progs sched k t x Ek), <- gstep_stale2_fst with (g := Gh k).
      replace (4 * N.of_nat (S k)) with (4 * N.of_nat k + 4) by lia.
      apply gstep_stale2_LinAllW; [lia|apply RunOKWS2_ProgOKW; exact R
                                  |apply (rows2_alloc _ _ _ _ R k t x Ek)|apply (rows2_stale _ _ _ _ R k t x Ek)|apply IH; lia].
    + apply nth_error_None in Ek. lia.
Qed.

(** Command number [i] of thread [t] is [load]/[load_full] of container [c] into handle [h];
    it starts with the step at position [pa] of the schedule and completes with the step at
    position [pb].  Then [h] holds a guard / an owned pointer on a value [v] that the
    container [c] stored in one of the states between the call and the return. *)
Theorem C03_load_linearizable_wrap_stale2 t i cm c h pa pb xa tb xb :
  nth_error (t_prog (thr s0 t)) (N.to_nat i) = Some cm -> is_load_of cm c h ->
  (pa <= pb)%nat ->
  nth_error sched pa = Some (t, xa) ->
  t_status (thr (St pa) t) = Running -> t_stack (thr (St pa) t) = [] -> t_cmdi (thr (St pa) t) = i ->
  nth_error sched pb = Some (tb, xb) ->
  t_cmdi (thr (St pb) t) = i -> t_cmdi (thr (St (S pb)) t) = i + 1 ->
  exists v, (match cm with
             | CLoad _ _ => exists d, hnd (St (S pb)) h = HGuard v d
             | _ => hnd (St (S pb)) h = HOwned v
             end) /\
    exists k, (pa + 1 <= k <= pb + 1)%nat /\ mem (sh (St k)) (LStore c) = v.
Proof using R.
  intros Hcm Hld Hab Ha Hra Hsa Hia Hb Hib Hib'.
  assert (Hlen : (pb < length sched)%nat) by (apply nth_error_Some; congruence).
  pose proof (rows2_len _ _ _ _ R) as HL.
  pose proof Hib' as Hib2. rewrite (StS2_step _ _ _ _ _ _ Hb) in Hib2.
  assert (tb = t) as ->.
  { destruct (N.eq_dec tb t) as [E|E]; [exact E|]. rewrite step_stale2_other in Hib2 by congruence. lia. }
  pose proof (run_stale2_LinAllW pb ltac:(lia)) as LA.
  assert (Hcur : cur_cmd (St pb) t = Some cm).
  { unfold cur_cmd. rewrite Hib. unfold StS2. rewrite run_state_stale2_prog. exact Hcm. }
  rewrite <- Hib in Hib2.
  assert (HB : 4 * N.of_nat pb < WORD) by lia.
  destruct (load_returns_fresh_wrap_stale2 cf (St pb) (Gh pb) t xb cm c h (4 * N.of_nat pb)
              HB (RunOKWS2_ProgOKW _ _ _ _ R pb) (rows2_alloc _ _ _ _ R pb t xb Hb) LA Hcur Hld Hib2)
    as (rv & Hh & Hst & Hfr & Hkind).
  rewrite <- (StS2_step _ _ _ _ _ _ Hb) in Hh. rewrite <- (GhS2_succ cf inits progs sched pb t xb Hb) in Hst, Hfr.
  (* the value is fresh: it was stored after the load started, at time [pa + 1] *)
  assert (Hstart : g_start (Gh (S pa)) t = S pa).
  { rewrite (GhS2_succ cf inits progs sched pa t xa Ha), gstep_stale2_snd, g_start_step, N.eqb_refl.
    unfold starts_now. rewrite Hra, Hsa. cbn. rewrite GhS2_now by lia. reflexivity. }
  pose proof (GhS2_start_mono cf inits progs sched (S pa) (S pb) t ltac:(lia)) as Hmono.
  assert (Hwit : forall v, rval rv = Some v ->
                   exists k, (pa + 1 <= k <= pb + 1)%nat /\ mem (sh (St k)) (LStore c) = v).
  { intros v Hv. specialize (Hfr v Hv).
    destruct (lt_sound_stale2 cf s0 (firstn (S pb) sched) c v) as [Hk1 Hk2]. cbn zeta in Hk1, Hk2.
    rewrite firstn_length in Hk1.
    exists (g_lt (Gh (S pb)) c v). split; [lia|].
    unfold StS2. rewrite firstn_firstn in Hk2. rewrite Nat.min_l in Hk2 by lia. apply Hk2. lia. }
  destruct Hld as [-> | ->].
  - pose proof (Hkind KGuard eq_refl) as Hkd. destruct rv; try discriminate Hkd.
    exists p. split; [exists d; exact Hh|]. apply Hwit. reflexivity.
  - pose proof (Hkind KOwned eq_refl) as Hkd. destruct rv; try discriminate Hkd.
    exists p. split; [exact Hh|]. apply Hwit. reflexivity.
Qed.

(** C12: a load returns a value of ITS OWN container. *)
Theorem C12_load_own_container_wrap_stale2 t i c h full pa pb xa tb xb :
  nth_error (t_prog (thr s0 t)) (N.to_nat i) = Some (if full : bool then CLoadFull c h else CLoad c h) ->
  (pa <= pb)%nat ->
  nth_error sched pa = Some (t, xa) ->
  t_status (thr (St pa) t) = Running -> t_stack (thr (St pa) t) = [] -> t_cmdi (thr (St pa) t) = i ->
  nth_error sched pb = Some (tb, xb) ->
  t_cmdi (thr (St pb) t) = i -> t_cmdi (thr (St (S pb)) t) = i + 1 ->
  exists v k, handle_ptr (hnd (St (S pb)) h) = Some v /\
              (pa + 1 <= k <= pb + 1)%nat /\ mem (sh (St k)) (LStore c) = v.
Proof using R.
  intros Hcm Hab Ha Hra Hsa Hia Hb Hib Hib'.
  assert (Hld : is_load_of (if full then CLoadFull c h else CLoad c h) c h) by (destruct full; [right|left]; reflexivity).
  destruct (C03_load_linearizable_wrap_stale2 t i _ c h pa pb xa tb xb Hcm Hld Hab Ha Hra Hsa Hia Hb Hib Hib') as (v & Hh & k & Hk & Hm).
  exists v, k. split; [|split; assumption].
  destruct full; [rewrite Hh; reflexivity|destruct Hh as [d ->]; reflexivity].
Qed.
End Loads.
