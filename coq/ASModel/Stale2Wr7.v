(** * ASModel.Stale2Wr7 — [RunOKWS2] (Stale2Wr3) extends both [WrpMain.RunOKW] and
    [Stale2Inv8.RunOKS2]:
    - a run within [RunOKW] whose choices are all below 2 (no load is answered with a supplied
      value: [step_stale2] is [step]) is within [RunOKWS2] ([RunOKW_RunOKWS2_lt2]);
    - a run within [RunOKS2] of fewer than 2^62 steps is within [RunOKWS2]
      ([Stale2Wr3.RunOKS2_RunOKWS2]); hence the two example runs of Stale2InvEx/Ex2 (stale
      loads at the weakened sites, no wrap) inhabit [RunOKWS2] (only the LENGTH of the schedule
      is computed here). *)
From Coq Require Import Lia.
From ASModel Require Import Base State Orderings_gen Step Run Progress Hist Inv InvTl InvProto InvStep Sum StepCases.
From ASModel Require Import Gen Acc Safe Main WrpDefs WrpGen WrpMain.
From ASModel Require Import Stale2 Stale2Inv6 Stale2Inv8 Stale2InvEx Stale2InvEx2 Stale2Wr3.

Lemma In_firstn_in {A} : forall k (l : list A) a, In a (firstn k l) -> In a l.
Proof.
  induction k as [|k IH]; intros l a; [intros []|].
  destruct l as [|b l]; [intros []|]. cbn.
  intros [E|Hin]; [left; exact E|right; apply IH; exact Hin].
Qed.

Lemma run_state_stale2_lt2 cf : forall sched s,
  (forall tx, In tx sched -> snd tx < 2) -> run_state_stale2 cf s sched = run_state cf s sched.
Proof.
  induction sched as [|[t x] sched IH]; intros s H; [reflexivity|].
  rewrite run_state_stale2_cons, run_state_cons, (step_stale2_lt2 cf s t x (H (t, x) (or_introl eq_refl))).
  apply IH. intros tx Hin. apply H. right. exact Hin.
Qed.

Lemma StS2_St_lt2 cf s0 sched k :
  (forall tx, In tx sched -> snd tx < 2) -> StS2 cf s0 sched k = St cf s0 sched k.
Proof.
  intros H. unfold StS2, St. apply run_state_stale2_lt2.
  intros tx Hin. apply H. exact (In_firstn_in k sched tx Hin).
Qed.

Theorem RunOKW_RunOKWS2_lt2 cf inits progs sched :
  (forall tx, In tx sched -> snd tx < 2) -> RunOKW cf inits progs sched -> RunOKWS2 cf inits progs sched.
Proof.
  intros H [Hi Hp Hl Hs Ha]. constructor; [exact Hi|exact Hp|exact Hl| | |].
  - intros k. cbn zeta. rewrite (StS2_St_lt2 cf _ sched k H). apply Hs.
  - intros k t x Hk. rewrite (StS2_St_lt2 cf _ sched k H). apply Ha. exact Hk.
  - intros k t x Hk Hx. exfalso. pose proof (H (t, x) (nth_error_In _ _ Hk)) as Hlt. cbn in Hlt. lia.
Qed.

Example RunOKWS2_example : RunOKWS2 sx2_cf sx2_inits sx2_progs sx2_sched.
Proof. apply RunOKS2_RunOKWS2; [exact RunOKS2_example|vm_compute; reflexivity]. Qed.

Example RunOKWS2_example_y : RunOKWS2 sy2_cf sx2_inits sx2_progs sy2_sched.
Proof. apply RunOKS2_RunOKWS2; [exact RunOKS2_example_y|vm_compute; reflexivity]. Qed.
