(** * ASModel.Stale2WrEx — non-vacuity of [Stale2Wr3.RunOKWS2] THROUGH THE WRAP: a run of
    [Stale2.step_stale2] in which the generation counter of a thread WRAPS (passes [WORD]) in the
    very step that takes a STALE value.

    [runokws2_b] is a boolean checker with [runokws2_b ... = true -> RunOKWS2 ...]: the run
    checker of [WrpEx.runW_b] (per-state check [scope_stateW], without [GenBound]; [progsW_b]:
    [CSetGen] at most as the first command, no Cache commands; fewer than 2^62 steps) over the
    states of [step_stale2], plus [Stale2InvEx.stale2_b] at every position.  It is run
    ([vm_compute] on the closed boolean) on the run [wsx]:

    fast strategy, no debug assertions (as [Stale2InvEx.sy2]); container 0 holds 4096.  The
    reader (thread 0) presets its generation counter with [CSetGen (WORD - 4)] as its first
    command, then loads eight times (eight guards, a debt in each slot of its node); the writer
    (thread 1) replaces 4096 by 4112 and pays the eight debts (two of its own loads, at [GCool1]
    and [GPush0], are answered with stale values); the reader's ninth load scans its eight slots
    and is answered EIGHT times with the debt it had published there (4096, paid since): after
    the eighth slot it enters the fallback with the next generation, [WORD - 4 + 4 = 0 mod WORD]:
    the counter WRAPS, the published control word is [GEN_TAG] alone, the node is marked for
    discarding and given up through the cooldown after the load. *)
From Coq Require Import Lia.
From ASModel Require Import Base State Orderings_gen Step Run Progress Hist Inv InvTl InvProto InvStep Sum StepCases.
From ASModel Require Import GenDefs Gen1 Gen2 Gen AccDefs Acc2 Acc Prot11 Safe1 Safe2 Safe8 Safe Scope Main RunOKEx.
From ASModel Require Import WrpDefs WrpGen WrpEnv WrpMain WrpEx.
From ASModel Require Import Stale Stale2 Stale2Inv6 Stale2Inv8 Stale2Inv9 Stale2InvEx Stale2Wr3.

(** ** The checker *)
Fixpoint runWS2_b (cf : config) (n : nat) (s : state) (sched : list (N * N)) : bool :=
  scope_stateW n s &&
  match sched with
  | [] => true
  | (t, x) :: rest => scope_alloc s t x && stale2_b s t x && runWS2_b cf n (fst (step_stale2 cf s t x)) rest
  end.

Theorem runWS2_b_sound cf n : forall sched s, Beyond n s -> runWS2_b cf n s sched = true ->
  (forall k, DstEmpty (StS2 cf s sched k) /\ CloneSrcCmd (StS2 cf s sched k)) /\
  (forall k t x, nth_error sched k = Some (t, x) -> alloc_ok (StS2 cf s sched k) t x /\ stale2_ok (StS2 cf s sched k) t x).
Proof.
  induction sched as [|[t x] sched IH]; intros s B H; cbn [runWS2_b] in H; apply andb_true_iff in H as [Hs H].
  - split.
    + intros k. rewrite StS2_nil. apply (scope_stateW_sound n); assumption.
    + intros [|k] t x Hk; discriminate Hk.
  - apply andb_true_iff in H as [Ha H]. apply andb_true_iff in Ha as [Ha Hst].
    destruct (IH _ (Beyond_step_stale2 cf n s t x B) H) as [IH1 IH2]. split.
    + intros [|k]; [apply (scope_stateW_sound n); assumption|]. rewrite StS2_cons. apply IH1.
    + intros [|k] t' x' Hk.
      * injection Hk as <- <-. split; [apply scope_alloc_sound; exact Ha|apply stale2_b_sound; exact Hst].
      * rewrite StS2_cons. apply IH2. exact Hk.
Qed.

Definition runokws2_b (cf : config) (inits : list N) (progs : list (list cmd)) (sched : list (N * N)) : bool :=
  inits_b inits && progsW_b progs && (4 * N.of_nat (length sched) + 8 <? WORD) &&
  runWS2_b cf (length progs) (init_state inits progs) sched.

Theorem runokws2_b_sound cf inits progs sched : runokws2_b cf inits progs sched = true -> RunOKWS2 cf inits progs sched.
Proof.
  intros H. apply andb_true_iff in H as [H Hr]. apply andb_true_iff in H as [H Hl]. apply andb_true_iff in H as [Hi Hp].
  destruct (runWS2_b_sound cf (length progs) sched _ (Beyond_init inits progs) Hr) as [H1 H2].
  constructor; [apply inits_b_sound; exact Hi|apply progsW_b_sound; exact Hp|apply N.ltb_lt; exact Hl|exact H1
               |intros; apply H2; assumption..].
Qed.

(** ** The example run *)
Definition wsx_cf : config := mkConfig true false.
Definition wsx_inits : list N := [4096].
Definition wsx_progs : list (list cmd) :=
  [[CSetGen (WORD - 4); CLoad 0 1; CLoad 0 2; CLoad 0 3; CLoad 0 4; CLoad 0 5; CLoad 0 6; CLoad 0 7; CLoad 0 8; CLoad 0 9];
   [CNew 20; CStore 0 (SHandle 20)]].
(** The reader's hook and eight loads (44 steps).  The writer runs to completion (51 steps,
    [Stale2InvEx.sy2_writer]: its look at [in_use] of node 0, step 49, is answered with
    [NODE_COOLDOWN], its read of the head before the push loop, step 52, with 0).  The reader's
    ninth load: [LA1], then the scan of the slots 0 .. 7 (steps 97 .. 104), each answered with
    4096 (choice 4096 + 2); the fallback and the cooldown (11 steps); the reader exits. *)
Definition wsx_sched : list (N * N) :=
  repeat (0, 0) 44 ++ sy2_writer ++ [(0, 0); (0, 0)] ++ repeat (0, 4098) 8 ++ repeat (0, 0) 11.
Definition wsx_s0 : state := init_state wsx_inits wsx_progs.
Definition wsx_St (k : nat) : state := StS2 wsx_cf wsx_s0 wsx_sched k.
Definition wsx_final : state := run_state_stale2 wsx_cf wsx_s0 wsx_sched.

Example runokws2_b_example : runokws2_b wsx_cf wsx_inits wsx_progs wsx_sched = true.
Proof. vm_compute. reflexivity. Qed.

Example RunOKWS2_wrap_example : RunOKWS2 wsx_cf wsx_inits wsx_progs wsx_sched.
Proof. apply runokws2_b_sound. exact runokws2_b_example. Qed.

Example wsx_length : length wsx_sched = 116%nat.
Proof. reflexivity. Qed.

(** The run is outside [RunOKS2] (the program uses the hook) ... *)
Example wsx_not_RunOKS2 : ~ RunOKS2 wsx_cf wsx_inits wsx_progs wsx_sched.
Proof.
  intros R. destruct (ros2_progs _ _ _ _ R) as [Hg _].
  apply (Hg _ (or_introl eq_refl) (WORD - 4)). left. reflexivity.
Qed.

(** ... and it is not a run of [step] ([RunOKW_RunOKWS2_lt2] does not apply): the choices >= 2. *)
Example wsx_stale_choices :
  List.filter (fun tx => 2 <=? snd tx) wsx_sched = [(1, 4112); (1, 4); (1, 2)] ++ repeat (0, 4098) 8.
Proof. vm_compute. reflexivity. Qed.

(** The hook: the reader claims node 0 and presets its counter to [WORD - 4] in one step. *)
Example wsx_preset :
  t_stack (thr (wsx_St 3) 0) = [GPush 0; WGetSetGen (WORD - 4); KDone None] /\
  t_stack (thr (wsx_St 4) 0) = [] /\ tl_node (t_loc (thr (wsx_St 4) 0)) = Some 0 /\
  tl_gen (t_loc (thr (wsx_St 4) 0)) = WORD - 4.
Proof. vm_compute. repeat split; reflexivity. Qed.

(** The writer's two stale loads (as in [Stale2InvEx2.sx2_stale_in_use], [sx2_stale_head]). *)
Example wsx_stale_writer :
  hd_error (t_stack (thr (wsx_St 49) 1)) = Some (GCool1 0) /\ nth_error wsx_sched 49 = Some (1, 4) /\
  mem (sh (wsx_St 49)) (LInUse 0) = NODE_USED /\ hd_error (t_stack (thr (wsx_St 50) 1)) = Some (GCool2 0) /\
  hd_error (t_stack (thr (wsx_St 52) 1)) = Some GPush0 /\ nth_error wsx_sched 52 = Some (1, 2) /\
  mem (sh (wsx_St 52)) LHead = 1 /\ hd_error (t_stack (thr (wsx_St 53) 1)) = Some (GPush 0).
Proof. vm_compute. repeat split; reflexivity. Qed.

(** The writer has stored 4112 and paid the eight debts; the reader scans its slots: all empty,
    all eight looks are answered with 4096. *)
Example wsx_before :
  t_status (thr (wsx_St 95) 1) = Exited /\ mem (sh (wsx_St 95)) (LStore 0) = 4112 /\
  hd_error (t_stack (thr (wsx_St 97) 0)) = Some (LAscan 0 4112 0) /\
  forallb (fun j => mem (sh (wsx_St 97)) (LSlot 0 j) =? NONE) [0; 1; 2; 3; 4; 5; 6; 7] = true /\
  forallb (fun k => match nth_error wsx_sched k with Some (0, 4098) => true | _ => false end)
          [97; 98; 99; 100; 101; 102; 103; 104]%nat = true.
Proof. vm_compute. repeat split; reflexivity. Qed.

(** THE STEP: the eighth slot is empty, the look is answered with 4096 (a stale value: choice
    4096 + 2 at [LAscan]); the reader enters the fallback and its generation counter WRAPS from
    [WORD - 4] to 0 (the SC model publishes in slot 7 and leaves the counter alone). *)
Example wsx_stale_wrap :
  t_stack (thr (wsx_St 104) 0) = [LAscan 0 4112 7; KDone (Some 9)] /\
  nth_error wsx_sched 104 = Some (0, 4098) /\ 2 <= 4098 /\
  mem (sh (wsx_St 104)) (LSlot 0 7) = NONE /\
  tl_gen (t_loc (thr (wsx_St 104) 0)) = WORD - 4 /\
  snd (step_stale2 wsx_cf (wsx_St 104) 0 4098) = [ld_event (LSlot 0 7) o_fast_scan 4096] /\
  hd_error (t_stack (thr (wsx_St 105) 0)) = Some (LH1 0 GEN_TAG) /\
  tl_gen (t_loc (thr (wsx_St 105) 0)) = 0 /\
  hd_error (t_stack (thr (fst (step wsx_cf (wsx_St 104) 0 0)) 0)) = Some (LA3 0 4112 7).
Proof. vm_compute. repeat split; try reflexivity; discriminate. Qed.

(** The counter before and after, in one line: [WORD - 4], then [(WORD - 4 + 4) mod WORD = 0]. *)
Example wsx_wrapped :
  tl_gen (t_loc (thr (wsx_St 104) 0)) = WORD - 4 /\ tl_gen (t_loc (thr (wsx_St 105) 0)) = 0 /\
  tl_gen (t_loc (thr (wsx_St 104) 0)) + 4 = WORD.
Proof. vm_compute. repeat split; reflexivity. Qed.

(** The fallback with generation 0: the published word is [GEN_TAG] alone, the node is marked
    for discarding, and given up through the cooldown ([C1] .. [C3]) after the load; the load
    returns a guard on the current value. *)
Example wsx_fallback :
  hd_error (t_stack (thr (wsx_St 107) 0)) = Some (LH3 0 GEN_TAG) /\
  mem (sh (wsx_St 107)) (LCtrl 0) = GEN_TAG /\ tl_discard (t_loc (thr (wsx_St 107) 0)) = true /\
  hd_error (t_stack (thr (wsx_St 112) 0)) = Some (C1 0) /\ hd_error (t_stack (thr (wsx_St 114) 0)) = Some (C3 0) /\
  hnd (wsx_St 115) 9 = HGuard 4112 None /\ t_cmdi (thr (wsx_St 115) 0) = 10.
Proof. vm_compute. repeat split; reflexivity. Qed.

Example wsx_final_state :
  t_status (thr wsx_final 0) = Exited /\ t_status (thr wsx_final 1) = Exited /\
  tl_gen (t_loc (thr wsx_final 0)) = 0 /\ mem (sh wsx_final) (LInUse 0) = NODE_COOLDOWN /\
  mem (sh wsx_final) (LStore 0) = 4112 /\ mem (sh wsx_final) (LCount 4112) = 2 /\
  mem (sh wsx_final) (LCount 4096) = 8 /\ hnd wsx_final 1 = HGuard 4096 (Some (0, 0)) /\
  hnd wsx_final 9 = HGuard 4112 None.
Proof. vm_compute. repeat split; reflexivity. Qed.

Example wsx_no_fault_event :
  forallb (fun te => forallb (fun e => match e with EvFault _ => false | _ => true end) (snd te))
          (snd (run_stale2 wsx_cf wsx_s0 wsx_sched)) = true.
Proof. vm_compute. reflexivity. Qed.

(** ** The end-to-end theorems of Stale2Wr on this run *)
Example wx_no_fault :
  NoFault wsx_final /\
  forall te, In te (snd (run_stale2 wsx_cf wsx_s0 wsx_sched)) ->
    forall a, ~ In (EvFault (FDeadInc a)) (snd te) /\ ~ In (EvFault (FDeadDec a)) (snd te).
Proof. exact (C01_no_use_after_free_wrap_stale2 _ _ _ _ RunOKWS2_wrap_example). Qed.

Example wsx_NoFault_prefix k : NoFault (wsx_St k).
Proof. exact (C01_no_fault_wrap_stale2_prefix _ _ _ _ k RunOKWS2_wrap_example). Qed.

Example wsx_Acc : Acc wsx_final.
Proof. exact (C02_accounting_wrap_stale2 _ _ _ _ RunOKWS2_wrap_example). Qed.

Example wsx_MasterW : MasterW (4 * 116) wsx_final.
Proof. exact (run_stale2_MasterW_end _ _ _ _ RunOKWS2_wrap_example). Qed.

Print Assumptions runokws2_b_sound.
Print Assumptions wx_no_fault.
Print Assumptions wsx_Acc.
Print Assumptions wsx_MasterW.
Print Assumptions RunOKWS2_wrap_example.
