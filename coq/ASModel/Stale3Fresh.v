(** * ASModel.Stale3Fresh — C16 (freshness of [Cache::load]) for the run the model driver executes:
    [StaleCView.vrun3], the instrumented run of [StaleC.step_stale3] in which all five weakened
    loads may be stale (the Relaxed revalidating read [Q1] of [Cache::load] and the four loads of
    [Stale2]: [LA1], [LAscan], [GCool1], [GPush0]).  Summary.

    Notation: [St3 cf s0 sched k] / [G3 cf s0 sched k] ([StaleCInv28]) are the state and the view
    ghost after [k] steps of the schedule; [Gl3] ([Stale3Fresh5]) is the linearization ghost of
    [LinDefs] carried along the same run.  The hypotheses are those of the theorems for [vrunC]
    with [RunOKS3] in place of [RunOKSC].

    1. Steps ([Stale3Fresh1], [2]).  [step3_dich]: a step of [step_stale3] is a step of
       [step_staleC] or a PROPER stale load ([Q2]), which changes neither memory nor handles nor
       the command index ([q2_after]); the step lemmas of [StaleCInv7] .. [21] follow for
       [step_stale3] ([step3_QShape], [step3_CacheHold], [step3_hnd_frame], [step3_hcache],
       [step3_bottom], ...); [vstep3_pos]: the ghost of one instrumented step.
    2. Linearization ghost ([Stale3Fresh3], [4]).  [zr_CacheZone]: the cache zone survives the
       replacement of a top frame by a twin; [gstep3_LinInv3]: [LinCache2.LinInv3] is preserved by
       every step of [step_stale3] (the four shapes of [Stale2Inv4.stale2_shape]).
    3. Runs ([Stale3Fresh5], [6]).  [RunOKS3_QShape], [RunOKS3_CacheHold], [RunOKS3_LinInv3],
       [lt3_sound], [run_completes3] (the step that completes a cache command is never a proper
       stale load), [fresh_in_history3].
    4. [run3_CacheIdx], [run3_VInv] ([Stale3Fresh7]): the full view invariant along [vrun3].
    5. [C16_cache_fresh_stale3] ([Stale3Fresh10]), via the loop invariant [InC3] ([Stale3Fresh8])
       and [cache_cmd_step3] ([Stale3Fresh9]): the exact statement of
       [StaleCInv24.C16_cache_fresh_staleC] for [vrun3].
    6. [own_write_seen3], [view_handover3] ([Stale3Fresh11]).
    7. [Stale3FreshEx]: a checker for [RunOKS3] and a run in which one cache command takes a stale
       revalidation and a stale first read. *)
From ASModel Require Import Base State Step Run Hist Lin1 LinCache2 LinCache CchDefs CchCmd.
From ASModel Require Export StaleC StaleCView StaleCInv20 StaleCInv24 StaleCInv25 StaleCInv26 StaleCInv28 StaleCInv30.
From ASModel Require Export Stale3Fresh1 Stale3Fresh2 Stale3Fresh3 Stale3Fresh4 Stale3Fresh5 Stale3Fresh6 Stale3Fresh7
  Stale3Fresh8 Stale3Fresh9 Stale3Fresh10 Stale3Fresh11 Stale3FreshEx.

(** 1. Steps *)
Check step3_dich : forall cf s t x, step_stale3 cf s t x = step_staleC cf s t x \/ Q2 cf s t x.
Check q2_after : forall cf s t x, Q2 cf s t x -> q2_post s (fst (step_stale3 cf s t x)) t.
Check vstep3_pos.
(** 2. Linearization ghost *)
Check gstep3_LinInv3.
(** 3. Runs *)
Check RunOKS3_QShape.
Check RunOKS3_CacheHold.
Check RunOKS3_LinInv3.
Check lt3_sound.
Check run_completes3.
(** 4. The view invariant *)
Check run3_CacheIdx
  : forall cf inits progs sched, RunOKS3 cf inits progs sched ->
      (forall p, NoCacheMove (St3 cf (init_state inits progs) sched p)) ->
      forall p, CacheIdx (St3 cf (init_state inits progs) sched p) (G3 cf (init_state inits progs) sched p).
Check run3_VInv
  : forall cf inits progs sched, RunOKS3 cf inits progs sched ->
      (forall p, NoCacheMove (St3 cf (init_state inits progs) sched p)) ->
      forall k, VInv (St3 cf (init_state inits progs) sched k) (G3 cf (init_state inits progs) sched k).
(** 5. Freshness of [Cache::load] *)
Check C16_cache_fresh_stale3
  : forall cf inits progs sched t i cm c k pa pb xa tb xb,
      let s0 := init_state inits progs in
      RunOKS3 cf inits progs sched ->
      (forall p, NoCacheMove (St3 cf s0 sched p)) ->
      never_consumed c s0 ->
      nth_error (t_prog (thr s0 t)) (N.to_nat i) = Some cm ->
      cache_cmd_of (St3 cf s0 sched pa) cm c k ->
      (pa <= pb)%nat ->
      nth_error sched pa = Some (t, xa) ->
      t_status (thr (St3 cf s0 sched pa) t) = Running ->
      t_stack (thr (St3 cf s0 sched pa) t) = [] ->
      t_cmdi (thr (St3 cf s0 sched pa) t) = i ->
      nth_error sched pb = Some (tb, xb) ->
      t_cmdi (thr (St3 cf s0 sched pb) t) = i ->
      t_cmdi (thr (St3 cf s0 sched (S pb)) t) = i + 1 ->
      exists v j,
        hnd (St3 cf s0 sched (S pb)) k = HCache c v /\
        nth_error (vh (G3 cf s0 sched (S pb)) c) j = Some v /\
        (vt (G3 cf s0 sched pa) t c <= j)%nat /\
        (cm = CCacheLoad k -> (vc (G3 cf s0 sched pa) k <= j)%nat) /\
        nth_error (vh (G3 cf s0 sched (S pb)) c) (vc (G3 cf s0 sched (S pb)) k) = Some v /\
        (vc (G3 cf s0 sched (S pb)) k = j \/
         (hnd (St3 cf s0 sched pb) k = HCache c v /\ (vc (G3 cf s0 sched (S pb)) k <= j)%nat)).
(** 6. Hand-over of views *)
Check own_write_seen3
  : forall cf s0 sched p t c i q, wrote3 cf s0 sched p t c i -> (S p <= q)%nat -> (i <= vt (G3 cf s0 sched q) t c)%nat.
Check view_handover3
  : forall cf s0 sched t c i p1 c' j p2 t' p3 q,
      wrote3 cf s0 sched p1 t c i -> wrote3 cf s0 sched p2 t c' j -> (p1 < p2)%nat ->
      acquired3 cf s0 sched p3 t' c' -> (p2 < p3)%nat -> (S p3 <= q)%nat ->
      (i <= vt (G3 cf s0 sched q) t' c)%nat.
(** 7. The example *)
Check runokS3_b_sound.
Check RunOKS3_example : RunOKS3 cd_cf cd_inits cd_progs cd_sched.
Check cd_q2 : Q2 cd_cf (cd_St 94) 0 4098.
Check cd_stale_peek.
Check cd_fresh_load.

Print Assumptions gstep3_LinInv3.
Print Assumptions RunOKS3_LinInv3.
Print Assumptions run3_CacheIdx.
Print Assumptions run3_VInv.
Print Assumptions C16_cache_fresh_stale3.
Print Assumptions own_write_seen3.
Print Assumptions view_handover3.
Print Assumptions RunOKS3_example.
Print Assumptions cd_fresh_load.
