(** * ASModel.Stale3Fresh1 — steps of [StaleC.step_stale3] (all five weakened loads): a step is a
    step of [step_staleC] (an ordinary step, or the stale peek at [Q1]) or a PROPER stale load of
    [Stale2.step_stale2] ([Q2]: the scheduler answered one of the loads at [LA1], [LAscan],
    [GCool1], [GPush0]).  A proper stale load changes neither the memory nor the handles nor the
    command index; the acting thread continues in the same function ([q2_after]). *)
From Coq Require Import Lia.
From ASModel Require Import Base State Orderings_gen Step Run Progress Hist Inv InvTl InvProto InvStep Sum StepCases.
From ASModel Require Import Lin1 Lin14 LinCache1 LinCache2 Stale Stale2 Stale2Inv4 Stale2Inv9 StaleC StaleCView.
From ASModel Require Import StaleCInv1 StaleCInv3 StaleCInv6 StaleCInv7 StaleCInv9 StaleCInv10 StaleCInv11 StaleCInv12
  StaleCInv28 StaleCInv29.

Inductive Q2 (cf : config) (s : state) (t x : N) : Prop :=
| q2_intro p rest l evs nx :
    t_status (thr s t) = Running -> t_stack (thr s t) = p :: rest -> 2 <= x ->
    stale2_exec cf (sh s) (t_loc (thr s t)) p (x - 2) = Some (sh s, l, evs, nx) ->
    step_stale3 cf s t x = finish cf s t (thr s t) (sh s) l rest evs nx -> Q2 cf s t x.

Lemma step3_dich cf s t x : step_stale3 cf s t x = step_staleC cf s t x \/ Q2 cf s t x.
Proof.
  destruct (t_status (thr s t)) eqn:Hr;
    try (left; unfold step_stale3, step_staleC, step_stale2; rewrite Hr; reflexivity).
  destruct (t_stack (thr s t)) as [|p rest] eqn:Hs;
    [left; unfold step_stale3, step_staleC, step_stale2; rewrite Hr, Hs; reflexivity|].
  destruct (2 <=? x) eqn:Hx.
  2:{ left. unfold step_stale3, step_staleC, step_stale2. rewrite Hr, Hs, Hx. destruct p; reflexivity. }
  destruct (stale2_exec cf (sh s) (t_loc (thr s t)) p (x - 2)) as [[[[s1 l1] evs] nx]|] eqn:He.
  2:{ left. unfold step_stale3, step_staleC, step_stale2. rewrite Hr, Hs, Hx, He. destruct p; reflexivity. }
  right. destruct (stale2_exec_store _ _ _ _ _ _ _ _ _ He) as [-> _].
  apply (q2_intro cf s t x p rest l1 evs nx Hr Hs); [apply N.leb_le; exact Hx|exact He|].
  unfold step_stale3, step_stale2. rewrite Hr, Hs, Hx, He. destruct p; try reflexivity; discriminate He.
Qed.

(** The frames a proper stale load continues with. *)
Definition q2f (q : pc) : Prop :=
  lfr q = true /\ fval q = None /\ isq q = false /\ is_ctail q = false /\ is_bottom_frame q = false /\
  (forall cand e, q <> LH7 cand e).

Lemma stale2_exec_next cf ssh l p v s1 l1 evs nx :
  stale2_exec cf ssh l p v = Some (s1, l1, evs, nx) ->
  q2f p /\ ((exists q, nx = NGoto q /\ q2f q /\ ret_kind q = ret_kind p) \/ exists ps, nx = NPanic ps).
Proof.
  intros H. destruct p; cbn [stale2_exec] in H; try discriminate H.
  - injection H as <- <- <- <-. split; [repeat split; discriminate|]. left.
    destruct (v =? NODE_COOLDOWN); eexists; (split; [reflexivity|]); (split; [repeat split; discriminate|reflexivity]).
  - injection H as <- <- <- <-. split; [repeat split; discriminate|]. left.
    eexists; (split; [reflexivity|]); (split; [repeat split; discriminate|reflexivity]).
  - split; [repeat split; discriminate|]. unfold stale_exec in H. destruct (tl_node l).
    + injection H as <- <- <- <-. left.
      destruct (cf_debug cf); eexists; (split; [reflexivity|]); (split; [repeat split; discriminate|reflexivity]).
    + injection H as <- <- <- <-. right. eauto.
  - split; [repeat split; discriminate|]. destruct (v =? NONE); [discriminate H|]. destruct (i =? 7).
    + unfold fallback_entry in H. destruct (tl_node l); [destruct (cf_debug cf)|]; injection H as <- <- <- <-.
      * left. eexists; (split; [reflexivity|]); (split; [repeat split; discriminate|reflexivity]).
      * left. eexists; (split; [reflexivity|]); (split; [repeat split; discriminate|reflexivity]).
      * right. eauto.
    + injection H as <- <- <- <-. left.
      eexists; (split; [reflexivity|]); (split; [repeat split; discriminate|reflexivity]).
Qed.

(** The state after a proper stale load. *)
Record q2_post (s s' : state) (t : N) : Prop := {
  qp_sh : sh s' = sh s;
  qp_hnd : hnd s' = hnd s;
  qp_other : forall t', t' <> t -> thr s' t' = thr s t';
  qp_prog : t_prog (thr s' t) = t_prog (thr s t);
  qp_cmdi : t_cmdi (thr s' t) = t_cmdi (thr s t);
  qp_run : t_status (thr s t) = Running;
  qp_self : exists p rest, t_stack (thr s t) = p :: rest /\ q2f p /\
              ((t_status (thr s' t) = Running /\ exists q, t_stack (thr s' t) = q :: rest /\ q2f q /\ ret_kind q = ret_kind p) \/
               (t_status (thr s' t) = Panicked /\ t_stack (thr s' t) = rest));
}.

Lemma q2_after cf s t x : Q2 cf s t x -> q2_post s (fst (step_stale3 cf s t x)) t.
Proof.
  intros [p rest l evs nx Hr Hs Hx He E]. rewrite E.
  destruct (stale2_exec_next _ _ _ _ _ _ _ _ _ He) as [Hp [(q & -> & Hq & Hk)|(ps & ->)]]; cbn [finish fst].
  - constructor; cbn [sh hnd thr]; try rewrite upd_same; try reflexivity; try exact Hr.
    + intros t' Hne. apply upd_other. exact Hne.
    + exists p, rest. split; [exact Hs|]. split; [exact Hp|]. left. rewrite ?upd_same. split; [reflexivity|]. eauto.
  - constructor; cbn [sh hnd thr]; try rewrite upd_same; try reflexivity; try exact Hr.
    + intros t' Hne. apply upd_other. exact Hne.
    + exists p, rest. split; [exact Hs|]. split; [exact Hp|]. right. rewrite ?upd_same. split; reflexivity.
Qed.

Lemma q2_stale2 cf s t x : Q2 cf s t x -> step_stale3 cf s t x = step_stale2 cf s t x.
Proof.
  intros [p rest l evs nx Hr Hs Hx He E]. apply step_stale3_other. intros c a k r. rewrite Hs. intros [= -> _].
  discriminate He.
Qed.

Lemma q2_not_q1 cf s t x : Q2 cf s t x -> q1_stale s t x = false /\ q1_read_idx (vghost0 s) s t x = None.
Proof.
  intros [p rest l evs nx Hr Hs Hx He E]. unfold q1_stale, q1_read_idx. rewrite Hr, Hs.
  destruct p; try (split; reflexivity). discriminate He.
Qed.
