(** * ASModel.Stale3Fresh10 — C16 for the run the model driver executes ([vrun3]: all five weakened
    loads): the value a completed [CCacheNew c k] / [CCacheLoad k] leaves in the cache is an entry
    of the history of [c] whose index is not below the view the thread had of [c] when the command
    started (FRESH) nor below the index the cache had then (MONOTONE).  The statement is that of
    [StaleCInv24.C16_cache_fresh_staleC] with the states and ghosts of [vrun3] and [RunOKS3] in place
    of [RunOKSC]. *)
From Coq Require Import Lia.
From ASModel Require Import Base State Orderings_gen Step Run Progress Hist Inv InvTl InvProto InvStep Sum StepCases.
From ASModel Require Import GenDefs Gen1 Gen2 Gen3 Gen EnvDefs Env LinDefs Lin1 Lin2 Lin8 LinCache1 LinCache2 LinCache6 LinCache.
From ASModel Require Import ProtDefs Prot11 Local.
From ASModel Require Import CchDefs CchAcc4 CchAcc CchCmd CchMain.
From ASModel Require Import Stale2 StaleC StaleCView StaleCInv1 StaleCInv3 StaleCInv5 StaleCInv6 StaleCInv7 StaleCInv8
  StaleCInv10 StaleCInv11 StaleCInv12 StaleCInv13 StaleCInv14 StaleCInv15 StaleCInv16 StaleCInv17 StaleCInv18 StaleCInv19
  StaleCInv20 StaleCInv21 StaleCInv22 StaleCInv23 StaleCInv28 StaleCInv29 StaleCInv30.
From ASModel Require Import Stale3Fresh1 Stale3Fresh2 Stale3Fresh3 Stale3Fresh4 Stale3Fresh5 Stale3Fresh6 Stale3Fresh7 Stale3Fresh8
  Stale3Fresh9.

Section Main.
Variables (cf : config) (inits : list N) (progs : list (list cmd)) (sched : list (N * N)).
Local Notation s0 := (init_state inits progs).

Theorem C16_cache_fresh_stale3 t i cm c k pa pb xa tb xb :
  RunOKS3 cf inits progs sched ->
  (forall p, NoCacheMove (St3 cf s0 sched p)) ->
  never_consumed c s0 ->
  nth_error (t_prog (thr s0 t)) (N.to_nat i) = Some cm ->
  cache_cmd_of (St3 cf s0 sched pa) cm c k ->
  (pa <= pb)%nat ->
  nth_error sched pa = Some (t, xa) ->
  t_status (thr (St3 cf s0 sched pa) t) = Running ->
  t_stack (thr (St3 cf s0 sched pa) t) = [] ->
  t_cmdi (thr (St3 cf s0 sched pa) t) = i ->
  nth_error sched pb = Some (tb, xb) ->
  t_cmdi (thr (St3 cf s0 sched pb) t) = i ->
  t_cmdi (thr (St3 cf s0 sched (S pb)) t) = i + 1 ->
  exists v j,
    hnd (St3 cf s0 sched (S pb)) k = HCache c v /\
    nth_error (vh (G3 cf s0 sched (S pb)) c) j = Some v /\
    (vt (G3 cf s0 sched pa) t c <= j)%nat /\
    (cm = CCacheLoad k -> (vc (G3 cf s0 sched pa) k <= j)%nat) /\
    nth_error (vh (G3 cf s0 sched (S pb)) c) (vc (G3 cf s0 sched (S pb)) k) = Some v /\
    (vc (G3 cf s0 sched (S pb)) k = j \/
     (hnd (St3 cf s0 sched pb) k = HCache c v /\ (vc (G3 cf s0 sched (S pb)) k <= j)%nat)).
Proof.
  intros R NM Hnc Hcm Hcc Hab Ha Hra Hsa Hia Hb Hib Hib'.
  assert (tb = t) as ->.
  { destruct (N.eq_dec tb t) as [E|E]; [exact E|exfalso].
    rewrite (St3_step _ _ _ _ _ _ Hb), step3_other in Hib' by congruence. lia. }
  pose proof (cache_cmd_key _ _ _ _ Hcc) as Hkey.
  destruct (cache_cmd_step3 cf inits progs sched t i cm c k pa xa Hcm Hcc Ha Hra Hsa Hia) as (A1 & A2 & A3 & A4 & A5).
  assert (Hlt : (S pa <= pb)%nat).
  { destruct (Nat.eq_dec pa pb) as [Heq|Hneq]; [|lia]. subst pb. lia. }
  destruct (inC3_all cf inits progs sched R t i cm c k pa pb t xb Hcm Hkey Hnc Hb Hib Hib' A1 A2 pb Hlt (le_n _))
    as [I1 I2 (pre & I3) I4 I5].
  assert (Hne : t_stack (thr (St3 cf s0 sched pb) t) <> []) by (rewrite I3; destruct pre; discriminate).
  pose proof (St3_cur cf s0 sched t i cm pb Hcm Hib) as Hcur.
  destruct (position3f cf s0 sched pb t xb Hb) as (g1 & Es & Eg & Rv & El).
  pose proof (run3_VInvA cf s0 sched pb) as V.
  pose proof (pos3_vc _ _ _ _ _ _ Rv) as Evc.
  pose proof (vacc_res3_grow cf _ _ t xb g1 V (pos3_res3 _ _ _ _ _ _ Rv)) as Hgrow.
  destruct (vcache_same_views g1 (St3 cf s0 sched pb) (St3 cf s0 sched (S pb)) t (q1_read_idx (G3 cf s0 sched pb) (St3 cf s0 sched pb) t xb)) as (Evh & _).
  assert (Hvcpa : vc g1 k = vc (G3 cf s0 sched pa) k) by (rewrite Evc, I5, A4; reflexivity).
  assert (Hhpa : hnd (St3 cf s0 sched pb) k = hnd (St3 cf s0 sched pa) k) by (rewrite I4, A3; reflexivity).
  assert (Hvt : (vt (G3 cf s0 sched pa) t c <= vt (G3 cf s0 sched pb) t c)%nat) by (apply vt_mono3; lia).
  assert (Hnc' : forall p, never_consumed c (St3 cf s0 sched p)) by (intros p; apply (nc_run3 cf s0 sched c p); exact Hnc).
  assert (Hci : t_cmdi (thr (St3 cf s0 sched (S pb)) t) = t_cmdi (thr (St3 cf s0 sched pb) t) + 1) by lia.
  pose proof (run3_CacheIdx cf inits progs sched R NM (S pb)) as CI'.
  assert (Hbound : forall a0, hnd (St3 cf s0 sched pa) k = HCache c a0 ->
                     (vc (G3 cf s0 sched pa) k <= length (vh (G3 cf s0 sched pa) c) - 1)%nat).
  { intros a0 H0. pose proof (run3_cache_bound cf inits progs sched R NM pa k c a0 H0 Hnc). lia. }
  destruct (run_completes3 cf inits progs sched R pb t xb cm k Hb I2 Hcur Hkey Hne Hci) as [E3 Hcomp].
  assert (Es' : St3 cf s0 sched (S pb) = fst (step_staleC cf (St3 cf s0 sched pb) t xb)) by (rewrite Es, E3; reflexivity).
  destruct Hcomp as [c' a rest P Hx Hs Hh|c' v Hq (pre' & Hpre') Hh HP Hst]; rewrite <- Es' in Hh.
  - (* a stale hit *)
    assert (c' = c) as ->.
    { rewrite Hs in I3. change [Q1 c' a k; KCacheDone c' k] with ([Q1 c' a k] ++ [KCacheDone c' k]) in I3.
      apply app_inj_tail in I3 as [_ [= ->]]. reflexivity. }
    destruct (q1_facts3 cf inits progs sched R pb t c a k _ cm Hs Hcur) as (_ & _ & Hhold).
    pose proof (CI' k c a Hh (Hnc' (S pb))) as Hidx.
    exists a, (vc (G3 cf s0 sched (S pb)) k). split; [exact Hh|]. split; [exact Hidx|].
    assert (Hmax : exists i0, (vt (G3 cf s0 sched pb) t c <= i0)%nat /\
                              vc (G3 cf s0 sched (S pb)) k = Nat.max (vc g1 k) i0).
    { pose proof (r3_staleC _ _ _ _ R pb t xb Hb) as Hok. unfold staleC_ok in Hok.
      rewrite (pk_run _ _ _ _ _ _ _ P), (pk_stk _ _ _ _ _ _ _ P) in Hok.
      destruct (Hok (pk_x _ _ _ _ _ _ _ P)) as (i1 & [Hi1 Hi1'] & Hn1).
      destruct (find_from_complete (xb - 2) (vt (G3 cf s0 sched pb) t c) (vh (G3 cf s0 sched pb) c) 0 i1 Hi1 (Nat.le_0_l _))
        as (i0 & Hf); [rewrite Nat.sub_0_r; exact Hn1|].
      destruct (find_from_spec _ _ _ _ _ Hf) as (F1 & F2 & F3 & _). rewrite Nat.sub_0_r in F3.
      exists i0. split; [exact F1|]. rewrite Eg.
      rewrite (vcache_same g1 _ _ t _ cm k c a Hcur Hkey Hh Hhold), (pk_stk _ _ _ _ _ _ _ P),
        (peek_read_idx _ _ _ _ _ _ _ _ P), Hf.
      assert (Hn : nth i0 (vh g1 c) 0 = a).
      { destruct (proj1 Hgrow c) as (l & E). rewrite E, app_nth1 by lia.
        rewrite (nth_error_nth _ _ 0 F3). exact Hx. }
      rewrite Hn, N.eqb_refl. cbn [vc]. apply updN_same. }
    destruct Hmax as (i0 & M1 & M2). split; [lia|]. split; [intros _; lia|]. split; [exact Hidx|left; reflexivity].
  - (* an ordinary completing step: the value was current in [c] after the command started *)
    assert (c' = c) as ->.
    { rewrite Hpre' in I3. apply app_inj_tail in I3 as [_ [= ->]]. reflexivity. }
    rewrite <- Es' in HP, Hst.
    destruct (fresh_in_history3 cf inits progs sched pb t xb c v Hb Hnc Hne HP Hst) as (tau & T1 & T2 & T3 & T4).
    assert (Hlen : (pb <= length sched)%nat) by (assert (pb < length sched)%nat by (apply nth_error_Some; congruence); lia).
    pose proof (Gl3_start_mono cf inits progs sched R (S pa) pb t Hlt Hlen) as Hsm. rewrite A5 in Hsm.
    set (jt := (length (vh (G3 cf s0 sched tau) c) - 1)%nat) in *.
    assert (Hjt : (length (vh (G3 cf s0 sched pa) c) - 1 <= jt)%nat).
    { pose proof (vh_length_mono3 cf s0 sched pa tau c ltac:(lia)). unfold jt. lia. }
    assert (Fvt : (vt (G3 cf s0 sched pa) t c <= jt)%nat).
    { pose proof (va_t _ (run3_VInvA cf s0 sched pa) t c). lia. }
    assert (Fvc : forall a0, hnd (St3 cf s0 sched pa) k = HCache c a0 -> (vc (G3 cf s0 sched pa) k <= jt)%nat).
    { intros a0 H0. pose proof (Hbound a0 H0). lia. }
    assert (Fmono : cm = CCacheLoad k -> (vc (G3 cf s0 sched pa) k <= jt)%nat).
    { intros ->. destruct Hcc as [Hx|[_ (a0 & H0)]]; [discriminate Hx|exact (Fvc a0 H0)]. }
    pose proof (CI' k c v Hh (Hnc' (S pb))) as Hidx.
    exists v. destruct (handle_eq_dec (hnd (St3 cf s0 sched pb) k) (HCache c v)) as [Hsame|Hchg].
    + assert (Hcases : vc (G3 cf s0 sched (S pb)) k = vc g1 k \/
                       exists i0, (vt (G3 cf s0 sched pb) t c <= i0)%nat /\ vc (G3 cf s0 sched (S pb)) k = Nat.max (vc g1 k) i0).
      { rewrite Eg.
        destruct (vcache_cases g1 (St3 cf s0 sched pb) (St3 cf s0 sched (S pb)) t (q1_read_idx (G3 cf s0 sched pb) (St3 cf s0 sched pb) t xb))
          as [E|cm' k' c2 v2 a c1 k1 rest0 i0 Hcm' Hk' Hh2 Hh1 Hs Hri Hnth E|cm' k' c2 v2 i0 Hcm' Hk' Hh2 Hh1 _ E]; rewrite E.
        - left. reflexivity.
        - destruct (N.eq_dec k k') as [<-|Hnk]; [right|left; apply updN_other; exact Hnk].
          destruct (q1_facts3 cf inits progs sched R pb t c1 a k1 rest0 cm' Hs Hcm') as (-> & _ & Hhold).
          rewrite Hcur in Hcm'. injection Hcm' as <-.
          assert (c1 = c) as ->.
          { rewrite Hs in I3. change [Q1 c1 a k1; KCacheDone c1 k1] with ([Q1 c1 a k1] ++ [KCacheDone c1 k1]) in I3.
            apply app_inj_tail in I3 as [_ [= ->]]. reflexivity. }
          exists i0. split; [exact (proj2 (q1_read_idx_lt _ _ _ _ _ _ _ _ _ V Hs Hri))|apply updN_same].
        - destruct (N.eq_dec k k') as [<-|Hnk]; [exfalso|left; apply updN_other; exact Hnk].
          apply Hh1. rewrite Hh in Hh2. injection Hh2 as <- <-. exact Hsame. }
      destruct Hcases as [E|(i0 & M1 & M2)].
      * exists jt. split; [exact Hh|]. split; [exact T4|]. split; [exact Fvt|]. split; [exact Fmono|]. split; [exact Hidx|].
        right. split; [exact Hsame|]. rewrite E, Hvcpa. apply (Fvc v). rewrite <- Hhpa. exact Hsame.
      * exists (vc (G3 cf s0 sched (S pb)) k). split; [exact Hh|]. split; [exact Hidx|]. split; [lia|].
        split; [intros _; lia|]. split; [exact Hidx|left; reflexivity].
    + assert (Hn1 : nth_error (vh g1 c) jt = Some v) by (rewrite <- Evh, <- Eg; exact T4).
      assert (Hjl : (jt < length (vh g1 c))%nat) by (apply nth_error_Some; congruence).
      destruct (last_index_complete v (vh g1 c) 0 None jt Hjl Hn1) as (i2 & Ei & Hge & Hi2).
      assert (Evc' : vc (G3 cf s0 sched (S pb)) k = i2).
      { rewrite Eg, (vcache_changed g1 _ _ t _ cm k c v Hcur Hkey Hh Hchg), Ei. cbn [vc]. apply updN_same. }
      exists i2. split; [exact Hh|]. rewrite Nat.sub_0_r in Hi2. split; [rewrite Eg, Evh; exact Hi2|].
      split; [lia|]. split; [intros Hx; specialize (Fmono Hx); lia|]. split; [exact Hidx|left; exact Evc'].
Qed.
End Main.

Print Assumptions C16_cache_fresh_stale3.
