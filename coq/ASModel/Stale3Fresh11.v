(** * ASModel.Stale3Fresh11 — runs of [vstep3]: a thread sees its own writes ([own_write_seen3]); views
    are handed over through any container ([view_handover3]).  The statements of [StaleCInv25] with
    the ghosts of [vrun3]; [acquired3] looks at the events of [step_stale3] (the loads answered by
    the scheduler are Relaxed loads of a storage or loads of other locations: they acquire nothing). *)
From Coq Require Import Lia.
From ASModel Require Import Base State Orderings_gen Step Run Progress Hist Inv InvTl InvProto InvStep Sum StepCases.
From ASModel Require Import Lin Lin1 LinCache2 Stale Stale2 StaleC StaleCView.
From ASModel Require Import StaleCInv1 StaleCInv3 StaleCInv6 StaleCInv9 StaleCInv10 StaleCInv11 StaleCInv12 StaleCInv19 StaleCInv25
  StaleCInv28 StaleCInv29 StaleCInv30.
From ASModel Require Import Stale3Fresh1 Stale3Fresh2 Stale3Fresh5 Stale3Fresh6.

Section Run.
Variables (cf : config) (s0 : state) (sched : list (N * N)).
Local Notation St k := (St3 cf s0 sched k).
Local Notation Gv k := (G3 cf s0 sched k).

Definition wrote3 (p : nat) (t c : N) (i : nat) : Prop :=
  exists x, nth_error sched p = Some (t, x) /\ length (vh (Gv p) c) = i /\ length (vh (Gv (S p)) c) = S i.

Definition acquired3 (p : nat) (t' c' : N) : Prop :=
  exists x e, nth_error sched p = Some (t', x) /\ q1_stale (St p) t' x = false /\
              In e (snd (step_stale3 cf (St p) t' x)) /\ acq_event c' e.

Lemma position_views3 p t x :
  nth_error sched p = Some (t, x) ->
  exists g1, pos3 cf (St p) (Gv p) t x g1 /\ same_views g1 (Gv (S p)).
Proof.
  intros Hp. destruct (position3f cf s0 sched p t x Hp) as (g1 & _ & Eg & Rv & _). exists g1. split; [exact Rv|].
  rewrite Eg. apply vcache_same_views.
Qed.

Lemma wrote_wrg3 p t c i :
  wrote3 p t c i -> exists new, same_views (wrg (Gv p) t c new) (Gv (S p)).
Proof.
  intros (x & Hp & H1 & H2). destruct (position_views3 p t x Hp) as (g1 & Rv & (Eh & Et & Em)).
  rewrite Eh in H2. destruct Rv as [_ Rv|_ [->|c0 ->]]; [|lia|cbn [rdg vh] in H2; lia].
  destruct Rv as [_ -> _|c0 a _ -> _|c0 new _ -> _ _|c0 a k rest i0 _ _ ->|c0 a k rest _ _ ->]; cbn [rdg wrg vh] in H2; try lia.
  unfold updN in H2. destruct (N.eqb_spec c c0) as [->|Hne]; [|lia].
  exists new. split; [exact Eh|split; [exact Et|exact Em]].
Qed.

(** ** A thread sees its own writes *)
Theorem own_write_seen3 p t c i q : wrote3 p t c i -> (S p <= q)%nat -> (i <= vt (Gv q) t c)%nat.
Proof.
  intros W Hq. destruct (wrote_wrg3 p t c i W) as (new & (_ & Et & _)). destruct W as (x & _ & H1 & _).
  pose proof (vt_mono3 cf s0 sched (S p) q t c Hq) as Hm. rewrite Et in Hm. cbn [wrg vt] in Hm.
  rewrite !updN_same in Hm. lia.
Qed.

(** ** What a write releases, and that it stays *)
Lemma write_releases3 p t c' j c : wrote3 p t c' j -> (vt (Gv p) t c <= vm (Gv (S p)) c' j c)%nat.
Proof.
  intros W. destruct (wrote_wrg3 p t c' j W) as (new & (_ & _ & Em)). destruct W as (x & _ & H1 & _).
  rewrite Em. cbn [wrg vm]. rewrite updN_same, H1, updn_same. unfold updN.
  destruct (N.eqb_spec c c') as [->|_].
  - pose proof (va_t _ (run3_VInvA cf s0 sched p) t c'). lia.
  - unfold vjoin. lia.
Qed.

Lemma vm_stable_succ3 p c' i : (i < length (vh (Gv p) c'))%nat -> vm (Gv (S p)) c' i = vm (Gv p) c' i.
Proof.
  intros Hi. destruct (nth_error sched p) as [[t x]|] eqn:Hp.
  2:{ unfold G3. rewrite (SC3_end _ _ _ _ Hp). reflexivity. }
  destruct (position_views3 p t x Hp) as (g1 & Rv & (_ & _ & Em)). rewrite Em.
  destruct Rv as [_ Rv|_ [->|c0 ->]]; [|reflexivity|reflexivity].
  destruct Rv as [_ -> _|c0 a _ -> _|c0 new _ -> _ _|c0 a k rest i0 _ _ ->|c0 a k rest _ _ ->]; try reflexivity.
  cbn [wrg vm]. unfold updN. destruct (N.eqb_spec c' c0) as [->|_]; [|reflexivity].
  apply updn_other. lia.
Qed.

Lemma vm_stable3 p q c' i : (p <= q)%nat -> (i < length (vh (Gv p) c'))%nat -> vm (Gv q) c' i = vm (Gv p) c' i.
Proof.
  induction 1 as [|q Hq IH]; intros Hi; [reflexivity|]. rewrite vm_stable_succ3; [exact (IH Hi)|].
  pose proof (vh_length_mono3 cf s0 sched p q c' Hq). lia.
Qed.

(** A proper stale load acquires nothing. *)
Lemma q2_no_acq s t x c' e : Q2 cf s t x -> In e (snd (step_stale3 cf s t x)) -> ~ acq_event c' e.
Proof.
  intros [p rest l evs nx Hr Hs Hx He E] Hin Ha.
  assert (Hse : In e (sevs (snd (step_stale3 cf s t x)))).
  { unfold sevs. apply filter_In. split; [exact Hin|]. destruct e; try contradiction. destruct l0; try contradiction. reflexivity. }
  rewrite E, finish_sevs in Hse.
  destruct (stale2_exec_store _ _ _ _ _ _ _ _ _ He) as [_ [Ev|(c & Ev)]]; rewrite Ev in Hse; [destruct Hse|].
  destruct Hse as [<-|[]]. cbn [acq_event] in Ha. destruct Ha as [_ [[_ Hx']|[_ [Hx'|Hx']]]]; discriminate Hx'.
Qed.

(** ** What an acquiring access joins *)
Lemma acquire_joins3 p t' c' c :
  acquired3 p t' c' -> (vm (Gv p) c' (length (vh (Gv p) c') - 1) c <= vt (Gv (S p)) t' c)%nat.
Proof.
  intros (x & e & Hp & Hq & Hin & He).
  destruct (step3_dich cf (St p) t' x) as [E3|Q]; [|elim (q2_no_acq _ _ _ c' e Q Hin He)].
  rewrite E3, (q1_stale_false cf _ t' x Hq) in Hin.
  assert (E' : SC3 cf s0 sched (S p) = vstep3 cf (St p, Gv p) t' x) by (rewrite (SC3_step _ _ _ _ _ _ Hp), SC3_pair; reflexivity).
  assert (Hg : exists g1, same_views g1 (Gv (S p)) /\
                 (g1 = rdg (Gv p) t' c' (length (vh (Gv p) c') - 1) true \/ exists new, g1 = wrg (Gv p) t' c' new)).
  { unfold G3 at 1. rewrite E'. unfold vstep3, vstep_with. rewrite E3, (q1_stale_false cf _ t' x Hq), Hq.
    destruct (step cf (St p) t' x) as [s' evs] eqn:Est. cbn [snd] in *.
    exists (fold_left (fun g e0 => vacc g t' false e0) evs (Gv p)). split; [apply vcache_same_views|].
    rewrite fold_vacc_sevs.
    assert (Hse : In e (sevs evs)).
    { unfold sevs. apply filter_In. split; [exact Hin|]. destruct e; try contradiction. destruct l; try contradiction. reflexivity. }
    pose proof (step_sstep cf (St p) t' x) as Hss. rewrite Est in Hss. cbn [fst snd] in Hss.
    destruct Hss as [H1 _|c0 op o fo ok H1 H2 _|c0 op o fo new H1 H2 H3 H4 _ _]; rewrite H1 in Hse |- *.
    - destruct Hse.
    - destruct Hse as [<-|[]]. cbn [acq_event] in He. destruct He as [-> [[-> Ha]|[-> Hop]]].
      + destruct H2 as [[_ ->]|[Hx _]]; [|discriminate Hx]. cbn [fold_left]. rewrite vacc_load, Ha. left. reflexivity.
      + destruct H2 as [[-> _]|[_ Hx]]; [|discriminate Hx]. destruct Hop; discriminate.
    - destruct Hse as [<-|[]]. cbn [acq_event] in He. destruct He as [-> _]. cbn [fold_left].
      rewrite (vacc_write _ t' false c' op o fo _ new H2 H3 H4). right. eauto. }
  destruct Hg as (g1 & (_ & Et & _) & [-> |(new & ->)]); rewrite Et.
  - cbn [rdg vt]. rewrite updN_same. unfold vjoin. lia.
  - cbn [wrg vt]. rewrite updN_same. unfold updN. destruct (N.eqb_spec c c') as [->|_]; [|unfold vjoin; lia].
    pose proof (va_m _ (run3_VInvA cf s0 sched p) c' (length (vh (Gv p) c') - 1)%nat c'). lia.
Qed.

(** ** Freshness is transferred through any other container *)
Theorem view_handover3 t c i p1 c' j p2 t' p3 q :
  wrote3 p1 t c i -> wrote3 p2 t c' j -> (p1 < p2)%nat ->
  acquired3 p3 t' c' -> (p2 < p3)%nat -> (S p3 <= q)%nat ->
  (i <= vt (Gv q) t' c)%nat.
Proof.
  intros W1 W2 H12 A3 H23 Hq.
  pose proof (own_write_seen3 p1 t c i p2 W1 ltac:(lia)) as H1.
  pose proof (write_releases3 p2 t c' j c W2) as H2.
  destruct W2 as (x2 & _ & L1 & L2).
  pose proof (vm_stable3 (S p2) p3 c' j ltac:(lia) ltac:(lia)) as H3.
  pose proof (vh_length_mono3 cf s0 sched (S p2) p3 c' ltac:(lia)) as Hl.
  pose proof (va_mono _ (run3_VInvA cf s0 sched p3) c' j (length (vh (Gv p3) c') - 1)%nat c ltac:(lia)) as H4.
  pose proof (acquire_joins3 p3 t' c' c A3) as H5.
  pose proof (vt_mono3 cf s0 sched (S p3) q t' c Hq) as H6.
  rewrite H3 in H4. lia.
Qed.
End Run.

Print Assumptions own_write_seen3.
Print Assumptions view_handover3.
