(** * ASModel.Stale3Fresh2 — the step lemmas of [StaleCInv7] .. [StaleCInv21] for [step_stale3]:
    each is the lemma for [step_staleC] or a consequence of [q2_after]. *)
From Coq Require Import Lia.
From ASModel Require Import Base State Orderings_gen Step Run Progress Hist Inv InvTl InvProto InvStep Sum StepCases.
From ASModel Require Import GenDefs Gen1 Gen2 Gen Typed1 LinDefs Lin1 Lin14 LinCache1 LinCache2.
From ASModel Require Import ProtDefs Prot11.
From ASModel Require Import CchDefs CchAcc1 CchAcc2 CchAcc4 CchAcc6 CchAcc CchCmd CchMain.
From ASModel Require Import Stale Stale2 StaleC StaleCView.
From ASModel Require Import StaleCInv1 StaleCInv3 StaleCInv6 StaleCInv7 StaleCInv8 StaleCInv9 StaleCInv10 StaleCInv11 StaleCInv12
  StaleCInv16 StaleCInv17 StaleCInv18 StaleCInv19 StaleCInv21 StaleCInv28 StaleCInv29 Stale3Fresh1.

Section Step3.
Variables (cf : config) (s : state) (t x : N).
Local Notation s' := (fst (step_stale3 cf s t x)).

Lemma step3_other t' : t' <> t -> thr s' t' = thr s t'.
Proof.
  intros H. destruct (step3_dich cf s t x) as [E|Q]; [rewrite E; apply step_staleC_other; exact H|].
  apply (qp_other _ _ _ (q2_after _ _ _ _ Q)). exact H.
Qed.

Lemma step3_cmdi_mono t' : t_cmdi (thr s t') <= t_cmdi (thr s' t').
Proof.
  destruct (step3_dich cf s t x) as [E|Q]; [rewrite E; apply step_staleC_cmdi_mono|].
  pose proof (q2_after _ _ _ _ Q) as P. destruct (N.eq_dec t' t) as [->|H].
  - rewrite (qp_cmdi _ _ _ P). lia.
  - rewrite (qp_other _ _ _ P t' H). lia.
Qed.

Lemma step3_stopped t' : t_status (thr s t') <> Running -> thr s' t' = thr s t'.
Proof.
  intros H. destruct (step3_dich cf s t x) as [E|Q]; [rewrite E; apply step_staleC_stopped; exact H|].
  pose proof (q2_after _ _ _ _ Q) as P. destruct (N.eq_dec t' t) as [->|Hne]; [|exact (qp_other _ _ _ P t' Hne)].
  elim H. exact (qp_run _ _ _ P).
Qed.

(** The stack of the acting thread after a proper stale load holds no peek frame. *)
Lemma q2_noq : Q2 cf s t x -> QShape s -> Forall (fun f => isq f = false) (t_stack (thr s' t)).
Proof.
  intros Q QS. pose proof (q2_after _ _ _ _ Q) as P.
  destruct (qp_self _ _ _ P) as (p & rest & Hs & Hp & H). pose proof (QS t) as HQ. rewrite Hs in HQ.
  pose proof (QI_rest _ _ HQ (proj1 (proj2 (proj2 Hp)))) as Hr.
  destruct H as [(_ & q & -> & Hq & _)|(_ & ->)]; [constructor; [apply Hq|exact Hr]|exact Hr].
Qed.

Theorem step3_QShape : WF2 s -> CchAcc.Typed s -> NoFault s' -> QShape s -> QShape s'.
Proof.
  intros W T Hnf QS. destruct (step3_dich cf s t x) as [E|Q]; [rewrite E in *; apply step_staleC_QShape; assumption|].
  intros t'. destruct (N.eq_dec t' t) as [->|H]; [apply noq_QI; apply q2_noq; assumption|].
  rewrite (step3_other t' H). apply QS.
Qed.

Theorem step3_CacheHold :
  WF2 s -> CchAcc.Typed s -> (forall t', dst_ok (thr s t')) -> BotCmd s -> QShape s -> CacheExcl s -> NoFault s' ->
  CacheHold s -> CacheHold s'.
Proof.
  intros W T D BC QS CE Hnf CH. destruct (step3_dich cf s t x) as [E|Q]; [rewrite E in *; apply step_staleC_CacheHold; assumption|].
  intros t1 c a k Hs1. rewrite (qp_hnd _ _ _ (q2_after _ _ _ _ Q)). destruct (N.eq_dec t1 t) as [->|H].
  - exfalso. pose proof (q2_noq Q QS) as Hn. rewrite Hs1 in Hn. inversion Hn as [|? ? Hx _]. discriminate Hx.
  - rewrite (step3_other t1 H) in Hs1. exact (CH t1 c a k Hs1).
Qed.

Theorem step3_hnd_frame h :
  CchAcc.Typed s -> (forall t', dst_ok (thr s t')) -> hnd s' h <> hnd s h ->
  t_status (thr s t) = Running /\ exists cm, cur_cmd s t = Some cm /\ In h (cmd_mods cm).
Proof.
  intros T D Hne. destruct (step3_dich cf s t x) as [E|Q]; [rewrite E in *; apply (step_staleC_hnd_frame cf s t x h); assumption|].
  elim Hne. rewrite (qp_hnd _ _ _ (q2_after _ _ _ _ Q)). reflexivity.
Qed.

Theorem step3_hcache k0 c v :
  CchAcc.Typed s -> hnd s' k0 = HCache c v -> hnd s k0 <> HCache c v ->
  (exists h, t_status (thr s t) = Running /\ t_stack (thr s t) = [] /\ cur_cmd s t = Some (CMove h k0) /\
             hnd s h = HCache c v) \/
  (t_status (thr s t) = Running /\ In (KCacheDone c k0) (t_stack (thr s t)) /\
   t_cmdi (thr s' t) = t_cmdi (thr s t) + 1).
Proof.
  intros T H Hn. destruct (step3_dich cf s t x) as [E|Q]; [rewrite E in *; apply step_staleC_hcache; assumption|].
  elim Hn. rewrite <- (qp_hnd _ _ _ (q2_after _ _ _ _ Q)). exact H.
Qed.

Lemma step3_bottom t' b :
  WF2 s -> QShape s -> NoFault s' -> is_bottom_frame b = true ->
  t_status (thr s t') = Running -> (exists pre, t_stack (thr s t') = pre ++ [b]) ->
  t_status (thr s' t') = Running -> t_cmdi (thr s' t') = t_cmdi (thr s t') ->
  exists pre, t_stack (thr s' t') = pre ++ [b].
Proof.
  intros W QS Hnf Hb Hr Hpre Hr' Hci.
  destruct (step3_dich cf s t x) as [E|Q]; [rewrite E in *; apply step_staleC_bottom; assumption|].
  destruct (N.eq_dec t' t) as [->|H]; [|rewrite (step3_other t' H); exact Hpre].
  destruct (qp_self _ _ _ (q2_after _ _ _ _ Q)) as (p & rest & Hs & Hp & [(_ & q & Hs' & _)|(Hx & _)]); [|congruence].
  destruct Hpre as (pre & Hpre). rewrite Hs in Hpre. rewrite Hs'. destruct pre as [|p0 pre].
  - injection Hpre as -> _. destruct Hp as (_ & _ & _ & _ & Hx & _). congruence.
  - injection Hpre as _ ->. exists (q :: pre). reflexivity.
Qed.

Lemma step3_handles h :
  QShape s -> t_stack (thr s t) <> [] -> hnd s' h = hnd s h \/ t_stack (thr s' t) = [].
Proof.
  intros QS Hne. destruct (step3_dich cf s t x) as [E|Q]; [rewrite E; apply step_staleC_handles; assumption|].
  left. rewrite (qp_hnd _ _ _ (q2_after _ _ _ _ Q)). reflexivity.
Qed.

Lemma step3_nil :
  QShape s -> t_stack (thr s t) <> [] -> t_stack (thr s' t) = [] -> t_status (thr s' t) = Running ->
  t_cmdi (thr s' t) = t_cmdi (thr s t) + 1.
Proof.
  intros QS Hne. destruct (step3_dich cf s t x) as [E|Q]; [rewrite E; apply step_staleC_nil; assumption|].
  intros Hs' Hr'. exfalso.
  destruct (qp_self _ _ _ (q2_after _ _ _ _ Q)) as (p & rest & _ & _ & [(_ & q & Hx & _)|(Hx & _)]); congruence.
Qed.
End Step3.

(** ** The ghost of one instrumented step *)
Inductive vacc_q2 (g : vghost) (t : N) (g1 : vghost) : Prop :=
| vq_none : g1 = g -> vacc_q2 g t g1
| vq_read c : g1 = rdg g t c (length (vh g c) - 1) false -> vacc_q2 g t g1.

Inductive pos3 (cf : config) (s : state) (g : vghost) (t x : N) (g1 : vghost) : Prop :=
| p3_c : step_stale3 cf s t x = step_staleC cf s t x -> vacc_res cf s g t x g1 -> pos3 cf s g t x g1
| p3_q : Q2 cf s t x -> vacc_q2 g t g1 -> pos3 cf s g t x g1.

Theorem vstep3_pos cf s g t x :
  exists g1,
    vstep3 cf (s, g) t x =
      (fst (step_stale3 cf s t x), vcache g1 s (fst (step_stale3 cf s t x)) t (q1_read_idx g s t x)) /\
    pos3 cf s g t x g1.
Proof.
  destruct (step3_dich cf s t x) as [E|Q].
  - destruct (vstepC_ghost cf s g t x) as (g1 & E1 & Rv). exists g1. split; [|apply p3_c; assumption].
    rewrite E, <- E1. unfold vstep3, vstepC, vstep_with. rewrite E. reflexivity.
  - destruct (q2_not_q1 cf s t x Q) as [Hq _]. pose proof Q as Q0.
    destruct Q as [p rest l evs nx Hr Hs Hx He E]. unfold vstep3, vstep_with. rewrite Hq.
    destruct (step_stale3 cf s t x) as [s1 evs1] eqn:Est. cbn [fst].
    exists (fold_left (fun g0 e => vacc g0 t false e) evs1 g). split; [reflexivity|]. apply p3_q; [exact Q0|].
    rewrite fold_vacc_sevs. replace evs1 with (snd (s1, evs1)) by reflexivity. rewrite E, finish_sevs.
    destruct (stale2_exec_store _ _ _ _ _ _ _ _ _ He) as [_ [Ev|(c & Ev)]]; rewrite Ev; cbn [fold_left].
    + apply vq_none. reflexivity.
    + apply (vq_read _ _ _ c). apply vacc_load.
Qed.

Lemma vacc_q2_vc g t g1 : vacc_q2 g t g1 -> vc g1 = vc g.
Proof. intros [->|c ->]; reflexivity. Qed.

Lemma vacc_q2_res3 cf s g t x g1 : Q2 cf s t x -> vacc_q2 g t g1 -> vacc_res3 cf s g t x g1.
Proof.
  intros Q [->|c ->]; [apply v3_none|apply (v3_read _ _ _ _ _ _ c)]; try reflexivity;
    exact (qp_sh _ _ _ (q2_after _ _ _ _ Q)).
Qed.

Lemma pos3_res3 cf s g t x g1 : pos3 cf s g t x g1 -> vacc_res3 cf s g t x g1.
Proof. intros [E R|Q R]; [apply v3_c; assumption|apply vacc_q2_res3; assumption]. Qed.

Lemma pos3_vc cf s g t x g1 : pos3 cf s g t x g1 -> vc g1 = vc g.
Proof. intros [_ R|_ R]; [exact (vacc_res_vc _ _ _ _ _ _ R)|exact (vacc_q2_vc _ _ _ R)]. Qed.

(** After a proper stale load [vcache] leaves the indices alone. *)
Lemma vcache_q2 cf s t x g1 ri : Q2 cf s t x -> vc (vcache g1 s (fst (step_stale3 cf s t x)) t ri) = vc g1.
Proof.
  intros Q. pose proof (q2_after _ _ _ _ Q) as P.
  destruct (vcache_cases g1 s (fst (step_stale3 cf s t x)) t ri)
    as [E|cm k c v a c1 k1 rest i _ _ _ _ Hs _ _ _|cm k c v i _ _ Hh2 Hh1 _ _]; [exact E| |].
  - exfalso. destruct (qp_self _ _ _ P) as (p & rest' & Hs' & Hp & _). rewrite Hs in Hs'. injection Hs' as <- _.
    destruct Hp as (_ & _ & Hx & _). discriminate Hx.
  - exfalso. apply Hh1. rewrite <- (qp_hnd _ _ _ P). exact Hh2.
Qed.
