(** * ASModel.Stale3Fresh3 — the cache zone invariant [LinCache2.CacheZone] survives the replacement
    of a top frame by a twin ([StaleInv1.twin], [Stale2Inv1.twin2]): the frames concerned are
    frames of a load that carry no value and return the same kind. *)
From Coq Require Import Lia.
From ASModel Require Import Base State Orderings_gen Step Run Progress Hist Inv InvTl InvProto InvStep Sum StepCases.
From ASModel Require Import GenDefs LinDefs Lin1 Lin14 LinCache1 LinCache2.
From ASModel Require StaleInv1 StaleInv7 Stale2Inv1 Stale2Inv7.

Record ztwin (p p' : pc) : Prop := {
  zt_lfr0 : lfr p = true;
  zt_lfr : lfr p' = true;
  zt_val : fval p' = None;
  zt_kind : ret_kind p' = ret_kind p;
  zt_lh7 : forall cand e, p' <> LH7 cand e;
}.

Lemma twin_ztwin p p' : StaleInv1.twin p p' -> ztwin p p'.
Proof. intros T. destruct T; constructor; try reflexivity; discriminate. Qed.

Lemma twin2_ztwin p p' : Stale2Inv1.twin2 p p' -> ztwin p p'.
Proof. intros T. destruct T; constructor; try reflexivity; discriminate. Qed.

Section ZRetop.
Variables (s : state) (t : N) (p p' : pc) (rest : list pc) (thr' : N -> thread).
Hypothesis Hs : t_stack (thr s t) = p :: rest.
Hypothesis Htw : ztwin p p'.
Hypothesis Hsame : thr' t = mkThread (p' :: rest) (t_loc (thr s t)) (t_prog (thr s t)) (t_cmdi (thr s t)) (t_status (thr s t)).
Hypothesis Hoth : forall t', t' <> t -> thr' t' = thr s t'.
Local Notation s' := (mkState (sh s) thr' (hnd s)).

Lemma zr_LZ P c k : LZ P c k (p :: rest) -> LZ P c k (p' :: rest).
Proof.
  cbn [LZ]. rewrite (lfr_not_ctail _ (zt_lfr0 _ _ Htw)), (lfr_not_ctail _ (zt_lfr _ _ Htw)).
  intros (_ & H1 & H2 & H3). rewrite (zt_kind _ _ Htw). split; [|auto].
  split; [exact (zt_lfr _ _ Htw)|]. intros v Hv. rewrite (zt_val _ _ Htw) in Hv. discriminate Hv.
Qed.

Lemma zr_CacheZone g : CacheZone s g -> CacheZone s' g.
Proof.
  intros CZV t' cm k. cbn [thr sh]. destruct (N.eq_dec t' t) as [->|Hne].
  2:{ unfold cur_cmd. cbn [thr]. rewrite (Hoth t' Hne). apply CZV. }
  unfold cur_cmd. cbn [thr]. rewrite Hsame. cbn [t_status t_prog t_cmdi t_stack]. intros Hr Hcm Hk.
  destruct (CZV t cm k Hr Hcm Hk) as [Hx|(c & HZ & _)]; [rewrite Hs in Hx; discriminate Hx|].
  right. exists c. split.
  - rewrite Hs in HZ. destruct HZ as [(a & [= -> _])|HZ].
    + pose proof (zt_lfr0 _ _ Htw) as Hx. discriminate Hx.
    + right. apply zr_LZ. exact HZ.
  - intros cand e rest0 [= E _]. elim (zt_lh7 _ _ Htw cand e E).
Qed.
End ZRetop.

Lemma retop_LinInv3 s t p p' rest thr' g :
  t_stack (thr s t) = p :: rest -> StaleInv1.twin p p' ->
  thr' t = mkThread (p' :: rest) (t_loc (thr s t)) (t_prog (thr s t)) (t_cmdi (thr s t)) (t_status (thr s t)) ->
  (forall t', t' <> t -> thr' t' = thr s t') ->
  LinInv3 s g -> LinInv3 (mkState (sh s) thr' (hnd s)) g.
Proof.
  intros Hs Htw Hsame Hoth [LI CZV]. split.
  - eapply StaleInv7.retop_LinInv2; eassumption.
  - eapply zr_CacheZone; try eassumption. apply twin_ztwin. exact Htw.
Qed.

Lemma retop2_LinInv3 s t p p' rest thr' g :
  t_stack (thr s t) = p :: rest -> Stale2Inv1.twin2 p p' ->
  thr' t = mkThread (p' :: rest) (t_loc (thr s t)) (t_prog (thr s t)) (t_cmdi (thr s t)) (t_status (thr s t)) ->
  (forall t', t' <> t -> thr' t' = thr s t') ->
  LinInv3 s g -> LinInv3 (mkState (sh s) thr' (hnd s)) g.
Proof.
  intros Hs Htw Hsame Hoth [LI CZV]. split.
  - eapply Stale2Inv7.retop_LinInv2; eassumption.
  - eapply zr_CacheZone; try eassumption. apply twin2_ztwin. exact Htw.
Qed.
