(** * ASModel.Stale3Fresh4 — the linearization invariant with cache zones ([LinCache2.LinInv3]) is
    preserved by every step of [step_stale3], the ghost of [LinDefs] being advanced by
    [StaleCInv13.gnext] ([gstep3_LinInv3]). *)
From Coq Require Import Lia.
From ASModel Require Import Base State Orderings_gen Step Run Progress Hist Inv InvTl InvProto InvStep Sum StepCases.
From ASModel Require Import GenDefs Gen1 Gen2 Gen EnvDefs Env4 Env LinDefs Lin1 Lin14 Lin LinCache1 LinCache2 LinCache4.
From ASModel Require Import Safe1 Safe2 Safe8 Safe Main.
From ASModel Require Import CchDefs CchAcc CchCmd CchMain.
From ASModel Require Import Stale StaleInv1 StaleInv4 Stale2 Stale2Inv1 Stale2Inv4 Stale2Inv5 StaleC StaleCView.
From ASModel Require Import StaleCInv1 StaleCInv6 StaleCInv7 StaleCInv13 StaleCInv15 StaleCInv27 StaleCInv28.
From ASModel Require Import Stale3Fresh1 Stale3Fresh2 Stale3Fresh3.

Lemma gnext_sh s s1 s2 g t : sh s1 = sh s2 -> gnext s s1 g t = gnext s s2 g t.
Proof. intros E. unfold gnext. rewrite E. reflexivity. Qed.

Lemma gnext_mk s sn thr' h g t : gnext s (mkState (sh sn) thr' h) g t = gnext s sn g t.
Proof. reflexivity. Qed.

Lemma MasterC_Calm s : GenBound s -> ProgOKC s -> MasterC s -> Calm s.
Proof. intros GB PO _. apply Calm_split. split; [exact GB|apply PO]. Qed.

Lemma step_LinInv3 cf s g t x :
  GenBound s -> ProgOKC s -> alloc_ok s t x -> MasterC s -> LinInv3 s g ->
  LinInv3 (fst (step cf s t x)) (gnext s (fst (step cf s t x)) g t).
Proof.
  intros GB PO AO M LI. pose proof (step_MasterC cf s t x GB PO AO M) as Mn. pose proof (MasterC_EnvInvQ _ M) as EQ.
  pose proof (gstep_LinInv3 cf s g t x (mc_wf _ M) (MasterC_Calm s GB PO M) (mc_quiet _ M) (mc_gen _ M)
                (EnvInvQ_EnvFree _ EQ) (EnvInvQ_EnvA _ EQ) LI (mc_nofault _ Mn)) as H.
  rewrite gstep_gnext in H. exact H.
Qed.

(** The ghost after the step from the state with [LH0d c] in place of [LAscan c v i]. *)
Lemma gnext_pre s g t c v i rest thr1 sn s2 :
  t_status (thr s t) = Running -> t_stack (thr s t) = LAscan c v i :: rest ->
  thr1 t = mkThread (LH0d c :: rest) (t_loc (thr s t)) (t_prog (thr s t)) (t_cmdi (thr s t)) (t_status (thr s t)) ->
  sh s2 = sh sn ->
  gnext s s2 g t = gnext (mkState (sh s) thr1 (hnd s)) sn g t.
Proof.
  intros Hr Hst Hsame Hsh. unfold gnext, starts_now, publishes_now. cbn [thr]. rewrite Hsh, Hsame, Hst, Hr. reflexivity.
Qed.

Theorem gstep3_LinInv3 cf s g t x :
  GenBound s -> ProgOKC s -> alloc_ok s t x -> stale2_ok s t x -> MasterC s -> QShape s -> LinInv3 s g ->
  LinInv3 (fst (step_stale3 cf s t x)) (gnext s (fst (step_stale3 cf s t x)) g t).
Proof.
  intros GB PO AO SO M QS LI.
  pose proof (step_stale3_MasterC cf s t x GB PO AO SO M) as M3. pose proof (MasterC_EnvInvQ _ M) as EQ.
  destruct (step3_dich cf s t x) as [E|Q].
  { rewrite E in *.
    exact (gstepC_LinInv3 cf s g t x (mc_wf _ M) (MasterC_Calm s GB PO M) (mc_quiet _ M) (mc_gen _ M)
             (EnvInvQ_EnvFree _ EQ) (EnvInvQ_EnvA _ EQ) QS LI (mc_nofault _ M3)). }
  rewrite (q2_stale2 _ _ _ _ Q).
  destruct (step_stale2_cases cf s t x (mc_wf _ M) SO)
    as [E|c rest Hst|sn p p' rest thr' Esn Hr Hne Hci Hsn Htw Hsame Hoth E
        |c v i rest thr1 sn q thr2 Hr Hst Hsame1 Hoth1 Esn Hsh Hhnd Hci Hsn Htw Hsame2 Hoth2 E].
  - rewrite E. apply step_LinInv3; assumption.
  - rewrite (step_stale2_LA1 cf s t x c rest Hst).
    destruct (step_stale_cases cf s t x) as [E|c' rest' p p' thr' Hr Hst' Hx Hsn Htw Ep' Hsame Hoth E]; rewrite E.
    + apply step_LinInv3; assumption.
    + rewrite gnext_mk.
      eapply retop_LinInv3; [exact Hsn|exact Htw|exact Hsame|exact Hoth|]. apply step_LinInv3; assumption.
  - rewrite E. subst sn. rewrite gnext_mk.
    eapply retop2_LinInv3; [exact Hsn|exact Htw|exact Hsame|exact Hoth|]. apply step_LinInv3; assumption.
  - set (s1 := mkState (sh s) thr1 (hnd s)) in *.
    assert (M1 : MasterC s1) by (eapply MasterC_retop2; try eassumption; constructor).
    assert (LI1 : LinInv3 s1 g) by (eapply retop2_LinInv3; try eassumption; constructor).
    assert (GB1 : GenBound s1) by (eapply sideC_GenBound; eassumption).
    assert (PO1 : ProgOKC s1) by (eapply sideC_ProgOKC; try eassumption; discriminate).
    assert (AO1 : alloc_ok s1 t 0) by (unfold alloc_ok; cbn; rewrite Hsame1; exact I).
    pose proof (step_LinInv3 cf s1 g t 0 GB1 PO1 AO1 M1 LI1) as H. rewrite <- Esn in H.
    rewrite E, gnext_mk. rewrite (gnext_pre s g t c v i rest thr1 sn sn Hr Hst Hsame1 eq_refl). fold s1.
    eapply retop2_LinInv3; [exact Hsn|exact Htw|exact Hsame2|exact Hoth2|exact H].
Qed.
