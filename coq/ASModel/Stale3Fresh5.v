(** * ASModel.Stale3Fresh5 — runs of [step_stale3] within [RunOKS3]: the linearization ghost along the
    run ([Gl3]), [QShape], [CacheHold], [LinInv3], [StartPos] in every state; the ghost's instants are
    positions of the run ([lt3_sound]); command indices only grow. *)
From Coq Require Import Lia.
From ASModel Require Import Base State Orderings_gen Step Run Progress Hist Inv InvTl InvProto InvStep Sum StepCases.
From ASModel Require Import GenDefs Gen1 Gen2 Gen EnvDefs Env4 Env LinDefs Lin1 Lin14 Lin LinCache1 LinCache2 LinCache4.
From ASModel Require Import ProtDefs Prot11 Safe1 Safe2 Safe8 Safe Main.
From ASModel Require Import CchDefs CchAcc CchCmd CchMain.
From ASModel Require Import Stale Stale2 StaleC StaleCView.
From ASModel Require Import StaleCInv1 StaleCInv6 StaleCInv7 StaleCInv13 StaleCInv15 StaleCInv16 StaleCInv17 StaleCInv28.
From ASModel Require Import Stale3Fresh1 Stale3Fresh2 Stale3Fresh3 Stale3Fresh4.

Definition gstep3 (cf : config) (sg : state * ghost) (t x : N) : state * ghost :=
  (fst (step_stale3 cf (fst sg) t x), gnext (fst sg) (fst (step_stale3 cf (fst sg) t x)) (snd sg) t).

Definition L3 (cf : config) (s0 : state) (sched : list (N * N)) (k : nat) : state * ghost :=
  fold_left (fun sg tx => gstep3 cf sg (fst tx) (snd tx)) (firstn k sched) (s0, ghost0).
Definition Gl3 (cf : config) (s0 : state) (sched : list (N * N)) (k : nat) : ghost := snd (L3 cf s0 sched k).

Lemma L3_step cf s0 sched k t x :
  nth_error sched k = Some (t, x) -> L3 cf s0 sched (S k) = gstep3 cf (L3 cf s0 sched k) t x.
Proof. intros H. unfold L3. rewrite (firstn_succ_nth _ _ _ H), fold_left_app. reflexivity. Qed.

Lemma L3_end cf s0 sched k : nth_error sched k = None -> L3 cf s0 sched (S k) = L3 cf s0 sched k.
Proof. intros H. apply nth_error_None in H. unfold L3. rewrite !firstn_all2 by lia. reflexivity. Qed.

Lemma L3_fst cf s0 sched k : fst (L3 cf s0 sched k) = St3 cf s0 sched k.
Proof.
  induction k as [|k IH]; [reflexivity|]. destruct (nth_error sched k) as [[t x]|] eqn:Hk.
  - rewrite (L3_step _ _ _ _ _ _ Hk), (St3_step _ _ _ _ _ _ Hk). unfold gstep3. cbn [fst]. rewrite IH. reflexivity.
  - rewrite (L3_end _ _ _ _ Hk), (St3_end _ _ _ _ Hk). exact IH.
Qed.

Lemma L3_pair cf s0 sched k : L3 cf s0 sched k = (St3 cf s0 sched k, Gl3 cf s0 sched k).
Proof. rewrite <- L3_fst. unfold Gl3. destruct (L3 cf s0 sched k); reflexivity. Qed.

Lemma Gl3_step cf s0 sched k t x :
  nth_error sched k = Some (t, x) ->
  Gl3 cf s0 sched (S k) = gnext (St3 cf s0 sched k) (St3 cf s0 sched (S k)) (Gl3 cf s0 sched k) t.
Proof.
  intros H. unfold Gl3 at 1. rewrite (L3_step _ _ _ _ _ _ H), L3_pair. unfold gstep3. cbn [fst snd].
  rewrite (St3_step _ _ _ _ _ _ H). reflexivity.
Qed.

Lemma Gl3_end cf s0 sched k : nth_error sched k = None -> Gl3 cf s0 sched (S k) = Gl3 cf s0 sched k.
Proof. intros H. unfold Gl3. rewrite (L3_end _ _ _ _ H). reflexivity. Qed.

Lemma Gl3_now cf s0 sched k : (k <= length sched)%nat -> g_now (Gl3 cf s0 sched k) = k.
Proof.
  induction k as [|k IH]; intros Hk; [reflexivity|].
  destruct (nth_error sched k) as [[t x]|] eqn:Hn; [|apply nth_error_None in Hn; lia].
  rewrite (Gl3_step _ _ _ _ _ _ Hn). cbn [gnext g_now]. rewrite IH by lia. reflexivity.
Qed.

(** [g_lt] names a position of the run at which the container held the value. *)
Theorem lt3_sound cf s0 sched c v : forall k,
  (k <= length sched)%nat ->
  let j := g_lt (Gl3 cf s0 sched k) c v in
  (j <= k)%nat /\ ((j > 0)%nat -> mem (sh (St3 cf s0 sched j)) (LStore c) = v).
Proof.
  induction k as [|k IH]; intros Hk; cbn zeta; [cbn; split; [lia|intros; lia]|].
  destruct (nth_error sched k) as [[t x]|] eqn:Hn; [|apply nth_error_None in Hn; lia].
  rewrite (Gl3_step _ _ _ _ _ _ Hn). cbn [gnext g_lt]. rewrite (Gl3_now cf s0 sched k) by lia.
  destruct (N.eqb_spec (mem (sh (St3 cf s0 sched (S k))) (LStore c)) v) as [E|E].
  - split; [lia|]. intros _. exact E.
  - destruct (IH ltac:(lia)) as [I1 I2]. split; [lia|exact I2].
Qed.

Lemma gstep3_StartPos cf s g t x :
  StartPos s g -> StartPos (fst (step_stale3 cf s t x)) (gnext s (fst (step_stale3 cf s t x)) g t).
Proof.
  intros SP t' Hne. destruct (N.eq_dec t' t) as [->|H].
  - cbn [gnext g_start]. rewrite N.eqb_refl. cbn [andb]. destruct (starts_now s t) eqn:Hst; [lia|].
    apply SP. intros Hs. unfold starts_now in Hst. rewrite Hs in Hst.
    destruct (t_status (thr s t)) eqn:Hr; try discriminate Hst.
    all: rewrite step3_stopped in Hne by congruence; congruence.
  - rewrite (step3_other cf s t x t' H) in Hne. cbn [gnext g_start].
    apply N.eqb_neq in H. rewrite H. cbn [andb]. apply SP. exact Hne.
Qed.

Section Run.
Variables (cf : config) (inits : list N) (progs : list (list cmd)) (sched : list (N * N)).
Hypothesis R : RunOKS3 cf inits progs sched.
Local Notation s0 := (init_state inits progs).
Local Notation St k := (St3 cf s0 sched k).
Local Notation Gl k := (Gl3 cf s0 sched k).

Lemma RunOKS3_Calm k : Calm (St k).
Proof. apply Calm_split. split; [apply (r3_state _ _ _ _ R k)|]. apply (RunOKS3_ProgOKC _ _ _ _ R k). Qed.

Theorem RunOKS3_QShape k : QShape (St k).
Proof.
  induction k as [|k IH]; [apply QShape_init|].
  destruct (nth_error sched k) as [[t x]|] eqn:Hk; [|rewrite (St3_end _ _ _ _ Hk); exact IH].
  pose proof (RunOKS3_MasterC _ _ _ _ R k) as M. pose proof (RunOKS3_MasterC _ _ _ _ R (S k)) as M1.
  rewrite (St3_step _ _ _ _ _ _ Hk) in M1 |- *.
  apply step3_QShape; [apply M|apply (ai_typed _ (mc_acc _ M))|apply M1|exact IH].
Qed.

Theorem RunOKS3_CacheHold k : CacheHold (St k).
Proof.
  induction k as [|k IH]; [apply CacheHold_init|].
  destruct (nth_error sched k) as [[t x]|] eqn:Hk; [|rewrite (St3_end _ _ _ _ Hk); exact IH].
  pose proof (RunOKS3_MasterC _ _ _ _ R k) as M. pose proof (RunOKS3_MasterC _ _ _ _ R (S k)) as M1.
  rewrite (St3_step _ _ _ _ _ _ Hk) in M1 |- *.
  apply step3_CacheHold; try assumption.
  - apply M.
  - apply (ai_typed _ (mc_acc _ M)).
  - apply (q_dst _ (mc_prot _ M)).
  - apply M.
  - apply RunOKS3_QShape.
  - apply (r3_state _ _ _ _ R k).
  - apply M1.
Qed.

Theorem RunOKS3_LinInv3 k : LinInv3 (St k) (Gl k).
Proof.
  induction k as [|k IH]; [apply LinInv3_init|].
  destruct (nth_error sched k) as [[t x]|] eqn:Hk.
  2:{ rewrite (St3_end _ _ _ _ Hk), (Gl3_end _ _ _ _ Hk). exact IH. }
  rewrite (Gl3_step _ _ _ _ _ _ Hk), (St3_step _ _ _ _ _ _ Hk).
  apply gstep3_LinInv3; [apply (r3_state _ _ _ _ R k)|apply (RunOKS3_ProgOKC _ _ _ _ R k)|exact (r3_alloc _ _ _ _ R k t x Hk)
                        |exact (r3_stale2 _ _ _ _ R k t x Hk)|apply (RunOKS3_MasterC _ _ _ _ R k)|apply RunOKS3_QShape|exact IH].
Qed.

Lemma run3_StartPos k : StartPos (St k) (Gl k).
Proof.
  induction k as [|k IH].
  - intros t Hne. exfalso. apply Hne. cbn. apply init_threads_stack. cbn. auto.
  - destruct (nth_error sched k) as [[t x]|] eqn:Hk.
    + rewrite (Gl3_step _ _ _ _ _ _ Hk), (St3_step _ _ _ _ _ _ Hk). apply gstep3_StartPos. exact IH.
    + rewrite (St3_end _ _ _ _ Hk), (Gl3_end _ _ _ _ Hk). exact IH.
Qed.
End Run.

Section Run0.
Variables (cf : config) (s0 : state) (sched : list (N * N)).
Local Notation St k := (St3 cf s0 sched k).

Lemma St3_cmdi_succ k t : t_cmdi (thr (St k) t) <= t_cmdi (thr (St (S k)) t).
Proof.
  destruct (nth_error sched k) as [[t0 x]|] eqn:Hk.
  - rewrite (St3_step _ _ _ _ _ _ Hk). apply step3_cmdi_mono.
  - rewrite (St3_end _ _ _ _ Hk). lia.
Qed.

Lemma St3_cmdi_mono j k t : (j <= k)%nat -> t_cmdi (thr (St j) t) <= t_cmdi (thr (St k) t).
Proof. induction 1 as [|k _ IH]; [lia|]. pose proof (St3_cmdi_succ k t). lia. Qed.

Lemma St3_stopped j k t : (j <= k)%nat -> t_status (thr (St j) t) <> Running -> thr (St k) t = thr (St j) t.
Proof.
  intros Hjk Hs. induction Hjk as [|k _ IH]; [reflexivity|].
  destruct (nth_error sched k) as [[t0 x]|] eqn:Hk.
  - rewrite (St3_step _ _ _ _ _ _ Hk), step3_stopped; [exact IH|]. rewrite IH. exact Hs.
  - rewrite (St3_end _ _ _ _ Hk). exact IH.
Qed.

Lemma St3_running t i j pb :
  (j <= pb)%nat -> t_cmdi (thr (St pb) t) = i -> t_cmdi (thr (St (S pb)) t) = i + 1 ->
  t_status (thr (St j) t) = Running.
Proof.
  intros Hj H1 H2. destruct (status_running_dec (t_status (thr (St j) t))) as [H|H]; [exact H|exfalso].
  rewrite (St3_stopped j pb t Hj H) in H1. rewrite (St3_stopped j (S pb) t ltac:(lia) H) in H2. lia.
Qed.

Lemma St3_cur t i cm j :
  nth_error (t_prog (thr s0 t)) (N.to_nat i) = Some cm -> t_cmdi (thr (St j) t) = i -> cur_cmd (St j) t = Some cm.
Proof. intros Hcm Hj. unfold cur_cmd. rewrite St3_prog, Hj. exact Hcm. Qed.
End Run0.
