(** * ASModel.Stale3Fresh6 — runs of [vstep3]: one position unfolded ([position3f]); the step that
    completes a cache command is never a proper stale load ([run_completes3]); the value it leaves is
    an entry of the history ([fresh_in_history3]). *)
From Coq Require Import Lia.
From ASModel Require Import Base State Orderings_gen Step Run Progress Hist Inv InvTl InvProto InvStep Sum StepCases.
From ASModel Require Import GenDefs Gen1 Gen2 Gen EnvDefs Env4 Env LinDefs Lin1 Lin14 Lin LinCache1 LinCache2 LinCache4.
From ASModel Require Import ProtDefs Prot11 Safe1 Safe2 Safe8 Safe Main.
From ASModel Require Import CchDefs CchAcc CchCmd CchMain.
From ASModel Require Import Stale Stale2 StaleC StaleCView.
From ASModel Require Import StaleCInv1 StaleCInv3 StaleCInv6 StaleCInv7 StaleCInv10 StaleCInv11 StaleCInv12 StaleCInv13 StaleCInv15
  StaleCInv16 StaleCInv17 StaleCInv18 StaleCInv19 StaleCInv20 StaleCInv28 StaleCInv29 StaleCInv30.
From ASModel Require Import Stale3Fresh1 Stale3Fresh2 Stale3Fresh3 Stale3Fresh4 Stale3Fresh5.

Theorem cache_completes3 cf s g t x cm k :
  WF2 s -> Calm s -> Quiet s -> GenInv s -> EnvFree s -> EnvA s -> QShape s -> BotCmd s -> LinInv3 s g ->
  NoFault (fst (step_stale3 cf s t x)) ->
  t_status (thr s t) = Running -> cur_cmd s t = Some cm -> ckey cm = Some k -> t_stack (thr s t) <> [] ->
  t_cmdi (thr (fst (step_stale3 cf s t x)) t) = t_cmdi (thr s t) + 1 ->
  step_stale3 cf s t x = step_staleC cf s t x /\ completes cf s g t x k.
Proof.
  intros W Hc Q GI EF EA QS BC LI Hnf Hr Hcm Hk Hne Hci. destruct (step3_dich cf s t x) as [E|Q2].
  - split; [exact E|]. rewrite E in *. eapply cache_completes; eassumption.
  - exfalso. rewrite (qp_cmdi _ _ _ (q2_after _ _ _ _ Q2)) in Hci. lia.
Qed.

Section Run0.
Variables (cf : config) (s0 : state) (sched : list (N * N)).
Local Notation St k := (St3 cf s0 sched k).
Local Notation Gv k := (G3 cf s0 sched k).
Local Notation Gl k := (Gl3 cf s0 sched k).

Lemma position3f p t x :
  nth_error sched p = Some (t, x) ->
  exists g1, St (S p) = fst (step_stale3 cf (St p) t x) /\
             Gv (S p) = vcache g1 (St p) (St (S p)) t (q1_read_idx (Gv p) (St p) t x) /\
             pos3 cf (St p) (Gv p) t x g1 /\
             Gl (S p) = gnext (St p) (St (S p)) (Gl p) t.
Proof.
  intros Hp. destruct (vstep3_pos cf (St p) (Gv p) t x) as (g1 & E & Rv). exists g1.
  assert (E' : SC3 cf s0 sched (S p) = vstep3 cf (St p, Gv p) t x) by (rewrite (SC3_step _ _ _ _ _ _ Hp), SC3_pair; reflexivity).
  rewrite E in E'. split; [unfold St3; rewrite E'; reflexivity|]. split.
  - unfold G3, St3. rewrite E'. reflexivity.
  - split; [exact Rv|exact (Gl3_step _ _ _ _ _ _ Hp)].
Qed.

Corollary vh_nth_mono3 k k' c i v :
  (k <= k')%nat -> nth_error (vh (Gv k) c) i = Some v -> nth_error (vh (Gv k') c) i = Some v.
Proof.
  intros H Hn. destruct (vh_prefix3 cf s0 sched k k' c H) as (l & ->). rewrite nth_error_app1; [exact Hn|].
  apply nth_error_Some. congruence.
Qed.

Corollary vh_length_mono3 k k' c : (k <= k')%nat -> (length (vh (Gv k) c) <= length (vh (Gv k') c))%nat.
Proof. intros H. destruct (vh_prefix3 cf s0 sched k k' c H) as (l & ->). rewrite app_length. lia. Qed.

Corollary mem_in_history3 k k' c :
  never_consumed c s0 -> (k <= k')%nat ->
  nth_error (vh (Gv k') c) (length (vh (Gv k) c) - 1) = Some (mem (sh (St k)) (LStore c)).
Proof.
  intros Hnc Hk. apply (vh_nth_mono3 k k' c _ _ Hk).
  assert (Hnc' : never_consumed c (St k)) by (intros t cm; rewrite St3_prog; apply Hnc).
  rewrite <- (run3_HistOK cf s0 sched k c Hnc'). pose proof (va_ne _ (run3_VInvA cf s0 sched k) c) as Hne.
  destruct (vh (Gv k) c) as [|y l] using rev_ind; [congruence|].
  rewrite last_last, app_length. cbn. rewrite nth_error_app2 by lia.
  replace (length l + 1 - 1 - length l)%nat with 0%nat by lia. reflexivity.
Qed.

Lemma nc_run3 c p : never_consumed c (St p) <-> never_consumed c s0.
Proof. unfold never_consumed. split; intros H t cm; [rewrite <- (St3_prog cf s0 sched p t)|rewrite St3_prog]; apply H. Qed.
End Run0.

Section Run.
Variables (cf : config) (inits : list N) (progs : list (list cmd)) (sched : list (N * N)).
Hypothesis R : RunOKS3 cf inits progs sched.
Local Notation s0 := (init_state inits progs).
Local Notation St k := (St3 cf s0 sched k).
Local Notation Gv k := (G3 cf s0 sched k).
Local Notation Gl k := (Gl3 cf s0 sched k).

Lemma run_completes3 p t x cm k :
  nth_error sched p = Some (t, x) ->
  t_status (thr (St p) t) = Running -> cur_cmd (St p) t = Some cm -> ckey cm = Some k -> t_stack (thr (St p) t) <> [] ->
  t_cmdi (thr (St (S p)) t) = t_cmdi (thr (St p) t) + 1 ->
  step_stale3 cf (St p) t x = step_staleC cf (St p) t x /\ completes cf (St p) (Gl p) t x k.
Proof.
  intros Hp Hr Hcm Hk Hne Hci.
  pose proof (RunOKS3_MasterC _ _ _ _ R p) as M. pose proof (RunOKS3_MasterC _ _ _ _ R (S p)) as M1.
  pose proof (MasterC_EnvInvQ _ M) as EQ. rewrite (St3_step _ _ _ _ _ _ Hp) in M1, Hci.
  exact (cache_completes3 cf (St p) (Gl p) t x cm k (mc_wf _ M) (RunOKS3_Calm cf inits progs sched R p) (mc_quiet _ M) (mc_gen _ M)
           (EnvInvQ_EnvFree _ EQ) (EnvInvQ_EnvA _ EQ) (RunOKS3_QShape cf inits progs sched R p) (mc_bot _ M)
           (RunOKS3_LinInv3 cf inits progs sched R p) (mc_nofault _ M1) Hr Hcm Hk Hne Hci).
Qed.

Lemma fresh_in_history3 p t x c v :
  nth_error sched p = Some (t, x) -> never_consumed c s0 -> t_stack (thr (St p) t) <> [] ->
  PC (gnext (St p) (St (S p)) (Gl p) t) t c v ->
  g_start (gnext (St p) (St (S p)) (Gl p) t) t = g_start (Gl p) t ->
  exists tau, (1 <= tau)%nat /\ (g_start (Gl p) t <= tau <= S p)%nat /\ mem (sh (St tau)) (LStore c) = v /\
    nth_error (vh (Gv (S p)) c) (length (vh (Gv tau) c) - 1) = Some v.
Proof.
  intros Hp Hnc Hne HP Hst.
  assert (Hlen : (S p <= length sched)%nat) by (assert (p < length sched)%nat by (apply nth_error_Some; congruence); lia).
  pose proof (run3_StartPos cf inits progs sched p t Hne) as Hpos.
  destruct (lt3_sound cf s0 sched c v (S p) Hlen) as [L1 L2]. cbn zeta in L1, L2.
  rewrite (Gl3_step _ _ _ _ _ _ Hp) in L1, L2. unfold PC in HP. rewrite Hst in HP.
  set (tau := g_lt (gnext (St p) (St (S p)) (Gl p) t) c v) in *.
  exists tau. split; [lia|]. split; [lia|]. specialize (L2 ltac:(lia)). split; [exact L2|].
  rewrite <- L2. apply mem_in_history3; [exact Hnc|exact L1].
Qed.

(** At a peek the frame, the bottom frame and the handle agree. *)
Lemma q1_facts3 p t c a k rest cm :
  t_stack (thr (St p) t) = Q1 c a k :: rest -> cur_cmd (St p) t = Some cm ->
  rest = [KCacheDone c k] /\ ckey cm = Some k /\ hnd (St p) k = HCache c a.
Proof.
  intros Hs Hcm. pose proof (RunOKS3_QShape cf inits progs sched R p t) as HQ. rewrite Hs in HQ.
  pose proof (QI_top _ _ _ _ HQ) as ->. split; [reflexivity|].
  pose proof (RunOKS3_MasterC _ _ _ _ R p) as M.
  destruct (mc_bot _ M t (KCacheDone c k)) as [E|(cm' & Hcm' & Hb)]; [rewrite Hs; right; left; reflexivity|reflexivity|discriminate E|].
  unfold cur_cmd in Hcm. rewrite Hcm in Hcm'. injection Hcm' as <-. split; [exact (cache_on_ckey _ _ _ Hb)|].
  exact (RunOKS3_CacheHold cf inits progs sched R p t c a k Hs).
Qed.
End Run.
