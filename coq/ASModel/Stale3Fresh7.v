(** * ASModel.Stale3Fresh7 — the index of a cache points at its value ([StaleCInv20.CacheIdx]) in every
    state of a run of [vstep3] within [RunOKS3]; the full view invariant [VInv] ([run3_VInv]). *)
From Coq Require Import Lia.
From ASModel Require Import Base State Orderings_gen Step Run Progress Hist Inv InvTl InvProto InvStep Sum StepCases.
From ASModel Require Import GenDefs Gen1 Gen2 Gen EnvDefs Env4 Env LinDefs Lin1 Lin14 Lin LinCache1 LinCache2 LinCache4.
From ASModel Require Import ProtDefs Prot11 Safe1 Safe2 Safe8 Safe Main.
From ASModel Require Import CchDefs CchAcc CchCmd CchMain.
From ASModel Require Import Stale Stale2 StaleC StaleCView.
From ASModel Require Import StaleCInv1 StaleCInv3 StaleCInv6 StaleCInv7 StaleCInv10 StaleCInv11 StaleCInv12 StaleCInv13 StaleCInv15
  StaleCInv16 StaleCInv17 StaleCInv18 StaleCInv19 StaleCInv20 StaleCInv26 StaleCInv28 StaleCInv29 StaleCInv30.
From ASModel Require Import Stale3Fresh1 Stale3Fresh2 Stale3Fresh3 Stale3Fresh4 Stale3Fresh5 Stale3Fresh6.

Section Run.
Variables (cf : config) (inits : list N) (progs : list (list cmd)) (sched : list (N * N)).
Hypothesis R : RunOKS3 cf inits progs sched.
Hypothesis NM : forall p, NoCacheMove (St3 cf (init_state inits progs) sched p).
Local Notation s0 := (init_state inits progs).
Local Notation St k := (St3 cf s0 sched k).
Local Notation Gv k := (G3 cf s0 sched k).
Local Notation Gl k := (Gl3 cf s0 sched k).

Theorem run3_CacheIdx p : CacheIdx (St p) (Gv p).
Proof.
  induction p as [|p IH].
  - intros k c v H. discriminate H.
  - destruct (nth_error sched p) as [[t x]|] eqn:Hp.
    2:{ unfold G3, St3. rewrite (SC3_end _ _ _ _ Hp). exact IH. }
    destruct (position3f cf s0 sched p t x Hp) as (g1 & Es & Eg & Rv & El).
    pose proof (run3_VInvA cf s0 sched p) as V.
    pose proof (vacc_res3_grow cf (St p) (Gv p) t x g1 V (pos3_res3 _ _ _ _ _ _ Rv)) as [Gh _].
    pose proof (pos3_vc _ _ _ _ _ _ Rv) as Evc.
    assert (Hpre : forall c i v, nth_error (vh (Gv p) c) i = Some v -> nth_error (vh g1 c) i = Some v).
    { intros c i v Hn. destruct (Gh c) as (l & ->). rewrite nth_error_app1; [exact Hn|]. apply nth_error_Some. congruence. }
    assert (Hlen : forall c, (length (vh (Gv p) c) <= length (vh g1 c))%nat).
    { intros c. destruct (Gh c) as (l & ->). rewrite app_length. lia. }
    destruct (vcache_same_views g1 (St p) (St (S p)) t (q1_read_idx (Gv p) (St p) t x)) as (Evh & _).
    intros k0 c v Hh Hnc. rewrite Eg, Evh.
    assert (Hnc0 : never_consumed c s0) by (apply (nc_run3 cf s0 sched c (S p)); exact Hnc).
    destruct (handle_eq_dec (hnd (St p) k0) (HCache c v)) as [Hold|Hnew].
    + pose proof (IH k0 c v Hold (proj2 (nc_run3 cf s0 sched c p) Hnc0)) as Hidx.
      destruct (vcache_cases g1 (St p) (St (S p)) t (q1_read_idx (Gv p) (St p) t x))
        as [E|cm k c2 v2 a c1 k1 rest i Hcm Hk Hh2 Hh1 Hs Hri Hnth E|cm k c2 v2 i Hcm Hk Hh2 Hh1 _ E]; rewrite E.
      * rewrite Evc. apply Hpre. exact Hidx.
      * destruct (N.eq_dec k0 k) as [->|Hne]; [|rewrite updN_other by exact Hne; rewrite Evc; apply Hpre; exact Hidx].
        rewrite updN_same, Evc. rewrite Hh in Hh2. injection Hh2 as <- <-.
        destruct (q1_facts3 cf inits progs sched R p t c1 a k1 rest cm Hs Hcm) as (-> & Hk1 & Hhold).
        rewrite Hk in Hk1. injection Hk1 as <-. rewrite Hold in Hhold. injection Hhold as <- <-.
        destruct (q1_read_idx_lt _ _ _ _ _ _ _ _ _ V Hs Hri) as [Hi _].
        destruct (Nat.max_spec (vc (Gv p) k) i) as [[_ ->]|[_ ->]]; [|apply Hpre; exact Hidx].
        rewrite <- Hnth. apply nth_error_nth'. pose proof (Hlen c). lia.
      * destruct (N.eq_dec k0 k) as [->|Hne]; [|rewrite updN_other by exact Hne; rewrite Evc; apply Hpre; exact Hidx].
        exfalso. apply Hh1. rewrite <- Hh2, Hh. exact Hold.
    + pose proof (RunOKS3_MasterC _ _ _ _ R p) as M.
      assert (Hh' : hnd (fst (step_stale3 cf (St p) t x)) k0 = HCache c v) by (rewrite <- Es; exact Hh).
      destruct (step3_hcache cf (St p) t x k0 c v (ai_typed _ (mc_acc _ M)) Hh' Hnew)
        as [(h & Hr & Hs & Hcm & Hhh)|(Hr & Hin & Hci)].
      { elim (NM p t h k0 c v Hr Hs Hcm Hhh). }
      destruct (mc_bot _ M t (KCacheDone c k0) Hin eq_refl) as [E|(cm & Hcm & Hb)]; [discriminate E|].
      pose proof (cache_on_ckey _ _ _ Hb) as Hk.
      assert (Hne : t_stack (thr (St p) t) <> []) by (intros E; rewrite E in Hin; destruct Hin).
      rewrite <- Es in Hci.
      assert (Hj : exists j, nth_error (vh g1 c) j = Some v).
      { destruct (run_completes3 cf inits progs sched R p t x cm k0 Hp Hr Hcm Hk Hne Hci) as [E3 Hcomp].
        assert (Es' : St (S p) = fst (step_staleC cf (St p) t x)) by (rewrite Es, E3; reflexivity).
        destruct Hcomp as [c' a rest P Hx Hs Hh2|c' v' Hq Hpre' Hh2 HP Hst]; rewrite <- Es', Hh in Hh2; injection Hh2 as <- <-.
        - pose proof (r3_staleC _ _ _ _ R p t x Hp) as Hok. unfold staleC_ok in Hok.
          rewrite (pk_run _ _ _ _ _ _ _ P), (pk_stk _ _ _ _ _ _ _ P) in Hok.
          destruct (Hok (pk_x _ _ _ _ _ _ _ P)) as (i & _ & Hi). rewrite Hx in Hi. exists i. apply Hpre. exact Hi.
        - rewrite <- Es' in HP, Hst.
          destruct (fresh_in_history3 cf inits progs sched p t x c v Hp Hnc0 Hne HP Hst) as (tau & _ & _ & _ & Hn).
          rewrite Eg, Evh in Hn. eauto. }
      destruct Hj as (j & Hj).
      rewrite (vcache_changed g1 (St p) (St (S p)) t _ cm k0 c v Hcm Hk Hh Hnew).
      assert (Hjl : (j < length (vh g1 c))%nat) by (apply nth_error_Some; congruence).
      destruct (last_index_complete v (vh g1 c) 0 None j Hjl Hj) as (i & Ei & _ & Hi). rewrite Ei. cbn [vc vh].
      rewrite updN_same. rewrite Nat.sub_0_r in Hi. exact Hi.
Qed.

Corollary run3_cache_bound p k c v :
  hnd (St p) k = HCache c v -> never_consumed c s0 -> (vc (Gv p) k < length (vh (Gv p) c))%nat.
Proof.
  intros Hh Hnc. apply nth_error_Some. rewrite (run3_CacheIdx p k c v Hh (proj2 (nc_run3 cf s0 sched c p) Hnc)). discriminate.
Qed.

(** Item 1: the full view invariant along [vrun3]. *)
Theorem run3_VInv k : VInv (St k) (Gv k).
Proof. constructor; [apply run3_VInvA|apply run3_HistOK|apply run3_CacheIdx]. Qed.
End Run.

Print Assumptions run3_VInv.
