(** * ASModel.Stale3Fresh8 — a cache command in progress along a run of [vstep3]: its bottom frame, its
    handle and the index of its cache stay as they are until the step that completes it ([InC3]). *)
From Coq Require Import Lia.
From ASModel Require Import Base State Orderings_gen Step Run Progress Hist Inv InvTl InvProto InvStep Sum StepCases.
From ASModel Require Import GenDefs Gen1 Gen2 Gen EnvDefs Env4 Env LinDefs Lin1 Lin14 Lin LinCache1 LinCache2 LinCache4.
From ASModel Require Import ProtDefs Prot11 Local Safe1 Safe2 Safe8 Safe Main.
From ASModel Require Import CchDefs CchAcc CchCmd CchMain.
From ASModel Require Import Stale Stale2 StaleC StaleCView.
From ASModel Require Import StaleCInv1 StaleCInv3 StaleCInv6 StaleCInv7 StaleCInv8 StaleCInv10 StaleCInv11 StaleCInv12 StaleCInv13
  StaleCInv15 StaleCInv16 StaleCInv17 StaleCInv18 StaleCInv19 StaleCInv20 StaleCInv21 StaleCInv22 StaleCInv28 StaleCInv29 StaleCInv30.
From ASModel Require Import Stale3Fresh1 Stale3Fresh2 Stale3Fresh3 Stale3Fresh4 Stale3Fresh5 Stale3Fresh6 Stale3Fresh7.

Lemma q2_top_q1 cf s t x c a k rest : Q2 cf s t x -> t_stack (thr s t) <> Q1 c a k :: rest.
Proof.
  intros Q Hs. destruct (qp_self _ _ _ (q2_after _ _ _ _ Q)) as (p & rest' & Hs' & Hp & _).
  rewrite Hs in Hs'. injection Hs' as <- _. destruct Hp as (_ & _ & Hx & _). discriminate Hx.
Qed.

Section InCmd.
Variables (cf : config) (inits : list N) (progs : list (list cmd)) (sched : list (N * N)).
Hypothesis R : RunOKS3 cf inits progs sched.
Local Notation s0 := (init_state inits progs).
Local Notation St k := (St3 cf s0 sched k).
Local Notation Gv k := (G3 cf s0 sched k).
Local Notation Gl k := (Gl3 cf s0 sched k).

(** A peek (of [step] or stale) that reads the cached pointer completes the command. *)
Lemma q1_hit_completes3 j t x g1 c a k rest i :
  nth_error sched j = Some (t, x) -> t_status (thr (St j) t) = Running ->
  t_stack (thr (St j) t) = Q1 c a k :: rest -> never_consumed c s0 ->
  pos3 cf (St j) (Gv j) t x g1 ->
  q1_read_idx (Gv j) (St j) t x = Some i -> nth i (vh g1 c) 0 = a ->
  t_cmdi (thr (St (S j)) t) = t_cmdi (thr (St j) t) + 1.
Proof.
  intros Hj Hr Hs Hnc Rv3 Hri Hnth. rewrite (St3_step _ _ _ _ _ _ Hj).
  destruct Rv3 as [E3 Rv|Q _]; [rewrite E3|elim (q2_top_q1 _ _ _ _ _ _ _ _ Q Hs)].
  pose proof (RunOKS3_QShape cf inits progs sched R j) as QS. pose proof (run3_VInvA cf s0 sched j) as V.
  destruct (q1_read_idx_lt _ _ _ _ _ _ _ _ _ V Hs Hri) as [Hi _].
  assert (Hnth0 : nth i (vh (Gv j) c) 0 = a).
  { destruct (proj1 (vacc_res_grow cf _ _ t x g1 V Rv) c) as (l & E). rewrite E, app_nth1 in Hnth by exact Hi. exact Hnth. }
  destruct (q1_stale (St j) t x) eqn:Hq.
  - destruct (q1_stale_Peek _ t x Hq) as (c' & a' & k' & rest' & P).
    pose proof (pk_stk _ _ _ _ _ _ _ P) as Hs'. rewrite Hs in Hs'. injection Hs' as <- <- <- <-.
    rewrite (peek_read_idx _ _ _ _ _ _ _ _ P) in Hri. destruct (find_from_spec _ _ _ _ _ Hri) as (_ & _ & Hn & _).
    rewrite Nat.sub_0_r in Hn. rewrite (nth_error_nth _ _ 0 Hn) in Hnth0.
    destruct (peek_explicit cf _ t x c a k rest QS P) as [_ E|l' fs Hv _ E]; [|congruence].
    rewrite E. cbn [thr]. rewrite upd_same. reflexivity.
  - rewrite (q1_stale_false cf _ t x Hq).
    assert (Hi' : i = (length (vh (Gv j) c) - 1)%nat).
    { unfold q1_read_idx in Hri. rewrite Hr, Hs in Hri. unfold q1_stale in Hq. rewrite Hr, Hs in Hq. rewrite Hq in Hri. congruence. }
    subst i. rewrite (nth_last_app _ 0 (va_ne _ V c)) in Hnth0.
    rewrite (run3_HistOK cf s0 sched j c (proj2 (nc_run3 cf s0 sched c j) Hnc)) in Hnth0.
    destruct (q1_step_explicit cf _ t x c a k rest QS Hr Hs) as [_ E|l' fs Hv _ E]; [|congruence].
    rewrite E. cbn [thr]. rewrite upd_same. reflexivity.
Qed.

Variables (t i : N) (cm : cmd) (c k : N) (pa pb : nat) (tb xb : N).
Hypothesis Hcm : nth_error (t_prog (thr s0 t)) (N.to_nat i) = Some cm.
Hypothesis Hkey : ckey cm = Some k.
Hypothesis Hnc : never_consumed c s0.
Hypothesis Hpb : nth_error sched pb = Some (tb, xb).
Hypothesis Hib : t_cmdi (thr (St pb) t) = i.
Hypothesis Hib' : t_cmdi (thr (St (S pb)) t) = i + 1.
Hypothesis Hia : t_cmdi (thr (St (S pa)) t) = i.
Hypothesis Hbot : exists pre, t_stack (thr (St (S pa)) t) = pre ++ [KCacheDone c k].

Record InC3 (j : nat) : Prop := {
  ic3_cmdi : t_cmdi (thr (St j) t) = i;
  ic3_run : t_status (thr (St j) t) = Running;
  ic3_bot : exists pre, t_stack (thr (St j) t) = pre ++ [KCacheDone c k];
  ic3_hnd : hnd (St j) k = hnd (St (S pa)) k;
  ic3_vc : vc (Gv j) k = vc (Gv (S pa)) k;
}.

Lemma inC3_succ j : (S pa <= j)%nat -> (S j <= pb)%nat -> InC3 j -> InC3 (S j).
Proof.
  intros Hj1 Hj2 [I1 I2 (pre & I3) I4 I5].
  assert (Hne : t_stack (thr (St j) t) <> []) by (rewrite I3; destruct pre; discriminate).
  destruct (nth_error sched j) as [[t' x']|] eqn:Hp.
  2:{ apply nth_error_None in Hp. assert (pb < length sched)%nat by (apply nth_error_Some; congruence). lia. }
  pose proof (RunOKS3_MasterC _ _ _ _ R j) as M. pose proof (RunOKS3_MasterC _ _ _ _ R (S j)) as M1.
  pose proof (RunOKS3_QShape cf inits progs sched R j) as QS.
  assert (Hci : t_cmdi (thr (St (S j)) t) = i).
  { pose proof (St3_cmdi_succ cf s0 sched j t). pose proof (St3_cmdi_mono cf s0 sched (S j) pb t Hj2). lia. }
  assert (Hr' : t_status (thr (St (S j)) t) = Running) by (apply (St3_running cf s0 sched t i (S j) pb Hj2 Hib Hib')).
  assert (Hcur : cur_cmd (St j) t = Some cm) by (apply (St3_cur cf s0 sched t i cm j Hcm I1)).
  destruct (position3f cf s0 sched j t' x' Hp) as (g1 & Es & Eg & Rv & El).
  (* another running thread does not have a command on the handle [k] *)
  assert (Hexcl : forall cm', t' <> t -> t_status (thr (St j) t') = Running -> cur_cmd (St j) t' = Some cm' ->
                    ~ In k (cmd_mods cm')).
  { intros cm' Hne' Hrt Hcm'. destruct (r3_state _ _ _ _ R j) as (_ & _ & _ & CE).
    exact (CE t' t cm' cm k Hne' Hne Hcur (ckey_on _ _ Hkey) Hrt Hcm'). }
  assert (Hhnd : hnd (St (S j)) k = hnd (St j) k).
  { destruct (handle_eq_dec (hnd (St (S j)) k) (hnd (St j) k)) as [E|E]; [exact E|exfalso].
    rewrite Es in E.
    destruct (step3_hnd_frame cf (St j) t' x' k (ai_typed _ (mc_acc _ M)) (q_dst _ (mc_prot _ M)) E) as (Hrt & cm' & Hcm' & Hin).
    destruct (N.eq_dec t' t) as [->|Hne']; [|exact (Hexcl cm' Hne' Hrt Hcm' Hin)].
    destruct (step3_handles cf (St j) t x' k QS Hne) as [E'|E']; [contradiction|].
    rewrite <- Es in E'. pose proof (step3_nil cf (St j) t x' QS Hne) as Hn. rewrite <- Es in Hn.
    specialize (Hn E' Hr'). lia. }
  constructor.
  - exact Hci.
  - exact Hr'.
  - rewrite Es. apply step3_bottom; try (rewrite <- Es); try assumption; try reflexivity.
    + apply M.
    + apply M1.
    + eauto.
    + lia.
  - rewrite Hhnd. exact I4.
  - rewrite <- I5, Eg. pose proof (pos3_vc _ _ _ _ _ _ Rv) as Evc.
    destruct (vcache_cases g1 (St j) (St (S j)) t' (q1_read_idx (Gv j) (St j) t' x'))
      as [E|cm' k' c2 v2 a c1 k1 rest i' Hcm' Hk' Hh2 Hh1 Hs Hri Hnth E|cm' k' c2 v2 i' Hcm' Hk' Hh2 Hh1 _ E]; rewrite E.
    + rewrite Evc. reflexivity.
    + destruct (N.eq_dec k k') as [<-|Hnk]; [exfalso|rewrite updN_other by exact Hnk; rewrite Evc; reflexivity].
      assert (Hrt : t_status (thr (St j) t') = Running).
      { unfold q1_read_idx in Hri. destruct (t_status (thr (St j) t')); try discriminate Hri. reflexivity. }
      destruct (N.eq_dec t' t) as [->|Hne']; [|exact (Hexcl cm' Hne' Hrt Hcm' (ckey_mods _ _ Hk'))].
      destruct (q1_facts3 cf inits progs sched R j t c1 a k1 rest cm' Hs Hcm') as (-> & Hk1 & Hhold).
      rewrite Hk' in Hk1. injection Hk1 as <-. rewrite Hh1 in Hhold. injection Hhold as <- <-.
      assert (c2 = c) as ->.
      { rewrite Hs in I3. change [Q1 c2 v2 k; KCacheDone c2 k] with ([Q1 c2 v2 k] ++ [KCacheDone c2 k]) in I3.
        apply app_inj_tail in I3 as [_ [= ->]]. reflexivity. }
      pose proof (q1_hit_completes3 j t x' g1 c v2 k _ i' Hp Hrt Hs Hnc Rv Hri Hnth). lia.
    + destruct (N.eq_dec k k') as [<-|Hnk]; [exfalso|rewrite updN_other by exact Hnk; rewrite Evc; reflexivity].
      apply Hh1. rewrite <- Hhnd. exact Hh2.
Qed.

Theorem inC3_all j : (S pa <= j)%nat -> (j <= pb)%nat -> InC3 j.
Proof.
  intros H1 H2. induction H1 as [|j H1 IH].
  - constructor; [exact Hia|exact (St3_running cf s0 sched t i (S pa) pb H2 Hib Hib')|exact Hbot|reflexivity|reflexivity].
  - apply inC3_succ; [exact H1|exact H2|]. apply IH. lia.
Qed.
End InCmd.
