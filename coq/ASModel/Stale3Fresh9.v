(** * ASModel.Stale3Fresh9 — runs of [vstep3]: the CMD step of a cache command; the start instants
    only grow. *)
From Coq Require Import Lia.
From ASModel Require Import Base State Orderings_gen Step Run Progress Hist Inv InvTl InvProto InvStep Sum StepCases.
From ASModel Require Import GenDefs Gen1 Gen2 Gen EnvDefs Env4 Env LinDefs Lin1 Lin2 Lin8 Lin14 Lin LinCache1 LinCache2 LinCache4 LinCache6 LinCache.
From ASModel Require Import ProtDefs Prot11 Local Safe1 Safe2 Safe8 Safe Main.
From ASModel Require Import CchDefs CchAcc4 CchAcc CchCmd CchMain.
From ASModel Require Import Stale Stale2 StaleC StaleCView.
From ASModel Require Import StaleCInv1 StaleCInv3 StaleCInv6 StaleCInv7 StaleCInv8 StaleCInv10 StaleCInv11 StaleCInv12 StaleCInv13
  StaleCInv15 StaleCInv16 StaleCInv17 StaleCInv18 StaleCInv19 StaleCInv20 StaleCInv21 StaleCInv22 StaleCInv23
  StaleCInv28 StaleCInv29 StaleCInv30.
From ASModel Require Import Stale3Fresh1 Stale3Fresh2 Stale3Fresh3 Stale3Fresh4 Stale3Fresh5 Stale3Fresh6 Stale3Fresh7 Stale3Fresh8.

Lemma step3_start cf s t x : t_stack (thr s t) = [] -> step_stale3 cf s t x = step cf s t x.
Proof.
  intros H. unfold step_stale3, step_stale2. rewrite H. destruct (t_status (thr s t)); reflexivity.
Qed.

Section Run.
Variables (cf : config) (inits : list N) (progs : list (list cmd)) (sched : list (N * N)).
Hypothesis R : RunOKS3 cf inits progs sched.
Local Notation s0 := (init_state inits progs).
Local Notation St k := (St3 cf s0 sched k).
Local Notation Gv k := (G3 cf s0 sched k).
Local Notation Gl k := (Gl3 cf s0 sched k).

Lemma Gl3_start_succ j t : (S j <= length sched)%nat -> (g_start (Gl j) t <= g_start (Gl (S j)) t)%nat.
Proof.
  intros Hj. destruct (nth_error sched j) as [[t0 x0]|] eqn:Hp; [|apply nth_error_None in Hp; lia].
  rewrite (Gl3_step _ _ _ _ _ _ Hp). cbn [gnext g_start].
  destruct (l2_fresh _ _ (proj1 (RunOKS3_LinInv3 cf inits progs sched R j))) as (_ & _ & H & _).
  specialize (H t). destruct (_ && _); lia.
Qed.

Lemma Gl3_start_mono j j' t : (j <= j')%nat -> (j' <= length sched)%nat -> (g_start (Gl j) t <= g_start (Gl j') t)%nat.
Proof.
  induction 1 as [|j' _ IH]; intros Hl; [lia|]. pose proof (Gl3_start_succ j' t Hl). specialize (IH ltac:(lia)). lia.
Qed.

(** The CMD step of a cache command. *)
Lemma cache_cmd_step3 t i cm c k pa xa :
  nth_error (t_prog (thr s0 t)) (N.to_nat i) = Some cm -> cache_cmd_of (St pa) cm c k ->
  nth_error sched pa = Some (t, xa) ->
  t_status (thr (St pa) t) = Running -> t_stack (thr (St pa) t) = [] -> t_cmdi (thr (St pa) t) = i ->
  t_cmdi (thr (St (S pa)) t) = i /\
  (exists pre, t_stack (thr (St (S pa)) t) = pre ++ [KCacheDone c k]) /\
  hnd (St (S pa)) k = hnd (St pa) k /\
  vc (Gv (S pa)) k = vc (Gv pa) k /\
  g_start (Gl (S pa)) t = S pa.
Proof.
  intros Hcm Hcc Ha Hra Hsa Hia.
  destruct (position3f cf s0 sched pa t xa Ha) as (g1 & Es & Eg & Rv & El).
  pose proof (St3_cur cf s0 sched t i cm pa Hcm Hia) as Hc0.
  rewrite (step3_start cf _ t xa Hsa) in Es.
  assert (Hstep : t_cmdi (thr (St (S pa)) t) = i /\
                  (exists pre, t_stack (thr (St (S pa)) t) = pre ++ [KCacheDone c k]) /\
                  hnd (St (S pa)) k = hnd (St pa) k).
  { rewrite Es.
    destruct (step_cases2 cf (St pa) t xa) as [Hr E|c0 Hr Hs Hcc0 Hen E|c0 s1 l1 stk r Hr Hs Hcc0 Hen Hcs E|n Hr Hs Hcc0 Hn E|Hr Hs Hcc0 Hn E|p rest s1 l1 evs nx Hr Hs He E];
      try congruence.
    - exfalso. rewrite Hc0 in Hcc0. injection Hcc0 as <-.
      rewrite (cache_cmd_enabled _ _ _ _ Hcc) in Hen. discriminate.
    - rewrite Hc0 in Hcc0. injection Hcc0 as <-.
      destruct (cache_cmd_start _ _ _ _ _ _ _ _ _ _ Hcc Hcs) as (pre & ->).
      destruct (cmd_start_frame _ _ _ _ _ _ _ _ Hcs) as (_ & Hh & _).
      rewrite E. cbn [thr set_thread hnd]. rewrite upd_same. split; [destruct pre; exact Hia|]. split.
      + exists pre. apply start_thread_stack.
      + apply Hh. destruct Hcc as [-> |[-> _]]; intros []. }
  destruct Hstep as (H1 & H2 & H3). split; [exact H1|]. split; [exact H2|]. split; [exact H3|]. split.
  - rewrite Eg. pose proof (pos3_vc _ _ _ _ _ _ Rv) as Evc.
    destruct (vcache_cases g1 (St pa) (St (S pa)) t (q1_read_idx (Gv pa) (St pa) t xa))
      as [E|cm' k' c2 v2 a c1 k1 rest i' _ _ _ _ Hs _ _ E|cm' k' c2 v2 i' Hcm' Hk' Hh2 Hh1 _ E]; rewrite E.
    + rewrite Evc. reflexivity.
    + rewrite Hsa in Hs. discriminate Hs.
    + destruct (N.eq_dec k k') as [<-|Hnk]; [exfalso|rewrite updN_other by exact Hnk; rewrite Evc; reflexivity].
      apply Hh1. rewrite <- H3. exact Hh2.
  - rewrite El. cbn [gnext g_start]. rewrite N.eqb_refl. unfold starts_now. rewrite Hra, Hsa. cbn [andb].
    rewrite Gl3_now; [reflexivity|]. assert (pa < length sched)%nat by (apply nth_error_Some; congruence). lia.
Qed.
End Run.
