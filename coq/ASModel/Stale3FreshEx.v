(** * ASModel.Stale3FreshEx — non-vacuity of [RunOKS3] and of [C16_cache_fresh_stale3]: a boolean
    checker and one run in which ONE cache command takes a stale revalidation AND a stale first read.

    Thread 0 creates a cache of container 0 (value 4096).  Thread 1 stores 4112, then 4128, and
    exits (history of the container: [4096; 4112; 4128]).  Thread 0 then loads from the cache
    ([CCacheLoad 1], positions 92 .. 109):
    - the Relaxed revalidating read ([Q1], position 93) is answered with the STALE pointer 4112
      (choice 4112 + 2; thread 0 has synchronised with neither store): a miss, the cache reloads;
    - the Relaxed first read of the inner [load_full] ([LA1], position 94) is answered with the
      STALE pointer 4096 (choice 4096 + 2): the fast path publishes a debt for 4096, the
      confirming read sees 4128, the debt is withdrawn and the fallback returns 4128.
    The cache ends with 4128, index 2 of the history. *)
From Coq Require Import Lia.
From ASModel Require Import Base State Orderings_gen Step Run Progress Hist Inv InvTl InvProto InvStep Sum StepCases.
From ASModel Require Import GenDefs Gen1 Gen2 Gen Safe8 Safe Scope Main RunOKEx Lin1 LinCache2 LinCache.
From ASModel Require Import ProgWF1 ProgWF2 CchWF CchDefs CchAcc CchCmd CchMain CchEx.
From ASModel Require Import Stale Stale2 Stale2InvEx StaleC StaleCView StaleCInv1 StaleCInv6 StaleCInv10 StaleCInv12 StaleCInv16
  StaleCInv20 StaleCInv25 StaleCInv26 StaleCInv28 StaleCInv29 StaleCInv30 StaleCInvEx.
From ASModel Require Import Stale3Fresh1 Stale3Fresh2 Stale3Fresh5 Stale3Fresh6 Stale3Fresh7 Stale3Fresh10 Stale3Fresh11.

Lemma step3_no_thread cf s t x t0 : thr s t0 = no_thread -> thr (fst (step_stale3 cf s t x)) t0 = no_thread.
Proof.
  intros H. destruct (N.eq_dec t0 t) as [->|Hne]; [|rewrite step3_other by exact Hne; exact H].
  rewrite step3_stopped; [exact H|]. rewrite H. discriminate.
Qed.

Lemma Beyond_step3 cf n s t x : Beyond n s -> Beyond n (fst (step_stale3 cf s t x)).
Proof. intros H t0 Ht. apply step3_no_thread. apply H. exact Ht. Qed.

Definition SC3g (cf : config) (sg : state * vghost) (sched : list (N * N)) (k : nat) : state * vghost :=
  vrun3 cf sg (firstn k sched).

Lemma SC3g_nil cf sg k : SC3g cf sg [] k = sg.
Proof. unfold SC3g. rewrite firstn_nil. reflexivity. Qed.

Lemma SC3g_cons cf sg t x sched k : SC3g cf sg ((t, x) :: sched) (S k) = SC3g cf (vstep3 cf sg t x) sched k.
Proof. reflexivity. Qed.

Lemma vstep3_fst' cf sg t x : fst (vstep3 cf sg t x) = fst (step_stale3 cf (fst sg) t x).
Proof. destruct sg as [s g]. apply vstep_with_fst. Qed.

Fixpoint runS3_b (cf : config) (n : nat) (sg : state * vghost) (sched : list (N * N)) : bool :=
  scopeC_state n (fst sg) &&
  match sched with
  | [] => true
  | (t, x) :: rest =>
      scope_alloc (fst sg) t x && staleC_okb (snd sg) (fst sg) t x && stale2_b (fst sg) t x &&
      runS3_b cf n (vstep3 cf sg t x) rest
  end.

Theorem runS3_b_sound cf n : forall sched sg, Beyond n (fst sg) -> runS3_b cf n sg sched = true ->
  (forall k, let s := fst (SC3g cf sg sched k) in GenBound s /\ DstEmptyC s /\ CloneSrcCmd s) /\
  (forall k t x, nth_error sched k = Some (t, x) ->
     alloc_ok (fst (SC3g cf sg sched k)) t x /\ staleC_ok (snd (SC3g cf sg sched k)) (fst (SC3g cf sg sched k)) t x /\
     stale2_ok (fst (SC3g cf sg sched k)) t x).
Proof.
  induction sched as [|[t x] sched IH]; intros sg B H; cbn [runS3_b] in H; apply andb_true_iff in H as [Hs H].
  - split.
    + intros k. rewrite SC3g_nil. apply (scopeC_state_sound n); assumption.
    + intros [|k] t x Hk; discriminate Hk.
  - apply andb_true_iff in H as [Ha H]. apply andb_true_iff in Ha as [Ha Hs2]. apply andb_true_iff in Ha as [Ha Hst].
    assert (B' : Beyond n (fst (vstep3 cf sg t x))) by (rewrite vstep3_fst'; apply Beyond_step3; exact B).
    destruct (IH _ B' H) as [IH1 IH2]. split.
    + intros [|k]; [apply (scopeC_state_sound n); assumption|]. rewrite SC3g_cons. apply IH1.
    + intros [|k] t' x' Hk.
      * injection Hk as <- <-. split; [apply scope_alloc_sound; exact Ha|].
        split; [apply staleC_okb_sound; exact Hst|apply stale2_b_sound; exact Hs2].
      * rewrite SC3g_cons. apply IH2. exact Hk.
Qed.

Definition runokS3_b (cf : config) (inits : list N) (progs : list (list cmd)) (sched : list (N * N)) : bool :=
  inits_b inits && nosetgen_b progs &&
  runS3_b cf (length progs) (init_state inits progs, vghost0 (init_state inits progs)) sched.

Lemma handles_disjoint_CacheExcl3 cf inits progs sched k :
  handles_disjoint progs -> CacheExcl (St3 cf (init_state inits progs) sched k).
Proof.
  intros HD t t' cm cm' k0 Hne _ Hc' Hon _ Hc Hk.
  rewrite St3_prog, init_state_prog in Hc, Hc'.
  apply (HD (N.to_nat t) (N.to_nat t') k0); [lia| |].
  - eapply uses_in_prog; [exact Hc|]. apply mods_in_uses. exact Hk.
  - eapply uses_in_prog; [exact Hc'|]. apply dst_in_uses.
    destruct Hon as [(c & ->)| ->]; reflexivity.
Qed.

Theorem runokS3_b_sound cf inits progs sched :
  handles_disjoint progs -> runokS3_b cf inits progs sched = true -> RunOKS3 cf inits progs sched.
Proof.
  intros HD H. apply andb_true_iff in H as [H Hr]. apply andb_true_iff in H as [Hi Hp].
  destruct (runS3_b_sound cf (length progs) sched (init_state inits progs, vghost0 (init_state inits progs)) (Beyond_init inits progs) Hr) as [H1 H2].
  constructor; [apply inits_b_sound; exact Hi|apply nosetgen_b_sound; exact Hp| | | |].
  - intros k. cbn zeta. destruct (H1 k) as (G & D & C). repeat split; try assumption.
    apply handles_disjoint_CacheExcl3. exact HD.
  - intros k t x Hk. exact (proj1 (H2 k t x Hk)).
  - intros k t x Hk. exact (proj2 (proj2 (H2 k t x Hk))).
  - intros k t x Hk. exact (proj1 (proj2 (H2 k t x Hk))).
Qed.

Lemma nomove_b_sound3 cf inits progs sched :
  nomove_b progs = true -> forall p, NoCacheMove (St3 cf (init_state inits progs) sched p).
Proof.
  intros H p t h h2 c v _ _ Hcm _. unfold cur_cmd in Hcm. rewrite St3_prog in Hcm.
  apply nth_error_In in Hcm. rewrite init_state_prog in Hcm.
  destruct (nth_in_or_default (N.to_nat t) progs []) as [Hpr|E]; [|rewrite E in Hcm; destruct Hcm].
  apply (proj1 (forallb_forall _ _) H) in Hpr. pose proof (proj1 (forallb_forall _ _) Hpr _ Hcm) as A. discriminate A.
Qed.

(** ** The run *)
Definition cd_cf : config := mkConfig true true.
Definition cd_inits : list N := [4096].
Definition cd_progs : list (list cmd) :=
  [[CCacheNew 0 1; CCacheLoad 1]; [CNew 2; CStore 0 (SHandle 2); CNew 3; CStore 0 (SHandle 3)]].
(** Thread 0 creates the cache (11 steps); thread 1 allocates 4112 (choice 4112 at the two steps of
    [CNew]; every other choice is 0: under [step_stale3] a choice above 1 at a weakened load IS a
    stale answer), stores it, allocates 4128, stores it and exits (81 steps); thread 0: the CMD
    step of [CCacheLoad 1] (position 92), the peek answered with 4112 (93), the first read answered
    with 4096 (94), the rest of the reload (the command completes at position 109) and the exit. *)
Definition cd_sched : list (N * N) :=
  repeat (0, 0) 11 ++
  repeat (1, 4112) 2 ++ repeat (1, 0) 39 ++ repeat (1, 4128) 2 ++ repeat (1, 0) 38 ++
  [(0, 0); (0, 4114); (0, 4098)] ++ repeat (0, 0) 19.
Definition cd_s0 : state := init_state cd_inits cd_progs.
Definition cd_St (k : nat) : state := St3 cd_cf cd_s0 cd_sched k.
Definition cd_G (k : nat) : vghost := G3 cd_cf cd_s0 cd_sched k.

Lemma cd_disjoint : handles_disjoint cd_progs.
Proof.
  intros t1 t2 h Hne H1 H2.
  destruct t1 as [|[|[|t1]]], t2 as [|[|[|t2]]]; cbn in H1, H2; try contradiction; try congruence;
    intuition congruence.
Qed.

Example runokS3_b_example : runokS3_b cd_cf cd_inits cd_progs cd_sched = true.
Proof. vm_compute. reflexivity. Qed.

Example RunOKS3_example : RunOKS3 cd_cf cd_inits cd_progs cd_sched.
Proof. apply runokS3_b_sound; [exact cd_disjoint|exact runokS3_b_example]. Qed.

(** The two stores have completed (thread 1 is gone) before the cache command starts. *)
Example cd_stores_done :
  t_status (thr (cd_St 92) 1) = Exited /\ mem (sh (cd_St 92)) (LStore 0) = 4128 /\
  t_cmdi (thr (cd_St 92) 0) = 1 /\ t_stack (thr (cd_St 92) 0) = [] /\ hnd (cd_St 92) 1 = HCache 0 4096 /\
  vh (cd_G 92) 0 = [4096; 4112; 4128] /\ vt (cd_G 92) 0 0 = 0%nat /\ vc (cd_G 92) 1 = 0%nat.
Proof. vm_compute. repeat split; reflexivity. Qed.

(** The revalidating read is answered with the stale pointer 4112: a miss, the cache reloads ... *)
Example cd_stale_peek :
  t_stack (thr (cd_St 93) 0) = [Q1 0 4096 1; KCacheDone 0 1] /\ nth_error cd_sched 93 = Some (0, 4114) /\
  q1_stale (cd_St 93) 0 4114 = true /\ staleC_okb (cd_G 93) (cd_St 93) 0 4114 = true /\
  t_stack (thr (cd_St 94) 0) = [LA1 0; WLoadFull; WCacheReload 0 4096 1; KCacheDone 0 1] /\
  vt (cd_G 94) 0 0 = 1%nat.
Proof. vm_compute. repeat split; reflexivity. Qed.

(** ... and the first read of the inner load is answered with the stale pointer 4096 (the memory
    holds 4128): a proper stale load of [step_stale2]. *)
Example cd_stale_first_read :
  nth_error cd_sched 94 = Some (0, 4098) /\ mem (sh (cd_St 94)) (LStore 0) = 4128 /\
  t_stack (thr (cd_St 95) 0) = [LA1d 0 4096; WLoadFull; WCacheReload 0 4096 1; KCacheDone 0 1] /\
  t_stack (thr (fst (step_staleC cd_cf (cd_St 94) 0 4098)) 0) = [LA1d 0 4128; WLoadFull; WCacheReload 0 4096 1; KCacheDone 0 1].
Proof. vm_compute. repeat split; reflexivity. Qed.

Example cd_q2 : Q2 cd_cf (cd_St 94) 0 4098.
Proof.
  destruct (step3_dich cd_cf (cd_St 94) 0 4098) as [E|Q]; [exfalso|exact Q].
  apply (f_equal (fun r => t_stack (thr (fst r) 0))) in E. vm_compute in E. discriminate E.
Qed.

(** The fast path fails (the confirming read sees 4128), the fallback returns 4128. *)
Example cd_done :
  t_cmdi (thr (cd_St 109) 0) = 1 /\ t_cmdi (thr (cd_St 110) 0) = 2 /\ hnd (cd_St 110) 1 = HCache 0 4128 /\
  vc (cd_G 110) 1 = 2%nat /\ vt (cd_G 110) 0 0 = 2%nat /\ heap (sh (cd_St 110)) 4096 = None.
Proof. vm_compute. repeat split; reflexivity. Qed.

(** ** The theorems on this run *)
Example cd_no_fault :
  (forall k, NoFault (St3 cd_cf cd_s0 cd_sched k)) /\
  forall k t x, nth_error cd_sched k = Some (t, x) ->
    forall a, ~ In (EvFault (FDeadInc a)) (snd (step_stale3 cd_cf (St3 cd_cf cd_s0 cd_sched k) t x)) /\
              ~ In (EvFault (FDeadDec a)) (snd (step_stale3 cd_cf (St3 cd_cf cd_s0 cd_sched k) t x)).
Proof. exact (C16_no_fault_stale3 _ _ _ _ RunOKS3_example). Qed.

Lemma cd_nomove : forall p, NoCacheMove (St3 cd_cf cd_s0 cd_sched p).
Proof. apply nomove_b_sound3. reflexivity. Qed.

Lemma cd_noconsume : never_consumed 0 cd_s0.
Proof. apply noconsume_b_sound. reflexivity. Qed.

Example cd_VInv : forall k, VInv (St3 cd_cf cd_s0 cd_sched k) (G3 cd_cf cd_s0 cd_sched k).
Proof. exact (run3_VInv _ _ _ _ RunOKS3_example cd_nomove). Qed.

(** The cache command with the two stale reads (positions 92 .. 109): the value it leaves is entry
    [j] of the history, not below the view of the thread nor below the index of the cache when
    the command started. *)
Example cd_fresh_load :
  exists v j, hnd (cd_St 110) 1 = HCache 0 v /\ nth_error (vh (cd_G 110) 0) j = Some v /\
    (vt (cd_G 92) 0 0 <= j)%nat /\ (vc (cd_G 92) 1 <= j)%nat /\
    nth_error (vh (cd_G 110) 0) (vc (cd_G 110) 1) = Some v.
Proof.
  destruct (C16_cache_fresh_stale3 cd_cf cd_inits cd_progs cd_sched 0 1 (CCacheLoad 1) 0 1 92%nat 109%nat 0 0 0
              RunOKS3_example cd_nomove cd_noconsume) as (v & j & H1 & H2 & H3 & H4 & H5 & _).
  all: try (vm_compute; reflexivity).
  - right. split; [reflexivity|]. exists 4096. vm_compute. reflexivity.
  - lia.
  - exists v, j. auto.
Qed.

(** The writer sees its own writes. *)
Example cd_own_write : forall q, (52 <= q)%nat -> (1 <= vt (G3 cd_cf cd_s0 cd_sched q) 1 0)%nat.
Proof.
  intros q Hq.
  assert (W : exists p, (p < 52)%nat /\ wrote3 cd_cf cd_s0 cd_sched p 1 0 1).
  { exists 14%nat. split; [lia|]. exists 0. vm_compute. repeat split; reflexivity. }
  destruct W as (p & Hp & W). apply (own_write_seen3 cd_cf cd_s0 cd_sched p 1 0 1 q W). lia.
Qed.

Print Assumptions RunOKS3_example.
Print Assumptions cd_fresh_load.
