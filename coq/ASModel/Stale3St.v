(** * ASModel.Stale3St — summary: static hypotheses for runs of [step_stale3] (all five weakened
    loads, with caches).

    1. [Stale3St1]: [no_cache_move_b progs] (no [CMove h _] whose source is the key of a
       [CCacheNew _ k] / [CCacheLoad k] of the programs) implies [NoCacheMove] in every state of a
       run within [RunOKS3] ([no_cache_move_static]); invariant [run3_HCacheKey].
    2. [Stale3St2]: [GenBound] from the length of the schedule ([GenBound_len_stale3]).
    3. [Stale3St3]: [ProgWF2.PInv] under [step_stale3]; [CloneSrcCmd], [CacheExcl] from
       [handles_disjoint]; [never_consumed] from the text ([no_consume_static]); [RunStaticS3] and
       [RunStaticS3_RunOKS3].  STILL DYNAMIC in [RunStaticS3]: [DstEmptyC] ([rs3_dst]), besides the
       conditions on the scheduler ([alloc_ok], [stale2_ok], [staleC_ok]).
    4. [Stale3St4]: [C16_cache_fresh_stale3_static]. *)
From ASModel Require Export Stale3St1 Stale3St2 Stale3St3 Stale3St4.
From ASModel Require Import Base State Step Run Hist Gen Safe8 ProgWF1 ProgWF2 CchMain StaleC StaleCInv20 StaleCInv28.

Check (run3_HCacheKey : forall cf inits progs sched,
  RunOKS3 cf inits progs sched -> no_cache_move_b progs = true ->
  forall k, HCacheKey progs (St3 cf (init_state inits progs) sched k)).
Check (no_cache_move_static : forall cf inits progs sched,
  RunOKS3 cf inits progs sched -> no_cache_move_b progs = true ->
  forall p, NoCacheMove (St3 cf (init_state inits progs) sched p)).
Check (step_stale3_gen : forall cf s t x, NoSetGen s -> GenLen.NoSGF s ->
  (forall t', tl_gen (t_loc (thr (fst (step_stale3 cf s t x)) t')) <= tl_gen (t_loc (thr s t')) + 4) /\
  GenLen.NoSGF (fst (step_stale3 cf s t x))).
Check (GenBound_len_stale3 : forall cf inits progs sched,
  progs_nosetgen progs -> 4 * N.of_nat (length sched) + 4 < WORD ->
  forall k, GenBound (St3 cf (init_state inits progs) sched k)).
Check (step_stale3_PInv : forall progs cf s t x,
  handles_disjoint progs -> PInv progs s -> PInv progs (fst (step_stale3 cf s t x))).
Check (handles_disjoint_CloneSrcCmd_stale3 : forall progs cf inits sched,
  handles_disjoint progs -> forall k, Safe8.CloneSrcCmd (St3 cf (init_state inits progs) sched k)).
Check (handles_disjoint_CacheExcl_stale3 : forall cf inits progs sched k,
  handles_disjoint progs -> CacheExcl (St3 cf (init_state inits progs) sched k)).
Check (no_consume_static : forall c inits progs,
  no_consume_b c progs = true -> never_consumed c (init_state inits progs)).
Check (RunStaticS3_RunOKS3 : forall cf inits progs sched,
  RunStaticS3 cf inits progs sched -> RunOKS3 cf inits progs sched).
Check (no_cache_move_static_S3 : forall cf inits progs sched,
  RunStaticS3 cf inits progs sched -> no_cache_move_b progs = true ->
  forall p, NoCacheMove (St3 cf (init_state inits progs) sched p)).
Check C16_cache_fresh_stale3_static.
Print RunStaticS3.

Print Assumptions no_cache_move_static.
Print Assumptions GenBound_len_stale3.
Print Assumptions RunStaticS3_RunOKS3.
Print Assumptions C16_cache_fresh_stale3_static.
