(** * ASModel.Stale3St1 — a static sufficient condition for [NoCacheMove] along runs of [step_stale3].

    [cache_keys progs]: the keys of the [CCacheNew _ k] / [CCacheLoad k] commands of the programs.
    [no_cache_move_b progs]: no [CMove h _] of the programs has its source [h] among them.

    Invariant ([run3_HCacheKey]): in every state of a run within [RunOKS3], a handle that holds a
    cache is a cache key of the programs.  A handle becomes a cache only ([step3_hcache]) when a
    cache command completes (bottom frame [KCacheDone c k]: by [BotCmd] the current command is
    [CCacheNew c k] or [CCacheLoad k]) or by a [CMove] from a cache handle (excluded: the source
    would be a cache key). *)
From Coq Require Import Lia.
From ASModel Require Import Base State Orderings_gen Step Run Progress Hist Inv InvTl InvProto InvStep Sum StepCases.
From ASModel Require Import GenDefs Gen1 Gen2 Gen Typed1 LinDefs Lin1 Lin14 LinCache1 LinCache2.
From ASModel Require Import ProtDefs Prot11 ProgWF1 ProgWF2.
From ASModel Require Import CchDefs CchAcc1 CchAcc2 CchAcc4 CchAcc6 CchAcc CchCmd CchMain.
From ASModel Require Import Stale Stale2 StaleC StaleCView.
From ASModel Require Import StaleCInv1 StaleCInv17 StaleCInv20 StaleCInv28 StaleCInv29 Stale3Fresh1 Stale3Fresh2.

Definition cmd_ckeys (cm : cmd) : list N :=
  match cm with CCacheNew _ k | CCacheLoad k => [k] | _ => [] end.

Definition cache_keys (progs : list (list cmd)) : list N := flat_map (flat_map cmd_ckeys) progs.

Definition no_cache_move_b (progs : list (list cmd)) : bool :=
  forallb (forallb (fun cm => match cm with CMove h _ => negb (memb h (cache_keys progs)) | _ => true end)) progs.

Lemma cache_on_key progs p c k cm : In p progs -> In cm p -> cache_on c k cm -> In k (cache_keys progs).
Proof.
  intros Hp Hcm Hon. unfold cache_keys. apply in_flat_map. exists p. split; [exact Hp|].
  apply in_flat_map. exists cm. split; [exact Hcm|]. destruct Hon as [-> | ->]; left; reflexivity.
Qed.

Lemma no_cache_move_src progs p h h2 :
  no_cache_move_b progs = true -> In p progs -> In (CMove h h2) p -> ~ In h (cache_keys progs).
Proof.
  intros H Hp Hcm Hin. apply (proj1 (forallb_forall _ _) H) in Hp.
  pose proof (proj1 (forallb_forall _ _) Hp _ Hcm) as A. cbn in A.
  apply negb_true_iff in A. apply (proj2 (memb_In _ _)) in Hin. congruence.
Qed.

(** The current command of a thread lies in one of the programs. *)
Lemma cur_in_progs cf inits progs sched k t cm :
  nth_error (t_prog (thr (St3 cf (init_state inits progs) sched k) t))
            (N.to_nat (t_cmdi (thr (St3 cf (init_state inits progs) sched k) t))) = Some cm ->
  exists p, In p progs /\ In cm p.
Proof.
  intros Hcm. rewrite St3_prog in Hcm. apply nth_error_In in Hcm. rewrite init_state_prog in Hcm.
  destruct (nth_in_or_default (N.to_nat t) progs []) as [Hpr|E]; [|rewrite E in Hcm; destruct Hcm].
  eexists. split; eassumption.
Qed.

Definition HCacheKey (progs : list (list cmd)) (s : state) : Prop :=
  forall h c v, hnd s h = HCache c v -> In h (cache_keys progs).

Section Run.
Variables (cf : config) (inits : list N) (progs : list (list cmd)) (sched : list (N * N)).
Hypothesis R : RunOKS3 cf inits progs sched.
Hypothesis NM : no_cache_move_b progs = true.
Local Notation s0 := (init_state inits progs).
Local Notation St k := (St3 cf s0 sched k).

Theorem run3_HCacheKey k : HCacheKey progs (St k).
Proof.
  induction k as [|k IH].
  - intros h c v H. discriminate H.
  - destruct (nth_error sched k) as [[t x]|] eqn:Hk; [|rewrite (St3_end _ _ _ _ Hk); exact IH].
    rewrite (St3_step _ _ _ _ _ _ Hk). intros h c v H.
    pose proof (RunOKS3_MasterC _ _ _ _ R k) as M.
    destruct (handle_eq_dec (hnd (St k) h) (HCache c v)) as [E|Hn]; [exact (IH h c v E)|].
    destruct (step3_hcache cf (St k) t x h c v (ai_typed _ (mc_acc _ M)) H Hn)
      as [(h0 & _ & _ & Hcm & Hh0)|(_ & Hin & _)].
    + exfalso. destruct (cur_in_progs _ _ _ _ _ _ _ Hcm) as (p & Hp & Hc).
      exact (no_cache_move_src progs p h0 h NM Hp Hc (IH h0 c v Hh0)).
    + destruct (BotCmd_CacheCmd _ (mc_bot _ M) t c h Hin) as (cm & Hcm & Hon).
      destruct (cur_in_progs _ _ _ _ _ _ _ Hcm) as (p & Hp & Hc).
      exact (cache_on_key progs p c h cm Hp Hc Hon).
Qed.

Theorem no_cache_move_static : forall p, NoCacheMove (St p).
Proof.
  intros p t h h2 c v _ _ Hcm Hh.
  destruct (cur_in_progs _ _ _ _ _ _ _ Hcm) as (pr & Hp & Hc).
  exact (no_cache_move_src progs pr h h2 NM Hp Hc (run3_HCacheKey p h c v Hh)).
Qed.
End Run.
