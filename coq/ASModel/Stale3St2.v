(** * ASModel.Stale3St2 — the generation counters under [step_stale3]: a step advances a counter by
    at most 4 ([step_stale3_gen]), so [GenBound] holds in every state of a run of [step_stale3]
    from an initial state when the schedule is short enough ([GenBound_len_stale3]).

    A step of [step_stale3] is a step of [step_stale2] ([Stale2S1.step_stale2_gen]) or a step of
    [step_staleC]: [step] itself ([GenLen.step_gen]) or the stale peek at [Q1], which is [step] in
    the state whose storage holds the answered value ([StaleCInv1.stale_sim]; the threads are the
    same). *)
From Coq Require Import Lia ZArith.
From ASModel Require Import Base State Orderings_gen Step Run Progress Hist Inv InvTl InvProto InvStep Sum StepCases.
From ASModel Require Import GenDefs Gen1 Gen2 Gen EnvDefs Env4 Env Safe Main GenLen.
From ASModel Require Import CchMain Stale Stale2 Stale2S1 StaleC StaleCInv1 StaleCInv28.

Theorem step_staleC_gen cf s t x :
  NoSetGen s -> NoSGF s ->
  (forall t', tl_gen (t_loc (thr (fst (step_staleC cf s t x)) t')) <= tl_gen (t_loc (thr s t')) + 4) /\
  NoSGF (fst (step_staleC cf s t x)).
Proof.
  intros NS NF. destruct (q1_stale s t x) eqn:Hq.
  2:{ rewrite (q1_stale_false cf s t x Hq). apply step_gen; assumption. }
  unfold q1_stale in Hq.
  destruct (t_status (thr s t)) eqn:Hr; try discriminate Hq.
  destruct (t_stack (thr s t)) as [|p rest] eqn:Hs; [discriminate Hq|].
  destruct p; try discriminate Hq. apply N.leb_le in Hq.
  destruct (stale_sim cf s t x _ _ _ rest Hr Hs Hq) as (E & _ & _). rewrite E.
  exact (step_gen cf (shadow s c (x - 2)) t 0 NS NF).
Qed.

Theorem step_stale3_gen cf s t x :
  NoSetGen s -> NoSGF s ->
  (forall t', tl_gen (t_loc (thr (fst (step_stale3 cf s t x)) t')) <= tl_gen (t_loc (thr s t')) + 4) /\
  NoSGF (fst (step_stale3 cf s t x)).
Proof.
  intros NS NF. destruct (step_stale3_cases cf s t x) as [-> | ->];
    [apply step_staleC_gen|apply step_stale2_gen]; assumption.
Qed.

Lemma NoSetGen_St3 cf s0 sched k : NoSetGen s0 -> NoSetGen (St3 cf s0 sched k).
Proof. intros NS t g. rewrite St3_prog. apply NS. Qed.

Lemma run_stale3_gen cf s0 sched : NoSetGen s0 -> NoSGF s0 ->
  forall k,
    (forall t, tl_gen (t_loc (thr (St3 cf s0 sched k) t)) <= tl_gen (t_loc (thr s0 t)) + 4 * N.of_nat (min k (length sched))) /\
    NoSGF (St3 cf s0 sched k).
Proof.
  intros NS NF. induction k as [|k [IH1 IH2]].
  - split; [intros t; cbn; lia|exact NF].
  - destruct (nth_error sched k) as [[t x]|] eqn:Hk.
    + rewrite (St3_step _ _ _ _ _ _ Hk).
      assert (Hlt : (k < length sched)%nat) by (apply nth_error_Some; congruence).
      destruct (step_stale3_gen cf _ t x (NoSetGen_St3 cf s0 sched k NS) IH2) as [H1 H2].
      split; [|exact H2]. intros t'. specialize (H1 t'). specialize (IH1 t'). lia.
    + rewrite (St3_end _ _ _ _ Hk). apply nth_error_None in Hk.
      split; [|exact IH2]. intros t'. specialize (IH1 t'). lia.
Qed.

(** After [k] steps of [step_stale3] from an initial state every counter is at most [4 * length sched]. *)
Theorem run_stale3_gen_init cf inits progs sched k t :
  progs_nosetgen progs ->
  tl_gen (t_loc (thr (St3 cf (init_state inits progs) sched k) t)) <= 4 * N.of_nat (length sched).
Proof.
  intros Hp.
  destruct (run_stale3_gen cf _ sched (NoSetGen_init inits progs Hp) (NoSGF_init inits progs) k) as [H _].
  specialize (H t). rewrite (proj2 (init_thread_facts inits progs t)) in H. cbn [tl_init tl_gen] in H. lia.
Qed.

Theorem GenBound_len_stale3 cf inits progs sched :
  progs_nosetgen progs -> 4 * N.of_nat (length sched) + 4 < WORD ->
  forall k, GenBound (St3 cf (init_state inits progs) sched k).
Proof.
  intros Hp Hlen k t. pose proof (run_stale3_gen_init cf inits progs sched k t Hp) as H. lia.
Qed.
