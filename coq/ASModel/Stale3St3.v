(** * ASModel.Stale3St3 — runs of [step_stale3] described by (mostly) static hypotheses.

    [ProgWF2.PInv] along [step_stale3] ([step_stale3_PInv]: a stale peek at [Q1] is [step] in the
    state whose storage holds the answered value), hence [CloneSrcCmd] and [CacheExcl] from
    [handles_disjoint]; [GenBound] from the length ([Stale3St2]); [never_consumed] from the text.
    [RunStaticS3]: the remaining hypotheses on the states of the run are [DstEmptyC] (NOT reduced
    here: [ProgWF1.flow] rejects [CCacheNew c k; CCacheLoad k]) and the conditions on the
    scheduler ([alloc_ok], [stale2_ok], [staleC_ok]). *)
From Coq Require Import Lia.
From ASModel Require Import Base State Orderings_gen Step Run Progress Hist Inv InvTl InvProto InvStep Sum StepCases.
From ASModel Require Import GenDefs Gen1 Gen2 Gen Prot11 Prot12 Safe2 Safe8 Safe Main.
From ASModel Require Import ProgWF1 ProgWF2 ProgWF3 ProgWF CchDefs CchCmd CchMain CchWF.
From ASModel Require Import Stale Stale2 Stale2S1 Stale2S3 StaleC StaleCView StaleCInv1 StaleCInv20 StaleCInv28.
From ASModel Require Import Stale3Fresh10 Stale3St1 Stale3St2.

Lemma PInv_sh progs s m : PInv progs s -> PInv progs (mkState m (thr s) (hnd s)).
Proof. intros [A B C D]. constructor; assumption. Qed.

Theorem step_staleC_PInv progs cf s t x :
  handles_disjoint progs -> PInv progs s -> PInv progs (fst (step_staleC cf s t x)).
Proof.
  intros HD PI. destruct (q1_stale s t x) eqn:Hq.
  2:{ rewrite (q1_stale_false cf s t x Hq). apply step_PInv; assumption. }
  unfold q1_stale in Hq.
  destruct (t_status (thr s t)) eqn:Hr; try discriminate Hq.
  destruct (t_stack (thr s t)) as [|p rest] eqn:Hs; [discriminate Hq|].
  destruct p; try discriminate Hq. apply N.leb_le in Hq.
  destruct (stale_sim cf s t x _ _ _ rest Hr Hs Hq) as (E & _ & _). rewrite E.
  unfold with_sh. apply PInv_sh. apply step_PInv; [exact HD|]. unfold shadow. apply PInv_sh. exact PI.
Qed.

Theorem step_stale3_PInv progs cf s t x :
  handles_disjoint progs -> PInv progs s -> PInv progs (fst (step_stale3 cf s t x)).
Proof.
  intros HD PI. destruct (step_stale3_cases cf s t x) as [-> | ->];
    [apply step_staleC_PInv|apply step_stale2_PInv]; assumption.
Qed.

Theorem run_stale3_PInv progs cf inits sched :
  handles_disjoint progs -> forall k, PInv progs (St3 cf (init_state inits progs) sched k).
Proof.
  intros HD. induction k as [|k IH]; [apply PInv_init|].
  destruct (nth_error sched k) as [[t x]|] eqn:Hk.
  - rewrite (St3_step _ _ _ _ _ _ Hk). apply step_stale3_PInv; assumption.
  - rewrite (St3_end _ _ _ _ Hk). exact IH.
Qed.

Theorem handles_disjoint_CloneSrcCmd_stale3 progs cf inits sched :
  handles_disjoint progs -> forall k, CloneSrcCmd (St3 cf (init_state inits progs) sched k).
Proof. intros HD k. apply (PInv_CloneSrcCmd progs). apply run_stale3_PInv. exact HD. Qed.

Theorem handles_disjoint_CacheExcl_stale3 cf inits progs sched k :
  handles_disjoint progs -> CacheExcl (St3 cf (init_state inits progs) sched k).
Proof.
  intros HD t t' cm cm' k0 Hne _ Hc' Hon _ Hc Hk.
  rewrite St3_prog, init_state_prog in Hc, Hc'.
  apply (HD (N.to_nat t) (N.to_nat t') k0); [lia| |].
  - eapply uses_in_prog; [exact Hc|]. apply mods_in_uses. exact Hk.
  - eapply uses_in_prog; [exact Hc'|]. apply dst_in_uses.
    destruct Hon as [(c & ->)| ->]; reflexivity.
Qed.

(** ** [never_consumed] from the program text *)
Definition no_consume_b (c : N) (progs : list (list cmd)) : bool :=
  forallb (forallb (fun cm => negb (is_consume c cm))) progs.

Lemma no_consume_static c inits progs : no_consume_b c progs = true -> never_consumed c (init_state inits progs).
Proof.
  intros H t cm Hcm. rewrite init_state_prog in Hcm.
  destruct (nth_in_or_default (N.to_nat t) progs []) as [Hpr|E]; [|rewrite E in Hcm; destruct Hcm].
  apply (proj1 (forallb_forall _ _) H) in Hpr. pose proof (proj1 (forallb_forall _ _) Hpr _ Hcm) as A.
  apply negb_true_iff in A. exact A.
Qed.

(** ** The record *)
Record RunStaticS3 (cf : config) (inits : list N) (progs : list (list cmd)) (sched : list (N * N)) : Prop := {
  rs3_inits : inits_ok inits;
  rs3_progs : progs_nosetgen progs;
  rs3_disj : handles_disjoint progs;
  rs3_len : 4 * N.of_nat (length sched) + 4 < WORD;
  rs3_dst : forall k, DstEmptyC (St3 cf (init_state inits progs) sched k);
  rs3_alloc : forall k t x, nth_error sched k = Some (t, x) -> alloc_ok (St3 cf (init_state inits progs) sched k) t x;
  rs3_stale2 : forall k t x, nth_error sched k = Some (t, x) -> stale2_ok (St3 cf (init_state inits progs) sched k) t x;
  rs3_staleC : forall k t x, nth_error sched k = Some (t, x) ->
                 staleC_ok (G3 cf (init_state inits progs) sched k) (St3 cf (init_state inits progs) sched k) t x;
}.

Theorem RunStaticS3_RunOKS3 cf inits progs sched :
  RunStaticS3 cf inits progs sched -> RunOKS3 cf inits progs sched.
Proof.
  intros [Hi Hp HD Hl Hd Ha H2 HC]. constructor; try assumption.
  intros k. cbn zeta. split; [apply GenBound_len_stale3; assumption|].
  split; [apply Hd|]. split; [apply handles_disjoint_CloneSrcCmd_stale3; exact HD|].
  apply handles_disjoint_CacheExcl_stale3. exact HD.
Qed.

Theorem no_cache_move_static_S3 cf inits progs sched :
  RunStaticS3 cf inits progs sched -> no_cache_move_b progs = true ->
  forall p, NoCacheMove (St3 cf (init_state inits progs) sched p).
Proof. intros R. apply no_cache_move_static. apply RunStaticS3_RunOKS3. exact R. Qed.
