(** * ASModel.Stale3St4 — freshness of [Cache::new] / [Cache::load] for runs of [step_stale3]
    with the side hypotheses [NoCacheMove] and [never_consumed] replaced by decidable predicates
    on the program text, and the run described by [RunStaticS3]. *)
From Coq Require Import Lia.
From ASModel Require Import Base State Orderings_gen Step Run Progress Hist.
From ASModel Require Import LinCache StaleC StaleCView StaleCInv20 StaleCInv28 Stale3Fresh10 Stale3St1 Stale3St2 Stale3St3.

Theorem C16_cache_fresh_stale3_static cf inits progs sched t i cm c k pa pb xa tb xb :
  RunStaticS3 cf inits progs sched ->
  no_cache_move_b progs = true ->
  no_consume_b c progs = true ->
  nth_error (t_prog (thr (init_state inits progs) t)) (N.to_nat i) = Some cm ->
  cache_cmd_of (St3 cf (init_state inits progs) sched pa) cm c k ->
  (pa <= pb)%nat ->
  nth_error sched pa = Some (t, xa) ->
  t_status (thr (St3 cf (init_state inits progs) sched pa) t) = Running ->
  t_stack (thr (St3 cf (init_state inits progs) sched pa) t) = [] ->
  t_cmdi (thr (St3 cf (init_state inits progs) sched pa) t) = i ->
  nth_error sched pb = Some (tb, xb) ->
  t_cmdi (thr (St3 cf (init_state inits progs) sched pb) t) = i ->
  t_cmdi (thr (St3 cf (init_state inits progs) sched (S pb)) t) = i + 1 ->
  exists v j,
    hnd (St3 cf (init_state inits progs) sched (S pb)) k = HCache c v /\
    nth_error (vh (G3 cf (init_state inits progs) sched (S pb)) c) j = Some v /\
    (vt (G3 cf (init_state inits progs) sched pa) t c <= j)%nat /\
    (cm = CCacheLoad k -> (vc (G3 cf (init_state inits progs) sched pa) k <= j)%nat) /\
    nth_error (vh (G3 cf (init_state inits progs) sched (S pb)) c) (vc (G3 cf (init_state inits progs) sched (S pb)) k) = Some v /\
    (vc (G3 cf (init_state inits progs) sched (S pb)) k = j \/
     (hnd (St3 cf (init_state inits progs) sched pb) k = HCache c v /\
      (vc (G3 cf (init_state inits progs) sched (S pb)) k <= j)%nat)).
Proof.
  intros R NM NC. apply C16_cache_fresh_stale3.
  - apply RunStaticS3_RunOKS3. exact R.
  - apply no_cache_move_static_S3; assumption.
  - apply no_consume_static. exact NC.
Qed.
