(** * ASModel.StaleC — the Relaxed revalidating read of [Cache::load] may be stale.

    `Cache::revalidate` (src/cache.rs) reads the container's pointer with `load(Relaxed)` and
    compares it with the pointer of the value the cache holds: equal - the cached value is
    returned; different - `load_full` and replace.  Under the C++ memory model that read may
    return an OLDER value of the storage.  Unlike the loads weakened in [Stale2] its result IS
    trusted: a stale value equal to the cached pointer makes the cache return its (old) value.
    That is what property C16 permits - it asks for freshness relative to happens-before, not
    for linearizability - so the theorem about such runs needs views ([StaleCView.v]).

    [step_staleC]: [step], except that at [Q1] the scheduler may supply the value read
    ([x >= 2]: the value [x - 2]).  [step_stale3]: the same on top of [Stale2.step_stale2]
    (all five weakened loads). *)
From ASModel Require Import Base State Orderings_gen Step Run Stale Stale2.

Definition staleC_exec (cf : config) (s : shared) (l : tlocal) (c a k v : N)
  : shared * tlocal * list event * next :=
  let e := ld_event (LStore c) o_cache_revalidate v in
  if v =? a then (s, l, [e], NRet (ROwned a))
  else
    match enter_load cf l c with
    | inl (l', frames) => (s, l', [e], NPush (frames ++ [WLoadFull]) (WCacheReload c a k))
    | inr ps => (s, l, [e], NPanic ps)
    end.

Definition step_staleC (cf : config) (s : state) (t x : N) : state * list event :=
  let th := thr s t in
  match t_status th, t_stack th with
  | Running, Q1 c a k :: rest =>
      if 2 <=? x then
        let '(s_sh, l, evs, nx) := staleC_exec cf (sh s) (t_loc th) c a k (x - 2) in
        finish cf s t th s_sh l rest evs nx
      else step cf s t x
  | _, _ => step cf s t x
  end.

Definition step_stale3 (cf : config) (s : state) (t x : N) : state * list event :=
  let th := thr s t in
  match t_status th, t_stack th with
  | Running, Q1 c a k :: rest =>
      if 2 <=? x then
        let '(s_sh, l, evs, nx) := staleC_exec cf (sh s) (t_loc th) c a k (x - 2) in
        finish cf s t th s_sh l rest evs nx
      else step cf s t x
  | _, _ => step_stale2 cf s t x
  end.

(** Is this step one that takes a stale value at [Q1]? *)
Definition q1_stale (s : state) (t x : N) : bool :=
  match t_status (thr s t), t_stack (thr s t) with
  | Running, Q1 _ _ _ :: _ => 2 <=? x
  | _, _ => false
  end.

Lemma step_staleC_lt2 cf s t x : x < 2 -> step_staleC cf s t x = step cf s t x.
Proof.
  intros H. unfold step_staleC.
  destruct (2 <=? x) eqn:E; [apply N.leb_le in E; lia|].
  destruct (t_status (thr s t)); try reflexivity.
  destruct (t_stack (thr s t)) as [|p rest]; try reflexivity.
  destruct p; reflexivity.
Qed.

Lemma step_stale3_Q1 cf s t x c a k rest :
  t_stack (thr s t) = Q1 c a k :: rest -> step_stale3 cf s t x = step_staleC cf s t x.
Proof.
  intros H. unfold step_stale3, step_staleC. rewrite H.
  destruct (t_status (thr s t)); try reflexivity.
  all: unfold step_stale2; rewrite H; cbn [stale2_exec];
    destruct (t_status (thr s t)); try reflexivity; destruct (2 <=? x); reflexivity.
Qed.
