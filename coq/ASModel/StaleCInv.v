(** * ASModel.StaleCInv — runs in which the Relaxed revalidating read of [Cache::load] may be stale
    ([StaleC.step_staleC], instrumented with histories and views by [StaleCView.vrunC]): summary.

    Notation: [StC cf s0 sched k] / [GC cf s0 sched k] are the state and the view ghost after [k]
    steps of the schedule ([StaleCInv6]).

    1. Safety ([StaleCInv1] .. [StaleCInv6]).  A stale peek from [s] is the step of [step] from the
       state [shadow s c v] (the storage of [c] replaced by the value read) with the memory put
       back.  [step_staleC_MasterC]: the master invariant [CchMain.MasterC] is preserved;
       [RunOKSC]: the fields of [RunOKC] over the states of the stale run plus [staleC_ok];
       [RunOKSC_MasterC]; [C16_no_fault_staleC].
    2. Views ([StaleCInv9] .. [StaleCInv12], [StaleCInv20], [StaleCInv26]): [VInv] = [VInvA]
       (indices in range, released views monotone) + [HistOK] (the history ends with the content
       of the storage; containers never consumed) + [CacheIdx] (the index of a cache points at
       its value; needs [NoCacheMove]).
    3. [vt_mono], [vh_prefix] ([StaleCInv12]).
    4. [C16_cache_fresh_staleC] ([StaleCInv24]), via the linearization ghost of [Lin] carried
       along the stale run ([StaleCInv13] .. [StaleCInv16]: [RunOKSC_LinInv3], [ltC_sound],
       [cache_completes]) and the shape invariants [QShape], [CacheHold] ([StaleCInv7], [8], [17]).
    5. [own_write_seen], [view_handover] ([StaleCInv25]).
    6. Example runs: [StaleCInvEx].
    7. All five weakened loads together ([step_stale3], [vrun3]; [StaleCInv27] .. [StaleCInv30]):
       [step_stale3_MasterC], [RunOKS3], [RunOKS3_MasterC], [C16_no_fault_stale3]; the view
       invariants [run3_VInvA], [run3_HistOK], [vt_mono3], [vh_prefix3].  (The index invariant
       [CacheIdx] and the freshness theorem are proved for [vrunC] only.) *)
From ASModel Require Export StaleC StaleCView.
From ASModel Require Export StaleCInv1 StaleCInv2 StaleCInv3 StaleCInv4 StaleCInv5 StaleCInv6 StaleCInv7 StaleCInv8
  StaleCInv9 StaleCInv10 StaleCInv11 StaleCInv12 StaleCInv13 StaleCInv14 StaleCInv15 StaleCInv16 StaleCInv17
  StaleCInv18 StaleCInv19 StaleCInv20 StaleCInv21 StaleCInv22 StaleCInv23 StaleCInv24 StaleCInv25 StaleCInv26
  StaleCInv27 StaleCInv28 StaleCInv29 StaleCInv30.

(** 1. Safety *)
Check stale_sim.
Check step_staleC_MasterC.
Check RunOKSC_MasterC.
Check C16_no_fault_staleC.
(** 2. Views *)
Check run_VInvA.
Check run_HistOK.
Check run_CacheIdx.
Check run_VInv.
(** 3. Growth *)
Check vt_mono.
Check vh_prefix.
Check mem_in_history.
(** 4. Freshness of [Cache::load] *)
Check RunOKSC_QShape.
Check RunOKSC_CacheHold.
Check RunOKSC_LinInv3.
Check ltC_sound.
Check cache_completes.
Check C16_cache_fresh_staleC.
(** 5. Hand-over of views *)
Check own_write_seen.
Check view_handover.

(** 7. [step_stale3] *)
Check step_stale3_MasterC.
Check RunOKS3_MasterC.
Check C16_no_fault_stale3.
Check run3_VInvA.
Check run3_HistOK.
Check vt_mono3.

Print Assumptions step_staleC_MasterC.
Print Assumptions RunOKSC_MasterC.
Print Assumptions C16_no_fault_staleC.
Print Assumptions run_VInv.
Print Assumptions vt_mono.
Print Assumptions vh_prefix.
Print Assumptions C16_cache_fresh_staleC.
Print Assumptions own_write_seen.
Print Assumptions view_handover.
Print Assumptions step_stale3_MasterC.
Print Assumptions C16_no_fault_stale3.
Print Assumptions run3_HistOK.
