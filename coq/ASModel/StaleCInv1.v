(** * ASModel.StaleCInv1 — the stale revalidation step ([StaleC.step_staleC]): shape of the step,
    and the simulation that the safety proof rests on.

    A step of [step_staleC] is either the step of [step], or a STALE PEEK: thread [t] is at
    [Q1 c a k] and the scheduler supplies the value [v] it reads.  The stale peek from [s] is the
    step that [step] takes from the state [shadow s c v] - [s] with the storage of [c] replaced by
    [v] - with the memory put back ([stale_sim]): same thread map, same handles, same events.
    Invariants that do not look at the storages are therefore carried over by their [step]
    lemmas ([StaleCInv2]); the others are proved directly ([StaleCInv3] ...). *)
From Coq Require Import Lia.
From ASModel Require Import Base State Orderings_gen Step Run Progress Hist Inv InvTl InvProto InvStep Sum StepCases.
From ASModel Require Import Stale Stale2 StaleC StaleCView.

(** ** The two cases *)
Lemma q1_stale_false cf s t x : q1_stale s t x = false -> step_staleC cf s t x = step cf s t x.
Proof.
  unfold q1_stale, step_staleC. destruct (t_status (thr s t)); try reflexivity.
  destruct (t_stack (thr s t)) as [|p rest]; try reflexivity. destruct p; try reflexivity.
  intros ->. reflexivity.
Qed.

Lemma q1_stale_true s t x :
  q1_stale s t x = true ->
  t_status (thr s t) = Running /\ 2 <= x /\ exists c a k rest, t_stack (thr s t) = Q1 c a k :: rest.
Proof.
  unfold q1_stale. destruct (t_status (thr s t)); try discriminate.
  destruct (t_stack (thr s t)) as [|p rest]; try discriminate. destruct p; try discriminate.
  intros H. apply N.leb_le in H. split; [reflexivity|]. split; [exact H|]. eauto.
Qed.

(** The local part of the peek answered with [v]. *)
Definition peek_nx (cf : config) (l : tlocal) (c a k v : N) : tlocal * next :=
  if v =? a then (l, NRet (ROwned a))
  else match enter_load cf l c with
       | inl (l', frames) => (l', NPush (frames ++ [WLoadFull]) (WCacheReload c a k))
       | inr ps => (l, NPanic ps)
       end.

Lemma staleC_exec_eq cf s l c a k v :
  staleC_exec cf s l c a k v =
    (s, fst (peek_nx cf l c a k v), [ld_event (LStore c) o_cache_revalidate v], snd (peek_nx cf l c a k v)).
Proof.
  unfold staleC_exec, peek_nx. destruct (v =? a); [reflexivity|].
  destruct (enter_load cf l c) as [[l' fs]|ps]; reflexivity.
Qed.

Lemma exec_Q1_eq cf s l c a k x :
  exec cf s l (Q1 c a k) x =
    (s, fst (peek_nx cf l c a k (mem s (LStore c))), [ld_event (LStore c) o_cache_revalidate (mem s (LStore c))],
     snd (peek_nx cf l c a k (mem s (LStore c)))).
Proof.
  cbn [exec]. unfold a_load, peek_nx, ld_event. destruct (mem s (LStore c) =? a); [reflexivity|].
  destruct (enter_load cf l c) as [[l' fs]|ps]; reflexivity.
Qed.

Lemma finish_fst cf s t th s_sh l rest evs nx :
  fst (finish cf s t th s_sh l rest evs nx) =
    mkState s_sh (upd (thr s) t (thread_after cf th l rest nx)) (hnd_after cf (hnd s) l rest nx).
Proof.
  unfold finish, thread_after, hnd_after. destruct nx; cbn; try reflexivity.
  destruct (unwind cf l rest v) as [| ? [[? ?]|] ? | | |]; reflexivity.
Qed.

Lemma finish_snd_state cf s s2 t th s_sh s_sh2 l rest evs nx :
  snd (finish cf s t th s_sh l rest evs nx) = snd (finish cf s2 t th s_sh2 l rest evs nx).
Proof.
  unfold finish. destruct nx; cbn; try reflexivity.
  destruct (unwind cf l rest v) as [| ? [[? ?]|] ? | | |]; reflexivity.
Qed.

(** The stale peek, explicitly. *)
Lemma step_staleC_peek cf s t x c a k rest :
  t_status (thr s t) = Running -> t_stack (thr s t) = Q1 c a k :: rest -> 2 <= x ->
  step_staleC cf s t x =
    finish cf s t (thr s t) (sh s) (fst (peek_nx cf (t_loc (thr s t)) c a k (x - 2))) rest
           [ld_event (LStore c) o_cache_revalidate (x - 2)] (snd (peek_nx cf (t_loc (thr s t)) c a k (x - 2))).
Proof.
  intros Hr Hs Hx. unfold step_staleC. rewrite Hr, Hs.
  destruct (2 <=? x) eqn:E; [|apply N.leb_gt in E; lia].
  rewrite staleC_exec_eq. reflexivity.
Qed.

(** ** The shadow state *)
Definition shadow (s : state) (c v : N) : state :=
  mkState (m_set (sh s) (LStore c) v) (thr s) (hnd s).

Definition with_sh (s : state) (m : shared) : state := mkState m (thr s) (hnd s).

Lemma shadow_mem_store s c v : mem (sh (shadow s c v)) (LStore c) = v.
Proof. cbn. apply upd_same. Qed.

Lemma shadow_mem_other s c v l0 : l0 <> LStore c -> mem (sh (shadow s c v)) l0 = mem (sh s) l0.
Proof. intros H. cbn. apply upd_other. exact H. Qed.

Lemma step_shadow_peek cf s t x0 c a k rest v :
  t_status (thr s t) = Running -> t_stack (thr s t) = Q1 c a k :: rest ->
  step cf (shadow s c v) t x0 =
    finish cf (shadow s c v) t (thr s t) (sh (shadow s c v)) (fst (peek_nx cf (t_loc (thr s t)) c a k v)) rest
           [ld_event (LStore c) o_cache_revalidate v] (snd (peek_nx cf (t_loc (thr s t)) c a k v)).
Proof.
  intros Hr Hs. unfold step. cbn [thr shadow]. rewrite Hr, Hs. rewrite exec_Q1_eq.
  rewrite shadow_mem_store. reflexivity.
Qed.

(** The simulation: same threads, handles and events; the memories are those of the start states. *)
Theorem stale_sim cf s t x c a k rest :
  t_status (thr s t) = Running -> t_stack (thr s t) = Q1 c a k :: rest -> 2 <= x ->
  let s1 := fst (step cf (shadow s c (x - 2)) t 0) in
  fst (step_staleC cf s t x) = with_sh s1 (sh s) /\
  sh s1 = sh (shadow s c (x - 2)) /\
  snd (step_staleC cf s t x) = snd (step cf (shadow s c (x - 2)) t 0).
Proof.
  intros Hr Hs Hx. cbn zeta.
  rewrite (step_staleC_peek cf s t x c a k rest Hr Hs Hx).
  rewrite (step_shadow_peek cf s t 0 c a k rest (x - 2) Hr Hs).
  rewrite !finish_fst. cbn [with_sh sh thr hnd shadow]. split; [reflexivity|]. split; [reflexivity|].
  apply finish_snd_state.
Qed.

(** The memory and the heap are untouched by a stale peek. *)
Lemma stale_peek_sh cf s t x : q1_stale s t x = true -> sh (fst (step_staleC cf s t x)) = sh s.
Proof.
  intros H. destruct (q1_stale_true s t x H) as (Hr & Hx & c & a & k & rest & Hs).
  rewrite (step_staleC_peek cf s t x c a k rest Hr Hs Hx), finish_fst. reflexivity.
Qed.

(** ** The ghost never influences the step *)
Lemma vstep_with_fst stp cf s g t x : fst (vstep_with stp cf (s, g) t x) = fst (stp cf s t x).
Proof. unfold vstep_with. destruct (stp cf s t x) as [s' evs]. reflexivity. Qed.

Lemma vstepC_fst cf s g t x : fst (vstepC cf (s, g) t x) = fst (step_staleC cf s t x).
Proof. apply vstep_with_fst. Qed.

Lemma vstepC_fst' cf sg t x : fst (vstepC cf sg t x) = fst (step_staleC cf (fst sg) t x).
Proof. destruct sg as [s g]. apply vstepC_fst. Qed.

Definition run_state_staleC (cf : config) (s : state) (sched : list (N * N)) : state :=
  fold_left (fun s tx => fst (step_staleC cf s (fst tx) (snd tx))) sched s.

Lemma vrunC_fst cf sched : forall sg, fst (vrunC cf sg sched) = run_state_staleC cf (fst sg) sched.
Proof.
  induction sched as [|tx sched IH]; intros sg; [reflexivity|].
  cbn [vrunC run_state_staleC fold_left]. fold (vrunC cf (vstepC cf sg (fst tx) (snd tx)) sched).
  rewrite IH, vstepC_fst'. reflexivity.
Qed.
