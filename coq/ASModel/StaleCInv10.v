(** * ASModel.StaleCInv10 — the ghost operations of [StaleCView.vacc] as functions ([rdg], [wrg]),
    [find_from] / [last_index], and the view invariant [VInvA] with its preservation by the
    operations. *)
From Coq Require Import Lia.
From ASModel Require Import Base State Orderings_gen Step Run Progress Hist.
From ASModel Require Import Lin1 LinCache2 Stale2 StaleC StaleCView StaleCInv9.

(** ** [find_from], [last_index] *)
Lemma find_from_spec v lo : forall l i0 i,
  find_from l i0 lo v = Some i ->
  (lo <= i)%nat /\ (i0 <= i < i0 + length l)%nat /\ nth_error l (i - i0) = Some v /\
  forall j, (lo <= j)%nat -> (i0 <= j < i)%nat -> nth_error l (j - i0) <> Some v.
Proof.
  induction l as [|y r IH]; intros i0 i H; [discriminate|]. cbn [find_from] in H.
  destruct ((lo <=? i0)%nat && (y =? v)) eqn:E.
  - injection H as <-. apply andb_prop in E as [E1 E2]. apply Nat.leb_le in E1. apply N.eqb_eq in E2. subst y.
    rewrite Nat.sub_diag. cbn [length]. repeat split; try lia.
  - destruct (IH _ _ H) as (A & B & C & D). cbn [length]. split; [exact A|]. split; [lia|]. split.
    + replace (i - i0)%nat with (S (i - S i0)) by lia. exact C.
    + intros j Hlo Hj. destruct (Nat.eq_dec j i0) as [->|Hne].
      * rewrite Nat.sub_diag. cbn. intros [= ->]. apply Bool.andb_false_iff in E as [E|E].
        -- apply Nat.leb_gt in E. lia.
        -- rewrite N.eqb_refl in E. discriminate.
      * replace (j - i0)%nat with (S (j - S i0)) by lia. cbn. apply D; lia.
Qed.

Lemma find_from_complete v lo : forall l i0 j,
  (lo <= j)%nat -> (i0 <= j)%nat -> nth_error l (j - i0) = Some v -> exists i, find_from l i0 lo v = Some i.
Proof.
  induction l as [|y r IH]; intros i0 j Hlo Hj Hn; [destruct (j - i0)%nat; discriminate|]. cbn [find_from].
  destruct ((lo <=? i0)%nat && (y =? v)) eqn:E; [eauto|].
  destruct (Nat.eq_dec j i0) as [->|Hne].
  - rewrite Nat.sub_diag in Hn. cbn in Hn. injection Hn as ->. apply Bool.andb_false_iff in E as [E|E].
    + apply Nat.leb_gt in E. lia.
    + rewrite N.eqb_refl in E. discriminate.
  - apply (IH (S i0) j); try lia. replace (j - i0)%nat with (S (j - S i0)) in Hn by lia. exact Hn.
Qed.

Lemma last_index_spec v : forall l i0 acc i,
  last_index l i0 v acc = Some i ->
  (acc = Some i /\ forall j, (j < length l)%nat -> nth_error l j <> Some v) \/
  ((i0 <= i < i0 + length l)%nat /\ nth_error l (i - i0) = Some v /\
   forall j, (i < j < i0 + length l)%nat -> nth_error l (j - i0) <> Some v).
Proof.
  induction l as [|y r IH]; intros i0 acc i H.
  - cbn in H. left. split; [exact H|]. intros j Hj. cbn in Hj. lia.
  - cbn [last_index] in H. destruct (IH _ _ _ H) as [[E Hno]|(A & B & C)].
    + destruct (N.eqb_spec y v) as [->|Hne].
      * injection E as <-. right. cbn [length]. split; [lia|]. rewrite Nat.sub_diag. split; [reflexivity|].
        intros j Hj. replace (j - i0)%nat with (S (j - S i0)) by lia. cbn. apply Hno. lia.
      * left. split; [exact E|]. intros [|j] Hj; cbn; [congruence|apply Hno; cbn in Hj; lia].
    + right. cbn [length]. split; [lia|]. split.
      * replace (i - i0)%nat with (S (i - S i0)) by lia. exact B.
      * intros j Hj. replace (j - i0)%nat with (S (j - S i0)) by lia. cbn. apply C. lia.
Qed.

Lemma last_index_some v : forall l i0 x, last_index l i0 v (Some x) <> None.
Proof.
  induction l as [|y r IH]; intros i0 x; [discriminate|]. cbn [last_index]. destruct (y =? v); apply IH.
Qed.

Lemma last_index_complete v : forall l i0 acc j,
  (j < length l)%nat -> nth_error l j = Some v ->
  exists i, last_index l i0 v acc = Some i /\ (i0 + j <= i < i0 + length l)%nat /\ nth_error l (i - i0) = Some v.
Proof.
  induction l as [|y r IH]; intros i0 acc j Hj Hn; [cbn in Hj; lia|]. cbn [last_index].
  destruct j as [|j].
  - cbn in Hn. injection Hn as ->. rewrite N.eqb_refl.
    destruct (last_index r (S i0) v (Some i0)) as [i|] eqn:E.
    + exists i. split; [reflexivity|]. destruct (last_index_spec v _ _ _ _ E) as [[Ea _]|(A & B & _)].
      * injection Ea as <-. cbn [length]. split; [lia|]. rewrite Nat.sub_diag. reflexivity.
      * cbn [length]. split; [lia|]. replace (i - i0)%nat with (S (i - S i0)) by lia. exact B.
    + exfalso. exact (last_index_some v r (S i0) i0 E).
  - cbn in Hn, Hj. destruct (IH (S i0) (if y =? v then Some i0 else acc) j ltac:(lia) Hn) as (i & E & A & B).
    exists i. split; [exact E|]. cbn [length]. split; [lia|]. replace (i - i0)%nat with (S (i - S i0)) by lia. exact B.
Qed.

(** ** The operations *)
Definition rdg (g : vghost) (t c : N) (i : nat) (a : bool) : vghost :=
  let tv := updN (vt g t) c (Nat.max (vt g t c) i) in
  let tv := if a then vjoin tv (vm g c i) else tv in
  mkVG (vh g) (updN (vt g) t tv) (vm g) (vc g).

Definition wrg (g : vghost) (t c new : N) : vghost :=
  let h := vh g c in
  let idx := length h in
  let tv := updN (vjoin (vt g t) (vm g c (length h - 1)%nat)) c idx in
  mkVG (updN (vh g) c (h ++ [new])) (updN (vt g) t tv) (updN (vm g) c (updn (vm g c) idx tv)) (vc g).

Lemma updN_same {A} (f : N -> A) k v : updN f k v k = v.
Proof. unfold updN. rewrite N.eqb_refl. reflexivity. Qed.
Lemma updN_other {A} (f : N -> A) k v k' : k' <> k -> updN f k v k' = f k'.
Proof. unfold updN. intros H. apply N.eqb_neq in H. rewrite H. reflexivity. Qed.
Lemma updn_same {A} (f : nat -> A) k v : updn f k v k = v.
Proof. unfold updn. rewrite Nat.eqb_refl. reflexivity. Qed.
Lemma updn_other {A} (f : nat -> A) k v k' : k' <> k -> updn f k v k' = f k'.
Proof. unfold updn. intros H. apply Nat.eqb_neq in H. rewrite H. reflexivity. Qed.

Lemma vacc_load g t c o fo old new ok :
  vacc g t false (EvAcc (LStore c) OLoad o fo old new ok) = rdg g t c (length (vh g c) - 1) (acq o).
Proof. reflexivity. Qed.

Lemma vacc_casfail g t c o fo old new :
  vacc g t false (EvAcc (LStore c) OCasWeak o fo old new false) = rdg g t c (length (vh g c) - 1) (acq fo).
Proof. reflexivity. Qed.

Lemma vacc_write g t st c op o fo old new :
  op = OSwap \/ op = OCasWeak -> acq o = true -> rel o = true ->
  vacc g t st (EvAcc (LStore c) op o fo old new true) = wrg g t c new.
Proof. intros [-> | ->] Ha Hr; cbn [vacc]; rewrite Ha, Hr; reflexivity. Qed.

Lemma vacc_stale g t c o fo old new ok :
  vacc g t true (EvAcc (LStore c) OLoad o fo old new ok) =
    match find_from (vh g c) 0 (vt g t c) new with Some i => rdg g t c i (acq o) | None => g end.
Proof. reflexivity. Qed.

(** ** The invariant of the views (the part that every single step preserves) *)
Record VInvA (g : vghost) : Prop := {
  va_ne : forall c, vh g c <> [];
  va_t : forall t c, (vt g t c < length (vh g c))%nat;
  va_m : forall c i c', (vm g c i c' < length (vh g c'))%nat;
  va_mono : forall c i j c', (i <= j < length (vh g c))%nat -> (vm g c i c' <= vm g c j c')%nat;
  va_self : forall c i, (i < length (vh g c))%nat -> vm g c i c = i;
}.

Lemma VInvA_init s0 : VInvA (vghost0 s0).
Proof. constructor; cbn; intros; try discriminate; lia. Qed.

Lemma rdg_VInvA g t c i a : VInvA g -> (i < length (vh g c))%nat -> VInvA (rdg g t c i a).
Proof.
  intros [H1 H2 H3 H4 H5] Hi. constructor; cbn [rdg vh vt vm]; try assumption.
  intros t' c'. unfold updN at 1. destruct (t' =? t); [|apply H2].
  assert (Hb : (updN (vt g t) c (Nat.max (vt g t c) i) c' < length (vh g c'))%nat).
  { unfold updN. destruct (N.eqb_spec c' c) as [->|_]; [pose proof (H2 t c); lia|apply H2]. }
  destruct a; [|exact Hb]. unfold vjoin. pose proof (H3 c i c'). lia.
Qed.

Lemma wrg_VInvA g t c new : VInvA g -> VInvA (wrg g t c new).
Proof.
  intros [H1 H2 H3 H4 H5].
  assert (Hlen : forall c', (length (vh g c') <= length (updN (vh g) c (vh g c ++ [new]) c'))%nat).
  { intros c'. unfold updN. destruct (N.eqb_spec c' c) as [->|_]; [rewrite app_length; lia|lia]. }
  assert (Htv : forall c', (updN (vjoin (vt g t) (vm g c (length (vh g c) - 1))) c (length (vh g c)) c'
                            < length (updN (vh g) c (vh g c ++ [new]) c'))%nat).
  { intros c'. unfold updN. destruct (N.eqb_spec c' c) as [->|_]; [rewrite app_length; cbn; lia|].
    unfold vjoin. pose proof (H2 t c'). pose proof (H3 c (length (vh g c) - 1)%nat c'). lia. }
  constructor; cbn [wrg vh vt vm].
  - intros c'. unfold updN. destruct (c' =? c); [destruct (vh g c); discriminate|apply H1].
  - intros t' c'. unfold updN at 1. destruct (t' =? t); [apply Htv|]. pose proof (H2 t' c'). pose proof (Hlen c'). lia.
  - intros c0 i c'. unfold updN at 1. destruct (c0 =? c).
    + unfold updn. destruct (Nat.eqb i (length (vh g c))); [apply Htv|]. pose proof (H3 c i c'). pose proof (Hlen c'). lia.
    + pose proof (H3 c0 i c'). pose proof (Hlen c'). lia.
  - intros c0 i j c' Hij. destruct (N.eq_dec c0 c) as [->|Hne].
    2:{ rewrite (updN_other _ _ _ c0 Hne) in Hij. rewrite !(updN_other _ _ _ c0 Hne). apply H4; exact Hij. }
    rewrite updN_same in Hij. rewrite !updN_same. rewrite app_length in Hij. cbn in Hij.
    destruct (Nat.eq_dec j (length (vh g c))) as [Ej|Ej]; destruct (Nat.eq_dec i (length (vh g c))) as [Ei|Ei]; try lia.
    + subst i j. lia.
    + subst j. rewrite updn_same, (updn_other _ _ _ i Ei). destruct (N.eq_dec c' c) as [->|Hc'].
      * rewrite updN_same, (H5 c i) by lia. lia.
      * rewrite (updN_other _ _ _ c' Hc'). unfold vjoin.
        assert (Hl : (i <= length (vh g c) - 1 < length (vh g c))%nat) by lia.
        pose proof (H4 c i (length (vh g c) - 1)%nat c' Hl). lia.
    + rewrite (updn_other _ _ _ i Ei), (updn_other _ _ _ j Ej). apply H4. lia.
  - intros c0 i Hi. destruct (N.eq_dec c0 c) as [->|Hne].
    2:{ rewrite (updN_other _ _ _ c0 Hne) in Hi. rewrite !(updN_other _ _ _ c0 Hne). apply H5; exact Hi. }
    rewrite updN_same in Hi. rewrite !updN_same. rewrite app_length in Hi. cbn in Hi.
    destruct (Nat.eq_dec i (length (vh g c))) as [->|Ei].
    + rewrite updn_same. apply updN_same.
    + rewrite (updn_other _ _ _ i Ei). apply H5. lia.
Qed.

(** Only [vc] differs. *)
Definition same_views (g g' : vghost) : Prop := vh g' = vh g /\ vt g' = vt g /\ vm g' = vm g.

Lemma same_views_VInvA g g' : same_views g g' -> VInvA g -> VInvA g'.
Proof. intros (E1 & E2 & E3) [H1 H2 H3 H4 H5]. constructor; rewrite ?E1, ?E2, ?E3; assumption. Qed.

Lemma vcache_same_views g s s' t ri : same_views g (vcache g s s' t ri).
Proof.
  unfold vcache, same_views. destruct (cur_cmd s t) as [cm|]; [|auto]. destruct (LinCache2.ckey cm) as [k|]; [|auto].
  destruct (hnd s' k) as [| | |c v']; auto.
  destruct (match hnd s k with HCache c0 v0 => (c0 =? c) && (v0 =? v') | _ => false end).
  - destruct (t_stack (thr s t)) as [|p ?]; [auto|]. destruct p; auto. destruct ri as [i|]; [|auto].
    destruct (nth i (vh g c) 0 =? a); auto.
  - destruct (last_index (vh g c) 0 v' None); auto.
Qed.
