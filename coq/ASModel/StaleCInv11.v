(** * ASModel.StaleCInv11 — one step of the instrumented run [vstepC]: what the step does to the
    storages ([sstep]) and to the ghost ([vacc_res]). *)
From Coq Require Import Lia.
From ASModel Require Import Base State Orderings_gen Step Run Progress Hist Inv InvTl InvProto InvStep Sum StepCases.
From ASModel Require Import Lin1 LinCache2 Stale2 StaleC StaleCView.
From ASModel Require Import StaleCInv1 StaleCInv3 StaleCInv9 StaleCInv10.

Inductive sstep (s s' : state) (t : N) (evs : list event) : Prop :=
| ss_quiet :
    sevs evs = [] ->
    (forall c, mem (sh s') (LStore c) = mem (sh s) (LStore c) \/ consumes_now s t c) -> sstep s s' t evs
| ss_read c op o fo ok :
    sevs evs = [EvAcc (LStore c) op o fo (mem (sh s) (LStore c)) (mem (sh s) (LStore c)) ok] ->
    (op = OLoad /\ ok = true) \/ (op = OCasWeak /\ ok = false) ->
    (forall c', mem (sh s') (LStore c') = mem (sh s) (LStore c')) -> sstep s s' t evs
| ss_write c op o fo new :
    sevs evs = [EvAcc (LStore c) op o fo (mem (sh s) (LStore c)) new true] ->
    op = OSwap \/ op = OCasWeak -> acq o = true -> rel o = true ->
    mem (sh s') (LStore c) = new -> (forall c', c' <> c -> mem (sh s') (LStore c') = mem (sh s) (LStore c')) ->
    sstep s s' t evs.

Lemma finish_sevs cf s t th s_sh l rest evs nx : sevs (snd (finish cf s t th s_sh l rest evs nx)) = sevs evs.
Proof.
  unfold finish. destruct nx; cbn [snd]; try reflexivity; try (rewrite sevs_app; cbn; apply app_nil_r).
  destruct (unwind cf l rest v); cbn [snd]; try reflexivity; rewrite sevs_app; cbn; apply app_nil_r.
Qed.

Lemma step_sstep cf s t x : sstep s (fst (step cf s t x)) t (snd (step cf s t x)).
Proof.
  unfold step. destruct (t_status (thr s t)) eqn:Hst; try (apply ss_quiet; [reflexivity|intros c; left; reflexivity]).
  destruct (t_stack (thr s t)) as [|p rest] eqn:Hstk.
  - destruct (nth_error _ _) as [cm|] eqn:Hnth.
    + destruct (cmd_enabled s cm); [|apply ss_quiet; [reflexivity|intros c; left; reflexivity]].
      destruct (cmd_start cf s (t_loc (thr s t)) cm) as [[[[s1 l1] stk] r]|ps] eqn:Hc.
      * assert (Hm : forall c, mem (sh s1) (LStore c) = mem (sh s) (LStore c) \/ consumes_now s t c).
        { intros c. destruct (is_consume c cm) eqn:Hic.
          - right. split; [exact Hst|]. split; [exact Hstk|]. eauto.
          - left. exact (cmd_start_store _ _ _ _ _ _ _ _ c Hc Hic). }
        destruct stk; apply ss_quiet; try reflexivity; exact Hm.
      * apply ss_quiet; [reflexivity|intros c; left; reflexivity].
    + destruct (tl_node _); apply ss_quiet; try reflexivity; intros c; left; reflexivity.
  - destruct (exec cf (sh s) (t_loc (thr s t)) p x) as [[[s_sh l] evs] nx] eqn:He.
    pose proof (exec_sacc _ _ _ _ _ _ _ _ _ He) as Ha.
    destruct Ha as [H1 H2|c op o fo ok H1 H2 H3|c op o fo new H1 H2 H3 H4 H5 H6].
    + apply ss_quiet; [rewrite finish_sevs; exact H1|]. intros c. left. rewrite finish_sh. apply H2.
    + eapply ss_read; [rewrite finish_sevs; exact H1|exact H2|]. intros c'. rewrite finish_sh. apply H3.
    + eapply ss_write; [rewrite finish_sevs; exact H1|exact H2|exact H3|exact H4|rewrite finish_sh; exact H5|].
      intros c' Hc'. rewrite finish_sh. apply H6. exact Hc'.
Qed.

(** ** The ghost after the step *)
Inductive vacc_res (cf : config) (s : state) (g : vghost) (t x : N) (g1 : vghost) : Prop :=
| vr_none :
    q1_stale s t x = false -> g1 = g ->
    (forall c, mem (sh (fst (step cf s t x))) (LStore c) = mem (sh s) (LStore c) \/ consumes_now s t c) ->
    vacc_res cf s g t x g1
| vr_read c a :
    q1_stale s t x = false -> g1 = rdg g t c (length (vh g c) - 1) a ->
    (forall c', mem (sh (fst (step cf s t x))) (LStore c') = mem (sh s) (LStore c')) ->
    vacc_res cf s g t x g1
| vr_write c new :
    q1_stale s t x = false -> g1 = wrg g t c new ->
    mem (sh (fst (step cf s t x))) (LStore c) = new ->
    (forall c', c' <> c -> mem (sh (fst (step cf s t x))) (LStore c') = mem (sh s) (LStore c')) ->
    vacc_res cf s g t x g1
| vr_stale c a k rest i :
    Peek s t x c a k rest -> find_from (vh g c) 0 (vt g t c) (x - 2) = Some i -> g1 = rdg g t c i false ->
    vacc_res cf s g t x g1
| vr_stale_none c a k rest :
    Peek s t x c a k rest -> find_from (vh g c) 0 (vt g t c) (x - 2) = None -> g1 = g ->
    vacc_res cf s g t x g1.

Lemma peek_sevs cf s t x c a k rest :
  Peek s t x c a k rest ->
  sevs (snd (step_staleC cf s t x)) = [EvAcc (LStore c) OLoad Relaxed Relaxed (x - 2) (x - 2) true].
Proof.
  intros [Hr Hs Hx]. rewrite (step_staleC_peek cf s t x c a k rest Hr Hs Hx), finish_sevs. reflexivity.
Qed.

Lemma peek_read_idx g s t x c a k rest :
  Peek s t x c a k rest -> q1_read_idx g s t x = find_from (vh g c) 0 (vt g t c) (x - 2).
Proof.
  intros [Hr Hs Hx]. unfold q1_read_idx. rewrite Hr, Hs. destruct (2 <=? x) eqn:E; [reflexivity|].
  apply N.leb_gt in E. lia.
Qed.

Lemma peek_q1_stale s t x c a k rest : Peek s t x c a k rest -> q1_stale s t x = true.
Proof. intros [Hr Hs Hx]. unfold q1_stale. rewrite Hr, Hs. apply N.leb_le. exact Hx. Qed.

Theorem vstepC_ghost cf s g t x :
  exists g1,
    vstepC cf (s, g) t x =
      (fst (step_staleC cf s t x), vcache g1 s (fst (step_staleC cf s t x)) t (q1_read_idx g s t x)) /\
    vacc_res cf s g t x g1.
Proof.
  unfold vstepC, vstep_with. destruct (step_staleC cf s t x) as [s' evs] eqn:E. cbn [fst].
  exists (fold_left (fun g e => vacc g t (q1_stale s t x) e) evs g). split; [reflexivity|].
  rewrite fold_vacc_sevs. replace evs with (snd (step_staleC cf s t x)) by (rewrite E; reflexivity).
  destruct (q1_stale s t x) eqn:Hq.
  - destruct (q1_stale_Peek s t x Hq) as (c & a & k & rest & P).
    rewrite (peek_sevs cf s t x c a k rest P). cbn [fold_left]. rewrite vacc_stale.
    destruct (find_from (vh g c) 0 (vt g t c) (x - 2)) as [i|] eqn:Hf.
    + eapply vr_stale; [exact P|exact Hf|reflexivity].
    + eapply vr_stale_none; [exact P|exact Hf|reflexivity].
  - rewrite (q1_stale_false cf s t x Hq).
    destruct (step_sstep cf s t x) as [H1 H2|c op o fo ok H1 H2 H3|c op o fo new H1 H2 H3 H4 H5 H6]; rewrite H1; cbn [fold_left].
    + apply vr_none; [exact Hq|reflexivity|exact H2].
    + destruct H2 as [[-> ->]|[-> ->]].
      * rewrite vacc_load. eapply vr_read; [exact Hq|reflexivity|exact H3].
      * rewrite vacc_casfail. eapply vr_read; [exact Hq|reflexivity|exact H3].
    + rewrite (vacc_write g t false c op o fo _ new H2 H3 H4). eapply vr_write; [exact Hq|reflexivity|exact H5|exact H6].
Qed.
