(** * ASModel.StaleCInv12 — along a run of [vstepC]: the view invariant [VInvA], the history of a
    storage ends with its content ([HistOK]), histories only grow by appending and views only
    grow ([vgrow], [vt_mono], [vh_prefix]).

    [HistOK] is stated for the containers that no program consumes ([Hist.never_consumed]): the
    CMD step of [CIntoInner] / [CDropStore] clears the storage by a plain write that is no event
    (the container is never accessed again). *)
From Coq Require Import Lia.
From ASModel Require Import Base State Orderings_gen Step Run Progress Hist Inv InvTl InvProto InvStep Sum StepCases.
From ASModel Require Import Lin1 LinCache2 Stale2 StaleC StaleCView.
From ASModel Require Import StaleCInv1 StaleCInv3 StaleCInv5 StaleCInv6 StaleCInv9 StaleCInv10 StaleCInv11.

Definition HistOK (s : state) (g : vghost) : Prop :=
  forall c, never_consumed c s -> last (vh g c) 0 = mem (sh s) (LStore c).

Definition vgrow (g g' : vghost) : Prop :=
  (forall c, exists l, vh g' c = vh g c ++ l) /\ (forall t c, (vt g t c <= vt g' t c)%nat).

Lemma vgrow_refl g : vgrow g g.
Proof. split; [intros c; exists []; rewrite app_nil_r; reflexivity|intros; lia]. Qed.

Lemma vgrow_trans g1 g2 g3 : vgrow g1 g2 -> vgrow g2 g3 -> vgrow g1 g3.
Proof.
  intros [A1 B1] [A2 B2]. split.
  - intros c. destruct (A1 c) as (l1 & E1). destruct (A2 c) as (l2 & E2). exists (l1 ++ l2). rewrite E2, E1, app_assoc. reflexivity.
  - intros t c. pose proof (B1 t c). pose proof (B2 t c). lia.
Qed.

Lemma vgrow_same_views g g' : same_views g g' -> vgrow g g'.
Proof. intros (E1 & E2 & _). split; [intros c; exists []; rewrite E1, app_nil_r; reflexivity|intros t c; rewrite E2; lia]. Qed.

Lemma rdg_grow g t c i a : vgrow g (rdg g t c i a).
Proof.
  split; [intros c'; exists []; rewrite app_nil_r; reflexivity|].
  intros t' c'. cbn [rdg vt]. unfold updN at 1. destruct (t' =? t) eqn:Et; [|lia]. apply N.eqb_eq in Et. subst t'.
  assert (H : (vt g t c' <= updN (vt g t) c (Nat.max (vt g t c) i) c')%nat).
  { unfold updN. destruct (N.eqb_spec c' c) as [->|_]; lia. }
  destruct a; [unfold vjoin; lia|exact H].
Qed.

Lemma wrg_grow g t c new : VInvA g -> vgrow g (wrg g t c new).
Proof.
  intros V. split.
  - intros c'. cbn [wrg vh]. unfold updN. destruct (N.eqb_spec c' c) as [->|_]; [eauto|exists []; rewrite app_nil_r; reflexivity].
  - intros t' c'. cbn [wrg vt]. unfold updN at 1. destruct (t' =? t) eqn:Et; [|lia]. apply N.eqb_eq in Et. subst t'.
    unfold updN. destruct (N.eqb_spec c' c) as [->|_]; [pose proof (va_t _ V t c); lia|unfold vjoin; lia].
Qed.

Lemma last_index_lt g c : VInvA g -> (length (vh g c) - 1 < length (vh g c))%nat.
Proof. intros V. pose proof (va_ne _ V c). destruct (vh g c); [congruence|cbn; lia]. Qed.

Section Step.
Variables (cf : config) (s : state) (g : vghost) (t x : N) (g1 : vghost).
Hypothesis V : VInvA g.
Hypothesis R : vacc_res cf s g t x g1.

Lemma vacc_res_VInvA : VInvA g1.
Proof.
  destruct R as [_ -> _|c a _ -> _|c new _ -> _ _|c a k rest i P Hf ->|c a k rest _ _ ->]; try exact V.
  - apply rdg_VInvA; [exact V|apply last_index_lt; exact V].
  - apply wrg_VInvA. exact V.
  - apply rdg_VInvA; [exact V|]. destruct (find_from_spec _ _ _ _ _ Hf) as (_ & H & _). lia.
Qed.

Lemma vacc_res_grow : vgrow g g1.
Proof.
  destruct R as [_ -> _|c a _ -> _|c new _ -> _ _|c a k rest i P Hf ->|c a k rest _ _ ->];
    try apply vgrow_refl; try apply rdg_grow. apply wrg_grow. exact V.
Qed.

Lemma vacc_res_HistOK : HistOK s g -> HistOK (fst (step_staleC cf s t x)) g1.
Proof.
  intros H c Hnc.
  assert (Hnc0 : never_consumed c s).
  { intros t' cm Hin. apply (Hnc t' cm). rewrite step_staleC_prog. exact Hin. }
  destruct R as [Hq -> Hm|c0 a Hq -> Hm|c0 new Hq -> Hm1 Hm2|c0 a k rest i P Hf ->|c0 a k rest P _ ->].
  - rewrite (q1_stale_false cf s t x Hq). destruct (Hm c) as [->|(_ & _ & cm & Hcm & Hic)]; [exact (H c Hnc0)|].
    exfalso. apply nth_error_In in Hcm. rewrite (Hnc0 t cm Hcm) in Hic. discriminate.
  - rewrite (q1_stale_false cf s t x Hq), Hm. exact (H c Hnc0).
  - rewrite (q1_stale_false cf s t x Hq). cbn [wrg vh]. unfold updN. destruct (N.eqb_spec c c0) as [->|Hne].
    + rewrite last_last. symmetry. exact Hm1.
    + rewrite (Hm2 c Hne). exact (H c Hnc0).
  - rewrite (stale_peek_sh cf s t x (peek_q1_stale _ _ _ _ _ _ _ P)). exact (H c Hnc0).
  - rewrite (stale_peek_sh cf s t x (peek_q1_stale _ _ _ _ _ _ _ P)). exact (H c Hnc0).
Qed.
End Step.

(** ** One instrumented step *)
Lemma vstepC_VInvA cf s g t x : VInvA g -> VInvA (snd (vstepC cf (s, g) t x)).
Proof.
  intros V. destruct (vstepC_ghost cf s g t x) as (g1 & -> & R). cbn [snd].
  eapply same_views_VInvA; [apply vcache_same_views|]. exact (vacc_res_VInvA cf s g t x g1 V R).
Qed.

Lemma vstepC_grow cf s g t x : VInvA g -> vgrow g (snd (vstepC cf (s, g) t x)).
Proof.
  intros V. destruct (vstepC_ghost cf s g t x) as (g1 & -> & R). cbn [snd].
  eapply vgrow_trans; [exact (vacc_res_grow cf s g t x g1 V R)|]. apply vgrow_same_views. apply vcache_same_views.
Qed.

Lemma vstepC_HistOK cf s g t x :
  VInvA g -> HistOK s g -> HistOK (fst (vstepC cf (s, g) t x)) (snd (vstepC cf (s, g) t x)).
Proof.
  intros V H. destruct (vstepC_ghost cf s g t x) as (g1 & -> & R). cbn [fst snd].
  pose proof (vacc_res_HistOK cf s g t x g1 R H) as H1.
  destruct (vcache_same_views g1 s (fst (step_staleC cf s t x)) t (q1_read_idx g s t x)) as (E & _).
  intros c Hc. rewrite E. exact (H1 c Hc).
Qed.

(** ** Runs *)
Section Run.
Variables (cf : config) (s0 : state) (sched : list (N * N)).
Local Notation St k := (StC cf s0 sched k).
Local Notation Gh k := (GC cf s0 sched k).

Theorem run_VInvA k : VInvA (Gh k).
Proof.
  induction k as [|k IH]; [apply VInvA_init|]. unfold GC.
  destruct (nth_error sched k) as [[t x]|] eqn:Hk.
  - rewrite (SC_step _ _ _ _ _ _ Hk), SC_pair. apply vstepC_VInvA. exact IH.
  - rewrite (SC_end _ _ _ _ Hk). exact IH.
Qed.

Theorem run_HistOK k : HistOK (St k) (Gh k).
Proof.
  induction k as [|k IH].
  - intros c _. reflexivity.
  - unfold StC, GC. destruct (nth_error sched k) as [[t x]|] eqn:Hk.
    + rewrite (SC_step _ _ _ _ _ _ Hk), SC_pair. apply vstepC_HistOK; [apply run_VInvA|exact IH].
    + rewrite (SC_end _ _ _ _ Hk). exact IH.
Qed.

Lemma run_grow_succ k : vgrow (Gh k) (Gh (S k)).
Proof.
  unfold GC at 2. destruct (nth_error sched k) as [[t x]|] eqn:Hk.
  - rewrite (SC_step _ _ _ _ _ _ Hk), SC_pair. apply vstepC_grow. apply run_VInvA.
  - rewrite (SC_end _ _ _ _ Hk). apply vgrow_refl.
Qed.

Theorem run_grow k k' : (k <= k')%nat -> vgrow (Gh k) (Gh k').
Proof.
  induction 1 as [|k' _ IH]; [apply vgrow_refl|]. eapply vgrow_trans; [exact IH|apply run_grow_succ].
Qed.

(** Item 3: views only grow, histories only grow by appending. *)
Corollary vt_mono k k' t c : (k <= k')%nat -> (vt (Gh k) t c <= vt (Gh k') t c)%nat.
Proof. intros H. exact (proj2 (run_grow k k' H) t c). Qed.

Corollary vh_prefix k k' c : (k <= k')%nat -> exists l, vh (Gh k') c = vh (Gh k) c ++ l.
Proof. intros H. exact (proj1 (run_grow k k' H) c). Qed.

Corollary vh_nth_mono k k' c i v : (k <= k')%nat -> nth_error (vh (Gh k) c) i = Some v -> nth_error (vh (Gh k') c) i = Some v.
Proof.
  intros H Hn. destruct (vh_prefix k k' c H) as (l & ->). rewrite nth_error_app1; [exact Hn|].
  apply nth_error_Some. congruence.
Qed.

Corollary vh_length_mono k k' c : (k <= k')%nat -> (length (vh (Gh k) c) <= length (vh (Gh k') c))%nat.
Proof. intros H. destruct (vh_prefix k k' c H) as (l & ->). rewrite app_length. lia. Qed.

(** The content of a never consumed container at position [k] is the last entry of its history at
    [k], hence an entry of every later history, at an index not below the length at any earlier
    position. *)
Corollary mem_in_history k k' c :
  never_consumed c s0 -> (k <= k')%nat ->
  nth_error (vh (Gh k') c) (length (vh (Gh k) c) - 1) = Some (mem (sh (St k)) (LStore c)).
Proof.
  intros Hnc Hk. apply (vh_nth_mono k k' c _ _ Hk).
  assert (Hnc' : never_consumed c (St k)) by (intros t cm; rewrite StC_prog; apply Hnc).
  rewrite <- (run_HistOK k c Hnc'). pose proof (va_ne _ (run_VInvA k) c) as Hne.
  destruct (vh (Gh k) c) as [|y l] using rev_ind; [congruence|].
  rewrite last_last, app_length. cbn. rewrite nth_error_app2 by lia.
  replace (length l + 1 - 1 - length l)%nat with 0%nat by lia. reflexivity.
Qed.
End Run.
