(** * ASModel.StaleCInv13 — the linearization ghost of [LinDefs] along a run of [step_staleC]; a
    stale peek preserves [LinInv2].

    The ghost ([g_lt c v]: the last instant at which [v] was the content of [c], ...) is advanced by
    [gnext] exactly as [LinDefs.gstep] does, from the state before and after the step.  A stale
    peek changes no memory; the acting thread ends with an empty stack (hit) or with the frames of
    a load that carry no value yet (miss). *)
From Coq Require Import Lia.
From ASModel Require Import Base State Orderings_gen Step Run Progress Hist Inv InvTl InvProto InvStep Sum StepCases
  GenDefs Gen1 Gen2 Gen3 Gen EnvDefs LinDefs Lin1 Lin2 Lin3 Lin4 Lin5 Lin6 Lin7 Lin8 Lin9 Lin10 Lin11 Lin12 Lin13 Lin14 Lin.
From ASModel Require Import CchDefs CchAcc CchCmd CchMain.
From ASModel Require Import Stale2 StaleC StaleCInv1 StaleCInv2 StaleCInv3 StaleCInv4 StaleCInv5 StaleCInv7 StaleCInv8 StaleCInv11.

Definition gnext (s s' : state) (g : ghost) (t : N) : ghost :=
  mkGhost (S (g_now g))
    (fun c v => if mem (sh s') (LStore c) =? v then S (g_now g) else g_lt g c v)
    (fun t' => if (t' =? t) && starts_now s t then S (g_now g) else g_start g t')
    (fun n => match publishes_now s t with
              | Some n' => if n =? n' then S (g_now g) else g_pub g n
              | None => g_pub g n
              end).

Lemma gstep_gnext cf s g t x : gstep cf (s, g) t x = (fst (step cf s t x), gnext s (fst (step cf s t x)) g t).
Proof. reflexivity. Qed.

Definition gstepC (cf : config) (sg : state * ghost) (t x : N) : state * ghost :=
  (fst (step_staleC cf (fst sg) t x), gnext (fst sg) (fst (step_staleC cf (fst sg) t x)) (snd sg) t).

Lemma gstepC_nonstale cf s g t x : q1_stale s t x = false -> gstepC cf (s, g) t x = gstep cf (s, g) t x.
Proof. intros H. unfold gstepC. cbn [fst snd]. rewrite (q1_stale_false cf s t x H). reflexivity. Qed.

(** The frames of a load call. *)
Lemma enter_load_frames cf l c l' fs :
  enter_load cf l c = inl (l', fs) ->
  forall f, In f fs -> f = GHead \/ f = WGetLoad c \/ f = LA1 c \/ f = LH0d c \/ exists gt, f = LH1 c gt.
Proof.
  unfold enter_load, load_body, fallback_entry. intros H f Hin. destruct (tl_node l) eqn:Hn.
  - cbn [tl_node tl_set_depth] in H. rewrite Hn in H.
    destruct (cf_use_fast cf); [|destruct (cf_debug cf)]; injection H as _ <-; destruct Hin as [<-|[]]; eauto 6.
  - injection H as _ <-. destruct Hin as [<-|[<-|[]]]; auto.
Qed.

Section PeekLin.
Variables (cf : config) (s : state) (g : ghost) (t x c a k : N) (rest : list pc).
Hypothesis P : Peek s t x c a k rest.
Hypothesis QS : QShape s.
Hypothesis LI : LinInv2 s g.
Local Notation s' := (fst (step_staleC cf s t x)).
Local Notation g' := (gnext s s' g t).

Lemma pl_starts : starts_now s t = false.
Proof. unfold starts_now. rewrite (pk_run _ _ _ _ _ _ _ P), (pk_stk _ _ _ _ _ _ _ P). reflexivity. Qed.

Lemma pl_pub : publishes_now s t = None.
Proof. unfold publishes_now. rewrite (pk_run _ _ _ _ _ _ _ P), (pk_stk _ _ _ _ _ _ _ P). reflexivity. Qed.

Lemma pl_sh : sh s' = sh s.
Proof. apply stale_peek_sh. exact (peek_q1_stale _ _ _ _ _ _ _ P). Qed.

Lemma pl_start t' : g_start g' t' = g_start g t'.
Proof. cbn [gnext g_start]. rewrite pl_starts, andb_false_r. reflexivity. Qed.

Lemma pl_pubs n : g_pub g' n = g_pub g n.
Proof. cbn [gnext g_pub]. rewrite pl_pub. reflexivity. Qed.

Lemma pl_lt_mono c0 v : (g_lt g c0 v <= g_lt g' c0 v)%nat.
Proof.
  cbn [gnext g_lt]. destruct (l2_fresh _ _ LI) as (_ & H & _). specialize (H c0 v). destruct (_ =? _); lia.
Qed.

Lemma pl_other t' : t' <> t -> thr s' t' = thr s t'.
Proof. intros H. rewrite (peek_state cf s t x c a k rest P). cbn [thr]. apply upd_other. exact H. Qed.

(** The acting thread afterwards. *)
Lemma pl_self :
  (t_stack (thr s' t) = [] /\ t_status (thr s' t) = Running) \/
  (exists l' fs, enter_load cf (t_loc (thr s t)) c = inl (l', fs) /\
     thr s' t = mkThread (fs ++ [WLoadFull; WCacheReload c a k; KCacheDone c k]) l'
                         (t_prog (thr s t)) (t_cmdi (thr s t)) Running).
Proof.
  destruct (peek_explicit cf s t x c a k rest QS P) as [_ E|l' fs _ He E]; rewrite E; cbn [thr]; rewrite upd_same.
  - left. split; reflexivity.
  - right. eauto.
Qed.

Lemma pl_req_none : req_of (thr s' t) = None.
Proof.
  rewrite req_of_top. destruct pl_self as [[E _]|(l' & fs & He & E)]; rewrite E; [reflexivity|]. cbn [t_stack].
  destruct (enter_load_call _ _ _ _ _ He) as [Hcs Hne]. pose proof (call_shape_req _ _ _ Hcs) as Hq.
  destruct fs as [|f fs]; [congruence|]. exact Hq.
Qed.

Lemma pl_frames f : In f (t_stack (thr s' t)) ->
  f = GHead \/ f = WGetLoad c \/ f = LA1 c \/ f = LH0d c \/ (exists gt, f = LH1 c gt) \/
  f = WLoadFull \/ f = WCacheReload c a k \/ f = KCacheDone c k.
Proof.
  destruct pl_self as [[E _]|(l' & fs & He & E)]; rewrite E; [intros []|]. cbn [t_stack]. intros Hin.
  apply in_app_or in Hin as [Hin|[<-|[<-|[<-|[]]]]]; auto 10.
  destruct (enter_load_frames _ _ _ _ _ He f Hin) as [->|[->|[->|[->|H]]]]; auto 10.
Qed.

Lemma pl_LtFresh : LtFresh s' g'.
Proof.
  destruct (l2_fresh _ _ LI) as (_ & H2 & H3 & H4). split; [|split; [|split]].
  - intros c0. cbn [gnext g_lt g_now]. rewrite N.eqb_refl. reflexivity.
  - intros c0 v. cbn [gnext g_lt g_now]. specialize (H2 c0 v). destruct (_ =? _); lia.
  - intros t'. rewrite pl_start. cbn [gnext g_now]. specialize (H3 t'). lia.
  - intros n. rewrite pl_pubs. cbn [gnext g_now]. specialize (H4 n). lia.
Qed.
End PeekLin.
