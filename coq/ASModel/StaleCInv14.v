(** * ASModel.StaleCInv14 — a stale peek preserves [LinInv2] (continued): the eight parts. *)
From Coq Require Import Lia.
From ASModel Require Import Base State Orderings_gen Step Run Progress Hist Inv InvTl InvProto InvStep Sum StepCases
  GenDefs Gen1 Gen2 Gen3 Gen EnvDefs LinDefs Lin1 Lin2 Lin3 Lin4 Lin5 Lin6 Lin7 Lin8 Lin9 Lin10 Lin11 Lin12 Lin13 Lin14 Lin.
From ASModel Require Import Stale2 StaleC StaleCInv1 StaleCInv3 StaleCInv7 StaleCInv8 StaleCInv11 StaleCInv13.

Section PeekLin2.
Variables (cf : config) (s : state) (g : ghost) (t x c a k : N) (rest : list pc).
Hypothesis P : Peek s t x c a k rest.
Hypothesis QS : QShape s.
Hypothesis LI : LinInv2 s g.
Local Notation s' := (fst (step_staleC cf s t x)).
Local Notation g' := (gnext s s' g t).
Local Notation oth := (pl_other cf s t x c a k rest P).
Local Notation self := (pl_self cf s t x c a k rest P QS).

Lemma pl_stack : t_stack (thr s t) = [Q1 c a k; KCacheDone c k].
Proof. rewrite (pk_stk _ _ _ _ _ _ _ P), (peek_rest s t x c a k rest QS P). reflexivity. Qed.

Lemma pl_cur t' : t_stack (thr s' t') <> [] -> cur_cmd s' t' = cur_cmd s t'.
Proof.
  intros Hne. destruct (N.eq_dec t' t) as [->|H]; [|apply cur_cmd_thr; apply oth; exact H].
  destruct self as [[E _]|(l' & fs & _ & E)]; [congruence|]. unfold cur_cmd. rewrite E. reflexivity.
Qed.

Lemma pl_ContAll : ContAll s'.
Proof.
  intros t' c0 Hc. destruct (N.eq_dec t' t) as [->|H].
  2:{ rewrite (oth t' H). apply (l2_cont _ _ LI t' c0). unfold cur_cont0 in *. rewrite (cur_cmd_thr s s' t' (oth t' H)) in Hc. exact Hc. }
  destruct self as [[E _]|(l' & fs & He & E)]; [rewrite E; constructor|].
  assert (Hc0 : cur_cont0 s t = Some c0).
  { unfold cur_cont0 in *. rewrite pl_cur in Hc; [exact Hc|]. rewrite E. cbn. destruct fs; discriminate. }
  pose proof (l2_cont _ _ LI t c0 Hc0) as Hall. rewrite pl_stack in Hall.
  assert (Ec : c = c0) by (inversion Hall as [|? ? H1 _]; subst; apply H1; reflexivity). subst c0.
  apply Forall_forall. intros f Hin c1 Hc1.
  destruct (pl_frames cf s t x c a k rest P QS f Hin) as [->|[->|[->|[->|[(gt & ->)|[->|[->| ->]]]]]]]; cbn in Hc1; congruence.
Qed.

Lemma pl_ContPair : ContPair s'.
Proof.
  intros t' f1 f2 c1 c2 H1 H2 E1 E2. destruct (N.eq_dec t' t) as [->|H].
  { assert (Hx : forall f c0, In f (t_stack (thr s' t)) -> pc_cont f = Some c0 -> c0 = c).
    { intros f c0 Hin Hc0.
      destruct (pl_frames cf s t x c a k rest P QS f Hin) as [->|[->|[->|[->|[(gt & ->)|[->|[->| ->]]]]]]]; cbn in Hc0; congruence. }
    rewrite (Hx f1 c1 H1 E1), (Hx f2 c2 H2 E2). reflexivity. }
  rewrite (oth t' H) in H1, H2. exact (l2_pair _ _ LI t' f1 f2 c1 c2 H1 H2 E1 E2).
Qed.

Lemma pl_LdBot : LdBot s'.
Proof.
  intros t' cm h Hcm Hd. destruct (N.eq_dec t' t) as [->|H].
  2:{ rewrite (oth t' H). apply (l2_bot _ _ LI t' cm h); [|exact Hd]. rewrite <- (cur_cmd_thr s s' t' (oth t' H)). exact Hcm. }
  destruct self as [[E _]|(l' & fs & He & E)]; [left; exact E|exfalso].
  assert (Hcm0 : cur_cmd s t = Some cm).
  { rewrite <- pl_cur; [exact Hcm|]. rewrite E. cbn. destruct fs; discriminate. }
  destruct (l2_bot _ _ LI t cm h Hcm0 Hd) as [Hx|(pre & Hpre)]; rewrite pl_stack in *; [discriminate|].
  change [Q1 c a k; KCacheDone c k] with ([Q1 c a k] ++ [KCacheDone c k]) in Hpre.
  apply app_inj_tail in Hpre as [_ Hx]. discriminate.
Qed.

Lemma pl_Fr_mono t' v : t' <> t -> Fr s g t' v -> Fr s' g' t' v.
Proof.
  intros H HF c0 Hn. rewrite !(pl_start cf s g t x c a k rest P). pose proof (pl_lt_mono cf s g t x LI c0 v).
  specialize (HF c0 (named_thr s s' t' c0 (oth t' H) Hn)). lia.
Qed.

Lemma pl_ZoneInv : ZoneInv s' g'.
Proof.
  intros t'. destruct (N.eq_dec t' t) as [->|H].
  2:{ destruct (l2_zone _ _ LI t') as [Z1 Z2].
      assert (Hld : ld s' t' = ld s t') by (unfold ld; rewrite (cur_cmd_thr s s' t' (oth t' H)); reflexivity).
      rewrite Hld, (oth t' H). split.
      - eapply ZI_mono; [|exact Z1]. intros v. apply pl_Fr_mono. exact H.
      - intros cand e rest0 Hs7. rewrite (pl_sh cf s t x c a k rest P). apply pl_Fr_mono; [exact H|]. eapply Z2. exact Hs7. }
  destruct self as [[E _]|(l' & fs & He & E)]; [rewrite E; split; [exact I|discriminate]|].
  assert (Hld : ld s' t = false).
  { assert (Hcm : cur_cmd s' t = cur_cmd s t) by (apply pl_cur; rewrite E; cbn; destruct fs; discriminate).
    unfold ld. rewrite Hcm. destruct (l2_zone _ _ LI t) as [Z1 _]. rewrite pl_stack in Z1. cbn in Z1.
    destruct Z1 as [Z1 _]. fold (ld s t). destruct (ld s t) eqn:Hl; [|reflexivity].
    destruct (Z1 (or_introl eq_refl)) as [Hx _]. discriminate Hx. }
  rewrite Hld, E. cbn [t_stack]. destruct (enter_load_call _ _ _ _ _ He) as [Hcs Hne]. split.
  - apply ZI_hfree. rewrite hfree_app, (call_shape_hfree _ _ _ Hcs). reflexivity.
  - intros cand e rest0 Hs7. exfalso. pose proof (enter_load_fok _ _ _ _ _ He) as Hf.
    destruct fs as [|f0 fs]; [congruence|]. injection Hs7 as -> _. inversion Hf as [|? ? [Hx _] _]. discriminate Hx.
Qed.

Lemma pl_PubFresh : PubFresh s' g'.
Proof.
  intros t' n Hr Ho Hq. destruct (N.eq_dec t' t) as [->|H].
  - exfalso. apply Hq. exact (pl_req_none cf s t x c a k rest P QS).
  - rewrite (oth t' H) in Hr, Ho, Hq. rewrite !(pl_start cf s g t x c a k rest P), !(pl_pubs cf s g t x c a k rest P). exact (l2_pub _ _ LI t' n Hr Ho Hq).
Qed.

Lemma pl_req_other th w c' gt :
  owner (thr s' th) = Some w -> req_of (thr s' th) = Some (c', gt) ->
  th <> t /\ owner (thr s th) = Some w /\ req_of (thr s th) = Some (c', gt).
Proof.
  intros Ho Hq. destruct (N.eq_dec th t) as [->|H].
  - rewrite (pl_req_none cf s t x c a k rest P QS) in Hq. discriminate.
  - rewrite (oth th H) in Ho, Hq. auto.
Qed.

Lemma pl_HelpFresh : HelpFresh s' g'.
Proof.
  intros t' f Hin. destruct (N.eq_dec t' t) as [->|H].
  - destruct (pl_frames cf s t x c a k rest P QS f Hin) as [->|[->|[->|[->|[(gt & ->)|[->|[->| ->]]]]]]];
      split; intros; discriminate.
  - rewrite (oth t' H) in Hin. destruct (l2_help _ _ LI t' f Hin) as [H1 H2]. split.
    + intros c0 w ctl Hc th c' Ho Hq. destruct (pl_req_other th w c' ctl Ho Hq) as (_ & Ho' & Hq').
      rewrite !(pl_start cf s g t x c a k rest P), !(pl_pubs cf s g t x c a k rest P). exact (H1 c0 w ctl Hc th c' Ho' Hq').
    + intros c0 w ctl r Hl. rewrite !(pl_start cf s g t x c a k rest P). pose proof (pl_lt_mono cf s g t x LI c0 r).
      specialize (H2 c0 w ctl r Hl). lia.
Qed.

Lemma pl_Answered : Answered s' g'.
Proof.
  intros w th c' gt Ho Hq Htag. destruct (pl_req_other th w c' gt Ho Hq) as (_ & Ho' & Hq').
  rewrite (pl_sh cf s t x c a k rest P) in *. rewrite !(pl_pubs cf s g t x c a k rest P).
  pose proof (l2_ans _ _ LI w th c' gt Ho' Hq' Htag) as H.
  pose proof (pl_lt_mono cf s g t x LI c' (mem (sh s) (LEnv (env_of (mem (sh s) (LCtrl w) - N.land (mem (sh s) (LCtrl w)) TAG_MASK))))).
  lia.
Qed.

Theorem peek_LinInv2 : LinInv2 s' g'.
Proof.
  constructor.
  - exact (pl_LtFresh cf s g t x c a k rest P LI).
  - exact pl_ContAll.
  - exact pl_ContPair.
  - exact pl_LdBot.
  - exact pl_ZoneInv.
  - exact pl_PubFresh.
  - exact pl_HelpFresh.
  - exact pl_Answered.
Qed.
End PeekLin2.
