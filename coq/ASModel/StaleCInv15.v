(** * ASModel.StaleCInv15 — [LinInv3] (the linearization invariant with the cache zones) and [QShape]
    hold in every state of a run of [step_staleC] within [RunOKSC]; the ghost's instants are
    positions of the run ([ltC_sound]). *)
From Coq Require Import Lia.
From ASModel Require Import Base State Orderings_gen Step Run Progress Hist Inv InvTl InvProto InvStep Sum StepCases
  GenDefs Gen1 Gen2 Gen3 Gen EnvDefs Env LinDefs Lin1 Lin2 Lin3 Lin4 Lin5 Lin6 Lin7 Lin8 Lin9 Lin10 Lin11 Lin12 Lin13 Lin14 Lin
  LinCache1 LinCache2 LinCache3 LinCache4.
From ASModel Require Import CchDefs CchAcc CchCmd CchMain.
From ASModel Require Import Stale2 StaleC StaleCView StaleCInv1 StaleCInv3 StaleCInv5 StaleCInv6 StaleCInv7 StaleCInv8 StaleCInv11 StaleCInv13 StaleCInv14.

Section PeekZone.
Variables (cf : config) (s : state) (g : ghost) (t x c a k : N) (rest : list pc).
Hypothesis P : Peek s t x c a k rest.
Hypothesis QS : QShape s.
Hypothesis LI : LinInv2 s g.
Local Notation s' := (fst (step_staleC cf s t x)).
Local Notation g' := (gnext s s' g t).

Lemma pl_PC_mono t' c0 v : PC g t' c0 v -> PC g' t' c0 v.
Proof.
  unfold PC. rewrite (pl_start cf s g t x c a k rest P). pose proof (pl_lt_mono cf s g t x LI c0 v). lia.
Qed.

Theorem peek_CacheZone : CacheZone s g -> CacheZone s' g'.
Proof.
  intros CZV t' cm k0 Hr Hcm Hk. destruct (N.eq_dec t' t) as [->|H].
  - destruct (pl_self cf s t x c a k rest P QS) as [[E _]|(l' & fs & He & E)]; [left; exact E|right].
    assert (Hcm0 : cur_cmd s t = Some cm).
    { rewrite <- (pl_cur cf s t x c a k rest P QS t); [exact Hcm|]. rewrite E. cbn. destruct fs; discriminate. }
    destruct (CZV t cm k0 (pk_run _ _ _ _ _ _ _ P) Hcm0 Hk) as [Hx|(c0 & H1 & _)].
    { rewrite (pl_stack s t x c a k rest P QS) in Hx. discriminate. }
    destruct (CZ_last _ _ _ _ H1) as (pre & Hpre). rewrite (pl_stack s t x c a k rest P QS) in Hpre.
    change [Q1 c a k; KCacheDone c k] with ([Q1 c a k] ++ [KCacheDone c k]) in Hpre.
    apply app_inj_tail in Hpre as [_ [= <- <-]].
    exists c. rewrite E. cbn [t_stack]. split.
    + right. eapply LZ_load; [exact He|right; eauto].
    + intros cand e rest0 Hs7. exfalso. destruct (enter_load_call _ _ _ _ _ He) as [_ Hne].
      pose proof (enter_load_fok _ _ _ _ _ He) as Hf.
      destruct fs as [|f0 fs]; [congruence|]. injection Hs7 as -> _. inversion Hf as [|? ? [Hx _] _]. discriminate Hx.
  - pose proof (pl_other cf s t x c a k rest P t' H) as Eo. rewrite Eo in Hr |- *.
    rewrite (cur_cmd_thr s s' t' Eo) in Hcm.
    destruct (CZV t' cm k0 Hr Hcm Hk) as [Hx|(c0 & H1 & H2)]; [left; exact Hx|right].
    exists c0. split.
    + eapply CZ_mono; [|exact H1]. intros v. apply pl_PC_mono.
    + intros cand e rest0 Hs7. rewrite (pl_sh cf s t x c a k rest P). apply pl_PC_mono. eapply H2. exact Hs7.
Qed.
End PeekZone.

Theorem gstepC_LinInv3 cf s g t x :
  WF2 s -> Calm s -> Quiet s -> GenInv s -> EnvFree s -> EnvA s -> QShape s -> LinInv3 s g ->
  NoFault (fst (step_staleC cf s t x)) ->
  LinInv3 (fst (gstepC cf (s, g) t x)) (snd (gstepC cf (s, g) t x)).
Proof.
  intros W Hc Q GI EF EA QS [LI CZV] Hnf. destruct (q1_stale s t x) eqn:Hq.
  - destruct (q1_stale_Peek s t x Hq) as (c & a & k & rest & P). unfold gstepC. cbn [fst snd]. split.
    + exact (peek_LinInv2 cf s g t x c a k rest P QS LI).
    + exact (peek_CacheZone cf s g t x c a k rest P QS LI CZV).
  - rewrite (gstepC_nonstale cf s g t x Hq). rewrite (q1_stale_false cf s t x Hq) in Hnf.
    apply gstep_LinInv3; try assumption. split; assumption.
Qed.

(** ** Runs *)
Definition LC (cf : config) (s0 : state) (sched : list (N * N)) (k : nat) : state * ghost :=
  fold_left (fun sg tx => gstepC cf sg (fst tx) (snd tx)) (firstn k sched) (s0, ghost0).
Definition GhC (cf : config) (s0 : state) (sched : list (N * N)) (k : nat) : ghost := snd (LC cf s0 sched k).

Lemma LC_step cf s0 sched k t x :
  nth_error sched k = Some (t, x) -> LC cf s0 sched (S k) = gstepC cf (LC cf s0 sched k) t x.
Proof. intros H. unfold LC. rewrite (firstn_succ_nth _ _ _ H), fold_left_app. reflexivity. Qed.

Lemma LC_end cf s0 sched k : nth_error sched k = None -> LC cf s0 sched (S k) = LC cf s0 sched k.
Proof. intros H. apply nth_error_None in H. unfold LC. rewrite !firstn_all2 by lia. reflexivity. Qed.

Lemma LC_fst cf s0 sched k : fst (LC cf s0 sched k) = StC cf s0 sched k.
Proof.
  induction k as [|k IH]; [reflexivity|]. destruct (nth_error sched k) as [[t x]|] eqn:Hk.
  - rewrite (LC_step _ _ _ _ _ _ Hk), (StC_step _ _ _ _ _ _ Hk). unfold gstepC. cbn [fst]. rewrite IH. reflexivity.
  - rewrite (LC_end _ _ _ _ Hk), (StC_end _ _ _ _ Hk). exact IH.
Qed.

Lemma LC_pair cf s0 sched k : LC cf s0 sched k = (StC cf s0 sched k, GhC cf s0 sched k).
Proof. rewrite <- LC_fst. unfold GhC. destruct (LC cf s0 sched k); reflexivity. Qed.

Lemma GhC_step cf s0 sched k t x :
  nth_error sched k = Some (t, x) ->
  GhC cf s0 sched (S k) = gnext (StC cf s0 sched k) (StC cf s0 sched (S k)) (GhC cf s0 sched k) t.
Proof.
  intros H. unfold GhC at 1. rewrite (LC_step _ _ _ _ _ _ H), LC_pair. unfold gstepC. cbn [fst snd].
  rewrite (StC_step _ _ _ _ _ _ H). reflexivity.
Qed.

Lemma GhC_end cf s0 sched k : nth_error sched k = None -> GhC cf s0 sched (S k) = GhC cf s0 sched k.
Proof. intros H. unfold GhC. rewrite (LC_end _ _ _ _ H). reflexivity. Qed.

Lemma GhC_now cf s0 sched k : (k <= length sched)%nat -> g_now (GhC cf s0 sched k) = k.
Proof.
  induction k as [|k IH]; intros Hk; [reflexivity|].
  destruct (nth_error sched k) as [[t x]|] eqn:Hn; [|apply nth_error_None in Hn; lia].
  rewrite (GhC_step _ _ _ _ _ _ Hn). cbn [gnext g_now]. rewrite IH by lia. reflexivity.
Qed.

(** [g_lt] names a position of the run at which the container held the value. *)
Theorem ltC_sound cf s0 sched c v : forall k,
  (k <= length sched)%nat ->
  let j := g_lt (GhC cf s0 sched k) c v in
  (j <= k)%nat /\ ((j > 0)%nat -> mem (sh (StC cf s0 sched j)) (LStore c) = v).
Proof.
  induction k as [|k IH]; intros Hk; cbn zeta; [cbn; split; [lia|intros; lia]|].
  destruct (nth_error sched k) as [[t x]|] eqn:Hn; [|apply nth_error_None in Hn; lia].
  rewrite (GhC_step _ _ _ _ _ _ Hn). cbn [gnext g_lt]. rewrite (GhC_now cf s0 sched k) by lia.
  destruct (N.eqb_spec (mem (sh (StC cf s0 sched (S k))) (LStore c)) v) as [E|E].
  - split; [lia|]. intros _. exact E.
  - destruct (IH ltac:(lia)) as [I1 I2]. split; [lia|exact I2].
Qed.

Section Run.
Variables (cf : config) (inits : list N) (progs : list (list cmd)) (sched : list (N * N)).
Hypothesis R : RunOKSC cf inits progs sched.
Local Notation s0 := (init_state inits progs).

Lemma RunOKSC_Calm k : Calm (StC cf s0 sched k).
Proof.
  apply Calm_split. split; [apply (rsc_state _ _ _ _ R k)|]. apply (RunOKSC_ProgOKC _ _ _ _ R k).
Qed.

Theorem RunOKSC_QShape k : QShape (StC cf s0 sched k).
Proof.
  induction k as [|k IH]; [apply QShape_init|].
  destruct (nth_error sched k) as [[t x]|] eqn:Hk; [|rewrite (StC_end _ _ _ _ Hk); exact IH].
  pose proof (RunOKSC_MasterC _ _ _ _ R k) as M. pose proof (RunOKSC_MasterC _ _ _ _ R (S k)) as M1.
  rewrite (StC_step _ _ _ _ _ _ Hk) in M1 |- *.
  apply step_staleC_QShape; [apply M|apply (ai_typed _ (mc_acc _ M))|apply M1|exact IH].
Qed.

Theorem RunOKSC_LinInv3 k : LinInv3 (StC cf s0 sched k) (GhC cf s0 sched k).
Proof.
  induction k as [|k IH]; [apply LinInv3_init|].
  destruct (nth_error sched k) as [[t x]|] eqn:Hk.
  2:{ rewrite (StC_end _ _ _ _ Hk), (GhC_end _ _ _ _ Hk). exact IH. }
  pose proof (RunOKSC_MasterC _ _ _ _ R k) as M. pose proof (RunOKSC_MasterC _ _ _ _ R (S k)) as M1.
  pose proof (MasterC_EnvInvQ _ M) as EQ.
  rewrite (StC_step _ _ _ _ _ _ Hk) in M1.
  pose proof (gstepC_LinInv3 cf (StC cf s0 sched k) (GhC cf s0 sched k) t x (mc_wf _ M) (RunOKSC_Calm k) (mc_quiet _ M)
                (mc_gen _ M) (EnvInvQ_EnvFree _ EQ) (EnvInvQ_EnvA _ EQ) (RunOKSC_QShape k) IH (mc_nofault _ M1)) as H.
  rewrite <- LC_pair, <- (LC_step _ _ _ _ _ _ Hk), LC_pair in H. exact H.
Qed.
End Run.
