(** * ASModel.StaleCInv16 — facts about runs of [step_staleC]: command indices only grow, stopped
    threads stay stopped, a thread inside a command started it at a positive instant
    ([StartPos]); the step that completes a cache command ([cache_completes]). *)
From Coq Require Import Lia.
From ASModel Require Import Base State Orderings_gen Step Run Progress Hist Inv InvTl InvProto InvStep Sum StepCases
  GenDefs Gen1 Gen2 Gen3 Gen EnvDefs Env LinDefs Lin1 Lin2 Lin3 Lin4 Lin5 Lin6 Lin7 Lin8 Lin9 Lin10 Lin11 Lin12 Lin13 Lin14 Lin
  LinCache1 LinCache2 LinCache3 LinCache4 LinCache5 LinCache6.
From ASModel Require Import CchDefs CchAcc CchCmd CchMain.
From ASModel Require Import Stale2 StaleC StaleCView StaleCInv1 StaleCInv3 StaleCInv5 StaleCInv6 StaleCInv7 StaleCInv8
  StaleCInv11 StaleCInv13 StaleCInv14 StaleCInv15.

Lemma step_staleC_cmdi_mono cf s t0 x t : t_cmdi (thr s t) <= t_cmdi (thr (fst (step_staleC cf s t0 x)) t).
Proof.
  destruct (q1_stale s t0 x) eqn:Hq; [|rewrite (q1_stale_false cf s t0 x Hq); apply step_cmdi_mono].
  destruct (q1_stale_Peek s t0 x Hq) as (c & a & k & rest & P).
  rewrite (peek_state cf s t0 x c a k rest P). cbn [thr]. unfold upd. destruct (decide (t = t0)) as [->|_]; [|lia].
  unfold thread_after. destruct (pk_nx cf s t0 x c a k); cbn; try lia. destruct (unwind cf _ rest v); cbn; lia.
Qed.

Lemma step_staleC_other cf s t0 x t : t <> t0 -> thr (fst (step_staleC cf s t0 x)) t = thr s t.
Proof.
  intros Hne. destruct (q1_stale s t0 x) eqn:Hq; [|rewrite (q1_stale_false cf s t0 x Hq); apply step_status_other; exact Hne].
  destruct (q1_stale_Peek s t0 x Hq) as (c & a & k & rest & P).
  rewrite (peek_state cf s t0 x c a k rest P). cbn [thr]. apply upd_other. exact Hne.
Qed.

Lemma step_staleC_stopped cf s t0 x t : t_status (thr s t) <> Running -> thr (fst (step_staleC cf s t0 x)) t = thr s t.
Proof.
  intros H. destruct (N.eq_dec t t0) as [->|Hne]; [|apply step_staleC_other; exact Hne].
  destruct (q1_stale s t0 x) eqn:Hq; [|rewrite (q1_stale_false cf s t0 x Hq); apply step_stopped; exact H].
  destruct (q1_stale_true s t0 x Hq) as (Hr & _). congruence.
Qed.

Section Run.
Variables (cf : config) (s0 : state) (sched : list (N * N)).
Local Notation St k := (StC cf s0 sched k).
Local Notation Gh k := (GhC cf s0 sched k).

Lemma StC_cmdi_succ k t : t_cmdi (thr (St k) t) <= t_cmdi (thr (St (S k)) t).
Proof.
  destruct (nth_error sched k) as [[t0 x]|] eqn:Hk.
  - rewrite (StC_step _ _ _ _ _ _ Hk). apply step_staleC_cmdi_mono.
  - rewrite (StC_end _ _ _ _ Hk). lia.
Qed.

Lemma StC_cmdi_mono j k t : (j <= k)%nat -> t_cmdi (thr (St j) t) <= t_cmdi (thr (St k) t).
Proof. induction 1 as [|k _ IH]; [lia|]. pose proof (StC_cmdi_succ k t). lia. Qed.

Lemma StC_stopped j k t : (j <= k)%nat -> t_status (thr (St j) t) <> Running -> thr (St k) t = thr (St j) t.
Proof.
  intros Hjk Hs. induction Hjk as [|k _ IH]; [reflexivity|].
  destruct (nth_error sched k) as [[t0 x]|] eqn:Hk.
  - rewrite (StC_step _ _ _ _ _ _ Hk), step_staleC_stopped; [exact IH|]. rewrite IH. exact Hs.
  - rewrite (StC_end _ _ _ _ Hk). exact IH.
Qed.

Lemma StC_running t i j pb :
  (j <= pb)%nat -> t_cmdi (thr (St pb) t) = i -> t_cmdi (thr (St (S pb)) t) = i + 1 ->
  t_status (thr (St j) t) = Running.
Proof.
  intros Hj H1 H2. destruct (status_running_dec (t_status (thr (St j) t))) as [H|H]; [exact H|exfalso].
  rewrite (StC_stopped j pb t Hj H) in H1. rewrite (StC_stopped j (S pb) t ltac:(lia) H) in H2. lia.
Qed.

Lemma StC_cur t i cm j :
  nth_error (t_prog (thr s0 t)) (N.to_nat i) = Some cm -> t_cmdi (thr (St j) t) = i -> cur_cmd (St j) t = Some cm.
Proof. intros Hcm Hj. unfold cur_cmd. rewrite StC_prog, Hj. exact Hcm. Qed.
End Run.

(** ** The instant at which the current command started *)
Definition StartPos (s : state) (g : ghost) : Prop :=
  forall t, t_stack (thr s t) <> [] -> (1 <= g_start g t)%nat.

Lemma gnext_start_le s s' g t t' : (g_start g t' <= g_start (gnext s s' g t) t')%nat \/ g_start (gnext s s' g t) t' = S (g_now g).
Proof. cbn [gnext g_start]. destruct (_ && _); [right; reflexivity|left; lia]. Qed.

Lemma gstepC_StartPos cf s g t x :
  Quiet s -> StartPos s g -> StartPos (fst (gstepC cf (s, g) t x)) (snd (gstepC cf (s, g) t x)).
Proof.
  intros Q SP t' Hne. unfold gstepC in *. cbn [fst snd] in *.
  destruct (N.eq_dec t' t) as [->|H].
  - cbn [gnext g_start]. rewrite N.eqb_refl. cbn [andb]. destruct (starts_now s t) eqn:Hst; [lia|].
    apply SP. intros Hs. unfold starts_now in Hst. rewrite Hs in Hst.
    destruct (t_status (thr s t)) eqn:Hr; try discriminate Hst.
    all: rewrite step_staleC_stopped in Hne by congruence; congruence.
  - rewrite (step_staleC_other cf s t x t' H) in Hne. cbn [gnext g_start].
    apply N.eqb_neq in H. rewrite H. cbn [andb]. apply SP. exact Hne.
Qed.

Lemma run_StartPos cf inits progs sched :
  RunOKSC cf inits progs sched -> forall k, StartPos (StC cf (init_state inits progs) sched k) (GhC cf (init_state inits progs) sched k).
Proof.
  intros R. induction k as [|k IH].
  - intros t Hne. exfalso. apply Hne. cbn. apply init_threads_stack. cbn. auto.
  - destruct (nth_error sched k) as [[t x]|] eqn:Hk.
    + pose proof (gstepC_StartPos cf _ _ t x (mc_quiet _ (RunOKSC_MasterC _ _ _ _ R k)) IH) as H.
      rewrite <- LC_pair, <- (LC_step _ _ _ _ _ _ Hk), LC_pair in H. exact H.
    + rewrite (StC_end _ _ _ _ Hk), (GhC_end _ _ _ _ Hk). exact IH.
Qed.

(** ** The step that completes a cache command *)
Inductive completes (cf : config) (s : state) (g : ghost) (t x k : N) : Prop :=
| cp_stale c a rest :
    (* a stale peek found the cached pointer: nothing changes *)
    Peek s t x c a k rest -> x - 2 = a ->
    t_stack (thr s t) = [Q1 c a k; KCacheDone c k] ->
    hnd (fst (step_staleC cf s t x)) k = HCache c a ->
    completes cf s g t x k
| cp_fresh c v :
    (* an ordinary step (the peek of [step], or the end of the inner [load_full]) *)
    q1_stale s t x = false ->
    (exists pre, t_stack (thr s t) = pre ++ [KCacheDone c k]) ->
    hnd (fst (step_staleC cf s t x)) k = HCache c v ->
    PC (gnext s (fst (step_staleC cf s t x)) g t) t c v ->
    g_start (gnext s (fst (step_staleC cf s t x)) g t) t = g_start g t ->
    completes cf s g t x k.

Theorem cache_completes cf s g t x cm k :
  WF2 s -> Calm s -> Quiet s -> GenInv s -> EnvFree s -> EnvA s -> QShape s -> BotCmd s -> LinInv3 s g ->
  NoFault (fst (step_staleC cf s t x)) ->
  t_status (thr s t) = Running -> cur_cmd s t = Some cm -> ckey cm = Some k -> t_stack (thr s t) <> [] ->
  t_cmdi (thr (fst (step_staleC cf s t x)) t) = t_cmdi (thr s t) + 1 ->
  completes cf s g t x k.
Proof.
  intros W Hc Q GI EF EA QS BC LI Hnf Hr Hcm Hk Hne Hci. destruct (q1_stale s t x) eqn:Hq.
  - destruct (q1_stale_Peek s t x Hq) as (c & a & k0 & rest & P).
    pose proof (pl_stack s t x c a k0 rest P QS) as Hs.
    assert (k0 = k) as ->.
    { destruct (BC t (KCacheDone c k0)) as [E|(cm' & Hcm' & Hb)]; [rewrite Hs; right; left; reflexivity|reflexivity|discriminate E|].
      unfold cur_cmd in Hcm. rewrite Hcm in Hcm'. injection Hcm' as <-. cbn in Hb.
      destruct Hb as [-> | ->]; cbn in Hk; congruence. }
    destruct (peek_explicit cf s t x c a k rest QS P) as [Hv E|l' fs Hv He E].
    + eapply cp_stale; [exact P|exact Hv|exact Hs|]. rewrite E. cbn [hnd]. apply upd_same.
    + exfalso. rewrite E in Hci. cbn [thr] in Hci. rewrite upd_same in Hci. cbn in Hci. lia.
  - rewrite (q1_stale_false cf s t x Hq) in *.
    destruct (cache_returns_fresh cf s g t x cm k W Hc Q GI EF EA LI Hnf Hr Hcm Hk Hne Hci) as (c & v & H1 & H2 & H3 & H4).
    eapply cp_fresh; [exact Hq|exact H1|rewrite (q1_stale_false cf s t x Hq); exact H2| |];
      rewrite (q1_stale_false cf s t x Hq); [exact H3|exact H4].
Qed.
