(** * ASModel.StaleCInv17 — which handles a step writes ([step_staleC_hnd_frame]); while the peek
    frame [Q1 c a k] is on a stack the cache handle [k] holds [HCache c a] ([CacheHold]). *)
From Coq Require Import Lia.
From ASModel Require Import Base State Orderings_gen Step Run Progress Hist Inv InvTl InvProto InvStep Sum StepCases.
From ASModel Require Import GenDefs Gen1 Gen2 Gen Typed1 LinDefs Lin1 Lin2 Lin3 Lin7 Lin8.
From ASModel Require Import ProtDefs Prot11.
From ASModel Require Acc2.
From ASModel Require Import CchDefs CchAcc1 CchAcc2 CchAcc4 CchAcc6 CchAcc CchCmd CchMain.
From ASModel Require Import Stale2 StaleC StaleCInv1 StaleCInv3 StaleCInv5 StaleCInv6 StaleCInv7 StaleCInv8 StaleCInv11 StaleCInv13 StaleCInv16.

Lemma hnd_after_frame cf hn l1 rest nx h :
  typed rest -> hnd_after cf hn l1 rest nx h <> hn h -> exists f, In f rest /\ bdst f = Some h.
Proof.
  intros Ht. unfold hnd_after. destruct nx as [| |v| |]; try congruence.
  destruct (unwind cf l1 rest v) as [| l2 [[k hv]|] v2 | | |] eqn:Hu; try congruence.
  intros Hne. assert (h = k) as -> by (destruct (N.eq_dec h k) as [E|E]; [exact E|rewrite upd_other in Hne by exact E; congruence]).
  destruct (unwind_dst cf rest l1 v l2 k hv v2 Ht Hu) as [[Hin _]|(c0 & a0 & Hin & _)]; eauto.
Qed.

Lemma in_cmd_mods_dst cm h : cmd_dst cm = Some h -> In h (cmd_mods cm).
Proof. intros H. unfold cmd_mods. rewrite H. apply in_or_app. right. left. reflexivity. Qed.

Theorem step_staleC_hnd_frame cf s t x h :
  CchAcc.Typed s -> (forall t', dst_ok (thr s t')) ->
  hnd (fst (step_staleC cf s t x)) h <> hnd s h ->
  t_status (thr s t) = Running /\ exists cm, cur_cmd s t = Some cm /\ In h (cmd_mods cm).
Proof.
  intros T D Hne.
  assert (Hex : forall rest l1 nx, t_status (thr s t) = Running -> (exists p, t_stack (thr s t) = p :: rest) ->
            hnd_after cf (hnd s) l1 rest nx h <> hnd s h ->
            t_status (thr s t) = Running /\ exists cm, cur_cmd s t = Some cm /\ In h (cmd_mods cm)).
  { intros rest l1 nx Hr (p & Hs) Hh. split; [exact Hr|].
    pose proof (T t) as Ht. rewrite Hs in Ht.
    destruct (hnd_after_frame cf (hnd s) l1 rest nx h (proj2 (proj2 Ht)) Hh) as (f & Hf & Hb).
    destruct (D t f h) as (cm & Hcm & Hd); [rewrite Hs; right; exact Hf|exact Hb|].
    exists cm. split; [exact Hcm|apply in_cmd_mods_dst; exact Hd]. }
  destruct (q1_stale s t x) eqn:Hq.
  - destruct (q1_stale_Peek s t x Hq) as (c & a & k & rest & P).
    rewrite (peek_state cf s t x c a k rest P) in Hne. cbn [hnd] in Hne.
    eapply Hex; [exact (pk_run _ _ _ _ _ _ _ P)|eexists; exact (pk_stk _ _ _ _ _ _ _ P)|exact Hne].
  - rewrite (q1_stale_false cf s t x Hq) in Hne.
    destruct (step_cases cf s t x) as [E|cm s1 l1 stk r Hr Hs Hc Hen Hcs E|n Hr Hs Hn E|Hr Hs Hn E|p rest s1 l1 evs nx Hr Hs He E];
      rewrite E in Hne; cbn [hnd set_thread] in Hne; try congruence.
    + split; [exact Hr|]. exists cm. split; [exact Hc|].
      destruct (cmd_start_frame _ _ _ _ _ _ _ _ Hcs) as (_ & Hh & _).
      destruct (in_dec N.eq_dec h (cmd_hs cm)) as [Hin|Hnin]; [unfold cmd_mods; apply in_or_app; left; exact Hin|].
      rewrite (Hh h Hnin) in Hne. congruence.
    + eapply Hex; [exact Hr|eexists; exact Hs|exact Hne].
Qed.

Lemma handle_eq_dec (h1 h2 : handle) : {h1 = h2} + {h1 <> h2}.
Proof. repeat decide equality. Qed.

(** ** [CacheHold] *)
Definition CacheHold (s : state) : Prop :=
  forall t c a k, t_stack (thr s t) = [Q1 c a k; KCacheDone c k] -> hnd s k = HCache c a.

Lemma CacheHold_init inits progs : CacheHold (init_state inits progs).
Proof.
  intros t c a k H. exfalso.
  assert (Hs : t_stack (thr (init_state inits progs) t) = []) by (cbn; apply init_threads_stack; cbn; auto).
  rewrite Hs in H. discriminate.
Qed.

(** Where a stack [[Q1 c a k; KCacheDone c k]] comes from. *)
Lemma exec_noq_after cf s t x p rest s1 l1 evs nx :
  WF2 s -> CchAcc.Typed s -> NoFault (fst (step cf s t x)) -> QShape s ->
  t_status (thr s t) = Running -> t_stack (thr s t) = p :: rest -> isq p = false ->
  exec cf (sh s) (t_loc (thr s t)) p x = (s1, l1, evs, nx) ->
  Forall (fun f => isq f = false) (t_stack (thread_after cf (thr s t) l1 rest nx)).
Proof.
  intros W T Hnf QS Hr Hs Hp He.
  pose proof (T t) as Ht. rewrite Hs in Ht. pose proof (QS t) as Hq. rewrite Hs in Hq.
  destruct (exec_settle _ _ _ _ _ _ _ _ _ _ W Hnf Hr Hs He) as [Hns Hset].
  destruct (running_stk_ok s t W Hr) as [Htl _]. rewrite Hs in Htl. destruct Htl as (Hnw & _).
  apply qok_noq. apply (settle_Forall cf qok _ _ _ _ _ _ Hset).
  - intros l0 w v l2 nx1 [_ Hfw] Hres. exact (resume_qok _ _ _ _ _ _ Hres Hfw).
  - pose proof (QI_rest _ _ Hq Hp) as H1. pose proof (typed_fokb _ (proj2 (proj2 Ht))) as H2.
    apply Forall_forall. intros f Hin. split; [exact (proj1 (Forall_forall _ _) H1 f Hin)|exact (proj1 (Forall_forall _ _) H2 f Hin)].
  - exact (exec_qok _ _ _ _ _ _ _ _ _ He (proj1 Ht) Hnw Hp).
Qed.

Lemma peek_result_noq1 cf s t c a k v s' c1 a1 k1 :
  peek_result cf s t c a k v s' -> t_stack (thr s' t) <> [Q1 c1 a1 k1; KCacheDone c1 k1].
Proof.
  intros [_ E|l' fs _ He E]; rewrite E; cbn [thr]; rewrite upd_same; cbn [t_stack]; [discriminate|].
  destruct (enter_load_call _ _ _ _ _ He) as [_ Hne]. destruct fs as [|f fs]; [congruence|].
  cbn [app]. intros H. injection H as Hf _. destruct (enter_load_frames _ _ _ _ _ He f (or_introl eq_refl)) as [->|[->|[->|[->|(gt & ->)]]]]; discriminate Hf.
Qed.

Lemma cmd_start_q1 cf s l cm s1 l1 c a k :
  cmd_start cf s l cm = inl (s1, l1, [Q1 c a k; KCacheDone c k], RUnit) \/
  (exists r, cmd_start cf s l cm = inl (s1, l1, [Q1 c a k; KCacheDone c k], r)) ->
  cm = CCacheLoad k /\ hnd s k = HCache c a /\ s1 = s.
Proof.
  intros H. assert (Hc : exists r, cmd_start cf s l cm = inl (s1, l1, [Q1 c a k; KCacheDone c k], r)) by (destruct H; eauto).
  clear H. destruct Hc as (r & Hc).
  destruct cm; try (exfalso; pose proof (atyped_qok _ (Acc2.cmd_start_typed _ _ _ _ _ _ _ _ Hc I)) as Hq;
                    inversion Hq as [|? ? [Hx _] _]; discriminate Hx); cbn in Hc.
  - exfalso. destruct (enter_load cf l c0) as [[l2 fs]|ps] eqn:He; [|discriminate]. injection Hc as _ _ Hs _.
    destruct (enter_load_call _ _ _ _ _ He) as [_ Hne]. destruct fs as [|f fs]; [congruence|]. injection Hs as Hf _.
    destruct (enter_load_frames _ _ _ _ _ He f (or_introl eq_refl)) as [->|[->|[->|[->|(gt & ->)]]]]; discriminate Hf.
  - destruct (hnd s k0) as [| | |c0 a0] eqn:Hh; try discriminate Hc.
    inversion Hc; subst. auto.
Qed.

Theorem step_staleC_CacheHold cf s t x :
  WF2 s -> CchAcc.Typed s -> (forall t', dst_ok (thr s t')) -> BotCmd s -> QShape s -> CacheExcl s ->
  NoFault (fst (step_staleC cf s t x)) ->
  CacheHold s -> CacheHold (fst (step_staleC cf s t x)).
Proof.
  intros W T D BC QS CE Hnf CH t1 c a k Hs1.
  assert (Hkeep : t_stack (thr s t1) = [Q1 c a k; KCacheDone c k] -> t1 <> t ->
                  hnd (fst (step_staleC cf s t x)) k = HCache c a).
  { intros Hs Hne. rewrite <- (CH t1 c a k Hs).
    destruct (handle_eq_dec (hnd (fst (step_staleC cf s t x)) k) (hnd s k)) as [E|E]; [exact E|exfalso].
    destruct (step_staleC_hnd_frame cf s t x k T D E) as (Hr & cm & Hcm & Hin).
    destruct (BC t1 (KCacheDone c k)) as [Hx|(cm1 & Hcm1 & Hb)]; [rewrite Hs; right; left; reflexivity|reflexivity|discriminate Hx|].
    apply (CE t t1 cm cm1 k (fun Hx => Hne (eq_sym Hx))); [rewrite Hs; discriminate|exact Hcm1| |exact Hr|exact Hcm|exact Hin].
    cbn in Hb. destruct Hb as [-> | ->]; [left; eauto|right; reflexivity]. }
  destruct (N.eq_dec t1 t) as [->|Hne].
  2:{ apply Hkeep; [|exact Hne]. rewrite <- (step_staleC_other cf s t x t1 Hne). exact Hs1. }
  destruct (q1_stale s t x) eqn:Hq.
  - exfalso. destruct (q1_stale_Peek s t x Hq) as (c0 & a0 & k0 & rest & P).
    exact (peek_result_noq1 _ _ _ _ _ _ _ _ c a k (peek_explicit cf s t x c0 a0 k0 rest QS P) Hs1).
  - rewrite (q1_stale_false cf s t x Hq) in *.
    destruct (step_cases cf s t x) as [E|cm s1 l1 stk r Hr Hs Hc Hen Hcs E|n Hr Hs Hn E|Hr Hs Hn E|p rest s1 l1 evs nx Hr Hs He E].
    + rewrite E in Hs1 |- *. exact (CH t c a k Hs1).
    + rewrite E in Hs1 |- *. cbn [thr set_thread hnd] in *. rewrite upd_same, start_thread_stack in Hs1. subst stk.
      destruct (cmd_start_q1 cf s _ cm s1 l1 c a k (or_intror (ex_intro _ r Hcs))) as (_ & Hh & ->). exact Hh.
    + exfalso. rewrite E in Hs1. cbn [thr set_thread] in Hs1. rewrite upd_same in Hs1. discriminate Hs1.
    + exfalso. rewrite E in Hs1. cbn [thr set_thread] in Hs1. rewrite upd_same in Hs1. discriminate Hs1.
    + exfalso. destruct (isq p) eqn:Hp.
      * destruct p; try discriminate Hp.
        exact (peek_result_noq1 _ _ _ _ _ _ _ _ c a k (q1_step_explicit cf s t x _ _ _ rest QS Hr Hs) Hs1).
      * pose proof (exec_noq_after cf s t x p rest s1 l1 evs nx W T Hnf QS Hr Hs Hp He) as Hno.
        rewrite E in Hs1. cbn [thr] in Hs1. rewrite upd_same in Hs1. rewrite Hs1 in Hno.
        inversion Hno as [|? ? Hx _]. discriminate Hx.
Qed.

Theorem RunOKSC_CacheHold cf inits progs sched :
  RunOKSC cf inits progs sched -> forall k, CacheHold (StC cf (init_state inits progs) sched k).
Proof.
  intros R. induction k as [|k IH]; [apply CacheHold_init|].
  destruct (nth_error sched k) as [[t x]|] eqn:Hk; [|rewrite (StC_end _ _ _ _ Hk); exact IH].
  pose proof (RunOKSC_MasterC _ _ _ _ R k) as M. pose proof (RunOKSC_MasterC _ _ _ _ R (S k)) as M1.
  rewrite (StC_step _ _ _ _ _ _ Hk) in M1 |- *.
  apply step_staleC_CacheHold; try assumption.
  - apply M.
  - apply (ai_typed _ (mc_acc _ M)).
  - apply (q_dst _ (mc_prot _ M)).
  - apply M.
  - apply StaleCInv15.RunOKSC_QShape. exact R.
  - apply (rsc_state _ _ _ _ R k).
  - apply M1.
Qed.
