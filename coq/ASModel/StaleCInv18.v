(** * ASModel.StaleCInv18 — how a handle comes to hold a cache ([step_staleC_hcache]) and how the
    index [vc] of a cache changes ([vcache_cases]). *)
From Coq Require Import Lia.
From ASModel Require Import Base State Orderings_gen Step Run Progress Hist Inv InvTl InvProto InvStep Sum StepCases.
From ASModel Require Import GenDefs Gen1 Gen2 Gen Typed1 LinDefs Lin1 Lin2 Lin3 Lin7 Lin8 LinCache2.
From ASModel Require Import ProtDefs Prot11.
From ASModel Require Import CchDefs CchAcc1 CchAcc2 CchAcc4 CchAcc6 CchAcc CchCmd CchMain.
From ASModel Require Import Stale2 StaleC StaleCView StaleCInv1 StaleCInv3 StaleCInv7 StaleCInv8 StaleCInv10 StaleCInv11 StaleCInv17.

Lemma hnd_after_hcache cf hn th l1 rest nx k0 c v :
  typed rest -> hnd_after cf hn l1 rest nx k0 = HCache c v -> hn k0 <> HCache c v ->
  In (KCacheDone c k0) rest /\ t_cmdi (thread_after cf th l1 rest nx) = t_cmdi th + 1.
Proof.
  intros Ht. unfold hnd_after, thread_after. destruct nx as [| |v0| |]; try congruence.
  destruct (unwind cf l1 rest v0) as [| l2 [[k hv]|] v2 | | |] eqn:Hu; try congruence.
  intros H Hn. destruct (N.eq_dec k0 k) as [->|Hne]; [|rewrite upd_other in H by exact Hne; congruence].
  rewrite upd_same in H. subst hv.
  destruct (unwind_dst cf rest l1 v0 l2 k (HCache c v) v2 Ht Hu) as [[_ Hnc]|(c0 & a0 & Hin & [= <- <-])].
  - elim (Hnc c v eq_refl).
  - split; [exact Hin|reflexivity].
Qed.

Lemma cmd_start_hcache cf s l cm s1 l1 stk r k0 c v :
  cmd_start cf s l cm = inl (s1, l1, stk, r) -> hnd s1 k0 = HCache c v -> hnd s k0 <> HCache c v ->
  exists h, cm = CMove h k0 /\ hnd s h = HCache c v.
Proof.
  intros Hc H Hn.
  destruct cm; cbn in Hc; destr_in Hc; try discriminate Hc; injection Hc as <- <- <- <-; cbn [hnd] in H;
    repeat match goal with
           | H : context [consume _ ?v0] |- _ => is_var v0; destruct v0; cbn [consume hnd] in H
           end;
    try contradiction;
    unfold upd in H;
    repeat match type of H with context [decide (?a = ?b)] => destruct (decide (a = b)) end;
    try discriminate H; try contradiction.
  subst. eauto.
Qed.

Theorem step_staleC_hcache cf s t x k0 c v :
  CchAcc.Typed s ->
  hnd (fst (step_staleC cf s t x)) k0 = HCache c v -> hnd s k0 <> HCache c v ->
  (exists h, t_status (thr s t) = Running /\ t_stack (thr s t) = [] /\ cur_cmd s t = Some (CMove h k0) /\
             hnd s h = HCache c v) \/
  (t_status (thr s t) = Running /\ In (KCacheDone c k0) (t_stack (thr s t)) /\
   t_cmdi (thr (fst (step_staleC cf s t x)) t) = t_cmdi (thr s t) + 1).
Proof.
  intros T H Hn. destruct (q1_stale s t x) eqn:Hq.
  - right. destruct (q1_stale_Peek s t x Hq) as (c0 & a0 & k1 & rest & P).
    rewrite (peek_state cf s t x c0 a0 k1 rest P) in H |- *. cbn [hnd thr] in *. rewrite upd_same.
    pose proof (T t) as Ht. rewrite (pk_stk _ _ _ _ _ _ _ P) in Ht.
    destruct (hnd_after_hcache cf (hnd s) (thr s t) _ rest _ k0 c v (proj2 (proj2 Ht)) H Hn) as [H1 H2].
    split; [exact (pk_run _ _ _ _ _ _ _ P)|]. split; [rewrite (pk_stk _ _ _ _ _ _ _ P); right; exact H1|exact H2].
  - rewrite (q1_stale_false cf s t x Hq) in *.
    destruct (step_cases cf s t x) as [E|cm s1 l1 stk r Hr Hs Hc Hen Hcs E|n Hr Hs Hn' E|Hr Hs Hn' E|p rest s1 l1 evs nx Hr Hs He E];
      rewrite E in H |- *; cbn [hnd set_thread thr] in *; try congruence.
    + left. destruct (cmd_start_hcache _ _ _ _ _ _ _ _ _ _ _ Hcs H Hn) as (h & -> & Hh). eauto.
    + right. rewrite upd_same. pose proof (T t) as Ht. rewrite Hs in Ht.
      destruct (hnd_after_hcache cf (hnd s) (thr s t) l1 rest nx k0 c v (proj2 (proj2 Ht)) H Hn) as [H1 H2].
      split; [exact Hr|]. split; [rewrite Hs; right; exact H1|exact H2].
Qed.

(** ** The cache bookkeeping *)
Inductive vcache_res (g : vghost) (s s' : state) (t : N) (ri : option nat) (g' : vghost) : Prop :=
| vc_keep : vc g' = vc g -> vcache_res g s s' t ri g'
| vc_hit cm k c v a c1 k1 rest i :
    cur_cmd s t = Some cm -> ckey cm = Some k -> hnd s' k = HCache c v -> hnd s k = HCache c v ->
    t_stack (thr s t) = Q1 c1 a k1 :: rest -> ri = Some i -> nth i (vh g c) 0 = a ->
    vc g' = updN (vc g) k (Nat.max (vc g k) i) -> vcache_res g s s' t ri g'
| vc_new cm k c v i :
    cur_cmd s t = Some cm -> ckey cm = Some k -> hnd s' k = HCache c v -> hnd s k <> HCache c v ->
    last_index (vh g c) 0 v None = Some i ->
    vc g' = updN (vc g) k i -> vcache_res g s s' t ri g'.

Lemma vcache_cases g s s' t ri : vcache_res g s s' t ri (vcache g s s' t ri).
Proof.
  unfold vcache. destruct (cur_cmd s t) as [cm|] eqn:Hcm; [|apply vc_keep; reflexivity].
  destruct (ckey cm) as [k|] eqn:Hk; [|apply vc_keep; reflexivity].
  destruct (hnd s' k) as [| | |c v'] eqn:Hh'; try (apply vc_keep; reflexivity).
  destruct (match hnd s k with HCache c0 v0 => (c0 =? c) && (v0 =? v') | _ => false end) eqn:Hsame.
  - assert (Hh : hnd s k = HCache c v').
    { destruct (hnd s k) as [| | |c0 v0]; try discriminate Hsame. apply andb_prop in Hsame as [E1 E2].
      apply N.eqb_eq in E1, E2. subst. reflexivity. }
    destruct (t_stack (thr s t)) as [|p rest] eqn:Hs; [apply vc_keep; reflexivity|].
    destruct p; try (apply vc_keep; reflexivity). destruct ri as [i|]; [|apply vc_keep; reflexivity].
    destruct (N.eqb_spec (nth i (vh g c) 0) a) as [E|E]; [|apply vc_keep; reflexivity].
    eapply vc_hit; try eassumption; reflexivity.
  - assert (Hh : hnd s k <> HCache c v').
    { intros E. rewrite E, !N.eqb_refl in Hsame. discriminate. }
    destruct (last_index (vh g c) 0 v' None) as [i|] eqn:Hl; [|apply vc_keep; reflexivity].
    eapply vc_new; try eassumption; reflexivity.
Qed.
