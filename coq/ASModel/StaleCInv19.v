(** * ASModel.StaleCInv19 — the value a completed cache command leaves in its handle is an entry of
    the container's history ([completes_in_history]); explicit forms of [vcache]. *)
From Coq Require Import Lia.
From ASModel Require Import Base State Orderings_gen Step Run Progress Hist Inv InvTl InvProto InvStep Sum StepCases
  GenDefs Gen1 Gen2 Gen3 Gen EnvDefs Env LinDefs Lin1 Lin2 LinCache1 LinCache2.
From ASModel Require Import CchDefs CchAcc CchCmd CchMain.
From ASModel Require Import Stale2 StaleC StaleCView StaleCInv1 StaleCInv3 StaleCInv5 StaleCInv6 StaleCInv7 StaleCInv8
  StaleCInv10 StaleCInv11 StaleCInv12 StaleCInv13 StaleCInv15 StaleCInv16 StaleCInv17 StaleCInv18.

(** ** [vcache], explicitly *)
Lemma vcache_changed g s s' t ri cm k c v :
  cur_cmd s t = Some cm -> ckey cm = Some k -> hnd s' k = HCache c v -> hnd s k <> HCache c v ->
  vcache g s s' t ri =
    match last_index (vh g c) 0 v None with
    | Some i => mkVG (vh g) (vt g) (vm g) (updN (vc g) k i)
    | None => g
    end.
Proof.
  intros Hcm Hk Hh' Hh. unfold vcache. rewrite Hcm, Hk, Hh'.
  destruct (hnd s k) as [| | |c0 v0]; try reflexivity.
  destruct (N.eqb_spec c0 c) as [->|E1]; [|reflexivity]. destruct (N.eqb_spec v0 v) as [->|E2]; [congruence|reflexivity].
Qed.

Lemma vcache_same g s s' t ri cm k c v :
  cur_cmd s t = Some cm -> ckey cm = Some k -> hnd s' k = HCache c v -> hnd s k = HCache c v ->
  vcache g s s' t ri =
    match t_stack (thr s t), ri with
    | Q1 _ a _ :: _, Some i =>
        if nth i (vh g c) 0 =? a then mkVG (vh g) (vt g) (vm g) (updN (vc g) k (Nat.max (vc g k) i)) else g
    | _, _ => g
    end.
Proof. intros Hcm Hk Hh' Hh. unfold vcache. rewrite Hcm, Hk, Hh', Hh, !N.eqb_refl. reflexivity. Qed.

Lemma vcache_other_key g s s' t ri k0 :
  (forall cm, cur_cmd s t = Some cm -> ckey cm <> Some k0) -> vc (vcache g s s' t ri) k0 = vc g k0.
Proof.
  intros H. destruct (vcache_cases g s s' t ri) as [E|cm k c v a c1 k1 rest i Hcm Hk _ _ _ _ _ E|cm k c v i Hcm Hk _ _ _ E];
    rewrite E; [reflexivity| |]; (rewrite updN_other; [reflexivity|]; intros ->; exact (H cm Hcm Hk)).
Qed.

Lemma vacc_res_vc cf s g t x g1 : vacc_res cf s g t x g1 -> vc g1 = vc g.
Proof. intros [_ -> _|c a _ -> _|c new _ -> _ _|c a k rest i _ _ ->|c a k rest _ _ ->]; reflexivity. Qed.

Section Run.
Variables (cf : config) (inits : list N) (progs : list (list cmd)) (sched : list (N * N)).
Hypothesis R : RunOKSC cf inits progs sched.
Local Notation s0 := (init_state inits progs).
Local Notation St k := (StC cf s0 sched k).
Local Notation Gv k := (GC cf s0 sched k).
Local Notation Gl k := (GhC cf s0 sched k).

(** One position of the run, unfolded. *)
Lemma position p t x :
  nth_error sched p = Some (t, x) ->
  exists g1, St (S p) = fst (step_staleC cf (St p) t x) /\
             Gv (S p) = vcache g1 (St p) (St (S p)) t (q1_read_idx (Gv p) (St p) t x) /\
             vacc_res cf (St p) (Gv p) t x g1 /\
             Gl (S p) = gnext (St p) (St (S p)) (Gl p) t.
Proof.
  intros Hp. destruct (vstepC_ghost cf (St p) (Gv p) t x) as (g1 & E & Rv). exists g1.
  assert (E' : SC cf s0 sched (S p) = vstepC cf (St p, Gv p) t x) by (rewrite (SC_step _ _ _ _ _ _ Hp), SC_pair; reflexivity).
  rewrite E in E'. split; [unfold StC; rewrite E'; reflexivity|]. split.
  - unfold GC, StC. rewrite E'. reflexivity.
  - split; [exact Rv|exact (GhC_step _ _ _ _ _ _ Hp)].
Qed.

(** The step that completes a cache command, with the invariants of the run discharged. *)
Lemma run_completes p t x cm k :
  nth_error sched p = Some (t, x) ->
  t_status (thr (St p) t) = Running -> cur_cmd (St p) t = Some cm -> ckey cm = Some k -> t_stack (thr (St p) t) <> [] ->
  t_cmdi (thr (St (S p)) t) = t_cmdi (thr (St p) t) + 1 ->
  completes cf (St p) (Gl p) t x k.
Proof.
  intros Hp Hr Hcm Hk Hne Hci.
  pose proof (RunOKSC_MasterC _ _ _ _ R p) as M. pose proof (RunOKSC_MasterC _ _ _ _ R (S p)) as M1.
  pose proof (MasterC_EnvInvQ _ M) as EQ. rewrite (StC_step _ _ _ _ _ _ Hp) in M1, Hci.
  exact (cache_completes cf (St p) (Gl p) t x cm k (mc_wf _ M) (RunOKSC_Calm cf inits progs sched R p) (mc_quiet _ M) (mc_gen _ M)
           (EnvInvQ_EnvFree _ EQ) (EnvInvQ_EnvA _ EQ) (RunOKSC_QShape cf inits progs sched R p) (mc_bot _ M)
           (RunOKSC_LinInv3 cf inits progs sched R p) (mc_nofault _ M1) Hr Hcm Hk Hne Hci).
Qed.

(** ... the value is an entry of the history after the step; on the fresh path its index is not
    below the length of the history at the instant the command started, minus one. *)
Lemma fresh_in_history p t x c v :
  nth_error sched p = Some (t, x) -> never_consumed c s0 -> t_stack (thr (St p) t) <> [] ->
  PC (gnext (St p) (St (S p)) (Gl p) t) t c v ->
  g_start (gnext (St p) (St (S p)) (Gl p) t) t = g_start (Gl p) t ->
  exists tau, (1 <= tau)%nat /\ (g_start (Gl p) t <= tau <= S p)%nat /\ mem (sh (St tau)) (LStore c) = v /\
    nth_error (vh (Gv (S p)) c) (length (vh (Gv tau) c) - 1) = Some v.
Proof.
  intros Hp Hnc Hne HP Hst.
  assert (Hlen : (S p <= length sched)%nat) by (assert (p < length sched)%nat by (apply nth_error_Some; congruence); lia).
  pose proof (run_StartPos cf inits progs sched R p t Hne) as Hpos.
  destruct (ltC_sound cf s0 sched c v (S p) Hlen) as [L1 L2]. cbn zeta in L1, L2.
  rewrite (GhC_step _ _ _ _ _ _ Hp) in L1, L2. unfold PC in HP. rewrite Hst in HP.
  set (tau := g_lt (gnext (St p) (St (S p)) (Gl p) t) c v) in *.
  exists tau. split; [lia|]. split; [lia|]. specialize (L2 ltac:(lia)). split; [exact L2|].
  rewrite <- L2. apply mem_in_history; [exact Hnc|exact L1].
Qed.
End Run.
