(** * ASModel.StaleCInv2 — invariants that do not look at the storages.

    [with_sh s m]: the state [s] with the shared part [m].  If [m] agrees with [sh s] except on
    the storages [LStore _], the structural invariants ([WF2], [Quiet], [GenInv], [EnvInv],
    [CtlFresh], i.e. [EnvInvQ]) and the claim invariants ([SlotClaimed], [ClaimNodes']) hold in
    the one iff in the other. *)
From Coq Require Import Lia.
From ASModel Require Import Base State Orderings_gen Step Run Progress Hist Inv InvTl InvProto InvStep Sum StepCases.
From ASModel Require Import GenDefs Gen1 Gen2 Gen EnvDefs Env4 Env ProtDefs Prot11.
From ASModel Require Import StaleC StaleCInv1.

Definition off_store (m1 m2 : loc -> N) : Prop :=
  forall l0, (forall c, l0 <> LStore c) -> m2 l0 = m1 l0.

Lemma off_store_sym m1 m2 : off_store m1 m2 -> off_store m2 m1.
Proof. intros H l0 Hl. symmetry. apply H. exact Hl. Qed.

Lemma off_store_shadow s c v : off_store (mem (sh s)) (mem (sh (shadow s c v))).
Proof. intros l0 Hl. apply shadow_mem_other. apply Hl. Qed.

Lemma top_ok_off bound m1 m2 l n top : off_store m1 m2 -> top_ok bound m1 l n top -> top_ok bound m2 l n top.
Proof.
  intros H. destruct top as [p|]; [destruct p|]; cbn [top_ok]; unfold node_idle, slot8_in;
    rewrite ?(H (LCtrl n)), ?(H (LAddr n)), ?(H (LSlot n HSLOT)) by discriminate;
    try (rewrite (H (LSlot n j)) by discriminate); exact (fun X => X).
Qed.

Section Off.
Variables (s : state) (m : shared).
Hypothesis Hm : off_store (mem (sh s)) (mem m).
Local Notation s2 := (with_sh s m).

Lemma off_nn : nn s2 = nn s.
Proof. unfold nn. cbn. apply Hm. discriminate. Qed.

Lemma off_WF2 : WF2 s -> WF2 s2.
Proof.
  intros W. constructor; rewrite ?off_nn; cbn [with_sh thr sh hnd].
  - apply (w_thr _ W).
  - apply (w_lt _ W).
  - apply (w_uniq _ W).
  - intros n Hn. rewrite (Hm (LInUse n)) by discriminate. apply (w_inuse _ W n Hn).
  - intros t n Hr Hh. apply (top_ok_off _ _ _ _ _ _ Hm). apply (w_top _ W t n Hr Hh).
  - intros n Hn Hno. pose proof (w_unowned _ W n Hn Hno) as H. unfold node_idle in *.
    rewrite !Hm by discriminate. exact H.
  - intros n Hn. rewrite Hm by discriminate. apply (w_ctl _ W n Hn).
  - intros n Hn. rewrite Hm by discriminate. apply (w_off _ W n Hn).
Qed.

Lemma off_Quiet : Quiet s -> Quiet s2.
Proof. intros Q. constructor; [apply (q_stop _ Q)|apply (q_bl _ Q)|apply (q_exit _ Q)]. Qed.

Lemma off_GenInv : GenInv s -> GenInv s2.
Proof.
  intros G. constructor.
  - intros w. unfold W_inv in *. cbn [with_sh thr sh]. rewrite Hm by discriminate. apply (g_w _ G w).
  - intros n. rewrite off_nn. cbn [with_sh sh]. rewrite Hm by discriminate. apply (g_nu _ G n).
  - exact (g_top _ G).
  - exact (g_u _ G).
  - exact (g_c _ G).
  - intros t f w ctl their Hin Hf th c' Ho Hq. cbn [with_sh sh]. rewrite Hm by discriminate.
    exact (g_t _ G t f w ctl their Hin Hf th c' Ho Hq).
Qed.

Lemma off_tok e k : tok_holds s2 e k <-> tok_holds s e k.
Proof.
  destruct k; cbn [tok_holds]; rewrite ?off_nn; cbn [with_sh sh thr];
    rewrite ?(Hm (LOffer n)), ?(Hm (LCtrl w)) by discriminate; try reflexivity.
  unfold offer_valid. cbn [with_sh sh thr]. rewrite (Hm (LCtrl n)) by discriminate. reflexivity.
Qed.

Lemma off_EnvInv : EnvInv s -> EnvInv s2.
Proof.
  intros E. constructor.
  - intros e k1 k2 H1 H2. apply (e_x _ E e); apply off_tok; assumption.
  - intros t n c old w ctl r their mine rest Ho Hs. cbn [with_sh sh]. rewrite Hm by discriminate.
    exact (e_mine _ E t n c old w ctl r their mine rest Ho Hs).
  - intros t c old w ctl r their mine rest Hs. cbn [with_sh sh]. rewrite Hm by discriminate.
    exact (e_a _ E t c old w ctl r their mine rest Hs).
Qed.

Lemma off_CtlFresh : CtlFresh s -> CtlFresh s2.
Proof.
  intros F w Hw. rewrite off_nn in Hw. cbn [with_sh sh]. rewrite Hm by discriminate. exact (F w Hw).
Qed.

Lemma off_EnvInvQ : EnvInvQ s -> EnvInvQ s2.
Proof.
  intros [[W Q G] E F]. constructor; [constructor|..];
    [apply off_WF2|apply off_Quiet|apply off_GenInv|apply off_EnvInv|apply off_CtlFresh]; assumption.
Qed.

Lemma off_SlotClaimed : SlotClaimed s -> SlotClaimed s2.
Proof.
  intros H n j a Ha Hmem. cbn [with_sh sh] in Hmem. rewrite Hm in Hmem by discriminate.
  exact (H n j a Ha Hmem).
Qed.

Lemma off_ClaimNodes' : ClaimNodes' s -> ClaimNodes' s2.
Proof. intros [H1 H2]. split; rewrite off_nn; [exact H1|exact H2]. Qed.
End Off.

(** States with the same threads and handles: invariants that ignore the shared part. *)
Lemma with_sh_Calm s m : Calm s -> Calm (with_sh s m).
Proof. exact (fun H => H). Qed.

Lemma with_sh_NoFault s m : NoFault s -> NoFault (with_sh s m).
Proof. exact (fun H => H). Qed.

Lemma with_sh_with_sh s m m' : with_sh (with_sh s m) m' = with_sh s m'.
Proof. reflexivity. Qed.

Lemma with_sh_self s : with_sh s (sh s) = s.
Proof. destruct s; reflexivity. Qed.

Lemma shadow_with_sh s c v : shadow s c v = with_sh s (m_set (sh s) (LStore c) v).
Proof. reflexivity. Qed.
