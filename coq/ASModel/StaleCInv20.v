(** * ASModel.StaleCInv20 — the index of a cache points at its value ([CacheIdx], part (c) of the view
    invariant): in every state of a run within [RunOKSC], for the containers that are never
    consumed, provided no program moves a cache handle with [CMove] ([NoCacheMove]; [vcache] does
    not follow a moved cache). *)
From Coq Require Import Lia.
From ASModel Require Import Base State Orderings_gen Step Run Progress Hist Inv InvTl InvProto InvStep Sum StepCases
  GenDefs Gen1 Gen2 Gen3 Gen EnvDefs Env LinDefs Lin1 Lin2 LinCache1 LinCache2.
From ASModel Require Import CchDefs CchAcc CchCmd CchMain.
From ASModel Require Import Stale2 StaleC StaleCView StaleCInv1 StaleCInv3 StaleCInv5 StaleCInv6 StaleCInv7 StaleCInv8
  StaleCInv10 StaleCInv11 StaleCInv12 StaleCInv13 StaleCInv15 StaleCInv16 StaleCInv17 StaleCInv18 StaleCInv19.

Definition NoCacheMove (s : state) : Prop :=
  forall t h h2 c v, t_status (thr s t) = Running -> t_stack (thr s t) = [] ->
    cur_cmd s t = Some (CMove h h2) -> hnd s h <> HCache c v.

Definition CacheIdx (s : state) (g : vghost) : Prop :=
  forall k c v, hnd s k = HCache c v -> never_consumed c s -> nth_error (vh g c) (vc g k) = Some v.

Lemma cache_on_ckey c k cm : cache_on c k cm -> ckey cm = Some k.
Proof. intros [-> | ->]; reflexivity. Qed.

Lemma q1_read_idx_lt g s t x c a k rest i :
  VInvA g -> t_stack (thr s t) = Q1 c a k :: rest -> q1_read_idx g s t x = Some i ->
  (i < length (vh g c))%nat /\ (vt g t c <= i)%nat.
Proof.
  intros V Hs H. unfold q1_read_idx in H. rewrite Hs in H. destruct (t_status (thr s t)); try discriminate H.
  destruct (2 <=? x).
  - destruct (find_from_spec _ _ _ _ _ H) as (A & B & _). lia.
  - injection H as <-. pose proof (last_index_lt g c V). pose proof (va_t _ V t c). lia.
Qed.

Section Run.
Variables (cf : config) (inits : list N) (progs : list (list cmd)) (sched : list (N * N)).
Hypothesis R : RunOKSC cf inits progs sched.
Hypothesis NM : forall p, NoCacheMove (StC cf (init_state inits progs) sched p).
Local Notation s0 := (init_state inits progs).
Local Notation St k := (StC cf s0 sched k).
Local Notation Gv k := (GC cf s0 sched k).
Local Notation Gl k := (GhC cf s0 sched k).

Lemma nc_run c p : never_consumed c (St p) <-> never_consumed c s0.
Proof. unfold never_consumed. split; intros H t cm; [rewrite <- (StC_prog cf s0 sched p t)|rewrite StC_prog]; apply H. Qed.

(** At a peek the frame, the bottom frame and the handle agree. *)
Lemma q1_facts p t c a k rest cm :
  t_stack (thr (St p) t) = Q1 c a k :: rest -> cur_cmd (St p) t = Some cm ->
  rest = [KCacheDone c k] /\ ckey cm = Some k /\ hnd (St p) k = HCache c a.
Proof.
  intros Hs Hcm. pose proof (RunOKSC_QShape cf inits progs sched R p t) as HQ. rewrite Hs in HQ.
  pose proof (QI_top _ _ _ _ HQ) as ->. split; [reflexivity|].
  pose proof (RunOKSC_MasterC _ _ _ _ R p) as M.
  destruct (mc_bot _ M t (KCacheDone c k)) as [E|(cm' & Hcm' & Hb)]; [rewrite Hs; right; left; reflexivity|reflexivity|discriminate E|].
  unfold cur_cmd in Hcm. rewrite Hcm in Hcm'. injection Hcm' as <-. split; [exact (cache_on_ckey _ _ _ Hb)|].
  exact (RunOKSC_CacheHold cf inits progs sched R p t c a k Hs).
Qed.

Theorem run_CacheIdx p : CacheIdx (St p) (Gv p).
Proof.
  induction p as [|p IH].
  - intros k c v H. discriminate H.
  - destruct (nth_error sched p) as [[t x]|] eqn:Hp.
    2:{ unfold GC. rewrite (StC_end _ _ _ _ Hp), (SC_end _ _ _ _ Hp). exact IH. }
    destruct (position cf inits progs sched p t x Hp) as (g1 & Es & Eg & Rv & El).
    pose proof (run_VInvA cf s0 sched p) as V.
    pose proof (vacc_res_grow cf (St p) (Gv p) t x g1 V Rv) as [Gh _].
    pose proof (vacc_res_vc cf (St p) (Gv p) t x g1 Rv) as Evc.
    assert (Hpre : forall c i v, nth_error (vh (Gv p) c) i = Some v -> nth_error (vh g1 c) i = Some v).
    { intros c i v Hn. destruct (Gh c) as (l & ->). rewrite nth_error_app1; [exact Hn|]. apply nth_error_Some. congruence. }
    assert (Hlen : forall c, (length (vh (Gv p) c) <= length (vh g1 c))%nat).
    { intros c. destruct (Gh c) as (l & ->). rewrite app_length. lia. }
    destruct (vcache_same_views g1 (St p) (St (S p)) t (q1_read_idx (Gv p) (St p) t x)) as (Evh & _).
    intros k0 c v Hh Hnc. rewrite Eg, Evh.
    assert (Hnc0 : never_consumed c s0) by (apply (nc_run c (S p)); exact Hnc).
    destruct (handle_eq_dec (hnd (St p) k0) (HCache c v)) as [Hold|Hnew].
    + pose proof (IH k0 c v Hold (proj2 (nc_run c p) Hnc0)) as Hidx.
      destruct (vcache_cases g1 (St p) (St (S p)) t (q1_read_idx (Gv p) (St p) t x))
        as [E|cm k c2 v2 a c1 k1 rest i Hcm Hk Hh2 Hh1 Hs Hri Hnth E|cm k c2 v2 i Hcm Hk Hh2 Hh1 _ E]; rewrite E.
      * rewrite Evc. apply Hpre. exact Hidx.
      * destruct (N.eq_dec k0 k) as [->|Hne]; [|rewrite updN_other by exact Hne; rewrite Evc; apply Hpre; exact Hidx].
        rewrite updN_same, Evc. rewrite Hh in Hh2. injection Hh2 as <- <-.
        destruct (q1_facts p t c1 a k1 rest cm Hs Hcm) as (-> & Hk1 & Hhold).
        rewrite Hk in Hk1. injection Hk1 as <-. rewrite Hold in Hhold. injection Hhold as <- <-.
        destruct (q1_read_idx_lt _ _ _ _ _ _ _ _ _ V Hs Hri) as [Hi _].
        destruct (Nat.max_spec (vc (Gv p) k) i) as [[_ ->]|[_ ->]]; [|apply Hpre; exact Hidx].
        rewrite <- Hnth. apply nth_error_nth'. pose proof (Hlen c). lia.
      * destruct (N.eq_dec k0 k) as [->|Hne]; [|rewrite updN_other by exact Hne; rewrite Evc; apply Hpre; exact Hidx].
        exfalso. apply Hh1. rewrite <- Hh2, Hh. exact Hold.
    + pose proof (RunOKSC_MasterC _ _ _ _ R p) as M.
      assert (Hh' : hnd (fst (step_staleC cf (St p) t x)) k0 = HCache c v) by (rewrite <- Es; exact Hh).
      destruct (step_staleC_hcache cf (St p) t x k0 c v (ai_typed _ (mc_acc _ M)) Hh' Hnew)
        as [(h & Hr & Hs & Hcm & Hhh)|(Hr & Hin & Hci)].
      { elim (NM p t h k0 c v Hr Hs Hcm Hhh). }
      destruct (mc_bot _ M t (KCacheDone c k0) Hin eq_refl) as [E|(cm & Hcm & Hb)]; [discriminate E|].
      pose proof (cache_on_ckey _ _ _ Hb) as Hk.
      assert (Hne : t_stack (thr (St p) t) <> []) by (intros E; rewrite E in Hin; destruct Hin).
      rewrite <- Es in Hci.
      assert (Hj : exists j, nth_error (vh g1 c) j = Some v).
      { destruct (run_completes cf inits progs sched R p t x cm k0 Hp Hr Hcm Hk Hne Hci)
          as [c' a rest P Hx Hs Hh2|c' v' Hq Hpre' Hh2 HP Hst]; rewrite Hh' in Hh2; injection Hh2 as <- <-.
        - pose proof (rsc_stale _ _ _ _ R p t x Hp) as Hok. unfold staleC_ok in Hok.
          rewrite (pk_run _ _ _ _ _ _ _ P), (pk_stk _ _ _ _ _ _ _ P) in Hok.
          destruct (Hok (pk_x _ _ _ _ _ _ _ P)) as (i & _ & Hi). rewrite Hx in Hi. exists i. apply Hpre. exact Hi.
        - rewrite <- Es in HP, Hst.
          destruct (fresh_in_history cf inits progs sched R p t x c v Hp Hnc0 Hne HP Hst) as (tau & _ & _ & _ & Hn).
          rewrite Eg, Evh in Hn. eauto. }
      destruct Hj as (j & Hj).
      rewrite (vcache_changed g1 (St p) (St (S p)) t _ cm k0 c v Hcm Hk Hh Hnew).
      assert (Hjl : (j < length (vh g1 c))%nat) by (apply nth_error_Some; congruence).
      destruct (last_index_complete v (vh g1 c) 0 None j Hjl Hj) as (i & Ei & _ & Hi). rewrite Ei. cbn [vc vh].
      rewrite updN_same. rewrite Nat.sub_0_r in Hi. exact Hi.
Qed.

Corollary run_cache_bound p k c v :
  hnd (St p) k = HCache c v -> never_consumed c s0 -> (vc (Gv p) k < length (vh (Gv p) c))%nat.
Proof.
  intros Hh Hnc. apply nth_error_Some. rewrite (run_CacheIdx p k c v Hh (proj2 (nc_run c p) Hnc)). discriminate.
Qed.
End Run.
