(** * ASModel.StaleCInv21 — a cache command in progress: its bottom frame, its handle and the index
    of its cache stay as they are until the step that completes it ([in_cmd]). *)
From Coq Require Import Lia.
From ASModel Require Import Base State Orderings_gen Step Run Progress Hist Inv InvTl InvProto InvStep Sum StepCases
  GenDefs Gen1 Gen2 Gen3 Gen EnvDefs Env LinDefs Lin1 Lin2 Lin8 LinCache1 LinCache2 LinCache6 LinCache.
From ASModel Require Import ProtDefs Prot11 Local.
From ASModel Require Import CchDefs CchAcc CchCmd CchMain.
From ASModel Require Import Stale2 StaleC StaleCView StaleCInv1 StaleCInv3 StaleCInv5 StaleCInv6 StaleCInv7 StaleCInv8
  StaleCInv10 StaleCInv11 StaleCInv12 StaleCInv13 StaleCInv14 StaleCInv15 StaleCInv16 StaleCInv17 StaleCInv18 StaleCInv19 StaleCInv20.

Lemma step_staleC_bottom cf s t0 x t b :
  WF2 s -> QShape s -> NoFault (fst (step_staleC cf s t0 x)) -> is_bottom_frame b = true ->
  t_status (thr s t) = Running -> (exists pre, t_stack (thr s t) = pre ++ [b]) ->
  t_status (thr (fst (step_staleC cf s t0 x)) t) = Running ->
  t_cmdi (thr (fst (step_staleC cf s t0 x)) t) = t_cmdi (thr s t) ->
  exists pre, t_stack (thr (fst (step_staleC cf s t0 x)) t) = pre ++ [b].
Proof.
  intros W QS Hnf Hb Hr (pre & Hpre) Hr' Hci.
  destruct (q1_stale s t0 x) eqn:Hq.
  2:{ rewrite (q1_stale_false cf s t0 x Hq) in *. eapply step_bottom; eauto. }
  destruct (N.eq_dec t t0) as [->|Hne]; [|rewrite step_staleC_other by exact Hne; eauto].
  destruct (q1_stale_Peek s t0 x Hq) as (c & a & k & rest & P).
  rewrite (pl_stack s t0 x c a k rest P QS) in Hpre.
  change [Q1 c a k; KCacheDone c k] with ([Q1 c a k] ++ [KCacheDone c k]) in Hpre.
  apply app_inj_tail in Hpre as [_ <-].
  destruct (peek_explicit cf s t0 x c a k rest QS P) as [_ E|l' fs _ _ E]; rewrite E in Hci |- *; cbn [thr] in *;
    rewrite upd_same in *; cbn [t_cmdi t_stack] in *; [lia|].
  exists (fs ++ [WLoadFull; WCacheReload c a k]). rewrite <- app_assoc. reflexivity.
Qed.

(** A step inside a command changes no handle unless it completes the command. *)
Lemma step_staleC_handles cf s t x h :
  QShape s -> t_stack (thr s t) <> [] ->
  hnd (fst (step_staleC cf s t x)) h = hnd s h \/ t_stack (thr (fst (step_staleC cf s t x)) t) = [].
Proof.
  intros QS Hne. destruct (q1_stale s t x) eqn:Hq; [|rewrite (q1_stale_false cf s t x Hq); apply Local.step_handles; exact Hne].
  destruct (q1_stale_Peek s t x Hq) as (c & a & k & rest & P).
  destruct (peek_explicit cf s t x c a k rest QS P) as [_ E|l' fs _ _ E]; rewrite E; cbn [thr hnd].
  - right. rewrite upd_same. reflexivity.
  - left. reflexivity.
Qed.

Lemma step_staleC_nil cf s t x :
  QShape s -> t_stack (thr s t) <> [] ->
  t_stack (thr (fst (step_staleC cf s t x)) t) = [] -> t_status (thr (fst (step_staleC cf s t x)) t) = Running ->
  t_cmdi (thr (fst (step_staleC cf s t x)) t) = t_cmdi (thr s t) + 1.
Proof.
  intros QS Hne. destruct (q1_stale s t x) eqn:Hq.
  - destruct (q1_stale_Peek s t x Hq) as (c & a & k & rest & P).
    destruct (peek_explicit cf s t x c a k rest QS P) as [_ E|l' fs _ He E]; rewrite E; cbn [thr]; rewrite upd_same; cbn; [reflexivity|].
    destruct fs; discriminate.
  - rewrite (q1_stale_false cf s t x Hq).
    destruct (step_cases cf s t x) as [E|cm s1 l1 stk r Hr Hs Hc Hen Hcs E|n Hr Hs Hn E|Hr Hs Hn E|p rest s1 l1 evs nx Hr Hs He E];
      try congruence.
    rewrite E. cbn [thr]. rewrite upd_same. apply thread_after_nil.
Qed.
