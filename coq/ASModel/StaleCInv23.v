(** * ASModel.StaleCInv23 — the CMD step of a cache command; the start instants only grow. *)
From Coq Require Import Lia.
From ASModel Require Import Base State Orderings_gen Step Run Progress Hist Inv InvTl InvProto InvStep Sum StepCases
  GenDefs Gen1 Gen2 Gen3 Gen EnvDefs Env LinDefs Lin1 Lin2 Lin8 LinCache1 LinCache2 LinCache6 LinCache.
From ASModel Require Import ProtDefs Prot11 Local.
From ASModel Require Import CchDefs CchAcc4 CchAcc CchCmd CchMain.
From ASModel Require Import Stale2 StaleC StaleCView StaleCInv1 StaleCInv3 StaleCInv5 StaleCInv6 StaleCInv7 StaleCInv8
  StaleCInv10 StaleCInv11 StaleCInv12 StaleCInv13 StaleCInv14 StaleCInv15 StaleCInv16 StaleCInv17 StaleCInv18 StaleCInv19
  StaleCInv20 StaleCInv21 StaleCInv22.

Section Run.
Variables (cf : config) (inits : list N) (progs : list (list cmd)) (sched : list (N * N)).
Hypothesis R : RunOKSC cf inits progs sched.
Local Notation s0 := (init_state inits progs).
Local Notation St k := (StC cf s0 sched k).
Local Notation Gv k := (GC cf s0 sched k).
Local Notation Gl k := (GhC cf s0 sched k).

Lemma Gl_start_succ j t : (S j <= length sched)%nat -> (g_start (Gl j) t <= g_start (Gl (S j)) t)%nat.
Proof.
  intros Hj. destruct (nth_error sched j) as [[t0 x0]|] eqn:Hp; [|apply nth_error_None in Hp; lia].
  rewrite (GhC_step _ _ _ _ _ _ Hp). cbn [gnext g_start].
  destruct (l2_fresh _ _ (proj1 (RunOKSC_LinInv3 cf inits progs sched R j))) as (_ & _ & H & _).
  specialize (H t). destruct (_ && _); lia.
Qed.

Lemma Gl_start_mono j j' t : (j <= j')%nat -> (j' <= length sched)%nat -> (g_start (Gl j) t <= g_start (Gl j') t)%nat.
Proof.
  induction 1 as [|j' _ IH]; intros Hl; [lia|]. pose proof (Gl_start_succ j' t Hl). specialize (IH ltac:(lia)). lia.
Qed.

(** The CMD step of a cache command. *)
Lemma cache_cmd_step t i cm c k pa xa :
  nth_error (t_prog (thr s0 t)) (N.to_nat i) = Some cm -> cache_cmd_of (St pa) cm c k ->
  nth_error sched pa = Some (t, xa) ->
  t_status (thr (St pa) t) = Running -> t_stack (thr (St pa) t) = [] -> t_cmdi (thr (St pa) t) = i ->
  t_cmdi (thr (St (S pa)) t) = i /\
  (exists pre, t_stack (thr (St (S pa)) t) = pre ++ [KCacheDone c k]) /\
  hnd (St (S pa)) k = hnd (St pa) k /\
  vc (Gv (S pa)) k = vc (Gv pa) k /\
  g_start (Gl (S pa)) t = S pa.
Proof.
  intros Hcm Hcc Ha Hra Hsa Hia.
  assert (Hq : q1_stale (St pa) t xa = false) by (unfold q1_stale; rewrite Hra, Hsa; reflexivity).
  destruct (position cf inits progs sched pa t xa Ha) as (g1 & Es & Eg & Rv & El).
  pose proof (StC_cur cf s0 sched t i cm pa Hcm Hia) as Hc0.
  rewrite (q1_stale_false cf _ t xa Hq) in Es.
  assert (Hstep : t_cmdi (thr (St (S pa)) t) = i /\
                  (exists pre, t_stack (thr (St (S pa)) t) = pre ++ [KCacheDone c k]) /\
                  hnd (St (S pa)) k = hnd (St pa) k).
  { rewrite Es.
    destruct (step_cases2 cf (St pa) t xa) as [Hr E|c0 Hr Hs Hcc0 Hen E|c0 s1 l1 stk r Hr Hs Hcc0 Hen Hcs E|n Hr Hs Hcc0 Hn E|Hr Hs Hcc0 Hn E|p rest s1 l1 evs nx Hr Hs He E];
      try congruence.
    - exfalso. rewrite Hc0 in Hcc0. injection Hcc0 as <-.
      rewrite (cache_cmd_enabled _ _ _ _ Hcc) in Hen. discriminate.
    - rewrite Hc0 in Hcc0. injection Hcc0 as <-.
      destruct (cache_cmd_start _ _ _ _ _ _ _ _ _ _ Hcc Hcs) as (pre & ->).
      destruct (cmd_start_frame _ _ _ _ _ _ _ _ Hcs) as (_ & Hh & _).
      rewrite E. cbn [thr set_thread hnd]. rewrite upd_same. split; [destruct pre; exact Hia|]. split.
      + exists pre. apply start_thread_stack.
      + apply Hh. destruct Hcc as [-> |[-> _]]; intros []. }
  destruct Hstep as (H1 & H2 & H3). split; [exact H1|]. split; [exact H2|]. split; [exact H3|]. split.
  - rewrite Eg. pose proof (vacc_res_vc cf _ _ t xa g1 Rv) as Evc.
    destruct (vcache_cases g1 (St pa) (St (S pa)) t (q1_read_idx (Gv pa) (St pa) t xa))
      as [E|cm' k' c2 v2 a c1 k1 rest i' _ _ _ _ Hs _ _ E|cm' k' c2 v2 i' Hcm' Hk' Hh2 Hh1 _ E]; rewrite E.
    + rewrite Evc. reflexivity.
    + rewrite Hsa in Hs. discriminate Hs.
    + destruct (N.eq_dec k k') as [<-|Hnk]; [exfalso|rewrite updN_other by exact Hnk; rewrite Evc; reflexivity].
      apply Hh1. rewrite <- H3. exact Hh2.
  - rewrite El. cbn [gnext g_start]. rewrite N.eqb_refl. unfold starts_now. rewrite Hra, Hsa. cbn [andb].
    rewrite GhC_now; [reflexivity|]. assert (pa < length sched)%nat by (apply nth_error_Some; congruence). lia.
Qed.
End Run.
