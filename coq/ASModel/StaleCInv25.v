(** * ASModel.StaleCInv25 — views are handed over through any container ([view_handover]); a
    thread sees its own writes ([own_write_seen]).

    [wrote p t c i]: the step of thread [t] at position [p] appended the write number [i] to the
    history of [c] (a store, swap or successful compare-exchange of the model).
    [acquired p t' c']: the step of [t'] at [p] (not a stale peek) contains an acquiring load of
    the storage of [c'] or replaces its content (read-modify-write).  The Relaxed loads ([LA1],
    [Q1]) and the failed compare-exchange (failure ordering Relaxed) acquire nothing. *)
From Coq Require Import Lia.
From ASModel Require Import Base State Orderings_gen Step Run Progress Hist Inv InvTl InvProto InvStep Sum StepCases.
From ASModel Require Import Lin1 LinCache2 Stale2 StaleC StaleCView.
From ASModel Require Import StaleCInv1 StaleCInv3 StaleCInv6 StaleCInv9 StaleCInv10 StaleCInv11 StaleCInv12 StaleCInv19.

Definition acq_event (c' : N) (e : event) : Prop :=
  match e with
  | EvAcc (LStore c0) op o fo _ _ ok =>
      c0 = c' /\ ((op = OLoad /\ acq o = true) \/ (ok = true /\ (op = OSwap \/ op = OCasWeak)))
  | _ => False
  end.

Section Run.
Variables (cf : config) (s0 : state) (sched : list (N * N)).
Local Notation St k := (StC cf s0 sched k).
Local Notation Gv k := (GC cf s0 sched k).

Definition wrote (p : nat) (t c : N) (i : nat) : Prop :=
  exists x, nth_error sched p = Some (t, x) /\ length (vh (Gv p) c) = i /\ length (vh (Gv (S p)) c) = S i.

Definition acquired (p : nat) (t' c' : N) : Prop :=
  exists x e, nth_error sched p = Some (t', x) /\ q1_stale (St p) t' x = false /\
              In e (snd (step cf (St p) t' x)) /\ acq_event c' e.

(** One position, in terms of the ghost before [vcache] (which keeps the views). *)
Lemma position_views p t x :
  nth_error sched p = Some (t, x) ->
  exists g1, vacc_res cf (St p) (Gv p) t x g1 /\ same_views g1 (Gv (S p)).
Proof.
  intros Hp. destruct (vstepC_ghost cf (St p) (Gv p) t x) as (g1 & E & Rv). exists g1. split; [exact Rv|].
  assert (E' : SC cf s0 sched (S p) = vstepC cf (St p, Gv p) t x) by (rewrite (SC_step _ _ _ _ _ _ Hp), SC_pair; reflexivity).
  unfold GC. rewrite E', E. cbn [snd]. apply vcache_same_views.
Qed.

Lemma wrote_wrg p t c i :
  wrote p t c i -> exists new, same_views (wrg (Gv p) t c new) (Gv (S p)).
Proof.
  intros (x & Hp & H1 & H2). destruct (position_views p t x Hp) as (g1 & Rv & (Eh & Et & Em)).
  rewrite Eh in H2.
  destruct Rv as [_ -> _|c0 a _ -> _|c0 new _ -> _ _|c0 a k rest i0 _ _ ->|c0 a k rest _ _ ->]; cbn [rdg wrg vh] in H2; try lia.
  unfold updN in H2. destruct (N.eqb_spec c c0) as [->|Hne]; [|lia].
  exists new. split; [exact Eh|split; [exact Et|exact Em]].
Qed.

(** ** A thread sees its own writes *)
Theorem own_write_seen p t c i q : wrote p t c i -> (S p <= q)%nat -> (i <= vt (Gv q) t c)%nat.
Proof.
  intros W Hq. destruct (wrote_wrg p t c i W) as (new & (_ & Et & _)). destruct W as (x & _ & H1 & _).
  pose proof (vt_mono cf s0 sched (S p) q t c Hq) as Hm. rewrite Et in Hm. cbn [wrg vt] in Hm.
  rewrite !updN_same in Hm. lia.
Qed.

(** ** What a write releases, and that it stays *)
Lemma write_releases p t c' j c : wrote p t c' j -> (vt (Gv p) t c <= vm (Gv (S p)) c' j c)%nat.
Proof.
  intros W. destruct (wrote_wrg p t c' j W) as (new & (_ & _ & Em)). destruct W as (x & _ & H1 & _).
  rewrite Em. cbn [wrg vm]. rewrite updN_same, H1, updn_same. unfold updN.
  destruct (N.eqb_spec c c') as [->|_].
  - pose proof (va_t _ (run_VInvA cf s0 sched p) t c'). lia.
  - unfold vjoin. lia.
Qed.

Lemma vm_stable_succ p c' i : (i < length (vh (Gv p) c'))%nat -> vm (Gv (S p)) c' i = vm (Gv p) c' i.
Proof.
  intros Hi. destruct (nth_error sched p) as [[t x]|] eqn:Hp.
  2:{ unfold GC. rewrite (SC_end _ _ _ _ Hp). reflexivity. }
  destruct (position_views p t x Hp) as (g1 & Rv & (_ & _ & Em)). rewrite Em.
  destruct Rv as [_ -> _|c0 a _ -> _|c0 new _ -> _ _|c0 a k rest i0 _ _ ->|c0 a k rest _ _ ->]; try reflexivity.
  cbn [wrg vm]. unfold updN. destruct (N.eqb_spec c' c0) as [->|_]; [|reflexivity].
  apply updn_other. lia.
Qed.

Lemma vm_stable p q c' i : (p <= q)%nat -> (i < length (vh (Gv p) c'))%nat -> vm (Gv q) c' i = vm (Gv p) c' i.
Proof.
  induction 1 as [|q Hq IH]; intros Hi; [reflexivity|]. rewrite vm_stable_succ; [exact (IH Hi)|].
  pose proof (vh_length_mono cf s0 sched p q c' Hq). lia.
Qed.

(** ** What an acquiring access joins *)
Lemma acquire_joins p t' c' c :
  acquired p t' c' -> (vm (Gv p) c' (length (vh (Gv p) c') - 1) c <= vt (Gv (S p)) t' c)%nat.
Proof.
  intros (x & e & Hp & Hq & Hin & He).
  assert (E' : SC cf s0 sched (S p) = vstepC cf (St p, Gv p) t' x) by (rewrite (SC_step _ _ _ _ _ _ Hp), SC_pair; reflexivity).
  assert (Hg : exists g1, same_views g1 (Gv (S p)) /\
                 (g1 = rdg (Gv p) t' c' (length (vh (Gv p) c') - 1) true \/ exists new, g1 = wrg (Gv p) t' c' new)).
  { unfold GC at 1. rewrite E'. unfold vstepC, vstep_with. rewrite (q1_stale_false cf _ t' x Hq), Hq.
    destruct (step cf (St p) t' x) as [s' evs] eqn:Est. cbn [snd] in *.
    exists (fold_left (fun g e0 => vacc g t' false e0) evs (Gv p)). split; [apply vcache_same_views|].
    rewrite fold_vacc_sevs.
    assert (Hse : In e (sevs evs)).
    { unfold sevs. apply filter_In. split; [exact Hin|]. destruct e; try contradiction. destruct l; try contradiction. reflexivity. }
    pose proof (step_sstep cf (St p) t' x) as Hss. rewrite Est in Hss. cbn [fst snd] in Hss.
    destruct Hss as [H1 _|c0 op o fo ok H1 H2 _|c0 op o fo new H1 H2 H3 H4 _ _]; rewrite H1 in Hse |- *.
    - destruct Hse.
    - destruct Hse as [<-|[]]. cbn [acq_event] in He. destruct He as [-> [[-> Ha]|[-> Hop]]].
      + destruct H2 as [[_ ->]|[Hx _]]; [|discriminate Hx]. cbn [fold_left]. rewrite vacc_load, Ha. left. reflexivity.
      + destruct H2 as [[-> _]|[_ Hx]]; [|discriminate Hx]. destruct Hop; discriminate.
    - destruct Hse as [<-|[]]. cbn [acq_event] in He. destruct He as [-> _]. cbn [fold_left].
      rewrite (vacc_write _ t' false c' op o fo _ new H2 H3 H4). right. eauto. }
  destruct Hg as (g1 & (_ & Et & _) & [-> |(new & ->)]); rewrite Et.
  - cbn [rdg vt]. rewrite updN_same. unfold vjoin. lia.
  - cbn [wrg vt]. rewrite updN_same. unfold updN. destruct (N.eqb_spec c c') as [->|_]; [|unfold vjoin; lia].
    pose proof (va_m _ (run_VInvA cf s0 sched p) c' (length (vh (Gv p) c') - 1)%nat c'). lia.
Qed.

(** ** Freshness is transferred through any other container *)
Theorem view_handover t c i p1 c' j p2 t' p3 q :
  wrote p1 t c i -> wrote p2 t c' j -> (p1 < p2)%nat ->
  acquired p3 t' c' -> (p2 < p3)%nat -> (S p3 <= q)%nat ->
  (i <= vt (Gv q) t' c)%nat.
Proof.
  intros W1 W2 H12 A3 H23 Hq.
  pose proof (own_write_seen p1 t c i p2 W1 ltac:(lia)) as H1.
  pose proof (write_releases p2 t c' j c W2) as H2.
  destruct W2 as (x2 & _ & L1 & L2).
  pose proof (vm_stable (S p2) p3 c' j ltac:(lia) ltac:(lia)) as H3.
  pose proof (vh_length_mono cf s0 sched (S p2) p3 c' ltac:(lia)) as Hl.
  pose proof (va_mono _ (run_VInvA cf s0 sched p3) c' j (length (vh (Gv p3) c') - 1)%nat c ltac:(lia)) as H4.
  pose proof (acquire_joins p3 t' c' c A3) as H5.
  pose proof (vt_mono cf s0 sched (S p3) q t' c Hq) as H6.
  rewrite H3 in H4. lia.
Qed.
End Run.
