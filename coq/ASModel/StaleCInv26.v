(** * ASModel.StaleCInv26 — the view invariant [VInv], assembled.

    (a) [vi_hist]: the history of a never consumed container ends with its content (and is not
        empty: [va_ne]);
    (b) [va_t], [va_m]: views and released views are indices of the histories;
    (c) [vi_cache]: the index of a cache points at its value (never consumed container);
    (d) [va_mono], [va_self]: released views grow with the write index, write [i] releases [i]
        itself (every write of the model is an acquiring and releasing read-modify-write of the
        latest write: [o_lib_swap], [o_cas_exchange] are SeqCst on success). *)
From ASModel Require Import Base State Orderings_gen Step Run Hist.
From ASModel Require Import StaleC StaleCView StaleCInv6 StaleCInv10 StaleCInv12 StaleCInv20.

Record VInv (s : state) (g : vghost) : Prop := {
  vi_views : VInvA g;
  vi_hist : HistOK s g;
  vi_cache : CacheIdx s g;
}.

Theorem run_VInv cf inits progs sched :
  RunOKSC cf inits progs sched ->
  (forall p, NoCacheMove (StC cf (init_state inits progs) sched p)) ->
  forall k, VInv (StC cf (init_state inits progs) sched k) (GC cf (init_state inits progs) sched k).
Proof.
  intros R NM k. constructor; [apply run_VInvA|apply run_HistOK|apply run_CacheIdx; assumption].
Qed.

(** The first two parts need no hypothesis on the run at all. *)
Theorem run_VInv_views cf s0 sched k :
  VInvA (GC cf s0 sched k) /\ HistOK (StC cf s0 sched k) (GC cf s0 sched k).
Proof. split; [apply run_VInvA|apply run_HistOK]. Qed.

Print Assumptions run_VInv.
