(** * ASModel.StaleCInv27 — [MasterC] survives the replacement of a top frame by a twin
    ([StaleInv1.twin], [Stale2Inv1.twin2]): towards runs of [StaleC.step_stale3] (all five weakened
    loads).  The parts of [MasterC] shared with [Main.Master] are those of [StaleInv*] /
    [Stale2Inv*]; the accounting with cache commands ([CchAcc.AccInv]), [BotCmd] and [CacheH] are
    proved here for any pair of frames that agree on what these invariants look at ([ctwin]). *)
From Coq Require Import Lia.
From ASModel Require Import Base State Orderings_gen Step Run Progress Hist Inv InvTl InvProto InvStep Sum StepCases.
From ASModel Require Import GenDefs Gen1 Gen2 Gen EnvDefs Env4 Env ProtDefs Prot11 Typed1 Typed Safe1 Safe2 Safe8 Safe.
From ASModel Require Import CchDefs CchAcc1 CchAcc2 CchAcc3 CchAcc4 CchOwn CchAcc CchCmd CchMain.
From ASModel Require Stale StaleInv1 StaleInv2 StaleInv3 Stale2 Stale2Inv1 Stale2Inv2 Stale2Inv3.

Record ctwin (p p' : pc) : Prop := {
  ct_fr : forall a m, fr a m p' = fr a m p;
  ct_pend : forall a, fpend a p' = fpend a p;
  ct_bot : is_bottom_frame p = false;
  ct_bot' : is_bottom_frame p' = false;
  ct_fok : fokb p' = true;
  ct_runit : runit p' = runit p;
  ct_out : out_kinds p' = out_kinds p;
}.

Lemma twin_ctwin p p' : StaleInv1.twin p p' -> ctwin p p'.
Proof. intros T. destruct T; constructor; reflexivity. Qed.

Lemma twin2_ctwin p p' : Stale2Inv1.twin2 p p' -> ctwin p p'.
Proof. intros T. destruct T; constructor; reflexivity. Qed.

Section CRetop.
Variables (s : state) (t : N) (p p' : pc) (rest : list pc) (thr' : N -> thread).
Hypothesis Hs : t_stack (thr s t) = p :: rest.
Hypothesis Htw : ctwin p p'.
Hypothesis Hsame : thr' t = mkThread (p' :: rest) (t_loc (thr s t)) (t_prog (thr s t)) (t_cmdi (thr s t)) (t_status (thr s t)).
Hypothesis Hoth : forall t', t' <> t -> thr' t' = thr s t'.
Local Notation s' := (mkState (sh s) thr' (hnd s)).

Lemma cr_fun {A} (F : thread -> A) :
  (forall l pr ci st, F (mkThread (p' :: rest) l pr ci st) = F (mkThread (p :: rest) l pr ci st)) ->
  forall t', F (thr s' t') = F (thr s t').
Proof.
  intros HF t'. cbn [thr]. destruct (N.eq_dec t' t) as [->|Hne]; [|rewrite Hoth by exact Hne; reflexivity].
  rewrite Hsame, HF. destruct (thr s t) as [stk l pr ci st]. cbn in Hs. subst stk. reflexivity.
Qed.

Lemma cr_thread (F : thread -> Prop) :
  (forall l pr ci st, F (mkThread (p :: rest) l pr ci st) -> F (mkThread (p' :: rest) l pr ci st)) ->
  forall t', F (thr s t') -> F (thr s' t').
Proof.
  intros HF t' H. cbn [thr]. destruct (N.eq_dec t' t) as [->|Hne]; [|rewrite Hoth by exact Hne; exact H].
  rewrite Hsame. apply HF. destruct (thr s t) as [stk l pr ci st]. cbn in Hs. subst stk. exact H.
Qed.

Lemma cr_in t' f : In f (t_stack (thr s' t')) -> (t' = t /\ f = p') \/ In f (t_stack (thr s t')).
Proof.
  cbn [thr]. destruct (N.eq_dec t' t) as [->|Hne]; [|rewrite Hoth by exact Hne; auto].
  rewrite Hsame, Hs. cbn [t_stack]. intros [<-|H]; [left; auto|right; right; exact H].
Qed.

Lemma cr_prog_cmdi t' : t_prog (thr s' t') = t_prog (thr s t') /\ t_cmdi (thr s' t') = t_cmdi (thr s t').
Proof. cbn [thr]. destruct (N.eq_dec t' t) as [->|Hne]; [rewrite Hsame; auto|rewrite Hoth by exact Hne; auto]. Qed.

Lemma cr_AccInv : AccInv s -> AccInv s'.
Proof.
  intros [A Al Fr Ty OT]. constructor.
  - intros a Ha. destruct (A a Ha) as (nL & nR & TL & TR & E). exists nL, nR. split; [|split; [|exact E]].
    + eapply Total_ext; [|exact TL]. intros [n j|c|w|t'|h]; try reflexivity. cbn [Lw hnd]. symmetry.
      apply (cr_fun (fun th => spend a (t_stack th) + skd a (hnd s) (t_stack th))). intros. cbn [t_stack spend skd].
      rewrite (ct_pend _ _ Htw), (nonbottom_kd a (hnd s) p (ct_bot _ _ Htw)), (nonbottom_kd a (hnd s) p' (ct_bot' _ _ Htw)). reflexivity.
    + eapply Total_ext; [|exact TR]. intros [n j|c|w|t'|h]; try reflexivity. cbn [Rw sh]. symmetry.
      apply (cr_fun (fun th => srefs a (mem (sh s)) (t_stack th))). intros. cbn [t_stack srefs]. rewrite (ct_fr _ _ Htw). reflexivity.
  - exact Al.
  - exact Fr.
  - intros t'. pose proof (Ty t') as H. revert H.
    apply (cr_thread (fun th => typed (t_stack th))). cbn [t_stack typed]. intros _ _ _ _ (_ & H2 & H3).
    split; [exact (ct_fok _ _ Htw)|]. split; [|exact H3]. unfold link in *. destruct rest as [|w r].
    + rewrite (ct_bot _ _ Htw) in H2. discriminate H2.
    + split; [exact (ct_bot' _ _ Htw)|]. rewrite (ct_runit _ _ Htw). exact (proj2 H2).
  - intros t'. pose proof (OT t') as H. revert H.
    apply (cr_thread (fun th => otyped (t_stack th))). cbn [t_stack otyped]. intros _ _ _ _.
    rewrite (ct_out _ _ Htw). exact (fun H => H).
Qed.

Lemma cr_BotCmd : BotCmd s -> BotCmd s'.
Proof.
  intros B t' b Hin Hb. destruct (cr_prog_cmdi t') as [-> ->].
  destruct (cr_in t' b Hin) as [[_ ->]|H]; [rewrite (ct_bot' _ _ Htw) in Hb; discriminate Hb|exact (B t' b H Hb)].
Qed.

Lemma cr_CacheH : CacheH s -> CacheH s'.
Proof.
  intros C t' c k Hin. destruct (cr_in t' _ Hin) as [[_ E]|H]; [|exact (C t' c k H)].
  pose proof (ct_bot' _ _ Htw) as Hb. rewrite <- E in Hb. discriminate Hb.
Qed.
End CRetop.

Lemma MasterC_retop s t p p' rest thr' :
  t_stack (thr s t) = p :: rest -> StaleInv1.twin p p' -> pc_vok p' = true ->
  thr' t = mkThread (p' :: rest) (t_loc (thr s t)) (t_prog (thr s t)) (t_cmdi (thr s t)) (t_status (thr s t)) ->
  (forall t', t' <> t -> thr' t' = thr s t') ->
  MasterC s -> MasterC (mkState (sh s) thr' (hnd s)).
Proof.
  intros Hs Htw Hv Hsame Hoth [W Q G E C A P T V CC B CH NF]. pose proof (twin_ctwin _ _ Htw) as Hc. constructor.
  - eapply StaleInv1.retop_WF2; eassumption.
  - eapply StaleInv1.retop_Quiet; eassumption.
  - eapply StaleInv2.retop_GenInv; eassumption.
  - eapply StaleInv2.retop_EnvInv; eassumption.
  - exact C.
  - eapply cr_AccInv; eassumption.
  - eapply StaleInv3.retop_ProtInv'; eassumption.
  - eapply StaleInv1.retop_Typed; eassumption.
  - eapply StaleInv2.retop_ValOK; eassumption.
  - eapply StaleInv1.retop_CloneCmd; eassumption.
  - eapply cr_BotCmd; eassumption.
  - eapply cr_CacheH; eassumption.
  - eapply StaleInv1.retop_NoFault; eassumption.
Qed.

Lemma MasterC_retop2 s t p p' rest thr' :
  t_stack (thr s t) = p :: rest -> Stale2Inv1.twin2 p p' ->
  thr' t = mkThread (p' :: rest) (t_loc (thr s t)) (t_prog (thr s t)) (t_cmdi (thr s t)) (t_status (thr s t)) ->
  (forall t', t' <> t -> thr' t' = thr s t') ->
  MasterC s -> MasterC (mkState (sh s) thr' (hnd s)).
Proof.
  intros Hs Htw Hsame Hoth [W Q G E C A P T V CC B CH NF]. pose proof (twin2_ctwin _ _ Htw) as Hc.
  assert (Hv : pc_vok p' = true).
  { assert (Hv0 : pc_vok p = true) by (pose proof (v_stk _ V t) as H; rewrite Hs in H; cbn in H; apply andb_prop in H; apply H).
    destruct Htw; cbn in *; auto. }
  constructor.
  - eapply Stale2Inv1.retop_WF2; eassumption.
  - eapply Stale2Inv1.retop_Quiet; eassumption.
  - eapply Stale2Inv2.retop_GenInv; eassumption.
  - eapply Stale2Inv2.retop_EnvInv; eassumption.
  - exact C.
  - eapply cr_AccInv; eassumption.
  - eapply Stale2Inv3.retop_ProtInv'; eassumption.
  - eapply Stale2Inv1.retop_Typed; eassumption.
  - eapply Stale2Inv2.retop_ValOK; eassumption.
  - eapply Stale2Inv1.retop_CloneCmd; eassumption.
  - eapply cr_BotCmd; eassumption.
  - eapply cr_CacheH; eassumption.
  - eapply Stale2Inv1.retop_NoFault; eassumption.
Qed.
