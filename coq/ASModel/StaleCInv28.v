(** * ASModel.StaleCInv28 — all five weakened loads together ([StaleC.step_stale3]): the master
    invariant with cache commands is preserved, no fault, no access to a destroyed value. *)
From Coq Require Import Lia.
From ASModel Require Import Base State Orderings_gen Step Run Progress Hist Inv InvTl InvProto InvStep Sum StepCases.
From ASModel Require Import GenDefs Gen1 Gen2 Gen EnvDefs Env4 Env ProtDefs Prot11 Typed Safe1 Safe2 Safe8 Safe Main Lin.
From ASModel Require Import CchDefs CchAcc CchCmd CchMain.
From ASModel Require Import Stale StaleInv1 StaleInv4 StaleInv5 Stale2 Stale2Inv1 Stale2Inv4 Stale2Inv5 Stale2Inv6.
From ASModel Require Import StaleC StaleCView StaleCInv1 StaleCInv5 StaleCInv6 StaleCInv27.

Theorem step_stale_MasterC cf s t x :
  GenBound s -> ProgOKC s -> alloc_ok s t x -> stale_ok s t x -> MasterC s -> MasterC (fst (step_stale cf s t x)).
Proof.
  intros GB PO AO SO M. pose proof (step_MasterC cf s t x GB PO AO M) as Mn.
  destruct (step_stale_cases cf s t x) as [E|c rest p p' thr' Hr Hst Hx Hsn Htw Ep' Hsame Hoth E]; rewrite E; [exact Mn|].
  eapply MasterC_retop; try eassumption.
  subst p'. unfold stale_ok in SO. rewrite Hst in SO. specialize (SO Hx).
  destruct (cf_debug cf); cbn; unfold av; rewrite Bool.negb_true_iff, N.eqb_neq; exact SO.
Qed.

Section SideC.
Variables (s : state) (t : N) (p p' : pc) (rest : list pc) (thr' : N -> thread).
Hypothesis Hs : t_stack (thr s t) = p :: rest.
Hypothesis Hsame : thr' t = mkThread (p' :: rest) (t_loc (thr s t)) (t_prog (thr s t)) (t_cmdi (thr s t)) (t_status (thr s t)).
Hypothesis Hoth : forall t', t' <> t -> thr' t' = thr s t'.
Hypothesis Hp' : forall a, p' <> CloneInc a.
Local Notation s' := (mkState (sh s) thr' (hnd s)).

Lemma sideC_GenBound : GenBound s -> GenBound s'.
Proof.
  intros H t'. cbn. destruct (N.eq_dec t' t) as [->|Hne]; [rewrite Hsame; apply H|rewrite Hoth by exact Hne; apply H].
Qed.

Lemma sideC_ProgOKC : ProgOKC s -> ProgOKC s'.
Proof.
  intros (NS & DE & CS & CE). split; [|split; [|split]].
  - intros t' g. cbn. destruct (N.eq_dec t' t) as [->|Hne]; [rewrite Hsame; apply NS|rewrite Hoth by exact Hne; apply NS].
  - intros t' c h. cbn. destruct (N.eq_dec t' t) as [->|Hne]; [|rewrite Hoth by exact Hne; apply DE].
    rewrite Hsame. cbn. intros Hr Hc Hd. specialize (DE t c h Hr Hc Hd).
    destruct c; try exact DE; destruct DE as [E|[E _]]; try (left; exact E); rewrite Hs in E; discriminate E.
  - intros t' h h2 a rest'. cbn. destruct (N.eq_dec t' t) as [->|Hne]; [|rewrite Hoth by exact Hne; apply CS].
    rewrite Hsame. cbn. intros _ _ E. injection E as E _. destruct (Hp' a E).
  - intros t1 t2 cm cm' k Hne Hst Hc' Hon Hr Hc.
    assert (F : forall t0, t_prog (thr' t0) = t_prog (thr s t0) /\ t_cmdi (thr' t0) = t_cmdi (thr s t0) /\
                           t_status (thr' t0) = t_status (thr s t0) /\ (t_stack (thr' t0) <> [] -> t_stack (thr s t0) <> [])).
    { intros t0. destruct (N.eq_dec t0 t) as [->|H0]; [rewrite Hsame, Hs; cbn; repeat split; discriminate|rewrite Hoth by exact H0; auto]. }
    cbn [thr] in *. destruct (F t1) as (A1 & A2 & A3 & _). destruct (F t2) as (B1 & B2 & _ & B4).
    rewrite A1, A2 in Hc. rewrite A3 in Hr. rewrite B1, B2 in Hc'.
    exact (CE t1 t2 cm cm' k Hne (B4 Hst) Hc' Hon Hr Hc).
Qed.
End SideC.

Theorem step_stale2_MasterC cf s t x :
  GenBound s -> ProgOKC s -> alloc_ok s t x -> stale2_ok s t x -> MasterC s -> MasterC (fst (step_stale2 cf s t x)).
Proof.
  intros GB PO AO SO M.
  destruct (step_stale2_cases cf s t x (mc_wf _ M) SO)
    as [E|c rest Hst|sn p p' rest thr' Esn Hr Hne Hci Hsn Htw Hsame Hoth E
        |c v i rest thr1 sn q thr2 Hr Hst Hsame1 Hoth1 Esn Hsh Hhnd Hci Hsn Htw Hsame2 Hoth2 E].
  - rewrite E. apply step_MasterC; assumption.
  - rewrite (step_stale2_LA1 cf s t x c rest Hst). apply step_stale_MasterC; try assumption. apply stale2_ok_stale. exact SO.
  - rewrite E. eapply MasterC_retop2; try eassumption. rewrite Esn. apply step_MasterC; assumption.
  - rewrite E. eapply MasterC_retop2; try eassumption. rewrite Esn. apply step_MasterC.
    + eapply sideC_GenBound; eassumption.
    + eapply sideC_ProgOKC; try eassumption. discriminate.
    + unfold alloc_ok. cbn. rewrite Hsame1. exact I.
    + eapply MasterC_retop2; try eassumption. constructor.
Qed.

Lemma step_stale3_other cf s t x :
  (forall c a k rest, t_stack (thr s t) <> Q1 c a k :: rest) -> step_stale3 cf s t x = step_stale2 cf s t x.
Proof.
  intros H. unfold step_stale3. destruct (t_status (thr s t)); try reflexivity.
  destruct (t_stack (thr s t)) as [|p rest] eqn:Hs; [reflexivity|]. destruct p; try reflexivity.
  elim (H c a k rest eq_refl).
Qed.

Lemma step_stale3_cases cf s t x :
  step_stale3 cf s t x = step_staleC cf s t x \/ step_stale3 cf s t x = step_stale2 cf s t x.
Proof.
  destruct (t_stack (thr s t)) as [|p rest] eqn:Hs.
  - right. apply step_stale3_other. intros c a k r. rewrite Hs. discriminate.
  - destruct p; try (right; apply step_stale3_other; intros ? ? ? ?; rewrite Hs; discriminate).
    left. eapply step_stale3_Q1. exact Hs.
Qed.

Theorem step_stale3_MasterC cf s t x :
  GenBound s -> ProgOKC s -> alloc_ok s t x -> stale2_ok s t x -> MasterC s -> MasterC (fst (step_stale3 cf s t x)).
Proof.
  intros GB PO AO SO M. destruct (step_stale3_cases cf s t x) as [-> | ->].
  - apply step_staleC_MasterC; assumption.
  - apply step_stale2_MasterC; assumption.
Qed.

Theorem step_stale3_no_dead_event cf s t x f :
  MasterC s -> ProgOKC s -> dead_fault f -> ~ In (EvFault f) (snd (step_stale3 cf s t x)).
Proof.
  intros M PO Hf. destruct (step_stale3_cases cf s t x) as [-> | ->].
  - apply step_staleC_no_dead_event; assumption.
  - intros Hin. apply step_stale2_fault_event in Hin. exact (step_no_dead_eventC cf s t x f M PO Hf Hin).
Qed.

(** ** Runs of [vstep3] *)
Definition SC3 (cf : config) (s0 : state) (sched : list (N * N)) (k : nat) : state * vghost :=
  vrun3 cf (s0, vghost0 s0) (firstn k sched).
Definition St3 (cf : config) (s0 : state) (sched : list (N * N)) (k : nat) : state := fst (SC3 cf s0 sched k).
Definition G3 (cf : config) (s0 : state) (sched : list (N * N)) (k : nat) : vghost := snd (SC3 cf s0 sched k).

Lemma SC3_step cf s0 sched k t x :
  nth_error sched k = Some (t, x) -> SC3 cf s0 sched (S k) = vstep3 cf (SC3 cf s0 sched k) t x.
Proof. intros H. unfold SC3, vrun3. rewrite (firstn_succ_nth _ _ _ H), fold_left_app. reflexivity. Qed.

Lemma SC3_end cf s0 sched k : nth_error sched k = None -> SC3 cf s0 sched (S k) = SC3 cf s0 sched k.
Proof. intros H. apply nth_error_None in H. unfold SC3. rewrite !firstn_all2 by lia. reflexivity. Qed.

Lemma St3_step cf s0 sched k t x :
  nth_error sched k = Some (t, x) -> St3 cf s0 sched (S k) = fst (step_stale3 cf (St3 cf s0 sched k) t x).
Proof.
  intros H. unfold St3. rewrite (SC3_step _ _ _ _ _ _ H). destruct (SC3 cf s0 sched k) as [s g]. apply vstep_with_fst.
Qed.

Lemma St3_end cf s0 sched k : nth_error sched k = None -> St3 cf s0 sched (S k) = St3 cf s0 sched k.
Proof. intros H. unfold St3. rewrite (SC3_end _ _ _ _ H). reflexivity. Qed.

Lemma step_stale3_prog cf s t x t' : t_prog (thr (fst (step_stale3 cf s t x)) t') = t_prog (thr s t').
Proof.
  destruct (step_stale3_cases cf s t x) as [-> | ->]; [apply step_staleC_prog|apply step_stale2_prog].
Qed.

Lemma St3_prog cf s0 sched k t : t_prog (thr (St3 cf s0 sched k) t) = t_prog (thr s0 t).
Proof.
  induction k as [|k IH]; [reflexivity|].
  destruct (nth_error sched k) as [[t0 x0]|] eqn:Hk.
  - rewrite (St3_step _ _ _ _ _ _ Hk), step_stale3_prog. exact IH.
  - rewrite (St3_end _ _ _ _ Hk). exact IH.
Qed.

Record RunOKS3 (cf : config) (inits : list N) (progs : list (list cmd)) (sched : list (N * N)) : Prop := {
  r3_inits : inits_ok inits;
  r3_progs : progs_nosetgen progs;
  r3_state : forall k, let s := St3 cf (init_state inits progs) sched k in
                       GenBound s /\ DstEmptyC s /\ CloneSrcCmd s /\ CacheExcl s;
  r3_alloc : forall k t x, nth_error sched k = Some (t, x) -> alloc_ok (St3 cf (init_state inits progs) sched k) t x;
  r3_stale2 : forall k t x, nth_error sched k = Some (t, x) -> stale2_ok (St3 cf (init_state inits progs) sched k) t x;
  r3_staleC : forall k t x, nth_error sched k = Some (t, x) ->
                staleC_ok (G3 cf (init_state inits progs) sched k) (St3 cf (init_state inits progs) sched k) t x;
}.

Lemma RunOKS3_ProgOKC cf inits progs sched :
  RunOKS3 cf inits progs sched -> forall k, ProgOKC (St3 cf (init_state inits progs) sched k).
Proof.
  intros R k. destruct (r3_state _ _ _ _ R k) as (_ & DE & CS & CE). split; [|split; [|split]]; try assumption.
  intros t g. rewrite St3_prog. apply (NoSetGen_init inits progs (r3_progs _ _ _ _ R)).
Qed.

Theorem RunOKS3_MasterC cf inits progs sched :
  RunOKS3 cf inits progs sched -> forall k, MasterC (St3 cf (init_state inits progs) sched k).
Proof.
  intros R. induction k as [|k IH]; [apply MasterC_init; apply R|].
  destruct (nth_error sched k) as [[t x]|] eqn:Hk.
  - rewrite (St3_step _ _ _ _ _ _ Hk). apply step_stale3_MasterC.
    + apply (r3_state _ _ _ _ R k).
    + apply RunOKS3_ProgOKC. exact R.
    + exact (r3_alloc _ _ _ _ R k t x Hk).
    + exact (r3_stale2 _ _ _ _ R k t x Hk).
    + exact IH.
  - rewrite (St3_end _ _ _ _ Hk). exact IH.
Qed.

(** No thread ever faults, no step of the run touches a destroyed value. *)
Theorem C16_no_fault_stale3 cf inits progs sched :
  RunOKS3 cf inits progs sched ->
  (forall k, NoFault (St3 cf (init_state inits progs) sched k)) /\
  forall k t x, nth_error sched k = Some (t, x) ->
    forall a, ~ In (EvFault (FDeadInc a)) (snd (step_stale3 cf (St3 cf (init_state inits progs) sched k) t x)) /\
              ~ In (EvFault (FDeadDec a)) (snd (step_stale3 cf (St3 cf (init_state inits progs) sched k) t x)).
Proof.
  intros R. split; [intros k; apply (RunOKS3_MasterC _ _ _ _ R k)|].
  intros k t x Hk a. pose proof (RunOKS3_MasterC _ _ _ _ R k) as M. pose proof (RunOKS3_ProgOKC _ _ _ _ R k) as PO.
  split; apply step_stale3_no_dead_event; try assumption; exists a; auto.
Qed.

Print Assumptions step_stale3_MasterC.
Print Assumptions C16_no_fault_stale3.
