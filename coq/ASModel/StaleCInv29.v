(** * ASModel.StaleCInv29 — the view invariants along runs of [vstep3] (all five weakened loads):
    [VInvA], [HistOK], histories and views only grow.  The four loads weakened by [Stale2] change
    no memory; the stale first read of the fast path ([LA1]) is, for the views, a Relaxed read of
    the latest write (the model does not trust its value). *)
From Coq Require Import Lia.
From ASModel Require Import Base State Orderings_gen Step Run Progress Hist Inv InvTl InvProto InvStep Sum StepCases.
From ASModel Require Import Lin Lin1 LinCache2 Stale Stale2 Stale2Inv6 StaleC StaleCView.
From ASModel Require Import StaleCInv1 StaleCInv3 StaleCInv6 StaleCInv9 StaleCInv10 StaleCInv11 StaleCInv12 StaleCInv28.

Lemma stale2_exec_store cf s l p v s1 l1 evs nx :
  stale2_exec cf s l p v = Some (s1, l1, evs, nx) ->
  s1 = s /\ (sevs evs = [] \/ exists c, sevs evs = [EvAcc (LStore c) OLoad Relaxed Relaxed v v true]).
Proof.
  intros H. destruct p; cbn [stale2_exec] in H; try discriminate H.
  - injection H as <- <- <- <-. split; [reflexivity|left; reflexivity].
  - injection H as <- <- <- <-. split; [reflexivity|left; reflexivity].
  - unfold stale_exec in H. destruct (tl_node l); [|injection H as <- <- <- <-; split; [reflexivity|right; eauto]].
    injection H as <- <- <- <-. split; [reflexivity|right; eauto].
  - destruct (v =? NONE); [discriminate H|]. destruct (i =? 7).
    + destruct (fallback_entry cf l c) as [l' nx']. injection H as <- <- <- <-. split; [reflexivity|left; reflexivity].
    + injection H as <- <- <- <-. split; [reflexivity|left; reflexivity].
Qed.

Lemma step_stale2_store cf s t x :
  step_stale2 cf s t x = step cf s t x \/
  (sh (fst (step_stale2 cf s t x)) = sh s /\
   (sevs (snd (step_stale2 cf s t x)) = [] \/
    exists c v, sevs (snd (step_stale2 cf s t x)) = [EvAcc (LStore c) OLoad Relaxed Relaxed v v true])).
Proof.
  unfold step_stale2. destruct (t_status (thr s t)); try (left; reflexivity).
  destruct (t_stack (thr s t)) as [|p rest]; [left; reflexivity|]. destruct (2 <=? x); [|left; reflexivity].
  destruct (stale2_exec cf (sh s) (t_loc (thr s t)) p (x - 2)) as [[[[s1 l1] evs] nx]|] eqn:He; [|left; reflexivity].
  right. destruct (stale2_exec_store _ _ _ _ _ _ _ _ _ He) as [-> Hev]. rewrite finish_sh, finish_sevs.
  split; [reflexivity|]. destruct Hev as [E|(c & E)]; [left; exact E|right; eauto].
Qed.

Inductive vacc_res3 (cf : config) (s : state) (g : vghost) (t x : N) (g1 : vghost) : Prop :=
| v3_c : step_stale3 cf s t x = step_staleC cf s t x -> vacc_res cf s g t x g1 -> vacc_res3 cf s g t x g1
| v3_none : sh (fst (step_stale3 cf s t x)) = sh s -> g1 = g -> vacc_res3 cf s g t x g1
| v3_read c : sh (fst (step_stale3 cf s t x)) = sh s -> g1 = rdg g t c (length (vh g c) - 1) false ->
              vacc_res3 cf s g t x g1.

Theorem vstep3_ghost cf s g t x :
  exists g1,
    vstep3 cf (s, g) t x =
      (fst (step_stale3 cf s t x), vcache g1 s (fst (step_stale3 cf s t x)) t (q1_read_idx g s t x)) /\
    vacc_res3 cf s g t x g1.
Proof.
  assert (HC : step_stale3 cf s t x = step_staleC cf s t x ->
               exists g1, vstep3 cf (s, g) t x =
                 (fst (step_stale3 cf s t x), vcache g1 s (fst (step_stale3 cf s t x)) t (q1_read_idx g s t x)) /\
                 vacc_res3 cf s g t x g1).
  { intros E. destruct (vstepC_ghost cf s g t x) as (g1 & E1 & Rv). exists g1. split; [|apply v3_c; assumption].
    rewrite E, <- E1. unfold vstep3, vstepC, vstep_with. rewrite E. reflexivity. }
  destruct (q1_stale s t x) eqn:Hq.
  { destruct (q1_stale_true s t x Hq) as (_ & _ & c & a & k & rest & Hs). apply HC. eapply step_stale3_Q1. exact Hs. }
  destruct (step_stale3_cases cf s t x) as [E|E]; [exact (HC E)|].
  destruct (step_stale2_store cf s t x) as [E2|(Hsh & Hev)].
  { apply HC. rewrite E, E2. symmetry. apply q1_stale_false. exact Hq. }
  unfold vstep3, vstep_with. rewrite Hq. rewrite E in *.
  destruct (step_stale2 cf s t x) as [s' evs] eqn:Est. cbn [fst snd] in *.
  exists (fold_left (fun g0 e => vacc g0 t false e) evs g). split; [reflexivity|].
  rewrite fold_vacc_sevs. destruct Hev as [Ev|(c & v & Ev)]; rewrite Ev; cbn [fold_left].
  - apply v3_none; [rewrite E; exact Hsh|reflexivity].
  - apply (v3_read _ _ _ _ _ _ c); [rewrite E; exact Hsh|apply vacc_load].
Qed.
